//go:build c03

package main

// AUDIT2 (c) items 5-7: the VM-stack API beyond Marshal/Unmarshal (VmStack.Put, VmStack.Unmarshal(dest), the tuple and
// cell helpers) and the DNS record decoders of tlb/dns.go, none of which was reached by any line before.
//
//	tlb.stackput <values>    Put applied to the values in order (Go) == the model's prepend     (compared)
//	tlb.dns <cell>           tlb.Unmarshal into tlb.DNSRecord == Dns.decDnsRecord               (compared)
//	tlb.dnstext <cell>       tlb.Unmarshal into tlb.DNSText == Dns.decDnsText                   (compared)
//	tlb.dnsspec <chunks…>    the harness's schema-based builder of `Text` == Dns.specDnsText    (compared)
//	go.vmstack.dest <seed>   VmStack.Unmarshal(&struct): field i receives entry i (results bottom-first)
//	go.vmtuple <k> <seed>    a tuple cell built from the schema decodes to its elements in order (slice and struct)
//	go.vmcell.rt <seed>      TlbStructToVmCell / …Slice / CellToVmCellSlice followed by VmStackValue.Unmarshal

import (
	"encoding/hex"
	"fmt"
	"math/big"
	"math/rand"
	"reflect"
	"strconv"
	"strings"

	"github.com/tonkeeper/tongo/boc"
	"github.com/tonkeeper/tongo/tlb"
	"verifharness/h"
	"verifharness/tlbx"
)

func guard(f func() string) (ans string) {
	defer func() {
		if r := recover(); r != nil {
			ans = "panic"
		}
	}()
	return f()
}

func exTlbStackPut(a []string) string {
	tt := tlbLookup("tlb.VmStack")
	v, err := tlbx.Read(a[0], tt.T)
	if err != nil {
		return "bad-op"
	}
	return guard(func() string {
		in := v.Interface().(tlb.VmStack)
		s := tlb.VmStack{}
		for _, e := range in {
			s.Put(e)
		}
		return "ok " + tlbx.Print(reflect.ValueOf(&s).Elem())
	})
}

func exTlbDns(a []string) string {
	c := h.BuildCells(h.ParseTable(a[0]))[0]
	v, err := unmarshalInto(c, reflect.TypeOf(tlb.DNSRecord{}))
	if err != nil {
		return outcomeOf(err)
	}
	return "ok " + tlbx.Print(tlbx.Addressable(v))
}

func exTlbDnsText(a []string) string {
	c := h.BuildCells(h.ParseTable(a[0]))[0]
	v, err := unmarshalInto(c, reflect.TypeOf(tlb.DNSText("")))
	if err != nil {
		return outcomeOf(err)
	}
	return "ok x" + hex.EncodeToString([]byte(v.String()))
}

// dnsTextInto writes `Text` as block.tlb prescribes: chunks:(## 8), then the first chunk (len:(## 8) data) in the same
// cell and every further chunk in a cell behind the first reference of the previous one
func dnsTextInto(c *boc.Cell, chunks [][]byte) error {
	if err := c.WriteUint(uint64(len(chunks)), 8); err != nil {
		return err
	}
	return dnsChunksInto(c, chunks)
}

func dnsChunksInto(c *boc.Cell, chunks [][]byte) error {
	if len(chunks) == 0 {
		return nil
	}
	if err := c.WriteUint(uint64(len(chunks[0])), 8); err != nil {
		return err
	}
	if err := c.WriteBytes(chunks[0]); err != nil {
		return err
	}
	if len(chunks) > 1 {
		next := boc.NewCell()
		if err := dnsChunksInto(next, chunks[1:]); err != nil {
			return err
		}
		return c.AddRef(next)
	}
	return nil
}

func exTlbDnsSpec(a []string) string {
	var chunks [][]byte
	for _, x := range a {
		if x == "-" {
			chunks = append(chunks, nil)
			continue
		}
		b, err := hex.DecodeString(x)
		if err != nil {
			return "bad-op"
		}
		chunks = append(chunks, b)
	}
	c := boc.NewCell()
	if err := dnsTextInto(c, chunks); err != nil {
		return "bad-op"
	}
	return "ok " + tlbx.CellText(c)
}

// ---- Go-side oracles ----------------------------------------------------------------------------------------------

func tiny(x int64) tlb.VmStackValue {
	return tlb.VmStackValue{SumType: "VmStkTinyInt", VmStkTinyInt: x}
}

func goVmStackDest(a []string) string {
	seed, _ := strconv.ParseInt(a[0], 10, 64)
	rng := rand.New(rand.NewSource(seed))
	return guard(func() string {
		x0 := rng.Int63() - rng.Int63()
		b1 := rng.Intn(2) == 1
		u2 := rng.Uint32()
		big3 := new(big.Int).Lsh(big.NewInt(rng.Int63()), uint(rng.Intn(190)))
		var h5 tlb.Bits256
		rng.Read(h5[:])
		// entry i of the stack (results come bottom-first: entry 0 is the first result) fills field i
		s := tlb.VmStack{
			tiny(x0),
			tiny(map[bool]int64{false: 0, true: -1}[b1]),
			tiny(int64(u2)),
			{SumType: "VmStkInt", VmStkInt: tlb.Int257(*big3)},
			{SumType: "VmStkNull"},
			{SumType: "VmStkInt", VmStkInt: tlb.Int257(*new(big.Int).SetBytes(h5[:]))},
		}
		var dest struct {
			A int64
			B bool
			C uint32
			D tlb.Int257
			E *int64
			F tlb.Bits256
		}
		if err := s.Unmarshal(&dest); err != nil {
			return "FAIL unmarshal-err " + trunc(err.Error())
		}
		d := big.Int(dest.D)
		switch {
		case dest.A != x0:
			return fmt.Sprintf("FAIL field-0 got=%d want=%d", dest.A, x0)
		case dest.B != b1:
			return "FAIL field-1"
		case dest.C != u2:
			return fmt.Sprintf("FAIL field-2 got=%d want=%d", dest.C, u2)
		case d.Cmp(big3) != 0:
			return "FAIL field-3"
		case dest.E != nil:
			return "FAIL field-4"
		case dest.F != h5:
			return "FAIL field-5"
		}
		// fewer fields than entries: the first entries; more fields than entries: an error
		var two struct{ A, B int64 }
		if err := (tlb.VmStack{tiny(7), tiny(8), tiny(9)}).Unmarshal(&two); err != nil || two.A != 7 || two.B != 8 {
			return "FAIL prefix"
		}
		if err := (tlb.VmStack{tiny(7)}).Unmarshal(&two); err == nil {
			return "FAIL short-stack-accepted"
		}
		return "ok"
	})
}

// vmValueCell: a VmStackValue in a cell of its own
func vmValueCell(v tlb.VmStackValue) *boc.Cell {
	c := boc.NewCell()
	if err := tlb.Marshal(c, v); err != nil {
		panic(err)
	}
	return c
}

// vmTupleInto writes `VmTuple n` for the elements xs (n = len(xs) >= 1) as the schema prescribes:
//
//	vm_tuple_tcons$_ {n:#} head:(VmTupleRef n) tail:^VmStackValue = VmTuple (n + 1);
//	vm_tupref_nil$_ = VmTupleRef 0; vm_tupref_single$_ entry:^VmStackValue = VmTupleRef 1;
//	vm_tupref_any$_ {n:#} ref:^(VmTuple (n + 2)) = VmTupleRef (n + 2);
func vmTupleInto(c *boc.Cell, xs []tlb.VmStackValue) {
	n := len(xs)
	switch {
	case n-1 == 1:
		must(c.AddRef(vmValueCell(xs[0])))
	case n-1 >= 2:
		inner := boc.NewCell()
		vmTupleInto(inner, xs[:n-1])
		must(c.AddRef(inner))
	}
	must(c.AddRef(vmValueCell(xs[n-1])))
}

func must(err error) {
	if err != nil {
		panic(err)
	}
}

func goVmTuple(a []string) string {
	k, _ := strconv.Atoi(a[0])
	seed, _ := strconv.ParseInt(a[1], 10, 64)
	rng := rand.New(rand.NewSource(seed))
	return guard(func() string {
		xs := make([]tlb.VmStackValue, k)
		want := make([]int64, k)
		for i := range xs {
			want[i] = rng.Int63() - rng.Int63()
			xs[i] = tiny(want[i])
		}
		c := boc.NewCell()
		must(c.WriteUint(0x07, 8)) // vm_stk_tuple#07 len:(## 16) data:(VmTuple len)
		must(c.WriteUint(uint64(k), 16))
		if k > 0 {
			vmTupleInto(c, xs)
		}
		var v tlb.VmStackValue
		if err := tlb.Unmarshal(c, &v); err != nil {
			return "FAIL decode-err " + trunc(err.Error())
		}
		if v.SumType != "VmStkTuple" || int(v.VmStkTuple.Len) != k {
			return "FAIL decode-shape"
		}
		if k >= 2 { // a flat tuple of k >= 2 entries into a struct of k fields (a 1-tuple is refused by the library)
			fields := make([]reflect.StructField, k)
			for i := range fields {
				fields[i] = reflect.StructField{Name: fmt.Sprintf("F%d", i), Type: reflect.TypeOf(int64(0))}
			}
			dest := reflect.New(reflect.StructOf(fields))
			if err := v.Unmarshal(dest.Interface()); err != nil {
				return "FAIL struct-err " + trunc(err.Error())
			}
			for i := 0; i < k; i++ {
				if dest.Elem().Field(i).Int() != want[i] {
					return fmt.Sprintf("FAIL struct-field-%d", i)
				}
			}
		}
		// a slice destination takes the lisp-style list (x0 . (x1 . (… . null))): pairs whose tail is a pair or null
		var list tlb.VmStackValue
		if err := tlb.Unmarshal(consListCell(xs), &list); err != nil {
			return "FAIL list-decode-err " + trunc(err.Error())
		}
		if k >= 1 {
			var got []int64
			if err := list.Unmarshal(&got); err != nil {
				return "FAIL slice-err " + trunc(err.Error())
			}
			if fmt.Sprint(got) != fmt.Sprint(want) {
				return "FAIL slice-order got=" + trunc(fmt.Sprint(got))
			}
		}
		return "ok"
	})
}

// consListCell: vm_stk_null for the empty list, else vm_stk_tuple#07 len:2 with head entry:^x0 and tail:^(the rest)
func consListCell(xs []tlb.VmStackValue) *boc.Cell {
	c := boc.NewCell()
	if len(xs) == 0 {
		must(c.WriteUint(0x00, 8))
		return c
	}
	must(c.WriteUint(0x07, 8))
	must(c.WriteUint(2, 16))
	must(c.AddRef(vmValueCell(xs[0])))
	must(c.AddRef(consListCell(xs[1:])))
	return c
}

func goVmCellRT(a []string) string {
	seed, _ := strconv.ParseInt(a[0], 10, 64)
	rng := rand.New(rand.NewSource(seed))
	gc := tlbx.NewGenCtx(rng, tlbU)
	gc.ModelOnly = true
	return guard(func() string {
		for _, name := range []string{"tlb.MsgAddress", "tlb.CurrencyCollection", "tlb.StateInit"} {
			tt := tlbLookup(name)
			v := reflect.New(tt.T).Elem()
			gc.Gen(tt.D, v, "p")
			want := tlbx.Print(v)
			direct, err := marshalValue(v)
			if err != nil {
				continue
			}
			for _, mk := range []func(any) (tlb.VmStackValue, error){
				tlb.TlbStructToVmCell, tlb.TlbStructToVmCellSlice,
				func(any) (tlb.VmStackValue, error) { return tlb.CellToVmCellSlice(direct) },
			} {
				sv, err := mk(v.Interface())
				if err != nil {
					return "FAIL wrap-err " + name
				}
				out := reflect.New(tt.T)
				if err := sv.Unmarshal(out.Interface()); err != nil {
					return "FAIL unwrap-err " + name + " " + trunc(err.Error())
				}
				if got := tlbx.Print(out.Elem()); got != want {
					return "FAIL unwrap-value " + name + " " + firstDiff(want, got)
				}
			}
		}
		return "ok"
	})
}

// ---- generation ---------------------------------------------------------------------------------------------------

func genDnsAndStack(g *h.G) {
	rng := rand.New(rand.NewSource(g.Seed*104729 + 5))
	gc := tlbx.NewGenCtx(rng, tlbU)
	gc.ModelOnly = true
	// VmStack.Put
	st := tlbLookup("tlb.VmStack")
	for i := 0; i < g.Scale(60, 1500); i++ {
		v := reflect.New(st.T).Elem()
		gc.Gen(st.D, v, "p")
		txt := tlbx.Print(v)
		if strings.Contains(txt, ":?") {
			continue
		}
		g.Emit("tlb.stackput", txt)
		if v.Len() >= 2 {
			g.NonTrivial("stackput/" + txt)
		}
	}
	for i := 0; i < g.Scale(20, 400); i++ {
		g.Emit("go.vmstack.dest", fmt.Sprint(rng.Int63()))
		g.Emit("go.vmcell.rt", fmt.Sprint(rng.Int63()))
	}
	for k := 0; k <= 9; k++ {
		for j := 0; j < g.Scale(2, 20); j++ {
			g.Emit("go.vmtuple", fmt.Sprint(k), fmt.Sprint(rng.Int63()))
		}
	}
	// DNS text: chunk lengths around every boundary a cell allows (first chunk <= 125 bytes, later ones <= 126)
	randBytes := func(n int) []byte { b := make([]byte, n); rng.Read(b); return b }
	var texts [][][]byte
	for _, n := range []int{0, 1, 2, 63, 64, 100, 124, 125} {
		texts = append(texts, [][]byte{randBytes(n)})
	}
	texts = append(texts, nil)
	for _, ns := range [][]int{{1, 1}, {125, 126}, {0, 0, 5}, {3, 126, 0, 64}, {10, 20, 30, 40, 50}, {125, 126, 126, 126}} {
		var t [][]byte
		for _, n := range ns {
			t = append(t, randBytes(n))
		}
		texts = append(texts, t)
	}
	for i := 0; i < g.Scale(10, 300); i++ {
		var t [][]byte
		for j := rng.Intn(6); j >= 0; j-- {
			t = append(t, randBytes(rng.Intn(127)))
		}
		if len(t[0]) > 125 {
			t[0] = t[0][:125]
		}
		texts = append(texts, t)
	}
	emitCell := func(op string, c *boc.Cell) {
		g.Emit(op, tlbx.CellText(c))
		for _, m := range mutateCell(g, c) {
			g.Emit(op, tlbx.CellText(m))
		}
	}
	for _, t := range texts {
		args := make([]string, len(t))
		for i, ch := range t {
			if len(ch) == 0 {
				args[i] = "-"
			} else {
				args[i] = hex.EncodeToString(ch)
			}
		}
		if len(args) > 0 {
			g.Emit("tlb.dnsspec", args...)
		}
		c := boc.NewCell()
		must(dnsTextInto(c, t))
		emitCell("tlb.dnstext", c)
		r := boc.NewCell()
		must(r.WriteUint(0x1eda, 16))
		if dnsTextInto(r, t) == nil { // the record tag leaves room for 123 bytes in the first chunk
			emitCell("tlb.dns", r)
		}
		g.NonTrivial("dnstext/" + strings.Join(args, ","))
	}
	// the other DNSRecord variants, built from the schema comments of tlb/dns.go
	addr := func() tlb.MsgAddress {
		at := tlbLookup("tlb.MsgAddress")
		v := reflect.New(at.T).Elem()
		gc.Gen(at.D, v, "p")
		return v.Interface().(tlb.MsgAddress)
	}
	for i := 0; i < g.Scale(12, 300); i++ {
		func() {
			defer func() { _ = recover() }() // a variant that does not fit its cell is skipped
			genDnsVariants(g, rng, gc, addr, randBytes, emitCell)
		}()
	}
	g.Count("dns_and_stack_lines")
}

func genDnsVariants(g *h.G, rng *rand.Rand, gc *tlbx.GenCtx, addr func() tlb.MsgAddress, randBytes func(int) []byte,
	emitCell func(string, *boc.Cell)) {
	{
		var flags uint64
		// dns_next_resolver#ba93 resolver:MsgAddressInt
		c := boc.NewCell()
		must(c.WriteUint(0xba93, 16))
		if tlb.Marshal(c, addr()) == nil {
			emitCell("tlb.dns", c)
		}
		// dns_adnl_address#ad01 adnl_addr:bits256 flags:(## 8) proto_list:flags . 0?ProtoList
		c = boc.NewCell()
		must(c.WriteUint(0xad01, 16))
		must(c.WriteBytes(randBytes(32)))
		flags = []uint64{0, 1, 1, 2, 3}[rng.Intn(5)]
		must(c.WriteUint(flags, 8))
		if flags > 0 {
			for j := rng.Intn(4); j > 0; j-- {
				must(c.WriteBit(true))
				must(c.WriteUint([]uint64{0x4854, 0x4854, 0x1234}[rng.Intn(3)], 16))
			}
			must(c.WriteBit(false))
		}
		emitCell("tlb.dns", c)
		// dns_smc_address#9fd3 smc_addr:MsgAddressInt flags:(## 8) cap_list:flags . 0?SmcCapList
		c = boc.NewCell()
		must(c.WriteUint(0x9fd3, 16))
		if tlb.Marshal(c, addr()) == nil {
			flags = []uint64{0, 1, 1, 2, 3}[rng.Intn(5)]
			must(c.WriteUint(flags, 8))
			ok := true
			if flags > 0 {
				names := 0
				for j := rng.Intn(5); j > 0 && ok; j-- {
					must(c.WriteBit(true))
					switch k := rng.Intn(6); {
					case k < 3:
						must(c.WriteUint([]uint64{0x5371, 0x71f4, 0x2177}[k], 16))
					case k < 5 && names == 0: // cap_name#ff name:Text (one: the text takes the first free reference)
						names++
						must(c.WriteUint(0xff, 8))
						if dnsTextInto(c, [][]byte{randBytes(rng.Intn(8)), randBytes(rng.Intn(20))}) != nil {
							ok = false
						}
					default:
						must(c.WriteUint(0x0101, 16)) // not a capability
					}
				}
				if ok && c.BitsAvailableForWrite() > 0 {
					must(c.WriteBit(false))
				}
			}
			if ok {
				emitCell("tlb.dns", c)
			}
		}
		// dns_storage_address#7473 bag_id:bits256, and something else
		c = boc.NewCell()
		must(c.WriteUint(0x7473, 16))
		must(c.WriteBytes(randBytes(32)))
		emitCell("tlb.dns", c)
		emitCell("tlb.dns", gc.RandCell(200, 2, 1))
	}
}
