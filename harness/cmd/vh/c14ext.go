//go:build c14

package main

import (
	"crypto/ed25519"
	"fmt"
	"math/rand"
	"strings"
	"time"

	"github.com/tonkeeper/tongo/boc"
	"github.com/tonkeeper/tongo/tlb"
	"github.com/tonkeeper/tongo/ton"
	"github.com/tonkeeper/tongo/wallet"
	"verifharness/h"
)

// v5 extended actions (wallet.W5ExtendedActions) and the ExtensionAction message form.

// parseExts: `n` nil pointer, `e` empty list, else a:<wc>:<hash> | a:none | r:… | s:0|1 joined by `/`
func parseExts(s string) *wallet.W5ExtendedActions {
	if s == "n" {
		return nil
	}
	l := wallet.W5ExtendedActions{}
	if s == "e" {
		return &l
	}
	addr := func(x string) tlb.MsgAddress {
		if x == "none" {
			return (*ton.AccountID)(nil).ToMsgAddress()
		}
		f := strings.Split(x, ":")
		var id ton.AccountID
		id.Workchain = int32(atoi(f[0]))
		copy(id.Address[:], h.MustUnHex(f[1]))
		return id.ToMsgAddress()
	}
	for _, it := range strings.Split(s, "/") {
		switch {
		case strings.HasPrefix(it, "a:"):
			l = append(l, wallet.W5ExtendedAction{SumType: "AddExtension", AddExtension: &struct{ Addr tlb.MsgAddress }{addr(it[2:])}})
		case strings.HasPrefix(it, "r:"):
			l = append(l, wallet.W5ExtendedAction{SumType: "RemoveExtension", RemoveExtension: &struct{ Addr tlb.MsgAddress }{addr(it[2:])}})
		case it == "s:1" || it == "s:0":
			l = append(l, wallet.W5ExtendedAction{SumType: "SetSignatureAllowed", SetSignatureAllowed: &struct{ Allowed bool }{it == "s:1"}})
		default:
			panic("bad ext action " + it)
		}
	}
	return &l
}

func fmtAddr(a tlb.MsgAddress) string {
	switch a.SumType {
	case "AddrNone":
		return "none"
	case "AddrStd":
		if a.AddrStd.Anycast.Exists {
			return "anycast"
		}
		return fmt.Sprintf("%d:%s", a.AddrStd.WorkchainId, h.Hex(a.AddrStd.Address[:]))
	}
	return "other"
}

func fmtExts(l *wallet.W5ExtendedActions) string {
	if l == nil || len(*l) == 0 {
		return ""
	}
	var ss []string
	for _, a := range *l {
		switch a.SumType {
		case "AddExtension":
			ss = append(ss, "a:"+fmtAddr(a.AddExtension.Addr))
		case "RemoveExtension":
			ss = append(ss, "r:"+fmtAddr(a.RemoveExtension.Addr))
		case "SetSignatureAllowed":
			if a.SetSignatureAllowed.Allowed {
				ss = append(ss, "s:1")
			} else {
				ss = append(ss, "s:0")
			}
		default:
			ss = append(ss, "?")
		}
	}
	return " ext=" + strings.Join(ss, "/")
}

func fmtXacts(l *wallet.W5Actions) string {
	if l == nil || len(*l) == 0 {
		return ""
	}
	var ss []string
	for _, a := range *l {
		ss = append(ss, fmt.Sprintf("%d:%s", a.Mode, hashOrNil(a.Msg)))
	}
	return " xacts=" + strings.Join(ss, "/")
}

func w5Options(wc, net string) wallet.Options {
	var o wallet.Options
	if wc != "_" {
		v := atoi(wc)
		o.Workchain = &v
	}
	if net != "_" {
		v := int32(atoi64(net))
		o.NetworkGlobalID = &v
	}
	return o
}

func buildBodyX(seed, wc, net string, op uint32, seqno uint32, vu int64, raws []wallet.RawMessage, exts *wallet.W5ExtendedActions) (*boc.Cell, error) {
	key := keyFromSeed(seed)
	w5 := wallet.NewWalletV5R1(key.Public().(ed25519.PublicKey), w5Options(wc, net))
	return w5.CreateSignedMsgBodyCell(key, raws, exts, wallet.MessageConfig{Seqno: seqno, ValidUntil: time.Unix(vu, 0), V5MsgType: wallet.V5MsgType(op)})
}

// m.bodyx <seed> <wc|_> <net|_> <op> <seqno> <validUntil> <sig> <msgs> <exts>
func exMBodyX(a []string) string {
	body, err := buildBodyX(a[0], a[1], a[2], uint32(atoi64(a[3])), uint32(atoi64(a[4])), atoi64(a[5]), parseMsgsArg(a[7]), parseExts(a[8]))
	if err != nil {
		return "err"
	}
	signed, _, err := splitSigned(wallet.V5R1, body)
	if err != nil {
		return "FAIL split"
	}
	d, err := signed.Hash()
	if err != nil {
		return "err"
	}
	return "ok " + h.Hex(d) + " " + h.Canon([]*boc.Cell{body})
}

type extnStruct = struct {
	QueryID         uint64
	Actions         *wallet.W5Actions         `tlb:"maybe^"`
	ExtendedActions *wallet.W5ExtendedActions `tlb:"maybe"`
}

func buildExtn(q uint64, msgs string, exts string) (*boc.Cell, error) {
	var acts *wallet.W5Actions
	if msgs != "n" {
		l := wallet.W5Actions{}
		for _, r := range parseMsgsArg(msgs) {
			l = append(l, wallet.W5SendMessageAction{Msg: r.Message, Mode: r.Mode})
		}
		acts = &l
	}
	m := wallet.MessageV5{SumType: "ExtensionAction", ExtensionAction: &extnStruct{QueryID: q, Actions: acts, ExtendedActions: parseExts(exts)}}
	c := boc.NewCell()
	if err := tlb.Marshal(c, m); err != nil {
		return nil, err
	}
	return c, nil
}

// m.extn <queryId> <msgs|n> <exts>
func exMExtn(a []string) string {
	var qq uint64
	fmt.Sscan(a[0], &qq)
	c, err := buildExtn(qq, a[1], a[2])
	if err != nil {
		return "err"
	}
	return "ok " + h.Canon([]*boc.Cell{c})
}

// go.m.ext <seed> <seqno> <validUntil> <fseed> <msgs> <exts>: a v5r1 message carrying send actions AND extended
// actions verifies with the wallet's key, not after a bit flip inside the extended-action chain, and decodes to exactly
// the requested messages (ExtractRawMessages) and extended actions, in order.
func goMExt(a []string) string {
	raws := parseMsgsArg(a[4])
	exts := parseExts(a[5])
	body, err := buildBodyX(a[0], "_", "_", uint32(wallet.V5MsgTypeSignedExternal), uint32(atoi64(a[1])), atoi64(a[2]), raws, exts)
	if err != nil {
		return "FAIL build " + strings.ReplaceAll(err.Error(), " ", "_")
	}
	key := keyFromSeed(a[0])
	pub := key.Public().(ed25519.PublicKey)
	var self [32]byte
	env := rebuildExt(&sentInfo{destWc: 0, destAddr: self}, body)
	envT := cellTable(env)
	if err := wallet.VerifySignature(wallet.V5R1, tableCell(envT), pub); err != nil {
		return "FAIL own-key-rejected"
	}
	got, err := wallet.ExtractRawMessages(wallet.V5R1, tableCell(envT))
	if err != nil || len(got) != len(raws) {
		return "FAIL extract"
	}
	for i := range got {
		if got[i].Mode != raws[i].Mode || hashOrNil(got[i].Message) != hashOrNil(raws[i].Message) {
			return fmt.Sprintf("FAIL extract-message %d", i)
		}
	}
	m, err := wallet.DecodeMessageV5(tableCell(envT))
	if err != nil || m.SumType != "SignedExternal" {
		return "FAIL decode"
	}
	if fmtExts(m.SignedExternal.ExtendedActions) != fmtExts(exts) {
		return "FAIL extended-actions-differ got=" + fmtExts(m.SignedExternal.ExtendedActions) + " want=" + fmtExts(exts)
	}
	// flip one bit in the deepest cell of the body tree (the end of the extended chain or an action cell)
	rows := h.ParseTable(cellTable(body))
	fr := rand.New(rand.NewSource(atoi64(a[3])))
	for i := 0; i < 4; i++ {
		ri := 1 + fr.Intn(len(rows)-1)
		if rows[ri].BitLen == 0 {
			continue
		}
		bit := fr.Intn(rows[ri].BitLen)
		mut := make([]h.Row, len(rows))
		copy(mut, rows)
		d := append([]byte{}, rows[ri].Data...)
		d[bit/8] ^= 0x80 >> uint(bit%8)
		mut[ri].Data = d
		env2 := rebuildExt(&sentInfo{destWc: 0, destAddr: self}, h.BuildCells(mut)[0])
		if err := wallet.VerifySignature(wallet.V5R1, env2, pub); err == nil {
			return fmt.Sprintf("FAIL flipped-chain-accepted row=%d bit=%d", ri, bit)
		}
	}
	return "ok"
}

func randExts(g *h.G) string {
	switch g.Rng.Intn(8) {
	case 0:
		return "n"
	}
	n := 1 + g.Rng.Intn(4)
	var ss []string
	for i := 0; i < n; i++ {
		switch g.Rng.Intn(5) {
		case 0:
			ss = append(ss, fmt.Sprintf("s:%d", g.Rng.Intn(2)))
		case 1:
			ss = append(ss, "r:"+fmt.Sprintf("%d:%s", g.Pick(0, -1, 127, -128), h.Hex(g.Bytes(32))))
		case 2:
			ss = append(ss, "a:none")
		default:
			ss = append(ss, "a:"+fmt.Sprintf("%d:%s", g.Pick(0, -1, 0, 1), h.Hex(g.Bytes(32))))
		}
	}
	return strings.Join(ss, "/")
}

func genExt(g *h.G) {
	for i := 0; i < g.Scale(60, 1500); i++ {
		seed := h.Hex(g.Bytes(32))
		key := keyFromSeed(seed)
		n := g.Rng.Intn(4)
		if g.Rng.Intn(10) == 0 {
			n = g.Pick(0, 30, 255)
		}
		var raws []wallet.RawMessage
		for j := 0; j < n; j++ {
			raws = append(raws, wallet.RawMessage{Message: randRawCell(g), Mode: modeChoice(g)})
		}
		exts := randExts(g)
		wc, net := []string{"_", "0", "-1"}[g.Rng.Intn(3)], []string{"_", "-3", "-239"}[g.Rng.Intn(3)]
		op := uint32(wallet.V5MsgTypeSignedExternal)
		if g.Rng.Intn(4) == 0 {
			op = uint32(wallet.V5MsgTypeSignedInternal)
		}
		seqno, vu := u32Choice(g), u32Choice(g)
		// the expected body, built by hand (c14ref.go): nothing here goes through the wallet package
		sg, err := refSigned(wallet.V5R1, refIdsOf(wallet.V5R1, wc, "_", net), op, seqno, vu, 0, raws, exts)
		if err != nil {
			panic(err)
		}
		d, _ := sg.Hash()
		body := refAttach(wallet.V5R1, sg, ed25519.Sign(key, d))
		margs := msgsArg(raws)
		g.Count("ext_actions_" + fmt.Sprint(strings.Count(exts, "/")+1))
		g.NonTrivial("ext/" + seed)
		g.Emit("m.bodyx", seed, wc, net, fmt.Sprint(op), fmt.Sprint(seqno), fmt.Sprint(vu), h.Hex(ed25519.Sign(key, d)), margs, exts)
		var self [32]byte
		copy(self[:], g.Bytes(32))
		env := rebuildExt(&sentInfo{destWc: 0, destAddr: self}, body)
		g.Emit("m.decode", "11", cellTable(env))
		g.Emit("m.verify", "11", cellTable(env), h.Hex(key.Public().(ed25519.PublicKey)), "1")
		if exts != "n" {
			g.Emit("go.m.ext", seed, fmt.Sprint(seqno), fmt.Sprint(vu), fmt.Sprint(g.Rng.Intn(1<<30)), margs, exts)
		}
		// the ExtensionAction form with the same actions, decoded through an envelope
		msgsX := margs
		if g.Rng.Intn(3) == 0 || n > 30 {
			msgsX = "n"
		}
		q := g.U64()
		g.Emit("m.extn", fmt.Sprint(q), msgsX, exts)
		if exts != "e" {
			g.Emit("m.decode", "11", cellTable(rebuildExt(&sentInfo{destWc: -1, destAddr: self}, refExtension(q, msgsX, exts))))
		}
	}
}
