//go:build c19

package main

import (
	"context"
	"crypto/ed25519"
	"crypto/hmac"
	"crypto/sha256"
	"crypto/sha512"
	"encoding/base64"
	"encoding/binary"
	"encoding/hex"
	"errors"
	"fmt"
	"math/big"
	"math/rand"
	"strings"
	"time"

	"github.com/tonkeeper/tongo/boc"
	"github.com/tonkeeper/tongo/tlb"
	"github.com/tonkeeper/tongo/ton"
	"github.com/tonkeeper/tongo/tonconnect"
	"github.com/tonkeeper/tongo/wallet"
	"verifharness/h"
)

func init() {
	h.Register(&h.Prop{ID: "C19", Gen: genC19, Exec: withCells(map[string]h.ExecFn{
		"prim.hmac256":     exHmac,
		"tc.msg":           exTcMsg,
		"tc.payload":       exTcPayload,
		"tc.parse":         exTcParse,
		"tc.domain":        exTcDomain,
		"tc.check":         exTcCheck,
		"go.tc.honest":     goTcHonest,
		"go.tc.subst":      goTcSubst,
		"go.tc.time":       goTcTime,
		"go.tc.total":      goTcTotal,
		"go.tc.lockup":     goTcLockup,
		"go.ed.smallorder": goEdSmallOrder,
		"go.tc.smallkey":   goTcSmallKey,
		"go.tc.genpayload": goTcGenPayload,
	})})
}

// ------------------------------------------------------------------------------------------------ helpers

// refMessage: the signed digest computed independently of tonconnect.createMessage
func refMessage(wc int32, addr []byte, domain string, ts int64, payload string) []byte {
	var m []byte
	m = append(m, "ton-proof-item-v2/"...)
	m = binary.BigEndian.AppendUint32(m, uint32(wc))
	m = append(m, addr...)
	m = binary.LittleEndian.AppendUint32(m, uint32(len(domain)))
	m = append(m, domain...)
	m = binary.LittleEndian.AppendUint64(m, uint64(ts))
	m = append(m, payload...)
	inner := sha256.Sum256(m)
	full := append([]byte{0xff, 0xff}, "ton-connect"...)
	full = append(full, inner[:]...)
	res := sha256.Sum256(full)
	return res[:]
}

// refPayload: a payload as the server issues it, built with crypto/hmac directly
func refPayload(secret string, nonce []byte, expiry uint64) string {
	p := make([]byte, 16, 48)
	copy(p[:8], nonce)
	binary.BigEndian.PutUint64(p[8:16], expiry)
	mac := hmac.New(sha256.New, []byte(secret))
	mac.Write(p)
	p = mac.Sum(p)
	return hex.EncodeToString(p[:32])
}

// stubExecutor answers get_public_key according to a mode: fail:err | fail:code | fail:empty | fail:cell | fail:two |
// int:<decimal>
type stubExecutor struct {
	mode  string
	asked []ton.AccountID
}

func (e *stubExecutor) RunSmcMethodByID(ctx context.Context, id ton.AccountID, method int, params tlb.VmStack) (uint32, tlb.VmStack, error) {
	e.asked = append(e.asked, id)
	// a real executor runs the method it is ASKED for: get_public_key is method id 78748, called with an empty stack
	if method != 78748 || len(params) != 0 {
		return 0, nil, fmt.Errorf("stub executor: unexpected method %d / %d parameters", method, len(params))
	}
	switch {
	case e.mode == "fail:err":
		return 0, nil, errors.New("scripted executor error")
	case e.mode == "fail:code":
		return 2, tlb.VmStack{{SumType: "VmStkTinyInt", VmStkTinyInt: 7}}, nil
	case e.mode == "fail:empty":
		return 0, tlb.VmStack{}, nil
	case e.mode == "fail:cell":
		return 0, tlb.VmStack{{SumType: "VmStkCell", VmStkCell: tlb.Ref[boc.Cell]{Value: *boc.NewCell()}}}, nil
	case e.mode == "fail:two":
		return 0, tlb.VmStack{{SumType: "VmStkTinyInt", VmStkTinyInt: 1}, {SumType: "VmStkTinyInt", VmStkTinyInt: 2}}, nil
	case e.mode == "fail:nil":
		return 0, nil, nil
	case e.mode == "fail:null":
		return 0, tlb.VmStack{{SumType: "VmStkNull"}}, nil
	case e.mode == "fail:nan":
		return 1, tlb.VmStack{{SumType: "VmStkNan"}}, nil
	case e.mode == "fail:slice":
		return 0, tlb.VmStack{{SumType: "VmStkSlice"}}, nil
	case e.mode == "fail:builder":
		return 0, tlb.VmStack{{SumType: "VmStkBuilder", VmStkBuilder: tlb.Ref[boc.Cell]{Value: *boc.NewCell()}}}, nil
	case e.mode == "fail:cont":
		return 0, tlb.VmStack{{SumType: "VmStkCont"}}, nil
	case e.mode == "fail:tuple":
		return 0, tlb.VmStack{{SumType: "VmStkTuple", VmStkTuple: tlb.VmStkTuple{Len: 0}}}, nil
	case e.mode == "fail:badsum":
		return 0, tlb.VmStack{{SumType: "NoSuchConstructor"}}, nil
	case e.mode == "fail:emptysum":
		return 0, tlb.VmStack{{}}, nil
	case e.mode == "fail:intnull":
		return 0, tlb.VmStack{{SumType: "VmStkInt", VmStkInt: tlb.Int257(*big.NewInt(7))}, {SumType: "VmStkNull"}}, nil
	case e.mode == "fail:nullint":
		return 0, tlb.VmStack{{SumType: "VmStkNull"}, {SumType: "VmStkTinyInt", VmStkTinyInt: 7}}, nil
	case e.mode == "fail:bigcode":
		return 0xffffffff, tlb.VmStack{{SumType: "VmStkTinyInt", VmStkTinyInt: 7}}, nil
	case strings.HasPrefix(e.mode, "int:"):
		v, ok := new(big.Int).SetString(e.mode[4:], 10)
		if !ok {
			panic("bad getter int")
		}
		if v.IsInt64() {
			return 0, tlb.VmStack{{SumType: "VmStkTinyInt", VmStkTinyInt: v.Int64()}}, nil
		}
		return 1, tlb.VmStack{{SumType: "VmStkInt", VmStkInt: tlb.Int257(*v)}}, nil
	}
	panic("bad getter mode " + e.mode)
}

// multiRootBoc serialises several cell tables as ONE bag of cells with as many roots (cell index on 1 byte, offsets
// on 2 bytes, no index, no crc).
func multiRootBoc(tables []string) []byte {
	var cells [][]byte
	var roots []int
	for _, t := range tables {
		rows := h.ParseTable(t)
		if len(rows) == 0 {
			rows = []h.Row{{}}
		}
		base := len(cells)
		roots = append(roots, base)
		for _, r := range rows {
			d1 := byte(len(r.Refs)) + byte(32*r.Mask)
			if r.Ty != 0 {
				d1 += 8
			}
			d2 := byte((r.BitLen+7)/8 + r.BitLen/8)
			data := append([]byte{}, r.Data...)
			if r.BitLen%8 != 0 {
				data[len(data)-1] |= 0x80 >> uint(r.BitLen%8)
			}
			c := append([]byte{d1, d2}, data...)
			for _, x := range r.Refs {
				c = append(c, byte(base+x))
			}
			cells = append(cells, c)
		}
	}
	var body []byte
	for _, c := range cells {
		body = append(body, c...)
	}
	out := []byte{0xb5, 0xee, 0x9c, 0x72, 0x01, 0x02, byte(len(cells)), byte(len(roots)), 0, byte(len(body) >> 8), byte(len(body))}
	for _, r := range roots {
		out = append(out, byte(r))
	}
	return append(out, body...)
}

// stateInitString turns the state-init argument of the line protocol into the string of the proof.
func stateInitString(s string) string {
	switch s {
	case "empty":
		return ""
	case "bocerr":
		return "!!!not-a-boc!!!"
	}
	tabs := strings.Split(s, "/")
	if len(tabs) == 1 {
		b, err := tableCell(tabs[0]).ToBocBase64()
		if err != nil {
			panic(err)
		}
		return b
	}
	return base64.StdEncoding.EncodeToString(multiRootBoc(tabs))
}

func knownArg() string {
	var ss []string
	for v := wallet.Version(0); v <= wallet.V5R1; v++ {
		hs := wallet.GetCodeHashByVer(v)
		ss = append(ss, fmt.Sprintf("%d:%s", int(v), h.Hex(hs[:])))
	}
	return strings.Join(ss, ",")
}

// rawStateInit builds a state-init cell directly from bits: code/data may be nil.
func rawStateInit(code, data *boc.Cell, splitDepth bool) *boc.Cell {
	c := boc.NewCell()
	if splitDepth {
		_ = c.WriteBit(true)
		_ = c.WriteUint(3, 5)
	} else {
		_ = c.WriteBit(false)
	}
	_ = c.WriteBit(false)
	for _, x := range []*boc.Cell{code, data} {
		if x == nil {
			_ = c.WriteBit(false)
		} else {
			_ = c.WriteBit(true)
			_ = c.AddRef(x)
		}
	}
	_ = c.WriteBit(false)
	return c
}

// ------------------------------------------------------------------------------------------------ executors

func exHmac(a []string) string {
	m := hmac.New(sha256.New, h.MustUnHex(a[0]))
	m.Write(h.MustUnHex(a[1]))
	return h.Hex(m.Sum(nil))
}

// tc.msg: observed through CreateSignedProof (the signature is over the digest): the executor recomputes the digest
// the real code signed by checking which digest the signature verifies for — instead, it uses the exported path:
// CreateSignedProof with a fixed key and ed25519.Verify against the independently computed digest is a go. oracle;
// here the digest itself is compared, obtained from CheckProof's acceptance being impossible to observe directly, so
// the executor derives it from the library: sign with the real code, and report the reference digest only if the
// signature made by the real code verifies for it.
func exTcMsg(a []string) string {
	wc := int32(atoi64(a[0]))
	addr := h.MustUnHex(a[1])
	domain := string(h.MustUnHex(a[2]))
	ts := atoi64(a[3])
	payload := string(h.MustUnHex(a[4]))
	if len(addr) != 32 {
		return "bad-op"
	}
	key := ed25519.NewKeyFromSeed(make([]byte, 32))
	var id ton.AccountID
	id.Workchain = wc
	copy(id.Address[:], addr)
	p, err := tonconnect.CreateSignedProof(payload, id, key, tlb.StateInit{}, tonconnect.ProofOptions{Timestamp: time.Unix(ts, 0), Domain: domain})
	if err != nil {
		return "err"
	}
	sig, err := base64.StdEncoding.DecodeString(p.Proof.Signature)
	if err != nil {
		return "err"
	}
	d := refMessage(wc, addr, domain, ts, payload)
	if !ed25519.Verify(key.Public().(ed25519.PublicKey), d, sig) {
		return "FAIL signed-digest-differs-from-layout"
	}
	return h.Hex(d)
}

func exTcPayload(a []string) string {
	srv, err := tonconnect.NewTonConnect(&stubExecutor{mode: "fail:err"}, string(h.MustUnHex(a[0])), tonconnect.WithLifeTimePayload(atoi64(a[3])))
	if err != nil {
		return "FAIL new"
	}
	ok, err := srv.CheckPayload(string(h.MustUnHex(a[1])))
	if err != nil {
		return "err"
	}
	if !ok {
		return "FAIL false-without-error"
	}
	return "ok"
}

// tc.domain <configured hex> <presented hex>: StaticDomain
func exTcDomain(a []string) string {
	ok, err := tonconnect.StaticDomain(string(h.MustUnHex(a[0])))(string(h.MustUnHex(a[1])))
	if err != nil {
		return "err"
	}
	if ok {
		return "1"
	}
	return "0"
}

func exTcParse(a []string) string {
	k, err := tonconnect.ParseStateInit(stateInitString(a[1]))
	if err != nil {
		return "err"
	}
	return "ok " + h.Hex(k)
}

// tc.check <life> <nowNs> <payloadOk> <domainOk> <address hex> <ts> <domain hex> <sig hex|b64err> <payload hex>
// <getter> <stateinit> <known> <verdicts> <seed>
func exTcCheck(a []string) string {
	exec := &stubExecutor{mode: a[9]}
	srv, err := tonconnect.NewTonConnect(exec, "secret", tonconnect.WithLifeTimeProof(atoi64(a[0])))
	if err != nil {
		return "FAIL new"
	}
	sig := "@@@"
	if a[7] != "b64err" {
		sig = base64.StdEncoding.EncodeToString(h.MustUnHex(a[7]))
	}
	p := &tonconnect.Proof{Address: string(h.MustUnHex(a[4])), Proof: tonconnect.ProofData{
		Timestamp: atoi64(a[5]), Domain: string(h.MustUnHex(a[6])), Signature: sig, Payload: string(h.MustUnHex(a[8])),
		StateInit: stateInitString(a[10])}}
	ok, key, err := srv.CheckProof(context.Background(), p,
		func(string) (bool, error) {
			switch a[2] {
			case "1":
				return true, nil
			case "n": // refused WITHOUT an error value: (false, nil)
				return false, nil
			}
			return false, errors.New("payload refused")
		},
		func(d string) (bool, error) {
			if strings.HasPrefix(a[3], "s:") {
				return tonconnect.StaticDomain(string(h.MustUnHex(a[3][2:])))(d)
			}
			switch a[3] {
			case "1":
				return true, nil
			case "0":
				return false, nil
			}
			return false, errors.New("domain check failed")
		})
	if err != nil {
		if ok || key != nil {
			return "FAIL error-with-positive-result"
		}
		return "err"
	}
	if !ok {
		return "FAIL false-without-error"
	}
	return "ok " + h.Hex(key)
}

// ------------------------------------------------------------------------------------------------ oracles

type tcWallet struct {
	ver   wallet.Version
	priv  ed25519.PrivateKey
	pub   ed25519.PublicKey
	si    tlb.StateInit
	id    ton.AccountID
	siB64 string
}

func mkWallet(ver wallet.Version, seedHex string) tcWallet {
	w := tcWallet{ver: ver, priv: keyFromSeed(seedHex)}
	w.pub = w.priv.Public().(ed25519.PublicKey)
	var err error
	w.si, err = wallet.GenerateStateInit(w.pub, ver, nil, 0, nil)
	if err != nil {
		panic(err)
	}
	w.id, err = wallet.GenerateWalletAddress(w.pub, ver, nil, 0, nil)
	if err != nil {
		panic(err)
	}
	c := boc.NewCell()
	if err := tlb.Marshal(c, w.si); err != nil {
		panic(err)
	}
	w.siB64, _ = c.ToBocBase64()
	return w
}

func getterFor(mode string, pub ed25519.PublicKey) string {
	if mode == "key" {
		return "int:" + new(big.Int).SetBytes(pub).String()
	}
	return mode
}

func safeCheck(srv *tonconnect.Server, p *tonconnect.Proof, cp func(string) (bool, error), cd func(string) (bool, error)) (ok bool, key ed25519.PublicKey, err error, panicked bool) {
	defer func() {
		if r := recover(); r != nil {
			panicked = true
		}
	}()
	ok, key, err = srv.CheckProof(context.Background(), p, cp, cd)
	return
}

// go.tc.honest <ver> <seed> <domain hex> <getter: key|fail:…>: the full honest flow with the server's own payload
func goTcHonest(a []string) string {
	w := mkWallet(wallet.Version(atoi(a[0])), a[1])
	domain := string(h.MustUnHex(a[2]))
	exec := &stubExecutor{mode: getterFor(a[3], w.pub)}
	srv, err := tonconnect.NewTonConnect(exec, "s3cret-"+a[1][:8])
	if err != nil {
		return "FAIL new"
	}
	payload, err := srv.GeneratePayload()
	if err != nil {
		return "FAIL generate-payload"
	}
	p, err := tonconnect.CreateSignedProof(payload, w.id, w.priv, w.si, tonconnect.ProofOptions{Timestamp: time.Now(), Domain: domain})
	if err != nil {
		return "FAIL create-proof"
	}
	ok, key, err, pan := safeCheck(srv, p, srv.CheckPayload, tonconnect.StaticDomain(domain))
	if pan {
		return "FAIL panic"
	}
	if err != nil || !ok {
		return fmt.Sprintf("FAIL honest-proof-rejected %v", err)
	}
	if string(key) != string(w.pub) {
		return "FAIL wrong-key-returned"
	}
	for _, x := range exec.asked {
		if x != w.id {
			return "FAIL getter-asked-for-another-account"
		}
	}
	return "ok"
}

// go.tc.subst <ver> <seed> <field> <fseed> <getter>: an honest proof with one field replaced after signing is rejected
// with an error (and never a panic)
func goTcSubst(a []string) string {
	w := mkWallet(wallet.Version(atoi(a[0])), a[1])
	r := rand.New(rand.NewSource(atoi64(a[3])))
	domain := "example.org"
	exec := &stubExecutor{mode: getterFor(a[4], w.pub)}
	srv, _ := tonconnect.NewTonConnect(exec, "secret")
	payload, _ := srv.GeneratePayload()
	now := time.Now()
	p, err := tonconnect.CreateSignedProof(payload, w.id, w.priv, w.si, tonconnect.ProofOptions{Timestamp: now, Domain: domain})
	if err != nil {
		return "FAIL create-proof"
	}
	cd := func(string) (bool, error) { return true, nil } // the domain check accepts: only the signature binds it
	switch a[2] {
	case "address":
		o := mkWallet(w.ver, h.Hex(randBytes(r, 32)))
		p.Address = o.id.String()
		if a[4] != "key" {
			p.Proof.StateInit = o.siB64 // consistent with the new address: the key now is the other wallet's
		}
	case "workchain":
		id := w.id
		id.Workchain = -1
		p.Address = id.String()
	case "domain":
		p.Proof.Domain = "evil." + domain
	case "timestamp":
		p.Proof.Timestamp += int64(1 + r.Intn(100))
		if r.Intn(2) == 0 {
			p.Proof.Timestamp -= 200
		}
	case "payload":
		p.Proof.Payload, _ = srv.GeneratePayload()
		if p.Proof.Payload == payload {
			return "ok"
		}
	case "sigflip":
		sig, _ := base64.StdEncoding.DecodeString(p.Proof.Signature)
		bit := r.Intn(512)
		sig[bit/8] ^= 1 << uint(bit%8)
		p.Proof.Signature = base64.StdEncoding.EncodeToString(sig)
	case "otherkey":
		o := ed25519.NewKeyFromSeed(randBytes(r, 32))
		sig := ed25519.Sign(o, refMessage(w.id.Workchain, w.id.Address[:], domain, now.Unix(), payload))
		p.Proof.Signature = base64.StdEncoding.EncodeToString(sig)
	case "impersonate":
		// the victim's address with the attacker's own state-init and a signature by the attacker's key: the
		// state-init does not hash to the address, so the attacker's key must not be taken from it
		if a[4] == "key" {
			return "ok"
		}
		o := mkWallet(w.ver, h.Hex(randBytes(r, 32)))
		// first the attacker proves, legitimately and in THE SAME PROCESS, ownership of its OWN address with that state-init
		// (anything the server or the package remembers from an accepted proof must not help with another address)
		own, err := tonconnect.CreateSignedProof(payload, o.id, o.priv, o.si, tonconnect.ProofOptions{Timestamp: now, Domain: domain})
		if err != nil {
			return "FAIL create-own-proof"
		}
		if ok, _, err, pan := safeCheck(srv, own, srv.CheckPayload, cd); pan || !ok || err != nil {
			return "FAIL own-proof-of-the-attacker-rejected"
		}
		p.Proof.StateInit = o.siB64
		sig := ed25519.Sign(o.priv, refMessage(w.id.Workchain, w.id.Address[:], domain, now.Unix(), payload))
		p.Proof.Signature = base64.StdEncoding.EncodeToString(sig)
	case "stateinit":
		if a[4] == "key" {
			return "ok" // with a working getter the state-init is not consulted
		}
		o := mkWallet(w.ver, h.Hex(randBytes(r, 32)))
		p.Proof.StateInit = o.siB64
	default:
		return "bad-op"
	}
	ok, _, err, pan := safeCheck(srv, p, srv.CheckPayload, cd)
	if pan {
		return "FAIL panic"
	}
	if ok || err == nil {
		return "FAIL altered-proof-accepted field=" + a[2]
	}
	return "ok"
}

func randBytes(r *rand.Rand, n int) []byte {
	b := make([]byte, n)
	r.Read(b)
	return b
}

// waitMidSecond sleeps until the wall clock is between .15 and .75 of a second, so that whole-second offsets decide.
func waitMidSecond() time.Time {
	for {
		now := time.Now()
		f := now.Nanosecond()
		if f > 150_000_000 && f < 750_000_000 {
			return now
		}
		time.Sleep(20 * time.Millisecond)
	}
}

// go.tc.time <ver> <seed> <what: proof|payload> <life> <d>: timestamps at lifetime +d seconds from the boundary:
// a proof / payload whose age is `life - d` seconds (plus a fraction) is accepted iff d >= 1.
func goTcTime(a []string) string {
	w := mkWallet(wallet.Version(atoi(a[0])), a[1])
	life := atoi64(a[3])
	d := atoi64(a[4])
	exec := &stubExecutor{mode: getterFor("key", w.pub)}
	srv, _ := tonconnect.NewTonConnect(exec, "secret", tonconnect.WithLifeTimeProof(life), tonconnect.WithLifeTimePayload(life))
	now := waitMidSecond()
	stamp := now.Unix() - life + d
	wantOK := d >= 1
	if a[2] == "payload" {
		p := refPayload("secret", []byte("12345678"), uint64(stamp))
		ok, err := srv.CheckPayload(p)
		if (err == nil && ok) != wantOK {
			return fmt.Sprintf("FAIL payload-expiry d=%d accepted=%v", d, err == nil)
		}
		return "ok"
	}
	payload := refPayload("secret", []byte("abcdefgh"), uint64(now.Unix()))
	p, err := tonconnect.CreateSignedProof(payload, w.id, w.priv, w.si, tonconnect.ProofOptions{Timestamp: time.Unix(stamp, 0), Domain: "d"})
	if err != nil {
		return "FAIL create-proof"
	}
	ok, _, err, pan := safeCheck(srv, p, srv.CheckPayload, tonconnect.StaticDomain("d"))
	if pan {
		return "FAIL panic"
	}
	if (err == nil && ok) != wantOK {
		return fmt.Sprintf("FAIL proof-expiry d=%d accepted=%v err=%v", d, err == nil, err)
	}
	return "ok"
}

// go.tc.total <variant> <seed>: malformed attacker-controlled proofs produce an error, never a panic, and
// ParseStateInit never returns a nil key without an error
func goTcTotal(a []string) string {
	r := rand.New(rand.NewSource(atoi64(a[1])))
	w := mkWallet(wallet.V4R2, h.Hex(randBytes(r, 32)))
	code := wallet.GetCodeByVer(wallet.V4R2)
	data := boc.NewCell()
	_ = data.WriteBytes(randBytes(r, 41))
	var siCell *boc.Cell
	siStr := ""
	switch a[0] {
	case "nocode":
		siCell = rawStateInit(nil, data, false)
	case "nodata":
		siCell = rawStateInit(code, nil, false)
	case "neither":
		siCell = rawStateInit(nil, nil, false)
	case "shortdata":
		d := boc.NewCell()
		_ = d.WriteUint(5, 17)
		siCell = rawStateInit(code, d, false)
	case "unknowncode":
		siCell = rawStateInit(data, data, false)
	case "splitdepth":
		siCell = rawStateInit(code, data, true)
	case "emptycell":
		siCell = boc.NewCell()
	case "multiroot":
		siStr = base64.StdEncoding.EncodeToString(multiRootBoc([]string{cellTable(rawStateInit(code, data, false)), cellTable(data)}))
	case "garbage":
		siStr = base64.StdEncoding.EncodeToString(randBytes(r, 1+r.Intn(60)))
	case "notbase64":
		siStr = "%%%"
	default:
		return "bad-op"
	}
	if siCell != nil {
		siStr, _ = siCell.ToBocBase64()
	}
	// ParseStateInit directly
	res := func() (s string) {
		defer func() {
			if p := recover(); p != nil {
				s = "panic"
			}
		}()
		k, err := tonconnect.ParseStateInit(siStr)
		if err == nil && len(k) != 32 {
			return fmt.Sprintf("nil-error-with-%d-byte-key", len(k))
		}
		return ""
	}()
	if res != "" {
		return "FAIL parse-state-init-" + res
	}
	// through CheckProof with an address that matches the state-init hash when there is a single root
	id := w.id
	if siCell != nil {
		hs, _ := siCell.Hash256()
		id = ton.AccountID{Workchain: 0, Address: hs}
	}
	srv, _ := tonconnect.NewTonConnect(&stubExecutor{mode: "fail:err"}, "secret")
	payload, _ := srv.GeneratePayload()
	p, err := tonconnect.CreateSignedProof(payload, id, w.priv, w.si, tonconnect.ProofOptions{Timestamp: time.Now(), Domain: "d"})
	if err != nil {
		return "FAIL create-proof"
	}
	p.Proof.StateInit = siStr
	ok, _, err, pan := safeCheck(srv, p, srv.CheckPayload, tonconnect.StaticDomain("d"))
	if pan {
		return "FAIL check-proof-panics variant=" + a[0]
	}
	if ok || err == nil {
		return "FAIL malformed-proof-accepted variant=" + a[0]
	}
	return "ok"
}

var edL, _ = new(big.Int).SetString("7237005577332262213973186563042994240857116359379907606001950938285454250989", 10)

// forgeZeroKey: a signature that ed25519.Verify accepts for the all-zero public key (a point of order 4) on msg, if
// one of the four candidates works (each does with probability 1/4).
func forgeZeroKey(msg []byte) []byte {
	A := make([]byte, 32)
	O := make([]byte, 32)
	O[0] = 1
	negA := make([]byte, 32)
	negA[31] = 0x80
	twoA := make([]byte, 32)
	for i := range twoA {
		twoA[i] = 0xff
	}
	twoA[0], twoA[31] = 0xec, 0x7f
	for j, R := range [][]byte{O, negA, twoA, A} {
		hh := sha512.New()
		hh.Write(R)
		hh.Write(A)
		hh.Write(msg)
		d := hh.Sum(nil)
		for x, y := 0, len(d)-1; x < y; x, y = x+1, y-1 {
			d[x], d[y] = d[y], d[x]
		}
		k := new(big.Int).Mod(new(big.Int).SetBytes(d), edL)
		if int(new(big.Int).Mod(k, big.NewInt(4)).Int64()) == j {
			sig := append(append([]byte{}, R...), make([]byte, 32)...)
			if ed25519.Verify(A, msg, sig) {
				return sig
			}
		}
	}
	return nil
}

// smallOrderKey / smallOrderSig: the Ed25519 public key 01 00 … 00 encodes the identity point (order 1); with R = the
// identity and S = 0 the verification equation S·B = R + h·A holds for EVERY message.
func smallOrderKey() ed25519.PublicKey { k := make([]byte, 32); k[0] = 1; return k }
func smallOrderSig() []byte            { s := make([]byte, 64); s[0] = 1; return s }

// go.ed.smallorder <seed>: THE LIMIT of the idealisation (lean/TongoProofs/Lemmas/SigIdeal.lean), witnessed on the real
// scheme: crypto/ed25519 accepts one fixed signature for every message under the small-order key 01 00 … 00, which is
// not an honestly generated key. The negative theorems of C14 / C19 therefore assume honestly generated keys. "ok" =
// the limit reproduces (all messages accepted); a future standard library rejecting such keys would show here.
func goEdSmallOrder(a []string) string {
	r := rand.New(rand.NewSource(atoi64(a[0])))
	for i := 0; i < 16; i++ {
		msg := randBytes(r, r.Intn(100))
		if !ed25519.Verify(smallOrderKey(), msg, smallOrderSig()) {
			return "FAIL limit-not-reproduced small-order-key-rejected-a-message"
		}
	}
	// and an honestly generated key does reject that signature
	pub, _, _ := ed25519.GenerateKey(r)
	if ed25519.Verify(pub, []byte("m"), smallOrderSig()) {
		return "FAIL honest-key-accepted-the-fixed-signature"
	}
	return "ok"
}

// go.tc.smallkey <seed>: why the SOURCE of CheckProof's key matters: if the account's get-method answers with the
// small-order key, a proof forged without any private key is accepted — CheckProof proves control of "the key the
// account reports", nothing more. "ok" = the limit reproduces.
func goTcSmallKey(a []string) string {
	r := rand.New(rand.NewSource(atoi64(a[0])))
	var addr [32]byte
	copy(addr[:], randBytes(r, 32))
	id := ton.AccountID{Workchain: 0, Address: addr}
	srv, _ := tonconnect.NewTonConnect(&stubExecutor{mode: getterFor("key", smallOrderKey())}, "secret")
	payload, _ := srv.GeneratePayload()
	p := &tonconnect.Proof{Address: id.String(), Proof: tonconnect.ProofData{Timestamp: time.Now().Unix(), Domain: "victim.org",
		Signature: base64.StdEncoding.EncodeToString(smallOrderSig()), Payload: payload}}
	ok, key, err, pan := safeCheck(srv, p, srv.CheckPayload, tonconnect.StaticDomain("victim.org"))
	if pan {
		return "FAIL panic"
	}
	if !ok || err != nil || string(key) != string(smallOrderKey()) {
		return "FAIL limit-not-reproduced forged-proof-under-small-order-key-rejected"
	}
	return "ok"
}

// go.tc.lockup <seed>: a state-init carrying the lockup wallet code (a known code hash without a data layout) must
// not lead to acceptance: nobody's key controls the proof. The oracle forges, without any private key, a signature
// valid for the all-zero public key and presents it for the address of such a state-init.
func goTcLockup(a []string) string {
	r := rand.New(rand.NewSource(atoi64(a[0])))
	code := wallet.GetCodeByVer(wallet.V3R2Lockup)
	data := boc.NewCell()
	_ = data.WriteBytes(randBytes(r, 40))
	si := rawStateInit(code, data, false)
	hs, _ := si.Hash256()
	id := ton.AccountID{Workchain: 0, Address: hs}
	siStr, _ := si.ToBocBase64()
	srv, _ := tonconnect.NewTonConnect(&stubExecutor{mode: "fail:err"}, "secret")
	payload, _ := srv.GeneratePayload()
	now := time.Now().Unix()
	for try := int64(0); try < 40; try++ {
		ts := now - try
		sig := forgeZeroKey(refMessage(0, hs[:], "victim.org", ts, payload))
		if sig == nil {
			continue
		}
		p := &tonconnect.Proof{Address: id.String(), Proof: tonconnect.ProofData{Timestamp: ts, Domain: "victim.org",
			Signature: base64.StdEncoding.EncodeToString(sig), Payload: payload, StateInit: siStr}}
		ok, key, err, pan := safeCheck(srv, p, srv.CheckPayload, tonconnect.StaticDomain("victim.org"))
		if pan {
			return "FAIL panic"
		}
		if ok && err == nil {
			return "FAIL forged-proof-accepted-without-any-key returned-key=" + h.Hex(key)
		}
		return "ok"
	}
	return "ok"
}

// go.tc.genpayload <secret hex> <life>: what GeneratePayload issues is accepted by CheckPayload of the same secret,
// rejected under another secret or after a bit flip; its stored time is the time of issue.
func goTcGenPayload(a []string) string {
	secret := string(h.MustUnHex(a[0]))
	life := atoi64(a[1])
	srv, _ := tonconnect.NewTonConnect(&stubExecutor{mode: "fail:err"}, secret, tonconnect.WithLifeTimePayload(life))
	before := time.Now().Unix()
	p, err := srv.GeneratePayload()
	after := time.Now().Add(time.Duration(life)).Unix()
	if err != nil {
		return "FAIL generate"
	}
	b, err := hex.DecodeString(p)
	if err != nil || len(b) != 32 {
		return "FAIL payload-shape"
	}
	if p != refPayload(secret, b[:8], binary.BigEndian.Uint64(b[8:16])) {
		return "FAIL payload-mac"
	}
	if e := int64(binary.BigEndian.Uint64(b[8:16])); e < before || e > after {
		return "FAIL payload-time"
	}
	if ok, err := srv.CheckPayload(p); err != nil || !ok {
		return "FAIL own-payload-rejected"
	}
	other, _ := tonconnect.NewTonConnect(&stubExecutor{mode: "fail:err"}, secret+"x", tonconnect.WithLifeTimePayload(life))
	if ok, err := other.CheckPayload(p); err == nil || ok {
		return "FAIL foreign-secret-accepted"
	}
	for i := 0; i < 256; i += 7 {
		m := append([]byte{}, b...)
		m[i/8] ^= 0x80 >> uint(i%8)
		if ok, err := srv.CheckPayload(hex.EncodeToString(m)); err == nil || ok {
			return fmt.Sprintf("FAIL flipped-payload-accepted bit=%d", i)
		}
	}
	return "ok"
}

// --------------------------------------------------------------------------------------------------- generator

// key pairs whose Ed25519 PUBLIC key starts with 1, 2 and 3 zero bytes (found by search, ~256 tries per zero byte; cached
// here and in corpus/C19/zero_prefix_keys.ops): big.Int.Bytes() of such a key is shorter than 32 bytes, so the
// get-method path must left-pad
var zeroKeySeeds = []string{
	"000000000000003c000000000000000000000000000000000000000000000004", "0000000000000055000000000000000000000000000000000000000000000005",
	"000000000000185c00000000000000000000000000000000000000000000000f", "0000000000001eba00000000000000000000000000000000000000000000000b",
	"00000000001eb031000000000000000000000000000000000000000000000009", "00000000002b2b6a00000000000000000000000000000000000000000000000e",
}

var failModes = []string{"fail:err", "fail:code", "fail:empty", "fail:cell", "fail:two", "fail:nil", "fail:null", "fail:nan",
	"fail:slice", "fail:builder", "fail:cont", "fail:tuple", "fail:badsum", "fail:emptysum", "fail:intnull", "fail:nullint", "fail:bigcode"}

// domain pairs (configured, presented) for StaticDomain: only byte-identical strings match
func domainVariants(g *h.G, d string) []string {
	return []string{d, d + ":443", "sub." + d, strings.ToUpper(d), d + ".", " " + d, "https://" + d, d + "/", "ex\u00e4mple.org",
		"exa\u0308mple.org", "xn--exmple-cua.org", "\u0435xample.org", "", d[:len(d)-1], d + "\x00"}
}

var knownVers = []wallet.Version{wallet.V1R1, wallet.V1R2, wallet.V1R3, wallet.V2R1, wallet.V2R2, wallet.V3R1, wallet.V3R2,
	wallet.V4R1, wallet.V4R2, wallet.V5Beta, wallet.V5R1}

type tcCase struct {
	life              int64
	payloadOk, domOk  string
	address           string
	ts                int64
	domain            string
	sig               []byte
	sigB64Err         bool
	payload           string
	getter, stateInit string
	cand              [][]byte // candidate keys for the verdict table
}

func (c *tcCase) emit(g *h.G, nowNs int64, known, seed string) {
	sig := h.Hex(c.sig)
	if c.sigB64Err {
		sig = "b64err"
	}
	// verdict table: real Ed25519 on the digest of the PRESENTED fields for each candidate key
	verd := "-"
	parts := strings.Split(c.address, ":")
	if len(parts) == 2 {
		if addr, err := hex.DecodeString(parts[1]); err == nil {
			var wc int64
			if _, err := fmt.Sscanf(parts[0], "%d", &wc); err == nil {
				d := refMessage(int32(wc), addr, c.domain, c.ts, c.payload)
				var vs []string
				seen := map[string]bool{}
				for _, k := range c.cand {
					if len(k) != 32 || seen[string(k)] {
						continue
					}
					seen[string(k)] = true
					b := "0"
					if ed25519.Verify(k, d, c.sig) {
						b = "1"
					}
					vs = append(vs, h.Hex(k)+"="+b)
				}
				if len(vs) > 0 {
					verd = strings.Join(vs, ",")
				}
			}
		}
	}
	g.Emit("tc.check", fmt.Sprint(c.life), fmt.Sprint(nowNs), c.payloadOk, c.domOk, h.Hex([]byte(c.address)), fmt.Sprint(c.ts),
		h.Hex([]byte(c.domain)), sig, h.Hex([]byte(c.payload)), c.getter, c.stateInit, known, verd, seed)
}

func genC19(g *h.G) {
	genPrim(g, "prim.sha256")
	for i := 0; i < 20; i++ {
		g.Emit("prim.hmac256", h.Hex(g.Bytes(g.Pick(0, 1, 16, 63, 64, 65, 100))), h.Hex(g.Bytes(g.Pick(0, 1, 16, 55, 56, 64, 100))))
	}
	known := knownArg()
	now := time.Now()
	nowNs := now.UnixNano()
	const life = int64(100_000_000) // model-compared lines use absolute times far from the boundaries
	zero := make([]byte, 32)

	// ---- message layout
	for i := 0; i < g.Scale(60, 1500); i++ {
		wc := int32(g.Pick(0, -1, 1, 127, -128, 2147483647, -2147483648))
		dom := g.Bytes(g.Pick(0, 1, 5, 20, 255, 256, 300))
		ts := int64(g.U64())
		if g.Rng.Intn(2) == 0 {
			ts = now.Unix() - int64(g.Rng.Intn(1000))
		}
		g.Emit("tc.msg", fmt.Sprint(wc), h.Hex(g.Bytes(32)), h.Hex(dom), fmt.Sprint(ts), h.Hex(g.Bytes(g.Pick(0, 1, 32, 64, 100))))
	}
	// ---- StaticDomain, and the digest layout on multi-byte domains
	for _, d := range []string{"example.org", "a", "ton-connect.io"} {
		vs := domainVariants(g, d)
		for _, x := range vs {
			for _, y := range []string{d, x, vs[g.Rng.Intn(len(vs))]} {
				g.Emit("tc.domain", h.Hex([]byte(x)), h.Hex([]byte(y)))
			}
			g.Emit("tc.msg", "0", h.Hex(g.Bytes(32)), h.Hex([]byte(x)), fmt.Sprint(now.Unix()), h.Hex(g.Bytes(16)))
		}
	}
	// ---- payloads
	for i := 0; i < g.Scale(80, 2000); i++ {
		secret := g.Bytes(g.Pick(0, 1, 8, 32, 64, 65, 120))
		var e uint64
		kind := g.Rng.Intn(4)
		switch kind {
		case 0:
			e = uint64(now.Unix() - int64(g.Rng.Intn(1000))) // fresh
		case 1:
			e = uint64(now.Unix() - life - 10_000_000) // expired
		case 2:
			e = uint64(now.Unix() + 1_000_000) // from the future
		case 3:
			e = g.U64() // anything, including "negative" times
			if d := int64(e) - now.Unix(); d > -life-5_000_000 && d < -life+5_000_000 {
				e = 0
			}
		}
		p := []byte(refPayload(string(secret), g.Bytes(8), e))
		what := "valid"
		switch g.Rng.Intn(8) {
		case 0: // flipped bit
			b, _ := hex.DecodeString(string(p))
			bit := g.Rng.Intn(256)
			b[bit/8] ^= 0x80 >> uint(bit%8)
			p = []byte(hex.EncodeToString(b))
			what = "bitflip"
		case 1:
			p = p[:len(p)-2*g.Rng.Intn(3)-1]
			what = "short"
		case 2:
			p = append(p, "00"...)
			what = "long"
		case 3:
			p = []byte(strings.ToUpper(string(p)))
			what = "uppercase"
		case 4:
			p[g.Rng.Intn(len(p))] = "gz -:"[g.Rng.Intn(5)]
			what = "nonhex"
		case 5:
			p = []byte(refPayload(string(secret)+"x", g.Bytes(8), e))
			what = "foreign_secret"
		}
		g.Count(fmt.Sprintf("payload_%s_time%d", what, kind))
		g.Emit("tc.payload", h.Hex(secret), h.Hex(p), fmt.Sprint(nowNs), fmt.Sprint(life))
	}
	// ---- payloads of every short / long EVEN hex length (they pass hex decoding and reach the length guard), and the empty one
	for _, n := range []int{0, 1, 2, 8, 15, 16, 17, 31, 33, 64} {
		g.Count("payload_even_hex_len")
		g.Emit("tc.payload", h.Hex([]byte("secret")), h.Hex([]byte(hex.EncodeToString(g.Bytes(n)))), fmt.Sprint(nowNs), fmt.Sprint(life))
	}
	// ---- public keys with leading zero bytes, through the get-method path and the state-init path
	for _, seed := range zeroKeySeeds {
		for _, ver := range []wallet.Version{wallet.V3R2, wallet.V4R2, wallet.V5R1} {
			w := mkWallet(ver, seed)
			lead := 0
			for lead < 32 && w.pub[lead] == 0 {
				lead++
			}
			g.Count(fmt.Sprintf("pubkey_leading_zero_bytes_%d", lead))
			siTable := cellTable(func() *boc.Cell { c := boc.NewCell(); _ = tlb.Marshal(c, w.si); return c }())
			ts := now.Unix() - int64(g.Rng.Intn(1000))
			payload := refPayload("secret", g.Bytes(8), uint64(now.Unix()))
			for _, getter := range []string{getterFor("key", w.pub), "fail:err"} {
				c := &tcCase{life: life, payloadOk: "1", domOk: "1", address: w.id.String(), ts: ts, domain: "example.org", payload: payload,
					getter: getter, stateInit: siTable}
				c.sig = ed25519.Sign(w.priv, refMessage(w.id.Workchain, w.id.Address[:], "example.org", ts, payload))
				// candidates: the key itself and the key a RIGHT-padding conversion would produce
				wrong := make([]byte, 32)
				copy(wrong, w.pub[lead:])
				c.cand = [][]byte{w.pub, wrong, zero}
				c.emit(g, nowNs, known, seed)
				g.Emit("go.tc.honest", fmt.Sprint(int(ver)), seed, h.Hex([]byte("example.org")), map[bool]string{true: "key", false: "fail:err"}[getter != "fail:err"])
			}
		}
	}
	// ---- proofs
	nProof := g.Scale(12, 350)
	for i := 0; i < nProof; i++ {
		for _, ver := range knownVers {
			seed := h.Hex(g.Bytes(32))
			w := mkWallet(ver, seed)
			siTable := cellTable(func() *boc.Cell { c := boc.NewCell(); _ = tlb.Marshal(c, w.si); return c }())
			domain := []string{"example.org", "a", "ton-connect.io", strings.Repeat("x", 200)}[g.Rng.Intn(4)]
			ts := now.Unix() - int64(g.Rng.Intn(1000))
			payload := refPayload("secret", g.Bytes(8), uint64(now.Unix()))
			base := func() *tcCase {
				c := &tcCase{life: life, payloadOk: "1", domOk: "1", address: w.id.String(), ts: ts, domain: domain, payload: payload,
					getter: getterFor("key", w.pub), stateInit: siTable}
				c.sig = ed25519.Sign(w.priv, refMessage(w.id.Workchain, w.id.Address[:], domain, ts, payload))
				c.cand = [][]byte{w.pub, zero}
				return c
			}
			g.Count("proof_ver_" + ver.ToString())
			g.NonTrivial("proof/" + seed)
			// honest, key from the getter / from the state-init / state-init absent
			c := base()
			c.emit(g, nowNs, known, seed)
			// deterministic cycle (not left to the random draw): the payload callback refusing with (false, nil); get-method
			// integers of 31, 32, 33 and 64 significant bytes (33 and 64 exceed a key: error, never a panic; fallback to the
			// state init)
			c = base()
			c.payloadOk = "n"
			g.Count("payload_callback_false_nil")
			c.emit(g, nowNs, known, seed)
			{
				n := []int{31, 32, 33, 64}[(i+int(ver))%4]
				k := g.Bytes(n)
				k[0] |= 1
				c = base()
				c.getter = "int:" + new(big.Int).SetBytes(k).String()
				if n <= 32 {
					c.cand = append(c.cand, append(make([]byte, 32-n), k...))
				}
				g.Count(fmt.Sprintf("getter_int_%d_bytes", n))
				c.emit(g, nowNs, known, seed)
				c = base()
				c.getter = "int:" + new(big.Int).SetBytes(k).String()
				c.stateInit = "empty"
				if n <= 32 {
					c.cand = append(c.cand, append(make([]byte, 32-n), k...))
				}
				c.emit(g, nowNs, known, seed)
			}
			c = base()
			c.getter = failModes[g.Rng.Intn(len(failModes))]
			g.Count("getter_" + c.getter)
			c.emit(g, nowNs, known, seed)
			c = base()
			c.stateInit = "empty"
			if g.Rng.Intn(2) == 0 {
				c.getter = "fail:err"
			}
			c.emit(g, nowNs, known, seed)
			g.Emit("go.tc.honest", fmt.Sprint(int(ver)), seed, h.Hex([]byte(domain)), []string{"key", "fail:err", "fail:empty"}[g.Rng.Intn(3)])
			// one variation
			o := mkWallet(ver, h.Hex(g.Bytes(32)))
			oTable := cellTable(func() *boc.Cell { c := boc.NewCell(); _ = tlb.Marshal(c, o.si); return c }())
			for rep := 0; rep < 6; rep++ {
				c = base()
				if g.Rng.Intn(2) == 0 {
					c.getter = "fail:err"
				}
				c.cand = append(c.cand, o.pub)
				kind := g.Rng.Intn(26)
				switch kind {
				case 0:
					c.payloadOk = "0"
				case 1:
					c.domOk = []string{"0", "e"}[g.Rng.Intn(2)]
				case 2: // expired / from the future
					c.ts = now.Unix() - life - 10_000_000
					if g.Rng.Intn(3) == 0 {
						c.ts = now.Unix() + 1_000_000
					}
					c.sig = ed25519.Sign(w.priv, refMessage(w.id.Workchain, w.id.Address[:], domain, c.ts, payload))
				case 3: // fields substituted after signing
					c.ts += int64(1 + g.Rng.Intn(5))
				case 4:
					c.domain = "evil." + domain
				case 5:
					c.payload = refPayload("secret", g.Bytes(8), uint64(now.Unix()))
				case 6: // another wallet's address (with its state-init or with ours)
					c.address = o.id.String()
					if g.Rng.Intn(2) == 0 {
						c.stateInit = oTable
					}
					if c.getter != "fail:err" {
						c.getter = getterFor("key", o.pub)
					}
				case 7: // signed by another key
					c.sig = ed25519.Sign(o.priv, refMessage(w.id.Workchain, w.id.Address[:], domain, ts, payload))
				case 8: // signature bit flip
					bit := g.Rng.Intn(512)
					c.sig = append([]byte{}, c.sig...)
					c.sig[bit/8] ^= 1 << uint(bit%8)
				case 9: // signature of a wrong length / undecodable
					switch g.Rng.Intn(3) {
					case 0:
						c.sig = c.sig[:63]
					case 1:
						c.sig = append(append([]byte{}, c.sig...), 0)
					case 2:
						c.sigB64Err = true
					}
				case 10: // state-init of another wallet: hash mismatch
					c.stateInit = oTable
				case 11: // getter returns another key
					c.getter = getterFor("key", o.pub)
				case 12: // getter key with leading zero bytes / too short / negative
					k := append([]byte{}, w.pub...)
					switch g.Rng.Intn(3) {
					case 0:
						k[0] = 0
						c.getter = "int:" + new(big.Int).SetBytes(k).String()
						c.cand = append(c.cand, k)
					case 1:
						for j := 0; j < 9; j++ {
							k[j] = 0
						}
						c.getter = "int:" + new(big.Int).SetBytes(k).String() // 23 significant bytes: invalid
					case 2:
						c.getter = "int:-" + new(big.Int).SetBytes(k).String()
					}
				case 13: // address forms
					switch g.Rng.Intn(7) {
					case 0:
						c.address = "0:ab"
					case 1:
						c.address = w.id.ToHuman(true, false)
					case 2:
						c.address = w.id.String() + ":0"
					case 3:
						c.address = "x:" + hex.EncodeToString(w.id.Address[:])
					case 4:
						c.address = "99999999999:" + hex.EncodeToString(w.id.Address[:])
					case 5:
						c.address = "0:" + strings.ToUpper(hex.EncodeToString(w.id.Address[:]))
					case 6:
						c.address = "+0:" + hex.EncodeToString(w.id.Address[:]) + "zz"
					}
				case 14: // same account in another workchain notation
					c.address = fmt.Sprintf("%d:%s", g.Pick(-1, 1, 255, -0), hex.EncodeToString(w.id.Address[:]))
				case 15, 16, 17: // state-init shapes, address = their hash
					code := wallet.GetCodeByVer(ver)
					data := w.si.Data.Value.Value
					var sc *boc.Cell
					switch g.Rng.Intn(7) {
					case 0:
						sc = rawStateInit(nil, &data, false)
					case 1:
						sc = rawStateInit(code, nil, false)
					case 2:
						sc = rawStateInit(nil, nil, false)
					case 3:
						sc = rawStateInit(&data, &data, false) // unknown code
					case 4:
						sc = rawStateInit(code, &data, true) // same wallet with a split depth: another address
					case 5:
						d := boc.NewCell()
						_ = d.WriteUint(1, 20)
						sc = rawStateInit(code, d, false) // data too short for the layout
					case 6:
						sc = rawStateInit(wallet.GetCodeByVer(wallet.V3R2Lockup), &data, false)
					}
					hs, _ := sc.Hash256()
					c.address = ton.AccountID{Workchain: 0, Address: hs}.String()
					c.stateInit = cellTable(sc)
					c.getter = "fail:err"
					c.sig = ed25519.Sign(w.priv, refMessage(0, hs[:], domain, ts, payload))
				case 18: // several roots / not a bag of cells
					c.getter = "fail:err"
					if g.Rng.Intn(2) == 0 {
						c.stateInit = siTable + "/" + oTable
					} else {
						c.stateInit = "bocerr"
					}
				case 21, 22: // StaticDomain as the domain check: ports, sub-domains, case, Unicode look-alikes are other domains
					vs := domainVariants(g, "example.org")
					conf := vs[g.Rng.Intn(len(vs))]
					if g.Rng.Intn(2) == 0 {
						conf = c.domain
					}
					c.domOk = "s:" + h.Hex([]byte(conf))
					if conf == "" {
						c.domOk = "s:-"
					}
				case 19, 20: // impersonation: the victim's address, the attacker's state-init and the attacker's signature
					c.getter = "fail:err"
					c.stateInit = oTable
					c.sig = ed25519.Sign(o.priv, refMessage(w.id.Workchain, w.id.Address[:], domain, ts, payload))
				default: // honest again with other option mixes
					c.domain = domain
				}
				g.Count(fmt.Sprintf("proof_variation_%02d", kind))
				c.emit(g, nowNs, known, seed)
			}
			// ParseStateInit directly
			g.Emit("tc.parse", known, siTable)
			if g.Rng.Intn(4) == 0 {
				d := w.si.Data.Value.Value
				g.Emit("tc.parse", known, cellTable(rawStateInit(wallet.GetCodeByVer(wallet.V3R2Lockup), &d, false)))
				g.Emit("tc.parse", known, cellTable(rawStateInit(nil, &d, false)))
			}
			if g.Rng.Intn(3) == 0 {
				g.Emit("tc.parse", known, siTable+"/"+oTable)
			}
			// direct oracles
			field := []string{"address", "workchain", "domain", "timestamp", "payload", "sigflip", "otherkey", "stateinit", "impersonate", "impersonate"}[g.Rng.Intn(10)]
			g.Emit("go.tc.subst", fmt.Sprint(int(ver)), seed, field, fmt.Sprint(g.Rng.Intn(1<<30)), []string{"key", "fail:err"}[g.Rng.Intn(2)])
		}
		for _, v := range []string{"nocode", "nodata", "neither", "shortdata", "unknowncode", "splitdepth", "emptycell", "multiroot", "garbage", "notbase64"} {
			g.Emit("go.tc.total", v, fmt.Sprint(g.Rng.Intn(1<<30)))
		}
		g.Emit("go.tc.lockup", fmt.Sprint(g.Rng.Intn(1<<30)))
		if i < 3 {
			g.Count("limit_small_order_key")
			g.Emit("go.ed.smallorder", fmt.Sprint(g.Rng.Intn(1<<30)))
			g.Emit("go.tc.smallkey", fmt.Sprint(g.Rng.Intn(1<<30)))
		}
		g.Emit("go.tc.genpayload", h.Hex(g.Bytes(g.Pick(0, 5, 64, 100))), fmt.Sprint(g.Pick(1, 300, 100000)))
	}
	// time boundaries with the real clock (few: each waits for mid-second)
	for _, d := range []int{-1, 0, 1, 2, -5} {
		for _, what := range []string{"proof", "payload"} {
			g.Emit("go.tc.time", fmt.Sprint(int(wallet.V4R2)), h.Hex(g.Bytes(32)), what, fmt.Sprint(g.Pick(2, 300, 300)), fmt.Sprint(d))
		}
	}
}
