//go:build c02

package main

import (
	"fmt"

	"verifharness/h"
)

func init() {
	h.Register(&h.Prop{ID: "C02", Gen: genC02, Exec: withCells(map[string]h.ExecFn{})})
}

func genC02(g *h.G) {
	genPrim(g, "prim.sha256")
	n := g.Scale(1500, 30000)
	for i := 0; i < n; i++ {
		t := g.RandOrdinaryTable(h.DagOpts{MaxCells: g.Pick(1, 3, 8, 40)})
		ts := h.TableString(t)
		g.Count(fmt.Sprintf("cells_%d", len(t)/10*10))
		if len(t) >= 2 {
			g.NonTrivial(ts)
		}
		g.Emit("cell.hash", ts)
		g.Emit("cell.levels", ts)
		g.Emit("cell.canon", ts)
	}
}
