//go:build c02

package main

import (
	"bytes"
	"sort"
	"crypto/sha256"
	"encoding/hex"
	"fmt"
	"math/rand"
	"strconv"
	"strings"

	"github.com/tonkeeper/tongo/boc"
	"github.com/tonkeeper/tongo/tlb"
	"verifharness/h"
)

func init() {
	h.Register(&h.Prop{ID: "C02", Gen: genC02, Exec: withCells(map[string]h.ExecFn{
		"cell.all":     execCellAll,
		"spec.levels":  execCellLevels, // the model side answers with the Lean SPEC evaluated on the unfolded tree
		"lmask":        execLmask,
		"go.spec":      goSpec,
		"go.cached":    goCached,
		"go.reads":     goReads,
		"go.readbits":  goReadBits,
		"go.obtained":  goObtained,
		"go.built":     goBuilt,
		"cell.rehash":  execRehash,
		"go.rehash": func(a []string) string { // the same scenario as a direct oracle: every entry point agrees at every h
			if r := execRehash(a); strings.HasPrefix(r, "FAIL") {
				return r
			}
			return "ok"
		},
		"go.accessors": goAccessors,
		"go.builtdict": goBuiltDict,
		"go.boc":       goBoc,
		"go.nopanic":   goNoPanic,
		"cell.forms":   execCellForms,
		"go.msgtx":     goMsgTx,
		"go.testfiles": func(a []string) string { return "FAIL no-testdata-bocs-found" },
	})})
}

func execCellLevels(a []string) string { return cellExec["cell.levels"](a) }

// levelsLine formats hashes/depths/level like cell.levels does.
func levelsLine(hs [4][]byte, ds [4]int, level int) string {
	var sb strings.Builder
	for l := 0; l < 4; l++ {
		sb.WriteString(h.Hex(hs[l]) + " " + strconv.Itoa(ds[l]) + " ")
	}
	sb.WriteString(strconv.Itoa(level))
	return sb.String()
}

// cell.all <table> -> "ok <rows> <sha256 of one levels line per row>"; rows that fail contribute "err".
func execCellAll(a []string) string {
	t := h.ParseTable(a[0])
	cs := h.BuildCells(t)
	cache := boc.VerifNewCache()
	lines := make([]string, len(t))
	for i := len(t) - 1; i >= 0; i-- {
		hs, ds, err := boc.VerifHashLevelsCached(cs[i], cache)
		if err != nil {
			lines[i] = "err"
		} else {
			lines[i] = levelsLine(hs, ds, cs[i].Level())
		}
	}
	sum := sha256.Sum256([]byte(strings.Join(lines, "\n") + "\n"))
	return fmt.Sprintf("ok %d %s", len(t), hex.EncodeToString(sum[:]))
}

// cell.forms <table> -> "ok <Level()> <Hash() hex> <Hash256() hex> <HashString()>" of row 0
func execCellForms(a []string) string {
	cs := h.BuildCells(h.ParseTable(a[0]))
	hs, err := cs[0].Hash()
	h256, err2 := cs[0].Hash256()
	str, err3 := cs[0].HashString()
	if err != nil || err2 != nil || err3 != nil {
		if err == nil || err2 == nil || err3 == nil {
			return "FAIL hash-forms-disagree-about-the-error"
		}
		return "err"
	}
	return fmt.Sprintf("ok %d %s %s %s", cs[0].Level(), h.Hex(hs), h.Hex(h256[:]), str)
}

// tryMessage / tryTransaction decode a cell with the library's decoders (nil when it is not one).
func tryMessage(c *boc.Cell) (m *tlb.Message) {
	defer func() {
		if recover() != nil {
			m = nil
		}
	}()
	var x tlb.Message
	if tlb.Unmarshal(c, &x) != nil {
		return nil
	}
	return &x
}

func tryTransaction(c *boc.Cell) (t *tlb.Transaction) {
	defer func() {
		if recover() != nil {
			t = nil
		}
	}()
	var x tlb.Transaction
	if tlb.Unmarshal(c, &x) != nil {
		return nil
	}
	return &x
}

// go.msgtx <m|t> <table>: the hash field of the tlb.Message / tlb.Transaction decoded from row 0 equals the
// representation hash of that cell BY THE DEFINITION (plain decoder and decoder with a caching hasher).
func goMsgTx(a []string) string {
	t := h.ParseTable(a[1])
	want := h.NewSpecHasher(t).Hash(0, 3)
	for _, withHasher := range []bool{false, true} {
		c := h.BuildCells(t)[0]
		unm := tlb.Unmarshal
		if withHasher {
			unm = tlb.NewDecoder().Unmarshal
		}
		var got []byte
		if a[0] == "m" {
			var m tlb.Message
			if err := unm(c, &m); err != nil {
				return "FAIL message-no-longer-decodes"
			}
			hh := m.Hash(false)
			got = hh[:]
		} else {
			var x tlb.Transaction
			if err := unm(c, &x); err != nil {
				return "FAIL transaction-no-longer-decodes"
			}
			hh := x.Hash()
			got = hh[:]
		}
		if !bytes.Equal(got, want) {
			return fmt.Sprintf("FAIL decoded-hash-field-differs-from-definition kind=%s hasher=%v got=%x want=%x", a[0], withHasher, got, want)
		}
	}
	return "ok"
}

// lmask <mask> <level> -> "level hashIndex hashesCount apply significant"
func execLmask(a []string) string {
	m, _ := strconv.ParseUint(a[0], 10, 32)
	l, _ := strconv.Atoi(a[1])
	lvl, hi, hc, ap, sig := boc.VerifLevelMask(uint32(m), l)
	s := 0
	if sig {
		s = 1
	}
	return fmt.Sprintf("%d %d %d %d %d", lvl, hi, hc, ap, s)
}

// ------------------------------------------------------------------------------------------- direct oracles

// specLines: one levels line per row from the definition (SpecHasher); "" when the row is too deep.
func specCompare(t []h.Row, cs []*boc.Cell, what string) string {
	sh := h.NewSpecHasher(t)
	cache := boc.VerifNewCache()
	for i := len(t) - 1; i >= 0; i-- {
		hs, ds, err := boc.VerifHashLevelsCached(cs[i], cache)
		deep := sh.TooDeep(i)
		if err != nil {
			if !deep {
				return fmt.Sprintf("FAIL unexpected-error %s row=%d", what, i)
			}
			continue
		}
		if deep {
			return fmt.Sprintf("FAIL missing-depth-error %s row=%d", what, i)
		}
		for l := 0; l < 4; l++ {
			if !bytes.Equal(hs[l], sh.Hash(i, l)) {
				return fmt.Sprintf("FAIL hash-differs-from-definition %s row=%d level=%d got=%x want=%x", what, i, l, hs[l], sh.Hash(i, l))
			}
			if ds[l] != sh.Depth(i, l) {
				return fmt.Sprintf("FAIL depth-differs-from-definition %s row=%d level=%d got=%d want=%d", what, i, l, ds[l], sh.Depth(i, l))
			}
		}
		if cs[i].Level() != h.SpecLevel(t[i].Mask) {
			return fmt.Sprintf("FAIL level-differs-from-definition %s row=%d", what, i)
		}
		if i == 0 {
			hh, err := cs[0].Hash()
			if err != nil || !bytes.Equal(hh, sh.Hash(0, 3)) {
				return fmt.Sprintf("FAIL repr-hash-differs-from-definition %s", what)
			}
		}
	}
	return "ok"
}

// go.nopanic <table>: hashing any cell of any table with 3-bit masks returns a value or an error, never panics
// (runLine turns a panic into the answer "panic", which is a failure for a go. line).
func goNoPanic(a []string) string {
	t := h.ParseTable(a[0])
	cs := h.BuildCells(t)
	for _, c := range cs {
		c.Hash()
		boc.VerifHashLevels(c)
	}
	hasher := boc.NewHasher()
	hasher.Hash(cs[0])
	return "ok"
}

// go.spec <table>: every cell's hashes, depths, level from the real code equal the definition.
func goSpec(a []string) string {
	t := h.ParseTable(a[0])
	return specCompare(t, h.BuildCells(t), "built")
}

// go.cached <table> <seed>: every entry point of ONE caching Hasher (Hash, HashString), called repeatedly and in
// mixed order on the cells of the table (rows near the root first, so that errors come before and after successes),
// gives the same outcome - value or error - every time, and the same as the uncached Cell.Hash / HashString / Hash256.
func goCached(a []string) string {
	t := h.ParseTable(a[0])
	cs := h.BuildCells(t)
	seed, _ := strconv.ParseInt(a[1], 10, 64)
	rng := rand.New(rand.NewSource(seed))
	hasher := boc.NewHasher()
	var order []int
	if len(cs) <= 60 {
		order = rng.Perm(len(cs))
	} else {
		// big tables (chains around the depth limit): the rows next to the root, some in the middle, the leaves
		for _, i := range []int{0, 1, 2, 3, len(cs) / 2, len(cs) - 2, len(cs) - 1, 1, 0} {
			order = append(order, i)
		}
		for k := 0; k < 12; k++ {
			order = append(order, rng.Intn(len(cs)))
		}
	}
	type outcome struct {
		hash []byte
		str  string
		err  bool
	}
	want := map[int]outcome{}
	for _, i := range order {
		if _, ok := want[i]; ok {
			continue
		}
		fresh, err1 := cs[i].Hash()
		s1, err2 := cs[i].HashString()
		h256, err3 := cs[i].Hash256()
		if (err1 == nil) != (err2 == nil) || (err1 == nil) != (err3 == nil) {
			return fmt.Sprintf("FAIL uncached-forms-disagree-about-the-error row=%d", i)
		}
		if err1 == nil && (s1 != hex.EncodeToString(fresh) || !bytes.Equal(h256[:], fresh)) {
			return fmt.Sprintf("FAIL hash-forms-differ row=%d", i)
		}
		want[i] = outcome{fresh, s1, err1 != nil}
	}
	for round := 0; round < 3; round++ {
		for _, i := range order {
			w := want[i]
			for k := 1 + rng.Intn(3); k > 0; k-- {
				if rng.Intn(2) == 0 {
					got, err := hasher.Hash(cs[i])
					if (err != nil) != w.err {
						return fmt.Sprintf("FAIL cached-error-differs entry=Hash row=%d round=%d", i, round)
					}
					if err == nil && !bytes.Equal(got, w.hash) {
						return fmt.Sprintf("FAIL cached-hash-differs entry=Hash row=%d round=%d", i, round)
					}
				} else {
					got, err := hasher.HashString(cs[i])
					if (err != nil) != w.err {
						return fmt.Sprintf("FAIL cached-error-differs entry=HashString row=%d round=%d got=%q", i, round, got)
					}
					if err == nil && got != w.str {
						return fmt.Sprintf("FAIL cached-hash-differs entry=HashString row=%d round=%d", i, round)
					}
				}
			}
		}
	}
	return "ok"
}

// cell.rehash <steps>: ONE cell built in memory and hashed BETWEEN writes. steps separated by '/':
// w<bits> = WriteBit each, a<table> = AddRef(cell built from the table), h = hash now. At every h all entry points
// (Hash, Hash256, HashString, a fresh Hasher) must agree; the answer lists the hash at every h: it must be the hash of
// the CURRENT content (a hash remembered inside the cell from before a write would be stale).
func execRehash(a []string) string {
	c := boc.NewCell()
	var out []string
	for _, st := range strings.Split(a[0], "/") {
		switch st[0] {
		case 'w':
			for _, ch := range st[1:] {
				if err := c.WriteBit(ch == '1'); err != nil {
					return "err"
				}
			}
		case 'a':
			if err := c.AddRef(h.BuildCells(h.ParseTable(st[1:]))[0]); err != nil {
				return "err"
			}
		case 'h':
			h1, e1 := c.Hash()
			h2, e2 := c.Hash256()
			h3, e3 := c.HashString()
			h4, e4 := boc.NewHasher().Hash(c)
			if e1 != nil || e2 != nil || e3 != nil || e4 != nil {
				return "err"
			}
			if !bytes.Equal(h1, h2[:]) || h3 != hex.EncodeToString(h1) || !bytes.Equal(h1, h4) {
				return fmt.Sprintf("FAIL hash-forms-disagree-after-writes Hash=%x Hash256=%x HashString=%s Hasher=%x", h1, h2[:], h3, h4)
			}
			out = append(out, h3)
		}
	}
	return "ok " + strings.Join(out, " ")
}

// go.accessors <table>: the accessors of exotic cells return what the cells store: GetMerkleRoot of a Merkle-proof
// cell and GetLibraryHash of a library cell = data bytes 1..32; tlb.MerkleProof / tlb.MerkleUpdate decode the stored
// hashes and depths.
func goAccessors(a []string) string {
	t := h.ParseTable(a[0])
	libChild := func(r h.Row) bool { // a library cell as virtual root needs a library resolver: the decoder refuses
		for _, x := range r.Refs {
			if t[x].Ty == 2 {
				return true
			}
		}
		return false
	}
	for i, r := range t {
		cs := h.BuildCells(t)
		c := cs[i]
		switch r.Ty {
		case 3:
			got, err := c.GetMerkleRoot()
			if err != nil || !bytes.Equal(got[:], r.Data[1:33]) {
				return fmt.Sprintf("FAIL GetMerkleRoot-differs-from-stored-hash row=%d", i)
			}
			c.ResetCounters()
			var mp tlb.MerkleProof[tlb.Any]
			if err := tlb.Unmarshal(c, &mp); err != nil {
				if libChild(r) {
					continue
				}
				return fmt.Sprintf("FAIL tlb.MerkleProof-does-not-decode row=%d", i)
			}
			if !bytes.Equal(mp.VirtualHash[:], r.Data[1:33]) || int(mp.Depth) != int(r.Data[33])<<8|int(r.Data[34]) {
				return fmt.Sprintf("FAIL tlb.MerkleProof-fields-differ-from-stored row=%d", i)
			}
		case 2:
			got, err := c.GetLibraryHash()
			if err != nil || !bytes.Equal(got[:], r.Data[1:33]) {
				return fmt.Sprintf("FAIL GetLibraryHash-differs-from-stored-hash row=%d", i)
			}
		case 4:
			var mu tlb.MerkleUpdate[tlb.Any]
			if err := tlb.Unmarshal(c, &mu); err != nil {
				if libChild(r) {
					continue
				}
				return fmt.Sprintf("FAIL tlb.MerkleUpdate-does-not-decode row=%d", i)
			}
			if !bytes.Equal(mu.FromHash[:], r.Data[1:33]) || !bytes.Equal(mu.ToHash[:], r.Data[33:65]) ||
				int(mu.FromDepth) != int(r.Data[65])<<8|int(r.Data[66]) || int(mu.ToDepth) != int(r.Data[67])<<8|int(r.Data[68]) {
				return fmt.Sprintf("FAIL tlb.MerkleUpdate-fields-differ-from-stored row=%d", i)
			}
		}
	}
	return "ok"
}

// expectedProof builds, independently of boc.MerkleProver, the cell structure a correct proof builder returns for the
// all-ordinary level-0 table t and the pruned positions: positions replaced by `01 01 hash0 depth0`, every ancestor's
// mask the OR of its children's, the Merkle-proof root on top. Hashes from the definition (SpecHasher).
func expectedProof(t []h.Row, paths [][]int) []h.Row {
	so := h.NewSpecHasher(t)
	pruned := map[string]bool{}
	for _, p := range paths {
		pruned[fmt.Sprint(p)] = true
	}
	var out []h.Row
	var build func(i int, path []int) int
	build = func(i int, path []int) int {
		me := len(out)
		out = append(out, h.Row{})
		if pruned[fmt.Sprint(path)] {
			d := so.Depth(i, 0)
			data := append([]byte{1, 1}, so.Hash(i, 0)...)
			data = append(data, byte(d>>8), byte(d))
			out[me] = h.Row{Ty: 1, Mask: 1, BitLen: len(data) * 8, Data: data}
			return me
		}
		r := t[i]
		row := h.Row{Ty: r.Ty, BitLen: r.BitLen, Data: r.Data}
		for k, c := range r.Refs {
			ci := build(c, append(append([]int{}, path...), k))
			row.Refs = append(row.Refs, ci)
			row.Mask |= out[ci].Mask
		}
		out[me] = row
		return me
	}
	out = append(out, h.Row{})
	child := build(0, []int{})
	d := so.Depth(0, 0)
	data := append([]byte{3}, so.Hash(0, 0)...)
	data = append(data, byte(d>>8), byte(d))
	out[0] = h.Row{Ty: 3, Mask: out[child].Mask >> 1, BitLen: len(data) * 8, Data: data, Refs: []int{child}}
	return out
}

func parsePathsC02(s string) [][]int {
	if s == "-" {
		return nil
	}
	var out [][]int
	for _, p := range strings.Split(s, "/") {
		var path []int
		if p != "r" {
			for _, x := range strings.Split(p, ".") {
				v, _ := strconv.Atoi(x)
				path = append(path, v)
			}
		}
		out = append(out, path)
	}
	return out
}

// go.built <table> <paths>: cells obtained from the library's proof builder (NewMerkleProver + cursors pruning at the
// given positions + CreateProof, parsed back): the result is the structure a correct builder returns (independent
// construction), satisfies the exotic-cell rules, and Level / hash / depth at all levels of EVERY cell of it equal the
// definition.
func goBuilt(a []string) string {
	t := h.ParseTable(a[0])
	paths := parsePathsC02(a[1])
	cs := h.BuildCells(t)
	prover, err := boc.NewMerkleProver(cs[0])
	if err != nil {
		return "FAIL prover-error"
	}
	cursor := prover.Cursor()
	for _, p := range paths {
		c := cursor
		for _, i := range p {
			c = c.Ref(i)
		}
		c.Prune()
	}
	bytesOut, err := prover.CreateProof(cursor)
	if err != nil {
		return "FAIL create-proof-error"
	}
	roots, err := boc.DeserializeBoc(bytesOut)
	if err != nil || len(roots) != 1 {
		return "FAIL proof-does-not-parse"
	}
	got, cells := tableOfParsed(roots)
	if !h.WFExotic(got) {
		return "FAIL built-cells-violate-the-exotic-cell-rules (level mask of a cell is not the OR of its children's)"
	}
	if r := specCompare(got, cells, "built-by-prover"); r != "ok" {
		return r
	}
	exp := expectedProof(t, paths)
	expCanon := h.Canon(h.BuildCells(exp)[:1])
	if gotCanon := h.Canon(roots); gotCanon != expCanon {
		return "FAIL built-cells-differ-from-the-correct-structure"
	}
	// the hash does not depend on how the cell was obtained: built by the prover vs built from raw parts
	hb, err1 := roots[0].Hash()
	he, err2 := h.BuildCells(exp)[0].Hash()
	if err1 != nil || err2 != nil || !bytes.Equal(hb, he) || roots[0].Level() != h.BuildCells(exp)[0].Level() {
		return "FAIL hash-or-level-of-built-cell-differs"
	}
	return "ok"
}

// go.builtdict <seed> <n>: cells obtained through tlb.ProveKeyInHashmap on a dictionary of n random 32-bit keys:
// every cell of every proof satisfies the exotic-cell rules and hashes as the definition says.
func goBuiltDict(a []string) string {
	seed, _ := strconv.ParseInt(a[0], 10, 64)
	n, _ := strconv.Atoi(a[1])
	rng := rand.New(rand.NewSource(seed))
	seen := map[uint32]bool{}
	var keys []tlb.Uint32
	for len(keys) < n {
		k := rng.Uint32() >> uint(rng.Intn(28))
		if !seen[k] {
			seen[k] = true
			keys = append(keys, tlb.Uint32(k))
		}
	}
	sort.Slice(keys, func(i, j int) bool { return keys[i] < keys[j] })
	vals := make([]tlb.Uint32, n)
	for i := range vals {
		vals[i] = tlb.Uint32(rng.Intn(4))
	}
	c := boc.NewCell()
	if err := tlb.Marshal(c, tlb.NewHashmapE(keys, vals)); err != nil {
		return "FAIL dictionary-marshal"
	}
	root := c.Refs()[0]
	orig := h.ParseTable(strings.Fields(h.Canon([]*boc.Cell{root}))[0])
	so := h.NewSpecHasher(orig)
	prover, err := boc.NewMerkleProver(root)
	if err != nil {
		return "FAIL prover-error"
	}
	for j := 0; j < 4 && j < n; j++ {
		k := keys[rng.Intn(n)]
		kc := boc.NewCell()
		tlb.Marshal(kc, k)
		root.ResetCounters()
		_, proof, err := tlb.ProveKeyInHashmap[tlb.Uint32](prover, root, kc.RawBitString())
		if err != nil {
			return "FAIL present-key-yields-an-error"
		}
		roots, err := boc.DeserializeBoc(proof)
		if err != nil || len(roots) != 1 {
			return "FAIL proof-does-not-parse"
		}
		got, cells := tableOfParsed(roots)
		if !h.WFExotic(got) {
			return "FAIL built-cells-violate-the-exotic-cell-rules"
		}
		if r := specCompare(got, cells, "built-by-ProveKeyInHashmap"); r != "ok" {
			return r
		}
		sp := h.NewSpecHasher(got)
		if !bytes.Equal(sp.Hash(got[0].Refs[0], 0), so.Hash(0, 0)) {
			return "FAIL level0-hash-of-built-tree-differs-from-the-original"
		}
	}
	return "ok"
}

// randomReads performs arbitrary read operations on a cell.
func randomReads(rng *rand.Rand, c *boc.Cell) {
	for k := rng.Intn(12); k >= 0; k-- {
		switch rng.Intn(9) {
		case 0:
			c.ReadUint(rng.Intn(65))
		case 1:
			c.ReadBit()
		case 2:
			c.ReadBits(rng.Intn(300))
		case 3:
			c.Skip(rng.Intn(40))
		case 4:
			c.NextRef()
		case 5:
			c.ReadBytes(rng.Intn(40))
		case 6:
			c.ReadInt(rng.Intn(65))
		case 7:
			c.ReadRemainingBits()
		case 8:
			c.ReadBigUint(rng.Intn(260))
		}
	}
}

// go.reads <table> <seed>: the hash does not depend on what has been read from the cells.
func goReads(a []string) string {
	t := h.ParseTable(a[0])
	cs := h.BuildCells(t)
	seed, _ := strconv.ParseInt(a[1], 10, 64)
	rng := rand.New(rand.NewSource(seed))
	before, err0 := cs[0].Hash()
	for _, c := range cs {
		if rng.Intn(3) != 0 {
			randomReads(rng, c)
		}
	}
	after, err1 := cs[0].Hash()
	if (err0 == nil) != (err1 == nil) || !bytes.Equal(before, after) {
		return "FAIL hash-changed-by-reads"
	}
	hs, _, err2 := boc.VerifHashLevels(cs[0])
	hs0, _, err3 := boc.VerifHashLevels(h.BuildCells(t)[0])
	if (err2 == nil) != (err3 == nil) {
		return "FAIL error-changed-by-reads"
	}
	for l := 0; l < 4; l++ {
		if !bytes.Equal(hs[l], hs0[l]) {
			return fmt.Sprintf("FAIL level-hash-changed-by-reads level=%d", l)
		}
	}
	return "ok"
}

// go.readbits <hexdata> <bitlen> <skip> <n>: NewCellWithBits(ReadBits(n)) after skipping `skip` bits hashes like a
// cell into which the same n bits were written.
func goReadBits(a []string) string {
	data := h.MustUnHex(a[0])
	bl, _ := strconv.Atoi(a[1])
	skip, _ := strconv.Atoi(a[2])
	n, _ := strconv.Atoi(a[3])
	src := boc.VerifNewCell(boc.OrdinaryCell, 0, data, bl, nil)
	if err := src.Skip(skip); err != nil {
		return "ok"
	}
	bs, err := src.ReadBits(n)
	if err != nil {
		return "ok"
	}
	got, err := boc.NewCellWithBits(bs).Hash()
	if err != nil {
		return "FAIL readbits-hash-error"
	}
	w := boc.NewCell()
	for i := skip; i < skip+n; i++ {
		if err := w.WriteBit(data[i/8]>>(7-uint(i%8))&1 == 1); err != nil {
			return "FAIL writebit-error"
		}
	}
	want, _ := w.Hash()
	// the definition, too
	row := h.Row{BitLen: n, Data: make([]byte, (n+7)/8)}
	for i := 0; i < n; i++ {
		if data[(skip+i)/8]>>(7-uint((skip+i)%8))&1 == 1 {
			row.Data[i/8] |= 1 << (7 - uint(i%8))
		}
	}
	def := h.NewSpecHasher([]h.Row{row}).Hash(0, 3)
	if !bytes.Equal(want, def) {
		return "FAIL written-bits-hash-differs-from-definition"
	}
	if !bytes.Equal(got, want) {
		al := "unaligned-cursor"
		if skip%8 == 0 {
			al = "aligned-cursor"
		}
		return fmt.Sprintf("FAIL readbits-hash-differs %s n%%8=%d", al, n%8)
	}
	return "ok"
}

// buildByWriting rebuilds an all-ordinary table through the public builder API (NewCell / WriteBit / AddRef).
func buildByWriting(t []h.Row) ([]*boc.Cell, bool) {
	cells := make([]*boc.Cell, len(t))
	for i := len(t) - 1; i >= 0; i-- {
		r := t[i]
		if r.Ty != 0 || r.Mask != 0 {
			return nil, false
		}
		c := boc.NewCell()
		full := r.BitLen / 8
		if full > 0 {
			if err := c.WriteBytes(r.Data[:full]); err != nil {
				return nil, false
			}
		}
		for k := full * 8; k < r.BitLen; k++ {
			if err := c.WriteBit(r.Data[k/8]>>(7-uint(k%8))&1 == 1); err != nil {
				return nil, false
			}
		}
		for _, x := range r.Refs {
			if err := c.AddRef(cells[x]); err != nil {
				return nil, false
			}
		}
		cells[i] = c
	}
	return cells, true
}

// go.obtained <table>: the hash does not depend on how the cell was obtained: built from raw parts, written through
// the builder API (ordinary cells), or serialised to a bag of cells and parsed back.
func goObtained(a []string) string {
	t := h.ParseTable(a[0])
	cs := h.BuildCells(t)
	want, err := cs[0].Hash()
	if err != nil {
		return "ok"
	}
	if w, ok := buildByWriting(t); ok {
		got, err := w[0].Hash()
		if err != nil || !bytes.Equal(got, want) {
			return "FAIL written-cell-hash-differs"
		}
		if r := specCompare(t, w, "written"); r != "ok" {
			return r
		}
	}
	for _, flags := range [][3]bool{{false, false, false}, {true, true, false}} {
		ser, err := boc.SerializeBoc(cs[0], flags[0], flags[1], flags[2], 0)
		if err != nil {
			return "FAIL serialize-error"
		}
		back, err := boc.DeserializeBoc(ser)
		if err != nil || len(back) != 1 {
			return "FAIL reparse-error"
		}
		got, err := back[0].Hash()
		if err != nil || !bytes.Equal(got, want) {
			return "FAIL reparsed-cell-hash-differs"
		}
	}
	return "ok"
}

// tableOfParsed canonicalises parsed roots into a table and returns the parsed cell of every row.
func tableOfParsed(roots []*boc.Cell) ([]h.Row, []*boc.Cell) {
	s := h.Canon(roots)
	t := h.ParseTable(strings.Fields(s)[0])
	// map rows back to parsed cells: rebuild the same interning walk
	cells := make([]*boc.Cell, len(t))
	rootIdx := strings.Split(strings.Fields(s)[1], ".")
	var assign func(c *boc.Cell, i int)
	assign = func(c *boc.Cell, i int) {
		if cells[i] != nil {
			return
		}
		cells[i] = c
		for j, ch := range c.Refs() {
			assign(ch, t[i].Refs[j])
		}
	}
	for k, r := range roots {
		i, _ := strconv.Atoi(rootIdx[k])
		assign(r, i)
	}
	return t, cells
}

// go.boc <hex>: every cell of a bag of cells parsed by the real parser hashes (all levels) as the definition says.
func goBoc(a []string) string {
	roots, err := boc.DeserializeBoc(h.MustUnHex(a[0]))
	if err != nil {
		return "FAIL parse-error"
	}
	t, cells := tableOfParsed(roots)
	if r := specCompare(t, cells, "parsed"); r != "ok" {
		return r
	}
	// a caching hasher over the parsed cells
	hasher := boc.NewHasher()
	for i := 0; i < len(cells); i += 1 + len(cells)/50 {
		f, err1 := cells[i].Hash()
		c, err2 := hasher.Hash(cells[i])
		if (err1 == nil) != (err2 == nil) || !bytes.Equal(f, c) {
			return fmt.Sprintf("FAIL cached-hash-differs row=%d", i)
		}
	}
	return "ok"
}

// ------------------------------------------------------------------------------------------------ generator

func emitTable(g *h.G, t []h.Row, class string) {
	ts := h.TableString(t)
	g.Count(class)
	g.Count(fmt.Sprintf("cells_%03d", len(t)/10*10))
	for _, r := range t {
		g.Count(fmt.Sprintf("ty%d_mask%d", r.Ty, r.Mask))
	}
	if len(t) >= 2 || t[0].Ty != 0 {
		g.NonTrivial(ts)
	}
	g.Emit("cell.levels", ts)
	g.Emit("cell.hash", ts)
	g.Emit("cell.all", ts)
	g.Emit("cell.forms", ts)
	g.Emit("go.spec", ts)
}

// specCost estimates the number of steps of the (unmemoised, tree-recursive) Lean specification on row 0.
func specCost(t []h.Row) int {
	const cap = 1 << 24
	ch := make([][6]int, len(t)) // hash cost per level
	cd := make([][6]int, len(t)) // depth cost per level
	for i := len(t) - 1; i >= 0; i-- {
		r := t[i]
		for l := 0; l <= 5; l++ {
			cl := l
			if r.Ty == 3 || r.Ty == 4 {
				cl = l + 1
			}
			if cl > 5 {
				cl = 5
			}
			sig := l == 0 || (l <= 3 && (r.Mask>>(uint(l)-1))&1 == 1)
			switch {
			case r.Ty == 1 && l < h.SpecLevel(r.Mask):
				ch[i][l], cd[i][l] = 1, 1
			case !sig:
				ch[i][l], cd[i][l] = ch[i][l-1]+1, cd[i][l-1]+1
			default:
				a, b := 1, 1
				if l > 0 && r.Ty != 1 {
					a += ch[i][l-1]
				}
				for _, c := range r.Refs {
					a += ch[c][cl] + cd[c][cl]
					b += cd[c][cl]
				}
				if a > cap {
					a = cap
				}
				if b > cap {
					b = cap
				}
				ch[i][l], cd[i][l] = a, b
			}
		}
	}
	total := 0
	for l := 0; l < 4; l++ {
		total += ch[0][l] + cd[0][l]
	}
	// tooDeep evaluates the depths of every cell of the unfolded tree
	return total + 8*unfoldedSize(t)
}

func unfoldedSize(t []h.Row) int {
	size := make([]int, len(t))
	for i := len(t) - 1; i >= 0; i-- {
		size[i] = 1
		for _, c := range t[i].Refs {
			size[i] += size[c]
			if size[i] > 1<<20 {
				size[i] = 1 << 20
			}
		}
	}
	return size[0]
}

func genC02(g *h.G) {
	genPrim(g, "prim.sha256")
	// level-mask helpers: the whole 3-bit table and random 32-bit masks
	for m := 0; m < 8; m++ {
		for l := 0; l <= 5; l++ {
			g.Emit("lmask", strconv.Itoa(m), strconv.Itoa(l))
		}
	}
	for i := 0; i < 200; i++ {
		g.Emit("lmask", strconv.FormatUint(uint64(g.Rng.Uint32())>>uint(g.Rng.Intn(32)), 10), strconv.Itoa(g.Rng.Intn(32)))
	}
	// ordinary DAGs
	n := g.Scale(400, 40000)
	for i := 0; i < n; i++ {
		t := g.RandOrdinaryTable(h.DagOpts{MaxCells: g.Pick(1, 3, 8, 40)})
		emitTable(g, t, "class_ordinary_dag")
		ts := h.TableString(t)
		if i%4 == 0 {
			g.Emit("go.cached", ts, strconv.Itoa(g.Rng.Intn(1<<30)))
			g.Emit("go.reads", ts, strconv.Itoa(g.Rng.Intn(1<<30)))
			g.Emit("go.obtained", ts)
			g.Emit("cell.canon", ts)
		}
	}
	// well-formed exotic DAGs over all five types and all masks
	n = g.Scale(1500, 150000)
	for i := 0; i < n; i++ {
		t := g.RandExoticTable(g.Pick(2, 4, 8, 16, 40))
		if !h.WFExotic(t) {
			panic("generator produced a table violating WFExotic: " + h.TableString(t))
		}
		emitTable(g, t, "class_exotic_dag")
		ts := h.TableString(t)
		if specCost(t) <= 2500 {
			g.Emit("spec.levels", ts)
			g.Count("spec_direct")
		}
		if i%4 == 0 {
			g.Emit("go.cached", ts, strconv.Itoa(g.Rng.Intn(1<<30)))
			g.Emit("go.reads", ts, strconv.Itoa(g.Rng.Intn(1<<30)))
			g.Emit("go.obtained", ts)
		}
	}
	// Merkle updates over two pruned versions of a tree (the state_update of a block): pruned branches on both sides
	for i := 0; i < g.Scale(300, 6000); i++ {
		t, na, nb := g.MerkleUpdateTable()
		if !h.WFExotic(t) {
			panic("generator produced a Merkle update violating WFExotic: " + h.TableString(t))
		}
		if na > 0 && nb > 0 {
			g.Count("merkle_update_pruned_on_both_sides")
		} else {
			g.Count("merkle_update_pruned_on_one_side_or_none")
		}
		emitTable(g, t, "class_merkle_update")
		if specCost(t) <= 2500 {
			g.Emit("spec.levels", h.TableString(t))
		}
		if i%4 == 0 {
			g.Emit("go.obtained", h.TableString(t))
			g.Emit("go.cached", h.TableString(t), strconv.Itoa(g.Rng.Intn(1<<30)))
		}
	}
	// every bit length 0..1023 (all numbers of trailing bits at every length), as leaf and with children
	for bl := 0; bl <= 1023; bl++ {
		leaf := h.Row{BitLen: bl, Data: g.RandData(bl)}
		t := []h.Row{leaf}
		if bl%3 == 1 {
			t = []h.Row{{BitLen: bl, Data: g.RandData(bl), Refs: []int{1, 1}}, {BitLen: (bl * 7) % 1024, Data: g.RandData((bl * 7) % 1024)}}
		}
		g.Count(fmt.Sprintf("bitlen_mod8_%d", bl%8))
		emitTable(g, t, "class_bitlen")
		if bl%16 < 8 {
			g.Emit("go.obtained", h.TableString(t))
		}
	}
	// deep chains around the depth limit
	for _, d := range []int{1022, 1023, 1024, 1025, 1026, 1100} {
		ch := h.ChainTable(d, h.Row{BitLen: 3, Data: []byte{0xa0}})
		emitTable(g, ch, "class_chain")
		for k := 0; k < 3; k++ {
			g.Emit("go.cached", h.TableString(ch), strconv.Itoa(g.Rng.Intn(1<<30)))
		}
		// two chains sharing their lower part under one root: shared sub-trees at the depth limit
		sh := append([]h.Row{{BitLen: 1, Data: []byte{0x80}, Refs: []int{1, 3}}}, shift(ch, 1)...)
		emitTable(g, sh, "class_chain_shared")
		g.Emit("go.cached", h.TableString(sh), strconv.Itoa(g.Rng.Intn(1<<30)))
	}
	// cells obtained from the library's proof builder: cursors pruning at depths 1..4 (and deeper) in random positions
	for i := 0; i < g.Scale(400, 8000); i++ {
		var t []h.Row
		for {
			t = g.RandOrdinaryTable(h.DagOpts{MaxCells: g.Pick(3, 6, 12, 24), MaxBits: 300})
			if unfoldedSize(t) <= 600 {
				break
			}
		}
		var paths [][]int
		maxd := 0
		for k := g.Pick(1, 1, 2, 3); k > 0; k-- {
			want := 1 + g.Rng.Intn(4)
			var p []int
			r := 0
			for len(p) < want && len(t[r].Refs) > 0 {
				j := g.Rng.Intn(len(t[r].Refs))
				p = append(p, j)
				r = t[r].Refs[j]
			}
			if len(p) == 0 {
				continue
			}
			if len(p) > maxd {
				maxd = len(p)
			}
			paths = append(paths, p)
		}
		g.Count(fmt.Sprintf("built_prune_depth_%d", maxd))
		ps := "-"
		if len(paths) > 0 {
			ss := make([]string, len(paths))
			for k, p := range paths {
				xs := make([]string, len(p))
				for j, x := range p {
					xs[j] = strconv.Itoa(x)
				}
				ss[k] = strings.Join(xs, ".")
			}
			ps = strings.Join(ss, "/")
		}
		g.Emit("go.built", h.TableString(t), ps)
	}
	for i := 0; i < g.Scale(60, 1500); i++ {
		g.Count("built_by_ProveKeyInHashmap")
		g.Emit("go.builtdict", strconv.Itoa(g.Rng.Intn(1<<30)), strconv.Itoa(g.Pick(1, 2, 3, 5, 9, 17, 40)))
	}
	// pruned branch with a stored depth near the limit under a chain / directly under a merkle proof
	for _, sd := range []int{0, 1, 1000, 1022, 1023, 1024, 1025, 65535} {
		for _, up := range []int{0, 1, 2, 1023 - minI(sd, 1023), 1024 - minI(sd, 1024), 1025 - minI(sd, 1025)} {
			if up < 0 {
				continue
			}
			data := append([]byte{1, 1}, g.Bytes(32)...)
			data = append(data, byte(sd>>8), byte(sd))
			pr := h.Row{Ty: 1, Mask: 1, BitLen: len(data) * 8, Data: data}
			ch := h.ChainTable(up, pr)
			emitTable(g, ch, "class_chain_pruned")
			// merkle proof on top (mask 0): asks the chain at level 1, where the pruned branch has depth 0
			sh := h.NewSpecHasher(ch)
			d0 := sh.Depth(0, 0)
			mp := append([]byte{3}, sh.Hash(0, 0)...)
			mp = append(mp, byte(d0>>8), byte(d0))
			t := append([]h.Row{{Ty: 3, Mask: 0, BitLen: len(mp) * 8, Data: mp, Refs: []int{1}}}, shift(ch, 1)...)
			emitTable(g, t, "class_chain_pruned_merkle")
		}
	}
	// malformed stream: any type byte 0..7, any 3-bit mask, any data length, masks unrelated to the children —
	// outside WFExotic; hashing must still not panic (no_panic_any) and model = code exactly
	for i := 0; i < g.Scale(600, 60000); i++ {
		t := g.RandOrdinaryTable(h.DagOpts{MaxCells: g.Pick(1, 2, 4, 8)})
		for j := range t {
			if g.Rng.Intn(2) == 0 {
				t[j].Ty = g.Rng.Intn(8)
				t[j].Mask = g.Rng.Intn(8)
				if g.Rng.Intn(2) == 0 {
					bl := g.Pick(0, 8, 16, 24, 16+272, 16+272-8, 16+544, 16+816, 16+816-1, 264, 280, 552, 1023)
					t[j].BitLen, t[j].Data = bl, g.RandData(bl)
					if bl >= 16 && g.Rng.Intn(2) == 0 {
						t[j].Data[0], t[j].Data[1] = byte(t[j].Ty), byte(t[j].Mask)
					}
				}
			}
		}
		ts := h.TableString(t)
		g.Count("class_malformed")
		g.Emit("cell.levels", ts)
		g.Emit("cell.all", ts)
		g.Emit("go.nopanic", ts)
	}
	// hash -> write -> hash on one cell built in memory; accessors of exotic cells
	for i := 0; i < g.Scale(300, 6000); i++ {
		var steps []string
		bitsLeft, refs := 1023, 0
		for k := 0; k < 2+i%5; k++ {
			switch {
			case k%3 == 2 && refs < 4:
				ct := g.RandOrdinaryTable(h.DagOpts{MaxCells: g.Pick(1, 2, 4), MaxBits: 100})
				steps = append(steps, "a"+h.TableString(ct))
				refs++
			default:
				n := g.Pick(0, 1, 7, 8, 9, 31, 64, 200)
				if n > bitsLeft {
					n = bitsLeft
				}
				bitsLeft -= n
				b := make([]byte, n)
				for j := range b {
					b[j] = '0' + byte(g.Rng.Intn(2))
				}
				steps = append(steps, "w"+string(b))
			}
			steps = append(steps, "h")
			if k%2 == 1 {
				steps = append(steps, "h") // twice in a row as well
			}
		}
		g.Count("rehash_sequences")
		g.NonTrivial("rehash:" + strings.Join(steps, "/"))
		g.Emit("cell.rehash", strings.Join(steps, "/"))
		g.Emit("go.rehash", strings.Join(steps, "/"))
	}
	for i := 0; i < g.Scale(300, 6000); i++ {
		var t []h.Row
		if i%3 == 0 {
			t, _, _ = g.MerkleUpdateTable()
		} else {
			t = g.RandExoticTable(g.Pick(2, 4, 8, 16))
		}
		g.Count("accessors_tables")
		g.Emit("go.accessors", h.TableString(t))
	}
	// NewCellWithBits(ReadBits n)
	nrb := g.Scale(600, 30000)
	for i := 0; i < nrb; i++ {
		bl := g.RandBitLen(0)
		skip := 0
		if bl > 0 {
			skip = g.Pick(0, 0, 8*g.Rng.Intn(bl/8+1), g.Rng.Intn(bl+1))
		}
		if skip > bl {
			skip = bl
		}
		nn := 0
		if bl-skip > 0 {
			nn = g.Rng.Intn(bl - skip + 1)
		}
		g.Count(fmt.Sprintf("readbits_skipmod8_%d_nmod8_%d", minI(skip%8, 1), minI(nn%8, 1)))
		g.Emit("go.readbits", h.Hex(g.RandData(bl)), strconv.Itoa(bl), strconv.Itoa(skip), strconv.Itoa(nn))
	}
	genTestdata(g)
}

func minI(a, b int) int {
	if a < b {
		return a
	}
	return b
}

func shift(t []h.Row, by int) []h.Row {
	out := make([]h.Row, len(t))
	for i, r := range t {
		refs := make([]int, len(r.Refs))
		for j, c := range r.Refs {
			refs[j] = c + by
		}
		r.Refs = refs
		out[i] = r
	}
	return out
}
