//go:build c17

package main

import (
	"encoding/binary"
	"fmt"
	"math/bits"
	"strconv"

	"github.com/tonkeeper/tongo/tlb"
	"github.com/tonkeeper/tongo/ton"
	"verifharness/h"
)

func init() {
	m := withPrim(map[string]h.ExecFn{
		"shard.parents":       exShardParents,
		"shard.reencode":      exShardReencode,
		"shard.match_account": exShardMatchAccount,
		"shard.match_block":   exShardMatchBlock,
		"go.shard.algebra":    goShardAlgebra,
		"go.shard.prefix":     goShardPrefix,
	})
	for k, v := range addrExec {
		m[k] = v
	}
	h.Register(&h.Prop{ID: "C17", Gen: func(g *h.G) { genC17(g); genC17Addr(g) }, Exec: m})
}

func u64(s string) uint64 {
	v, err := strconv.ParseUint(s, 10, 64)
	if err != nil {
		panic("bad u64 arg " + s)
	}
	return v
}

// shardsViaGetParents observes shardParent / shardChild / convertShardIdent through the public ton.GetParents.
func shardsViaGetParents(pfxBits uint64, prefix uint64, split, merge bool) ([]uint64, error) {
	var info tlb.BlockInfo
	info.Shard = tlb.ShardIdent{ShardPfxBits: tlb.Uint6(pfxBits), WorkchainID: 0, ShardPrefix: prefix}
	info.AfterSplit = split
	info.AfterMerge = merge
	if merge {
		info.PrevRef.SumType = "PrevBlksInfo"
		info.PrevRef.PrevBlksInfo = &struct {
			Prev1 tlb.ExtBlkRef
			Prev2 tlb.ExtBlkRef
		}{}
	} else {
		info.PrevRef.SumType = "PrevBlkInfo"
		info.PrevRef.PrevBlkInfo = &struct{ Prev tlb.ExtBlkRef }{}
	}
	ps, err := ton.GetParents(info)
	if err != nil {
		return nil, err
	}
	var r []uint64
	for _, p := range ps {
		r = append(r, p.Shard)
	}
	return r, nil
}

func exShardParents(a []string) string {
	r, err := shardsViaGetParents(u64(a[0]), u64(a[1]), a[2] == "1", a[3] == "1")
	if err != nil {
		return "err"
	}
	s := "ok"
	for _, x := range r {
		s += " " + strconv.FormatUint(x, 10)
	}
	return s
}

func exShardReencode(a []string) string {
	s, err := ton.ParseShardID(int64(u64(a[0])))
	if err != nil {
		return "err"
	}
	return "ok " + strconv.FormatUint(uint64(s.Encode()), 10)
}

func acct(prefix uint64) ton.AccountID {
	var id ton.AccountID
	binary.BigEndian.PutUint64(id.Address[:8], prefix)
	for i := 8; i < 32; i++ {
		id.Address[i] = byte(prefix >> uint(i%8)) // bytes beyond the first 8 must not matter
	}
	return id
}

func exShardMatchAccount(a []string) string {
	s, err := ton.ParseShardID(int64(u64(a[0])))
	if err != nil {
		return "err"
	}
	if s.MatchAccountID(acct(u64(a[1]))) {
		return "ok 1"
	}
	return "ok 0"
}

func exShardMatchBlock(a []string) string {
	s, err := ton.ParseShardID(int64(u64(a[0])))
	if err != nil {
		return "err"
	}
	if s.MatchBlockID(ton.BlockID{Shard: u64(a[1])}) {
		return "ok 1"
	}
	return "ok 0"
}

// goShardAlgebra: direct oracle on the implementation alone. For shard (pfxBits, prefix) with the prefix confined to
// its top pfxBits bits: Encode∘Parse = id, parent(child(s)) = s for both children (pfxBits < 60), the children are
// the two halves, child(parent(s), side) = s.
func goShardAlgebra(a []string) string {
	pb, prefix := u64(a[0]), u64(a[1])
	cur, err := shardsViaGetParents(pb, prefix, false, false)
	if err != nil || len(cur) != 1 {
		return "FAIL getparents-plain"
	}
	s := cur[0]
	want := prefix | 1<<(63-pb)
	if s != want {
		return fmt.Sprintf("FAIL convert got=%d want=%d", s, want)
	}
	sid, err := ton.ParseShardID(int64(s))
	if err != nil {
		return "FAIL parse-rejects-valid"
	}
	if uint64(sid.Encode()) != s {
		return fmt.Sprintf("FAIL reencode got=%d want=%d", uint64(sid.Encode()), s)
	}
	if pb < 63 {
		ch, err := shardsViaGetParents(pb, prefix, false, true)
		if err != nil || len(ch) != 2 {
			return "FAIL getparents-merge"
		}
		wl := prefix | 1<<(62-pb)
		wr := prefix | 1<<(63-pb) | 1<<(62-pb)
		if ch[0] != wl || ch[1] != wr {
			return fmt.Sprintf("FAIL child got=%d,%d want=%d,%d", ch[0], ch[1], wl, wr)
		}
		// parent of each child is s: express the child as (pb+1, prefix') and ask for its split parent
		for i, c := range ch {
			cp := c &^ (1 << (62 - pb))
			par, err := shardsViaGetParents(pb+1, cp, true, false)
			if err != nil || len(par) != 1 || par[0] != s {
				return fmt.Sprintf("FAIL parent-of-child side=%d", i)
			}
		}
	}
	if pb > 0 {
		par, err := shardsViaGetParents(pb, prefix, true, false)
		if err != nil || len(par) != 1 {
			return "FAIL getparents-split"
		}
		wp := (prefix &^ (1 << (64 - pb))) | 1<<(64-pb)
		if par[0] != wp {
			return fmt.Sprintf("FAIL parent got=%d want=%d", par[0], wp)
		}
	}
	return "ok"
}

// goShardPrefix: MatchAccountID holds exactly when the shard's prefix bits are a binary prefix of the address, and
// MatchBlockID exactly when one shard contains the other.
func goShardPrefix(a []string) string {
	s, ap, other := u64(a[0]), u64(a[1]), u64(a[2])
	sid, err := ton.ParseShardID(int64(s))
	if s == 0 {
		if err == nil {
			return "FAIL zero-accepted"
		}
		return "ok"
	}
	if err != nil {
		return "FAIL parse-rejects-valid"
	}
	plen := func(x uint64) int { return 63 - bits.TrailingZeros64(x) }
	top := func(x uint64, n int) uint64 {
		if n == 0 {
			return 0
		}
		return x >> (64 - uint(n))
	}
	n := plen(s)
	want := top(ap, n) == top(s, n)
	if got := sid.MatchAccountID(acct(ap)); got != want {
		return fmt.Sprintf("FAIL match-account got=%v want=%v", got, want)
	}
	if other != 0 {
		m := plen(other)
		k := n
		if m < k {
			k = m
		}
		wantB := top(s, k) == top(other, k)
		if got := sid.MatchBlockID(ton.BlockID{Shard: other}); got != wantB {
			return fmt.Sprintf("FAIL match-block got=%v want=%v", got, wantB)
		}
	} else if sid.MatchBlockID(ton.BlockID{Shard: 0}) {
		return "FAIL match-block-zero"
	}
	return "ok"
}

func genC17(g *h.G) {
	genPrim(g, "prim.crc16")
	n := g.Scale(3000, 60000)
	rndShard := func() (uint64, uint64) {
		pb := uint64(g.Rng.Intn(61))
		if g.Rng.Intn(10) == 0 {
			pb = uint64(g.Pick(0, 1, 59, 60, 61, 62, 63))
		}
		var prefix uint64
		if pb > 0 {
			prefix = g.U64() &^ (^uint64(0) >> pb)
		}
		return pb, prefix
	}
	for i := 0; i < n; i++ {
		pb, prefix := rndShard()
		s := prefix | 1<<(63-pb)
		g.Count(fmt.Sprintf("pfx_bits_%02d", pb/8*8))
		g.NonTrivial(fmt.Sprintf("%d/%d", pb, prefix))
		split, merge := g.Rng.Intn(2), g.Rng.Intn(2)
		// also dirty prefixes (bits below the declared prefix length) for the exact correspondence
		dp := prefix
		if g.Rng.Intn(4) == 0 {
			dp = g.U64()
		}
		g.Emit("shard.parents", fmt.Sprint(pb), fmt.Sprint(dp), fmt.Sprint(split), fmt.Sprint(merge))
		g.Emit("go.shard.algebra", fmt.Sprint(pb), fmt.Sprint(prefix))
		m := s
		if g.Rng.Intn(8) == 0 {
			m = g.U64()
		}
		g.Emit("shard.reencode", fmt.Sprint(m))
		ap := g.U64()
		if g.Rng.Intn(2) == 0 && pb > 0 { // an address inside the shard, possibly differing in the last prefix bit
			ap = prefix | (g.Rng.Uint64() >> pb)
			if g.Rng.Intn(3) == 0 {
				ap ^= 1 << (64 - pb)
			}
		}
		g.Emit("shard.match_account", fmt.Sprint(m), fmt.Sprint(ap))
		pb2, prefix2 := rndShard()
		o := prefix2 | 1<<(63-pb2)
		if g.Rng.Intn(2) == 0 { // related shards: ancestor / descendant of s
			if pb2 <= pb {
				o = (s &^ (^uint64(0) >> pb2)) &^ (1 << (63 - pb2)) | 1<<(63-pb2)
				if pb2 == 0 {
					o = 1 << 63
				}
			}
		}
		if g.Rng.Intn(20) == 0 {
			o = 0
		}
		g.Emit("shard.match_block", fmt.Sprint(m), fmt.Sprint(o))
		g.Emit("go.shard.prefix", fmt.Sprint(s), fmt.Sprint(ap), fmt.Sprint(o))
	}
}
