//go:build c08

package main

import "verifharness/h"

type tlbStat struct{ Valid, Inputs int }

var tlbExec = map[string]h.ExecFn{}

func (gc *genCtx) genTLB() {}
