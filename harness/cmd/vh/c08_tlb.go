//go:build c08

package main

// C08, TL-B side: every exported TL-B target type (registry + generic instantiations reached through fields) x cell
// trees from four streams — random trees, mutated valid encodings, exhaustive single-position damage of one valid
// encoding, fork-bomb DAGs — decoded by the real decoders under recover() with allocation and time measured.
// These are direct oracles ("go." ops): outcome ok|err, never a panic / fatal error, TotalAlloc and time in proportion
// to the unfolded tree.

import (
	"fmt"
	"go/ast"
	"go/parser"
	"go/token"
	"math/big"
	"math/rand"
	"os"
	"path/filepath"
	"reflect"
	"regexp"
	"sort"
	"strconv"
	"strings"
	"time"
	"unsafe"

	"github.com/tonkeeper/tongo/abi"
	"github.com/tonkeeper/tongo/boc"
	"github.com/tonkeeper/tongo/tlb"
	"verifharness/h"
)

type tlbStat struct{ Valid, Inputs int }

// ---------------------------------------------------------------------------------------- targets

var unmarshalerTLB = reflect.TypeOf((*tlb.UnmarshalerTLB)(nil)).Elem()

var selfRecursive []regType

var tlbTargets, tlbByName = func() ([]regType, map[string]reflect.Type) {
	seen := map[reflect.Type]bool{}
	var out []regType
	var walk func(t reflect.Type, depth int)
	walk = func(t reflect.Type, depth int) {
		if depth > 12 {
			return
		}
		switch t.Kind() {
		case reflect.Pointer, reflect.Slice, reflect.Array:
			walk(t.Elem(), depth+1)
		case reflect.Struct:
			if seen[t] {
				return
			}
			seen[t] = true
			if strings.Contains(t.Name(), "[") && strings.HasSuffix(t.PkgPath(), "tongo/tlb") {
				if strings.HasPrefix(t.Name(), "HashMapAugExtraList[") {
					// self-recursive through plain pointers: tlb.Unmarshal overflows the stack on ANY input (known
					// finding, one corpus line); it is a helper of HashmapAug, not a TL-B type
					selfRecursive = append(selfRecursive, regType{"tlb." + t.Name(), t})
				} else {
					out = append(out, regType{"tlb." + t.Name(), t}) // a generic instantiation used by a shipped type
				}
			}
			for i := 0; i < t.NumField(); i++ {
				walk(t.Field(i).Type, depth+1)
			}
		}
	}
	for _, r := range tlbRegistry {
		k := r.T.Kind()
		if k == reflect.Interface || k == reflect.Func || k == reflect.Map || k == reflect.Chan {
			continue
		}
		if r.T == reflect.TypeOf(tlb.Decoder{}) || r.T == reflect.TypeOf(tlb.Encoder{}) {
			continue
		}
		out = append(out, r)
	}
	for _, r := range tlbRegistry {
		walk(r.T, 0)
	}
	// generic decoders no shipped type instantiates
	out = append(out, regType{"tlb.Either[tlb.Grams,tlb.Ref[tlb.MsgAddress]]", reflect.TypeOf(tlb.Either[tlb.Grams, tlb.Ref[tlb.MsgAddress]]{})})
	m := map[string]reflect.Type{}
	var dedup []regType
	for i := range out {
		out[i].Name = strings.ReplaceAll(out[i].Name, " ", "") // `struct {}` in instantiation names: no spaces in op lines
	}
	for i := range selfRecursive {
		selfRecursive[i].Name = strings.ReplaceAll(selfRecursive[i].Name, " ", "")
	}
	for _, r := range out {
		if _, ok := m[r.Name]; ok {
			continue
		}
		m[r.Name] = r.T
		dedup = append(dedup, r)
	}
	for _, r := range selfRecursive {
		m[r.Name] = r.T
	}
	return dedup, m
}()

// checkTLBRegistry: the generated registry must list exactly the exported non-generic type declarations of the packages
func checkTLBRegistry() {
	have := map[string]bool{}
	for _, r := range tlbRegistry {
		have[r.Name] = true
	}
	for _, pkg := range []string{"tlb", "abi", "wallet"} {
		fset := token.NewFileSet()
		pkgs, err := parser.ParseDir(fset, filepath.Join(repoDir(), pkg), func(fi os.FileInfo) bool {
			return !strings.HasSuffix(fi.Name(), "_test.go")
		}, 0)
		if err != nil {
			panic(fmt.Sprintf("c08: cannot parse package %s: %v", pkg, err))
		}
		for pn, p := range pkgs {
			if pn == "main" {
				continue
			}
			for _, f := range p.Files {
				for _, d := range f.Decls {
					gd, ok := d.(*ast.GenDecl)
					if !ok || gd.Tok != token.TYPE {
						continue
					}
					for _, sp := range gd.Specs {
						ts := sp.(*ast.TypeSpec)
						if !ts.Name.IsExported() || ts.TypeParams != nil || ts.Assign != 0 {
							continue
						}
						n := pkg + "." + ts.Name.Name
						if !have[n] {
							panic("c08: type " + n + " is declared in the source but missing from the registry; run tools_gen_c08_registry.py")
						}
						delete(have, n)
					}
				}
			}
		}
	}
	for n := range have {
		panic("c08: registry lists " + n + " which is no longer declared; run tools_gen_c08_registry.py")
	}
}

// ---------------------------------------------------------------------------------------- random TL-B values

var bigIntType = reflect.TypeOf(big.Int{})
var cellType = reflect.TypeOf(boc.Cell{})
var bitStringType = reflect.TypeOf(boc.BitString{})
var intNameRe = regexp.MustCompile(`^(Uint|Int|VarUInteger)(\d+)$`)

type valGen struct{ rng *rand.Rand }

func (vg *valGen) smallCell(depth int) *boc.Cell {
	c := boc.NewCell()
	n := vg.rng.Intn(40)
	for i := 0; i < n; i++ {
		_ = c.WriteBit(vg.rng.Intn(2) == 0)
	}
	if depth < 2 && vg.rng.Intn(3) == 0 {
		_ = c.AddRef(vg.smallCell(depth + 1))
	}
	return c
}

func (vg *valGen) bitString(maxBits int) boc.BitString {
	n := vg.rng.Intn(maxBits + 1)
	if vg.rng.Intn(2) == 0 {
		n = n / 8 * 8
	}
	bs := boc.NewBitString(n)
	for i := 0; i < n; i++ {
		_ = bs.WriteBit(vg.rng.Intn(2) == 0)
	}
	return bs
}

func settable(v reflect.Value) reflect.Value {
	if v.CanSet() {
		return v
	}
	return reflect.NewAt(v.Type(), unsafe.Pointer(v.UnsafeAddr())).Elem()
}

func (vg *valGen) intBits(t reflect.Type) (bits int, ok bool) {
	if !strings.HasSuffix(t.PkgPath(), "tongo/tlb") {
		return 0, false
	}
	m := intNameRe.FindStringSubmatch(t.Name())
	if m == nil {
		return 0, false
	}
	n, _ := strconv.Atoi(m[2])
	if m[1] == "VarUInteger" {
		return 8 * (n - 1), true
	}
	return n, true
}

func (vg *valGen) randBig(bits int, signed bool) *big.Int {
	if bits <= 0 {
		return big.NewInt(0)
	}
	if vg.rng.Intn(3) == 0 {
		bits = 1 + vg.rng.Intn(bits)
	}
	if signed {
		bits--
	}
	x := new(big.Int).Rand(vg.rng, new(big.Int).Lsh(big.NewInt(1), uint(bits)))
	if signed && vg.rng.Intn(2) == 0 {
		x.Neg(x)
	}
	return x
}

// fill sets v (addressable) to a random value that has a good chance of being encodable
func (vg *valGen) fill(v reflect.Value, depth int) {
	v = settable(v)
	t := v.Type()
	if depth > 7 {
		return
	}
	if t == cellType {
		v.Set(reflect.ValueOf(*vg.smallCell(0)))
		return
	}
	if t.Kind() == reflect.Struct && t.ConvertibleTo(cellType) { // tlb.Any
		v.Set(reflect.ValueOf(*vg.smallCell(0)).Convert(t))
		return
	}
	if t.Kind() == reflect.Struct && t.ConvertibleTo(bitStringType) { // boc.BitString, SnakeData, ChunkedData
		max := 300
		if vg.rng.Intn(4) == 0 {
			max = 3000
		}
		v.Set(reflect.ValueOf(vg.bitString(max)).Convert(t))
		return
	}
	if t.Kind() == reflect.Struct && t.ConvertibleTo(bigIntType) { // Int257, Uint256, VarUIntegerN, Grams...
		bits, ok := vg.intBits(t)
		if !ok {
			bits = 64
		}
		signed := strings.HasPrefix(t.Name(), "Int")
		v.Set(reflect.ValueOf(*vg.randBig(bits, signed)).Convert(t))
		return
	}
	switch t.Kind() {
	case reflect.Bool:
		v.SetBool(vg.rng.Intn(2) == 0)
	case reflect.Uint8, reflect.Uint16, reflect.Uint32, reflect.Uint64, reflect.Uint:
		x := vg.rng.Uint64()
		if vg.rng.Intn(3) == 0 {
			x = uint64(vg.rng.Intn(4))
		}
		if bits, ok := vg.intBits(t); ok && bits < 64 {
			x &= 1<<uint(bits) - 1
		}
		v.SetUint(x & (1<<uint(t.Bits()) - 1))
	case reflect.Int8, reflect.Int16, reflect.Int32, reflect.Int64, reflect.Int:
		x := int64(vg.rng.Uint64())
		if bits, ok := vg.intBits(t); ok && bits < 64 {
			x >>= uint(64 - bits)
		} else {
			x >>= uint(64 - t.Bits())
		}
		v.SetInt(x)
	case reflect.String:
		if t.Name() == "SumType" {
			return
		}
		b := make([]byte, vg.rng.Intn(20))
		for i := range b {
			b[i] = byte('a' + vg.rng.Intn(26))
		}
		v.SetString(string(b))
	case reflect.Array:
		for i := 0; i < v.Len(); i++ {
			vg.fill(v.Index(i), depth+1)
		}
	case reflect.Slice:
		n := vg.rng.Intn(4)
		if t.Elem().Kind() == reflect.Uint8 {
			n = vg.rng.Intn(40)
		}
		s := reflect.MakeSlice(t, n, n)
		for i := 0; i < n; i++ {
			vg.fill(s.Index(i), depth+1)
		}
		v.Set(s)
	case reflect.Pointer:
		if vg.rng.Intn(4) == 0 {
			return
		}
		p := reflect.New(t.Elem())
		vg.fill(p.Elem(), depth+1)
		v.Set(p)
	case reflect.Struct:
		if strings.HasPrefix(t.Name(), "Hashmap[") || strings.HasPrefix(t.Name(), "HashmapAug[") {
			vg.fillHashmap(v, depth)
			return
		}
		if sf, ok := t.FieldByName("SumType"); ok && sf.Type.Kind() == reflect.String {
			var idx []int
			for i := 0; i < t.NumField(); i++ {
				if t.Field(i).Tag.Get("tlbSumType") != "" {
					idx = append(idx, i)
				}
			}
			if len(idx) == 0 {
				break
			}
			i := idx[vg.rng.Intn(len(idx))]
			settable(v.FieldByName("SumType")).SetString(t.Field(i).Name)
			vg.fill(v.Field(i), depth+1)
			return
		}
		for i := 0; i < t.NumField(); i++ {
			vg.fill(v.Field(i), depth+1)
		}
	}
}

// fillHashmap: keys []K and values []V with 0..3 distinct keys in the order of their encoded bits
func (vg *valGen) fillHashmap(v reflect.Value, depth int) {
	kf, vf := v.FieldByName("keys"), v.FieldByName("values")
	if !kf.IsValid() || !vf.IsValid() {
		return
	}
	n := vg.rng.Intn(4)
	type kv struct {
		bits string
		k, v reflect.Value
	}
	var items []kv
	seen := map[string]bool{}
	for i := 0; i < n; i++ {
		k := reflect.New(kf.Type().Elem()).Elem()
		vg.fill(k, depth+1)
		c := boc.NewCell()
		if err := safeMarshalTLB(c, k.Interface()); err != nil {
			continue
		}
		bs := c.RawBitString()
		b := bs.BinaryString()
		if seen[b] {
			continue
		}
		seen[b] = true
		val := reflect.New(vf.Type().Elem()).Elem()
		vg.fill(val, depth+1)
		items = append(items, kv{b, k, val})
	}
	sort.Slice(items, func(i, j int) bool { return items[i].bits < items[j].bits })
	ks := reflect.MakeSlice(kf.Type(), 0, len(items))
	vs := reflect.MakeSlice(vf.Type(), 0, len(items))
	for _, it := range items {
		ks = reflect.Append(ks, it.k)
		vs = reflect.Append(vs, it.v)
	}
	settable(kf).Set(ks)
	settable(vf).Set(vs)
}

func safeMarshalTLB(c *boc.Cell, o any) (err error) {
	defer func() {
		if r := recover(); r != nil {
			err = fmt.Errorf("marshal panicked: %v", r)
		}
	}()
	return tlb.Marshal(c, o)
}

// validSeed: a table holding the encoding of a random value of type t (nil if none was found in `tries` attempts)
func (vg *valGen) validSeed(t reflect.Type, tries int) []h.Row {
	for i := 0; i < tries; i++ {
		v := reflect.New(t)
		vg.fill(v.Elem(), 0)
		c := boc.NewCell()
		if err := safeMarshalTLB(c, v.Elem().Interface()); err != nil {
			continue
		}
		limit := 400
		rows := cellToRows(c, &limit)
		if rows == nil {
			continue
		}
		return rows
	}
	return nil
}

// cellToRows unfolds a cell into a table (row 0 = c, every occurrence its own row, parents before children)
func cellToRows(c *boc.Cell, limit *int) []h.Row {
	var rows []h.Row
	var visit func(c *boc.Cell) int
	visit = func(c *boc.Cell) int {
		if *limit <= 0 {
			return -1
		}
		*limit--
		id := len(rows)
		rows = append(rows, h.RowOf(c))
		for _, ch := range c.Refs() {
			cid := visit(ch)
			if cid < 0 {
				return -1
			}
			rows[id].Refs = append(rows[id].Refs, cid)
		}
		return id
	}
	if visit(c) < 0 {
		return nil
	}
	return rows
}

// ---------------------------------------------------------------------------------------- damage

func cloneRows(t []h.Row) []h.Row {
	out := make([]h.Row, len(t))
	for i, r := range t {
		out[i] = r
		out[i].Data = append([]byte{}, r.Data...)
		out[i].Refs = append([]int{}, r.Refs...)
	}
	return out
}

func prunedRow(rng *rand.Rand) h.Row {
	d := make([]byte, 36)
	rng.Read(d)
	d[0], d[1] = 1, 1
	return h.Row{Ty: 1, Mask: 1, BitLen: 288, Data: d}
}

// prunedRowMask: a well-formed pruned branch with the given level mask: type, mask, then one hash per level, then
// one depth per level
func prunedRowMask(rng *rand.Rand, mask int) h.Row {
	n := 0
	for m := mask; m != 0; m >>= 1 {
		n += m & 1
	}
	d := make([]byte, 2+n*34)
	rng.Read(d)
	d[0], d[1] = 1, byte(mask)
	for i := 0; i < n; i++ { // depths stay small
		d[2+32*n+2*i] = 0
	}
	return h.Row{Ty: 1, Mask: mask, BitLen: 8 * len(d), Data: d}
}

func libraryRow(rng *rand.Rand) h.Row {
	d := make([]byte, 33)
	rng.Read(d)
	d[0] = 2
	return h.Row{Ty: 2, BitLen: 264, Data: d}
}

func setBitLen(r *h.Row, n int) {
	r.BitLen = n
	nb := (n + 7) / 8
	for len(r.Data) < nb {
		r.Data = append(r.Data, 0)
	}
	r.Data = r.Data[:nb]
	if n%8 != 0 {
		r.Data[nb-1] &= byte(0xff << uint(8-n%8))
	}
}

// damage applies one mutation of the given kind at position pos (interpreted modulo what is available)
func damage(t []h.Row, kind, row, pos int, rng *rand.Rand) []h.Row {
	m := cloneRows(t)
	r := &m[row%len(m)]
	if r.Ty != 0 && (kind == 0 || kind == 1 || kind == 7) {
		// an exotic cell stays well formed (the bag-of-cells parser rejects the others, property C07): its length is
		// kept and only bits after the type and mask bytes are flipped
		if r.BitLen > 16 {
			p := 16 + pos%(r.BitLen-16)
			r.Data[p/8] ^= 1 << uint(7-p%8)
		}
		return m
	}
	switch kind {
	case 0: // flip one bit
		if r.BitLen > 0 {
			p := pos % r.BitLen
			r.Data[p/8] ^= 1 << uint(7-p%8)
		}
	case 1: // truncate at bit pos
		if r.BitLen > 0 {
			setBitLen(r, pos%r.BitLen)
		}
	case 2: // remove a ref
		if len(r.Refs) > 0 {
			p := pos % len(r.Refs)
			r.Refs = append(r.Refs[:p], r.Refs[p+1:]...)
		}
	case 3: // duplicate a ref
		if len(r.Refs) > 0 && len(r.Refs) < 4 {
			r.Refs = append(r.Refs, r.Refs[pos%len(r.Refs)])
		}
	case 4: // exotic type substitution: a WELL-FORMED exotic cell of type 1 + pos%4 in place of the cell
		refs := r.Refs
		switch 1 + pos%4 {
		case 1:
			mask := 1 + rng.Intn(7)
			*r = prunedRowMask(rng, mask)
		case 2:
			*r = libraryRow(rng)
		case 3:
			if len(refs) == 0 {
				*r = prunedRowMask(rng, 1)
				break
			}
			d := make([]byte, 35)
			rng.Read(d)
			d[0] = 3
			*r = h.Row{Ty: 3, BitLen: 280, Data: d, Refs: refs[:1]}
		case 4:
			if len(refs) == 0 {
				*r = prunedRowMask(rng, 1)
				break
			}
			d := make([]byte, 69)
			rng.Read(d)
			d[0] = 4
			*r = h.Row{Ty: 4, BitLen: 552, Data: d, Refs: []int{refs[0], refs[len(refs)-1]}}
		}
	case 9: // MALFORMED exotic cell as the bag-of-cells parser accepts it: type byte = first data byte, any length
		if r.BitLen < 8 {
			setBitLen(r, 8)
		}
		r.Ty = 1 + pos%4
		r.Data[0] = byte(r.Ty)
		r.Mask = rng.Intn(8)
	case 5: // a pruned branch spliced at a ref position
		if len(r.Refs) > 0 {
			m = append(m, prunedRow(rng))
			m[row%len(t)].Refs[pos%len(r.Refs)] = len(m) - 1
		}
	case 6: // a library cell spliced at a ref position
		if len(r.Refs) > 0 {
			m = append(m, libraryRow(rng))
			m[row%len(t)].Refs[pos%len(r.Refs)] = len(m) - 1
		}
	case 7: // extend with random bits
		n := r.BitLen + 1 + rng.Intn(64)
		if n > 1023 {
			n = 1023
		}
		old := r.BitLen
		setBitLen(r, n)
		for p := old; p < n; p++ {
			if rng.Intn(2) == 0 {
				r.Data[p/8] |= 1 << uint(7-p%8)
			}
		}
	case 8: // the whole root replaced by a pruned branch / library cell
		if pos%2 == 0 {
			m[0] = prunedRow(rng)
		} else {
			m[0] = libraryRow(rng)
		}
	}
	return m
}

const nDamageKinds = 9 // kind 9 (malformed exotic) is used by the `exoticbad` stream only

func randTree(g *h.G) []h.Row {
	t := g.RandOrdinaryTable(h.DagOpts{MaxCells: g.Pick(1, 2, 4, 8, 20)})
	if g.Rng.Intn(3) == 0 {
		k := 1 + g.Rng.Intn(2)
		for i := 0; i < k; i++ {
			t = damage(t, 4+g.Rng.Intn(3), g.Rng.Intn(len(t)), g.Rng.Intn(8), g.Rng)
		}
	}
	return t
}

// bomb: `depth` levels, each level's cell references the next level's single cell `fan` times
func bombTable(rng *rand.Rand, seed []h.Row, fan, depth int) []h.Row {
	t := make([]h.Row, depth)
	for i := range t {
		if seed != nil {
			t[i] = cloneRows(seed[:1])[0]
			t[i].Refs = nil
		} else {
			n := rng.Intn(64)
			d := make([]byte, (n+7)/8)
			rng.Read(d)
			t[i] = h.Row{BitLen: n, Data: d}
			setBitLen(&t[i], n)
		}
		if i+1 < depth {
			for k := 0; k < fan; k++ {
				t[i].Refs = append(t[i].Refs, i+1)
			}
		}
	}
	return t
}

// unfolded: number of cells and in-memory size of the tree a table unfolds to (capped)
func unfolded(t []h.Row) (cells, size uint64) {
	n := len(t)
	cs, ss := make([]uint64, n), make([]uint64, n)
	for i := n - 1; i >= 0; i-- {
		cs[i], ss[i] = 1, uint64(16+len(t[i].Data)+8*len(t[i].Refs))
		for _, r := range t[i].Refs {
			cs[i] += cs[r]
			ss[i] += ss[r]
			if cs[i] > 1<<40 {
				cs[i] = 1 << 40
			}
			if ss[i] > 1<<50 {
				ss[i] = 1 << 50
			}
		}
	}
	if n == 0 {
		return 0, 0
	}
	return cs[0], ss[0]
}

// ---------------------------------------------------------------------------------------- running one input

var libCell = func() *boc.Cell {
	c := boc.NewCell()
	_ = c.WriteUint(0, 8)
	return c
}()

// decodeOne runs the real decoder variant `variant` on the table for type t
//
//	0: tlb.Unmarshal (Decoder{}), 1: tlb.NewDecoder(), 2: NewDecoder with a library resolver that finds a small cell,
//	3: resolver that reports an error
func decodeOne(t reflect.Type, variant int, tab []h.Row) string {
	return retrySlow(func() string { return decodeOneOnce(t, variant, tab) })
}

func decodeOneOnce(t reflect.Type, variant int, tab []h.Row) (res string) {
	cells := h.BuildCells(tab)
	_, size := unfolded(tab)
	ncells, _ := unfolded(tab)
	v := reflect.New(t)
	defer func() {
		if r := recover(); r != nil {
			res = fmt.Sprintf("FAIL panic %v", r)
		}
	}()
	a0 := totalAlloc()
	t0 := time.Now()
	var err error
	switch variant {
	case 0:
		err = tlb.Unmarshal(cells[0], v.Interface())
	case 1:
		err = tlb.NewDecoder().Unmarshal(cells[0], v.Interface())
	case 2:
		err = tlb.NewDecoder().WithLibraryResolver(func(hash tlb.Bits256) (*boc.Cell, error) {
			libCell.ResetCounters()
			return libCell, nil
		}).Unmarshal(cells[0], v.Interface())
	default:
		err = tlb.NewDecoder().WithLibraryResolver(func(hash tlb.Bits256) (*boc.Cell, error) {
			return nil, fmt.Errorf("library not found")
		}).Unmarshal(cells[0], v.Interface())
	}
	dt := time.Since(t0)
	d := totalAlloc() - a0
	if d > 64*size+1<<20 {
		return fmt.Sprintf("FAIL alloc %d bytes allocated for a tree of %d cells / %d bytes", d, ncells, size)
	}
	if dt > 200*time.Millisecond+time.Duration(ncells)*50*time.Microsecond {
		return fmt.Sprintf("FAIL slow %v for a tree of %d cells", dt, ncells)
	}
	if err != nil {
		return "err"
	}
	return "ok"
}

// go.tlb.one <type> <variant> <table>: one explicit input (replays, corpus)
func goTLBOne(a []string) string {
	t, ok := tlbByName[a[0]]
	if !ok {
		return "bad-op"
	}
	variant, _ := strconv.Atoi(a[1])
	r := decodeOne(t, variant, h.ParseTable(a[2]))
	if strings.HasPrefix(r, "FAIL") {
		return r
	}
	return "ok"
}

// go.tlb.fuzz <type> <stream> <seed> <n>: n inputs of the stream regenerated from the seed
func goTLBFuzz(a []string) string {
	t, ok := tlbByName[a[0]]
	if !ok {
		return "bad-op"
	}
	seed, _ := strconv.ParseInt(a[2], 10, 64)
	n, _ := strconv.Atoi(a[3])
	inputs := tlbStream(t, a[1], seed, n)
	for i, tab := range inputs {
		variant := i % 4
		if r := decodeOne(t, variant, tab); strings.HasPrefix(r, "FAIL") {
			return fmt.Sprintf("%s :: replay: go.tlb.one %s %d %s", r, a[0], variant, h.TableString(tab))
		}
	}
	return "ok"
}

// tlbStream regenerates the inputs of one batch line
func tlbStream(t reflect.Type, stream string, seed int64, n int) [][]h.Row {
	g := h.NewG(seed, "quick", nil)
	vg := &valGen{rng: g.Rng}
	var out [][]h.Row
	switch stream {
	case "rand":
		for i := 0; i < n; i++ {
			out = append(out, randTree(g))
		}
	case "mut":
		var s []h.Row
		for i := 0; i < n; i++ {
			if i%8 == 0 || s == nil {
				s = vg.validSeed(t, 6)
			}
			if s == nil {
				out = append(out, randTree(g))
				continue
			}
			if i%8 == 0 {
				out = append(out, s)
				continue
			}
			m := damage(s, g.Rng.Intn(nDamageKinds), g.Rng.Intn(len(s)), g.Rng.Intn(1024), g.Rng)
			if g.Rng.Intn(4) == 0 {
				m = damage(m, g.Rng.Intn(nDamageKinds), g.Rng.Intn(len(m)), g.Rng.Intn(1024), g.Rng)
			}
			out = append(out, m)
		}
	case "every":
		// one valid encoding: truncation and flip at every bit of every cell (first 3 cells), ref removal / pruned /
		// library splice / duplication at every ref position, every exotic type on every cell; n caps the count
		s := vg.validSeed(t, 12)
		if s == nil {
			return nil
		}
		var all [][]h.Row
		for row := 0; row < len(s) && row < 3; row++ {
			for p := 0; p < s[row].BitLen; p++ {
				all = append(all, damage(s, 1, row, p, g.Rng), damage(s, 0, row, p, g.Rng))
			}
		}
		for row := 0; row < len(s); row++ {
			for p := 0; p < len(s[row].Refs); p++ {
				for _, k := range []int{2, 3, 5, 6} {
					all = append(all, damage(s, k, row, p, g.Rng))
				}
			}
			for p := 0; p < 4; p++ {
				all = append(all, damage(s, 4, row, p, g.Rng))
			}
		}
		if len(all) > n {
			g.Rng.Shuffle(len(all), func(i, j int) { all[i], all[j] = all[j], all[i] })
			all = all[:n]
		}
		out = all
	case "exoticbad":
		// malformed exotic cells (accepted by boc.DeserializeBoc today): kept apart, see known_findings.txt
		var s []h.Row
		for i := 0; i < n; i++ {
			if i%6 == 0 || s == nil {
				s = vg.validSeed(t, 4)
				if s == nil {
					s = randTree(g)
				}
			}
			out = append(out, damage(s, 9, g.Rng.Intn(len(s)), g.Rng.Intn(8), g.Rng))
		}
	case "chain":
		// deep chains: every cell has one reference to the next; the cells repeat the root of a valid encoding (with
		// its data, so that decoders follow the reference) or carry random / full data
		for i := 0; i < n; i++ {
			depth := 100 + g.Rng.Intn(1400)
			var s []h.Row
			if g.Rng.Intn(3) != 0 {
				s = vg.validSeed(t, 4)
			}
			tab := bombTable(g.Rng, s, 1, depth)
			if s == nil && g.Rng.Intn(2) == 0 {
				for k := range tab {
					tab[k].BitLen, tab[k].Data = 1016, make([]byte, 127)
					g.Rng.Read(tab[k].Data)
				}
			}
			out = append(out, tab)
		}
	case "bomb":
		for i := 0; i < n; i++ {
			fan := 2 + g.Rng.Intn(3)
			depth := map[int]int{2: 16, 3: 10, 4: 8}[fan] - g.Rng.Intn(3)
			var s []h.Row
			if g.Rng.Intn(2) == 0 {
				s = vg.validSeed(t, 4)
			}
			out = append(out, bombTable(g.Rng, s, fan, depth))
		}
	}
	return out
}

// ---------------------------------------------------------------------------------------- abi message decoders

func goABIDec(a []string) string {
	return retrySlow(func() string { return goABIDecOnce(a) })
}

func goABIDecOnce(a []string) (res string) {
	tab := h.ParseTable(a[1])
	cells := h.BuildCells(tab)
	ncells, size := unfolded(tab)
	defer func() {
		if r := recover(); r != nil {
			res = fmt.Sprintf("FAIL panic %v", r)
		}
	}()
	a0 := totalAlloc()
	t0 := time.Now()
	switch a[0] {
	case "in":
		_, _, _, _ = abi.InternalMessageDecoder(cells[0], nil)
	case "extin":
		_, _, _, _ = abi.ExtInMessageDecoder(cells[0], nil)
	case "extout":
		_, _, _, _ = abi.ExtOutMessageDecoder(cells[0], nil, tlb.MsgAddress{SumType: "AddrNone"})
	default:
		return "bad-op"
	}
	dt := time.Since(t0)
	d := totalAlloc() - a0
	if d > 64*size+1<<20 {
		return fmt.Sprintf("FAIL alloc %d bytes allocated for a tree of %d cells / %d bytes", d, ncells, size)
	}
	if dt > 200*time.Millisecond+time.Duration(ncells)*50*time.Microsecond {
		return fmt.Sprintf("FAIL slow %v for a tree of %d cells", dt, ncells)
	}
	return "ok"
}

// ---------------------------------------------------------------------------------------- seeds found in real blocks

// realCells: the cells of the repository's real blocks (tlb/testdata), smallest files first
func realCells() []*boc.Cell {
	var out []*boc.Cell
	seen := map[*boc.Cell]bool{}
	var walk func(c *boc.Cell)
	walk = func(c *boc.Cell) {
		if seen[c] || len(out) >= 6000 {
			return
		}
		seen[c] = true
		out = append(out, c)
		for _, r := range c.Refs() {
			walk(r)
		}
	}
	for _, f := range []string{"block-4", "block-5", "block-3", "block-1"} {
		b, err := os.ReadFile(filepath.Join(repoDir(), "tlb", "testdata", f, "block.bin"))
		if err != nil {
			continue
		}
		roots, err := boc.DeserializeBoc(b)
		if err != nil {
			continue
		}
		for _, r := range roots {
			walk(r)
		}
	}
	return out
}

func tryDecode(t reflect.Type, c *boc.Cell) (ok bool) {
	defer func() {
		if r := recover(); r != nil {
			ok = false
		}
	}()
	c.ResetCounters()
	v := reflect.New(t)
	if err := tlb.NewDecoder().Unmarshal(c, v.Interface()); err != nil {
		return false
	}
	// a seed is interesting when the decoder consumed the cell completely
	return c.BitsAvailableForRead() == 0 && c.RefsAvailableForRead() == 0
}

// genRealSeeds: for the types no random value could be encoded for, look for subtrees of real blocks that decode
// completely into the type; damage those (explicit lines, the tables can be large)
func (gc *genCtx) genRealSeeds(types []regType) {
	g := gc.g
	cells := realCells()
	g.Counters["real_block_cells"] = len(cells)
	found := 0
	for _, r := range types {
		if trivialTLB(r.T) {
			continue
		}
		n := 0
		for _, c := range cells {
			if n >= 2 {
				break
			}
			if c.BitSize() == 0 && c.RefsSize() == 0 {
				continue
			}
			if !tryDecode(r.T, c) {
				continue
			}
			limit := 600
			c.ResetCounters()
			rows := cellToRows(c, &limit)
			if rows == nil {
				continue
			}
			n++
			g.Emit("go.tlb.one", r.Name, "1", h.TableString(rows))
			for k := 0; k < g.Scale(30, 500); k++ {
				m := damage(rows, g.Rng.Intn(nDamageKinds), g.Rng.Intn(len(rows)), g.Rng.Intn(1024), g.Rng)
				g.Emit("go.tlb.one", r.Name, strconv.Itoa(g.Rng.Intn(4)), h.TableString(m))
			}
		}
		if n > 0 {
			found++
			delete(gc.noSeed, "tlb:"+r.Name)
			g.Count("seed_from_real_block")
		}
	}
	for _, c := range cells {
		c.ResetCounters()
	}
}

// genVmSeeds: hand-built VM tuples (no encoder exists for them), nested, as stack values and inside a VmStack
func (gc *genCtx) genVmSeeds() {
	g := gc.g
	var entry func(depth int) func(i int) *boc.Cell
	entry = func(depth int) func(i int) *boc.Cell {
		return func(i int) *boc.Cell {
			if depth < 2 && g.Rng.Intn(4) == 0 {
				return tupleCell(g.Rng.Intn(5), entry(depth+1))
			}
			if g.Rng.Intn(5) == 0 {
				c := boc.NewCell() // vm_stk_null
				_ = c.WriteUint(0, 8)
				return c
			}
			return tinyIntCell(i)
		}
	}
	emit := func(name string, c *boc.Cell) {
		limit := 300
		rows := cellToRows(c, &limit)
		if rows == nil {
			return
		}
		g.Emit("go.tlb.one", name, "0", h.TableString(rows))
		for k := 0; k < g.Scale(25, 400); k++ {
			m := damage(rows, g.Rng.Intn(nDamageKinds), g.Rng.Intn(len(rows)), g.Rng.Intn(1024), g.Rng)
			g.Emit("go.tlb.one", name, strconv.Itoa(g.Rng.Intn(4)), h.TableString(m))
		}
		g.Count("vm_tuple_seed")
	}
	for n := 0; n <= 6; n++ {
		emit("tlb.VmStackValue", tupleCell(n, entry(0)))
		// vm_stack#_ depth:(## 24) stack:(VmStackList depth); vm_stk_cons: rest:^(VmStackList n) tos:VmStackValue
		st := boc.NewCell()
		_ = st.WriteUint(uint64(n), 24)
		cur := st
		for i := 0; i < n; i++ {
			rest := boc.NewCell()
			_ = cur.AddRef(rest)
			// tos follows the rest reference in the same cell
			src := tupleCell(i%4, entry(1))
			_ = cur.WriteBitString(src.RawBitString())
			for _, r := range src.Refs() {
				_ = cur.AddRef(r)
			}
			cur = rest
		}
		emit("tlb.VmStack", st)
	}
	delete(gc.noSeed, "tlb:tlb.VmStkTuple") // covered through VmStackValue (the tag byte precedes it)
}

var opCodeRe = regexp.MustCompile(`(?m)^\s*(\w+)MsgOpCode\s+MsgOpCode = (0x[0-9a-fA-F]+)`)

func (gc *genCtx) genABI() {
	g := gc.g
	src, err := os.ReadFile(filepath.Join(repoDir(), "abi", "messages_generated.go"))
	if err != nil {
		panic(err)
	}
	vg := &valGen{rng: g.Rng}
	per := g.Scale(6, 120)
	nseed := 0
	for _, m := range opCodeRe.FindAllStringSubmatch(string(src), -1) {
		t, ok := tlbByName["abi."+m[1]+"MsgBody"]
		if !ok {
			continue
		}
		code, _ := strconv.ParseUint(m[2], 0, 32)
		for s := 0; s < 2; s++ {
			v := reflect.New(t)
			vg.fill(v.Elem(), 0)
			c := boc.NewCell()
			_ = c.WriteUint(code, 32)
			if err := safeMarshalTLB(c, v.Elem().Interface()); err != nil {
				continue
			}
			limit := 200
			rows := cellToRows(c, &limit)
			if rows == nil {
				continue
			}
			nseed++
			which := []string{"in", "extin", "extout"}[g.Rng.Intn(3)]
			g.Emit("go.abi.dec", which, h.TableString(rows))
			for k := 0; k < per/2; k++ {
				mt := damage(rows, g.Rng.Intn(nDamageKinds), g.Rng.Intn(len(rows)), g.Rng.Intn(1024), g.Rng)
				g.Emit("go.abi.dec", which, h.TableString(mt))
				g.NonTrivial("abi" + h.TableString(mt))
			}
		}
	}
	g.Counters["abi_valid_seeds"] = nseed
	for k := 0; k < g.Scale(300, 5000); k++ {
		g.Emit("go.abi.dec", []string{"in", "extin", "extout"}[g.Rng.Intn(3)], h.TableString(randTree(g)))
	}
}

// ---------------------------------------------------------------------------------------- generation

func trivialTLB(t reflect.Type) bool {
	switch t.Kind() {
	case reflect.Struct, reflect.Slice, reflect.Pointer:
		return false
	}
	return true // integers, bit arrays, strings: one read
}

func (gc *genCtx) genTLB() {
	g := gc.g
	checkTLBRegistry()
	g.Counters["tlb_targets"] = len(tlbTargets)
	noSeed := 0
	for _, r := range tlbTargets {
		scale := 1
		if trivialTLB(r.T) && !reflect.PointerTo(r.T).Implements(unmarshalerTLB) {
			scale = 4
		}
		nRand, nMut, nEvery, nBomb := g.Scale(30, 700)/scale, g.Scale(48, 1800)/scale, g.Scale(20, 450)/scale, g.Scale(3, 24)/scale
		if nBomb == 0 {
			nBomb = 1
		}
		// does a valid seed exist? (reported, and decides whether `every` is worth a line)
		probe := &valGen{rng: rand.New(rand.NewSource(g.Rng.Int63()))}
		has := probe.validSeed(r.T, 12) != nil
		if !has {
			noSeed++
			gc.noSeed["tlb:"+r.Name] = true
		}
		emit := func(stream string, n int) {
			if n <= 0 {
				return
			}
			// several lines per stream so that a failure names a small batch
			for n > 0 {
				k := n
				if k > 50 {
					k = 50
				}
				seed := g.Rng.Int63()
				g.Emit("go.tlb.fuzz", r.Name, stream, strconv.FormatInt(seed, 10), strconv.Itoa(k))
				g.N += k - 1
				g.NonTrivial(fmt.Sprintf("%s/%s/%d", r.Name, stream, seed))
				n -= k
			}
			gc.perType[r.Name] += 0
		}
		if scale == 1 {
			g.Counters["tlb_inputs_per_struct_type"] = nRand + nMut + nEvery + 2*nBomb + g.Scale(4, 60)
			g.Counters["tlb_struct_types"]++
		} else {
			g.Counters["tlb_inputs_per_scalar_type"] = nRand + nMut + nEvery + 2*nBomb + g.Scale(4, 60)/scale
			g.Counters["tlb_scalar_types"]++
		}
		if g.N%5 == 0 {
			gc.emitPendingFlag()
		}
		emit("rand", nRand)
		emit("mut", nMut)
		if has {
			emit("every", nEvery)
		}
		emit("bomb", nBomb)
		emit("chain", nBomb)
		emit("exoticbad", g.Scale(4, 60)/scale)
		g.Counters["tlb_inputs"] += nRand + nMut + nBomb
		if has {
			g.Counters["tlb_inputs"] += nEvery
		}
	}
	var lacking []regType
	for _, r := range tlbTargets {
		if gc.noSeed["tlb:"+r.Name] {
			lacking = append(lacking, r)
		}
	}
	gc.genRealSeeds(lacking)
	gc.genVmSeeds()
	noSeed = 0
	for k := range gc.noSeed {
		if strings.HasPrefix(k, "tlb:") {
			noSeed++
		}
	}
	g.Counters["tlb_targets_without_valid_seed"] = noSeed
	gc.genABI()
}

var tlbExec = map[string]h.ExecFn{
	"go.tlb.fuzz":      goTLBFuzz,
	"go.tlb.one":       goTLBOne,
	"go.abi.dec":       goABIDec,
	"go.tlb.deep":      goTLBDeep,
	"go.tlb.flags":     goTLBFlags,
	"go.tlb.flagsreal": goTLBFlagsReal,
	"go.tlb.covseeds":  goTLBCovSeeds,
	// modelled custom decoders (compared with lean/TongoModel/TlbRead.lean)
	"tlb.label":         exTLBLabel,
	"tlb.countleafs":    exTLBCountLeafs,
	"tlb.snake":         exTLBSnake,
	"tlb.bintree":       exTLBBinTree,
	"tlb.alloc.stack":   exAllocStack,
	"tlb.alloc.bintree": exAllocBinTree,
	"tlb.alloc.snake":   exAllocSnake,
	"tlb.alloc.deep":    exAllocDeep,
	"go.abi.stackval":   goABIStackVal,
	"go.tlb.kat":        goTLBKat,
	"tlb.hashmap":       exTLBHashmap,
}
