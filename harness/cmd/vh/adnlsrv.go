//go:build c11 || c12

package main

// An ADNL-over-TCP SERVER written from the protocol description, INDEPENDENTLY of tongo's liteclient code: it uses
// crypto/ecdh (X25519), math/big (Edwards→Montgomery), crypto/aes + crypto/cipher (CTR) and crypto/sha256 only.
// It is the peer the real client is run against in C11 and C12.

import (
	"bufio"
	"bytes"
	"crypto/aes"
	"crypto/cipher"
	"crypto/ecdh"
	"crypto/ed25519"
	"crypto/sha256"
	"crypto/sha512"
	"encoding/binary"
	"errors"
	"fmt"
	"io"
	"math/big"
	"math/rand"
	"net"
	"sync"
	"time"
)

var p25519 = new(big.Int).Sub(new(big.Int).Lsh(big.NewInt(1), 255), big.NewInt(19))

// edPubToMontgomery maps a compressed Edwards point (Ed25519 public key) to the Montgomery u coordinate:
// u = (1 + y) / (1 - y) mod 2^255-19.
func edPubToMontgomery(pub []byte) ([]byte, error) {
	if len(pub) != 32 {
		return nil, errors.New("bad ed25519 public key length")
	}
	le := make([]byte, 32)
	copy(le, pub)
	le[31] &= 0x7f // drop the sign bit of x
	be := make([]byte, 32)
	for i := range le {
		be[31-i] = le[i]
	}
	y := new(big.Int).SetBytes(be)
	one := big.NewInt(1)
	num := new(big.Int).Add(one, y)
	den := new(big.Int).Sub(one, y)
	den.Mod(den, p25519)
	if den.Sign() == 0 {
		return nil, errors.New("y = 1")
	}
	den.ModInverse(den, p25519)
	u := num.Mul(num, den)
	u.Mod(u, p25519)
	ub := u.Bytes()
	out := make([]byte, 32)
	for i := range ub {
		out[i] = ub[len(ub)-1-i]
	}
	return out, nil
}

// serverKey is an Ed25519 identity of a server with the X25519 scalar derived from it (RFC 8032 §5.1.5: the first
// 32 bytes of SHA-512(seed), clamped).
type serverKey struct {
	seed   []byte
	pub    []byte
	scalar []byte
}

func newServerKey(seed []byte) serverKey {
	priv := ed25519.NewKeyFromSeed(seed)
	hs := sha512.Sum512(seed)
	sc := append([]byte{}, hs[:32]...)
	sc[0] &= 248
	sc[31] &= 127
	sc[31] |= 64
	return serverKey{seed: seed, pub: append([]byte{}, priv[32:]...), scalar: sc}
}

func keyIDOf(pub []byte) []byte {
	h := sha256.Sum256(append([]byte{0xc6, 0xb4, 0x13, 0x48}, pub...))
	return h[:]
}

func (k serverKey) keyID() []byte { return keyIDOf(k.pub) }

// shared computes the X25519 shared secret between this server key and a client's ephemeral Ed25519 public key.
func (k serverKey) shared(ephEdPub []byte) ([]byte, error) {
	u, err := edPubToMontgomery(ephEdPub)
	if err != nil {
		return nil, err
	}
	priv, err := ecdh.X25519().NewPrivateKey(k.scalar)
	if err != nil {
		return nil, err
	}
	pub, err := ecdh.X25519().NewPublicKey(u)
	if err != nil {
		return nil, err
	}
	return priv.ECDH(pub)
}

func ctrStream(key, iv []byte) cipher.Stream {
	b, err := aes.NewCipher(key)
	if err != nil {
		panic(err)
	}
	return cipher.NewCTR(b, iv)
}

// specAccept is the server side of the handshake on the first 256 bytes of a connection.
func specAccept(pub []byte, shared []byte, hs []byte) (params []byte, err error) {
	if len(hs) < 256 {
		return nil, errors.New("short handshake")
	}
	if len(shared) != 32 {
		return nil, errors.New("bad shared secret")
	}
	if !bytes.Equal(hs[:32], keyIDOf(pub)) {
		return nil, errors.New("unknown key id")
	}
	h := hs[64:96]
	key := append(append([]byte{}, shared[:16]...), h[16:32]...)
	iv := append(append([]byte{}, h[:4]...), shared[20:32]...)
	params = make([]byte, 160)
	ctrStream(key, iv).XORKeyStream(params, hs[96:256])
	sum := sha256.Sum256(params)
	if !bytes.Equal(sum[:], h) {
		return nil, errors.New("params hash mismatch")
	}
	return params, nil
}

// specFrame builds one plaintext frame: le32(len) ‖ nonce ‖ payload ‖ sha256(nonce ‖ payload).
func specFrame(nonce, payload []byte) []byte {
	b := make([]byte, 0, 68+len(payload))
	b = binary.LittleEndian.AppendUint32(b, uint32(64+len(payload)))
	b = append(b, nonce...)
	b = append(b, payload...)
	h := sha256.New()
	h.Write(nonce)
	h.Write(payload)
	return h.Sum(b)
}

type srvConn struct {
	c      net.Conn
	br     *bufio.Reader
	rx, tx cipher.Stream
	hs     []byte // the 256 handshake bytes as received
	eph    []byte
	shared []byte
	params []byte
	rxOff  int // keystream offsets (bytes decrypted / encrypted so far)
	txOff  int
	wmu    sync.Mutex
}

type adnlServer struct {
	ln  net.Listener
	key serverKey
}

func newADNLServer(seed []byte) (*adnlServer, error) {
	ln, err := net.Listen("tcp", "127.0.0.1:0")
	if err != nil {
		return nil, err
	}
	return &adnlServer{ln: ln, key: newServerKey(seed)}, nil
}

func (s *adnlServer) addr() string { return s.ln.Addr().String() }
func (s *adnlServer) close()       { s.ln.Close() }

// accept waits for one TCP connection and runs the handshake. replyNonce is the nonce of the empty confirmation
// packet; with replyNonce == nil no confirmation is written (the caller sends, corrupts or withholds it itself).
func (s *adnlServer) accept(deadline time.Duration, replyNonce []byte) (*srvConn, error) {
	if tl, ok := s.ln.(*net.TCPListener); ok {
		tl.SetDeadline(time.Now().Add(deadline))
	}
	c, err := s.ln.Accept()
	if err != nil {
		return nil, err
	}
	return s.handshake(c, deadline, replyNonce)
}

func (s *adnlServer) handshake(c net.Conn, deadline time.Duration, replyNonce []byte) (*srvConn, error) {
	if tc, ok := c.(*net.TCPConn); ok {
		tc.SetNoDelay(true)
	}
	sc := &srvConn{c: c, br: bufio.NewReaderSize(c, 1<<16)}
	c.SetReadDeadline(time.Now().Add(deadline))
	hs := make([]byte, 256)
	if _, err := io.ReadFull(sc.br, hs); err != nil {
		c.Close()
		return nil, fmt.Errorf("reading handshake: %w", err)
	}
	c.SetReadDeadline(time.Time{})
	sc.hs = hs
	sc.eph = hs[32:64]
	if !bytes.Equal(hs[:32], s.key.keyID()) {
		c.Close()
		return nil, errors.New("unknown key id")
	}
	shared, err := s.key.shared(sc.eph)
	if err != nil {
		c.Close()
		return nil, err
	}
	sc.shared = shared
	params, err := specAccept(s.key.pub, shared, hs)
	if err != nil {
		c.Close()
		return nil, err
	}
	sc.params = params
	sc.tx = ctrStream(params[0:32], params[64:80])
	sc.rx = ctrStream(params[32:64], params[80:96])
	if replyNonce != nil {
		if err := sc.writeRaw(sc.encrypt(specFrame(replyNonce, nil))); err != nil {
			c.Close()
			return nil, err
		}
	}
	return sc, nil
}

// encrypt advances the sending stream.
func (sc *srvConn) encrypt(plain []byte) []byte {
	out := make([]byte, len(plain))
	sc.tx.XORKeyStream(out, plain)
	sc.txOff += len(plain)
	return out
}

func (sc *srvConn) writeRaw(b []byte) error {
	sc.wmu.Lock()
	defer sc.wmu.Unlock()
	_, err := sc.c.Write(b)
	return err
}

// writeSegmented writes b in pieces cut at random boundaries (separate Write calls, TCP_NODELAY), occasionally
// yielding so that the reader observes partial frames.
func (sc *srvConn) writeSegmented(b []byte, rng *rand.Rand) error {
	sc.wmu.Lock()
	defer sc.wmu.Unlock()
	for len(b) > 0 {
		n := len(b)
		switch rng.Intn(4) {
		case 0:
			n = 1 + rng.Intn(8)
		case 1:
			n = 1 + rng.Intn(100)
		case 2:
			n = 1 + rng.Intn(len(b))
		}
		if n > len(b) {
			n = len(b)
		}
		if _, err := sc.c.Write(b[:n]); err != nil {
			return err
		}
		b = b[n:]
		if rng.Intn(16) == 0 {
			time.Sleep(time.Duration(20+rng.Intn(200)) * time.Microsecond)
		}
	}
	return nil
}

// sendPacket frames, encrypts and writes one packet (the C12 scripted server uses it from several goroutines).
func (sc *srvConn) sendPacket(nonce, payload []byte) error {
	sc.wmu.Lock()
	defer sc.wmu.Unlock()
	plain := specFrame(nonce, payload)
	out := make([]byte, len(plain))
	sc.tx.XORKeyStream(out, plain)
	sc.txOff += len(plain)
	_, err := sc.c.Write(out)
	return err
}

var errFrame = errors.New("invalid frame")

// readFrame reads one frame from the client: the raw (encrypted) bytes, and the decoded nonce and payload.
func (sc *srvConn) readFrame() (nonce, payload, raw []byte, err error) {
	hdr := make([]byte, 4)
	if _, err = io.ReadFull(sc.br, hdr); err != nil {
		return nil, nil, nil, err
	}
	raw = append(raw, hdr...)
	dec := make([]byte, 4)
	sc.rx.XORKeyStream(dec, hdr)
	sc.rxOff += 4
	n := int(binary.LittleEndian.Uint32(dec))
	if n < 64 || n > 8<<20 {
		return nil, nil, raw, fmt.Errorf("%w: length %d", errFrame, n)
	}
	body := make([]byte, n)
	if _, err = io.ReadFull(sc.br, body); err != nil {
		return nil, nil, raw, err
	}
	raw = append(raw, body...)
	plain := make([]byte, n)
	sc.rx.XORKeyStream(plain, body)
	sc.rxOff += n
	sum := sha256.Sum256(plain[:n-32])
	if !bytes.Equal(sum[:], plain[n-32:]) {
		return nil, nil, raw, fmt.Errorf("%w: checksum", errFrame)
	}
	return plain[:32], plain[32 : n-32], raw, nil
}

func (sc *srvConn) close() { sc.c.Close() }
