//go:build c20

package main

// C20, round 6: the four "envelope" types of package abi (InMsgBody, ExtOutMsgBody, JettonPayload, NFTPayload — one
// {SumType, OpCode, Value} object around nothing / a cell / a registered record), compared with an independent
// reference on the FULL outcome (error vs value, SumType, OpCode, decoded Value); destination reuse for every JSON
// family; cell documents with zero / two roots.

import (
	"bytes"
	"encoding/json"
	"fmt"
	"reflect"
	"strconv"

	"github.com/tonkeeper/tongo/abi"
	"github.com/tonkeeper/tongo/boc"
	"verifharness/h"
)

type envKind struct {
	name     string
	empty    string
	unknown  string
	registry map[string]any
	fresh    func() any
	mk       func(sum string, op *uint32, val any) any
}

var envKinds = map[string]*envKind{
	"inbody": {"inbody", abi.EmptyMsgOp, abi.UnknownMsgOp, abi.KnownMsgInTypes,
		func() any { return &abi.InMsgBody{} },
		func(s string, o *uint32, v any) any { return abi.InMsgBody{SumType: s, OpCode: o, Value: v} }},
	"extout": {"extout", abi.EmptyMsgOp, abi.UnknownMsgOp, abi.KnownMsgExtOutTypes,
		func() any { return &abi.ExtOutMsgBody{} },
		func(s string, o *uint32, v any) any { return abi.ExtOutMsgBody{SumType: s, OpCode: o, Value: v} }},
	"jetton": {"jetton", abi.EmptyJettonOp, abi.UnknownJettonOp, abi.KnownJettonTypes,
		func() any { return &abi.JettonPayload{} },
		func(s string, o *uint32, v any) any { return abi.JettonPayload{SumType: s, OpCode: o, Value: v} }},
	"nft": {"nft", abi.EmptyNFTOp, abi.UnknownNFTOp, abi.KnownNFTTypes,
		func() any { return &abi.NFTPayload{} },
		func(s string, o *uint32, v any) any { return abi.NFTPayload{SumType: s, OpCode: o, Value: v} }},
}

func envParts(x any) (string, *uint32, any) {
	switch b := x.(type) {
	case *abi.InMsgBody:
		return b.SumType, b.OpCode, b.Value
	case *abi.ExtOutMsgBody:
		return b.SumType, b.OpCode, b.Value
	case *abi.JettonPayload:
		return b.SumType, b.OpCode, b.Value
	case *abi.NFTPayload:
		return b.SumType, b.OpCode, b.Value
	}
	return "?", nil, nil
}

func opStr(o *uint32) string {
	if o == nil {
		return "-"
	}
	return fmt.Sprint(*o)
}

// envReference: what the envelope decoder has to answer for `doc`, written from the format, not from the methods:
// the object is read as {SumType string, OpCode *uint32, Value raw}; empty name = no value; the "unknown" name = a cell
// document; any other name must be registered and Value must decode into the registered record; every failure is an error.
func envReference(k *envKind, doc []byte) (isErr bool, sum string, op *uint32, val any) {
	var r struct {
		SumType string
		OpCode  *uint32
		Value   json.RawMessage
	}
	if err := json.Unmarshal(doc, &r); err != nil {
		return true, "", nil, nil
	}
	switch r.SumType {
	case k.empty:
		return false, r.SumType, r.OpCode, nil
	case k.unknown:
		cells, ok := refCellDoc(r.Value)
		if !ok {
			return true, "", nil, nil
		}
		return false, r.SumType, r.OpCode, cells
	}
	t, ok := k.registry[r.SumType]
	if !ok {
		return true, "", nil, nil
	}
	o := reflect.New(reflect.TypeOf(t))
	if err := json.Unmarshal(r.Value, o.Interface()); err != nil {
		return true, "", nil, nil
	}
	return false, r.SumType, r.OpCode, o.Elem().Interface()
}

// refCellDoc: a cell document is a JSON string of the hex of a bag of cells with EXACTLY one root (through
// boc.DeserializeBoc, the parser entry point owned by C07, not through Cell.UnmarshalJSON)
func refCellDoc(raw []byte) (*boc.Cell, bool) {
	var s string
	if len(raw) == 0 || raw[0] != '"' || json.Unmarshal(raw, &s) != nil {
		return nil, false
	}
	bs, err := hexDecodeStrict(s)
	if err != nil {
		return nil, false
	}
	cells, err := boc.DeserializeBoc(bs)
	if err != nil || len(cells) != 1 {
		return nil, false
	}
	return cells[0], true
}

func hexDecodeStrict(s string) ([]byte, error) {
	if len(s)%2 != 0 {
		return nil, fmt.Errorf("odd")
	}
	out := make([]byte, len(s)/2)
	for i := 0; i < len(s); i++ {
		var v byte
		switch c := s[i]; {
		case c >= '0' && c <= '9':
			v = c - '0'
		case c >= 'a' && c <= 'f':
			v = c - 'a' + 10
		case c >= 'A' && c <= 'F':
			v = c - 'A' + 10
		default:
			return nil, fmt.Errorf("digit")
		}
		if i%2 == 0 {
			out[i/2] = v << 4
		} else {
			out[i/2] |= v
		}
	}
	return out, nil
}

func sameValue(a, b any) bool {
	ca, oka := a.(*boc.Cell)
	cb, okb := b.(*boc.Cell)
	if oka || okb {
		return oka && okb && ca != nil && cb != nil && h.Canon([]*boc.Cell{ca}) == h.Canon([]*boc.Cell{cb})
	}
	if a == nil || b == nil {
		return a == nil && b == nil
	}
	if reflect.TypeOf(a) != reflect.TypeOf(b) {
		return false
	}
	if reflect.DeepEqual(a, b) {
		return true
	}
	ja, e1 := json.Marshal(a)
	jb, e2 := json.Marshal(b)
	return e1 == nil && e2 == nil && bytes.Equal(ja, jb)
}

// goEnvelopeMalformed: go.json.mal inbody|extout|jetton|nft <doc>: no panic, and the FULL outcome is the reference's
func goEnvelopeMalformed(k *envKind, doc []byte) (res string) {
	stage := "unmarshal"
	defer func() {
		if x := recover(); x != nil {
			res = fmt.Sprintf("FAIL panic stage=%s %v", stage, x)
		}
	}()
	refErr, rs, ro, rv := envReference(k, doc)
	for _, via := range []string{"json.Unmarshal", "method"} {
		stage = via
		w := k.fresh()
		var err error
		if via == "method" {
			err = w.(json.Unmarshaler).UnmarshalJSON(doc)
			if !json.Valid(doc) {
				continue // the method is specified on valid JSON values only (encoding/json never passes anything else)
			}
		} else {
			err = json.Unmarshal(doc, w)
		}
		if refErr {
			if err == nil {
				s, o, _ := envParts(w)
				return fmt.Sprintf("FAIL accepted-malformed via=%s sumtype=%s opcode=%s", via, strconv.Quote(s), opStr(o))
			}
			continue
		}
		if err != nil {
			return fmt.Sprintf("FAIL rejected-wellformed via=%s err=%s", via, strconv.Quote(err.Error()))
		}
		s, o, v := envParts(w)
		if s != rs {
			return fmt.Sprintf("FAIL outcome sumtype via=%s got=%s want=%s", via, strconv.Quote(s), strconv.Quote(rs))
		}
		if opStr(o) != opStr(ro) {
			return fmt.Sprintf("FAIL outcome opcode via=%s got=%s want=%s", via, opStr(o), opStr(ro))
		}
		if !sameValue(v, rv) {
			return fmt.Sprintf("FAIL outcome value via=%s got=%T want=%T", via, v, rv)
		}
		// accepted: printable, and the printed form parses back to the same outcome (an op code on an EMPTY body is not
		// printed — `{}` —: such a value cannot come from a TL-B decode and is outside the round trip)
		if s == k.empty && o != nil {
			continue
		}
		stage = "remarshal"
		b, err := json.Marshal(w)
		if err != nil {
			continue // e.g. a registered record whose zero fields cannot be printed: not claimed
		}
		w2 := k.fresh()
		if err := json.Unmarshal(b, w2); err != nil {
			return "FAIL accepted-no-roundtrip unmarshal-error doc=" + strconv.Quote(string(b))
		}
		s2, o2, v2 := envParts(w2)
		if s2 != s || opStr(o2) != opStr(o) || !sameValue(v2, v) {
			return "FAIL accepted-no-roundtrip doc=" + strconv.Quote(string(b))
		}
	}
	return "ok"
}

// goJSONReuse: go.json.reuse <nT> <nA> <type tokens> <value tokens A> <value tokens B>
// one destination variable: decode A, then decode B into the SAME variable — the result must be B (nothing of A left:
// Maybe reset by null, slices not appended to, pointers not shared)
func goJSONReuse(a []string) (res string) {
	nT, nA := atoi(a[0]), atoi(a[1])
	tt := a[2 : 2+nT]
	va := a[2+nT : 2+nT+nA]
	vb := a[2+nT+nA:]
	ra := c20Resolve(append(append([]string{}, tt...), va...), true)
	rb := c20Resolve(append(append([]string{}, tt...), vb...), true)
	defer func() {
		if x := recover(); x != nil {
			res = fmt.Sprintf("FAIL panic %v", x)
		}
	}()
	da, err := json.Marshal(ra.value().Interface())
	if err != nil {
		return "ok"
	}
	db, err := json.Marshal(rb.value().Interface())
	if err != nil {
		return "ok"
	}
	want := rb.dump(rb.value())
	{ // a value that does not round-trip into a FRESH variable is reported by go.json.rt (known finding ext/-), not here
		f := reflect.New(rb.typ)
		if err := json.Unmarshal(db, f.Interface()); err != nil || rb.dump(f.Elem()) != want {
			return "ok"
		}
		f = reflect.New(ra.typ)
		if err := json.Unmarshal(da, f.Interface()); err != nil {
			return "ok"
		}
	}
	for _, via := range []string{"json.Unmarshal", "method"} {
		p := reflect.New(ra.typ)
		dec := func(d []byte) error {
			if via == "method" {
				return p.Interface().(json.Unmarshaler).UnmarshalJSON(d)
			}
			return json.Unmarshal(d, p.Interface())
		}
		if err := dec(da); err != nil {
			return "FAIL reuse first-decode-error via=" + via
		}
		if err := dec(db); err != nil {
			return "FAIL reuse second-decode-error via=" + via + " doc=" + strconv.Quote(string(db))
		}
		if got := rb.dump(p.Elem()); got != want {
			return "FAIL reuse via=" + via + " got=" + got + " want=" + want + " first=" + strconv.Quote(string(da)) +
				" second=" + strconv.Quote(string(db))
		}
	}
	return "ok"
}

// goEnvelopeReuse: go.json.reuse.env <kind> <docA> <docB>: both documents well formed for the reference
func goEnvelopeReuse(a []string) (res string) {
	k := envKinds[a[0]]
	da, db := h.MustUnHex(a[1]), h.MustUnHex(a[2])
	defer func() {
		if x := recover(); x != nil {
			res = fmt.Sprintf("FAIL panic %v", x)
		}
	}()
	ea, _, _, _ := envReference(k, da)
	eb, rs, ro, rv := envReference(k, db)
	if ea || eb {
		return "ok"
	}
	w := k.fresh()
	if err := json.Unmarshal(da, w); err != nil {
		return "ok" // reported by go.json.mal
	}
	if err := json.Unmarshal(db, w); err != nil {
		return "FAIL reuse second-decode-error"
	}
	s, o, v := envParts(w)
	if s != rs || opStr(o) != opStr(ro) || !sameValue(v, rv) {
		return fmt.Sprintf("FAIL reuse got=(%s,%s,%T) want=(%s,%s,%T) first=%s second=%s", strconv.Quote(s), opStr(o), v,
			strconv.Quote(rs), opStr(ro), rv, strconv.Quote(string(da)), strconv.Quote(string(db)))
	}
	return "ok"
}

// multiRootCellDocs: JSON cell documents whose bag has 0 / 2 / 3 roots (all must be rejected by Cell.UnmarshalJSON and
// tlb.Any) and, as a control, the same cells with one root (must be accepted)
func multiRootCellDocs(g *h.G) (bad [][]byte, good [][]byte) {
	leaf := func(b byte) h.Row { return h.Row{Ty: 0, Mask: 0, BitLen: 8, Data: []byte{b}, Refs: nil} }
	parent := h.Row{Ty: 0, Mask: 0, BitLen: 16, Data: []byte{0xab, 0xcd}, Refs: []int{1, 2}}
	t := []h.Row{parent, leaf(1), leaf(2)}
	mk := func(rows []h.Row, roots []int, crc bool) []byte {
		p := h.EmitParams{Magic: 0, HasCrc: crc, Size: 1, OffBytes: 1}
		return []byte(`"` + h.Hex(h.EmitBoc(p, rows, roots)) + `"`)
	}
	for _, crc := range []bool{false, true} {
		bad = append(bad, mk(t, []int{0, 1}, crc), mk(t, []int{0, 0}, crc), mk(t, []int{1, 2}, crc),
			mk(t, []int{0, 1, 2}, crc), mk(t, []int{}, crc), mk([]h.Row{leaf(7), leaf(9)}, []int{0, 1}, crc))
		good = append(good, mk(t, []int{0}, crc), mk([]h.Row{leaf(7)}, []int{0}, crc))
	}
	return
}

// goCellRoots: go.json.cellroots <cell|anycell> <doc>: the document is accepted iff the reference accepts it (one root)
func goCellRoots(a []string) (res string) {
	doc := h.MustUnHex(a[1])
	r := c20Resolve([]string{a[0]}, false)
	defer func() {
		if x := recover(); x != nil {
			res = fmt.Sprintf("FAIL panic %v", x)
		}
	}()
	want, ok := refCellDoc(doc)
	p := reflect.New(r.typ)
	err := json.Unmarshal(doc, p.Interface())
	if !ok {
		if err == nil {
			return "FAIL accepted-malformed cell document (not exactly one root) got=" + r.dump(p.Elem())
		}
		return "ok"
	}
	if err != nil {
		return "FAIL rejected-wellformed " + strconv.Quote(err.Error())
	}
	if got, w := r.dump(p.Elem()), h.Canon([]*boc.Cell{want}); got != w {
		return "FAIL outcome got=" + got + " want=" + w
	}
	return "ok"
}
