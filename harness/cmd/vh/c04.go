//go:build c04

package main

import (
	"crypto/ed25519"
	"crypto/sha256"
	"encoding/hex"
	"fmt"
	"github.com/tonkeeper/tongo/wallet"
	"math/big"
	"math/rand"
	"reflect"
	"strconv"
	"time"

	"github.com/tonkeeper/tongo/boc"
	"github.com/tonkeeper/tongo/tlb"
	"github.com/tonkeeper/tongo/ton"
	"verifharness/h"
	"verifharness/tlbx"
)

func init() {
	h.Register(&h.Prop{ID: "C04", Gen: genC04, Exec: withPrim(map[string]h.ExecFn{
		"tlb.spec":      exTlbSpec,
		"tlb.extmsg":    exExtMsg,
		"tlb.enc":       exTlbEnc,
		"tlb.parsetag":  exParseTag,
		"tlb.fieldtag":  exFieldTag,
		"tlb.dec":       exTlbDec,
		"tlb.canon":     exTlbCanon,
		"go.readsrc":    goReadSrc,
		"tlb.canoninfo": exTlbCanonInfo,
		"go.redec":      goReDecode,
		"go.rt":         goRoundTrip,
		"go.w5beta":     goW5BetaBody,
	})})
}

// tlb.spec <GoType> <stype> <val> → ok <canonical table> | err : the cell tlb.Marshal produces; the other side of
// this line is the SPEC encoder (lean/TongoModel/Tlb/BlockTlb.lean), not the model of the implementation.
func exTlbSpec(a []string) string {
	tt := tlbLookup(a[0])
	v, err := tlbx.Read(a[2], tt.T)
	if err != nil {
		return "bad-op"
	}
	c, err := marshalValue(v)
	if err != nil {
		return outcomeOf(err)
	}
	return "ok " + tlbx.CellText(c)
}

// tlb.extmsg <workchain> <address hex> <body table> <init val|~> <fee>: ton.CreateExternalMessage + tlb.Marshal
func exExtMsg(a []string) string {
	wc, _ := strconv.Atoi(a[0])
	ab, _ := hex.DecodeString(a[1])
	var id ton.AccountID
	id.Workchain = int32(wc)
	copy(id.Address[:], ab)
	body := h.BuildCells(h.ParseTable(a[2]))[0]
	var init *tlb.StateInit
	if a[3] != "~" {
		v, err := tlbx.Read(a[3], reflect.TypeOf(tlb.StateInit{}))
		if err != nil {
			return "bad-op"
		}
		si := v.Interface().(tlb.StateInit)
		init = &si
	}
	fee, _ := new(big.Int).SetString(a[4], 10)
	msg, err := ton.CreateExternalMessage(id, body, init, tlb.VarUInteger16(*fee))
	if err != nil {
		return "err"
	}
	c, err := marshalValue(reflect.ValueOf(msg))
	if err != nil {
		return outcomeOf(err)
	}
	return "ok " + tlbx.CellText(c)
}

// go.w5beta <seed> <msgtype> <seqno> <valid until> <n>: the body wallet v5 beta WRITES (Wallet.CreateMessageBody →
// createSignedMsgBodyCell) is the cell the READER's struct wallet.MessageV5Beta marshals to after decoding it — so the
// schema transcribed from the struct (impl_eq_spec_WalletV5BetaBody, tlb.spec lines) is also the writer's layout.
func goW5BetaBody(a []string) string {
	seed := sha256.Sum256([]byte(a[0]))
	key := ed25519.NewKeyFromSeed(seed[:])
	mt, _ := strconv.ParseUint(a[1], 10, 32)
	seq, _ := strconv.ParseUint(a[2], 10, 32)
	vu, _ := strconv.ParseInt(a[3], 10, 64)
	n, _ := strconv.Atoi(a[4])
	w, err := wallet.New(key, wallet.V5Beta, nil)
	if err != nil {
		return "bad-op"
	}
	var msgs []wallet.Sendable
	for i := 0; i < n; i++ {
		msgs = append(msgs, wallet.SimpleTransfer{Amount: tlb.Grams(1000 + i), Address: w.GetAddress()})
	}
	body, err := w.CreateMessageBody(wallet.MessageConfig{Seqno: uint32(seq), ValidUntil: time.Unix(vu, 0),
		V5MsgType: wallet.V5MsgType(mt)}, msgs...)
	if err != nil {
		return "ok err"
	}
	h1, err := body.Hash()
	if err != nil {
		return "bad-op"
	}
	var m wallet.MessageV5Beta
	body.ResetCounters()
	if err := tlb.Unmarshal(body, &m); err != nil {
		return "FAIL written-body-not-decodable-as-MessageV5Beta"
	}
	c := boc.NewCell()
	if err := tlb.Marshal(c, m); err != nil {
		return "FAIL decoded-body-not-encodable"
	}
	h2, _ := c.Hash()
	if hex.EncodeToString(h1) != hex.EncodeToString(h2) {
		return "FAIL writer-and-reader-layouts-differ"
	}
	return fmt.Sprintf("ok same %s %d", m.SumType, n)
}

// structures with a transcribed schema: Go type → entry of Spec.senv
var specStructs = [][2]string{
	{"tlb.Grams", "Grams"}, {"tlb.CurrencyCollection", "CurrencyCollection"},
	{"tlb.ExtraCurrencyCollection", "ExtraCurrencyCollection"}, {"tlb.MsgAddress", "MsgAddress"},
	{"tlb.CommonMsgInfo", "CommonMsgInfo"}, {"tlb.TickTock", "TickTock"}, {"tlb.StateInit", "StateInit"},
	{"tlb.Message", "Message"}, {"wallet.MessageV3", "WalletV3Body"}, {"wallet.MessageV4", "WalletV4Body"},
	{"wallet.SignedMsgBody", "SignedMsgBody"},
	{"tlb.StorageUsed", "StorageUsed"},
	{"tlb.StorageExtraInfo", "StorageExtraInfo"},
	{"tlb.StorageInfo", "StorageInfo"},
	{"tlb.AccountState", "AccountState"},
	{"tlb.AccountStorage", "AccountStorage"},
	{"tlb.ExistedAccount", "ExistedAccount"},
	{"tlb.Account", "Account"},
	{"tlb.ShardAccount", "ShardAccount"},
	{"tlb.AccountStatus", "AccountStatus"},
	{"tlb.AccStatusChange", "AccStatusChange"},
	{"tlb.ComputeSkipReason", "ComputeSkipReason"},
	{"tlb.TrStoragePhase", "TrStoragePhase"},
	{"tlb.TrCreditPhase", "TrCreditPhase"},
	{"tlb.TrComputePhase", "TrComputePhase"},
	{"tlb.TrActionPhase", "TrActionPhase"},
	{"tlb.TrBouncePhase", "TrBouncePhase"},
	{"tlb.SplitMergeInfo", "SplitMergeInfo"},
	{"tlb.TransactionDescr", "TransactionDescr"},
	{"tlb.HashUpdate", "HashUpdate"},
	{"tlb.Transaction", "Transaction"},
	{"wallet.W5Actions", "OutList"}, {"wallet.W5ExtendedAction", "W5ExtendedAction"},
	{"wallet.W5ExtendedActions", "W5ExtendedActions"}, {"wallet.MessageV5", "WalletV5R1Body"},
	{"wallet.HighloadV2Message", "HighloadV2Body"},
	{"wallet.WalletV5ID", "WalletV5ID"}, {"wallet.MessageV5Beta", "WalletV5BetaBody"},
	{"tlb.BurningConfig", "BurningConfig"}, {"tlb.MsgMetadata", "MsgMetadata"},
}

func genC04(g *h.G) {
	tlbInit()
	gc := tlbx.NewGenCtx(g.Rng, tlbU)
	gc.ModelOnly = true
	for _, tt := range tlbTypes {
		g.Count("types_" + tt.Class)
	}
	g.Counters["structures_with_transcribed_schema"] = len(specStructs)
	// (a) primitives: EXHAUSTIVE over the widths, boundary values plus random ones for each width
	perWidth := g.Scale(3, 300)
	emitInt := func(goType, st string, vals []*big.Int) {
		for _, x := range vals {
			g.Emit("tlb.spec", goType, st, x.String())
		}
	}
	pow := func(n int) *big.Int { return new(big.Int).Lsh(big.NewInt(1), uint(n)) }
	one := big.NewInt(1)
	uvals := func(n int) []*big.Int {
		vs := []*big.Int{big.NewInt(0), new(big.Int).Sub(pow(n), one), pow(n - 1)}
		if n > 1 {
			vs = append(vs, big.NewInt(1), new(big.Int).Sub(pow(n-1), one))
		}
		for i := 0; i < perWidth; i++ {
			vs = append(vs, new(big.Int).Rand(g.Rng, pow(n)))
		}
		return vs
	}
	ivals := func(n int) []*big.Int {
		half := pow(n - 1)
		vs := []*big.Int{new(big.Int).Neg(half), new(big.Int).Sub(half, one), big.NewInt(-1), big.NewInt(0)}
		if n > 1 {
			vs = append(vs, big.NewInt(1), new(big.Int).Neg(new(big.Int).Sub(half, one)))
		}
		for i := 0; i < perWidth; i++ {
			vs = append(vs, new(big.Int).Sub(new(big.Int).Rand(g.Rng, pow(n)), half))
		}
		return vs
	}
	widths := []int{}
	for n := 1; n <= 64; n++ {
		widths = append(widths, n)
	}
	for _, n := range append(widths, 128, 256, 257) {
		emitInt(fmt.Sprintf("tlb.Uint%d", n), fmt.Sprintf("(:nat|%d)", n), uvals(n))
		emitInt(fmt.Sprintf("tlb.Int%d", n), fmt.Sprintf("(:int|%d)", n), ivals(n))
		g.Count("primitive_widths")
	}
	for n := 1; n <= 32; n++ { // every VarUInteger n, every byte length 0..n-1
		for l := 0; l < n; l++ {
			x := big.NewInt(0)
			if l > 0 {
				x = new(big.Int).Rand(g.Rng, pow(8*l))
				x.SetBit(x, 8*(l-1)+g.Rng.Intn(8), 1)
			}
			g.Emit("tlb.spec", fmt.Sprintf("tlb.VarUInteger%d", n), fmt.Sprintf("(:varuint|%d)", n), x.String())
			g.Emit("tlb.spec", fmt.Sprintf("tlb.VarUInteger%d", n), fmt.Sprintf("(:varuint|%d)", n),
				new(big.Int).Sub(pow(8*l), one).String())
			g.Count("varuint_byte_lengths")
		}
	}
	for _, n := range []int{80, 96, 128, 256, 264, 320, 352, 512} {
		for i := 0; i < perWidth+2; i++ {
			b := g.Bytes(n / 8)
			g.Emit("tlb.spec", fmt.Sprintf("tlb.Bits%d", n), fmt.Sprintf("(:bits|%d)", n), "x"+hex.EncodeToString(b))
		}
	}
	for i := 0; i < 60; i++ {
		g.Emit("tlb.spec", "tlb.Unary", ":unary", fmt.Sprint(g.Rng.Intn(70)))
	}
	for _, x := range []uint64{0, 1, 255, 256, 1 << 32, 1<<63 - 1, 1 << 63, ^uint64(0)} {
		g.Emit("tlb.spec", "tlb.Grams", "(:N|:Grams)", fmt.Sprint(x))
	}
	// (b) structures with a transcribed schema: random in-domain values
	perStruct := g.Scale(150, 12000)
	for _, st := range specStructs {
		tt := tlbLookup(st[0])
		for i := 0; i < perStruct; i++ {
			v := reflect.New(tt.T).Elem()
			gc.Gen(tt.D, v, "p")
			txt := tlbx.Print(v)
			// the spec side gets the struct fields BY NAME
			g.Emit("tlb.spec", st[0], "(:N|:"+st[1]+")", tlbx.PrintNamed(tlbU, tt.D, v))
			g.NonTrivial(st[0] + "/" + txt)
			g.Count("spec_struct:" + st[0])
			if i%4 == 0 { // the model of the implementation on the same value (exact correspondence)
				g.Emit("tlb.enc", tt.Name, tt.Ty, tt.Env, txt)
			}
		}
	}
	// (b') every registered primitive / generic combinator instantiation whose TL-B type is fixed by its Go name
	// (Maybe[X], Either[X,Y], EitherRef[X], Ref[X] over primitives; the probe instantiations of X1 stage i)
	for _, tt := range tlbTypes {
		if tt.Class != "model" || tt.D.Kind == tlbx.KUint || tt.D.Kind == tlbx.KInt || tt.D.Kind == tlbx.KBytes {
			continue
		}
		st, ok := tt.D.SpecText()
		if !ok {
			continue
		}
		for i := 0; i < g.Scale(40, 600); i++ {
			v := reflect.New(tt.T).Elem()
			gc.Gen(tt.D, v, "p")
			g.Emit("tlb.spec", tt.Name, st, tlbx.Print(v))
			g.Count("spec_combinator:" + tt.Name)
		}
	}
	// (c) the external-message envelope built by ton.CreateExternalMessage
	siT := tlbLookup("tlb.StateInit")
	for i := 0; i < g.Scale(200, 3000); i++ {
		wc := []int{0, -1, 1, -128, 127}[g.Rng.Intn(5)]
		addr := g.Bytes(32)
		body := gc.RandCell(600, 2, 2)
		init := "~"
		if g.Rng.Intn(2) == 0 {
			v := reflect.New(siT.T).Elem()
			gc.Gen(siT.D, v, "p")
			init = tlbx.PrintNamed(tlbU, siT.D, v)
			g.Count("extmsg_with_init")
		} else {
			g.Count("extmsg_without_init")
		}
		fee := new(big.Int).Rand(g.Rng, pow(8*g.Rng.Intn(9)))
		g.Emit("tlb.extmsg", fmt.Sprint(wc), hex.EncodeToString(addr), tlbx.CellText(body), init, fee.String())
	}
	// (c') wallet v5 beta: the writer of the body against the reader's struct (whose schema is transcribed)
	for i := 0; i < g.Scale(24, 300); i++ {
		mt := []uint32{0x73696e74, 0x7369676e}[i%2]
		g.Emit("go.w5beta", fmt.Sprint(g.Rng.Int63()), fmt.Sprint(mt), fmt.Sprint(g.Rng.Uint32()),
			fmt.Sprint(g.Rng.Int63n(1<<32)), fmt.Sprint(g.Rng.Intn(5)))
	}
	// (d) real chain data: every transaction / message / state-init of the test blocks re-encoded; hashes compared
	genTags(g)
	genReal(g)
	for i, rs := 0, rand.New(rand.NewSource(g.Seed*32452843+4)); i < g.Scale(25, 500); i++ {
		g.Emit("go.readsrc", fmt.Sprint(rs.Int63()))
	}
	for k, n := range gc.Cov {
		g.Counters["gen_"+k] += n
	}
	_ = boc.NewCell
}
