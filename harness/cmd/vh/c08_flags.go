//go:build c08

package main

// C08: hand-written UnmarshalTLB methods with flag-conditional branches (BlockInfo: flags&1 / not_master / after_merge /
// vert_seqno_incr, Transaction descriptions, Message init/body, Account optionals, …). A valid encoding found in a real
// block or made by tlb.Marshal exercises ONE combination of the flags. From each such seed the executor synthesises
// valid encodings of the OTHER combinations: it flips one bit and, when the decoder then fails, repairs the cell the
// way the newly selected branch expects (a reference inserted or removed at any position of the cell or of one of its
// children, data bits appended or cut) until the real decoder accepts the tree again with a different consumption
// pattern. Every seed and every synthesised variant then goes through exhaustive single-position damage: a reference
// removed / replaced by a pruned branch at every position, truncation at every bit, every single-bit flip (alone and
// with each reference removed).

import (
	"fmt"
	"go/ast"
	"go/parser"
	"go/token"
	"hash/fnv"
	"math/rand"
	"os"
	"path/filepath"
	"reflect"
	"sort"
	"strconv"
	"strings"

	"github.com/tonkeeper/tongo/abi"
	"github.com/tonkeeper/tongo/boc"
	"github.com/tonkeeper/tongo/tlb"
	"verifharness/h"
)

// ---------------------------------------------------------------------------------------- the hand-written decoders

type hwDecoder struct {
	Pkg, Recv string
	Generic   bool
	File      string
	Line      int
}

// handWrittenDecoders lists every `func (x *T) UnmarshalTLB(` of tlb, abi, wallet by go/ast (generated integers.go
// and the parser templates excluded)
func handWrittenDecoders() []hwDecoder {
	var out []hwDecoder
	for _, pkg := range []string{"tlb", "abi", "wallet"} {
		fset := token.NewFileSet()
		pkgs, err := parser.ParseDir(fset, filepath.Join(repoDir(), pkg), func(fi os.FileInfo) bool {
			return !strings.HasSuffix(fi.Name(), "_test.go") && fi.Name() != "integers.go"
		}, 0)
		if err != nil {
			panic(err)
		}
		for pn, p := range pkgs {
			if pn == "main" {
				continue
			}
			for fn, f := range p.Files {
				for _, d := range f.Decls {
					fd, ok := d.(*ast.FuncDecl)
					if !ok || fd.Name.Name != "UnmarshalTLB" || fd.Recv == nil {
						continue
					}
					t := fd.Recv.List[0].Type
					if st, ok := t.(*ast.StarExpr); ok {
						t = st.X
					}
					hw := hwDecoder{Pkg: pkg, File: filepath.Base(fn), Line: fset.Position(fd.Pos()).Line}
					switch x := t.(type) {
					case *ast.Ident:
						hw.Recv = x.Name
					case *ast.IndexExpr:
						hw.Recv, hw.Generic = x.X.(*ast.Ident).Name, true
					case *ast.IndexListExpr:
						hw.Recv, hw.Generic = x.X.(*ast.Ident).Name, true
					default:
						continue
					}
					out = append(out, hw)
				}
			}
		}
	}
	sort.Slice(out, func(i, j int) bool { return out[i].Pkg+out[i].Recv < out[j].Pkg+out[j].Recv })
	return out
}

// ---------------------------------------------------------------------------------------- decoding with a signature

// decodeSig decodes the table into t and returns whether the decoder accepted it and the consumption pattern
// (bits and references left unread in every cell of the table)
func decodeSig(t reflect.Type, tab []h.Row) (ok bool, sig uint64) {
	defer func() {
		if r := recover(); r != nil {
			ok = false
		}
	}()
	cells := h.BuildCells(tab)
	v := reflect.New(t)
	if err := tlb.Unmarshal(cells[0], v.Interface()); err != nil {
		return false, 0
	}
	hs := fnv.New64a()
	for i, c := range cells {
		if i > 40 {
			break
		}
		fmt.Fprintf(hs, "%d.%d;", c.BitsAvailableForRead(), c.RefsAvailableForRead())
	}
	n := 0
	valueShape(v.Elem(), hs, 0, &n)
	return true, hs.Sum64()
}

// valueShape: what reveals the branch a decoder took — constructor names, enumeration strings, booleans, nil-ness of
// pointers and interfaces, lengths of slices — without the payload values
func valueShape(v reflect.Value, w interface{ Write([]byte) (int, error) }, depth int, n *int) {
	if depth > 8 || *n > 400 {
		return
	}
	*n++
	switch v.Kind() {
	case reflect.String:
		if v.Type().Name() != "" && v.Type().Name() != "string" && v.Len() < 40 {
			fmt.Fprintf(w, "s:%s;", v.String())
		}
	case reflect.Bool:
		fmt.Fprintf(w, "b:%v;", v.Bool())
	case reflect.Pointer, reflect.Interface:
		fmt.Fprintf(w, "p:%v;", v.IsNil())
		if !v.IsNil() {
			valueShape(v.Elem(), w, depth+1, n)
		}
	case reflect.Slice:
		if v.Type().Elem().Kind() == reflect.Uint8 {
			return
		}
		l := v.Len()
		if l > 3 {
			l = 3
		}
		fmt.Fprintf(w, "l:%d;", l)
		for i := 0; i < l; i++ {
			valueShape(v.Index(i), w, depth+1, n)
		}
	case reflect.Struct:
		if v.Type() == cellType || v.Type() == bigIntType || v.Type() == bitStringType {
			return
		}
		for i := 0; i < v.NumField(); i++ {
			valueShape(v.Field(i), w, depth+1, n)
		}
	}
}

func zeroRow(bits int) h.Row { return h.Row{BitLen: bits, Data: make([]byte, (bits+7)/8)} }

// repairs of row r of the table after a flag flip: every single edit the newly selected branch might need
func repairs(tab []h.Row, r int) [][]h.Row {
	var out [][]h.Row
	rows := []int{r}
	for _, c := range tab[r].Refs {
		rows = append(rows, c)
	}
	tails := []int{1, 2, 3, 4, 5, 6, 7, 8, 9, 10, 12, 16, 24, 32, 33, 40, 64, 65, 72, 96, 104, 128, 256, 264, 267, 288, 512}
	for _, x := range rows {
		n := len(tab[x].Refs)
		// a reference inserted at any position: a copy of one of the cell's own references, a cell of zeros, an empty cell
		if n < 4 {
			var cands []int
			cands = append(cands, tab[x].Refs...)
			for k := 0; k <= n; k++ {
				for ci := -2; ci < len(cands); ci++ {
					m := cloneRows(tab)
					var target int
					switch ci {
					case -2:
						m = append(m, zeroRow(1023))
						target = len(m) - 1
					case -1:
						m = append(m, zeroRow(0))
						target = len(m) - 1
					default:
						target = cands[ci]
						if target <= x {
							continue
						}
					}
					refs := append([]int{}, m[x].Refs[:k]...)
					refs = append(refs, target)
					refs = append(refs, m[x].Refs[k:]...)
					m[x].Refs = refs
					out = append(out, m)
				}
			}
		}
		// two references appended (a branch that reads a pair)
		if n <= 2 {
			m := cloneRows(tab)
			m = append(m, zeroRow(1023), zeroRow(1023))
			m[x].Refs = append(m[x].Refs, len(m)-2, len(m)-1)
			out = append(out, m)
		}
		for k := 0; k < n; k++ {
			m := cloneRows(tab)
			m[x].Refs = append(m[x].Refs[:k:k], m[x].Refs[k+1:]...)
			out = append(out, m)
		}
		for _, d := range tails {
			if tab[x].BitLen-d >= 0 {
				m := cloneRows(tab)
				setBitLen(&m[x], tab[x].BitLen-d)
				out = append(out, m)
			}
			if tab[x].BitLen+d <= 1023 {
				m := cloneRows(tab)
				setBitLen(&m[x], tab[x].BitLen+d)
				out = append(out, m)
			}
		}
	}
	return out
}

// synthesise: valid encodings of other flag combinations in the neighbourhood of a valid seed; budget = decodes
func synthesise(t reflect.Type, seed []h.Row, budget *int, maxVariants int) [][]h.Row {
	ok, s0 := decodeSig(t, seed)
	if !ok {
		return nil
	}
	seen := map[uint64]bool{s0: true}
	var out [][]h.Row
	for r := 0; r < len(seed) && r < 5; r++ {
		nb := seed[r].BitLen
		if nb > 700 {
			nb = 700
		}
		for p := 0; p < nb; p++ {
			if *budget <= 0 || len(out) >= maxVariants {
				return out
			}
			m := cloneRows(seed)
			m[r].Data[p/8] ^= 1 << uint(7-p%8)
			*budget--
			if ok, s := decodeSig(t, m); ok {
				if !seen[s] {
					seen[s] = true
					out = append(out, m)
				}
				continue
			}
			if seed[r].Ty != 0 {
				continue
			}
			for _, cand := range repairs(m, r) {
				if *budget <= 0 {
					break
				}
				*budget--
				if ok, s := decodeSig(t, cand); ok {
					if !seen[s] {
						seen[s] = true
						out = append(out, cand)
					}
					break
				}
			}
		}
	}
	return out
}

// ---------------------------------------------------------------------------------------- exhaustive damage of a seed

type flagRun struct {
	t       reflect.Type
	name    string
	budget  int
	rng     *rand.Rand
	fail    string
	decodes int
}

func (fr *flagRun) try(tab []h.Row) bool {
	if fr.fail != "" || fr.budget <= 0 {
		return false
	}
	fr.budget--
	fr.decodes++
	variant := fr.decodes % 2
	if r := decodeOne(fr.t, variant, tab); strings.HasPrefix(r, "FAIL") {
		fr.fail = fmt.Sprintf("%s :: replay: go.tlb.one %s %d %s", r, fr.name, variant, h.TableString(tab))
		return false
	}
	return true
}

func (fr *flagRun) damageAll(seed []h.Row) {
	rmRef := func(tab []h.Row, r, k int) []h.Row {
		m := cloneRows(tab)
		m[r].Refs = append(m[r].Refs[:k:k], m[r].Refs[k+1:]...)
		return m
	}
	// references: removed / pruned / library / duplicated at every position of the first rows
	for r := 0; r < len(seed) && r < 8; r++ {
		for k := range seed[r].Refs {
			fr.try(rmRef(seed, r, k))
			fr.try(damage(seed, 5, r, k, fr.rng))
			fr.try(damage(seed, 6, r, k, fr.rng))
			fr.try(damage(seed, 3, r, k, fr.rng))
		}
		if len(seed[r].Refs) > 0 {
			m := cloneRows(seed)
			m[r].Refs = nil
			fr.try(m)
		}
	}
	// every single-bit flip of the first rows, alone and with each reference of that row removed; truncation at every bit
	for r := 0; r < len(seed) && r < 3; r++ {
		if seed[r].Ty != 0 {
			continue
		}
		for p := 0; p < seed[r].BitLen; p++ {
			m := cloneRows(seed)
			m[r].Data[p/8] ^= 1 << uint(7-p%8)
			fr.try(m)
			for k := range m[r].Refs {
				fr.try(rmRef(m, r, k))
			}
			t := cloneRows(seed)
			setBitLen(&t[r], p)
			fr.try(t)
		}
	}
}

// go.tlb.flags <type> <budget> <table>
func goTLBFlags(a []string) string {
	t, ok := tlbByName[a[0]]
	if !ok {
		return "bad-op"
	}
	budget, _ := strconv.Atoi(a[1])
	seed := h.ParseTable(a[2])
	hs := fnv.New64a()
	hs.Write([]byte(a[2]))
	fr := &flagRun{t: t, name: a[0], budget: budget, rng: rand.New(rand.NewSource(int64(hs.Sum64())))}
	synth := budget / 3
	variants := synthesise(t, seed, &synth, 40)
	// variants of the first variants: a second flag flipped (e.g. $00 → $10 → $110)
	for i := 0; i < len(variants) && i < 6 && synth > 0; i++ {
		variants = append(variants, synthesise(t, variants[i], &synth, 4)...)
	}
	all := append([][]h.Row{seed}, variants...)
	if covSeedsOnly {
		for _, s := range all {
			covSeeds = append(covSeeds, covSeed{t, s})
		}
		return "ok " + strconv.Itoa(len(variants))
	}
	per := fr.budget / len(all)
	for _, s := range all {
		fr.budget = per
		fr.damageAll(s)
		if fr.fail != "" {
			return fr.fail
		}
	}
	return "ok " + strconv.Itoa(len(variants))
}

// go.tlb.flagsreal <type> <budget>: the same on the (up to two) smallest subtrees of the repository's real blocks that
// decode completely into the type
func goTLBFlagsReal(a []string) string {
	t, ok := tlbByName[a[0]]
	if !ok {
		return "bad-op"
	}
	cells := realCells()
	var cands [][]h.Row
	for _, c := range cells {
		if len(cands) >= 6 {
			break
		}
		if c.BitSize() == 0 && c.RefsSize() == 0 {
			continue
		}
		if !tryDecode(t, c) {
			continue
		}
		c.ResetCounters()
		limit := 250
		if rows := cellToRows(c, &limit); rows != nil {
			cands = append(cands, rows)
		}
	}
	for _, c := range cells {
		c.ResetCounters()
	}
	sort.SliceStable(cands, func(i, j int) bool { return len(cands[i]) < len(cands[j]) })
	n := 0
	for i := 0; i < len(cands) && i < 2; i++ {
		if r := goTLBFlags([]string{a[0], a[1], h.TableString(cands[i])}); !strings.HasPrefix(r, "ok") {
			return r
		}
		n++
	}
	return "ok " + strconv.Itoa(n)
}

// ---------------------------------------------------------------------------------------- generation

func (gc *genCtx) genFlags() {
	g := gc.g
	hws := handWrittenDecoders()
	g.Counters["hw_unmarshalers"] = len(hws)
	budget := g.Scale(6000, 60000)
	vg := &valGen{rng: g.Rng}
	seedsFor := func(name string, t reflect.Type) [][]h.Row {
		// encodings of random values; subtrees of the real blocks are looked for by the EXECUTOR (go.tlb.flagsreal):
		// the generator never runs a decoder on untrusted-size data (a decoder that over-allocates must fail a line,
		// not the generation)
		var out [][]h.Row
		for k := 0; k < 2; k++ {
			if rows := vg.validSeed(t, 6); rows != nil && len(rows) <= 250 {
				out = append(out, rows)
			}
		}
		return out
	}
	for _, hw := range hws {
		var targets []regType
		if hw.Generic {
			for _, r := range tlbTargets {
				if strings.HasPrefix(r.Name, hw.Pkg+"."+hw.Recv+"[") {
					targets = append(targets, r)
				}
			}
		} else if t, ok := tlbByName[hw.Pkg+"."+hw.Recv]; ok {
			targets = append(targets, regType{hw.Pkg + "." + hw.Recv, t})
		}
		label := hw.Pkg + "." + hw.Recv
		n := 0
		for _, r := range targets {
			if hw.Generic && n >= 3 {
				break
			}
			for _, s := range seedsFor(r.Name, r.T) {
				gc.pendingFlags = append(gc.pendingFlags, []string{r.Name, strconv.Itoa(budget), h.TableString(s)})
				n++
			}
			gc.pendingFlags = append(gc.pendingFlags, []string{"real", r.Name, strconv.Itoa(budget)})
		}
		if n == 0 {
			g.Count("hw_decoder_without_seed:" + label)
		} else {
			g.Counters["hw_decoder_seeds:"+label] = n
		}
	}
	// hand-built seeds for decoders that have no encoder and do not occur in the real blocks
	for _, cs := range gc.craftedSeeds() {
		gc.pendingFlags = append(gc.pendingFlags, []string{cs.Name, strconv.Itoa(budget), h.TableString(cs.Rows)})
		lbl := cs.Name
		if i := strings.Index(lbl, "["); i > 0 {
			lbl = lbl[:i]
		}
		if g.Counters["hw_decoder_without_seed:"+lbl] > 0 {
			delete(g.Counters, "hw_decoder_without_seed:"+lbl)
		}
		g.Counters["hw_decoder_seeds:"+lbl]++
	}
	// BlockInfo is reached with every flag combination crafted directly as well (see blockInfoSeeds)
	for _, s := range blockInfoSeeds(realCells()) {
		gc.pendingFlags = append(gc.pendingFlags, []string{"tlb.BlockInfo", strconv.Itoa(budget), h.TableString(s)})
		g.Count("blockinfo_crafted_flag_combinations")
	}
}

func vg0(g *h.G) *valGen { return &valGen{rng: g.Rng} }

type craftedSeed struct {
	Name string
	Rows []h.Row
}

func (gc *genCtx) craftedSeeds() []craftedSeed {
	g := gc.g
	var out []craftedSeed
	add := func(name string, c *boc.Cell) {
		limit := 200
		rows := cellToRows(c, &limit)
		t, ok := tlbByName[name]
		if rows == nil || !ok {
			return
		}
		if ok, _ := decodeSig(t, rows); ok || decodeOne(t, 2, rows) == "ok" {
			out = append(out, craftedSeed{name, rows})
		} else {
			g.Count("crafted_seed_rejected:" + name)
		}
	}
	addRows := func(name string, rows []h.Row) {
		t, ok := tlbByName[name]
		if !ok || rows == nil {
			return
		}
		if ok, _ := decodeSig(t, rows); ok || decodeOne(t, 2, rows) == "ok" {
			out = append(out, craftedSeed{name, rows})
		} else {
			g.Count("crafted_seed_rejected:" + name)
		}
	}
	cellOf := func(f func(c *boc.Cell)) *boc.Cell {
		c := boc.NewCell()
		f(c)
		return c
	}
	addrStd := func(c *boc.Cell) { // addr_std$10 anycast:(Maybe Anycast) workchain_id:int8 address:bits256
		_ = c.WriteUint(2, 2)
		_ = c.WriteBit(false)
		_ = c.WriteUint(0, 8)
		_ = c.WriteBytes(g.Bytes(32))
	}
	// DNSRecord: every constructor
	add("tlb.DNSRecord", cellOf(func(c *boc.Cell) {
		_ = c.WriteUint(0x1eda, 16)
		_ = c.WriteUint(1, 8)
		_ = c.WriteUint(3, 8)
		_ = c.WriteBytes([]byte("abc"))
	}))
	add("tlb.DNSRecord", cellOf(func(c *boc.Cell) { _ = c.WriteUint(0xba93, 16); addrStd(c) }))
	for _, fl := range []int{0, 1, 2} {
		add("tlb.DNSRecord", cellOf(func(c *boc.Cell) {
			_ = c.WriteUint(0xad01, 16)
			_ = c.WriteBytes(g.Bytes(32))
			_ = c.WriteUint(uint64(fl), 8)
			if fl > 0 {
				_ = c.WriteBit(true)
				_ = c.WriteUint(0x4854, 16)
				_ = c.WriteBit(fl == 2)
				if fl == 2 {
					_ = c.WriteUint(0x1234, 16)
					_ = c.WriteBit(false)
				}
			}
		}))
		add("tlb.DNSRecord", cellOf(func(c *boc.Cell) {
			_ = c.WriteUint(0x9fd3, 16)
			addrStd(c)
			_ = c.WriteUint(uint64(fl), 8)
			if fl > 0 {
				_ = c.WriteBit(true)
				_ = c.WriteUint([]uint64{0x5371, 0x71f4, 0x2177}[fl], 16)
				_ = c.WriteBit(false)
			}
		}))
	}
	add("tlb.DNSRecord", cellOf(func(c *boc.Cell) { _ = c.WriteUint(0x7473, 16); _ = c.WriteBytes(g.Bytes(32)) }))
	add("tlb.DNSRecord", cellOf(func(c *boc.Cell) { _ = c.WriteUint(0xbeef, 16); _ = c.WriteUint(7, 8) }))
	// CryptoSignature: ed25519_signature#5 / chained_signature#f signed_cert:^SignedCertificate temp_key_signature
	simpleSig := func(c *boc.Cell) { _ = c.WriteUint(5, 4); _ = c.WriteBytes(g.Bytes(64)) }
	add("tlb.CryptoSignature", cellOf(simpleSig))
	add("tlb.CryptoSignature", cellOf(func(c *boc.Cell) {
		_ = c.WriteUint(0xf, 4)
		_ = c.AddRef(cellOf(func(r *boc.Cell) {
			_ = r.WriteUint(4, 4) // certificate#4 temp_key:SigPubKey valid_since valid_until
			_ = r.WriteUint(0x8e81278a, 32)
			_ = r.WriteBytes(g.Bytes(32))
			_ = r.WriteUint(1, 32)
			_ = r.WriteUint(2, 32)
			simpleSig(r)
		}))
		simpleSig(c)
	}))
	// ComputeSkipReason: $00 $01 $10 $110
	for _, v := range [][2]uint64{{0, 2}, {1, 2}, {2, 2}, {6, 3}} {
		add("tlb.ComputeSkipReason", cellOf(func(c *boc.Cell) { _ = c.WriteUint(v[0], int(v[1])) }))
	}
	// NFTPayload: nothing left, fewer than 32 bits, the three known operations, an unknown operation
	add("abi.NFTPayload", boc.NewCell())
	add("abi.NFTPayload", cellOf(func(c *boc.Cell) { _ = c.WriteUint(5, 16) }))
	add("abi.NFTPayload", cellOf(func(c *boc.Cell) { _ = c.WriteUint(0, 32); _ = c.WriteBytes([]byte("hello")) }))
	add("abi.NFTPayload", cellOf(func(c *boc.Cell) { _ = c.WriteUint(0x2167da4b, 32); _ = c.WriteBytes(g.Bytes(8)) }))
	add("abi.NFTPayload", cellOf(func(c *boc.Cell) { _ = c.WriteUint(0xdeadbeef, 32); _ = c.WriteUint(1, 8) }))
	add("abi.JettonPayload", boc.NewCell())
	add("abi.JettonPayload", cellOf(func(c *boc.Cell) { _ = c.WriteUint(5, 16) }))
	add("abi.JettonPayload", cellOf(func(c *boc.Cell) { _ = c.WriteUint(0, 32); _ = c.WriteBytes([]byte("hello")) }))
	add("abi.JettonPayload", cellOf(func(c *boc.Cell) { _ = c.WriteUint(0xdeadbeef, 32); _ = c.WriteUint(1, 8) }))
	// W5Actions (abi and wallet): out_list of n actions, action_send_msg#0ec3c86d mode:(## 8) out_msg:^…
	for n := 0; n <= 3; n++ {
		list := boc.NewCell()
		for i := 0; i < n; i++ {
			next := boc.NewCell()
			_ = next.AddRef(list)
			_ = next.WriteUint(0x0ec3c86d, 32)
			_ = next.WriteUint(uint64(i), 8)
			_ = next.AddRef(vg0(g).smallCell(0))
			list = next
		}
		add("wallet.W5Actions", list)
	}
	// the abi mirrors decode the message itself (MessageRelaxed): W5Actions, WalletV1ToV4Payload
	{
		msgCell := func() *boc.Cell {
			var m abi.MessageRelaxed
			m.SumType = "MessageInternal"
			m.MessageInternal.Bounce = g.Rng.Intn(2) == 0
			m.MessageInternal.Src.SumType = "AddrNone"
			m.MessageInternal.Dest.SumType = "AddrNone"
			m.MessageInternal.CreatedLt = g.U64()
			mc := boc.NewCell()
			_ = safeMarshalTLB(mc, m)
			return mc
		}
		for n := 0; n <= 3; n++ {
			list := boc.NewCell()
			v14 := boc.NewCell()
			for i := 0; i < n; i++ {
				next := boc.NewCell()
				_ = next.AddRef(list)
				_ = next.WriteUint(0x0ec3c86d, 32)
				_ = next.WriteUint(uint64(i), 8)
				_ = next.AddRef(msgCell())
				list = next
				_ = v14.WriteUint(uint64(i), 8) // mode:uint8 message:^MessageRelaxed, repeated
				_ = v14.AddRef(msgCell())
			}
			add("abi.W5Actions", list)
			add("abi.WalletV1ToV4Payload", v14)
		}
	}
	// wallet.PayloadV1toV4 / PayloadHighload: n references with their mode bytes
	for n := 0; n <= 4; n++ {
		c := boc.NewCell()
		for i := 0; i < n; i++ {
			_ = c.WriteUint(uint64(3+i), 8)
			_ = c.AddRef(vg0(g).smallCell(0))
		}
		add("wallet.PayloadV1toV4", c)
	}
	// W5ExtendedActions (abi and wallet): add_extension#02 addr / remove_extension#03 addr / set_signature_allowed#04 bool,
	// chained through the first reference
	for n := 1; n <= 3; n++ {
		var next *boc.Cell
		for i := 0; i < n; i++ {
			c := boc.NewCell()
			switch (i + n) % 3 {
			case 0:
				_ = c.WriteUint(4, 8)
				_ = c.WriteBit(i%2 == 0)
			case 1:
				_ = c.WriteUint(2, 8)
				addrStd(c)
			default:
				_ = c.WriteUint(3, 8)
				addrStd(c)
			}
			if next != nil {
				_ = c.AddRef(next)
			}
			next = c
		}
		add("abi.W5ExtendedActions", next)
		add("wallet.W5ExtendedActions", next)
	}
	// PayloadHighload: the same layout as PayloadV1toV4 behind a dictionary? (decoded when it parses)
	// VmStack of depth 0; split ShardState with pruned halves
	add("tlb.VmStack", cellOf(func(c *boc.Cell) { _ = c.WriteUint(0, 24) }))
	for _, which := range []int{1, 2, 3} {
		rows := []h.Row{{BitLen: 32, Data: []byte{0x5f, 0x32, 0x7d, 0xa5}, Refs: []int{1, 2}}, prunedRow(g.Rng), prunedRow(g.Rng)}
		if ut, ok := tlbByName["tlb.ShardStateUnsplit"]; ok && which != 3 {
			for _, rc := range realCells() {
				if rc.BitSize() > 100 && tryDecode(ut, rc) {
					rc.ResetCounters()
					limit := 90
					if sub := cellToRows(rc, &limit); sub != nil {
						base := len(rows)
						for _, r := range sub {
							r2 := r
							r2.Refs = nil
							for _, x := range r.Refs {
								r2.Refs = append(r2.Refs, x+base)
							}
							rows = append(rows, r2)
						}
						rows[0].Refs[which-1] = base
					}
					break
				}
			}
		}
		addRows("tlb.ShardState", rows)
	}
	// JettonTransferMsgBody with a custom payload reference
	add("abi.JettonTransferMsgBody", cellOf(func(c *boc.Cell) {
		_ = c.WriteUint(g.U64(), 64)
		_ = c.WriteUint(1, 4) // VarUInteger16: one byte
		_ = c.WriteUint(9, 8)
		addrStd(c)
		_ = c.WriteUint(0, 2) // addr_none
		_ = c.WriteBit(true)  // custom_payload present
		_ = c.AddRef(vg0(g).smallCell(0))
		_ = c.WriteUint(0, 4) // forward_ton_amount = 0
		_ = c.WriteBit(false) // forward_payload inline, empty
	}))
	// SnakeData: a library cell in the chain (resolved by the decoder's library resolver)
	addRows("tlb.SnakeData", []h.Row{{BitLen: 16, Data: []byte{0xab, 0xcd}, Refs: []int{1}}, libraryRow(g.Rng)})
	// ValueFlow v2 (burned) and McBlockExtra of a key block: a real encoding rewritten
	if vt, ok := tlbByName["tlb.ValueFlow"]; ok {
		for _, rc := range realCells() {
			if rc.BitSize() > 32 && tryDecode(vt, rc) {
				rc.ResetCounters()
				limit := 60
				rows := cellToRows(rc, &limit)
				if rows == nil || rows[0].BitLen+5 > 1023 {
					continue
				}
				rows = cloneRows(rows)
				copy(rows[0].Data, []byte{0x3e, 0xbf, 0x98, 0xb7})
				setBitLen(&rows[0], rows[0].BitLen+5) // burned: Grams 0 + empty extra currencies
				addRows("tlb.ValueFlow", rows)
				break
			}
		}
	}
	if mt, ok := tlbByName["tlb.McBlockExtra"]; ok {
		for _, rc := range realCells() {
			if rc.BitSize() >= 17 && tryDecode(mt, rc) {
				rc.ResetCounters()
				limit := 250
				rows := cellToRows(rc, &limit)
				if rows == nil || rows[0].BitLen+256 > 1023 || len(rows[0].Refs) >= 4 {
					continue
				}
				rows = cloneRows(rows)
				rows[0].Data[2] |= 0x80 // key_block
				setBitLen(&rows[0], rows[0].BitLen+256)
				// config:^(Hashmap 32 ^Cell) with one entry: hml_long$10 n=32 key, value ^Cell
				w := &bitw{}
				w.u(2, 2)
				w.u(32, 6)
				w.u(7, 32)
				rows = append(rows, w.row([]int{len(rows) + 1}), zeroRow(8))
				rows[0].Refs = append(rows[0].Refs, len(rows)-2)
				addRows("tlb.McBlockExtra", rows)
				break
			}
		}
	}
	// DNSText: text$_ chunks:(## 8) rest:(TextChunks chunks); text_chunk$_ len:(## 8) data next:^…
	for n := 0; n <= 3; n++ {
		top := boc.NewCell()
		_ = top.WriteUint(uint64(n), 8)
		cur := top
		for i := 0; i < n; i++ {
			ln := 1 + g.Rng.Intn(20)
			_ = cur.WriteUint(uint64(ln), 8)
			_ = cur.WriteBytes(g.Bytes(ln))
			if i+1 < n {
				next := boc.NewCell()
				_ = cur.AddRef(next)
				cur = next
			}
		}
		add("tlb.DNSText", top)
	}
	// VmStkTuple: len:(## 16) data:(VmTuple len) (the tag byte belongs to VmStackValue)
	for n := 0; n <= 4; n++ {
		c := boc.NewCell()
		_ = c.WriteUint(uint64(n), 16)
		tupleBody(c, n, tinyIntCell)
		add("tlb.VmStkTuple", c)
	}
	// VmCellSlice: cell:^Cell st_bits end_bits st_ref end_ref
	{
		target := boc.NewCell()
		_ = target.WriteUint(0xabcdef, 24)
		_ = target.AddRef(boc.NewCell())
		c := boc.NewCell()
		_ = c.AddRef(target)
		_ = c.WriteUint(3, 10)
		_ = c.WriteUint(20, 10)
		_ = c.WriteUint(0, 3)
		_ = c.WriteUint(1, 3)
		add("tlb.VmCellSlice", c)
	}
	// ChunkedData: chunked_data#_ data:(HashMapE 32 ^(SnakeData ~0))
	for n := 0; n <= 3; n++ {
		var ks []tlb.Uint32
		var vs []tlb.Ref[tlb.SnakeData]
		for i := 0; i < n; i++ {
			bs := boc.NewBitString(64)
			_ = bs.WriteUint(g.U64(), 64)
			ks = append(ks, tlb.Uint32(i))
			vs = append(vs, tlb.Ref[tlb.SnakeData]{Value: tlb.SnakeData(bs)})
		}
		c := boc.NewCell()
		if safeMarshalTLB(c, struct {
			Data tlb.HashmapE[tlb.Uint32, tlb.Ref[tlb.SnakeData]]
		}{tlb.NewHashmapE(ks, vs)}) == nil {
			add("tlb.ChunkedData", c)
		}
	}
	// ShardState: split_state#5f327da5 left:^ShardStateUnsplit right:^ShardStateUnsplit (the real blocks hold unsplit states)
	if ut, ok := tlbByName["tlb.ShardStateUnsplit"]; ok {
		for _, rc := range realCells() {
			if rc.BitSize() > 100 && tryDecode(ut, rc) {
				rc.ResetCounters()
				limit := 90
				if cellToRows(rc, &limit) == nil {
					continue
				}
				c := boc.NewCell()
				_ = c.WriteUint(0x5f327da5, 32)
				_ = c.AddRef(rc)
				_ = c.AddRef(rc)
				add("tlb.ShardState", c)
				break
			}
		}
	}
	// abi mirrors of wallet payload types (no encoder on the abi side): the wallet encodings; ExtOutMsgBody: any body
	for _, pair := range [][2]string{{"abi.W5Actions", "wallet.W5Actions"}, {"abi.W5ExtendedActions", "wallet.W5ExtendedActions"},
		{"abi.WalletV1ToV4Payload", "wallet.PayloadV1toV4"}} {
		src, ok := tlbByName[pair[1]]
		if !ok {
			continue
		}
		for k := 0; k < 3; k++ {
			if rows := (&valGen{rng: g.Rng}).validSeed(src, 6); rows != nil {
				add(pair[0], h.BuildCells(rows)[0])
			}
		}
	}
	{
		c := boc.NewCell()
		_ = c.WriteUint(g.U64(), 64)
		add("abi.ExtOutMsgBody", c)
		add("abi.ExtOutMsgBody", boc.NewCell())
	}
	// BinTree[ShardDesc]: bt_leaf$0 leaf:X / bt_fork$1 left:^ right:^
	vg := &valGen{rng: g.Rng}
	var bt func(depth int) *boc.Cell
	bt = func(depth int) *boc.Cell {
		c := boc.NewCell()
		if depth == 0 {
			_ = c.WriteBit(false)
			var sd tlb.ShardDesc
			vg.fill(reflect.ValueOf(&sd).Elem(), 0)
			if safeMarshalTLB(c, sd) != nil {
				return nil
			}
			return c
		}
		_ = c.WriteBit(true)
		l, r := bt(depth-1), bt(g.Rng.Intn(depth))
		if l == nil || r == nil {
			return nil
		}
		_ = c.AddRef(l)
		_ = c.AddRef(r)
		return c
	}
	for d := 0; d <= 2; d++ {
		if c := bt(d); c != nil {
			add("tlb.BinTree[github.com/tonkeeper/tongo/tlb.ShardDesc]", c)
		}
	}
	return out
}

// blockInfoSeeds: a real block_info with every combination of flags&1 / not_master / after_merge / vert_seqno_incr,
// the references each branch expects appended or removed by hand:
//
//	block_info#9bc7a987 version:uint32 not_master:(## 1) after_merge:(## 1) before_split:(## 1) after_split:(## 1)
//	  want_split:Bool want_merge:Bool key_block:Bool vert_seqno_incr:(## 1) flags:(## 8) … gen_software:flags.0?GlobalVersion
//	  master_ref:not_master?^BlkMasterInfo prev_ref:^(BlkPrevInfo after_merge) prev_vert_ref:vert_seqno_incr?^(BlkPrevInfo 0)
func blockInfoSeeds(cells []*boc.Cell) [][]h.Row {
	t := tlbByName["tlb.BlockInfo"]
	var base []h.Row
	for _, c := range cells {
		if tryDecode(t, c) {
			c.ResetCounters()
			limit := 20
			base = cellToRows(c, &limit)
			if base != nil {
				break
			}
		}
	}
	if base == nil {
		return nil
	}
	get := func(r h.Row, p int) bool { return r.Data[p/8]>>uint(7-p%8)&1 == 1 }
	set := func(r *h.Row, p int, v bool) {
		if v {
			r.Data[p/8] |= 1 << uint(7-p%8)
		} else {
			r.Data[p/8] &^= 1 << uint(7-p%8)
		}
	}
	const bNotMaster, bAfterMerge, bVert, bFlags0 = 64, 65, 71, 79
	hasSoft := get(base[0], bFlags0)
	notMaster := get(base[0], bNotMaster)
	// the pieces: fixed part without gen_software, the gen_software bits, a master_ref cell, ext_blk_ref cells
	fixedLen := base[0].BitLen
	soft := []bool{true, true, false, false, false, true, false, false} // capabilities#c4
	for i := 0; i < 96; i++ {
		soft = append(soft, i%5 == 0)
	}
	if hasSoft {
		fixedLen -= 104
	}
	ext := zeroRow(608) // ext_blk_ref: end_lt seq_no root_hash file_hash
	var out [][]h.Row
	for combo := 0; combo < 16; combo++ {
		wantSoft, wantNM, wantMerge, wantVert := combo&1 != 0, combo&2 != 0, combo&4 != 0, combo&8 != 0
		root := cloneRows(base[:1])[0]
		root.Refs = nil
		setBitLen(&root, fixedLen)
		set(&root, bFlags0, wantSoft)
		set(&root, bNotMaster, wantNM)
		set(&root, bAfterMerge, wantMerge)
		set(&root, bVert, wantVert)
		if wantSoft {
			n := root.BitLen
			setBitLen(&root, n+104)
			for i, b := range soft {
				set(&root, n+i, b)
			}
		}
		tab := []h.Row{root}
		add := func(r h.Row, kids ...h.Row) {
			tab = append(tab, r)
			id := len(tab) - 1
			tab[0].Refs = append(tab[0].Refs, id)
			for _, k := range kids {
				tab = append(tab, k)
				tab[id].Refs = append(tab[id].Refs, len(tab)-1)
			}
		}
		if wantNM {
			add(ext) // master_info$_ master:ExtBlkRef
		}
		if wantMerge {
			add(zeroRow(0), ext, ext) // prev_blks_info$_ prev1:^ExtBlkRef prev2:^ExtBlkRef
		} else {
			add(ext)
		}
		if wantVert {
			add(ext)
		}
		_ = notMaster
		if ok, _ := decodeSig(t, tab); ok {
			out = append(out, tab)
		}
	}
	return out
}

// ---------------------------------------------------------------------------------------- coverage report support

type covSeed struct {
	t   reflect.Type
	tab []h.Row
}

var covSeedsOnly = os.Getenv("C08_COV_SEEDS") != ""
var covSeeds []covSeed

// go.tlb.covseeds (coverage report only, binary built with -cover -covermode=atomic, C08_COV_SEEDS=1): clears the
// coverage counters, decodes every seed and synthesised variant collected by the preceding go.tlb.flags lines and
// writes the counters to $C08_COV_OUT
func goTLBCovSeeds(a []string) string {
	if err := coverageClear(); err != nil {
		return "FAIL " + err.Error()
	}
	n := 0
	for _, s := range covSeeds {
		if ok, _ := decodeSig(s.t, s.tab); ok {
			n++
		}
		_ = decodeOne(s.t, 1, s.tab) // the decoder with a hasher
		_ = decodeOne(s.t, 2, s.tab) // … and with a library resolver
	}
	if err := coverageWrite(os.Getenv("C08_COV_OUT")); err != nil {
		return "FAIL " + err.Error()
	}
	return "ok " + strconv.Itoa(n)
}

// emitPendingFlag writes one queued go.tlb.flags line (they are spread over the run: each is worth thousands of decodes
// and the orchestrator cuts the op file into contiguous chunks per worker)
func (gc *genCtx) emitPendingFlag() {
	if len(gc.pendingFlags) == 0 {
		return
	}
	a := gc.pendingFlags[0]
	gc.pendingFlags = gc.pendingFlags[1:]
	if a[0] == "real" {
		gc.g.Emit("go.tlb.flagsreal", a[1:]...)
		b, _ := strconv.Atoi(a[2])
		gc.g.N += b - 1
		return
	}
	gc.g.Emit("go.tlb.flags", a...)
	b, _ := strconv.Atoi(a[1])
	gc.g.N += b - 1
}
