//go:build c17

package main

import (
	"bytes"
	"encoding/base32"
	"encoding/base64"
	"encoding/binary"
	"encoding/hex"
	"encoding/json"
	"fmt"
	"strconv"
	"strings"

	"github.com/snksoft/crc"
	"github.com/tonkeeper/tongo"
	"github.com/tonkeeper/tongo/boc"
	"github.com/tonkeeper/tongo/liteclient"
	"github.com/tonkeeper/tongo/tlb"
	"github.com/tonkeeper/tongo/ton"
	"github.com/tonkeeper/tongo/utils"
	"verifharness/h"
)

// Address forms of C17. Strings travel hex-encoded. Every executor goes through the public API of ton / liteclient.

var addrExec = map[string]h.ExecFn{
	"addr.raw":       func(a []string) string { return "ok " + h.Hex([]byte(acctArg(a[0], a[1]).ToRaw())) },
	"addr.from_raw":  func(a []string) string { return outAcct(ton.AccountIDFromRaw(strArg(a[0]))) },
	"addr.human":     func(a []string) string { return "ok " + h.Hex([]byte(acctArg(a[0], a[1]).ToHuman(a[2] == "1", a[3] == "1"))) },
	"addr.from_b64":  func(a []string) string { return outAcct(ton.AccountIDFromBase64Url(strArg(a[0]))) },
	"addr.parse":     func(a []string) string { return outAcct(ton.ParseAccountID(strArg(a[0]))) },
	"addr.json":      exAddrJSON,
	"addr.from_json": exAddrFromJSON,
	"addr.tl":        exAddrTL,
	"addr.from_tl":   exAddrFromTL,
	"addr.tlb":       exAddrTlb,
	"addr.from_tlb":  exAddrFromTlb,
	"addr.anycast":   exAddrAnycast,
	"shard.match_acct": exShardMatchAcct,
	"addr.tlb_parse": exAddrTlbParse,
	"addr.tlb_bits":  exAddrTlbBits,
	"addr.subst":     exAddrSubst,
	"adnl.to32":      exAdnlTo32,
	"adnl.parse":     exAdnlParse,
	"prim.crc16x":    func(a []string) string { return fmt.Sprint(utils.Crc16(h.MustUnHex(a[0]))) },
	"prim.b64enc":    exB64Enc,
	"prim.b64dec":    exB64Dec,
	"prim.b32enc":    func(a []string) string { return "ok " + h.Hex([]byte(base32.StdEncoding.EncodeToString(h.MustUnHex(a[0])))) },
	"prim.b32dec": func(a []string) string {
		b, err := base32.StdEncoding.DecodeString(strArg(a[0]))
		if err != nil {
			return "err"
		}
		return "ok " + h.Hex(b)
	},
	"addr.root_parse":   exRootParse,
	"go.addr.flags":     goAddrFlags,
	"go.addr.roundtrip": goAddrRoundtrip,
	"go.addr.subst":     goAddrSubst,
	"go.addr.anycast":   goAddrAnycast,
	"go.adnl.roundtrip": goAdnlRoundtrip,
	"go.crc":            goCrc,
}

func strArg(s string) string { return string(h.MustUnHex(s)) }

func acctArg(w, a string) ton.AccountID {
	wc, err := strconv.ParseInt(w, 10, 32)
	if err != nil {
		panic("bad workchain arg " + w)
	}
	b := h.MustUnHex(a)
	if len(b) != 32 {
		panic("bad address arg")
	}
	var id ton.AccountID
	id.Workchain = int32(wc)
	copy(id.Address[:], b)
	return id
}

func outAcct(id ton.AccountID, err error) string {
	if err != nil {
		return "err"
	}
	return fmt.Sprintf("ok %d %s", id.Workchain, hex.EncodeToString(id.Address[:]))
}

func exAddrJSON(a []string) string {
	b, err := json.Marshal(acctArg(a[0], a[1]))
	if err != nil {
		return "err"
	}
	return "ok " + h.Hex(b)
}

func exAddrFromJSON(a []string) string {
	var id ton.AccountID
	err := json.Unmarshal(h.MustUnHex(a[0]), &id)
	return outAcct(id, err)
}

func exAddrTL(a []string) string {
	b, err := acctArg(a[0], a[1]).MarshalTL()
	if err != nil {
		return "err"
	}
	return "ok " + h.Hex(b)
}

func exAddrFromTL(a []string) string {
	var id ton.AccountID
	err := id.UnmarshalTL(bytes.NewReader(h.MustUnHex(a[0])))
	return outAcct(id, err)
}

func cellBits(c *boc.Cell) string {
	c.ResetCounters()
	var sb strings.Builder
	for c.BitsAvailableForRead() > 0 {
		b, err := c.ReadBit()
		if err != nil {
			panic(err)
		}
		if b {
			sb.WriteByte('1')
		} else {
			sb.WriteByte('0')
		}
	}
	if sb.Len() == 0 {
		return "-"
	}
	return sb.String()
}

func cellFromBits(s string) *boc.Cell {
	c := boc.NewCell()
	if s == "-" {
		return c
	}
	for _, ch := range s {
		if err := c.WriteBit(ch == '1'); err != nil {
			panic(err)
		}
	}
	return c
}

func exAddrTlb(a []string) string {
	id := acctArg(a[0], a[1])
	c := boc.NewCell()
	if err := tlb.Marshal(c, id.ToMsgAddress()); err != nil {
		return "err"
	}
	return "ok " + cellBits(c)
}

func outAcctPtr(id *ton.AccountID, err error) string {
	if err != nil {
		return "err"
	}
	if id == nil {
		return "ok nil"
	}
	return outAcct(*id, nil)
}

func exAddrFromTlb(a []string) string {
	c := cellFromBits(a[0])
	var m tlb.MsgAddress
	if err := tlb.Unmarshal(c, &m); err != nil {
		return "err"
	}
	return outAcctPtr(ton.AccountIDFromTlb(m))
}

func bitStringBits(b *boc.BitString) string {
	b.ResetCounter()
	var sb strings.Builder
	for b.BitsAvailableForRead() > 0 {
		x, err := b.ReadBit()
		if err != nil {
			panic(err)
		}
		if x {
			sb.WriteByte('1')
		} else {
			sb.WriteByte('0')
		}
	}
	if sb.Len() == 0 {
		return "-"
	}
	return sb.String()
}

// exShardMatchAcct: ShardID.MatchAccountID on a full 32-byte account address
func exShardMatchAcct(a []string) string {
	s, err := ton.ParseShardID(int64(u64(a[0])))
	if err != nil {
		return "err"
	}
	if s.MatchAccountID(acctArg("0", a[1])) {
		return "ok 1"
	}
	return "ok 0"
}

func anycastStr(m tlb.Maybe[tlb.Anycast]) string {
	if !m.Exists {
		return "-"
	}
	return fmt.Sprintf("%d/%d", m.Value.Depth, m.Value.RewritePfx)
}

// exAddrTlbParse: MsgAddress.UnmarshalTLB on the given cell bits, all four constructors, canonical text
func exAddrTlbParse(a []string) string {
	c := cellFromBits(a[0])
	var m tlb.MsgAddress
	if err := tlb.Unmarshal(c, &m); err != nil {
		return "err"
	}
	switch m.SumType {
	case "AddrNone":
		return "ok none"
	case "AddrExtern":
		return "ok extern " + bitStringBits(m.AddrExtern)
	case "AddrStd":
		return fmt.Sprintf("ok std %s %d %s", anycastStr(m.AddrStd.Anycast), m.AddrStd.WorkchainId, hex.EncodeToString(m.AddrStd.Address[:]))
	case "AddrVar":
		return fmt.Sprintf("ok var %s %d %d %s", anycastStr(m.AddrVar.Anycast), m.AddrVar.AddrLen, m.AddrVar.WorkchainId, bitStringBits(&m.AddrVar.Address))
	}
	return "FAIL sumtype " + string(m.SumType)
}

// exAddrTlbBits: unmarshal, marshal again: the bits MsgAddress.MarshalTLB writes for the parsed value
func exAddrTlbBits(a []string) string {
	c := cellFromBits(a[0])
	var m tlb.MsgAddress
	if err := tlb.Unmarshal(c, &m); err != nil {
		return "err"
	}
	out := boc.NewCell()
	if err := tlb.Marshal(out, m); err != nil {
		return "err"
	}
	return "ok " + cellBits(out)
}

func anycastAddr(w, a, d, p string) tlb.MsgAddress {
	id := acctArg(w, a)
	m := id.ToMsgAddress()
	m.AddrStd.Anycast.Exists = true
	m.AddrStd.Anycast.Value.Depth = uint32(u64(d))
	m.AddrStd.Anycast.Value.RewritePfx = uint32(u64(p))
	return m
}

func exAddrAnycast(a []string) string {
	return outAcctPtr(ton.AccountIDFromTlb(anycastAddr(a[0], a[1], a[2], a[3])))
}

const b64url = "ABCDEFGHIJKLMNOPQRSTUVWXYZabcdefghijklmnopqrstuvwxyz0123456789-_"

func b64val(c byte) int {
	switch c {
	case '+':
		return 62
	case '/':
		return 63
	}
	return strings.IndexByte(b64url, c)
}

// substitutions: all 48 x 63 strings that differ from s in one position by a digit of a different value
func substitutions(s string, f func(t string)) {
	b := []byte(s)
	for i := 0; i < len(b); i++ {
		old := b[i]
		cur := b64val(old)
		for v := 0; v < 64; v++ {
			if v == cur {
				continue
			}
			b[i] = b64url[v]
			f(string(b))
		}
		b[i] = old
	}
}

func exAddrSubst(a []string) string {
	s := strArg(a[0])
	if len(s) != 48 {
		return "bad-op"
	}
	n := 0
	substitutions(s, func(t string) {
		if _, err := ton.AccountIDFromBase64Url(t); err == nil {
			n++
		}
	})
	return fmt.Sprintf("ok %d", n)
}

func goAddrSubst(a []string) string {
	s := strArg(a[0])
	if _, err := ton.ParseAccountID(s); err != nil {
		return "FAIL valid-rejected " + s
	}
	bad := ""
	substitutions(s, func(t string) {
		if bad != "" {
			return
		}
		if _, err := ton.AccountIDFromBase64Url(t); err == nil {
			bad = t
		} else if _, err := ton.ParseAccountID(t); err == nil {
			bad = t
		}
	})
	if bad != "" {
		return "FAIL corrupted-accepted " + bad + " (from " + s + ")"
	}
	return "ok"
}

// exRootParse: the root package parser tongo.ParseAddress (account.go) on strings that cannot reach the DNS resolver
// (no "." in them): `ok wc addr bounce` | `err`; MustParseAddress must agree (panic exactly on error).
func exRootParse(a []string) string {
	s := strArg(a[0])
	if strings.Contains(s, ".") {
		return "bad-op"
	}
	ad, err := tongo.ParseAddress(s)
	var mustPanicked bool
	var ad2 ton.Address
	func() {
		defer func() {
			if recover() != nil {
				mustPanicked = true
			}
		}()
		ad2 = tongo.MustParseAddress(s)
	}()
	if mustPanicked != (err != nil) {
		return "FAIL must-parse-disagrees"
	}
	if err != nil {
		return "err"
	}
	if ad2.ID != ad.ID || ad2.Bounce != ad.Bounce || ad.StateInit != nil {
		return "FAIL must-parse-disagrees"
	}
	b := 0
	if ad.Bounce {
		b = 1
	}
	return fmt.Sprintf("ok %d %s %d", ad.ID.Workchain, hex.EncodeToString(ad.ID.Address[:]), b)
}

// goAddrFlags: the flags are part of what the friendly form means: through the root-package API the bounce flag
// survives print -> parse for every flag combination and both alphabets (the testnet flag has no field in ton.Address);
// the raw form parses as bounceable; the re-exported names are the ton functions.
func goAddrFlags(a []string) string {
	id := acctArg(a[0], a[1])
	if id.Workchain < -128 || id.Workchain > 127 {
		return "ok"
	}
	for _, bounce := range []bool{false, true} {
		for _, testnet := range []bool{false, true} {
			s := id.ToHuman(bounce, testnet)
			for _, str := range []string{s, toStdAlphabet(s)} {
				ad, err := tongo.ParseAddress(str)
				if err != nil || ad.ID != id {
					return "FAIL root-parse-id " + str
				}
				if ad.Bounce != bounce {
					return fmt.Sprintf("FAIL bounce-flag-lost %s printed-bounce=%v parsed-bounce=%v testnet=%v", str, bounce, ad.Bounce, testnet)
				}
				m := tongo.MustParseAddress(str)
				if m.ID != id || m.Bounce != bounce {
					return "FAIL must-parse " + str
				}
				if x, err := tongo.ParseAccountID(str); err != nil || x != id || tongo.MustParseAccountID(str) != id {
					return "FAIL reexport-parse " + str
				}
			}
		}
	}
	ad, err := tongo.ParseAddress(id.ToRaw())
	if err != nil || ad.ID != id || !ad.Bounce {
		return "FAIL root-parse-raw " + id.ToRaw()
	}
	if n := tongo.NewAccountId(id.Workchain, id.Address); n == nil || *n != id {
		return "FAIL reexport-new"
	}
	m := id.ToMsgAddress()
	if x, err := tongo.AccountIDFromTlb(m); err != nil || x == nil || *x != id {
		return "FAIL reexport-fromtlb"
	}
	return "ok"
}

func toStdAlphabet(s string) string {
	return strings.NewReplacer("-", "+", "_", "/").Replace(s)
}

// goAddrRoundtrip: every form and back, on the implementation alone.
func goAddrRoundtrip(a []string) string {
	id := acctArg(a[0], a[1])
	// raw
	r, err := ton.AccountIDFromRaw(id.ToRaw())
	if err != nil || r != id {
		return "FAIL raw " + id.ToRaw()
	}
	if r, err = ton.ParseAccountID(id.ToRaw()); err != nil || r != id {
		return "FAIL parse-raw " + id.ToRaw()
	}
	if id.String() != id.ToRaw() {
		return "FAIL string"
	}
	// zero-fill: a raw string whose hex part lacks leading zeros denotes the same id
	ah := hex.EncodeToString(id.Address[:])
	lz := len(ah) - len(strings.TrimLeft(ah, "0"))
	for _, j := range []int{1, lz / 2, lz} {
		if j >= 1 && j <= lz {
			sh := fmt.Sprintf("%d:%s", id.Workchain, ah[j:])
			if r, err := ton.ParseAccountID(sh); err != nil || r != id {
				return "FAIL short-hex " + sh
			}
		}
	}
	// the root package parser (account.go): raw and friendly forms are decided locally, no resolver involved
	if ad, err := tongo.ParseAddress(id.ToRaw()); err != nil || ad.ID != id {
		return "FAIL root-parse-raw " + id.ToRaw()
	}
	// json
	j, err := json.Marshal(id)
	if err != nil {
		return "FAIL json-marshal"
	}
	var r2 ton.AccountID
	if err := json.Unmarshal(j, &r2); err != nil || r2 != id {
		return "FAIL json " + string(j)
	}
	// tl
	t, err := id.MarshalTL()
	if err != nil || len(t) != 36 {
		return "FAIL tl-marshal"
	}
	var r3 ton.AccountID
	if err := r3.UnmarshalTL(bytes.NewReader(t)); err != nil || r3 != id {
		return "FAIL tl " + hex.EncodeToString(t)
	}
	if id.Workchain >= -128 && id.Workchain <= 127 {
		// friendly form: all flag combinations, both alphabets, also through ParseAccountID
		for _, bounce := range []bool{false, true} {
			for _, testnet := range []bool{false, true} {
				s := id.ToHuman(bounce, testnet)
				if len(s) != 48 {
					return "FAIL human-length " + s
				}
				raw, err := base64.URLEncoding.DecodeString(s)
				if err != nil || len(raw) != 36 {
					return "FAIL human-not-base64url " + s
				}
				wantTag := byte(0x11)
				if testnet {
					wantTag |= 0x80
				}
				if !bounce {
					wantTag |= 0x40
				}
				if raw[0] != wantTag {
					return fmt.Sprintf("FAIL human-tag %s bounce=%v testnet=%v tag=%#x", s, bounce, testnet, raw[0])
				}
				if raw[1] != byte(int8(id.Workchain)) || !bytes.Equal(raw[2:34], id.Address[:]) {
					return "FAIL human-layout " + s
				}
				if uint64(binary.BigEndian.Uint16(raw[34:])) != crc.CalculateCRC(crc.XMODEM, raw[:34]) {
					return "FAIL human-crc " + s
				}
				for _, str := range []string{s, toStdAlphabet(s)} {
					r, err := ton.AccountIDFromBase64Url(str)
					if err != nil || r != id {
						return fmt.Sprintf("FAIL human %s bounce=%v testnet=%v", str, bounce, testnet)
					}
					if r, err = ton.ParseAccountID(str); err != nil || r != id {
						return "FAIL parse-human " + str
					}
					if ad, err := tongo.ParseAddress(str); err != nil || ad.ID != id {
						return "FAIL root-parse-human " + str
					}
					var r4 ton.AccountID
					q, _ := json.Marshal(str)
					if err := json.Unmarshal(q, &r4); err != nil || r4 != id {
						return "FAIL json-human " + str
					}
				}
			}
		}
		// TL-B through a cell
		c := boc.NewCell()
		if err := tlb.Marshal(c, id.ToMsgAddress()); err != nil {
			return "FAIL tlb-marshal"
		}
		if c.BitSize() != 267 {
			return fmt.Sprintf("FAIL tlb-size %d", c.BitSize())
		}
		c.ResetCounters()
		var m tlb.MsgAddress
		if err := tlb.Unmarshal(c, &m); err != nil {
			return "FAIL tlb-unmarshal"
		}
		back, err := ton.AccountIDFromTlb(m)
		if err != nil || back == nil || *back != id {
			return "FAIL tlb"
		}
	} else {
		// outside int8 the TL-B / friendly workchain is the sign-extended low byte (stated, not a round trip)
		m := id.ToMsgAddress()
		back, err := ton.AccountIDFromTlb(m)
		if err != nil || back == nil || back.Workchain != int32(int8(id.Workchain)) || back.Address != id.Address {
			return "FAIL tlb-truncation"
		}
	}
	var nilID *ton.AccountID
	if m := nilID.ToMsgAddress(); m.SumType != "AddrNone" {
		return "FAIL nil-to-msgaddress"
	}
	return "ok"
}

// goAddrAnycast: the rewritten address has the top `depth` bits of its first 4 bytes replaced by rewrite_pfx.
func goAddrAnycast(a []string) string {
	d, p := u64(a[2]), u64(a[3])
	if d < 1 || d > 30 || p >= 1<<d {
		return "ok"
	}
	id := acctArg(a[0], a[1])
	back, err := ton.AccountIDFromTlb(anycastAddr(a[0], a[1], a[2], a[3]))
	if err != nil || back == nil {
		return "FAIL anycast-error"
	}
	old := binary.BigEndian.Uint32(id.Address[:4])
	got := binary.BigEndian.Uint32(back.Address[:4])
	want := uint32(p)<<(32-d) | old&(uint32(1)<<(32-d)-1)
	if got != want || !bytes.Equal(back.Address[4:], id.Address[4:]) || back.Workchain != int32(int8(id.Workchain)) {
		return fmt.Sprintf("FAIL anycast got=%08x want=%08x", got, want)
	}
	return "ok"
}

func exAdnlTo32(a []string) string {
	var b ton.Bits256
	x := h.MustUnHex(a[0])
	if len(x) != 32 {
		return "bad-op"
	}
	copy(b[:], x)
	return "ok " + h.Hex([]byte(liteclient.ADNLAddressToBase32(b)))
}

func exAdnlParse(a []string) string {
	b, err := liteclient.ParseADNLAddress(strArg(a[0]))
	if err != nil {
		return "err"
	}
	return "ok " + hex.EncodeToString(b[:])
}

func goAdnlRoundtrip(a []string) string {
	var b ton.Bits256
	copy(b[:], h.MustUnHex(a[0]))
	s := liteclient.ADNLAddressToBase32(b)
	if len(s) != 55 || strings.ToLower(s) != s {
		return "FAIL adnl-form " + s
	}
	for _, str := range []string{s, s + ".adnl", strings.ToUpper(s)} {
		r, err := liteclient.ParseADNLAddress(str)
		if err != nil || r != b {
			return "FAIL adnl-roundtrip " + str
		}
	}
	// a single changed character is rejected (one position per case, chosen by the address)
	i := int(b[0]) % 55
	alphabet := "abcdefghijklmnopqrstuvwxyz234567"
	for k := 0; k < 32; k++ {
		if alphabet[k] == s[i] {
			continue
		}
		t := s[:i] + string(alphabet[k]) + s[i+1:]
		if _, err := liteclient.ParseADNLAddress(t); err == nil {
			return "FAIL adnl-corrupted-accepted " + t
		}
	}
	return "ok"
}

func goCrc(a []string) string {
	b := h.MustUnHex(a[0])
	x, y, z := utils.Crc16(b), crc.CalculateCRC(crc.XMODEM, b), utils.Crc16String(string(b))
	if uint64(x) != y || x != z {
		return fmt.Sprintf("FAIL crc-disagree utils=%d snksoft=%d string=%d", x, y, z)
	}
	return "ok"
}

func exB64Enc(a []string) string {
	enc := base64.StdEncoding
	if a[0] == "1" {
		enc = base64.URLEncoding
	}
	return "ok " + h.Hex([]byte(enc.EncodeToString(h.MustUnHex(a[1]))))
}

func exB64Dec(a []string) string {
	enc := base64.StdEncoding
	if a[0] == "1" {
		enc = base64.URLEncoding
	}
	b, err := enc.DecodeString(strArg(a[1]))
	if err != nil {
		return "err"
	}
	return "ok " + h.Hex(b)
}

// ------------------------------------------------------------------------------------------------------ generator

func genAcct(g *h.G, friendly bool) (int32, [32]byte) {
	var wc int32
	switch g.Rng.Intn(6) {
	case 0:
		wc = int32(g.Pick(0, -1, 1, 127, -128, 126, -127))
	case 1, 2:
		wc = int32(g.Rng.Intn(256) - 128)
	case 3:
		wc = int32(g.Pick(128, -129, 255, 256, -256, 2147483647, -2147483648, 2147483646, -2147483647, 1<<16, -(1 << 16), 1<<24, 1000000000, -1000000000, 999999999))
	default:
		wc = int32(g.Rng.Uint32())
	}
	if friendly && (wc < -128 || wc > 127) {
		wc = int32(int8(wc))
	}
	var a [32]byte
	switch g.Rng.Intn(8) {
	case 0: // zero
	case 1:
		for i := range a {
			a[i] = 0xff
		}
	case 2: // leading zero bytes
		g.Rng.Read(a[:])
		for i := 0; i < 1+g.Rng.Intn(31); i++ {
			a[i] = 0
		}
	case 3: // leading zero nibble
		g.Rng.Read(a[:])
		a[0] &= 0x0f
	default:
		g.Rng.Read(a[:])
	}
	return wc, a
}

func hs(s string) string { return h.Hex([]byte(s)) }

func emitRootParse(g *h.G, s string) {
	if !strings.Contains(s, ".") {
		g.Emit("addr.root_parse", hs(s))
	}
}

func mutateString(g *h.G, s string) string {
	b := []byte(s)
	switch g.Rng.Intn(12) {
	case 0: // drop a character
		if len(b) > 0 {
			i := g.Rng.Intn(len(b))
			b = append(b[:i:i], b[i+1:]...)
		}
	case 1: // duplicate a character
		if len(b) > 0 {
			i := g.Rng.Intn(len(b))
			b = append(b[:i+1:i+1], b[i:]...)
		}
	case 2: // random ASCII character somewhere
		if len(b) > 0 {
			b[g.Rng.Intn(len(b))] = byte(32 + g.Rng.Intn(95))
		}
	case 3: // a byte >= 0x80
		if len(b) > 0 {
			b[g.Rng.Intn(len(b))] = byte(0x80 + g.Rng.Intn(128))
		}
	case 4: // newline inserted
		i := g.Rng.Intn(len(b) + 1)
		b = append(b[:i:i], append([]byte{byte(g.Pick('\n', '\r'))}, b[i:]...)...)
	case 5: // padding appended / replaced
		if g.Rng.Intn(2) == 0 {
			b = append(b, '=')
		} else if len(b) > 0 {
			b[len(b)-1] = '='
			if g.Rng.Intn(2) == 0 && len(b) > 1 {
				b[len(b)-2] = '='
			}
		}
	case 6: // truncate
		if len(b) > 0 {
			b = b[:g.Rng.Intn(len(b))]
		}
	case 7: // extend with valid-looking characters
		for i := 0; i < 1+g.Rng.Intn(5); i++ {
			b = append(b, "Aa0-_+/f:="[g.Rng.Intn(10)])
		}
	case 8: // case change
		b = []byte(strings.ToUpper(string(b)))
	case 9: // swap alphabets
		b = []byte(toStdAlphabet(string(b)))
	case 10: // space
		i := g.Rng.Intn(len(b) + 1)
		b = append(b[:i:i], append([]byte{' '}, b[i:]...)...)
	case 11: // flip one bit of one character
		if len(b) > 0 {
			b[g.Rng.Intn(len(b))] ^= 1 << uint(g.Rng.Intn(7))
		}
	}
	return string(b)
}

func genC17Addr(g *h.G) {
	// primitives: CRC (three implementations), base64 / base32 against encoding/*
	for _, n := range []int{0, 1, 2, 3, 33, 34, 35, 36, 100, 255, 256, 1000} {
		b := g.Bytes(n)
		g.Emit("prim.crc16x", h.Hex(b))
		g.Emit("go.crc", h.Hex(b))
	}
	np := g.Scale(300, 3000)
	for i := 0; i < np; i++ {
		b := g.Bytes(g.Rng.Intn(80))
		if g.Rng.Intn(4) == 0 {
			b = g.Bytes(g.Pick(0, 1, 2, 3, 4, 5, 6, 35, 36))
		}
		u := fmt.Sprint(g.Rng.Intn(2))
		g.Emit("prim.b64enc", u, h.Hex(b))
		g.Emit("prim.b32enc", h.Hex(b))
		g.Emit("prim.crc16x", h.Hex(b))
		g.Emit("go.crc", h.Hex(b))
		var s string
		if u == "1" {
			s = base64.URLEncoding.EncodeToString(b)
		} else {
			s = base64.StdEncoding.EncodeToString(b)
		}
		for k := 0; k < 3; k++ {
			g.Emit("prim.b64dec", u, hs(s))
			s = mutateString(g, s)
		}
		s = base32.StdEncoding.EncodeToString(b)
		for k := 0; k < 3; k++ {
			g.Emit("prim.b32dec", hs(s))
			s = mutateString(g, s)
		}
	}
	g.Count("prim_cases")

	// fixed malformed raw / friendly strings
	z64 := strings.Repeat("0", 64)
	ab := strings.Repeat("ab", 32)
	fixed := []string{"", ":", "0:", "-1:", "0:" + z64, "0:" + ab, "0:" + ab[:63], "0:" + ab[:62], "0:a", "0:abc", "0:" + ab + "a", "0:" + ab + "ab",
		"0:" + strings.ToUpper(ab), "0:" + ab[:63] + "g", "+5:" + ab, "-0:" + ab, "007:" + ab, "+:" + ab, "-:" + ab, ":" + ab, " 5:" + ab, "5 :" + ab,
		"0x5:" + ab, "1_0:" + ab, "2147483647:" + ab, "2147483648:" + ab, "-2147483648:" + ab, "-2147483649:" + ab, "4294967295:" + ab,
		"4294967296:" + ab, "99999999999999999999:" + ab, "18446744073709551616:" + ab, "0:" + ab[:30] + ":" + ab[:30], "0:" + ab + ":", "0::" + ab,
		"0:" + ab + "\n", "0:\n" + ab, "0 " + ab, "0;" + ab, "0:" + ab[:62] + "+1", "--1:" + ab, "+-1:" + ab, "1e3:" + ab, "0.0:" + ab,
		"EQ", "EQ==", strings.Repeat("A", 48), strings.Repeat("A", 47), strings.Repeat("A", 49), strings.Repeat("=", 48)}
	for _, s := range fixed {
		g.Emit("addr.from_raw", hs(s))
		g.Emit("addr.from_b64", hs(s))
		g.Emit("addr.parse", hs(s))
		emitRootParse(g, s)
		g.Emit("addr.from_json", hs(`"`+s+`"`))
		g.Count("malformed_fixed")
	}
	for _, s := range []string{"", "null", "0", `"`, `""`, `"0:` + ab, `0:` + ab + `"`, `'0:` + ab + `'`, "{}", "[]", "true"} {
		g.Emit("addr.from_json", hs(s))
	}

	// all 48 x 63 single-character substitutions (interleaved with the other cases: they are the expensive lines)
	ns := g.Scale(300, 4000)
	substDone := 0
	emitSubst := func() {
		if substDone >= ns {
			return
		}
		substDone++
		wc, a := genAcct(g, true)
		id := ton.AccountID{Workchain: wc, Address: a}
		s := id.ToHuman(g.Rng.Intn(2) == 1, g.Rng.Intn(2) == 1)
		if g.Rng.Intn(2) == 0 {
			s = toStdAlphabet(s)
		}
		g.Emit("addr.subst", hs(s))
		g.Emit("go.addr.subst", hs(s))
		g.Count("subst_addresses")
		g.NonTrivial("subst/" + s)
	}

	n := g.Scale(2500, 40000)
	for i := 0; i < n; i++ {
		if i%(n/ns) == 0 {
			emitSubst()
		}
		friendly := g.Rng.Intn(2) == 0
		wc, a := genAcct(g, friendly)
		id := ton.AccountID{Workchain: wc, Address: a}
		ws, as := fmt.Sprint(wc), hex.EncodeToString(a[:])
		switch {
		case wc >= -128 && wc <= 127:
			g.Count("wc_int8")
		default:
			g.Count("wc_int32")
		}
		g.NonTrivial("acct/" + ws + "/" + as)
		g.Emit("go.addr.roundtrip", ws, as)
		{ // the account against a shard whose prefix is (mostly) taken from the address itself
			pb := uint(g.Rng.Intn(64))
			top := binary.BigEndian.Uint64(a[:8])
			var pfx uint64
			if pb > 0 {
				pfx = top &^ (^uint64(0) >> pb)
			}
			if g.Rng.Intn(3) == 0 && pb > 0 {
				pfx ^= 1 << (64 - pb)
			}
			if g.Rng.Intn(6) == 0 {
				pfx = g.U64() &^ (^uint64(0) >> pb)
				if pb == 0 {
					pfx = 0
				}
			}
			g.Emit("shard.match_acct", fmt.Sprint(pfx|1<<(63-pb)), as)
		}
		g.Emit("go.addr.flags", ws, as)
		g.Emit("addr.raw", ws, as)
		g.Emit("addr.json", ws, as)
		g.Emit("addr.tl", ws, as)
		g.Emit("addr.tlb", ws, as)
		raw := id.ToRaw()
		g.Emit("addr.from_raw", hs(raw))
		g.Emit("addr.parse", hs(raw))
		emitRootParse(g, raw)
		g.Emit("addr.from_json", hs(`"`+raw+`"`))
		tl, _ := id.MarshalTL()
		g.Emit("addr.from_tl", h.Hex(append(tl, g.Bytes(g.Rng.Intn(3))...)))
		if g.Rng.Intn(4) == 0 {
			g.Emit("addr.from_tl", h.Hex(tl[:g.Rng.Intn(36)]))
			g.Count("tl_short")
		}
		// short hex: zero-fill
		if g.Rng.Intn(3) == 0 {
			k := g.Rng.Intn(64)
			sh := fmt.Sprintf("%d:%s", wc, as[64-k:])
			g.Emit("addr.from_raw", hs(sh))
			g.Emit("addr.parse", hs(sh))
			g.Count(fmt.Sprintf("short_hex_%d", k%2))
		}
		b, t := g.Rng.Intn(2), g.Rng.Intn(2)
		g.Emit("addr.human", ws, as, fmt.Sprint(b), fmt.Sprint(t))
		hstr := id.ToHuman(b == 1, t == 1)
		if g.Rng.Intn(2) == 0 {
			hstr = toStdAlphabet(hstr)
			g.Count("human_std_alphabet")
		} else {
			g.Count("human_url_alphabet")
		}
		g.Emit("addr.from_b64", hs(hstr))
		g.Emit("addr.parse", hs(hstr))
		emitRootParse(g, hstr)
		if g.Rng.Intn(4) == 0 { // the root parser ignores the base64 error: trailing garbage after 48 valid characters
			emitRootParse(g, hstr+[]string{"!", "A", "AA", "AAA", "=", "==", "\n", " ", "AAAA", "A===", "AA==x"}[g.Rng.Intn(11)])
			g.Count("root_trailing_garbage")
		}
		g.Emit("addr.from_json", hs(`"`+hstr+`"`))
		// TL-B bits: plain, with anycast, truncated
		c := boc.NewCell()
		m := id.ToMsgAddress()
		if g.Rng.Intn(3) == 0 {
			d := uint32(1 + g.Rng.Intn(30))
			if g.Rng.Intn(8) == 0 {
				d = uint32(g.Pick(0, 1, 30, 31))
			}
			m.AddrStd.Anycast.Exists = true
			m.AddrStd.Anycast.Value.Depth = d
			m.AddrStd.Anycast.Value.RewritePfx = g.Rng.Uint32() & (uint32(1)<<d - 1)
			g.Count("tlb_anycast")
		}
		if err := tlb.Marshal(c, m); err == nil {
			bits := cellBits(c)
			if g.Rng.Intn(6) == 0 && bits != "-" {
				bits = bits[:g.Rng.Intn(len(bits))]
				if bits == "" {
					bits = "-"
				}
				g.Count("tlb_truncated")
			}
			g.Emit("addr.from_tlb", bits)
			g.Emit("addr.tlb_parse", bits)
			g.Emit("addr.tlb_bits", bits)
		}
		if g.Rng.Intn(3) == 0 { // addr_extern / addr_var / arbitrary tag bits
			var bits string
			rb := func(n int) string {
				var sb strings.Builder
				for k := 0; k < n; k++ {
					sb.WriteByte("01"[g.Rng.Intn(2)])
				}
				return sb.String()
			}
			ac := "0"
			if g.Rng.Intn(3) == 0 {
				d := 1 + g.Rng.Intn(31)
				if g.Rng.Intn(6) == 0 {
					d = 0
				}
				ac = "1" + fmt.Sprintf("%05b", d) + rb(d)
			}
			ln := g.Rng.Intn(512)
			if g.Rng.Intn(3) == 0 {
				ln = g.Pick(0, 1, 7, 8, 255, 256, 511)
			}
			switch g.Rng.Intn(3) {
			case 0:
				bits = "01" + fmt.Sprintf("%09b", ln) + rb(ln)
				g.Count("tlb_extern")
			case 1:
				bits = "11" + ac + fmt.Sprintf("%09b", ln) + rb(32) + rb(ln)
				g.Count("tlb_var")
			default:
				bits = rb(g.Rng.Intn(400))
				g.Count("tlb_random_bits")
			}
			if g.Rng.Intn(5) == 0 {
				bits = bits[:g.Rng.Intn(len(bits)+1)]
			} else if len(bits) < 1000 && g.Rng.Intn(3) == 0 {
				bits += rb(g.Rng.Intn(20))
			}
			if len(bits) > 1023 {
				bits = bits[:1023]
			}
			if bits == "" {
				bits = "-"
			}
			g.Emit("addr.from_tlb", bits)
			g.Emit("addr.tlb_parse", bits)
			g.Emit("addr.tlb_bits", bits)
		}
		if g.Rng.Intn(4) == 0 {
			d, p := uint32(1+g.Rng.Intn(30)), g.Rng.Uint32()
			switch g.Rng.Intn(4) {
			case 0:
				d = uint32(g.Pick(0, 1, 30, 31, 32, 33, 64, 1<<31))
			case 1:
				p &= uint32(1)<<d - 1
			}
			g.Emit("addr.anycast", fmt.Sprint(int8(wc)), as, fmt.Sprint(d), fmt.Sprint(p))
			g.Emit("go.addr.anycast", fmt.Sprint(int8(wc)), as, fmt.Sprint(d), fmt.Sprint(p))
			g.Count("anycast")
		}
		// malformed neighbours of the valid strings
		for k := 0; k < 2; k++ {
			src := []string{raw, hstr}[g.Rng.Intn(2)]
			ms := mutateString(g, src)
			if g.Rng.Intn(3) == 0 {
				ms = mutateString(g, ms)
			}
			g.Emit("addr.from_raw", hs(ms))
			g.Emit("addr.from_b64", hs(ms))
			g.Emit("addr.parse", hs(ms))
			emitRootParse(g, ms)
			g.Count("malformed_mutated")
		}
	}
	for substDone < ns {
		emitSubst()
	}
	g.Emit("addr.from_tlb", "00")
	g.Emit("addr.from_tlb", "-")
	g.Emit("addr.from_tlb", "1")
	g.Emit("addr.from_tlb", "10")

	// ADNL
	na := g.Scale(1500, 20000)
	for i := 0; i < na; i++ {
		var a [32]byte
		if g.Rng.Intn(10) != 0 {
			g.Rng.Read(a[:])
		} else if g.Rng.Intn(2) == 0 {
			for k := range a {
				a[k] = 0xff
			}
		}
		ah := hex.EncodeToString(a[:])
		g.Emit("adnl.to32", ah)
		g.Emit("go.adnl.roundtrip", ah)
		s := liteclient.ADNLAddressToBase32(ton.Bits256(a))
		g.NonTrivial("adnl/" + s)
		switch g.Rng.Intn(4) {
		case 0:
			s += ".adnl"
		case 1:
			s = strings.ToUpper(s)
		}
		g.Emit("adnl.parse", hs(s))
		ms := mutateString(g, s)
		g.Emit("adnl.parse", hs(ms))
		// keep the length at 55: replace instead of insert
		bs := []byte(s)
		if len(bs) >= 55 {
			switch g.Rng.Intn(4) {
			case 0:
				bs[g.Rng.Intn(55)] = "abcdefghijklmnopqrstuvwxyz234567"[g.Rng.Intn(32)]
			case 1:
				for k := 0; k < g.Pick(1, 3, 4, 6, 2, 5, 7); k++ {
					bs[54-k] = '='
				}
			case 2:
				bs[g.Rng.Intn(55)] = byte(g.Pick('0', '1', '8', '9', '=', '\n', ' ', '.', 'A', 0x80, 0xc4))
			case 3:
				bs[0] = "abcdefghijklmnopqrstuvwxyz234567"[g.Rng.Intn(32)]
			}
			g.Emit("adnl.parse", hs(string(bs)))
		}
		g.Count("adnl")
	}
}
