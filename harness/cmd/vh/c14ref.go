//go:build c14

package main

import (
	"crypto/ed25519"
	"fmt"
	"math/big"
	"math/rand"
	"strings"

	"github.com/tonkeeper/tongo/boc"
	"github.com/tonkeeper/tongo/tlb"
	"github.com/tonkeeper/tongo/wallet"
	"verifharness/h"
)

// Reference builders: everything the GENERATOR needs (internal messages, signed cells, bodies, envelopes, wallet
// state inits and addresses) is written here bit by bit from the TL-B layouts, so that no generated line depends on the
// wallet package's builders (RawSendV2, CreateMessageBody, CreateSignedMsgBodyCell, ToInternal, StateInit, GetAddress).
// A defect in those shows as a difference against these cells / against the model, never as a generator crash.

// ------------------------------------------------------------------------------------- requested messages

// parts: the caller-side values of a spec (what is handed to the wallet API), derived from the seeds only
func (s sendSpec) parts() (body, code, data *boc.Cell, comment string) {
	if s.kind == "s" {
		return nil, nil, nil, s.comment()
	}
	if s.commentLen > 0 {
		body = boc.NewCell()
		r := rand.New(rand.NewSource(int64(s.seed)))
		n := s.commentLen % 900
		for i := 0; i < n; i++ {
			_ = body.WriteBit(r.Intn(2) == 1)
		}
		if s.seed%3 == 0 {
			ch := boc.NewCell()
			_ = ch.WriteUint(uint64(s.seed), 32)
			_ = body.AddRef(ch)
		}
	}
	if s.init || s.kind == "d" {
		code, data = boc.NewCell(), boc.NewCell()
		_ = code.WriteUint(uint64(s.seed), 64)
		_ = data.WriteUint(uint64(s.amount), 64)
		if s.seed%2 == 0 {
			lib := boc.NewCell()
			_ = lib.WriteUint(uint64(s.seed)>>3, 30)
			_ = code.AddRef(lib)
		}
		if s.seed%5 == 0 {
			data = boc.NewCell() // an EMPTY data cell is still data that must be present
		}
	}
	return
}

func refGrams(c *boc.Cell, v uint64) {
	n := 0
	for x := v; x > 0; x >>= 8 {
		n++
	}
	_ = c.WriteUint(uint64(n), 4)
	_ = c.WriteUint(v, n*8)
}

// refSnake: text#_ data as SnakeData — the bits that fit go into the current cell, the rest into a chain of refs
func refSnake(c *boc.Cell, data []byte) {
	cur := c
	for _, b := range data {
		for i := 7; i >= 0; i-- {
			if cur.BitsAvailableForWrite() == 0 {
				next := boc.NewCell()
				_ = cur.AddRef(next)
				cur = next
			}
			_ = cur.WriteBit(b>>uint(i)&1 == 1)
		}
	}
}

// refStateInit: _ split_depth:nothing$0 special:nothing$0 code:just$1 ^code data:just$1 ^data library:hme_empty$0
func refStateInit(code, data *boc.Cell) *boc.Cell {
	c := boc.NewCell()
	_ = c.WriteUint(0b00110, 5)
	_ = c.AddRef(tableCell(cellTable(code)))
	_ = c.AddRef(tableCell(cellTable(data)))
	return c
}

// dest: the destination the caller asked for; for a deploy, the address of the deployed state init
func (s sendSpec) dest() (int32, [32]byte) {
	if s.kind == "d" {
		_, code, data, _ := s.parts()
		hs, err := refStateInit(code, data).Hash()
		if err != nil {
			panic(err)
		}
		var a [32]byte
		copy(a[:], hs)
		return s.wc, a
	}
	return s.wc, s.addr
}

func (s sendSpec) bounceFlag() bool { return s.bounce || s.kind == "d" }

// refInternal: int_msg_info$0 ihr_disabled:1 bounce bounced:0 src:addr_none$00 dest:addr_std$10 nothing$0 wc:int8
// addr:bits256 value:(Grams, hme_empty$0) ihr_fee:0000 fwd_fee:0000 created_lt:0 created_at:0
// init:(Maybe (Either StateInit ^StateInit)) = nothing$0 | just$1 right$1 ^  body:(Either X ^X) = left$0 | right$1 ^
func refInternal(s sendSpec) *boc.Cell {
	body, code, data, comment := s.parts()
	c := boc.NewCell()
	_ = c.WriteBit(false)
	_ = c.WriteBit(true)
	_ = c.WriteBit(s.bounceFlag())
	_ = c.WriteBit(false)
	_ = c.WriteUint(0, 2)
	_ = c.WriteUint(0b100, 3)
	wc, addr := s.dest()
	_ = c.WriteInt(int64(int8(wc)), 8)
	_ = c.WriteBytes(addr[:])
	refGrams(c, s.amount)
	if len(s.xs()) == 0 {
		_ = c.WriteBit(false)
	} else {
		_ = c.WriteBit(true)
		_ = c.AddRef(refExtraDict(s.xs()))
	}
	refGrams(c, 0)
	refGrams(c, 0)
	_ = c.WriteUint(0, 64)
	_ = c.WriteUint(0, 32)
	if code != nil {
		_ = c.WriteUint(0b11, 2)
		_ = c.AddRef(refStateInit(code, data))
	} else {
		_ = c.WriteBit(false)
	}
	if s.kind == "s" && comment != "" {
		body = boc.NewCell()
		_ = body.WriteUint(0, 32)
		refSnake(body, []byte(comment))
	}
	if body != nil {
		_ = c.WriteBit(true)
		_ = c.AddRef(body)
	} else {
		_ = c.WriteBit(false)
	}
	return c
}

// refExtraDict: extra_currencies dict:(HashmapE 32 (VarUInteger 32)): the dictionary cell, built by the shared dictionary
// encoder (C05) from the ids as uint32 keys and the amounts written by hand as `len:(#< 32) value:(uint (len * 8))`
func refExtraDict(l []extraCur) *boc.Cell {
	keys := make([]tlb.Uint32, len(l))
	vals := make([]tlb.Any, len(l))
	for i, x := range l {
		keys[i] = tlb.Uint32(uint32(x.id))
		v, _ := new(big.Int).SetString(x.amt, 10)
		bs := v.Bytes()
		c := boc.NewCell()
		_ = c.WriteUint(uint64(len(bs)), 5)
		_ = c.WriteBytes(bs)
		vals[i] = tlb.Any(*c)
	}
	d := boc.NewCell()
	if err := tlb.Marshal(d, tlb.NewHashmap(keys, vals)); err != nil {
		panic(err)
	}
	return d
}

// refRaw: the reference internal message paired with the REQUESTED mode
func (s sendSpec) refRaw() wallet.RawMessage {
	return wallet.RawMessage{Message: refInternal(s), Mode: s.requestedMode()}
}

// intInfo: an internal message read back bit by bit (independently of the tlb decoders)
type intInfo struct {
	bounce   bool
	wc       int8
	addr     [32]byte
	amount   uint64
	hasInit  bool
	initCell *boc.Cell
	// the fields of the state init: presence flags as written, refs in order
	splitDepth, special, hasCode, hasData, hasLib bool
	code, data                                    *boc.Cell
	body                                          *boc.Cell
	extraDict                                     *boc.Cell
}

func parseInternal(msg *boc.Cell) (*intInfo, error) {
	c := tableCell(cellTable(msg))
	var err error
	rd := func(n int) uint64 {
		v, e := c.ReadUint(n)
		if e != nil && err == nil {
			err = e
		}
		return v
	}
	x := &intInfo{}
	if rd(1) != 0 {
		return nil, fmt.Errorf("not int_msg_info")
	}
	rd(1)
	x.bounce = rd(1) == 1
	rd(1)
	if rd(2) != 0 {
		return nil, fmt.Errorf("src is not addr_none")
	}
	if rd(3) != 4 {
		return nil, fmt.Errorf("dest is not a plain addr_std")
	}
	x.wc = int8(rd(8))
	for i := range x.addr {
		x.addr[i] = byte(rd(8))
	}
	x.amount = rd(int(rd(4)) * 8)
	if rd(1) != 0 {
		if x.extraDict, err = c.NextRef(); err != nil {
			return nil, fmt.Errorf("extra currencies ref: %v", err)
		}
	}
	rd(int(rd(4)) * 8)
	rd(int(rd(4)) * 8)
	rd(64)
	rd(32)
	if err != nil {
		return nil, err
	}
	if rd(1) == 1 {
		x.hasInit = true
		si := c
		if rd(1) == 1 {
			if si, err = c.NextRef(); err != nil {
				return nil, err
			}
			x.initCell = tableCell(cellTable(si))
		}
		r1 := func() bool { v, e := si.ReadUint(1); return e == nil && v == 1 }
		if x.splitDepth = r1(); x.splitDepth {
			_, _ = si.ReadUint(5)
		}
		if x.special = r1(); x.special {
			_, _ = si.ReadUint(2)
		}
		if x.hasCode = r1(); x.hasCode {
			if x.code, err = si.NextRef(); err != nil {
				return nil, fmt.Errorf("code ref: %v", err)
			}
		}
		if x.hasData = r1(); x.hasData {
			if x.data, err = si.NextRef(); err != nil {
				return nil, fmt.Errorf("data ref: %v", err)
			}
		}
		x.hasLib = r1()
	}
	if rd(1) == 1 {
		if x.body, err = c.NextRef(); err != nil {
			return nil, err
		}
	}
	return x, err
}

// checkInit compares the state init an outgoing message carries with the requested one: code hash, data hash, no
// library, nothing else set; and for a deploy, destination = hash of the CARRIED state init.
func checkInit(path string, i int, s sendSpec, got *boc.Cell) string {
	bad := func(what string) string { return fmt.Sprintf("FAIL %s-init-%s message=%d", path, what, i) }
	if got == nil {
		return bad("message-missing")
	}
	x, err := parseInternal(got)
	if err != nil {
		return bad("unreadable:" + strings.ReplaceAll(err.Error(), " ", "_"))
	}
	_, code, data, _ := s.parts()
	if (code != nil) != x.hasInit {
		if x.hasInit {
			return bad("unrequested")
		}
		return bad("dropped")
	}
	wc, addr := s.dest()
	if x.wc != int8(wc) || x.addr != addr {
		return bad("destination-changed")
	}
	if x.bounce != s.bounceFlag() || x.amount != s.amount {
		return bad("value-or-bounce-changed")
	}
	if r := checkExtras(path, i, s, got, x); r != "" {
		return r
	}
	if code == nil {
		return ""
	}
	if x.initCell == nil {
		return bad("inline")
	}
	if !x.hasCode {
		return bad("code-missing")
	}
	if !x.hasData {
		return bad("data-missing")
	}
	if x.splitDepth || x.special || x.hasLib {
		return bad("extra-fields")
	}
	if hashOrNil(x.code) != hashOrNil(code) {
		return bad("code-changed")
	}
	if hashOrNil(x.data) != hashOrNil(data) {
		return bad("data-changed")
	}
	if s.kind == "d" {
		hs, err := x.initCell.Hash()
		if err != nil || h.Hex(hs) != h.Hex(x.addr[:]) {
			return bad("deploy-address-is-not-the-hash-of-the-carried-state-init")
		}
	}
	return ""
}

// checkExtras: requested vs extracted CurrencyCollection.Other: the dictionary read back (library decoder on the sent
// message) holds exactly the requested (id, amount) pairs, and the dictionary cell is the reference one
func checkExtras(path string, i int, s sendSpec, got *boc.Cell, x *intInfo) string {
	bad := func(what string) string { return fmt.Sprintf("FAIL %s-extra-currencies-%s message=%d", path, what, i) }
	if (x.extraDict != nil) != (len(s.xs()) > 0) {
		if x.extraDict == nil {
			return bad("dropped")
		}
		return bad("unrequested")
	}
	if len(s.xs()) == 0 {
		return ""
	}
	var m tlb.Message
	if err := tlb.Unmarshal(tableCell(cellTable(got)), &m); err != nil || m.Info.SumType != "IntMsgInfo" {
		return bad("undecodable")
	}
	items := m.Info.IntMsgInfo.Value.Other.Dict.Items()
	if len(items) != len(s.xs()) {
		return bad(fmt.Sprintf("count got=%d want=%d", len(items), len(s.xs())))
	}
	want := map[uint32]string{}
	for _, e := range s.xs() {
		want[uint32(e.id)] = e.amt
	}
	for _, it := range items {
		v := big.Int(it.Value)
		if w, ok := want[uint32(it.Key)]; !ok || w != v.String() {
			return bad(fmt.Sprintf("changed id=%d", uint32(it.Key)))
		}
	}
	if hashOrNil(x.extraDict) != hashOrNil(refExtraDict(s.xs())) {
		return bad("dictionary-cell-changed")
	}
	return ""
}

// ------------------------------------------------------------------------------------------ signed cells

type refIds struct {
	sub, walletID, net uint32
	wcByte             uint8
	wc                 int
}

func refIdsOf(ver wallet.Version, wcS, subS, netS string) refIds {
	var r refIds
	if wcS != "_" {
		r.wc = atoi(wcS)
	}
	net := int32(-239)
	if netS != "_" {
		net = int32(atoi64(netS))
	}
	switch ver {
	case wallet.V5Beta:
		if subS != "_" {
			r.sub = uint32(atoi64(subS))
		}
	default:
		r.sub = uint32(698983191 + r.wc)
		if subS != "_" {
			r.sub = uint32(atoi64(subS))
		}
	}
	r.net = uint32(net)
	r.wcByte = uint8(r.wc)
	r.walletID = (uint32(1)<<31 | uint32(uint8(r.wc))<<23) ^ uint32(net)
	return r
}

func refActions(raws []wallet.RawMessage) *boc.Cell {
	c := boc.NewCell()
	for i := len(raws) - 1; i >= 0; i-- {
		n := boc.NewCell()
		_ = n.WriteUint(0x0ec3c86d, 32)
		_ = n.WriteUint(uint64(raws[i].Mode), 8)
		_ = n.AddRef(c)
		_ = n.AddRef(tableCell(cellTable(raws[i].Message)))
		c = n
	}
	return c
}

type refExt struct {
	tag  byte // 2 add, 3 remove, 4 set-signature-allowed
	none bool
	wc   int8
	addr [32]byte
	flag bool
}

// refExtChain writes the extended actions: the first into c, each further one into a fresh cell referenced from the
// previous one
func refExtChain(c *boc.Cell, l []refExt) {
	for i, a := range l {
		if i > 0 {
			n := boc.NewCell()
			_ = c.AddRef(n)
			c = n
		}
		_ = c.WriteUint(uint64(a.tag), 8)
		switch {
		case a.tag == 4:
			_ = c.WriteBit(a.flag)
		case a.none:
			_ = c.WriteUint(0, 2)
		default:
			_ = c.WriteUint(0b100, 3)
			_ = c.WriteInt(int64(a.wc), 8)
			_ = c.WriteBytes(a.addr[:])
		}
	}
}

func refExtField(c *boc.Cell, exts string) {
	if exts == "n" {
		_ = c.WriteBit(false)
		return
	}
	_ = c.WriteBit(true)
	refExtChain(c, parseRefExts(exts))
}

// refSigned: the cell whose hash is signed. exts is the v5r1 extended-action argument of the line protocol ("n" = nil).
func refSigned(ver wallet.Version, ids refIds, op, seqno, vu, rnd uint32, raws []wallet.RawMessage, exts string) (*boc.Cell, error) {
	if len(raws) > maxMsgs(ver) {
		return nil, fmt.Errorf("too many messages")
	}
	c := boc.NewCell()
	modes := func() {
		for _, r := range raws {
			_ = c.WriteUint(uint64(r.Mode), 8)
			_ = c.AddRef(tableCell(cellTable(r.Message)))
		}
	}
	switch ver {
	case wallet.V3R1, wallet.V3R2:
		_ = c.WriteUint(uint64(ids.sub), 32)
		_ = c.WriteUint(uint64(vu), 32)
		_ = c.WriteUint(uint64(seqno), 32)
		modes()
	case wallet.V4R1, wallet.V4R2:
		_ = c.WriteUint(uint64(ids.sub), 32)
		_ = c.WriteUint(uint64(vu), 32)
		_ = c.WriteUint(uint64(seqno), 32)
		_ = c.WriteUint(0, 8)
		modes()
	case wallet.HighLoadV2R2:
		_ = c.WriteUint(uint64(ids.sub), 32)
		_ = c.WriteUint(uint64(vu)<<32|uint64(rnd), 64)
		if len(raws) == 0 {
			_ = c.WriteBit(false)
			break
		}
		keys := make([]tlb.Uint16, len(raws))
		vals := make([]tlb.Any, len(raws))
		for i, r := range raws {
			keys[i] = tlb.Uint16(i)
			v := boc.NewCell()
			_ = v.WriteUint(uint64(r.Mode), 8)
			_ = v.AddRef(tableCell(cellTable(r.Message)))
			vals[i] = tlb.Any(*v)
		}
		d := boc.NewCell()
		if err := tlb.Marshal(d, tlb.NewHashmap(keys, vals)); err != nil { // the shared dictionary encoder (C05)
			return nil, err
		}
		_ = c.WriteBit(true)
		_ = c.AddRef(d)
	case wallet.V5R1:
		_ = c.WriteUint(uint64(op), 32)
		_ = c.WriteUint(uint64(ids.walletID), 32)
		_ = c.WriteUint(uint64(vu), 32)
		_ = c.WriteUint(uint64(seqno), 32)
		_ = c.WriteBit(true)
		_ = c.AddRef(refActions(raws))
		refExtField(c, exts)
	case wallet.V5Beta:
		_ = c.WriteUint(uint64(op), 32)
		_ = c.WriteUint(uint64(ids.net), 32)
		_ = c.WriteUint(uint64(ids.wcByte), 8)
		_ = c.WriteUint(0, 8)
		_ = c.WriteUint(uint64(ids.sub), 32)
		_ = c.WriteUint(uint64(vu), 32)
		_ = c.WriteUint(uint64(seqno), 32)
		_ = c.WriteBit(false)
		_ = c.AddRef(refActions(raws))
	default:
		return nil, fmt.Errorf("version cannot send")
	}
	return tableCell(cellTable(c)), nil
}

// refAttach: the signature in front of the signed bits (v3, v4, highload) or after them (v5)
func refAttach(ver wallet.Version, signed *boc.Cell, sig []byte) *boc.Cell {
	src := tableCell(cellTable(signed))
	out := boc.NewCell()
	cp := func() {
		for src.BitsAvailableForRead() > 0 {
			b, _ := src.ReadBit()
			_ = out.WriteBit(b)
		}
	}
	if ver == wallet.V5R1 || ver == wallet.V5Beta {
		cp()
		_ = out.WriteBytes(sig)
	} else {
		_ = out.WriteBytes(sig)
		cp()
	}
	for _, r := range src.Refs() {
		_ = out.AddRef(r)
	}
	return out
}

// refExtension: extension_action#6578746e query_id actions:(Maybe ^) extended:(Maybe)
func refExtension(q uint64, msgs string, exts string) *boc.Cell {
	c := boc.NewCell()
	_ = c.WriteUint(0x6578746e, 32)
	_ = c.WriteUint(q, 64)
	if msgs == "n" {
		_ = c.WriteBit(false)
	} else {
		_ = c.WriteBit(true)
		_ = c.AddRef(refActions(parseMsgsArg(msgs)))
	}
	refExtField(c, exts)
	return c
}

// ------------------------------------------------------------------------------- wallet state init, address

func refWalletData(ver wallet.Version, pub []byte, ids refIds) *boc.Cell {
	c := boc.NewCell()
	switch ver {
	case wallet.V3R1, wallet.V3R2:
		_ = c.WriteUint(0, 32)
		_ = c.WriteUint(uint64(ids.sub), 32)
		_ = c.WriteBytes(pub)
	case wallet.V4R1, wallet.V4R2:
		_ = c.WriteUint(0, 32)
		_ = c.WriteUint(uint64(ids.sub), 32)
		_ = c.WriteBytes(pub)
		_ = c.WriteBit(false)
	case wallet.V5Beta:
		_ = c.WriteUint(0, 33)
		_ = c.WriteUint(uint64(ids.net), 32)
		_ = c.WriteUint(uint64(ids.wcByte), 8)
		_ = c.WriteUint(0, 8)
		_ = c.WriteUint(uint64(ids.sub), 32)
		_ = c.WriteBytes(pub)
		_ = c.WriteBit(false)
	case wallet.V5R1:
		_ = c.WriteBit(true)
		_ = c.WriteUint(0, 32)
		_ = c.WriteUint(uint64(ids.walletID), 32)
		_ = c.WriteBytes(pub)
		_ = c.WriteBit(false)
	case wallet.HighLoadV2R2:
		_ = c.WriteUint(uint64(ids.sub), 32)
		_ = c.WriteUint(0, 64)
		_ = c.WriteBytes(pub)
		_ = c.WriteBit(false)
	}
	return c
}

// refWallet: the wallet's state init cell and address (workchain, hash of the state init)
func refWallet(ver wallet.Version, pub ed25519.PublicKey, ids refIds) (*boc.Cell, *sentInfo) {
	si := refStateInit(tableCell(codeTable(ver)), refWalletData(ver, pub, ids))
	hs, err := si.Hash()
	if err != nil {
		panic(err)
	}
	out := &sentInfo{destWc: int8(ids.wc)}
	copy(out.destAddr[:], hs)
	return si, out
}

// refWalletMessage: the complete external message a wallet is expected to send, with the signature made by crypto/ed25519
// over the hash of the reference signed cell. nil when the reference refuses (too many messages).
func refWalletMessage(ver wallet.Version, key ed25519.PrivateKey, wcS, subS, netS string, withInit bool, op, seqno, vu, rnd uint32,
	raws []wallet.RawMessage, exts string) (si *sentInfo, sig []byte) {
	ids := refIdsOf(ver, wcS, subS, netS)
	signed, err := refSigned(ver, ids, op, seqno, vu, rnd, raws, exts)
	if err != nil {
		return nil, make([]byte, 64)
	}
	digest, err := signed.Hash()
	if err != nil {
		return nil, make([]byte, 64)
	}
	sig = ed25519.Sign(key, digest)
	init, si := refWallet(ver, key.Public().(ed25519.PublicKey), ids)
	if withInit {
		si.init = init
	}
	si.body = refAttach(ver, signed, sig)
	si.root = rebuildExt(si, si.body)
	return si, sig
}

// parseRefExts: the extended-action argument of the line protocol (see parseExts) as plain values
func parseRefExts(s string) []refExt {
	if s == "n" || s == "e" {
		return nil
	}
	var l []refExt
	for _, it := range strings.Split(s, "/") {
		var x refExt
		switch it[0] {
		case 'a':
			x.tag = 2
		case 'r':
			x.tag = 3
		case 's':
			x.tag, x.flag = 4, it == "s:1"
			l = append(l, x)
			continue
		default:
			panic("bad ext action " + it)
		}
		if it[2:] == "none" {
			x.none = true
		} else {
			f := strings.Split(it[2:], ":")
			x.wc = int8(atoi(f[0]))
			copy(x.addr[:], h.MustUnHex(f[1]))
		}
		l = append(l, x)
	}
	return l
}
