//go:build c08

package main

// Property C08 — TL-B and TL decoders are total on untrusted input.
//   c08_tl.go   TL: descriptors, valid encodings + mutations, executors, ADNL helpers
//   c08_tlb.go  TL-B: every exported target type x four streams of cell trees (direct oracles), modelled customs
//   c08_reg.go  GENERATED registry of types (tools_gen_c08_registry.py), re-checked against the source on every gen

import (
	"bytes"
	"fmt"
	"reflect"
	"strconv"
	"strings"

	"github.com/tonkeeper/tongo/boc"
	"github.com/tonkeeper/tongo/code"
	"github.com/tonkeeper/tongo/liteclient"
	"github.com/tonkeeper/tongo/tl"
	"github.com/tonkeeper/tongo/tlb"
	"verifharness/h"
	"verifharness/tldesc"
)

func init() {
	ex := map[string]h.ExecFn{
		"tld.dec":          exTLDec,
		"tld.consts":       exTLConsts,
		"tld.reqdec":       exTLReqDec,
		"tld.len":          exTLLen,
		"tld.pqa":          exTLPqa,
		"go.tld.pqa":       goTLPqa,
		"go.tl.safe":       goTLSafe,
		"go.tl.marshalnil": goTLMarshalNil,
		"go.tl.reqdec":     goTLReqDec,
		"h.firstroot":      exFirstRoot,
		"go.h.firstroot":   goFirstRoot,
		"h.vmstack":        exVmStack,
		"h.tuple":          exTuple,
		"h.vmslice":        exVmSlice,
		"go.h.vmstack":     noPanic(exVmStack),
		"go.h.tuple":       noPanic(exTuple),
		"go.h.vmslice":     noPanic(exVmSlice),
		"go.h.tuplebroken": goTupleBroken,
		"go.h.zeroslice":   goZeroSlice,
		"go.net.gettx":     goNetGetTx,
		"go.tl.nilptr":     goTLNilPtr,
		"go.tl.int32":      goTLInt32,
		"go.proof":         goProof,
		"go.abi.stack":     goABIStack,
	}
	for k, v := range tlbExec {
		ex[k] = v
	}
	h.Register(&h.Prop{ID: "C08", Gen: genC08, Exec: withCells(ex)})
}

func genC08(g *h.G) {
	gc := &genCtx{g: g, sc: tldesc.Load(repoDir()), forceAlt: -1, noSeed: map[string]bool{}, perType: map[string]int{}, tlbStats: map[string]*tlbStat{}}
	gc.genFlags() // queued, emitted between the other lines
	gc.genTL()
	gc.genHelpers()
	gc.genTLB()
	gc.genTLBModel()
	gc.genAllocTie()
	gc.genKAT()
	gc.genProofs()
	gc.genABIStacks()
	gc.genDeep()
	for len(gc.pendingFlags) > 0 {
		gc.emitPendingFlag()
	}
	for k := range gc.noSeed {
		g.Count("no_valid_seed:" + k)
	}
	// per-type counts: TL inputs per type (min / max over the types), TL-B inputs per type by class of type
	mn, mx := 1<<30, 0
	for _, r := range append(append([]regType{}, tlRegistry...), genericTL...) {
		n := gc.perType[r.Name]
		if r.Name == "g.Zero" {
			continue
		}
		if n < mn {
			mn = n
		}
		if n > mx {
			mx = n
		}
	}
	g.Counters["tl_inputs_per_type_min"] = mn
	g.Counters["tl_inputs_per_type_max"] = mx
	g.Counters["tl_types"] = len(tlRegistry) + len(genericTL)
	g.Counters["tlb_types_registered"] = len(tlbRegistry)
}

// ---------------------------------------------------------------------------------------- index helpers

func (gc *genCtx) genHelpers() {
	g := gc.g
	for n := 0; n <= 3; n++ {
		g.Emit("h.firstroot", strconv.Itoa(n))
		g.Emit("go.h.firstroot", strconv.Itoa(n))
	}
	for nf := 0; nf <= 5; nf++ {
		for l := 0; l <= 6; l++ {
			g.Emit("h.vmstack", strconv.Itoa(nf), strconv.Itoa(l))
			g.Emit("go.h.vmstack", strconv.Itoa(nf), strconv.Itoa(l))
		}
	}
	for l := 0; l <= 6; l++ {
		for nf := 0; nf <= 6; nf++ {
			g.Emit("h.tuple", strconv.Itoa(l), strconv.Itoa(nf))
			g.Emit("go.h.tuple", strconv.Itoa(l), strconv.Itoa(nf))
		}
	}
	for k := 0; k < g.Scale(400, 4000); k++ {
		bits := g.Pick(0, 1, 7, 8, 100, 1022, 1023)
		refs := g.Rng.Intn(5)
		st, en := g.Rng.Intn(1024), g.Rng.Intn(1024)
		switch g.Rng.Intn(4) {
		case 0:
			st, en = g.Rng.Intn(bits+1), g.Rng.Intn(bits+1)
		case 1:
			st = g.Rng.Intn(bits + 1)
			en = st + g.Rng.Intn(bits-st+1)
		}
		sr, er := g.Rng.Intn(8), g.Rng.Intn(8)
		if g.Rng.Intn(2) == 0 {
			sr = g.Rng.Intn(refs + 1)
			er = sr + g.Rng.Intn(refs-sr+1)
		}
		g.Emit("h.vmslice", strconv.Itoa(bits), strconv.Itoa(refs), strconv.Itoa(st), strconv.Itoa(en), strconv.Itoa(sr), strconv.Itoa(er))
		g.Emit("go.h.vmslice", strconv.Itoa(bits), strconv.Itoa(refs), strconv.Itoa(st), strconv.Itoa(en), strconv.Itoa(sr), strconv.Itoa(er))
		g.NonTrivial(fmt.Sprint("vmslice", bits, refs, st, en, sr, er))
	}
	for _, p := range [][2]int{{0, 0}, {1, 1}, {2, 2}, {0, 1}, {1, 2}, {2, 1}, {3, 0}} {
		g.Emit("go.net.gettx", strconv.Itoa(p[0]), strconv.Itoa(p[1]))
	}
	for _, real := range []int{0, 1, 2, 3, 4, 5, 8, 100, 249, 250, 251, 252, 253, 254, 255, 256, 257, 258, 260, 300, 1000, 65535, 65536, 70000} {
		for delta := -4; delta <= 8; delta++ {
			g.Emit("go.tld.pqa", strconv.Itoa(real), strconv.Itoa(delta))
		}
	}
	g.Emit("go.tl.nilptr")
	// counts 2^31-1, 2^31, 2^32-1 and long-form byte prefixes, decoded by a 32-bit build of package tl
	g.Emit("go.tl.int32", "ffffff7f01000000,0000008001000000,ffffffff01000000,feffffff01000000,ffffffff,00000080")
	g.Emit("go.h.tuplebroken")
	g.Emit("go.h.zeroslice")
}

func emptyRootsBoc(n int) []byte {
	if n == 0 {
		// a bag of cells with an empty root list: size=1, off_bytes=2, cells=0, roots=0, absent=0, tot_cells_size=0
		return []byte{0xb5, 0xee, 0x9c, 0x72, 0x01, 0x02, 0x00, 0x00, 0x00, 0x00, 0x00}
	}
	// n roots, each an empty cell: magic, flags(size=1), off_bytes=1, cells=n, roots=n, absent=0, tot=2n, root list, cells
	b := []byte{0xb5, 0xee, 0x9c, 0x72, 0x01, 0x01, byte(n), byte(n), 0x00, byte(2 * n)}
	for i := 0; i < n; i++ {
		b = append(b, byte(i))
	}
	for i := 0; i < n; i++ {
		b = append(b, 0x00, 0x00)
	}
	return b
}

// h.firstroot n: code.ParseContractMethods and VmStack.UnmarshalTL on a BOC with n roots -> "ok" unless one panics
func exFirstRoot(a []string) string {
	n, _ := strconv.Atoi(a[0])
	b := emptyRootsBoc(n)
	cells, err := boc.DeserializeBoc(b)
	// a bag without roots is rejected by the repaired parser; when it is accepted it must give n cells
	if !(n == 0 && err != nil) && (err != nil || len(cells) != n) {
		return fmt.Sprintf("FAIL harness: crafted boc with %d roots gives %d cells, err %v", n, len(cells), err)
	}
	_, _ = code.ParseContractMethods(b)
	enc, _ := tl.Marshal(b)
	var s tlb.VmStack
	_ = s.UnmarshalTL(bytes.NewReader(enc))
	return "ok"
}

// go.tl.nilptr: tl.Unmarshal into a nil pointer / tl.Marshal of a nil pointer are errors, not panics
func goTLNilPtr(a []string) (ans string) {
	defer func() {
		if r := recover(); r != nil {
			ans = fmt.Sprintf("FAIL panic %v", r)
		}
	}()
	if err := tl.Unmarshal(bytes.NewReader([]byte{1, 0, 0, 0}), (*uint32)(nil)); err == nil {
		return "FAIL decoded into a nil pointer"
	}
	if _, err := tl.Marshal((*tl.Int256)(nil)); err == nil {
		return "FAIL encoded a nil pointer"
	}
	return "ok"
}

// go.tld.pqa <real> <delta>: processQueryAnswer and decodeLength on an ADNL answer carrying `real` bytes of data whose
// length prefix declares real+delta bytes, in a buffer with len == cap (as read from the socket): a value or an
// error, never a panic; when delivered, the answer has exactly the declared length and lies inside the payload.
func goTLPqa(a []string) (ans string) {
	real, _ := strconv.Atoi(a[0])
	delta, _ := strconv.Atoi(a[1])
	declared := real + delta
	if declared < 0 {
		declared = 0
	}
	hdr := make([]byte, 36)
	for i := range hdr {
		hdr[i] = byte(i*7 + 1)
	}
	prefix := tl.EncodeLength(declared)
	payload := make([]byte, 36+len(prefix)+real) // allocated exactly: len == cap
	copy(payload, hdr)
	copy(payload[36:], prefix)
	for i := 0; i < real; i++ {
		payload[36+len(prefix)+i] = byte(i)
	}
	if len(payload) != cap(payload) {
		payload = append([]byte(nil), payload...)[:len(payload):len(payload)]
	}
	defer func() {
		if r := recover(); r != nil {
			ans = fmt.Sprintf("FAIL panic %v (payload %x)", r, payload)
		}
	}()
	tail := payload[36:len(payload):len(payload)]
	if n, p, err := liteclient.VerifDecodeLength(append([]byte(nil), tail...)); err == nil && (n != declared || p != len(prefix)) {
		return fmt.Sprintf("FAIL decodeLength got (%d,%d) want (%d,%d)", n, p, declared, len(prefix))
	}
	for _, known := range []bool{true, false} {
		d, ok, err := liteclient.VerifProcessQueryAnswer(payload, known)
		if !known {
			if err == nil {
				return "FAIL unknown query id accepted"
			}
			continue
		}
		if err != nil {
			if declared <= real {
				return fmt.Sprintf("FAIL rejected an answer that fits: declared %d, data %d", declared, real)
			}
			continue
		}
		if !ok || len(d) != declared || declared > real {
			return fmt.Sprintf("FAIL delivered %d bytes for declared %d, data %d", len(d), declared, real)
		}
	}
	return "ok"
}

// retrySlow: a deadline verdict is confirmed by two more measurements (the machine may be busy); every other answer
// is final
func retrySlow(f func() string) string {
	r := f()
	for try := 0; try < 2 && len(r) >= 9 && r[:9] == "FAIL slow"; try++ {
		r = f()
	}
	return r
}

// noPanic turns an executor into a direct oracle: whatever it answers, it must not panic
func noPanic(f h.ExecFn) h.ExecFn {
	return func(a []string) (ans string) {
		defer func() {
			if r := recover(); r != nil {
				ans = fmt.Sprintf("FAIL panic %v", r)
			}
		}()
		if r := f(a); len(r) >= 4 && r[:4] == "FAIL" {
			return r
		}
		return "ok"
	}
}

func goFirstRoot(a []string) (ans string) {
	defer func() {
		if r := recover(); r != nil {
			ans = fmt.Sprintf("FAIL panic %v on boc %x", r, emptyRootsBoc(0))
		}
	}()
	return exFirstRoot(a)
}

func structOfInt64(n int) reflect.Value {
	fs := make([]reflect.StructField, n)
	for i := range fs {
		fs[i] = reflect.StructField{Name: "F" + strconv.Itoa(i), Type: reflect.TypeOf(int64(0))}
	}
	return reflect.New(reflect.StructOf(fs))
}

// h.vmstack numField len: VmStack of len tiny ints into a struct with numField int64 fields
func exVmStack(a []string) string {
	nf, _ := strconv.Atoi(a[0])
	l, _ := strconv.Atoi(a[1])
	s := make(tlb.VmStack, l)
	for i := range s {
		s[i] = tlb.VmStackValue{SumType: "VmStkTinyInt", VmStkTinyInt: int64(i)}
	}
	dst := structOfInt64(nf)
	if err := s.Unmarshal(dst.Interface()); err != nil {
		return h.Outcome("", err)
	}
	// stack position i holds the value i: the answer lists which position every field was filled from
	if nf == 0 {
		return "ok -"
	}
	out := make([]string, nf)
	for i := range out {
		out[i] = strconv.FormatInt(dst.Elem().Field(i).Int(), 10)
	}
	return "ok " + strings.Join(out, ",")
}

func tinyIntCell(v int) *boc.Cell {
	c := boc.NewCell()
	_ = c.WriteUint(1, 8)
	_ = c.WriteInt(int64(v), 64)
	return c
}

// tupleBody writes VmTuple n into c (refs only): head:(VmTupleRef n-1) tail:^VmStackValue
func tupleBody(c *boc.Cell, n int, entry func(i int) *boc.Cell) {
	if n == 0 {
		return
	}
	switch {
	case n-1 == 1:
		_ = c.AddRef(entry(0))
	case n-1 > 1:
		sub := boc.NewCell()
		tupleBody(sub, n-1, entry)
		_ = c.AddRef(sub)
	}
	_ = c.AddRef(entry(n - 1))
}

func tupleCell(n int, entry func(i int) *boc.Cell) *boc.Cell {
	c := boc.NewCell()
	_ = c.WriteUint(7, 8)
	_ = c.WriteUint(uint64(n), 16)
	tupleBody(c, n, entry)
	return c
}

// h.tuple len numField: a well-formed tuple of len tiny ints, decoded by the real decoder, converted into a struct
func exTuple(a []string) string {
	l, _ := strconv.Atoi(a[0])
	nf, _ := strconv.Atoi(a[1])
	var v tlb.VmStackValue
	if err := tlb.Unmarshal(tupleCell(l, tinyIntCell), &v); err != nil {
		return "FAIL harness: tuple does not decode: " + err.Error()
	}
	return h.Outcome("", v.VmStkTuple.Unmarshal(structOfInt64(nf).Interface()))
}

// go.h.tuplebroken: a tuple entry whose payload fails after its SumType was set (vmTupleRefInner drops the error)
// must not make the conversion panic.
func goTupleBroken(a []string) (ans string) {
	defer func() {
		if r := recover(); r != nil {
			ans = fmt.Sprintf("FAIL panic %v", r)
		}
	}()
	broken := func(i int) *boc.Cell {
		if i == 0 {
			c := boc.NewCell()
			_ = c.WriteUint(4, 8) // vm_stk_slice#04 without its cell reference
			return c
		}
		return tinyIntCell(i)
	}
	for n := 2; n <= 4; n++ {
		var v tlb.VmStackValue
		if err := tlb.Unmarshal(tupleCell(n, broken), &v); err != nil {
			continue
		}
		var dst []tlb.MsgAddress
		_ = v.Unmarshal(&dst)
		_ = v.VmStkTuple.Unmarshal(structOfInt64(n).Interface())
		var dst2 struct {
			A tlb.MsgAddress
			B int64
		}
		_ = v.Unmarshal(&dst2)
	}
	return "ok"
}

// go.h.zeroslice documents the explicit panics that stay: the zero VmCellSlice panics in Cell()
func goZeroSlice(a []string) (ans string) {
	defer func() {
		if r := recover(); r != nil {
			ans = "ok" // expected: documented, not reachable from decoded data any more
		}
	}()
	_ = tlb.VmCellSlice{}.Cell()
	return "FAIL zero-slice-did-not-panic (model out of date)"
}

// h.vmslice bits refs st end stRef endRef: decode a VmCellSlice, then Cell()
func exVmSlice(a []string) string {
	iv := make([]int, 6)
	for i := range iv {
		iv[i], _ = strconv.Atoi(a[i])
	}
	target := boc.NewCell()
	for i := 0; i < iv[0]; i++ {
		_ = target.WriteBit(i%3 == 0)
	}
	for i := 0; i < iv[1]; i++ {
		_ = target.AddRef(boc.NewCell())
	}
	c := boc.NewCell()
	_ = c.AddRef(target)
	_ = c.WriteUint(uint64(iv[2]), 10)
	_ = c.WriteUint(uint64(iv[3]), 10)
	_ = c.WriteUint(uint64(iv[4]), 3)
	_ = c.WriteUint(uint64(iv[5]), 3)
	var s tlb.VmCellSlice
	if err := tlb.Unmarshal(c, &s); err != nil {
		return "err"
	}
	r := s.Cell()
	return fmt.Sprintf("ok %d %d", r.BitSize(), r.RefsSize())
}
