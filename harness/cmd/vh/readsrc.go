//go:build c03 || c04

package main

// go.readsrc (AUDIT3 B5), shared by the C03 and C04 runs: a source with a moved read cursor is written whole.

import (
	"fmt"
	"math/rand"
	"strconv"

	"github.com/tonkeeper/tongo/boc"
	"github.com/tonkeeper/tongo/tlb"
	"verifharness/tlbx"
)

func guardRS(f func() string) (ans string) {
	defer func() {
		if r := recover(); r != nil {
			ans = "panic"
		}
	}()
	return f()
}

func randBits(rng *rand.Rand, n int) boc.BitString {
	bs := boc.NewBitString(n)
	for i := 0; i < n; i++ {
		_ = bs.WriteBit(rng.Intn(2) == 1)
	}
	return bs
}

func goReadSrc(a []string) string {
	seed, _ := strconv.ParseInt(a[0], 10, 64)
	rng := rand.New(rand.NewSource(seed))
	return guardRS(func() string {
		n := 16 + rng.Intn(200)
		src := randBits(rng, n)
		want := tlbx.BitsOf(src)
		k := 1 + rng.Intn(n-1)
		if _, err := src.ReadBits(k); err != nil { // the source has been partially READ
			return "FAIL prep"
		}
		check := func(what string, c *boc.Cell, err error) string {
			if err != nil {
				return "FAIL " + what + "-err " + trunc(err.Error())
			}
			c.ResetCounters()
			if got := tlbx.BitsOf(c.RawBitString()); got != want {
				return "FAIL " + what + "-short got=" + fmt.Sprint(len(got)-1) + " want=" + fmt.Sprint(n)
			}
			return ""
		}
		c1 := boc.NewCell()
		if r := check("writebitstring", c1, c1.WriteBitString(src)); r != "" {
			return r
		}
		c2 := boc.NewCell()
		if r := check("marshal-bitstring", c2, tlb.Marshal(c2, src)); r != "" {
			return r
		}
		c3 := boc.NewCell()
		if r := check("marshal-snake", c3, tlb.Marshal(c3, tlb.SnakeData(src))); r != "" {
			return r
		}
		// tlb.Any: a cell whose read cursor was moved
		anyCell := boc.NewCell()
		_ = anyCell.WriteBitString(randBits(rng, n))
		anyCell.ResetCounters()
		want = tlbx.BitsOf(anyCell.RawBitString())
		if _, err := anyCell.ReadBits(k); err != nil {
			return "FAIL prep-any"
		}
		c4 := boc.NewCell()
		if r := check("marshal-any", c4, tlb.Marshal(c4, tlb.Any(*anyCell))); r != "" {
			return r
		}
		return "ok"
	})
}
