//go:build c08

package main

// C08: the get-method result decoders (abi.KnownGetMethodsDecoder: ~120 generated functions that check the shape of a
// VM stack and then convert it with tlb.VmStack.Unmarshal / VmStackValue.Unmarshal / VmStkTuple.Unmarshal by
// reflection). The stack comes from a lite server (runSmcMethod) or from chain state: stacks of the RIGHT shape with
// hostile contents, as cells, decoded by the real VmStack decoder and handed to every registered result decoder.

import (
	"fmt"
	"os"
	"path/filepath"
	"regexp"
	"sort"
	"strconv"
	"time"

	"github.com/tonkeeper/tongo/abi"
	"github.com/tonkeeper/tongo/boc"
	"github.com/tonkeeper/tongo/tlb"
	"verifharness/h"
)

var stackDecoders = func() []func(tlb.VmStack) (string, any, error) {
	var names []string
	for n := range abi.KnownGetMethodsDecoder {
		names = append(names, n)
	}
	sort.Strings(names)
	var out []func(tlb.VmStack) (string, any, error)
	for _, n := range names {
		out = append(out, abi.KnownGetMethodsDecoder[n]...)
	}
	return out
}()

func goABIStack(a []string) string {
	return retrySlow(func() string { return goABIStackOnce(a) })
}

func goABIStackOnce(a []string) (res string) {
	tab := h.ParseTable(a[0])
	cells := h.BuildCells(tab)
	ncells, size := unfolded(tab)
	defer func() {
		if r := recover(); r != nil {
			res = fmt.Sprintf("FAIL panic %v", r)
		}
	}()
	var stack tlb.VmStack
	if err := tlb.Unmarshal(cells[0], &stack); err != nil {
		return "ok"
	}
	a0 := totalAlloc()
	t0 := time.Now()
	accepted := 0
	for _, f := range stackDecoders {
		if _, _, err := f(stack); err == nil {
			accepted++
		}
	}
	dt := time.Since(t0)
	d := totalAlloc() - a0
	// every one of the ~120 decoders may convert the whole stack once
	if d > uint64(len(stackDecoders))*(64*size+1<<16)+1<<20 {
		return fmt.Sprintf("FAIL alloc %d bytes allocated for a stack of %d cells / %d bytes", d, ncells, size)
	}
	if dt > 500*time.Millisecond+time.Duration(ncells)*time.Duration(len(stackDecoders))*20*time.Microsecond {
		return fmt.Sprintf("FAIL slow %v for a stack of %d cells", dt, ncells)
	}
	return "ok " + strconv.Itoa(accepted)
}

// ---------------------------------------------------------------------------------------- stack cells by hand

type stackShape struct {
	exact bool
	n     int
	kinds [][]string // per position: allowed SumTypes (nil = anything)
}

var guardRe = regexp.MustCompile(`(?m)^func (Decode\w+)\(stack tlb\.VmStack\)[^\n]*\n\s*if len\(stack\) (!=|<) (\d+)([^\n]*)\{`)
var posRe = regexp.MustCompile(`stack\[(\d+)\]\.SumType != "(\w+)"`)

func loadStackShapes() []stackShape {
	src, err := os.ReadFile(filepath.Join(repoDir(), "abi", "get_methods.go"))
	if err != nil {
		panic(err)
	}
	var out []stackShape
	for _, m := range guardRe.FindAllStringSubmatch(string(src), -1) {
		n, _ := strconv.Atoi(m[3])
		sh := stackShape{exact: m[2] == "!=", n: n, kinds: make([][]string, n)}
		for _, p := range posRe.FindAllStringSubmatch(m[4], -1) {
			i, _ := strconv.Atoi(p[1])
			if i < n {
				sh.kinds[i] = append(sh.kinds[i], p[2])
			}
		}
		out = append(out, sh)
	}
	if len(out) < 50 {
		panic(fmt.Sprintf("c08: only %d stack guards recognised in abi/get_methods.go: the generated code has changed shape", len(out)))
	}
	return out
}

// valueCell writes one VmStackValue of the given kind at the current position of c
func (gc *genCtx) writeStackValue(c *boc.Cell, kind string, depth int) {
	g := gc.g
	vg := &valGen{rng: g.Rng}
	payload := func() *boc.Cell {
		switch g.Rng.Intn(5) {
		case 0:
			return vg.smallCell(0)
		case 1: // a valid MsgAddress / content / random TL-B value
			cands := []string{"tlb.MsgAddress", "tlb.FullContent", "tlb.Text", "tlb.SnakeData", "tlb.CurrencyCollection", "tlb.Grams"}
			t := tlbByName[cands[g.Rng.Intn(len(cands))]]
			if rows := vg.validSeed(t, 4); rows != nil {
				return h.BuildCells(rows)[0]
			}
			return vg.smallCell(0)
		case 2: // a random registered type
			r := tlbTargets[g.Rng.Intn(len(tlbTargets))]
			if rows := vg.validSeed(r.T, 2); rows != nil {
				return h.BuildCells(rows)[0]
			}
			return boc.NewCell()
		case 3:
			return boc.NewCell()
		default:
			return h.BuildCells(randTree(g))[0]
		}
	}
	switch kind {
	case "VmStkNull":
		_ = c.WriteUint(0, 8)
	case "VmStkTinyInt":
		_ = c.WriteUint(1, 8)
		_ = c.WriteUint(g.U64(), 64)
	case "VmStkInt":
		_ = c.WriteUint(0x0100, 15) // vm_stk_int#0201_
		_ = c.WriteBigInt(vg.randBig(257, true), 257)
	case "VmStkNan":
		_ = c.WriteUint(0x02ff, 16)
	case "VmStkCell", "VmStkBuilder":
		if kind == "VmStkCell" {
			_ = c.WriteUint(3, 8)
		} else {
			_ = c.WriteUint(5, 8)
		}
		_ = c.AddRef(payload())
	case "VmStkSlice":
		p := payload()
		_ = c.WriteUint(4, 8)
		_ = c.AddRef(p)
		st, en := 0, p.BitSize()
		sr, er := 0, p.RefsSize()
		if g.Rng.Intn(4) == 0 && en > 0 {
			st = g.Rng.Intn(en + 1)
			en = st + g.Rng.Intn(en-st+1)
		}
		if g.Rng.Intn(6) == 0 && er > 0 {
			sr = g.Rng.Intn(er + 1)
		}
		_ = c.WriteUint(uint64(st), 10)
		_ = c.WriteUint(uint64(en), 10)
		_ = c.WriteUint(uint64(sr), 3)
		_ = c.WriteUint(uint64(er), 3)
	case "VmStkTuple":
		n := g.Pick(0, 1, 2, 2, 2, 3, 4, 7)
		t := tupleCell(n, func(i int) *boc.Cell {
			e := boc.NewCell()
			k := []string{"VmStkNull", "VmStkTinyInt", "VmStkInt", "VmStkCell", "VmStkSlice", "VmStkTuple"}[g.Rng.Intn(6)]
			if depth > 2 && k == "VmStkTuple" {
				k = "VmStkNull"
			}
			gc.writeStackValue(e, k, depth+1)
			return e
		})
		bs := t.RawBitString()
		_ = c.WriteBitString(bs)
		for _, r := range t.Refs() {
			_ = c.AddRef(r)
		}
	default:
		_ = c.WriteUint(6, 8) // vm_stk_cont: not implemented by the decoder
	}
}

var allKinds = []string{"VmStkNull", "VmStkTinyInt", "VmStkInt", "VmStkCell", "VmStkSlice", "VmStkTuple", "VmStkNan", "VmStkBuilder"}

func (gc *genCtx) stackCell(sh stackShape) *boc.Cell {
	g := gc.g
	n := sh.n
	if !sh.exact {
		n += g.Rng.Intn(3)
	}
	top := boc.NewCell()
	_ = top.WriteUint(uint64(n), 24)
	cur := top
	// vm_stk_cons: rest:^(VmStackList n) tos:VmStackValue ; the LAST element of the Go slice is the top of the stack
	for i := n - 1; i >= 0; i-- {
		rest := boc.NewCell()
		_ = cur.AddRef(rest)
		var kind string
		if i < len(sh.kinds) && len(sh.kinds[i]) > 0 && g.Rng.Intn(10) != 0 {
			kind = sh.kinds[i][g.Rng.Intn(len(sh.kinds[i]))]
		} else {
			kind = allKinds[g.Rng.Intn(len(allKinds))]
		}
		gc.writeStackValue(cur, kind, 0)
		cur = rest
	}
	return top
}

func (gc *genCtx) genABIStacks() {
	g := gc.g
	shapes := loadStackShapes()
	g.Counters["abi_stack_shapes"] = len(shapes)
	g.Counters["abi_stack_decoders"] = len(stackDecoders)
	per := g.Scale(12, 300)
	for _, sh := range shapes {
		for k := 0; k < per; k++ {
			c := gc.stackCell(sh)
			limit := 400
			rows := cellToRows(c, &limit)
			if rows == nil {
				continue
			}
			if g.Rng.Intn(4) == 0 {
				rows = damage(rows, g.Rng.Intn(nDamageKinds), g.Rng.Intn(len(rows)), g.Rng.Intn(1024), g.Rng)
			}
			ts := h.TableString(rows)
			g.Emit("go.abi.stack", ts)
			g.NonTrivial("stack" + ts)
		}
	}
}
