//go:build c08

package main

// C08: the proof decoders that sit on lite-server answers — liteapi.decodeAccountDataFromProof (account-state proof,
// two roots, the second a MerkleProof[ShardStateUnsplit]) and liteapi.decodeBlockHeader (MerkleProof[BlockHeader]) —
// on real proofs damaged at the cell level and re-serialised with the library's own writer (so that the bag-of-cells
// parser, property C07, is not what is being tested).

import (
	"fmt"
	"os"
	"path/filepath"
	"time"

	"github.com/tonkeeper/tongo/boc"
	"github.com/tonkeeper/tongo/liteapi"
	"github.com/tonkeeper/tongo/liteclient"
	"github.com/tonkeeper/tongo/ton"
	"verifharness/h"
)

func readRoot(parts ...string) *boc.Cell {
	b, err := os.ReadFile(filepath.Join(append([]string{repoDir()}, parts...)...))
	if err != nil {
		return nil
	}
	roots, err := boc.DeserializeBoc(b)
	if err != nil || len(roots) == 0 {
		return nil
	}
	return roots[0]
}

func goProof(a []string) string {
	return retrySlow(func() string { return goProofOnce(a) })
}

func goProofOnce(a []string) (res string) {
	tab := h.ParseTable(a[1])
	cells := h.BuildCells(tab)
	ncells, size := unfolded(tab)
	defer func() {
		if r := recover(); r != nil {
			res = fmt.Sprintf("FAIL panic %v", r)
		}
	}()
	one, err := cells[0].ToBocCustom(false, false, false, 0)
	if err != nil {
		return "ok" // the damaged tree cannot be serialised (e.g. too deep): not an input a server can send
	}
	a0 := totalAlloc()
	t0 := time.Now()
	switch a[0] {
	case "acct":
		two, err := multiRootBoc(cells[0], 2)
		if err != nil {
			return "ok"
		}
		_, _, _ = liteapi.VerifDecodeAccountDataFromProof(two, ton.AccountID{})
		_, _, _ = liteapi.VerifDecodeAccountDataFromProof(one, ton.AccountID{}) // one root only: the length guard
	case "header":
		_, _, _ = liteapi.VerifDecodeBlockHeader(liteclient.LiteServerBlockHeaderC{HeaderProof: one})
	default:
		return "bad-op"
	}
	dt := time.Since(t0)
	d := totalAlloc() - a0
	if d > 2*(64*size+1<<20) {
		return fmt.Sprintf("FAIL alloc %d bytes allocated for a tree of %d cells / %d bytes", d, ncells, size)
	}
	if dt > 400*time.Millisecond+time.Duration(ncells)*100*time.Microsecond {
		return fmt.Sprintf("FAIL slow %v for a tree of %d cells", dt, ncells)
	}
	return "ok"
}

func (gc *genCtx) genProofs() {
	g := gc.g
	emit := func(kind string, rows []h.Row, n int) {
		if rows == nil {
			g.Count("proof_seed_missing_" + kind)
			return
		}
		g.Emit("go.proof", kind, h.TableString(rows))
		g.Count("proof_seed_" + kind)
		for k := 0; k < n; k++ {
			m := damage(rows, g.Rng.Intn(nDamageKinds), g.Rng.Intn(len(rows)), g.Rng.Intn(1024), g.Rng)
			if g.Rng.Intn(3) == 0 {
				m = damage(m, g.Rng.Intn(nDamageKinds), g.Rng.Intn(len(m)), g.Rng.Intn(1024), g.Rng)
			}
			g.Emit("go.proof", kind, h.TableString(m))
			g.NonTrivial("proof" + kind + h.TableString(m)[:64] + fmt.Sprint(k))
		}
	}
	// account-state proofs: the repository's real MerkleProof[ShardStateUnsplit] files
	for _, f := range []string{"config_proof_4324374.boc", "config_proof_33651872.boc"} {
		c := readRoot("ton", "testdata", f)
		if c == nil {
			continue
		}
		limit := 1500
		rows := cellToRows(c, &limit)
		n := g.Scale(40, 600)
		if len(rows) > 300 {
			n = g.Scale(8, 100)
		}
		emit("acct", rows, n)
	}
	// block-header proofs: a merkle-proof cell on top of a real block (BlockHeader is a prefix of Block)
	for _, f := range []string{"block-4", "block-5"} {
		c := readRoot("tlb", "testdata", f, "block.bin")
		if c == nil {
			continue
		}
		limit := 1500
		body := cellToRows(c, &limit)
		if body == nil {
			continue
		}
		d := make([]byte, 35)
		g.Rng.Read(d)
		d[0] = 3
		rows := []h.Row{{Ty: 3, BitLen: 280, Data: d, Refs: []int{1}}}
		for _, r := range body {
			r2 := r
			r2.Refs = nil
			for _, x := range r.Refs {
				r2.Refs = append(r2.Refs, x+1)
			}
			rows = append(rows, r2)
		}
		emit("header", rows, g.Scale(40, 600))
	}
	// random trees
	for k := 0; k < g.Scale(100, 2000); k++ {
		g.Emit("go.proof", []string{"acct", "header"}[g.Rng.Intn(2)], h.TableString(randTree(g)))
	}
}
