//go:build c08

package main

// C08: liteapi.Client.GetTransactions end to end against an in-process lite server (the ADNL server of
// c08_adnlsrv.go) that answers liteServer.getTransactions with a chosen number of block ids and of transactions.

import (
	"bytes"
	"context"
	"encoding/base64"
	"encoding/binary"
	"fmt"
	"os"
	"path/filepath"
	"strconv"
	"sync"
	"time"

	"github.com/tonkeeper/tongo/boc"
	"github.com/tonkeeper/tongo/config"
	"github.com/tonkeeper/tongo/liteapi"
	"github.com/tonkeeper/tongo/liteclient"
	"github.com/tonkeeper/tongo/tl"
	"github.com/tonkeeper/tongo/tlb"
	"github.com/tonkeeper/tongo/ton"
)

var (
	txCellOnce sync.Once
	txCell     *boc.Cell
)

// realTransactionCell: a cell of a real block that decodes completely as a tlb.Transaction
func realTransactionCell() *boc.Cell {
	txCellOnce.Do(func() {
		for _, f := range []string{"block-5", "block-3", "block-1"} {
			b, err := os.ReadFile(filepath.Join(repoDir(), "tlb", "testdata", f, "block.bin"))
			if err != nil {
				continue
			}
			roots, err := boc.DeserializeBoc(b)
			if err != nil {
				continue
			}
			seen := map[*boc.Cell]bool{}
			var walk func(c *boc.Cell)
			walk = func(c *boc.Cell) {
				if txCell != nil || seen[c] {
					return
				}
				seen[c] = true
				var t tlb.Transaction
				c.ResetCounters()
				if c.BitSize() > 500 && tlb.Unmarshal(c, &t) == nil && c.BitsAvailableForRead() == 0 {
					c.ResetCounters()
					txCell = c
					return
				}
				c.ResetCounters()
				for _, r := range c.Refs() {
					walk(r)
				}
			}
			for _, r := range roots {
				walk(r)
			}
			if txCell != nil {
				return
			}
		}
	})
	return txCell
}

// multiRootBoc serialises n copies of the cell as an n-root bag of cells (no index, no crc); the root list and the
// cell table are written by hand on top of the single-root serialisation
func multiRootBoc(c *boc.Cell, n int) ([]byte, error) {
	one, err := c.ToBocCustom(false, false, false, 0)
	if err != nil {
		return nil, err
	}
	// header: magic(4) flags(1) off_bytes(1) cells(size) roots(size) absent(size) tot(off) rootlist(size*roots) data
	size := int(one[4] & 7)
	off := int(one[5])
	p := 6
	rd := func(k int) int {
		v := 0
		for i := 0; i < k; i++ {
			v = v<<8 | int(one[p+i])
		}
		p += k
		return v
	}
	cells := rd(size)
	roots := rd(size)
	_ = rd(size)
	tot := rd(off)
	if roots != 1 || size != 1 && cells > 255 {
		return nil, fmt.Errorf("unexpected single-root layout")
	}
	p += size // the root index (0)
	data := one[p : p+tot]
	wr := func(v, k int) []byte {
		b := make([]byte, k)
		for i := k - 1; i >= 0; i-- {
			b[i] = byte(v)
			v >>= 8
		}
		return b
	}
	out := append([]byte{}, one[:6]...)
	out = append(out, wr(cells, size)...)
	out = append(out, wr(n, size)...)
	out = append(out, wr(0, size)...)
	out = append(out, wr(tot, off)...)
	for i := 0; i < n; i++ {
		out = append(out, wr(0, size)...) // every root is cell 0
	}
	out = append(out, data...)
	return out, nil
}

type fakeLiteServer struct {
	srv     *adnlServer
	nIds    int
	nTx     int
	stop    chan struct{}
	txBytes []byte
}

func (f *fakeLiteServer) answer(req []byte) []byte {
	errAnswer := func(code uint32, msg string) []byte {
		b := binary.LittleEndian.AppendUint32(nil, 0xbba9e148)
		body, _ := tl.Marshal(liteclient.LiteServerErrorC{Code: code, Message: msg})
		return append(b, body...)
	}
	if len(req) < 4 {
		return errAnswer(1, "short")
	}
	switch binary.LittleEndian.Uint32(req[:4]) {
	case 0x89b5e62e: // liteServer.getMasterchainInfo
		var info liteclient.LiteServerMasterchainInfoC
		info.Last = liteclient.TonNodeBlockIdExtC{Workchain: 0xffffffff, Shard: 0x8000000000000000, Seqno: 1000}
		b := binary.LittleEndian.AppendUint32(nil, 0x85832881)
		body, _ := tl.Marshal(info)
		return append(b, body...)
	case 0x1c40e7a1: // liteServer.getTransactions
		var res liteclient.LiteServerTransactionListC
		for i := 0; i < f.nIds; i++ {
			res.Ids = append(res.Ids, liteclient.TonNodeBlockIdExtC{Workchain: 0, Shard: 0x8000000000000000, Seqno: uint32(i + 1)})
		}
		res.Transactions = f.txBytes
		b := binary.LittleEndian.AppendUint32(nil, 0x6f26c60b)
		body, _ := tl.Marshal(res)
		return append(b, body...)
	}
	return errAnswer(2, "not supported by the fake server")
}

func (f *fakeLiteServer) serve() {
	for {
		select {
		case <-f.stop:
			return
		default:
		}
		nonce := make([]byte, 32)
		sc, err := f.srv.accept(2*time.Second, nonce)
		if err != nil {
			continue
		}
		go func(sc *srvConn) {
			defer sc.close()
			for {
				_, payload, _, err := sc.readFrame()
				if err != nil {
					return
				}
				// adnl.message.query: magic(4) id(32) query:bytes ; query = liteServer.query magic(4) data:bytes
				if len(payload) < 36 || binary.LittleEndian.Uint32(payload[:4]) != 0xb48bf97a {
					continue // ping etc.
				}
				id := payload[4:36]
				var q []byte
				if tl.Unmarshal(bytes.NewReader(payload[36:]), &q) != nil || len(q) < 4 {
					continue
				}
				var data []byte
				if tl.Unmarshal(bytes.NewReader(q[4:]), &data) != nil {
					continue
				}
				ans := f.answer(data)
				out := binary.LittleEndian.AppendUint32(nil, 0x0fac8416)
				out = append(out, id...)
				enc, _ := tl.Marshal(ans)
				out = append(out, enc...)
				if sc.sendPacket(make([]byte, 32), out) != nil {
					return
				}
			}
		}(sc)
	}
}

// go.net.gettx <nIds> <nTx>: the real liteapi.Client.GetTransactions on an answer with nIds block ids and nTx
// transactions: a value or an error, never a panic
func goNetGetTx(a []string) (ans string) {
	nIds, _ := strconv.Atoi(a[0])
	nTx, _ := strconv.Atoi(a[1])
	c := realTransactionCell()
	if c == nil {
		return "FAIL harness: no transaction cell found in tlb/testdata"
	}
	var txb []byte
	if nTx > 0 {
		var err error
		txb, err = multiRootBoc(c, nTx)
		if err != nil {
			return "FAIL harness: " + err.Error()
		}
		roots, err := boc.DeserializeBoc(txb)
		if err != nil || len(roots) != nTx {
			return fmt.Sprintf("FAIL harness: crafted boc has %d roots, err %v", len(roots), err)
		}
	}
	seed := bytes.Repeat([]byte{7}, 32)
	srv, err := newADNLServer(seed)
	if err != nil {
		return "FAIL harness: " + err.Error()
	}
	f := &fakeLiteServer{srv: srv, nIds: nIds, nTx: nTx, stop: make(chan struct{}), txBytes: txb}
	go f.serve()
	defer func() { close(f.stop); srv.close() }()
	ctx, cancel := context.WithTimeout(context.Background(), 10*time.Second)
	defer cancel()
	cli, err := liteapi.NewClient(liteapi.WithLiteServers([]config.LiteServer{{Host: srv.addr(), Key: base64.StdEncoding.EncodeToString(srv.key.pub)}}),
		liteapi.WithInitializationContext(ctx), liteapi.WithTimeout(5*time.Second))
	if err != nil {
		return "FAIL harness: client does not connect to the fake server: " + err.Error()
	}
	defer func() {
		if r := recover(); r != nil {
			ans = fmt.Sprintf("FAIL panic %v (answer with %d block ids and %d transactions)", r, nIds, nTx)
		}
	}()
	txs, err := cli.GetTransactions(ctx, 10, ton.AccountID{}, 1, ton.Bits256{})
	if err == nil && len(txs) != nTx {
		return fmt.Sprintf("FAIL count got %d transactions for %d", len(txs), nTx)
	}
	if err == nil && nIds != nTx && nTx > 0 { // an empty transaction list is returned before the ids are looked at
		return "FAIL accepted a transaction list whose ids do not match its transactions"
	}
	if err != nil && nIds == nTx {
		return "FAIL harness: matching answer rejected: " + err.Error()
	}
	return "ok"
}
