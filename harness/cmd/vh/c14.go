//go:build c14

package main

import (
	"context"
	"crypto/ed25519"
	"fmt"
	"math/big"
	"math/rand"
	"strconv"
	"strings"
	"time"

	"github.com/tonkeeper/tongo/boc"
	"github.com/tonkeeper/tongo/tlb"
	"github.com/tonkeeper/tongo/ton"
	"github.com/tonkeeper/tongo/wallet"
	"verifharness/h"
)

func init() {
	h.Register(&h.Prop{ID: "C14", Gen: genC14, Exec: withCells(map[string]h.ExecFn{
		"m.body":        exMBody,
		"m.raw":         exMRaw,
		"m.decode":      exMDecode,
		"m.verify":      exMVerify,
		"go.m.sign":     goMSign,
		"go.m.limit":    goMLimit,
		"go.m.modes":    goMModes,
		"m.int":         exMInt,
		"m.intdec":      exMIntDec,
		"go.m.smallkey": goMSmallKey,
		"go.m.expiry":   goMExpiry,
		"m.bodyx":       exMBodyX,
		"m.extn":        exMExtn,
		"go.m.ext":      goMExt,
	})})
}

// ------------------------------------------------------------------------------------------------ helpers

// splitSigned separates a signed body into (signed cell, signature) by position only: the signature is the first 512
// bits for v3/v4/highload and the last 512 bits for v5.
func splitSigned(ver wallet.Version, body *boc.Cell) (*boc.Cell, []byte, error) {
	c := tableCell(cellTable(body))
	n := c.BitsAvailableForRead()
	if n < 512 {
		return nil, nil, fmt.Errorf("short body")
	}
	out := boc.NewCell()
	var sig []byte
	var err error
	cp := func(k int) {
		for i := 0; i < k && err == nil; i++ {
			var b bool
			b, err = c.ReadBit()
			if err == nil {
				err = out.WriteBit(b)
			}
		}
	}
	if ver == wallet.V5R1 || ver == wallet.V5Beta {
		cp(n - 512)
		sig, err = c.ReadBytes(64)
	} else {
		sig, err = c.ReadBytes(64)
		cp(n - 512)
	}
	if err != nil {
		return nil, nil, err
	}
	for _, r := range c.Refs() {
		if err := out.AddRef(r); err != nil {
			return nil, nil, err
		}
	}
	return out, sig, nil
}

func msgsArg(raws []wallet.RawMessage) string {
	if len(raws) == 0 {
		return "-"
	}
	ss := make([]string, len(raws))
	for i, r := range raws {
		ss[i] = fmt.Sprintf("%d:%s", r.Mode, cellTable(r.Message))
	}
	return strings.Join(ss, "/")
}

func parseMsgsArg(s string) []wallet.RawMessage {
	if s == "-" {
		return nil
	}
	var r []wallet.RawMessage
	for _, it := range strings.Split(s, "/") {
		f := strings.SplitN(it, ":", 2)
		r = append(r, wallet.RawMessage{Mode: byte(atoi(f[0])), Message: tableCell(f[1])})
	}
	return r
}

// sendable specs: t,amount,wc,addrhex,bounce,mode,commentLen,cseed,init   (t = s SimpleTransfer | m Message)
type sendSpec struct {
	kind             string
	amount           uint64
	wc               int32
	addr             [32]byte
	bounce           bool
	mode             uint8
	commentLen, seed int
	init             bool
	extras           []extraCur // SimpleTransfer.ExtraCurrency (kind "s" only)
}

// extraCur: one extra currency: id as the int32 map key of the Go API, amount as a decimal string (up to 31 bytes)
type extraCur struct {
	id  int32
	amt string
}

// xs: the extra currencies that count: only a SimpleTransfer has the field
func (s sendSpec) xs() []extraCur {
	if s.kind != "s" {
		return nil
	}
	return s.extras
}

func fmtExtras(l []extraCur) string {
	if len(l) == 0 {
		return "-"
	}
	ss := make([]string, len(l))
	for i, x := range l {
		ss[i] = fmt.Sprintf("%d:%s", uint32(x.id), x.amt)
	}
	return strings.Join(ss, "+")
}

func parseExtras(s string) []extraCur {
	if s == "-" || s == "" {
		return nil
	}
	var l []extraCur
	for _, it := range strings.Split(s, "+") {
		f := strings.Split(it, ":")
		id, err := strconv.ParseUint(f[0], 10, 32)
		if err != nil {
			panic("bad extra currency " + it)
		}
		l = append(l, extraCur{int32(uint32(id)), f[1]})
	}
	return l
}

func extrasMap(l []extraCur) map[int32]tlb.VarUInteger32 {
	if len(l) == 0 {
		return nil
	}
	m := map[int32]tlb.VarUInteger32{}
	for _, x := range l {
		v, ok := new(big.Int).SetString(x.amt, 10)
		if !ok {
			panic("bad amount " + x.amt)
		}
		m[x.id] = tlb.VarUInteger32(*v)
	}
	return m
}

func (s sendSpec) String() string {
	b, i := 0, 0
	if s.bounce {
		b = 1
	}
	if s.init {
		i = 1
	}
	return fmt.Sprintf("%s,%d,%d,%s,%d,%d,%d,%d,%d,%s", s.kind, s.amount, s.wc, h.Hex(s.addr[:]), b, s.mode, s.commentLen, s.seed, i, fmtExtras(s.xs()))
}

func parseSpec(x string) sendSpec {
	f := strings.Split(x, ",")
	var s sendSpec
	s.kind = f[0]
	s.amount, _ = strconv.ParseUint(f[1], 10, 64)
	s.wc = int32(atoi(f[2]))
	copy(s.addr[:], h.MustUnHex(f[3]))
	s.bounce = f[4] == "1"
	s.mode = uint8(atoi(f[5]))
	s.commentLen = atoi(f[6])
	s.seed = atoi(f[7])
	s.init = f[8] == "1"
	if len(f) > 9 {
		s.extras = parseExtras(f[9])
	}
	return s
}

func (s sendSpec) comment() string {
	r := rand.New(rand.NewSource(int64(s.seed)))
	b := make([]byte, s.commentLen)
	for i := range b {
		b[i] = byte(32 + r.Intn(95))
	}
	return string(b)
}

func (s sendSpec) sendable() wallet.Sendable {
	to := ton.AccountID{Workchain: s.wc, Address: s.addr}
	body, code, data, comment := s.parts()
	switch s.kind {
	case "s":
		return wallet.SimpleTransfer{Amount: tlb.Grams(s.amount), Address: to, Comment: comment, Bounceable: s.bounce, ExtraCurrency: extrasMap(s.xs())}
	case "d":
		d := wallet.ContractDeploy{Workchain: s.wc, Code: code, Data: data, Amount: tlb.Grams(s.amount)}
		if body != nil {
			d.Body = body
		}
		return d
	}
	return wallet.Message{Amount: tlb.Grams(s.amount), Address: to, Bounce: s.bounce, Mode: s.mode, Body: body, Code: code, Data: data}
}

// requestedMode: the send mode the caller asked for — the Mode field of a wallet.Message (every value 0..255 is a
// legitimate request, 0 included), and the documented default 3 for a SimpleTransfer or a ContractDeploy, which have
// no mode field.
func (s sendSpec) requestedMode() uint8 {
	if s.kind != "m" {
		return 3
	}
	return s.mode
}

// modeChoice: the send modes with a meaning of their own, and random ones
func modeChoice(g *h.G) uint8 {
	if g.Rng.Intn(3) == 0 {
		return uint8(g.Rng.Intn(256))
	}
	return []uint8{0, 1, 2, 3, 64, 128, 255}[g.Rng.Intn(7)]
}

func vuTime(vu string) time.Time { return time.Unix(atoi64(vu), 0) }

// ------------------------------------------------------------------------------------------------ executors

// m.body <ver> <seed> <wc|_> <sub|_> <net|_> <op> <seqno> <validUntil> <k> <rnd> <sig> <msgs> <specs>
// note: argument 8 of the line protocol is <rnd>; the math/rand seed k is the first field of <specs> ("k;spec;spec…")
func exMBody(a []string) string {
	ver := wallet.Version(atoi(a[0]))
	w, err := wallet.New(keyFromSeed(a[1]), ver, nil, walletOpts(a[2], a[3], a[4])...)
	if err != nil {
		return "err"
	}
	sp := strings.Split(a[11], ";")
	var ss []wallet.Sendable
	for _, x := range sp[1:] {
		ss = append(ss, parseSpec(x).sendable())
	}
	rand.Seed(atoi64(sp[0]))
	body, err := w.CreateMessageBody(wallet.MessageConfig{Seqno: uint32(atoi64(a[6])), ValidUntil: vuTime(a[7]),
		V5MsgType: wallet.V5MsgType(atoi64(a[5]))}, ss...)
	if err != nil {
		return "err"
	}
	signed, _, err := splitSigned(ver, body)
	if err != nil {
		return "FAIL split"
	}
	d, err := signed.Hash()
	if err != nil {
		return "err"
	}
	return "ok " + h.Hex(d) + " " + h.Canon([]*boc.Cell{body})
}

// rawSend runs RawSendV2 with a capturing chain.
func rawSend(ver wallet.Version, seed, wc, sub, net string, init bool, seqno uint32, vu time.Time, k int64,
	raws []wallet.RawMessage) (wallet.Wallet, *scriptedChain, ton.Bits256, error) {
	chain := &scriptedChain{}
	w, err := wallet.New(keyFromSeed(seed), ver, chain, walletOpts(wc, sub, net)...)
	if err != nil {
		panic("wallet.New: " + err.Error())
	}
	var si *tlb.StateInit
	if init {
		si, err = w.StateInit()
		if err != nil {
			panic(err)
		}
	}
	rand.Seed(k)
	hs, err := w.RawSendV2(context.Background(), seqno, vu, raws, si, 0)
	return w, chain, hs, err
}

// m.raw <ver> <seed> <pk> <wc|_> <sub|_> <net|_> <code|-> <init> <seqno> <validUntil> <rnd> <sig> <msgs> — the rand seed
// is carried in front of <sig> as "k.sighex"? No: the line has 13 arguments like the model's; k is derived from rnd.
func exMRaw(a []string) string {
	ver := wallet.Version(atoi(a[0]))
	raws := parseMsgsArg(a[12])
	k := seedForRnd(uint32(atoi64(a[10])))
	_, chain, _, err := rawSend(ver, a[1], a[3], a[4], a[5], a[7] == "1", uint32(atoi64(a[8])), vuTime(a[9]), k, raws)
	if len(chain.sent) == 0 {
		if err != nil {
			return "err sent=0"
		}
		return "ok sent=0"
	}
	cells, derr := boc.DeserializeBoc(chain.sent[0])
	if derr != nil || len(cells) != 1 {
		return "FAIL payload-is-not-a-single-root-boc"
	}
	tag := "ok"
	if err != nil {
		tag = "err"
	}
	return tag + " sent=1 " + h.Canon(cells[:1])
}

// The highload wallet draws rand.Uint32() from the global math/rand source. The generator picks k, seeds the source,
// and records the first Uint32 as <rnd>; the executor must re-seed with the same k. k is recovered from a table
// built once per process (k in 0..4095 → rnd).
var rndToSeed map[uint32]int64

func seedForRnd(rnd uint32) int64 {
	if rndToSeed == nil {
		rndToSeed = map[uint32]int64{}
		for k := int64(0); k < 4096; k++ {
			rand.Seed(k)
			rndToSeed[rand.Uint32()] = k
		}
	}
	k, ok := rndToSeed[rnd]
	if !ok {
		return 0
	}
	return k
}

func rndForSeed(k int64) uint32 {
	rand.Seed(k)
	return rand.Uint32()
}

func hashOrNil(c *boc.Cell) string {
	if c == nil {
		return h.Hex(emptyCellHash())
	}
	hs, err := c.Hash()
	if err != nil {
		return "unhashable"
	}
	return h.Hex(hs)
}

func emptyCellHash() []byte {
	hs, _ := boc.NewCell().Hash()
	return hs
}

// m.decode <ver> <msg>: "ok <sub> <walletId> <net> <wcByte> <seqno> <validUntil> <queryId> <n> <mode:hash>…"
func exMDecode(a []string) string {
	ver := wallet.Version(atoi(a[0]))
	var sub, wid, net, wcb, seq, vu uint32
	var q uint64
	tail := ""
	switch ver {
	case wallet.V3R1, wallet.V3R2:
		m, err := wallet.DecodeMessageV3(tableCell(a[1]))
		if err != nil {
			return "err"
		}
		sub, vu, seq = m.SubWalletId, m.ValidUntil, m.Seqno
	case wallet.V4R1, wallet.V4R2:
		m, err := wallet.DecodeMessageV4(tableCell(a[1]))
		if err != nil {
			return "err"
		}
		sub, vu, seq = m.SubWalletId, m.ValidUntil, m.Seqno
	case wallet.HighLoadV2R2:
		m, err := wallet.DecodeHighloadV2Message(tableCell(a[1]))
		if err != nil {
			return "err"
		}
		sub, q, vu = m.SubWalletId, m.BoundedQueryID, uint32(m.BoundedQueryID>>32)
	case wallet.V5R1:
		m, err := wallet.DecodeMessageV5(tableCell(a[1]))
		if err != nil {
			return "err"
		}
		switch m.SumType {
		case "SignedExternal":
			wid, vu, seq = m.SignedExternal.WalletId, m.SignedExternal.ValidUntil, m.SignedExternal.Seqno
			tail = fmtExts(m.SignedExternal.ExtendedActions)
		case "SignedInternal":
			wid, vu, seq = m.SignedInternal.WalletId, m.SignedInternal.ValidUntil, m.SignedInternal.Seqno
			tail = fmtExts(m.SignedInternal.ExtendedActions)
		case "ExtensionAction":
			q = m.ExtensionAction.QueryID
			tail = fmtExts(m.ExtensionAction.ExtendedActions) + fmtXacts(m.ExtensionAction.Actions)
		default:
			return "unmodelled"
		}
	case wallet.V5Beta:
		m, err := wallet.DecodeMessageV5Beta(tableCell(a[1]))
		if err != nil {
			return "err"
		}
		var id tlb.Bits80
		switch m.SumType {
		case "SignedExternal":
			id, vu, seq = m.SignedExternal.WalletId, m.SignedExternal.ValidUntil, m.SignedExternal.Seqno
		case "SignedInternal":
			id, vu, seq = m.SignedInternal.WalletId, m.SignedInternal.ValidUntil, m.SignedInternal.Seqno
		}
		net = uint32(id[0])<<24 | uint32(id[1])<<16 | uint32(id[2])<<8 | uint32(id[3])
		wcb = uint32(id[4])
		sub = uint32(id[6])<<24 | uint32(id[7])<<16 | uint32(id[8])<<8 | uint32(id[9])
	default:
		return "err"
	}
	raws, err := wallet.ExtractRawMessages(ver, tableCell(a[1]))
	if err != nil {
		return "FAIL decode-ok-but-extract-err"
	}
	var sb strings.Builder
	fmt.Fprintf(&sb, "ok %d %d %d %d %d %d %d %d", sub, wid, net, wcb, seq, vu, q, len(raws))
	for _, r := range raws {
		fmt.Fprintf(&sb, " %d:%s", r.Mode, hashOrNil(r.Message))
	}
	return sb.String() + tail
}

// m.verify <ver> <msg> <pk> <verdict>: "ok 1|0 <digest> <sig>" with digest and signature extracted by position
func exMVerify(a []string) string {
	ver := wallet.Version(atoi(a[0]))
	msg := tableCell(a[1])
	err := wallet.VerifySignature(ver, msg, h.MustUnHex(a[2]))
	if err != nil && err != wallet.ErrBadSignature {
		return "err"
	}
	si, perr := parseSentCell(tableCell(a[1]))
	if perr != nil {
		return "FAIL verify-answered-on-unparsable-message"
	}
	signed, sig, serr := splitSigned(ver, si.body)
	if serr != nil {
		return "FAIL verify-answered-on-short-body"
	}
	d, _ := signed.Hash()
	v := "1"
	if err != nil {
		v = "0"
	}
	return fmt.Sprintf("ok %s %s %s", v, h.Hex(d), h.Hex(sig))
}

// parseSentCell: like parseSent but on a cell, tolerant about address forms (only locates init and body refs).
func parseSentCell(c *boc.Cell) (*sentInfo, error) {
	bs, err := c.ToBocCustom(false, false, false, 0)
	if err != nil {
		return nil, err
	}
	return parseSent(bs)
}

// ------------------------------------------------------------------------------------------------ direct oracles

// go.m.sign <ver> <seed> <wc|_> <sub|_> <net|_> <init> <seqno> <validUntil> <k> <flips> <fseed> <msgs>
// With real Ed25519: the message built by RawSendV2 verifies with the wallet's key, with no other key, not after any
// single-bit flip of the signed body (any cell of it); decoding returns the requested ids, seqno, expiry and exactly
// the requested messages with their modes in order.
func goMSign(a []string) string {
	ver := wallet.Version(atoi(a[0]))
	raws := parseMsgsArg(a[11])
	seqno, vu, k := uint32(atoi64(a[6])), vuTime(a[7]), atoi64(a[8])
	w, chain, hs, err := rawSend(ver, a[1], a[2], a[3], a[4], a[5] == "1", seqno, vu, k, raws)
	if err != nil {
		return "FAIL send-refused " + strings.ReplaceAll(err.Error(), " ", "_")
	}
	if len(chain.sent) != 1 {
		return "FAIL sent-count"
	}
	cells, err := boc.DeserializeBoc(chain.sent[0])
	if err != nil || len(cells) != 1 {
		return "FAIL payload"
	}
	msgTable := cellTable(cells[0])
	if mh, _ := cells[0].Hash(); string(mh) != string(hs[:]) {
		return "FAIL returned-hash"
	}
	key := keyFromSeed(a[1])
	pub := key.Public().(ed25519.PublicKey)
	if err := wallet.VerifySignature(ver, tableCell(msgTable), pub); err != nil {
		return "FAIL own-key-rejected " + strings.ReplaceAll(err.Error(), " ", "_")
	}
	fr := rand.New(rand.NewSource(atoi64(a[10])))
	for i := 0; i < 3; i++ {
		other := make([]byte, 32)
		fr.Read(other)
		opub := ed25519.NewKeyFromSeed(other).Public().(ed25519.PublicKey)
		if err := wallet.VerifySignature(ver, tableCell(msgTable), opub); err == nil {
			return "FAIL foreign-key-accepted"
		}
	}
	// decoded content
	got, err := wallet.ExtractRawMessages(ver, tableCell(msgTable))
	if err != nil {
		return "FAIL extract-err " + strings.ReplaceAll(err.Error(), " ", "_")
	}
	if len(got) != len(raws) {
		return fmt.Sprintf("FAIL extract-count got=%d want=%d", len(got), len(raws))
	}
	for i := range got {
		if got[i].Mode != raws[i].Mode || hashOrNil(got[i].Message) != hashOrNil(raws[i].Message) {
			return fmt.Sprintf("FAIL extract-message %d", i)
		}
	}
	if r := checkDecodedFields(ver, w, msgTable, a[2], a[3], a[4], seqno, uint32(atoi64(a[7]))); r != "" {
		return r
	}
	// single-bit flips anywhere in the signed body (the body cell and every cell below it)
	si, err := parseSent(chain.sent[0])
	if err != nil {
		return "FAIL parse " + err.Error()
	}
	// the envelope: addressed to the wallet's own address = hash of its state init; the state init attached exactly
	// when requested, with the version's code and the fresh data (reference cells built by hand)
	wantInit, wantDest := refWallet(ver, pub, refIdsOf(ver, a[2], a[3], a[4]))
	if si.destWc != wantDest.destWc || si.destAddr != wantDest.destAddr {
		return "FAIL destination-is-not-the-hash-of-the-wallet-state-init"
	}
	switch {
	case a[5] == "1" && si.init == nil:
		return "FAIL wallet-init-dropped"
	case a[5] != "1" && si.init != nil:
		return "FAIL wallet-init-unrequested"
	case si.init != nil && hashOrNil(si.init) != hashOrNil(wantInit):
		return "FAIL wallet-init-changed"
	}
	rows := h.ParseTable(cellTable(si.body))
	nflips := atoi(a[9])
	for i := 0; i < nflips; i++ {
		// choose a row with bits, then a bit
		var cand []int
		for ri, r := range rows {
			if r.BitLen > 0 {
				cand = append(cand, ri)
			}
		}
		ri := cand[fr.Intn(len(cand))]
		if fr.Intn(3) != 0 {
			ri = 0 // mostly the body cell itself
		}
		bit := fr.Intn(rows[ri].BitLen)
		mut := make([]h.Row, len(rows))
		copy(mut, rows)
		d := append([]byte{}, rows[ri].Data...)
		d[bit/8] ^= 0x80 >> uint(bit%8)
		mut[ri].Data = d
		body2 := h.BuildCells(mut)[0]
		msg2 := rebuildExt(si, body2)
		verdict := func() (res string) {
			defer func() {
				if p := recover(); p != nil {
					res = "panic"
				}
			}()
			if err := wallet.VerifySignature(ver, msg2, pub); err == nil {
				return "accepted"
			}
			return "rejected"
		}()
		if verdict != "rejected" {
			return fmt.Sprintf("FAIL flipped-body-%s row=%d bit=%d", verdict, ri, bit)
		}
	}
	return "ok"
}

// rebuildExt re-creates the external message around another body cell.
func rebuildExt(si *sentInfo, body *boc.Cell) *boc.Cell {
	c := boc.NewCell()
	_ = c.WriteUint(2, 2)
	_ = c.WriteUint(0, 2)
	_ = c.WriteUint(2, 2)
	_ = c.WriteBit(false)
	_ = c.WriteInt(int64(si.destWc), 8)
	_ = c.WriteBytes(si.destAddr[:])
	_ = c.WriteUint(0, 4)
	if si.init != nil {
		_ = c.WriteUint(3, 2)
		_ = c.AddRef(si.init)
	} else {
		_ = c.WriteBit(false)
	}
	_ = c.WriteBit(true)
	_ = c.AddRef(body)
	return c
}

func checkDecodedFields(ver wallet.Version, w wallet.Wallet, msgTable, wcS, subS, netS string, seqno, vu uint32) string {
	wc := 0
	if wcS != "_" {
		wc = atoi(wcS)
	}
	sub := uint32(wallet.DefaultSubWallet + wc)
	if subS != "_" {
		sub = uint32(atoi64(subS))
	}
	net := int32(wallet.MainnetGlobalID)
	if netS != "_" {
		net = int32(atoi64(netS))
	}
	bad := func(what string) string { return "FAIL decoded-" + what }
	switch ver {
	case wallet.V3R1, wallet.V3R2:
		m, err := wallet.DecodeMessageV3(tableCell(msgTable))
		if err != nil {
			return bad("err")
		}
		if m.SubWalletId != sub || m.Seqno != seqno || m.ValidUntil != vu {
			return bad("fields")
		}
	case wallet.V4R1, wallet.V4R2:
		m, err := wallet.DecodeMessageV4(tableCell(msgTable))
		if err != nil {
			return bad("err")
		}
		if m.SubWalletId != sub || m.Seqno != seqno || m.ValidUntil != vu || m.Op != 0 {
			return bad("fields")
		}
	case wallet.HighLoadV2R2:
		m, err := wallet.DecodeHighloadV2Message(tableCell(msgTable))
		if err != nil {
			return bad("err")
		}
		if m.SubWalletId != sub || uint32(m.BoundedQueryID>>32) != vu {
			return bad("fields")
		}
	case wallet.V5R1:
		m, err := wallet.DecodeMessageV5(tableCell(msgTable))
		if err != nil {
			return bad("err")
		}
		if m.SumType != "SignedExternal" {
			return bad("sumtype")
		}
		wantID := (uint32(1)<<31 | uint32(uint8(wc))<<23) ^ uint32(net)
		x := m.SignedExternal
		if x.WalletId != wantID || x.Seqno != seqno || x.ValidUntil != vu || x.ExtendedActions != nil {
			return bad("fields")
		}
	case wallet.V5Beta:
		m, err := wallet.DecodeMessageV5Beta(tableCell(msgTable))
		if err != nil {
			return bad("err")
		}
		if m.SumType != "SignedExternal" {
			return bad("sumtype")
		}
		x := m.SignedExternal
		sb := uint32(0)
		if subS != "_" {
			sb = uint32(atoi64(subS))
		}
		var id tlb.Bits80
		id[0], id[1], id[2], id[3] = byte(uint32(net)>>24), byte(uint32(net)>>16), byte(uint32(net)>>8), byte(uint32(net))
		id[4] = uint8(wc)
		id[6], id[7], id[8], id[9] = byte(sb>>24), byte(sb>>16), byte(sb>>8), byte(sb)
		if x.WalletId != id || x.Seqno != seqno || x.ValidUntil != vu || x.Op {
			return bad("fields")
		}
	}
	return ""
}

// go.m.modes <ver> <seed> <specs>: every construction path carries exactly the requested send modes (0 included) and
// the requested messages, in order: Send (Sendable -> ToInternal -> SendV2), CreateMessageBody (Sendable -> ToInternal),
// and RawSend with RawMessage values. "Requested" is the hand-built reference internal message (refInternal), never
// the result of ToInternal. Messages WITH a state init (wallet.Message{Code, Data}, ContractDeploy, a RawMessage
// whose cell carries an init) are compared field by field: code hash, data hash, no library, and for a deploy the
// destination is the hash of the state init the message carries.
func goMModes(a []string) string {
	ver := wallet.Version(atoi(a[0]))
	var specs []sendSpec
	var ss []wallet.Sendable
	var want []wallet.RawMessage
	for _, x := range strings.Split(a[2], ";") {
		sp := parseSpec(x)
		specs = append(specs, sp)
		ss = append(ss, sp.sendable())
		want = append(want, sp.refRaw())
	}
	check := func(path string, msg *boc.Cell) string {
		got, err := wallet.ExtractRawMessages(ver, msg)
		if err != nil {
			return "FAIL " + path + "-extract-err"
		}
		if len(got) != len(want) {
			return fmt.Sprintf("FAIL %s-count got=%d want=%d", path, len(got), len(want))
		}
		for i := range got {
			if got[i].Mode != want[i].Mode {
				return fmt.Sprintf("FAIL %s-mode-changed message=%d requested=%d sent=%d", path, i, want[i].Mode, got[i].Mode)
			}
			if r := checkInit(path, i, specs[i], got[i].Message); r != "" {
				return r
			}
			if hashOrNil(got[i].Message) != hashOrNil(want[i].Message) {
				return fmt.Sprintf("FAIL %s-message-changed message=%d", path, i)
			}
		}
		return ""
	}
	// 1. Send
	chain := &scriptedChain{state: acctState("none")}
	w, err := wallet.New(keyFromSeed(a[1]), ver, chain)
	if err != nil {
		return "FAIL new"
	}
	if err := w.Send(context.Background(), ss...); err != nil {
		return "FAIL send-refused"
	}
	if len(chain.sent) != 1 {
		return "FAIL send-count"
	}
	cells, err := boc.DeserializeBoc(chain.sent[0])
	if err != nil || len(cells) != 1 {
		return "FAIL send-payload"
	}
	if r := check("send", cells[0]); r != "" {
		return r
	}
	// 2. CreateMessageBody, wrapped into an external message by hand
	body, err := w.CreateMessageBody(wallet.MessageConfig{Seqno: 7, ValidUntil: time.Unix(1800000000, 0), V5MsgType: wallet.V5MsgTypeSignedExternal}, ss...)
	if err != nil {
		return "FAIL create-body"
	}
	var self [32]byte
	env := rebuildExt(&sentInfo{destWc: 0, destAddr: self}, body)
	if r := check("create-body", env); r != "" {
		return r
	}
	// 3. RawSend with the requested messages (reference cells, inits included) and modes given directly
	chain2 := &scriptedChain{}
	w2, _ := wallet.New(keyFromSeed(a[1]), ver, chain2)
	if err := w2.RawSend(context.Background(), 7, time.Unix(1800000000, 0), want, nil); err != nil || len(chain2.sent) != 1 {
		return "FAIL rawsend-refused"
	}
	cells2, err := boc.DeserializeBoc(chain2.sent[0])
	if err != nil || len(cells2) != 1 {
		return "FAIL rawsend-payload"
	}
	if r := check("rawsend", cells2[0]); r != "" {
		return r
	}
	return "ok"
}

// limitMsgs: n distinct small messages with distinct modes
func limitMsgs(n int) []wallet.RawMessage {
	raws := make([]wallet.RawMessage, n)
	for i := range raws {
		c := boc.NewCell()
		_ = c.WriteUint(uint64(i), 16)
		raws[i] = wallet.RawMessage{Message: c, Mode: byte(i)}
	}
	return raws
}

// go.m.limit <ver> <seed> <n>: both sides of the batch-size boundary. Up to and INCLUDING the version's maximum the
// send is accepted, exactly one message goes out and it carries exactly the n requested messages in order; above the
// maximum the send is refused and nothing is sent. (The expected side comes from the documented maxima, not from the
// wallet.)
func goMLimit(a []string) string {
	ver := wallet.Version(atoi(a[0]))
	n := atoi(a[2])
	raws := limitMsgs(n)
	_, chain, _, err := rawSend(ver, a[1], "_", "_", "_", false, 1, time.Unix(1700000000, 0), 0, raws)
	if n > maxMsgs(ver) {
		if err == nil {
			return fmt.Sprintf("FAIL over-limit-send-not-refused n=%d max=%d", n, maxMsgs(ver))
		}
		if len(chain.sent) != 0 {
			return fmt.Sprintf("FAIL over-limit-send-refused-but-sent n=%d", n)
		}
		return "ok"
	}
	if err != nil {
		return fmt.Sprintf("FAIL within-limit-send-refused n=%d max=%d err=%s", n, maxMsgs(ver), strings.ReplaceAll(err.Error(), " ", "_"))
	}
	if len(chain.sent) != 1 {
		return fmt.Sprintf("FAIL within-limit-sent-count n=%d sent=%d", n, len(chain.sent))
	}
	cells, derr := boc.DeserializeBoc(chain.sent[0])
	if derr != nil || len(cells) != 1 {
		return "FAIL within-limit-payload"
	}
	got, xerr := wallet.ExtractRawMessages(ver, cells[0])
	if xerr != nil {
		return "FAIL within-limit-extract-err"
	}
	if len(got) != n {
		return fmt.Sprintf("FAIL within-limit-carried-count n=%d carried=%d", n, len(got))
	}
	for i := range got {
		if got[i].Mode != raws[i].Mode || hashOrNil(got[i].Message) != hashOrNil(raws[i].Message) {
			return fmt.Sprintf("FAIL within-limit-message-changed n=%d message=%d", n, i)
		}
	}
	return "ok"
}

// m.int <kind> <amount> <wc> <addrhex> <bounce> <mode> <commenthex|-> <body|-> <code|-> <data|-> <extras|->: the internal message
// ToInternal + Marshal produce for wallet.SimpleTransfer (s), wallet.Message (m), wallet.ContractDeploy (d), and the
// mode ToInternal returns: "ok <mode> <cells>"
func exMInt(a []string) string {
	amount, _ := strconv.ParseUint(a[1], 10, 64)
	var to ton.AccountID
	to.Workchain = int32(atoi(a[2]))
	copy(to.Address[:], h.MustUnHex(a[3]))
	opt := func(x string) *boc.Cell {
		if x == "-" {
			return nil
		}
		return tableCell(x)
	}
	var sd wallet.Sendable
	switch a[0] {
	case "s":
		sd = wallet.SimpleTransfer{Amount: tlb.Grams(amount), Address: to, Comment: string(unComment(a[6])), Bounceable: a[4] == "1",
			ExtraCurrency: extrasMap(parseExtras(a[10]))}
	case "m":
		sd = wallet.Message{Amount: tlb.Grams(amount), Address: to, Bounce: a[4] == "1", Mode: uint8(atoi(a[5])), Body: opt(a[7]), Code: opt(a[8]), Data: opt(a[9])}
	case "d":
		d := wallet.ContractDeploy{Workchain: to.Workchain, Amount: tlb.Grams(amount)}
		if c := opt(a[7]); c != nil {
			d.Body = c
		}
		if c := opt(a[8]); c != nil {
			d.Code = c
		}
		if c := opt(a[9]); c != nil {
			d.Data = c
		}
		sd = d
	default:
		return "err"
	}
	msg, mode, err := sd.ToInternal()
	if err != nil {
		return "err"
	}
	c := boc.NewCell()
	if err := tlb.Marshal(c, msg); err != nil {
		return "err"
	}
	return fmt.Sprintf("ok %d %s", mode, h.Canon([]*boc.Cell{c}))
}

// m.intdec <msg>: the library's tlb.Message decoder on an internal message:
// "ok <bounce> <wc:addr|none> <amount> <hasInit> <codehash|-> <datahash|-> <bodyhash>"
func exMIntDec(a []string) string {
	var m tlb.Message
	if err := tlb.Unmarshal(tableCell(a[0]), &m); err != nil {
		return "err"
	}
	if m.Info.SumType != "IntMsgInfo" {
		return "unmodelled"
	}
	info := m.Info.IntMsgInfo
	dest := "none"
	if info.Dest.SumType == "AddrStd" {
		dest = fmt.Sprintf("%d:%s", info.Dest.AddrStd.WorkchainId, h.Hex(info.Dest.AddrStd.Address[:]))
	}
	b := func(x bool) string {
		if x {
			return "1"
		}
		return "0"
	}
	code, data := "-", "-"
	if m.Init.Exists {
		si := m.Init.Value.Value
		if si.Code.Exists {
			code = hashOrNil(&si.Code.Value.Value)
		}
		if si.Data.Exists {
			data = hashOrNil(&si.Data.Value.Value)
		}
	}
	body := boc.Cell(m.Body.Value)
	xs := ""
	if items := info.Value.Other.Dict.Items(); len(items) > 0 {
		var ss []string
		for _, it := range items {
			v := big.Int(it.Value)
			ss = append(ss, fmt.Sprintf("%d:%s", uint32(it.Key), v.String()))
		}
		xs = " x=" + strings.Join(ss, "+")
	}
	return fmt.Sprintf("ok %s %s %d %s %s %s %s%s", b(info.Bounce), dest, uint64(info.Value.Grams), b(m.Init.Exists), code, data, hashOrNil(&body), xs)
}

func unComment(x string) []byte {
	if x == "-" {
		return nil
	}
	return h.MustUnHex(x[1:])
}

// go.m.smallkey <ver> <fseed>: THE LIMIT of the idealisation (lean/TongoProofs/Lemmas/SigIdeal.lean), witnessed on the
// real code: under the small-order Ed25519 key 01 00 … 00 (not an honestly generated key) VerifySignature accepts ANY body
// carrying the fixed signature R = identity, S = 0. "No other key" is therefore stated, and true, for honestly
// generated keys only. "ok" = the limit reproduces.
func goMSmallKey(a []string) string {
	ver := wallet.Version(atoi(a[0]))
	r := rand.New(rand.NewSource(atoi64(a[1])))
	low := make([]byte, 32)
	low[0] = 1
	sig := make([]byte, 64)
	sig[0] = 1
	for i := 0; i < 4; i++ {
		signed := boc.NewCell()
		for j := r.Intn(400); j > 0; j-- {
			_ = signed.WriteBit(r.Intn(2) == 1)
		}
		var self [32]byte
		env := rebuildExt(&sentInfo{destWc: 0, destAddr: self}, refAttach(ver, signed, sig))
		if err := wallet.VerifySignature(ver, env, low); err != nil {
			return "FAIL limit-not-reproduced small-order-key-rejected"
		}
		pub, _, _ := ed25519.GenerateKey(r)
		if err := wallet.VerifySignature(ver, tableCell(cellTable(env)), pub); err == nil {
			return "FAIL honest-key-accepted-the-fixed-signature"
		}
	}
	return "ok"
}

// bodyValidUntil reads the expiry field of a signed body by its fixed offset (highload: the upper 32 bits of the
// query id)
func bodyValidUntil(v wallet.Version, body *boc.Cell) (uint32, error) {
	c := tableCell(cellTable(body))
	var skip int
	switch v {
	case wallet.V3R1, wallet.V3R2, wallet.V4R1, wallet.V4R2, wallet.HighLoadV2R2:
		skip = 512 + 32
	case wallet.V5R1:
		skip = 32 + 32
	case wallet.V5Beta:
		skip = 32 + 80
	default:
		return 0, fmt.Errorf("version cannot send")
	}
	if err := c.Skip(skip); err != nil {
		return 0, err
	}
	x, err := c.ReadUint(32)
	return uint32(x), err
}

// go.m.expiry <ver> <seed> <lifetime seconds|_>: the VALID-UNTIL of what Send / SendV2 hands to the chain, and of
// CreateMessageBody without an explicit expiry: now + the wallet's message lifetime — the default 3 minutes, or the
// value given with WithMessageLifetime —, hence in the future; never in the past, never the default when another
// lifetime was asked for. Tolerance 3 s around the two clock readings taken before and after the call.
func goMExpiry(a []string) string {
	ver := wallet.Version(atoi(a[0]))
	life := int64(wallet.DefaultMessageLifetime / time.Second)
	var opts []wallet.Option
	if a[2] != "_" {
		life = atoi64(a[2])
		opts = append(opts, wallet.WithMessageLifetime(time.Duration(life)*time.Second))
	}
	if life != 180 && a[2] == "_" {
		return "FAIL default-lifetime-is-not-3-minutes"
	}
	window := func(path string, before, after int64, vu uint32) string {
		if int64(vu) <= after {
			return fmt.Sprintf("FAIL %s-message-already-expired valid_until=%d now=%d", path, vu, after)
		}
		if int64(vu) < before+life-3 || int64(vu) > after+life+3 {
			return fmt.Sprintf("FAIL %s-expiry-is-not-now-plus-lifetime valid_until-now=%d lifetime=%d", path, int64(vu)-before, life)
		}
		return ""
	}
	sp := sendSpec{kind: "m", amount: 5, mode: 3}
	// 1. Send (-> SendV2 -> RawSendV2)
	chain := &scriptedChain{state: acctState("none")}
	w, err := wallet.New(keyFromSeed(a[1]), ver, chain, opts...)
	if err != nil {
		return "FAIL new"
	}
	before := time.Now().Unix()
	if err := w.Send(context.Background(), sp.sendable()); err != nil || len(chain.sent) != 1 {
		return "FAIL send-refused"
	}
	after := time.Now().Unix()
	si, err := parseSent(chain.sent[0])
	if err != nil {
		return "FAIL parse"
	}
	vu, err := bodyValidUntil(ver, si.body)
	if err != nil {
		return "FAIL read-expiry"
	}
	if r := window("send", before, after, vu); r != "" {
		return r
	}
	// 2. CreateMessageBody without ValidUntil
	before = time.Now().Unix()
	body, err := w.CreateMessageBody(wallet.MessageConfig{Seqno: 1, V5MsgType: wallet.V5MsgTypeSignedExternal}, sp.sendable())
	if err != nil {
		return "FAIL create-body"
	}
	after = time.Now().Unix()
	if vu, err = bodyValidUntil(ver, body); err != nil {
		return "FAIL read-expiry"
	}
	if r := window("create-body", before, after, vu); r != "" {
		return r
	}
	return "ok"
}

// intLine: the m.int arguments of a spec
func (s sendSpec) intLine() []string {
	body, code, data, comment := s.parts()
	opt := func(c *boc.Cell) string {
		if c == nil {
			return "-"
		}
		return cellTable(c)
	}
	b := "0"
	if s.bounce {
		b = "1"
	}
	cm := "-"
	if s.kind == "s" && comment != "" {
		cm = "-" + h.Hex([]byte(comment))
	}
	return []string{s.kind, fmt.Sprint(s.amount), fmt.Sprint(s.wc), h.Hex(s.addr[:]), b, fmt.Sprint(s.mode), cm, opt(body), opt(code), opt(data), fmtExtras(s.xs())}
}

// --------------------------------------------------------------------------------------------------- generator

func genSpec(g *h.G) sendSpec {
	var s sendSpec
	s.kind = "m"
	if g.Rng.Intn(2) == 0 {
		s.kind = "s"
	}
	switch g.Rng.Intn(4) {
	case 0:
		s.amount = 0
	case 1:
		s.amount = uint64(g.Rng.Intn(1000))
	case 2:
		s.amount = g.Rng.Uint64() >> uint(g.Rng.Intn(40))
	default:
		s.amount = 1_000_000_000 * uint64(g.Rng.Intn(5000))
	}
	s.wc = int32(g.Pick(0, -1, 0, 0))
	copy(s.addr[:], g.Bytes(32))
	s.bounce = g.Rng.Intn(2) == 0
	s.mode = modeChoice(g)
	if s.kind == "s" {
		s.mode = wallet.DefaultMessageMode
	}
	switch g.Rng.Intn(5) {
	case 0:
		s.commentLen = 0
	case 1:
		s.commentLen = g.Rng.Intn(30)
	case 2:
		s.commentLen = g.Pick(122, 123, 124, 127, 128, 250, 2000)
	default:
		s.commentLen = g.Rng.Intn(2001)
	}
	s.seed = g.Rng.Intn(1 << 30)
	if s.kind == "s" && g.Rng.Intn(3) == 0 {
		s.extras = genExtras(g)
	}
	s.init = s.kind == "m" && g.Rng.Intn(4) == 0
	if g.Rng.Intn(8) == 0 {
		s.kind, s.init, s.mode = "d", false, wallet.DefaultMessageMode
	}
	return s
}

// genExtras: 1..3 extra currencies with distinct ids (0, 2^31-1, 2^32-1 = int32(-1), small, random) and amounts 0, 1,
// 2^63, 2^64, 2^248-1 (31 bytes, the maximum of VarUInteger 32), random
func genExtras(g *h.G) []extraCur {
	n := 1 + g.Rng.Intn(3)
	seen := map[int32]bool{}
	var l []extraCur
	for len(l) < n {
		var id int32
		switch g.Rng.Intn(6) {
		case 0:
			id = 0
		case 1:
			id = 2147483647
		case 2:
			id = -1
		case 3:
			id = int32(g.Rng.Intn(100))
		case 4:
			id = -2147483648
		default:
			id = int32(g.Rng.Uint32())
		}
		if seen[id] {
			continue
		}
		seen[id] = true
		var amt *big.Int
		switch g.Rng.Intn(7) {
		case 0:
			amt = big.NewInt(0)
		case 1:
			amt = big.NewInt(1)
		case 2:
			amt = new(big.Int).Lsh(big.NewInt(1), 63)
		case 3:
			amt = new(big.Int).Lsh(big.NewInt(1), 64)
		case 4:
			amt = new(big.Int).Sub(new(big.Int).Lsh(big.NewInt(1), 248), big.NewInt(1))
		default:
			amt = new(big.Int).SetBytes(g.Bytes(1 + g.Rng.Intn(31)))
		}
		l = append(l, extraCur{id, amt.String()})
	}
	return l
}

func randRawCell(g *h.G) *boc.Cell {
	t := g.RandOrdinaryTable(h.DagOpts{MaxCells: 1 + g.Rng.Intn(6)})
	return h.BuildCells(t)[0]
}

func u32Choice(g *h.G) uint32 {
	switch g.Rng.Intn(6) {
	case 0:
		return 0
	case 1:
		return 1
	case 2:
		return 1 << 31
	case 3:
		return 4294967295
	}
	return g.Rng.Uint32()
}

func genC14(g *h.G) {
	cx := &c14opts{g}
	genPrim(g, "prim.sha256")
	genExt(g)
	genInt(g)
	nCases := g.Scale(40, 1000)
	for _, ver := range sendVers {
		vs := fmt.Sprint(int(ver))
		max := maxMsgs(ver)
		for i := 0; i < nCases; i++ {
			seed := h.Hex(g.Bytes(32))
			key := keyFromSeed(seed)
			pk := h.Hex(key.Public().(ed25519.PublicKey))
			wc, sub, net := cx.wc(), cx.sub(), cx.net()
			seqno, vu := u32Choice(g), u32Choice(g)
			k := int64(g.Rng.Intn(4096))
			rnd := rndForSeed(k)
			// message count: small mostly, the maximum and near it sometimes
			n := g.Rng.Intn(5)
			if max > 4 && g.Rng.Intn(6) == 0 {
				n = g.Pick(max, max-1, 5, 17, 100)
			}
			if g.Rng.Intn(10) == 0 {
				n = g.Pick(0, max)
			}
			g.Count(fmt.Sprintf("msgs_%s", bucket(n, max)))
			g.Count("ver_" + ver.ToString())
			var raws []wallet.RawMessage
			var specs []string
			useSpecs := g.Rng.Intn(2) == 0
			for j := 0; j < n; j++ {
				if useSpecs {
					sp := genSpec(g)
					if n > 20 && sp.commentLen > 200 {
						sp.commentLen %= 200
					}
					specs = append(specs, sp.String())
					raws = append(raws, sp.refRaw())
					if sp.init || sp.kind == "d" {
						g.Count("msg_with_state_init_" + sp.kind)
					}
				} else {
					raws = append(raws, wallet.RawMessage{Message: randRawCell(g), Mode: modeChoice(g)})
				}
			}
			init := g.Rng.Intn(3) == 0
			initS := "0"
			if init {
				initS = "1"
			}
			// the expected message, built by hand (c14ref.go); signature computed directly with crypto/ed25519 on the
			// hash of the reference signed cell. Nothing here goes through the wallet package.
			si, sig := refWalletMessage(ver, key, wc, sub, net, init, uint32(wallet.V5MsgTypeSignedExternal), seqno, vu, rnd, raws, "n")
			g.NonTrivial(fmt.Sprintf("%s/%s/%d/%d/%d", vs, seed, n, seqno, vu))
			margs := msgsArg(raws)
			g.Emit("m.raw", vs, seed, pk, wc, sub, net, codeTable(ver), initS, fmt.Sprint(seqno), fmt.Sprint(vu), fmt.Sprint(rnd), h.Hex(sig), margs)
			flips := 8
			if n > 50 {
				flips = 3
			}
			g.Emit("go.m.sign", vs, seed, wc, sub, net, initS, fmt.Sprint(seqno), fmt.Sprint(vu), fmt.Sprint(k),
				fmt.Sprint(flips), fmt.Sprint(g.Rng.Intn(1<<30)), margs)
			// the same through CreateMessageBody with Sendables
			if useSpecs {
				op := uint32(wallet.V5MsgTypeSignedExternal)
				if g.Rng.Intn(3) == 0 {
					op = uint32(wallet.V5MsgTypeSignedInternal)
				}
				_, sig2 := refWalletMessage(ver, key, wc, sub, net, false, op, seqno, vu, rnd, raws, "n")
				g.Emit("m.body", vs, seed, wc, sub, net, fmt.Sprint(op), fmt.Sprint(seqno), fmt.Sprint(vu), fmt.Sprint(rnd),
					h.Hex(sig2), margs, strings.Join(append([]string{fmt.Sprint(k)}, specs...), ";"))
			}
			if si == nil {
				continue
			}
			msgTable := cellTable(si.root)
			g.Emit("m.decode", vs, msgTable)
			g.Emit("m.verify", vs, msgTable, pk, "1")
			other := ed25519.NewKeyFromSeed(g.Bytes(32)).Public().(ed25519.PublicKey)
			g.Emit("m.verify", vs, msgTable, h.Hex(other), "0")
			if g.Rng.Intn(8) == 0 {
				g.Emit("m.verify", vs, msgTable, h.Hex(g.Bytes(g.Pick(0, 31, 33, 64))), "0")
			}
			// mutated messages: single bit flips in the body cell, re-verified and re-decoded by both sides
			rows := h.ParseTable(cellTable(si.body))
			for f := 0; f < 2; f++ {
				bit := g.Rng.Intn(rows[0].BitLen)
				mut := make([]h.Row, len(rows))
				copy(mut, rows)
				d := append([]byte{}, rows[0].Data...)
				d[bit/8] ^= 0x80 >> uint(bit%8)
				mut[0].Data = d
				msg2 := rebuildExt(si, h.BuildCells(mut)[0])
				t2 := cellTable(msg2)
				verdict := "0"
				if sc, sg2, err := splitSigned(ver, h.BuildCells(mut)[0]); err == nil {
					if dd, err := sc.Hash(); err == nil && ed25519.Verify(key.Public().(ed25519.PublicKey), dd, sg2) {
						verdict = "1"
					}
				}
				g.Count("mutated_verify")
				g.Emit("m.verify", vs, t2, pk, verdict)
				if ver == wallet.V5R1 && bit == 129 {
					continue // sets the extended-actions flag: outside the modelled decoder fragment
				}
				g.Emit("m.decode", vs, t2)
			}
		}
		// send modes on every construction path: all the distinguished modes, each through wallet.Message, plus
		// SimpleTransfer (default mode) and random mixes
		for _, md := range []uint8{0, 1, 2, 3, 64, 128, 255} {
			sp := genSpec(g)
			sp.kind, sp.mode, sp.commentLen = "m", md, sp.commentLen%100
			sp2 := genSpec(g)
			sp2.commentLen %= 100
			g.Count(fmt.Sprintf("modes_path_mode_%d", md))
			g.Emit("go.m.modes", vs, h.Hex(g.Bytes(32)), sp.String()+";"+sp2.String())
		}
		// outgoing messages WITH a state init on every construction path: wallet.Message{Code, Data}, ContractDeploy,
		// alone and mixed with plain transfers
		for i := 0; i < g.Scale(6, 60); i++ {
			sp := genSpec(g)
			sp.kind, sp.init, sp.commentLen = "m", true, sp.commentLen%100
			dp := genSpec(g)
			dp.kind, dp.init, dp.commentLen = "d", false, dp.commentLen%100
			pl := genSpec(g)
			pl.commentLen %= 100
			xs := [][]sendSpec{{sp}, {dp}, {pl, dp, sp}, {dp, sp}}[i%4]
			var ss []string
			for _, x := range xs {
				ss = append(ss, x.String())
				g.Count("modes_path_state_init_" + x.kind)
			}
			g.Emit("go.m.modes", vs, h.Hex(g.Bytes(32)), strings.Join(ss, ";"))
		}
		// SimpleTransfer with 1..3 extra currencies on every construction path, alone and mixed
		for i := 0; i < g.Scale(4, 40); i++ {
			sp := genSpec(g)
			sp.kind, sp.init, sp.mode, sp.commentLen, sp.extras = "s", false, wallet.DefaultMessageMode, sp.commentLen%100, genExtras(g)
			pl := genSpec(g)
			pl.commentLen %= 100
			xs := [][]sendSpec{{sp}, {pl, sp}}[i%2]
			var ss []string
			for _, x := range xs {
				ss = append(ss, x.String())
			}
			g.Count(fmt.Sprintf("modes_path_extra_currencies_%d", len(sp.extras)))
			g.Emit("go.m.modes", vs, h.Hex(g.Bytes(32)), strings.Join(ss, ";"))
		}
		for i := 0; i < g.Scale(6, 120); i++ {
			var xs []string
			for j := 0; j < 1+g.Rng.Intn(4); j++ {
				sp := genSpec(g)
				sp.commentLen %= 150
				xs = append(xs, sp.String())
			}
			g.Emit("go.m.modes", vs, h.Hex(g.Bytes(32)), strings.Join(xs, ";"))
		}
		g.Count("limit_small_order_key")
		g.Emit("go.m.smallkey", vs, fmt.Sprint(g.Rng.Intn(1<<30)))
		// the expiry of the Send path: default lifetime, 1 minute, 1 hour
		for _, lf := range []string{"_", "60", "3600"} {
			g.Count("send_expiry_lifetime_" + lf)
			g.Emit("go.m.expiry", vs, h.Hex(g.Bytes(32)), lf)
		}
		// limits: both sides of the boundary, through the oracle and through the model
		for _, n := range []int{max - 1, max, max + 1, max + 50} {
			g.Count(fmt.Sprintf("limit_%s", map[bool]string{true: "within", false: "over"}[n <= max]))
			g.Emit("go.m.limit", vs, h.Hex(g.Bytes(32)), fmt.Sprint(n))
			seed := h.Hex(g.Bytes(32))
			key := keyFromSeed(seed)
			raws := limitMsgs(n)
			_, sig := refWalletMessage(ver, key, "_", "_", "_", false, uint32(wallet.V5MsgTypeSignedExternal), 5, 1700000000, rndForSeed(7), raws, "n")
			g.Emit("m.raw", vs, seed, h.Hex(key.Public().(ed25519.PublicKey)), "_", "_", "_", codeTable(ver), "0", "5", "1700000000",
				fmt.Sprint(rndForSeed(7)), h.Hex(sig), msgsArg(raws))
		}
	}
}

// genInt: the internal message of every Sendable kind against the model (m.int)
func genInt(g *h.G) {
	for i := 0; i < g.Scale(120, 3000); i++ {
		sp := genSpec(g)
		if i%3 == 0 {
			sp.kind, sp.init = "d", false
		}
		if i%5 == 1 {
			sp.kind, sp.init, sp.mode, sp.extras = "s", false, wallet.DefaultMessageMode, genExtras(g)
		}
		if len(sp.extras) > 0 {
			g.Count(fmt.Sprintf("int_extra_currencies_%d", len(sp.extras)))
		}
		g.Count("int_kind_" + sp.kind)
		if sp.init || sp.kind == "d" {
			g.Count("int_with_state_init")
		}
		g.Emit("m.int", sp.intLine()...)
		g.Emit("m.intdec", cellTable(refInternal(sp)))
	}
	// code without data / data without code: wallet.Message sends no state init, ContractDeploy refuses
	for _, kind := range []string{"m", "d"} {
		for _, miss := range []int{8, 9} {
			sp := genSpec(g)
			sp.kind, sp.init = kind, kind == "m"
			l := sp.intLine()
			l[8], l[9] = cellTable(randRawCell(g)), cellTable(randRawCell(g))
			l[miss] = "-"
			g.Emit("m.int", l...)
		}
	}
}

type c14opts struct{ g *h.G }

func (cx *c14opts) wc() string {
	return []string{"_", "0", "-1", "1", "127", "-128", "255"}[cx.g.Rng.Intn(7)]
}
func (cx *c14opts) sub() string {
	switch cx.g.Rng.Intn(4) {
	case 0:
		return "_"
	case 1:
		return "0"
	case 2:
		return "4294967295"
	}
	return fmt.Sprint(cx.g.Rng.Uint32())
}
func (cx *c14opts) net() string {
	switch cx.g.Rng.Intn(4) {
	case 0:
		return "_"
	case 1:
		return "-3"
	case 2:
		return "-2147483648"
	}
	return fmt.Sprint(int32(cx.g.Rng.Uint32()))
}

func bucket(n, max int) string {
	switch {
	case n == 0:
		return "0"
	case n == max:
		return "max"
	case n <= 4:
		return "1-4"
	case n <= 20:
		return "5-20"
	}
	return "21+"
}
