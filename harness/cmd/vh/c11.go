//go:build c11

package main

import (
	"bytes"
	"context"
	"crypto/cipher"
	"crypto/ed25519"
	"crypto/sha256"
	"encoding/binary"
	"errors"
	"fmt"
	"io"
	"math/rand"
	"net"
	"os"
	"strconv"
	"strings"
	"sync"
	"time"

	"github.com/tonkeeper/tongo/liteclient"
	"verifharness/h"
)

// extraC11Exec: executors defined in c11b.go
var extraC11Exec = map[string]h.ExecFn{
	"go.adnl.concurrent":   goAdnlConcurrent,
	"go.adnl.coalesced":    goAdnlCoalesced,
	"go.adnl.magics":       goAdnlMagics,
	"go.adnl.connfaults":   goAdnlConnFaults,
	"go.adnl.slowconsumer": goAdnlSlowConsumer,
	"go.adnl.dialdeadline": goAdnlDialDeadline,
	"go.adnl.pingrace":     goAdnlPingRace,
	"adnl.keyid":           exAdnlKeyID,
	"adnl.scalar":          exAdnlScalar,
	"adnl.tomont":          exAdnlToMont,
	"go.adnl.sharedkey":    goAdnlSharedKey,
	"go.adnl.newkeys":      goAdnlNewKeys,
	"adnl.reader":          func(a []string) string { return "bad-op" }, // model-only op (asked by go.adnl.magics)
}

func init() {
	ex := map[string]h.ExecFn{
		"prim.aes256ctr":  exAesCtr,
		"adnl.params":     exAdnlParams,
		"adnl.frame":      exAdnlFrame,
		"adnl.parsepkt":   exAdnlParse,
		"adnl.recv":       exAdnlRecv,
		"adnl.send":       exAdnlSend,
		"adnl.handshake":  exAdnlHandshake,
		"adnl.accept":     exAdnlAccept,
		"adnl.reply":      exAdnlReply,
		"go.adnl.dh":      goAdnlDH,
		"go.adnl.session": goAdnlSession,
		"go.adnl.faults":  goAdnlFaults,
		"go.adnl.econn":   goAdnlEconn,
	}
	for k, v := range extraC11Exec {
		ex[k] = v
	}
	h.Register(&h.Prop{ID: "C11", Gen: genC11, Exec: withPrim(ex)})
}

var quietOnce sync.Once

// liteclient prints diagnostics with fmt.Printf; the executor's answer stream is the original stdout (already wrapped
// by main before the first line runs), so from the first network case on os.Stdout points at /dev/null.
func quietStdout() {
	quietOnce.Do(func() {
		if f, err := os.OpenFile(os.DevNull, os.O_WRONLY, 0); err == nil {
			os.Stdout = f
		}
	})
}

func exactCap(b []byte) []byte { return b[:len(b):len(b)] }

func advancedCTR(key, iv []byte, off int) cipher.Stream {
	s := ctrStream(key, iv)
	if off > 0 {
		buf := make([]byte, 4096)
		for off > 0 {
			n := off
			if n > len(buf) {
				n = len(buf)
			}
			s.XORKeyStream(buf[:n], buf[:n])
			off -= n
		}
	}
	return s
}

func atoi(s string) int {
	v, err := strconv.Atoi(s)
	if err != nil {
		panic("bad int arg " + s)
	}
	return v
}

func shaHex(b []byte) string { s := sha256.Sum256(b); return h.Hex(s[:]) }

func exAesCtr(a []string) string {
	key, iv, off, data := h.MustUnHex(a[0]), h.MustUnHex(a[1]), atoi(a[2]), h.MustUnHex(a[3])
	s := advancedCTR(key, iv, off)
	out := make([]byte, len(data))
	s.XORKeyStream(out, data)
	return h.Hex(out)
}

func exAdnlParams(a []string) string {
	raw := h.MustUnHex(a[0])
	if len(raw) != 160 {
		return "bad-op"
	}
	var p [160]byte
	copy(p[:], raw)
	rx, tx, rxn, txn, pad, hash := liteclient.VerifParams(p)
	return strings.Join([]string{"ok", h.Hex(rx), h.Hex(tx), h.Hex(rxn), h.Hex(txn), h.Hex(pad), h.Hex(hash)}, " ")
}

func nonce32(b []byte) [32]byte {
	if len(b) != 32 {
		panic("nonce must have 32 bytes")
	}
	var n [32]byte
	copy(n[:], b)
	return n
}

func exAdnlFrame(a []string) string {
	p := liteclient.VerifNewPacket(nonce32(h.MustUnHex(a[0])), h.MustUnHex(a[1]))
	return "ok " + h.Hex(liteclient.VerifMarshal(p))
}

func isEOF(err error) bool { return errors.Is(err, io.EOF) || errors.Is(err, io.ErrUnexpectedEOF) }

func exAdnlParse(a []string) string {
	key, iv, off, stream := h.MustUnHex(a[0]), h.MustUnHex(a[1]), atoi(a[2]), h.MustUnHex(a[3])
	r := bytes.NewReader(stream)
	p, err := liteclient.ParsePacket(r, advancedCTR(key, iv, off))
	if err != nil {
		if isEOF(err) {
			return "eof"
		}
		return "err"
	}
	n := liteclient.VerifNonce(p)
	return fmt.Sprintf("ok %s %s %d", h.Hex(n[:]), h.Hex(p.Payload), r.Len())
}

type pkt struct{ nonce, payload []byte }

func packetsDigest(ps []pkt) string {
	hh := sha256.New()
	for _, p := range ps {
		var l [4]byte
		binary.LittleEndian.PutUint32(l[:], uint32(len(p.payload)))
		hh.Write(l[:])
		hh.Write(p.nonce)
		hh.Write(p.payload)
	}
	return h.Hex(hh.Sum(nil))
}

// exAdnlRecv: the public ParsePacket applied repeatedly with ONE decryptor to a complete stream.
func exAdnlRecv(a []string) string {
	key, iv, off, stream := h.MustUnHex(a[0]), h.MustUnHex(a[1]), atoi(a[2]), h.MustUnHex(a[3])
	r := bytes.NewReader(stream)
	dec := advancedCTR(key, iv, off)
	var ps []pkt
	end := "waiting"
	for {
		p, err := liteclient.ParsePacket(r, dec)
		if err != nil {
			if !isEOF(err) {
				end = "dead"
			}
			break
		}
		n := liteclient.VerifNonce(p)
		ps = append(ps, pkt{n[:], p.Payload})
	}
	return fmt.Sprintf("%d %s %s", len(ps), packetsDigest(ps), end)
}

// memConn is an in-memory net.Conn: Write appends to w, Read serves r in the given segment sizes, then io.EOF.
type memConn struct {
	mu   sync.Mutex
	w    bytes.Buffer
	r    []byte
	segs []int
}

func (m *memConn) Write(b []byte) (int, error) {
	m.mu.Lock()
	defer m.mu.Unlock()
	return m.w.Write(b)
}
func (m *memConn) Read(b []byte) (int, error) {
	m.mu.Lock()
	defer m.mu.Unlock()
	if len(m.r) == 0 {
		return 0, io.EOF
	}
	n := len(b)
	if len(m.segs) > 0 {
		if m.segs[0] < n {
			n = m.segs[0]
		}
	}
	if n > len(m.r) {
		n = len(m.r)
	}
	if n == 0 {
		n = 1
	}
	copy(b, m.r[:n])
	m.r = m.r[n:]
	if len(m.segs) > 0 {
		m.segs[0] -= n
		if m.segs[0] <= 0 {
			m.segs = m.segs[1:]
		}
	}
	return n, nil
}
func (m *memConn) Close() error                     { return nil }
func (m *memConn) LocalAddr() net.Addr              { return &net.TCPAddr{} }
func (m *memConn) RemoteAddr() net.Addr             { return &net.TCPAddr{} }
func (m *memConn) SetDeadline(time.Time) error      { return nil }
func (m *memConn) SetReadDeadline(time.Time) error  { return nil }
func (m *memConn) SetWriteDeadline(time.Time) error { return nil }

func parsePacketArgs(args []string) []pkt {
	var ps []pkt
	for _, s := range args {
		i := strings.IndexByte(s, ':')
		if i < 0 {
			panic("bad packet arg")
		}
		ps = append(ps, pkt{h.MustUnHex(s[:i]), h.MustUnHex(s[i+1:])})
	}
	return ps
}

// exAdnlSend: encryptedConn.send for a list of packets through one cipher; answer = length and digest of the bytes
// written to the connection.
func exAdnlSend(a []string) string {
	key, iv, off := h.MustUnHex(a[0]), h.MustUnHex(a[1]), atoi(a[2])
	ps := parsePacketArgs(a[3:])
	mc := &memConn{}
	e := liteclient.VerifNewEConn(mc, advancedCTR(key, iv, off), ctrStream(key, iv))
	for _, p := range ps {
		if err := e.Send(liteclient.VerifNewPacket(nonce32(p.nonce), p.payload)); err != nil {
			return "err"
		}
	}
	return fmt.Sprintf("ok %d %s", mc.w.Len(), shaHex(mc.w.Bytes()))
}

// exAdnlHandshake: encryptedConn.handshake with explicit inputs over an in-memory connection; answer = bytes written.
func exAdnlHandshake(a []string) string {
	sp, ep, sh, pr := h.MustUnHex(a[0]), h.MustUnHex(a[1]), exactCap(h.MustUnHex(a[2])), h.MustUnHex(a[3])
	if len(pr) != 160 || len(sp) != 32 {
		return "bad-op"
	}
	var raw [160]byte
	copy(raw[:], pr)
	mc := &memConn{}
	zero := make([]byte, 32)
	e := liteclient.VerifNewEConn(mc, ctrStream(zero, zero[:16]), ctrStream(zero, zero[:16]))
	_ = e.Handshake(sp, ep, sh, raw) // the reply is absent: the error of the final ParsePacket is expected
	return "ok " + h.Hex(mc.w.Bytes())
}

// exAdnlAccept / exAdnlReply: the harness's independent server logic on the same inputs as the Lean spec server
// (consistency of the two specification sides; no tongo code involved).
func exAdnlAccept(a []string) string {
	params, err := specAccept(h.MustUnHex(a[0]), h.MustUnHex(a[1]), h.MustUnHex(a[2]))
	if err != nil {
		return "err"
	}
	return "ok " + h.Hex(params)
}

func exAdnlReply(a []string) string {
	params, nonce := h.MustUnHex(a[0]), h.MustUnHex(a[1])
	out := specFrame(nonce, nil)
	ctrStream(params[0:32], params[64:80]).XORKeyStream(out, out)
	return "ok " + h.Hex(out)
}

// goAdnlDH: the DH-agreement hypothesis of handshake_accept, checked on the implementation: tongo's sharedKey
// (curve25519-voi) for (client private, server public) equals the independent X25519 (crypto/ecdh + math/big
// Edwards→Montgomery) for (server private, client public).
func goAdnlDH(a []string) string {
	cs, ss := h.MustUnHex(a[0]), h.MustUnHex(a[1])
	cpriv := ed25519.NewKeyFromSeed(cs)
	sk := newServerKey(ss)
	got, err := liteclient.VerifSharedKey(cpriv, sk.pub)
	if err != nil {
		return "FAIL dh-client-error " + err.Error()
	}
	want, err := sk.shared(cpriv[32:])
	if err != nil {
		return "FAIL dh-server-error " + err.Error()
	}
	if !bytes.Equal(got, want) {
		return "FAIL dh-disagree"
	}
	return "ok"
}

func parseSizes(s string) []int {
	if s == "-" || s == "" {
		return nil
	}
	var r []int
	for _, x := range strings.Split(s, ",") {
		r = append(r, atoi(x))
	}
	return r
}

func joinSizes(xs []int) string {
	if len(xs) == 0 {
		return "-"
	}
	ss := make([]string, len(xs))
	for i, x := range xs {
		ss[i] = strconv.Itoa(x)
	}
	return strings.Join(ss, ",")
}

// payloadOf: deterministic payload; never starts with a magic that Connection.reader consumes itself (tcp.pong of
// 12 bytes, tcp.authentificationNonce).
func payloadOf(rng *rand.Rand, n int) []byte {
	b := make([]byte, n)
	rng.Read(b)
	if n >= 4 {
		m := binary.LittleEndian.Uint32(b)
		if m == 0xdc69fb03 || m == 0xe35d4ab6 {
			b[0] ^= 1
		}
	}
	return b
}

func modelCheck(lines []string, want []string) string {
	ans, err := modelBatch(lines)
	if err != nil {
		return "FAIL model-unavailable " + err.Error()
	}
	for i := range lines {
		if ans[i] != want[i] {
			op := strings.SplitN(lines[i], " ", 2)[0]
			return fmt.Sprintf("FAIL model-mismatch %s line=%d model=%s observed=%s", op, i, clip(ans[i]), clip(want[i]))
		}
	}
	return "ok"
}

func clip(s string) string {
	if len(s) > 120 {
		return s[:120] + "..."
	}
	return s
}

func minInt(a, b int) int {
	if a < b {
		return a
	}
	return b
}

func pktArg(p pkt) string { return h.Hex(p.nonce) + ":" + h.Hex(p.payload) }

const sessionDeadline = 4 * time.Second

// goAdnlSession: the real client (liteclient.NewConnection / Connection.Send / Connection.Responses) over loopback
// TCP against the independent server; both directions at the same time; every byte the client wrote is compared with
// the Lean model (handshake packet, encrypted frames with the keystream offset carried across packets), and the
// client's deliveries with the model's receive loop on the bytes the server wrote.
//
//	args: serverSeed seed c2sSizes s2cSizes
func goAdnlSession(a []string) string {
	quietStdout()
	rng := rand.New(rand.NewSource(int64(atoi(a[1]))))
	c2s, s2c := parseSizes(a[2]), parseSizes(a[3])
	srv, err := newADNLServer(h.MustUnHex(a[0]))
	if err != nil {
		return "FAIL listen " + err.Error()
	}
	defer srv.close()
	replyNonce := make([]byte, 32)
	rng.Read(replyNonce)
	type accRes struct {
		sc  *srvConn
		err error
	}
	acc := make(chan accRes, 1)
	go func() {
		sc, err := srv.accept(sessionDeadline, replyNonce)
		acc <- accRes{sc, err}
	}()
	ctx, cancel := context.WithTimeout(context.Background(), sessionDeadline)
	defer cancel()
	type connRes struct {
		c   *liteclient.Connection
		err error
	}
	connCh := make(chan connRes, 1)
	go func() {
		c, err := liteclient.NewConnection(ctx, srv.key.pub, srv.addr())
		connCh <- connRes{c, err}
	}()
	ar := <-acc
	if ar.err != nil {
		go func() {
			if r := <-connCh; r.c != nil {
				r.c.VerifRetire()
			}
		}()
		return "FAIL handshake-rejected-by-server " + ar.err.Error()
	}
	sc := ar.sc
	defer sc.close()
	var conn *liteclient.Connection
	select {
	case r := <-connCh:
		if r.err != nil {
			return "FAIL handshake-client-error " + r.err.Error()
		}
		conn = r.c
	case <-time.After(sessionDeadline):
		sc.close() // unblocks the client's read
		return "FAIL handshake-client-hangs"
	}
	defer conn.VerifRetire()

	var out [][]byte // payloads client → server
	for _, n := range c2s {
		out = append(out, payloadOf(rng, n))
	}
	var in []pkt // packets server → client
	for _, n := range s2c {
		nonce := make([]byte, 32)
		rng.Read(nonce)
		in = append(in, pkt{nonce, payloadOf(rng, n)})
	}
	segRng := rand.New(rand.NewSource(rng.Int63()))

	var wg sync.WaitGroup
	var srvGot []pkt
	var srvRaw []byte
	var srvErr, wrErr, sendErr error
	var s2cStream []byte
	var cliGot [][]byte
	timedOut := false
	wg.Add(4)
	go func() { // server reads
		defer wg.Done()
		sc.c.SetReadDeadline(time.Now().Add(sessionDeadline))
		for range out {
			n, p, raw, err := sc.readFrame()
			srvRaw = append(srvRaw, raw...)
			if err != nil {
				srvErr = err
				return
			}
			srvGot = append(srvGot, pkt{n, p})
		}
	}()
	go func() { // server writes
		defer wg.Done()
		var plain []byte
		for _, p := range in {
			plain = append(plain, specFrame(p.nonce, p.payload)...)
		}
		s2cStream = sc.encrypt(plain)
		wrErr = sc.writeSegmented(s2cStream, segRng)
	}()
	go func() { // client sends
		defer wg.Done()
		for _, pl := range out {
			p, err := liteclient.NewPacket(pl)
			if err == nil {
				err = conn.Send(p)
			}
			if err != nil {
				sendErr = err
				return
			}
		}
	}()
	go func() { // client receives
		defer wg.Done()
		t := time.NewTimer(sessionDeadline)
		defer t.Stop()
		for range in {
			select {
			case p := <-conn.Responses():
				cliGot = append(cliGot, p.Payload)
			case <-t.C:
				timedOut = true
				return
			}
		}
	}()
	wg.Wait()
	if sendErr != nil {
		return "FAIL client-send-error " + sendErr.Error()
	}
	if wrErr != nil {
		return "FAIL server-write-error " + wrErr.Error()
	}
	if srvErr != nil {
		return fmt.Sprintf("FAIL server-rejects-client-frame frame=%d %s", len(srvGot), srvErr.Error())
	}
	for i := range out {
		if !bytes.Equal(srvGot[i].payload, out[i]) {
			return fmt.Sprintf("FAIL c2s-payload-differs frame=%d", i)
		}
	}
	if timedOut || len(cliGot) != len(in) {
		return fmt.Sprintf("FAIL s2c-not-delivered got=%d want=%d", len(cliGot), len(in))
	}
	for i := range in {
		if !bytes.Equal(cliGot[i], in[i].payload) {
			return fmt.Sprintf("FAIL s2c-payload-differs frame=%d", i)
		}
	}
	// nothing beyond what was sent may be delivered
	select {
	case p := <-conn.Responses():
		return fmt.Sprintf("FAIL s2c-extra-packet len=%d", len(p.Payload))
	default:
	}

	// the same transcript through the Lean model
	params := sc.params
	lines := []string{
		"adnl.handshake " + strings.Join([]string{h.Hex(srv.key.pub), h.Hex(sc.eph), h.Hex(sc.shared), h.Hex(params)}, " "),
		"adnl.accept " + strings.Join([]string{h.Hex(srv.key.pub), h.Hex(sc.shared), h.Hex(sc.hs)}, " "),
		"adnl.params " + h.Hex(params),
	}
	psum := sha256.Sum256(params)
	want := []string{
		"ok " + h.Hex(sc.hs),
		"ok " + h.Hex(params),
		strings.Join([]string{"ok", h.Hex(params[0:32]), h.Hex(params[32:64]), h.Hex(params[64:80]), h.Hex(params[80:96]),
			h.Hex(params[96:160]), h.Hex(psum[:])}, " "),
	}
	if len(srvGot) > 0 {
		args := []string{h.Hex(params[32:64]), h.Hex(params[80:96]), "0"}
		for _, p := range srvGot {
			args = append(args, pktArg(p))
		}
		lines = append(lines, "adnl.send "+strings.Join(args, " "))
		want = append(want, fmt.Sprintf("ok %d %s", len(srvRaw), shaHex(srvRaw)))
	}
	reply := specFrame(replyNonce, nil)
	ctrStream(params[0:32], params[64:80]).XORKeyStream(reply, reply)
	full := append(append([]byte{}, reply...), s2cStream...)
	all := append([]pkt{{replyNonce, nil}}, in...)
	lines = append(lines, "adnl.recv "+strings.Join([]string{h.Hex(params[0:32]), h.Hex(params[64:80]), "0", h.Hex(full)}, " "))
	want = append(want, fmt.Sprintf("%d %s waiting", len(all), packetsDigest(all)))
	return modelCheck(lines, want)
}

// fault descriptor: kind:frame:region:pos:val
//
//	kind   bit | byte | trunc
//	frame  index of the frame the fault falls into (-1 = the handshake confirmation packet)
//	region len | nonce | payload | sum
//	pos    position inside the region (reduced modulo its size)
//	val    bit number (bit) or xor mask 1..255 (byte); ignored for trunc (the stream is cut AT that position)
type fault struct {
	kind, region    string
	frame, pos, val int
}

func parseFault(s string) fault {
	f := strings.Split(s, ":")
	if len(f) != 5 {
		panic("bad fault")
	}
	return fault{kind: f[0], frame: atoi(f[1]), region: f[2], pos: atoi(f[3]), val: atoi(f[4])}
}

// offsetIn returns the byte offset inside a frame with the given payload size.
func (f fault) offsetIn(payloadLen int) (int, bool) {
	var base, size int
	switch f.region {
	case "len":
		base, size = 0, 4
	case "nonce":
		base, size = 4, 32
	case "payload":
		base, size = 36, payloadLen
	case "sum":
		base, size = 36+payloadLen, 32
	default:
		panic("bad region")
	}
	if size == 0 {
		return 0, false
	}
	return base + f.pos%size, true
}

func (f fault) apply(stream []byte, at int) []byte {
	out := append([]byte{}, stream...)
	switch f.kind {
	case "bit":
		out[at] ^= 1 << uint(f.val%8)
	case "byte":
		m := byte(f.val)
		if m == 0 {
			m = 0xff
		}
		out[at] ^= m
	case "trunc":
		out = out[:at]
	default:
		panic("bad fault kind")
	}
	return out
}

// goAdnlFaults: the real newEncryptedConnection + handshake over loopback TCP, then the server sends frames one of
// which is corrupted (or the stream is cut) and closes. handleIncomingPackets must deliver exactly the frames before
// the faulty one, nothing else; the expectation is ALSO computed by the Lean model's receive loop on the faulty bytes.
//
//	args: serverSeed seed sizes fault
func goAdnlFaults(a []string) string {
	quietStdout()
	rng := rand.New(rand.NewSource(int64(atoi(a[1]))))
	sizes := parseSizes(a[2])
	f := parseFault(a[3])
	srv, err := newADNLServer(h.MustUnHex(a[0]))
	if err != nil {
		return "FAIL listen " + err.Error()
	}
	defer srv.close()
	replyNonce := make([]byte, 32)
	rng.Read(replyNonce)
	var in []pkt
	for _, n := range sizes {
		nonce := make([]byte, 32)
		rng.Read(nonce)
		in = append(in, pkt{nonce, payloadOf(rng, n)})
	}
	segRng := rand.New(rand.NewSource(rng.Int63()))

	type dialRes struct {
		e   *liteclient.VerifEConn
		err error
	}
	dialed := make(chan dialRes, 1)
	ctx, cancel := context.WithTimeout(context.Background(), sessionDeadline)
	defer cancel()
	go func() {
		e, err := liteclient.VerifDial(ctx, srv.key.pub, srv.addr())
		dialed <- dialRes{e, err}
	}()
	if tl, ok := srv.ln.(*net.TCPListener); ok {
		tl.SetDeadline(time.Now().Add(sessionDeadline))
	}
	c, err := srv.ln.Accept()
	if err != nil {
		return "FAIL accept " + err.Error()
	}
	sc, err := srv.handshake(c, sessionDeadline, nil)
	if err != nil {
		return "FAIL handshake-rejected-by-server " + err.Error()
	}
	defer sc.close()
	params := sc.params
	rxKey, rxIV := h.Hex(params[0:32]), h.Hex(params[64:80])

	reply := sc.encrypt(specFrame(replyNonce, nil))
	if f.frame < 0 {
		// fault in the confirmation packet: the client's handshake must fail
		at, _ := f.offsetIn(0)
		bad := f.apply(reply, at)
		sc.writeSegmented(bad, segRng)
		sc.close()
		d := <-dialed
		if d.err == nil {
			d.e.Close()
			return "FAIL corrupt-confirmation-accepted"
		}
		ans, merr := modelBatch([]string{"adnl.parsepkt " + strings.Join([]string{rxKey, rxIV, "0", h.Hex(bad)}, " ")})
		if merr != nil {
			return "FAIL model-unavailable " + merr.Error()
		}
		if strings.HasPrefix(ans[0], "ok") {
			return "FAIL model-mismatch adnl.parse model accepts the corrupted confirmation"
		}
		return "ok"
	}
	if err := sc.writeRaw(reply); err != nil {
		return "FAIL server-write-error " + err.Error()
	}
	var d dialRes
	select {
	case d = <-dialed:
	case <-time.After(sessionDeadline):
		sc.close() // unblocks the client's read
		return "FAIL handshake-client-hangs"
	}
	if d.err != nil {
		return "FAIL handshake-client-error " + d.err.Error()
	}
	defer d.e.Close()
	ch := d.e.Incoming()

	var plain []byte
	start := 0
	for i, p := range in {
		if i == f.frame {
			start = len(plain)
		}
		plain = append(plain, specFrame(p.nonce, p.payload)...)
	}
	stream := sc.encrypt(plain)
	off, ok := f.offsetIn(len(in[f.frame].payload))
	if !ok {
		return "bad-op"
	}
	bad := f.apply(stream, start+off)
	go func() {
		sc.writeSegmented(bad, segRng)
		sc.close()
	}()
	var got [][]byte
	t := time.NewTimer(sessionDeadline)
	defer t.Stop()
loop:
	for {
		select {
		case p, ok := <-ch:
			if !ok {
				break loop
			}
			got = append(got, p.Payload)
		case <-t.C:
			return "FAIL reader-hangs-after-close"
		}
	}
	for i, g := range got {
		if i >= f.frame {
			return fmt.Sprintf("FAIL corrupt-delivered frame=%d len=%d", i, len(g))
		}
		if !bytes.Equal(g, in[i].payload) {
			return fmt.Sprintf("FAIL s2c-payload-differs frame=%d", i)
		}
	}
	if len(got) != f.frame {
		return fmt.Sprintf("FAIL intact-frame-lost got=%d want=%d", len(got), f.frame)
	}
	ans, merr := modelBatch([]string{"adnl.recv " + strings.Join([]string{rxKey, rxIV, "68", h.Hex(bad)}, " ")})
	if merr != nil {
		return "FAIL model-unavailable " + merr.Error()
	}
	wantPfx := fmt.Sprintf("%d %s ", len(got), packetsDigest(in[:len(got)]))
	if !strings.HasPrefix(ans[0], wantPfx) {
		return "FAIL model-mismatch adnl.recv model=" + clip(ans[0]) + " observed=" + wantPfx
	}
	return "ok"
}

// goAdnlEconn: round trip on the implementation alone, without network: packets sent through encryptedConn.send
// into a buffer are fed, cut at arbitrary segment boundaries, to handleIncomingPackets of a peer using the same key.
//
//	args: key iv seed sizes
func goAdnlEconn(a []string) string {
	key, iv := h.MustUnHex(a[0]), h.MustUnHex(a[1])
	rng := rand.New(rand.NewSource(int64(atoi(a[2]))))
	sizes := parseSizes(a[3])
	mc := &memConn{}
	tx := liteclient.VerifNewEConn(mc, ctrStream(key, iv), ctrStream(key, iv))
	var sent [][]byte
	for _, n := range sizes {
		pl := payloadOf(rng, n)
		p, err := liteclient.NewPacket(pl)
		if err != nil {
			return "FAIL newpacket"
		}
		if err := tx.Send(p); err != nil {
			return "FAIL send"
		}
		sent = append(sent, pl)
	}
	wire := append([]byte{}, mc.w.Bytes()...)
	var segs []int
	for left := len(wire); left > 0; {
		n := 1 + rng.Intn(1+rng.Intn(left))
		segs = append(segs, n)
		left -= n
	}
	rc := &memConn{r: wire, segs: segs}
	rx := liteclient.VerifNewEConn(rc, ctrStream(key, iv), ctrStream(key, iv))
	i := 0
	for p := range rx.Incoming() {
		if i >= len(sent) || !bytes.Equal(p.Payload, sent[i]) {
			return fmt.Sprintf("FAIL roundtrip-payload-differs frame=%d", i)
		}
		i++
	}
	if i != len(sent) {
		return fmt.Sprintf("FAIL roundtrip-lost got=%d want=%d", i, len(sent))
	}
	return "ok"
}

// ------------------------------------------------------------------------------------------------------ generator

var boundarySizes = []int{0, 1, 3, 4, 11, 12, 13, 35, 36, 37, 63, 64, 253, 254, 255, 256, 1023, 1024, 4095, 4096}

func genSizes(g *h.G, class int) []int {
	var n, max int
	switch class {
	case 0: // many small packets
		n, max = 1+g.Rng.Intn(50), 200
	case 1: // medium
		n, max = 1+g.Rng.Intn(20), 4096
	default: // few large ones, up to 64 KiB
		n, max = 1+g.Rng.Intn(4), 65536
	}
	xs := make([]int, n)
	for i := range xs {
		switch g.Rng.Intn(6) {
		case 0:
			b := boundarySizes[g.Rng.Intn(len(boundarySizes))]
			if b > max {
				b = max
			}
			xs[i] = b
		case 1:
			if class == 2 {
				xs[i] = g.Pick(65535, 65536, 65536, 32768, 16384)
			} else {
				xs[i] = max
			}
		default:
			xs[i] = g.Rng.Intn(max + 1)
		}
	}
	return xs
}

func sizeClassKey(xs []int) string {
	m := 0
	for _, x := range xs {
		if x > m {
			m = x
		}
	}
	switch {
	case m == 0:
		return "max_payload_0"
	case m <= 255:
		return "max_payload_le255"
	case m <= 4096:
		return "max_payload_le4096"
	case m < 65536:
		return "max_payload_lt64k"
	default:
		return "max_payload_64k"
	}
}

// buildStream: frames built by the harness's independent framing, encrypted from keystream offset off.
func buildStream(g *h.G, key, iv []byte, off int, sizes []int) (cipherText []byte, starts []int, ps []pkt) {
	var plain []byte
	for _, n := range sizes {
		p := pkt{g.Bytes(32), g.Bytes(n)}
		starts = append(starts, len(plain))
		plain = append(plain, specFrame(p.nonce, p.payload)...)
		ps = append(ps, p)
	}
	out := make([]byte, len(plain))
	advancedCTR(key, iv, off).XORKeyStream(out, plain)
	return out, starts, ps
}

var regions = []string{"len", "nonce", "payload", "sum"}
var kinds = []string{"bit", "byte", "trunc"}

func genC11(g *h.G) {
	genPrim(g, "prim.sha256")
	// AES-256-CTR of the model against crypto/aes: block boundaries, offsets, counter carry
	for _, n := range []int{0, 1, 15, 16, 17, 31, 32, 33, 160, 255, 1000} {
		for _, off := range []int{0, 1, 15, 16, 68, 1000} {
			iv := g.Bytes(16)
			if g.Rng.Intn(3) == 0 { // carry through the low counter bytes
				for i := 16 - 1 - g.Rng.Intn(12); i < 16; i++ {
					iv[i] = 0xff
				}
			}
			g.Emit("prim.aes256ctr", h.Hex(g.Bytes(32)), h.Hex(iv), fmt.Sprint(off), h.Hex(g.Bytes(n)))
		}
	}
	g.Emit("prim.aes256ctr", h.Hex(g.Bytes(32)), strings.Repeat("ff", 16), "0", h.Hex(g.Bytes(48)))

	nStatic := g.Scale(800, 12000)
	nSession := g.Scale(300, 8000)
	nFault := g.Scale(300, 8000)
	faultI := 0
	rounds := nStatic
	for i := 0; i < rounds; i++ {
		key, iv := g.Bytes(32), g.Bytes(16)
		// --- pure ops, both sides
		g.Emit("adnl.params", h.Hex(g.Bytes(160)))
		sz := genSizes(g, g.Pick(0, 0, 1))[0]
		g.Emit("adnl.frame", h.Hex(g.Bytes(32)), h.Hex(g.Bytes(sz)))
		g.Emit("go.adnl.dh", h.Hex(g.Bytes(32)), h.Hex(g.Bytes(32)))
		{
			shared := g.Bytes(32)
			if g.Rng.Intn(12) == 0 { // a too short shared secret: both sides must panic on the slice expression
				shared = shared[:g.Pick(0, 15, 16, 20, 31)]
				g.Count("handshake_short_shared")
			}
			g.Emit("adnl.handshake", h.Hex(g.Bytes(32)), h.Hex(g.Bytes(32)), h.Hex(shared), h.Hex(g.Bytes(160)))
		}
		{ // spec-server consistency: a well-formed handshake packet (and damaged ones) into both spec servers
			sk := newServerKey(g.Bytes(32))
			shared, params := g.Bytes(32), g.Bytes(160)
			ph := sha256.Sum256(params)
			hs := append(append(append([]byte{}, sk.keyID()...), g.Bytes(32)...), ph[:]...)
			enc := make([]byte, 160)
			k := append(append([]byte{}, shared[:16]...), ph[16:32]...)
			v := append(append([]byte{}, ph[:4]...), shared[20:32]...)
			ctrStream(k, v).XORKeyStream(enc, params)
			hs = append(hs, enc...)
			switch g.Rng.Intn(6) {
			case 0:
				hs[g.Rng.Intn(256)] ^= 1 << uint(g.Rng.Intn(8))
				g.Count("accept_damaged")
			case 1:
				hs = hs[:g.Rng.Intn(256)]
				g.Count("accept_short")
			case 2:
				shared = g.Bytes(32) // DH disagreement
				g.Count("accept_wrong_shared")
			default:
				g.Count("accept_valid")
			}
			g.Emit("adnl.accept", h.Hex(sk.pub), h.Hex(shared), h.Hex(hs))
			g.Emit("adnl.reply", h.Hex(params), h.Hex(g.Bytes(32)))
		}
		{ // send through one cipher
			off := g.Pick(0, 0, 68, g.Rng.Intn(5000))
			sizes := genSizes(g, g.Pick(0, 0, 1))
			if len(sizes) > 8 {
				sizes = sizes[:8]
			}
			args := []string{h.Hex(key), h.Hex(iv), fmt.Sprint(off)}
			for _, n := range sizes {
				args = append(args, pktArg(pkt{g.Bytes(32), g.Bytes(n)}))
			}
			g.Emit("adnl.send", args...)
			g.Emit("go.adnl.econn", h.Hex(key), h.Hex(iv), fmt.Sprint(g.Rng.Int31()), joinSizes(sizes))
		}
		{ // ParsePacket / receive loop on streams built by the independent framing, valid and damaged
			off := g.Pick(0, 0, 68, g.Rng.Intn(5000))
			sizes := genSizes(g, g.Pick(0, 0, 0, 1))
			if len(sizes) > 6 {
				sizes = sizes[:6]
			}
			stream, starts, _ := buildStream(g, key, iv, off, sizes)
			mode := g.Rng.Intn(8)
			switch {
			case mode <= 1:
				g.Count("stream_intact")
			case mode == 2: // trailing partial frame
				stream = stream[:len(stream)-1-g.Rng.Intn(minInt(len(stream), 70))]
				g.Count("stream_truncated")
			case mode == 3: // declared length out of bounds: re-encrypt a crafted header
				k := g.Rng.Intn(len(sizes))
				bad := uint32(g.Pick(0, 1, 31, 32, 63, 8<<20+1, 8<<20+64, 1<<31, 1<<32-1))
				hdr := make([]byte, 4)
				binary.LittleEndian.PutUint32(hdr, bad)
				advancedCTR(key, iv, off+starts[k]).XORKeyStream(hdr, hdr)
				copy(stream[starts[k]:], hdr)
				g.Count(fmt.Sprintf("stream_badlen_%d", bad))
			default:
				k := g.Rng.Intn(len(sizes))
				f := fault{kind: kinds[g.Rng.Intn(2)], region: regions[g.Rng.Intn(4)], pos: g.Rng.Intn(1 << 16), val: 1 + g.Rng.Intn(255)}
				if o, ok := f.offsetIn(sizes[k]); ok {
					stream = f.apply(stream, starts[k]+o)
					g.Count("stream_fault_" + f.kind + "_" + f.region)
				}
			}
			g.Emit("adnl.recv", h.Hex(key), h.Hex(iv), fmt.Sprint(off), h.Hex(stream))
			g.Emit("adnl.parsepkt", h.Hex(key), h.Hex(iv), fmt.Sprint(off), h.Hex(stream))
		}
		// --- network sessions, spread between the pure ops so that parallel chunks are balanced
		if i*nSession/rounds != (i+1)*nSession/rounds {
			class := g.Pick(0, 0, 1, 1, 2)
			c2s, s2c := genSizes(g, class), genSizes(g, class)
			switch g.Rng.Intn(10) {
			case 0:
				c2s = nil
			case 1:
				s2c = nil
			}
			g.Count("session_" + sizeClassKey(append(append([]int{}, c2s...), s2c...)))
			g.Count(fmt.Sprintf("session_packets_%02d", (len(c2s)+len(s2c))/20*20))
			seed := g.Rng.Int31()
			g.NonTrivial(fmt.Sprintf("s/%d/%s/%s", seed, joinSizes(c2s), joinSizes(s2c)))
			g.Emit("go.adnl.session", h.Hex(g.Bytes(32)), fmt.Sprint(seed), joinSizes(c2s), joinSizes(s2c))
		}
		if i*nFault/rounds != (i+1)*nFault/rounds {
			class := g.Pick(0, 0, 1, 1, 2)
			sizes := genSizes(g, class)
			if len(sizes) > 12 {
				sizes = sizes[:12]
			}
			// every (kind, region) combination in turn; the frame and the position inside the region are random
			kind := kinds[faultI%3]
			region := regions[(faultI/3)%4]
			faultI++
			frame := g.Rng.Intn(len(sizes))
			if g.Rng.Intn(10) == 0 {
				frame = -1
			}
			if region == "payload" && frame >= 0 && sizes[frame] == 0 {
				sizes[frame] = 1 + g.Rng.Intn(100)
			}
			pos := g.Rng.Intn(1 << 16)
			if g.Rng.Intn(3) == 0 {
				pos = g.Pick(0, 1, 3, 31)
			}
			if frame < 0 && region == "payload" {
				region = "sum"
			}
			f := fmt.Sprintf("%s:%d:%s:%d:%d", kind, frame, region, pos, 1+g.Rng.Intn(255))
			g.Count("fault_" + kind + "_" + region)
			if frame < 0 {
				g.Count("fault_in_confirmation")
			}
			seed := g.Rng.Int31()
			g.NonTrivial(fmt.Sprintf("f/%d/%s/%s", seed, joinSizes(sizes), f))
			g.Emit("go.adnl.faults", h.Hex(g.Bytes(32)), fmt.Sprint(seed), joinSizes(sizes), f)
		}
	}
	genC11Extra(g)
	if g.Thorough() {
		// the 8 MiB limit, once: a frame of exactly the maximal length is delivered, one byte more is rejected
		key, iv := g.Bytes(32), g.Bytes(16)
		for _, n := range []int{8<<20 - 64, 8<<20 - 63} {
			stream, _, _ := buildStream(g, key, iv, 0, []int{n})
			g.Emit("adnl.recv", h.Hex(key), h.Hex(iv), "0", h.Hex(stream))
			g.Count(fmt.Sprintf("limit_payload_%d", n))
		}
		g.Emit("go.adnl.session", h.Hex(g.Bytes(32)), "77", fmt.Sprint(8<<20-64), fmt.Sprint(8<<20-64))
		g.Emit("go.adnl.session", h.Hex(g.Bytes(32)), "78", "-", fmt.Sprint(8<<20-64)+",5")
	}
}
