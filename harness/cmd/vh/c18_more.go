//go:build c18

package main

import (
	"fmt"
	"sort"
	"strconv"

	"github.com/tonkeeper/tongo/boc"
	"github.com/tonkeeper/tongo/tlb"
	"verifharness/h"
)

// Dictionaries whose key width is not a multiple of 8 (real tlb.UintN key types), several proofs from ONE prover,
// dictionary values that reference library cells (exotic cells on the kept part of the proof).

func init() {
	p := h.Props["C18"]
	if p == nil {
		// init order between files of one package is by file name: c18.go registers first
		panic("C18 not registered")
	}
	p.Exec["mk.prove2"] = execProve2
	p.Exec["go.prove2"] = goProve2
	p.Exec["mk.prune2"] = execPrune2
	p.Exec["go.prune2"] = goPrune2
	p.Exec["mk.prune.il"] = execPruneIL
	p.Exec["go.prune.il"] = goPruneIL
}

type oddKind struct {
	build  func(keys []uint64, vals []tlb.Uint32) []h.Row
	decode func(c *boc.Cell, keyBits, want []bool) string
}

func oddOf[K fixedKey](conv func(uint64) K) oddKind {
	return oddKind{
		build: func(keys []uint64, vals []tlb.Uint32) []h.Row {
			ks := make([]K, len(keys))
			for i, k := range keys {
				ks[i] = conv(k)
			}
			return buildDictKV(ks, vals)
		},
		decode: func(c *boc.Cell, keyBits, want []bool) string { return libDecodeKV[K, tlb.Uint32](c, keyBits, want) },
	}
}

// key widths 1..7, 9, 15, 17, 19 (get-method dictionaries), 31, 33, 63; values are tlb.Uint32
var oddKinds = map[int]oddKind{
	1:  oddOf(func(v uint64) tlb.Uint1 { return tlb.Uint1(v) }),
	2:  oddOf(func(v uint64) tlb.Uint2 { return tlb.Uint2(v) }),
	3:  oddOf(func(v uint64) tlb.Uint3 { return tlb.Uint3(v) }),
	4:  oddOf(func(v uint64) tlb.Uint4 { return tlb.Uint4(v) }),
	5:  oddOf(func(v uint64) tlb.Uint5 { return tlb.Uint5(v) }),
	6:  oddOf(func(v uint64) tlb.Uint6 { return tlb.Uint6(v) }),
	7:  oddOf(func(v uint64) tlb.Uint7 { return tlb.Uint7(v) }),
	9:  oddOf(func(v uint64) tlb.Uint9 { return tlb.Uint9(v) }),
	12: oddOf(func(v uint64) tlb.Uint12 { return tlb.Uint12(v) }),
	15: oddOf(func(v uint64) tlb.Uint15 { return tlb.Uint15(v) }),
	17: oddOf(func(v uint64) tlb.Uint17 { return tlb.Uint17(v) }),
	19: oddOf(func(v uint64) tlb.Uint19 { return tlb.Uint19(v) }),
	31: oddOf(func(v uint64) tlb.Uint31 { return tlb.Uint31(v) }),
	33: oddOf(func(v uint64) tlb.Uint33 { return tlb.Uint33(v) }),
	63: oddOf(func(v uint64) tlb.Uint63 { return tlb.Uint63(v) }),
}

var oddWidths = []int{1, 2, 3, 4, 5, 6, 7, 9, 12, 15, 17, 19, 19, 31, 33, 63}

func makeOddDict(g *h.G, kbits, n int) dictCase {
	max := uint64(1)<<uint(kbits) - 1
	if uint64(n) > max+1 {
		n = int(max + 1)
	}
	seen := map[uint64]bool{}
	var keys []uint64
	base := g.Rng.Uint64() & max
	mode := g.Rng.Intn(3)
	for tries := 0; len(keys) < n; tries++ {
		var k uint64
		switch {
		case mode == 0 || tries > 20*n+50:
			k = g.Rng.Uint64() & max
		case mode == 1: // neighbours: differ in the low bits only
			k = (base &^ 0xff | uint64(g.Rng.Intn(256))) & max
		default:
			k = uint64(g.Rng.Intn(4*n+2)) & max
		}
		if !seen[k] {
			seen[k] = true
			keys = append(keys, k)
		}
	}
	sort.Slice(keys, func(i, j int) bool { return keys[i] < keys[j] })
	vals := make([]tlb.Uint32, len(keys))
	small := g.Rng.Intn(2) == 0
	for i := range vals {
		if small {
			vals[i] = tlb.Uint32(g.Rng.Intn(3))
		} else {
			vals[i] = tlb.Uint32(g.Rng.Uint32())
		}
	}
	dc := dictCase{kbits: kbits, vbits: 32, table: oddKinds[kbits].build(keys, vals)}
	for _, k := range keys {
		dc.keys = append(dc.keys, natBits(k, kbits))
	}
	return dc
}

// lastBitsAbsent: absent keys that differ from a present key in exactly some of the last 1..7 bits.
func lastBitsAbsent(g *h.G, dc dictCase, n int) [][]bool {
	have := map[string]bool{}
	for _, k := range dc.keys {
		have[binString(k)] = true
	}
	var out [][]bool
	for tries := 0; len(out) < n && tries < 40*n; tries++ {
		k := append([]bool{}, dc.keys[g.Rng.Intn(len(dc.keys))]...)
		span := minI(len(k), 1+g.Rng.Intn(7))
		if len(k)%8 != 0 && g.Rng.Intn(2) == 0 {
			span = len(k) % 8 // exactly the bits beyond the last whole byte
		}
		flips := 1 + g.Rng.Intn(1<<uint(span)-1) // non-empty subset of the last `span` bits
		for b := 0; b < span; b++ {
			if flips>>uint(b)&1 == 1 {
				k[len(k)-1-b] = !k[len(k)-1-b]
			}
		}
		if !have[binString(k)] {
			have[binString(k)] = true
			out = append(out, k)
		}
	}
	return out
}

// withLibraryValues hangs a library cell (directly, or below an ordinary cell) under some leaves of a dictionary table.
func withLibraryValues(g *h.G, t []h.Row) []h.Row {
	out := append([]h.Row{}, t...)
	lib := len(out)
	out = append(out, h.Row{Ty: 2, BitLen: 8 + 256, Data: append([]byte{2}, g.Bytes(32)...)})
	mid := len(out)
	out = append(out, h.Row{BitLen: 9, Data: []byte{0xab, 0x80}, Refs: []int{lib + 2, lib + 2}})
	out = append(out, h.Row{Ty: 2, BitLen: 8 + 256, Data: append([]byte{2}, g.Bytes(32)...)})
	for i := 0; i < lib; i++ {
		if len(out[i].Refs) == 0 && g.Rng.Intn(2) == 0 {
			if g.Rng.Intn(2) == 0 {
				out[i].Refs = []int{lib}
			} else {
				out[i].Refs = []int{mid, lib}
			}
		}
	}
	return h.SubTable(out, 0)
}

// ---------------------------------------------------------------------------------------- two proofs, one prover

func proveWithProver(prover *boc.MerkleProver, vbits int, root *boc.Cell, key boc.BitString) ([]bool, []byte, error) {
	root.ResetCounters() // the caller's duty: the walk reads the root from its read cursor
	var v any
	var proof []byte
	var err error
	switch vbits {
	case 8:
		v, proof, err = tlb.ProveKeyInHashmap[tlb.Uint8](prover, root, key)
	case 32:
		v, proof, err = tlb.ProveKeyInHashmap[tlb.Uint32](prover, root, key)
	case 64:
		v, proof, err = tlb.ProveKeyInHashmap[tlb.Uint64](prover, root, key)
	case 256:
		v, proof, err = tlb.ProveKeyInHashmap[tlb.Bits256](prover, root, key)
	default:
		panic("unsupported value width")
	}
	if err != nil {
		return nil, nil, err
	}
	c := boc.NewCell()
	if err := tlb.Marshal(c, v); err != nil {
		return nil, nil, err
	}
	return rowBits(h.RowOf(c)), proof, nil
}

// mk.prove2 <key1> <key2> <value width> <table>: ONE prover, a proof for key1, then a proof for key2; answers like
// mk.prove for key2.
func execProve2(a []string) string {
	vbits, _ := strconv.Atoi(a[2])
	cs := h.BuildCells(h.ParseTable(a[3]))
	prover, err := boc.NewMerkleProver(cs[0])
	if err != nil {
		return "err"
	}
	proveWithProver(prover, vbits, cs[0], bitStringOf(bitsOfString(a[0])))
	val, proof, err := proveWithProver(prover, vbits, cs[0], bitStringOf(bitsOfString(a[1])))
	if err != nil {
		return "err"
	}
	s, _, err := canonOfBoc(proof)
	if err != nil {
		return "FAIL proof-does-not-parse"
	}
	return "ok " + binString(val) + " " + s
}

// go.prove2 <key1> <key2> <value width> <table>: both keys present; the SECOND proof made by the same prover commits
// to the root, stores the right hashes and reveals the value of key2.
func goProve2(a []string) string {
	k2 := bitsOfString(a[1])
	vbits, _ := strconv.Atoi(a[2])
	t := h.ParseTable(a[3])
	cs := h.BuildCells(t)
	prover, err := boc.NewMerkleProver(cs[0])
	if err != nil {
		return "FAIL prover-error"
	}
	if _, _, err := proveWithProver(prover, vbits, cs[0], bitStringOf(bitsOfString(a[0]))); err != nil {
		return "FAIL first-proof-error"
	}
	val, proofBytes, err := proveWithProver(prover, vbits, cs[0], bitStringOf(k2))
	if err != nil {
		return "FAIL second-proof-from-the-same-prover-fails"
	}
	want, found := dictLookup(t, 0, len(k2), k2)
	if !found || len(want) < vbits || binString(val) != binString(want[:vbits]) {
		return "FAIL second-proof-returns-a-wrong-value"
	}
	_, proof, err := canonOfBoc(proofBytes)
	if err != nil {
		return "FAIL proof-does-not-parse"
	}
	if r := checkProof(t, proof); r != "ok" {
		return r + " (second proof of one prover)"
	}
	got, ok := dictLookup(proof, proof[0].Refs[0], len(k2), k2)
	if !ok || len(got) < vbits || binString(got[:vbits]) != binString(want[:vbits]) {
		return "FAIL value-not-decodable-from-the-second-proof-of-one-prover"
	}
	return "ok"
}

func runPrune2(t []h.Row, p1, p2 [][]int) ([]byte, error) {
	cs := h.BuildCells(t)
	prover, err := boc.NewMerkleProver(cs[0])
	if err != nil {
		return nil, err
	}
	var last []byte
	for _, paths := range [][][]int{p1, p2} {
		cursor := prover.Cursor()
		for _, p := range paths {
			c := cursor
			for _, i := range p {
				c = c.Ref(i)
			}
			c.Prune()
		}
		last, err = prover.CreateProof(cursor)
		if err != nil {
			return nil, err
		}
	}
	return last, nil
}

// mk.prune2 <table> <paths1> <paths2>: one prover, two cursors; the answer is the second proof.
func execPrune2(a []string) string {
	proof, err := runPrune2(h.ParseTable(a[0]), parsePaths(a[1]), parsePaths(a[2]))
	if err != nil {
		return "err"
	}
	s, _, err := canonOfBoc(proof)
	if err != nil {
		return "FAIL proof-does-not-parse"
	}
	return "ok " + s
}

// go.prune2 <table> <paths1> <paths2>: the second proof prunes nothing but what its own cursor asked for.
func goPrune2(a []string) string {
	t := h.ParseTable(a[0])
	p2 := parsePaths(a[2])
	proofBytes, err := runPrune2(t, parsePaths(a[1]), p2)
	if err != nil {
		return "FAIL create-proof-error"
	}
	_, proof, err := canonOfBoc(proofBytes)
	if err != nil {
		return "FAIL proof-does-not-parse"
	}
	if r := checkProof(t, proof); r != "ok" {
		return r
	}
	// a single fresh prover with the second path set must give the same proof
	fresh, err := runPrune(t, p2)
	if err != nil {
		return "FAIL create-proof-error"
	}
	if string(fresh) != string(proofBytes) {
		return "FAIL second-proof-of-one-prover-differs-from-a-fresh-prover's"
	}
	return "ok"
}

// runPruneIL: ONE prover, TWO LIVE cursors: both are created first, their Prune calls are interleaved, then the
// proofs are created in the given order ("ab" or "ba"). Returns the proof of cursor A and of cursor B.
func runPruneIL(t []h.Row, pa, pb [][]int, order string) (a, b []byte, err error) {
	cs := h.BuildCells(t)
	prover, err := boc.NewMerkleProver(cs[0])
	if err != nil {
		return nil, nil, err
	}
	ca, cb := prover.Cursor(), prover.Cursor()
	walk := func(c *boc.Cursor, p []int) {
		for _, i := range p {
			c = c.Ref(i)
		}
		c.Prune()
	}
	for k := 0; k < len(pa) || k < len(pb); k++ {
		if k < len(pa) {
			walk(ca, pa[k])
		}
		if k < len(pb) {
			walk(cb, pb[k])
		}
	}
	if order == "ab" {
		if a, err = prover.CreateProof(ca); err != nil {
			return nil, nil, err
		}
		b, err = prover.CreateProof(cb)
	} else {
		if b, err = prover.CreateProof(cb); err != nil {
			return nil, nil, err
		}
		a, err = prover.CreateProof(ca)
	}
	return a, b, err
}

// mk.prune.il <table> <pathsA> <pathsB> <ab|ba> -> "ok <proof A> | <proof B>" (canonical tables)
func execPruneIL(a []string) string {
	pa, pb, err := runPruneIL(h.ParseTable(a[0]), parsePaths(a[1]), parsePaths(a[2]), a[3])
	if err != nil {
		return "err"
	}
	sa, _, e1 := canonOfBoc(pa)
	sb, _, e2 := canonOfBoc(pb)
	if e1 != nil || e2 != nil {
		return "FAIL proof-does-not-parse"
	}
	return "ok " + sa + " | " + sb
}

// go.prune.il: each of the two proofs equals the proof a fresh prover makes for that cursor's own path set
func goPruneIL(a []string) string {
	t := h.ParseTable(a[0])
	p1, p2 := parsePaths(a[1]), parsePaths(a[2])
	pa, pb, err := runPruneIL(t, p1, p2, a[3])
	if err != nil {
		return "FAIL create-proof-error"
	}
	fa, e1 := runPrune(t, p1)
	fb, e2 := runPrune(t, p2)
	if e1 != nil || e2 != nil {
		return "FAIL create-proof-error"
	}
	if string(pa) != string(fa) {
		return "FAIL proof-of-cursor-A-differs-from-a-fresh-prover's (two live cursors, order " + a[3] + ")"
	}
	if string(pb) != string(fb) {
		return "FAIL proof-of-cursor-B-differs-from-a-fresh-prover's (two live cursors, order " + a[3] + ")"
	}
	return "ok"
}

// ----------------------------------------------------------------------------------------------- generator part

func genC18More(g *h.G) {
	// key widths that are not a multiple of 8
	nd := g.Scale(120, 2500)
	for d := 0; d < nd; d++ {
		kb := oddWidths[d%len(oddWidths)]
		n := g.Pick(1, 2, 2, 3, 4, 6, 10, 20, 40)
		dc := makeOddDict(g, kb, n)
		ts := h.TableString(dc.table)
		g.Count(fmt.Sprintf("dict_k%02d_v32", kb))
		keys := dc.keys
		if len(keys) > 12 {
			idx := g.Rng.Perm(len(keys))[:12]
			sort.Ints(idx)
			ks := [][]bool{}
			for _, i := range idx {
				ks = append(ks, keys[i])
			}
			keys = ks
		}
		for _, k := range keys {
			ks := binString(k)
			g.NonTrivial(ks + ts)
			g.Emit("mk.prove", ks, "32", ts)
			g.Emit("go.prove", ks, "32", "1", ts)
		}
		for _, k := range append(lastBitsAbsent(g, dc, 8), absentKeys2(g, dc, 3)...) {
			g.Count("absent_keys_odd_width")
			g.Emit("mk.prove", binString(k), "32", ts)
			g.Emit("go.prove", binString(k), "32", "0", ts)
		}
	}
	// byte-multiple widths: absent keys differing in the last 1..7 bits only; two proofs from one prover;
	// library cells below the values
	nd = g.Scale(150, 3000)
	for d := 0; d < nd; d++ {
		ty := dictTypes[d%len(dictTypes)]
		dc := makeDict(g, ty[0], ty[1], g.Pick(2, 3, 4, 6, 10, 20, 40))
		if d%3 == 0 {
			dc.table = withLibraryValues(g, dc.table)
			g.Count("dict_with_library_cells_below_values")
		}
		ts := h.TableString(dc.table)
		vb := strconv.Itoa(ty[1])
		for _, k := range lastBitsAbsent(g, dc, 5) {
			g.Count("absent_keys_last_bits")
			g.Emit("mk.prove", binString(k), vb, ts)
			g.Emit("go.prove", binString(k), vb, "0", ts)
		}
		for j := 0; j < 6; j++ {
			k1 := dc.keys[g.Rng.Intn(len(dc.keys))]
			k2 := dc.keys[g.Rng.Intn(len(dc.keys))]
			if j == 0 {
				k1, k2 = dc.keys[0], dc.keys[len(dc.keys)-1]
			}
			if j == 1 && len(dc.keys) > 1 {
				k1, k2 = dc.keys[1], dc.keys[0]
			}
			g.Count("two_proofs_one_prover")
			g.NonTrivial("2:" + binString(k1) + binString(k2) + ts)
			g.Emit("mk.prove2", binString(k1), binString(k2), vb, ts)
			g.Emit("go.prove2", binString(k1), binString(k2), vb, ts)
			if d%3 == 0 {
				g.Emit("mk.prove", binString(k2), vb, ts)
				g.Emit("go.prove", binString(k2), vb, "1", ts)
			}
		}
		if len(dc.keys) > 0 {
			ab := absentKeys(g, dc, 1)
			if len(ab) > 0 {
				// an absent key first, then a present one
				g.Emit("mk.prove2", binString(ab[0]), binString(dc.keys[0]), vb, ts)
			}
		}
	}
	// one prover, two cursors
	for i := 0; i < g.Scale(200, 4000); i++ {
		var t []h.Row
		for {
			t = g.RandOrdinaryTable(h.DagOpts{MaxCells: g.Pick(2, 4, 8, 16)})
			if unfolded(t) <= 1000 {
				break
			}
		}
		if g.Rng.Intn(3) == 0 {
			for j := range t {
				if len(t[j].Refs) == 0 && g.Rng.Intn(2) == 0 {
					t[j] = h.Row{Ty: 2, BitLen: 8 + 256, Data: append([]byte{2}, g.Bytes(32)...)}
				}
			}
		}
		p1, p2 := randPaths(g, t), randPaths(g, t)
		ts := h.TableString(t)
		g.Count("two_cursors_one_prover")
		g.NonTrivial("2:" + ts + pathsString(p1) + pathsString(p2))
		g.Emit("mk.prune2", ts, pathsString(p1), pathsString(p2))
		g.Emit("go.prune2", ts, pathsString(p1), pathsString(p2))
		order := []string{"ab", "ba"}[i%2]
		g.Count("two_live_cursors_interleaved_" + order)
		g.Emit("mk.prune.il", ts, pathsString(p1), pathsString(p2), order)
		g.Emit("go.prune.il", ts, pathsString(p1), pathsString(p2), order)
	}
}

// absentKeys2: random absent keys of the dictionary's width (any width up to 64)
func absentKeys2(g *h.G, dc dictCase, n int) [][]bool {
	have := map[string]bool{}
	for _, k := range dc.keys {
		have[binString(k)] = true
	}
	var out [][]bool
	for tries := 0; len(out) < n && tries < 30*n; tries++ {
		k := natBits(g.Rng.Uint64(), dc.kbits)
		if !have[binString(k)] {
			have[binString(k)] = true
			out = append(out, k)
		}
	}
	return out
}
