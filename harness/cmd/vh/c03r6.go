//go:build c03

package main

// AUDIT3 rows L3, L6, B5: value-level expectations for decode-only hand-written codecs and for sources with a moved
// read cursor.
//
//	go.chunked <seed>     tlb.ChunkedData / ContentData: the dictionary (key 32 bits -> ^SnakeData) built with the
//	                      library's HashmapE encoder decodes to the concatenation of the chunks IN KEY ORDER
//	go.abi.wallet <seed>  abi.WalletV1ToV4Payload / abi.W5Actions / abi.W5ExtendedActions decode the cells the wallet
//	                      package's encoders write to the same actions in the same order (modes and amounts compared;
//	                      abi.W5Actions also against wallet.W5Actions' own decoder)
//	go.readsrc <seed>     a bit string / Any / cell of which some bits were already READ is written whole: tlb.Marshal of
//	                      boc.BitString, tlb.Any, SnakeData and Cell.WriteBitString ignore the source's read cursor

import (
	"fmt"
	"math/rand"
	"reflect"
	"strconv"

	"github.com/tonkeeper/tongo/abi"
	"github.com/tonkeeper/tongo/boc"
	"github.com/tonkeeper/tongo/tlb"
	"github.com/tonkeeper/tongo/ton"
	"github.com/tonkeeper/tongo/wallet"
	"verifharness/h"
	"verifharness/tlbx"
)

func goChunked(a []string) string {
	seed, _ := strconv.ParseInt(a[0], 10, 64)
	rng := rand.New(rand.NewSource(seed))
	return guard(func() string {
		n := 1 + rng.Intn(5)
		keys := rng.Perm(40)[:n] // distinct, listed in ANY order: the decoder returns them in ascending key order
		var ks []tlb.Uint32
		var vs []tlb.Ref[tlb.SnakeData]
		chunks := map[int]boc.BitString{}
		for _, k := range keys {
			bs := randBits(rng, 8*(1+rng.Intn(20)))
			chunks[k] = bs
			ks = append(ks, tlb.Uint32(k))
			vs = append(vs, tlb.Ref[tlb.SnakeData]{Value: tlb.SnakeData(bs)})
		}
		dict := tlb.NewHashmapE(ks, vs)
		c := boc.NewCell()
		if err := tlb.Marshal(c, dict); err != nil {
			return "FAIL build-err " + trunc(err.Error())
		}
		want := ""
		for k := 0; k < 40; k++ {
			if bs, ok := chunks[k]; ok {
				want += tlbx.BitsOf(bs)[1:]
			}
		}
		var cd tlb.ChunkedData
		if err := tlb.Unmarshal(c, &cd); err != nil {
			return "FAIL decode-err " + trunc(err.Error())
		}
		if got := tlbx.BitsOf(boc.BitString(cd))[1:]; got != want {
			return "FAIL chunk-order " + firstDiff(want, got)
		}
		// chunks#01 data:ChunkedData = ContentData
		c2 := boc.NewCell()
		must(c2.WriteUint(1, 8))
		must(tlb.Marshal(c2, dict))
		var content tlb.ContentData
		if err := tlb.Unmarshal(c2, &content); err != nil {
			return "FAIL content-decode-err " + trunc(err.Error())
		}
		if content.SumType != "Chunks" || tlbx.BitsOf(boc.BitString(content.Chunks.Data))[1:] != want {
			return "FAIL content-chunk-order"
		}
		return "ok"
	})
}

func goAbiWallet(a []string) string {
	seed, _ := strconv.ParseInt(a[0], 10, 64)
	rng := rand.New(rand.NewSource(seed))
	return guard(func() string {
		n := 1 + rng.Intn(4)
		var raw []wallet.RawMessage
		var amounts []uint64
		for i := 0; i < n; i++ {
			var addr ton.AccountID
			rng.Read(addr.Address[:])
			amount := uint64(i+1)*1_000_000 + uint64(rng.Intn(1000))
			msg, _, err := wallet.SimpleTransfer{Amount: tlb.Grams(amount), Address: addr}.ToInternal()
			if err != nil {
				return "FAIL message-err"
			}
			mc := boc.NewCell()
			if err := tlb.Marshal(mc, msg); err != nil {
				return "FAIL message-marshal-err"
			}
			raw = append(raw, wallet.RawMessage{Message: mc, Mode: byte(10*(i+1) + rng.Intn(10))})
			amounts = append(amounts, amount)
		}
		amountOf := func(m abi.MessageRelaxed) uint64 { return uint64(m.MessageInternal.Value.Grams) }
		// wallets v1..v4: mode:uint8 ^message, repeated
		c := boc.NewCell()
		if err := tlb.Marshal(c, wallet.PayloadV1toV4(raw)); err != nil {
			return "FAIL v4-build-err " + trunc(err.Error())
		}
		var p4 abi.WalletV1ToV4Payload
		if err := tlb.Unmarshal(c, &p4); err != nil {
			return "FAIL v4-decode-err " + trunc(err.Error())
		}
		if len(p4) != n {
			return fmt.Sprintf("FAIL v4-count got=%d want=%d", len(p4), n)
		}
		for i := range p4 {
			if p4[i].Mode != raw[i].Mode || amountOf(p4[i].Message) != amounts[i] {
				return fmt.Sprintf("FAIL v4-order at=%d", i)
			}
		}
		// wallet v5: out_list of action_send_msg
		var w5 wallet.W5Actions
		for _, r := range raw {
			w5 = append(w5, wallet.W5SendMessageAction{Msg: r.Message, Mode: r.Mode})
		}
		c5 := boc.NewCell()
		if err := tlb.Marshal(c5, w5); err != nil {
			return "FAIL w5-build-err " + trunc(err.Error())
		}
		var back wallet.W5Actions
		c5.ResetCounters()
		if err := tlb.Unmarshal(c5, &back); err != nil {
			return "FAIL w5-wallet-decode-err " + trunc(err.Error())
		}
		var a5 abi.W5Actions
		c5.ResetCounters()
		if err := tlb.Unmarshal(c5, &a5); err != nil {
			return "FAIL w5-decode-err " + trunc(err.Error())
		}
		if len(a5) != n || len(back) != n {
			return "FAIL w5-count"
		}
		for i := range a5 {
			if back[i].Mode != w5[i].Mode {
				return fmt.Sprintf("FAIL w5-wallet-order at=%d", i)
			}
			if a5[i].Mode != w5[i].Mode || amountOf(a5[i].Msg) != amounts[i] {
				return fmt.Sprintf("FAIL w5-order at=%d", i)
			}
		}
		// wallet v5 extended actions: the same struct shape in both packages
		var ext wallet.W5ExtendedActions
		for i := 0; i < 1+rng.Intn(4); i++ {
			var e wallet.W5ExtendedAction
			var addr ton.AccountID
			rng.Read(addr.Address[:])
			switch rng.Intn(3) {
			case 0:
				e.SumType = "AddExtension"
				e.AddExtension = &struct{ Addr tlb.MsgAddress }{Addr: addr.ToMsgAddress()}
			case 1:
				e.SumType = "RemoveExtension"
				e.RemoveExtension = &struct{ Addr tlb.MsgAddress }{Addr: addr.ToMsgAddress()}
			default:
				e.SumType = "SetSignatureAllowed"
				e.SetSignatureAllowed = &struct{ Allowed bool }{Allowed: rng.Intn(2) == 1}
			}
			ext = append(ext, e)
		}
		ce := boc.NewCell()
		if err := tlb.Marshal(ce, ext); err != nil {
			return "FAIL ext-build-err " + trunc(err.Error())
		}
		var ae abi.W5ExtendedActions
		if err := tlb.Unmarshal(ce, &ae); err != nil {
			return "FAIL ext-decode-err " + trunc(err.Error())
		}
		if want, got := tlbx.Print(reflect.ValueOf(&ext).Elem()), tlbx.Print(reflect.ValueOf(&ae).Elem()); want != got {
			return "FAIL ext-order " + firstDiff(want, got)
		}
		return "ok"
	})
}

func genRound6(g *h.G) {
	rng := rand.New(rand.NewSource(g.Seed*15485863 + 6))
	for i := 0; i < g.Scale(25, 500); i++ {
		g.Emit("go.chunked", fmt.Sprint(rng.Int63()))
		g.Emit("go.abi.wallet", fmt.Sprint(rng.Int63()))
		g.Emit("go.readsrc", fmt.Sprint(rng.Int63()))
	}
}
