//go:build c10 || c09

package main

import (
	"encoding/hex"
	"fmt"
	"os"
	"path/filepath"
	"runtime/debug"
	"strings"

	"verifharness/h"
	"verifharness/tlmini"
)

// repoDir: the checkout of tongo this binary was built against (the replace directive of the build), so that schema
// files and generators are read from exactly the tree whose code is linked in.
func repoDir() string {
	if bi, ok := debug.ReadBuildInfo(); ok {
		for _, d := range bi.Deps {
			if d.Path == "github.com/tonkeeper/tongo" && d.Replace != nil && d.Replace.Path != "" {
				return d.Replace.Path
			}
		}
	}
	if r := os.Getenv("VERIF_REPO"); r != "" {
		return r
	}
	return "/repo"
}

// verifRoot: the verification tree (…/harness/bin/vh_* → …).
func verifRoot() string {
	exe, err := os.Executable()
	if err != nil {
		return "."
	}
	return filepath.Dir(filepath.Dir(filepath.Dir(exe)))
}

func scratchDir(name string) (string, error) {
	base := filepath.Join(verifRoot(), ".work", "tl-scratch")
	if err := os.MkdirAll(base, 0o755); err != nil {
		return "", err
	}
	return os.MkdirTemp(base, name+"-")
}

func textHex(s string) string { return hex.EncodeToString([]byte(s)) }

func schemaOfArg(a string) *tlmini.Schema {
	b, err := hex.DecodeString(a)
	if err != nil {
		panic("bad schema hex")
	}
	s, err := tlmini.Parse(string(b))
	if err != nil {
		panic("bad schema: " + err.Error())
	}
	return s
}

// namedTy: a name denotes a boxed type (upper-case last component) or a bare constructor.
func namedTy(name string) *tlmini.Ty {
	if tlmini.IsTypeName(name) {
		return &tlmini.Ty{Kind: tlmini.KBoxed, Name: name}
	}
	return &tlmini.Ty{Kind: tlmini.KBare, Name: name}
}

func failf(class, f string, a ...interface{}) string {
	return "FAIL " + class + " " + strings.ReplaceAll(fmt.Sprintf(f, a...), "\n", " ")
}

// lengthPlan returns a byte-string length generator biased to the layout boundaries.
func lengthPlan(g *h.G) func() int {
	return func() int {
		switch g.Rng.Intn(12) {
		case 0:
			return 0
		case 1:
			return g.Pick(1, 2, 3, 4, 5, 7, 8)
		case 2:
			return g.Pick(252, 253, 254, 255, 256, 257, 258, 259, 260)
		case 3:
			return 200 + g.Rng.Intn(120)
		default:
			return g.Rng.Intn(48)
		}
	}
}

// modePlan enumerates all subsets of the tested flag bits in turn; every other value also carries random untested bits.
func modePlan(g *h.G) func(used uint32) uint32 {
	ctr := uint32(g.Rng.Intn(1 << 16))
	return func(used uint32) uint32 {
		ctr++
		// spread the counter over the used bits
		var m uint32
		k := ctr
		for b := uint(0); b < 32; b++ {
			if used&(1<<b) != 0 {
				if k&1 == 1 {
					m |= 1 << b
				}
				k >>= 1
			}
		}
		if g.Rng.Intn(2) == 0 {
			m |= g.Rng.Uint32() &^ used
		}
		return m
	}
}
