//go:build c10 || c09

package main

import (
	"encoding/hex"
	"os"
	"path/filepath"
	"runtime/debug"

	"verifharness/tlexec"
	"verifharness/tlmini"
)

// repoDir: the checkout of tongo this binary was built against (the replace directive of the build), so that schema
// files and generators are read from exactly the tree whose code is linked in.
func repoDir() string {
	if bi, ok := debug.ReadBuildInfo(); ok {
		for _, d := range bi.Deps {
			if d.Path == "github.com/tonkeeper/tongo" && d.Replace != nil && d.Replace.Path != "" {
				return d.Replace.Path
			}
		}
	}
	if r := os.Getenv("VERIF_REPO"); r != "" {
		return r
	}
	return "/repo"
}

// verifRoot: the verification tree (…/harness/bin/vh_* → …).
func verifRoot() string {
	exe, err := os.Executable()
	if err != nil {
		return "."
	}
	return filepath.Dir(filepath.Dir(filepath.Dir(exe)))
}

func scratchDir(name string) (string, error) {
	base := filepath.Join(verifRoot(), ".work", "tl-scratch")
	if err := os.MkdirAll(base, 0o755); err != nil {
		return "", err
	}
	return os.MkdirTemp(base, name+"-")
}

func textHex(s string) string { return hex.EncodeToString([]byte(s)) }

func schemaOfArg(a string) *tlmini.Schema { return tlexec.SchemaOfArg(a) }

func failf(class, f string, a ...interface{}) string { return tlexec.Failf(class, f, a...) }
