// vh: verification harness driver.
//
//	vh gen  -prop C17 -seed 1 -tier quick -out DIR     write DIR/ops.txt and DIR/meta.json
//	vh exec -prop C17 [-timeout 20s] < ops.txt > go.out execute each line against the real code (one answer per line)
//
// exec runs every line under recover(); a line that does not finish within -timeout makes the process print
// "timeout" for it and exit 3 (the orchestrator resumes after that line); a fatal runtime error (stack overflow, out
// of memory) kills the process, which the orchestrator detects by the missing answer line.
package main

import (
	"bufio"
	"encoding/json"
	"flag"
	"fmt"
	"os"
	"path/filepath"
	"runtime/debug"
	"strings"
	"sync"
	"time"

	"verifharness/h"
)

func main() {
	if len(os.Args) < 2 {
		h.Fatalf("usage: vh gen|exec ...")
	}
	mode := os.Args[1]
	fs := flag.NewFlagSet(mode, flag.ExitOnError)
	prop := fs.String("prop", "", "property id")
	seed := fs.Int64("seed", 1, "PRNG seed")
	tier := fs.String("tier", "quick", "quick|thorough")
	out := fs.String("out", "", "output directory (gen)")
	timeout := fs.Duration("timeout", 30*time.Second, "per-line deadline (exec)")
	fs.Parse(os.Args[2:])
	p, ok := h.Props[*prop]
	if !ok {
		h.Fatalf("unknown property %q (built with the wrong tag?)", *prop)
	}
	switch mode {
	case "gen":
		gen(p, *seed, *tier, *out)
	case "exec":
		exec(p, *timeout)
	default:
		h.Fatalf("unknown mode %s", mode)
	}
}

func gen(p *h.Prop, seed int64, tier, out string) {
	if err := os.MkdirAll(out, 0o755); err != nil {
		h.Fatalf("%v", err)
	}
	f, err := os.Create(filepath.Join(out, "ops.txt"))
	if err != nil {
		h.Fatalf("%v", err)
	}
	w := bufio.NewWriterSize(f, 1<<20)
	g := h.NewG(seed, tier, w)
	p.Gen(g)
	w.Flush()
	f.Close()
	meta := map[string]interface{}{
		"evaluations":         g.N,
		"distinct_nontrivial": g.DistinctNonTrivial(),
		"distribution":        g.Counters,
		"per_op":              g.PerOp(),
		"samples":             g.Samples,
	}
	b, _ := json.MarshalIndent(meta, "", " ")
	os.WriteFile(filepath.Join(out, "meta.json"), b, 0o644)
}

func exec(p *h.Prop, timeout time.Duration) {
	debug.SetMaxStack(256 << 20)
	in := bufio.NewReaderSize(os.Stdin, 1<<20)
	w := bufio.NewWriterSize(os.Stdout, 1<<16)
	var mu sync.Mutex
	var started time.Time
	busy := false
	go func() {
		for {
			time.Sleep(200 * time.Millisecond)
			mu.Lock()
			if busy && time.Since(started) > timeout {
				w.WriteString("timeout\n")
				w.Flush()
				os.Exit(3)
			}
			mu.Unlock()
		}
	}()
	for {
		line, err := in.ReadString('\n')
		if line == "" && err != nil {
			break
		}
		line = strings.TrimRight(line, "\r\n")
		mu.Lock()
		busy, started = true, time.Now()
		mu.Unlock()
		ans := runLine(p, line)
		mu.Lock()
		busy = false
		if strings.ContainsAny(ans, "\n\r") {
			ans = strings.ReplaceAll(strings.ReplaceAll(ans, "\n", "\\n"), "\r", "\\r")
		}
		w.WriteString(ans)
		w.WriteByte('\n')
		w.Flush() // flush per line: a later fatal crash must not lose earlier answers
		mu.Unlock()
	}
}

func runLine(p *h.Prop, line string) (ans string) {
	defer func() {
		if r := recover(); r != nil {
			ans = "panic"
			if os.Getenv("VH_PANIC_DETAIL") != "" {
				ans = fmt.Sprintf("panic %v", r)
			}
		}
	}()
	fields := strings.Fields(line)
	if len(fields) == 0 {
		return "bad-op"
	}
	fn, ok := p.Exec[fields[0]]
	if !ok {
		return "bad-op"
	}
	return fn(fields[1:])
}
