package h

import (
	"github.com/tonkeeper/tongo/boc"
)

// GraphInfo is what an iterative (non-recursive) walk over real cells finds. It never recurses, so it is safe on
// cyclic and on arbitrarily deep cell graphs (Cell.Hash is not: a cycle kills the process with a stack overflow).
type GraphInfo struct {
	Cells    int  // distinct *boc.Cell pointers reachable
	Cyclic   bool // a cell reaches itself
	MaxDepth int  // longest path (in edges) from a root; meaningless when Cyclic
	MaxBits  int
	NilRoot  bool
}

// WalkCells explores the graph below roots with an explicit stack (three-colour DFS).
func WalkCells(roots []*boc.Cell) GraphInfo {
	var gi GraphInfo
	const (
		white = 0
		grey  = 1
		black = 2
	)
	colour := map[*boc.Cell]int{}
	height := map[*boc.Cell]int{} // longest path downwards, valid when black
	type frame struct {
		c    *boc.Cell
		refs []*boc.Cell
		next int
	}
	for _, r := range roots {
		if r == nil {
			gi.NilRoot = true
			continue
		}
		if colour[r] != white {
			continue
		}
		stack := []frame{{c: r, refs: r.Refs()}}
		colour[r] = grey
		for len(stack) > 0 {
			f := &stack[len(stack)-1]
			if f.next < len(f.refs) {
				ch := f.refs[f.next]
				f.next++
				switch colour[ch] {
				case white:
					colour[ch] = grey
					stack = append(stack, frame{c: ch, refs: ch.Refs()})
				case grey:
					gi.Cyclic = true
				}
				continue
			}
			hgt := 0
			for _, ch := range f.refs {
				if height[ch]+1 > hgt {
					hgt = height[ch] + 1
				}
			}
			height[f.c] = hgt
			colour[f.c] = black
			gi.Cells++
			if n := f.c.BitSize(); n > gi.MaxBits {
				gi.MaxBits = n
			}
			stack = stack[:len(stack)-1]
		}
		if height[r] > gi.MaxDepth {
			gi.MaxDepth = height[r]
		}
	}
	return gi
}
