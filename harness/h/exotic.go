package h

// Generator of well-formed exotic DAGs (Tongo.Spec.wfExotic): cells are created children first; a parent's level mask
// is the OR of its children's masks (shifted right by one under Merkle cells); pruned branches carry the real hashes
// and depths of a generated original (computed with SpecHasher, i.e. from the definition), or random ones.

type exoticBuilder struct {
	g    *G
	rows []Row // creation order: children before parents; Refs index into rows
	used []bool
	sh   *SpecHasher
}

func (b *exoticBuilder) add(r Row) int {
	b.rows = append(b.rows, r)
	b.used = append(b.used, false)
	for _, c := range r.Refs {
		b.used[c] = true
	}
	b.sh.T = b.rows
	return len(b.rows) - 1
}

func (b *exoticBuilder) pick() int {
	n := len(b.rows)
	// prefer cells that have no parent yet (keeps everything reachable from the last cell), then recent ones
	if b.g.Rng.Intn(3) != 0 {
		for tries := 0; tries < 4; tries++ {
			i := n - 1 - b.g.Rng.Intn(minInt(n, 6))
			if !b.used[i] {
				return i
			}
		}
	}
	if b.g.Rng.Intn(2) == 0 {
		return n - 1 - b.g.Rng.Intn(minInt(n, 4))
	}
	return b.g.Rng.Intn(n)
}

func minInt(a, b int) int {
	if a < b {
		return a
	}
	return b
}

func (b *exoticBuilder) orMask(refs []int) int {
	m := 0
	for _, c := range refs {
		m |= b.rows[c].Mask
	}
	return m
}

// PrunedRow builds the pruned branch that replaces original row o (hashes by sh) with the extra level bit lvl
// (lvl >= level of o's mask, lvl <= 2).
func PrunedRow(sh *SpecHasher, o int, lvl int) Row {
	om := sh.T[o].Mask
	mask := om | 1<<uint(lvl)
	data := []byte{1, byte(mask)}
	var depths []byte
	for i := 0; i <= lvl; i++ {
		if !specSignificant(mask, i) {
			continue
		}
		data = append(data, sh.Hash(o, i)...)
		d := sh.Depth(o, i)
		depths = append(depths, byte(d>>8), byte(d))
	}
	data = append(data, depths...)
	return Row{Ty: 1, Mask: mask, BitLen: len(data) * 8, Data: data}
}

func (b *exoticBuilder) ordinary(nrefs int) int {
	bl := b.g.RandBitLen(0)
	r := Row{BitLen: bl, Data: b.g.RandData(bl)}
	for k := 0; k < nrefs && len(b.rows) > 0; k++ {
		r.Refs = append(r.Refs, b.pick())
	}
	r.Mask = b.orMask(r.Refs)
	return b.add(r)
}

func (b *exoticBuilder) step() {
	g := b.g
	n := len(b.rows)
	switch k := g.Rng.Intn(20); {
	case n == 0 || k < 9: // ordinary
		b.ordinary(g.Pick(0, 1, 1, 2, 2, 3, 4))
	case k < 13: // pruned branch
		if g.Rng.Intn(10) < 7 {
			// of a real original: an existing cell of level <= 2, or a fresh ordinary one
			o := -1
			for tries := 0; tries < 5; tries++ {
				c := g.Rng.Intn(n)
				if SpecLevel(b.rows[c].Mask) <= 2 {
					o = c
					break
				}
			}
			if o < 0 {
				o = b.ordinary(0)
			}
			lo := SpecLevel(b.rows[o].Mask)
			lvl := lo + g.Rng.Intn(3-lo)
			b.add(PrunedRow(b.sh, o, lvl))
		} else {
			mask := 1 + g.Rng.Intn(7)
			data := append([]byte{1, byte(mask)}, g.Bytes(specPopcount(mask)*34)...)
			if g.Rng.Intn(3) == 0 {
				// small depths
				k := specPopcount(mask)
				for j := 0; j < k; j++ {
					data[2+32*k+2*j] = 0
				}
			}
			b.add(Row{Ty: 1, Mask: mask, BitLen: len(data) * 8, Data: data})
		}
	case k < 14: // library
		b.add(Row{Ty: 2, BitLen: 8 + 256, Data: append([]byte{2}, g.Bytes(32)...)})
	case k < 17: // merkle proof
		c := b.pick()
		d := b.sh.Depth(c, 0)
		data := append([]byte{3}, b.sh.Hash(c, 0)...)
		data = append(data, byte(d>>8), byte(d))
		if g.Rng.Intn(6) == 0 {
			copy(data[1:], g.Bytes(34)) // content is not part of the structural rules
		}
		b.add(Row{Ty: 3, Mask: b.rows[c].Mask >> 1, BitLen: len(data) * 8, Data: data, Refs: []int{c}})
	default: // merkle update
		c1, c2 := b.pick(), b.pick()
		d1, d2 := b.sh.Depth(c1, 0), b.sh.Depth(c2, 0)
		data := append([]byte{4}, b.sh.Hash(c1, 0)...)
		data = append(data, b.sh.Hash(c2, 0)...)
		data = append(data, byte(d1>>8), byte(d1), byte(d2>>8), byte(d2))
		b.add(Row{Ty: 4, Mask: (b.rows[c1].Mask | b.rows[c2].Mask) >> 1, BitLen: len(data) * 8, Data: data, Refs: []int{c1, c2}})
	}
}

// finish turns creation order into a table rooted at the last created cell (row 0), dropping unreachable cells.
func finishTable(rows []Row, root int) []Row {
	order := []int{}
	idx := map[int]int{}
	// reachable set, numbered so that refs point to later rows: reverse creation order restricted to reachable
	reach := map[int]bool{}
	var mark func(i int)
	mark = func(i int) {
		if reach[i] {
			return
		}
		reach[i] = true
		for _, c := range rows[i].Refs {
			mark(c)
		}
	}
	mark(root)
	for i := root; i >= 0; i-- {
		if reach[i] {
			idx[i] = len(order)
			order = append(order, i)
		}
	}
	out := make([]Row, len(order))
	for k, i := range order {
		r := rows[i]
		refs := make([]int, len(r.Refs))
		for j, c := range r.Refs {
			refs[j] = idx[c]
		}
		r.Refs = refs
		out[k] = r
	}
	return out
}

// RandExoticTable: a random DAG over all five cell types satisfying WFExotic; row 0 is the root.
func (g *G) RandExoticTable(maxCells int) []Row {
	b := &exoticBuilder{g: g, sh: NewSpecHasher(nil)}
	n := 1 + g.Rng.Intn(maxCells)
	for len(b.rows) < n {
		b.step()
	}
	// gather orphans under ordinary parents so that most of what was generated is reachable
	for tries := 0; tries < 3; tries++ {
		var orphans []int
		for i := range b.rows {
			if !b.used[i] {
				orphans = append(orphans, i)
			}
		}
		if len(orphans) <= 1 {
			break
		}
		for len(orphans) > 1 {
			k := minInt(4, len(orphans))
			r := Row{BitLen: g.RandBitLen(64)}
			r.Data = g.RandData(r.BitLen)
			r.Refs = append(r.Refs, orphans[:k]...)
			r.Mask = b.orMask(r.Refs)
			orphans = append(orphans[k:], b.add(r))
		}
	}
	return finishTable(b.rows, len(b.rows)-1)
}

// SubTable returns the table of the cells reachable from row i of t (row 0 of the result is t[i]).
func SubTable(t []Row, i int) []Row {
	// rows of t are topologically ordered (refs point to later rows): keep the order
	reach := map[int]bool{}
	var mark func(i int)
	mark = func(i int) {
		if reach[i] {
			return
		}
		reach[i] = true
		for _, c := range t[i].Refs {
			mark(c)
		}
	}
	mark(i)
	idx := map[int]int{}
	var out []Row
	for k := i; k < len(t); k++ {
		if reach[k] {
			idx[k] = len(out)
			out = append(out, t[k])
		}
	}
	for k := range out {
		refs := make([]int, len(out[k].Refs))
		for j, c := range out[k].Refs {
			refs[j] = idx[c]
		}
		out[k].Refs = refs
	}
	return out
}

// ChainTable: a chain of ordinary cells of the given depth (depth+1 cells), leaf data given.
func ChainTable(depth int, leaf Row) []Row {
	t := make([]Row, depth+1)
	for i := 0; i < depth; i++ {
		t[i] = Row{BitLen: 8, Data: []byte{byte(i)}, Refs: []int{i + 1}, Mask: leaf.Mask}
	}
	t[depth] = leaf
	return t
}

// PruneRows replaces the rows in `prune` (never row 0) of an all-ordinary level-0 table by pruned branches of mask
// 1<<lvl carrying the real level-0 hash/depth of what they replace; ancestors' masks become the OR of their children.
// Returns the pruned table (unreachable rows dropped) and the number of pruned branches it contains.
func PruneRows(t []Row, prune map[int]bool, lvl int) ([]Row, int) {
	sh := NewSpecHasher(t)
	out := make([]Row, len(t))
	for i := len(t) - 1; i >= 0; i-- {
		if prune[i] && i != 0 {
			out[i] = PrunedRow(sh, i, lvl)
			continue
		}
		r := t[i]
		r.Refs = append([]int{}, t[i].Refs...)
		m := 0
		for _, c := range r.Refs {
			m |= out[c].Mask
		}
		r.Mask = m
		out[i] = r
	}
	res := SubTable(out, 0)
	n := 0
	for _, r := range res {
		if r.Ty == 1 {
			n++
		}
	}
	return res, n
}

// MerkleUpdateTable: a Merkle update (as in a block's state_update) over two prunings of an old and a new version of a
// tree, both sides containing pruned branches where possible; optionally wrapped in ordinary cells.
func (g *G) MerkleUpdateTable() ([]Row, int, int) {
	old := g.RandOrdinaryTable(DagOpts{MaxCells: g.Pick(3, 6, 12, 24), MaxBits: 200})
	// the new version: the same shape with some data changed
	nw := make([]Row, len(old))
	for i, r := range old {
		nw[i] = r
		nw[i].Refs = append([]int{}, r.Refs...)
		if g.Rng.Intn(3) == 0 {
			nw[i].BitLen = g.RandBitLen(200)
			nw[i].Data = g.RandData(nw[i].BitLen)
		}
	}
	pick := func(t []Row) map[int]bool {
		p := map[int]bool{}
		for i := 1; i < len(t); i++ {
			if g.Rng.Intn(3) == 0 {
				p[i] = true
			}
		}
		if len(t) > 1 && len(p) == 0 {
			p[1+g.Rng.Intn(len(t)-1)] = true
		}
		return p
	}
	a, na := PruneRows(old, pick(old), 0)
	b, nb := PruneRows(nw, pick(nw), 0)
	sa, sb := NewSpecHasher(a), NewSpecHasher(b)
	da, db := sa.Depth(0, 0), sb.Depth(0, 0)
	data := append([]byte{4}, sa.Hash(0, 0)...)
	data = append(data, sb.Hash(0, 0)...)
	data = append(data, byte(da>>8), byte(da), byte(db>>8), byte(db))
	t := []Row{{Ty: 4, Mask: (a[0].Mask | b[0].Mask) >> 1, BitLen: len(data) * 8, Data: data, Refs: []int{1, 1 + len(a)}}}
	shift := func(rows []Row, by int) []Row {
		o := make([]Row, len(rows))
		for i, r := range rows {
			refs := make([]int, len(r.Refs))
			for j, c := range r.Refs {
				refs[j] = c + by
			}
			r.Refs = refs
			o[i] = r
		}
		return o
	}
	t = append(t, shift(a, 1)...)
	t = append(t, shift(b, 1+len(a))...)
	// a block-like wrapper above the update
	for k := g.Rng.Intn(3); k > 0; k-- {
		bl := g.RandBitLen(64)
		t = append([]Row{{BitLen: bl, Data: g.RandData(bl), Mask: t[0].Mask, Refs: []int{1}}}, shift(t, 1)...)
	}
	return t, na, nb
}
