// Package h is the shared core of the verification harness: a registry of per-property generators and
// executors, a deterministic PRNG, and the writers for the line protocol.
//
// Every property file registers
//   - Gen:  writes operation lines (one case per line, `op arg1 arg2 ...`) derived from one PRNG seed;
//   - Exec: executes one operation line against the REAL tongo code and returns one canonical answer line.
//
// Lines whose op starts with "go." are direct property oracles evaluated on the implementation alone: the
// executor must answer "ok" when the property holds on that input and "FAIL <what>" otherwise; they are not sent to
// the Lean model. All other lines are sent to both the implementation and the model and the answers are compared.
package h

import (
	"bufio"
	"encoding/hex"
	"fmt"
	"math/rand"
	"os"
	"sort"
	"strings"
)

type ExecFn func(args []string) string

type Prop struct {
	ID   string
	Gen  func(g *G)
	Exec map[string]ExecFn
}

var Props = map[string]*Prop{}

func Register(p *Prop) { Props[p.ID] = p }

// G is the generator context.
type G struct {
	Seed     int64
	Tier     string
	Rng      *rand.Rand
	w        *bufio.Writer
	N        int
	Counters map[string]int
	nontriv  map[string]struct{}
	Samples  []string
	perOp    map[string]int
}

func NewG(seed int64, tier string, w *bufio.Writer) *G {
	return &G{Seed: seed, Tier: tier, Rng: rand.New(rand.NewSource(seed)), w: w,
		Counters: map[string]int{}, nontriv: map[string]struct{}{}, perOp: map[string]int{}}
}

// Thorough reports whether the thorough tier was requested.
func (g *G) Thorough() bool { return g.Tier == "thorough" }

// Scale returns q in the quick tier and t in the thorough tier.
func (g *G) Scale(q, t int) int {
	if g.Thorough() {
		return t
	}
	return q
}

// Emit writes one operation line.
func (g *G) Emit(op string, args ...string) {
	line := op
	if len(args) > 0 {
		line += " " + strings.Join(args, " ")
	}
	if strings.ContainsAny(line, "\n\r") {
		panic("newline in op line: " + line)
	}
	g.w.WriteString(line)
	g.w.WriteByte('\n')
	g.N++
	g.perOp[op]++
	if g.perOp[op] <= 2 && len(g.Samples) < 40 {
		s := line
		if len(s) > 300 {
			s = s[:300] + "..."
		}
		g.Samples = append(g.Samples, s)
	}
}

// Count increments a distribution counter that ends up in the evidence.
func (g *G) Count(key string) { g.Counters[key]++ }

// NonTrivial records a case that is non-trivial by the property's stated rule; key identifies it for distinctness.
func (g *G) NonTrivial(key string) { g.nontriv[key] = struct{}{} }

func (g *G) DistinctNonTrivial() int { return len(g.nontriv) }

func (g *G) PerOp() map[string]int { return g.perOp }

// Helpers --------------------------------------------------------------------------------------------------------

func Hex(b []byte) string {
	if len(b) == 0 {
		return "-"
	}
	return hex.EncodeToString(b)
}

func UnHex(s string) ([]byte, error) {
	if s == "-" {
		return []byte{}, nil
	}
	return hex.DecodeString(s)
}

func MustUnHex(s string) []byte {
	b, err := UnHex(s)
	if err != nil {
		panic("bad hex arg: " + s)
	}
	return b
}

// Outcome canonicalises (value, error) to "ok <v>" / "err".
func Outcome(v string, err error) string {
	if err != nil {
		return "err"
	}
	if v == "" {
		return "ok"
	}
	return "ok " + v
}

func (g *G) Bytes(n int) []byte {
	b := make([]byte, n)
	g.Rng.Read(b)
	return b
}

func (g *G) Pick(xs ...int) int { return xs[g.Rng.Intn(len(xs))] }

func (g *G) U64() uint64 {
	switch g.Rng.Intn(8) {
	case 0:
		return 0
	case 1:
		return ^uint64(0)
	case 2:
		return 1 << uint(g.Rng.Intn(64))
	case 3:
		return (1 << uint(g.Rng.Intn(64))) - 1
	case 4:
		return uint64(g.Rng.Intn(300))
	default:
		return g.Rng.Uint64()
	}
}

func SortedKeys(m map[string]int) []string {
	ks := make([]string, 0, len(m))
	for k := range m {
		ks = append(ks, k)
	}
	sort.Strings(ks)
	return ks
}

func Fatalf(f string, a ...interface{}) {
	fmt.Fprintf(os.Stderr, f+"\n", a...)
	os.Exit(2)
}
