package h

import (
	"encoding/hex"
	"fmt"
	"strconv"
	"strings"

	"github.com/tonkeeper/tongo/boc"
)

// Row is one row of a cell table (see lean/TongoModel/CellFmt.lean for the text format).
type Row struct {
	Ty, Mask, BitLen int
	Data             []byte // ceil(BitLen/8) bytes, unused low bits zero
	Refs             []int
}

func (r Row) String() string {
	hx := "-"
	if r.BitLen > 0 {
		hx = hex.EncodeToString(r.Data)
	}
	refs := "-"
	if len(r.Refs) > 0 {
		ss := make([]string, len(r.Refs))
		for i, x := range r.Refs {
			ss[i] = strconv.Itoa(x)
		}
		refs = strings.Join(ss, ".")
	}
	return fmt.Sprintf("%d,%d,%d,%s,%s", r.Ty, r.Mask, r.BitLen, hx, refs)
}

func TableString(t []Row) string {
	if len(t) == 0 {
		return "-"
	}
	ss := make([]string, len(t))
	for i, r := range t {
		ss[i] = r.String()
	}
	return strings.Join(ss, ";")
}

func ParseTable(s string) []Row {
	if s == "-" {
		return nil
	}
	var t []Row
	for _, rs := range strings.Split(s, ";") {
		f := strings.Split(rs, ",")
		if len(f) != 5 {
			panic("bad row " + rs)
		}
		var r Row
		r.Ty, _ = strconv.Atoi(f[0])
		r.Mask, _ = strconv.Atoi(f[1])
		r.BitLen, _ = strconv.Atoi(f[2])
		if f[3] != "-" {
			b, err := hex.DecodeString(f[3])
			if err != nil {
				panic("bad row hex " + rs)
			}
			r.Data = b
		}
		if f[4] != "-" {
			for _, x := range strings.Split(f[4], ".") {
				v, _ := strconv.Atoi(x)
				r.Refs = append(r.Refs, v)
			}
		}
		t = append(t, r)
	}
	return t
}

// BuildCells materialises a table as real cells (last row first), sharing one *boc.Cell per row.
func BuildCells(t []Row) []*boc.Cell {
	cells := make([]*boc.Cell, len(t))
	for i := len(t) - 1; i >= 0; i-- {
		r := t[i]
		refs := make([]*boc.Cell, len(r.Refs))
		for j, x := range r.Refs {
			if x <= i || x >= len(t) {
				panic("table is not topologically ordered")
			}
			refs[j] = cells[x]
		}
		cells[i] = boc.VerifNewCell(boc.CellType(r.Ty), uint32(r.Mask), r.Data, r.BitLen, refs)
	}
	return cells
}

// BuildCellsUnshared materialises the table as a tree: every occurrence of a row gets its own *boc.Cell
// (limit guards against exponential unfolding; returns nil when exceeded).
func BuildCellsUnshared(t []Row, root int, limit *int) *boc.Cell {
	if *limit <= 0 {
		return nil
	}
	*limit--
	r := t[root]
	refs := make([]*boc.Cell, len(r.Refs))
	for j, x := range r.Refs {
		refs[j] = BuildCellsUnshared(t, x, limit)
		if refs[j] == nil {
			return nil
		}
	}
	return boc.VerifNewCell(boc.CellType(r.Ty), uint32(r.Mask), r.Data, r.BitLen, refs)
}

// RowOf reads one real cell into a Row (refs left empty).
func RowOf(c *boc.Cell) Row {
	bs := c.RawBitString()
	_, _, n, _ := bs.VerifState()
	buf := bs.VerifBuf()
	nb := (n + 7) / 8
	data := make([]byte, nb)
	copy(data, buf)
	if n%8 != 0 && nb > 0 {
		data[nb-1] &= byte(0xff << uint(8-n%8)) // canonical: unused low bits zero
	}
	return Row{Ty: int(c.CellType()), Mask: int(c.VerifMask()), BitLen: n, Data: data}
}

// Canon dumps the cells reachable from roots as a canonical table: structurally equal cells merged, ids in DFS
// post-order reversed. Returns "table roots". Mirrors Tongo.CellFmt.canon.
func Canon(roots []*boc.Cell) string {
	memo := map[*boc.Cell]int{}
	intern := map[string]int{}
	var rows []Row
	var visit func(c *boc.Cell, depth int) int
	visit = func(c *boc.Cell, depth int) int {
		if id, ok := memo[c]; ok {
			return id
		}
		if depth > 100000 {
			panic("cell graph too deep or cyclic")
		}
		r := RowOf(c)
		for _, ch := range c.Refs() {
			r.Refs = append(r.Refs, visit(ch, depth+1))
		}
		key := r.String()
		if id, ok := intern[key]; ok {
			memo[c] = id
			return id
		}
		id := len(rows)
		rows = append(rows, r)
		intern[key] = id
		memo[c] = id
		return id
	}
	ids := make([]int, len(roots))
	for i, r := range roots {
		ids[i] = visit(r, 0)
	}
	n := len(rows)
	out := make([]Row, n)
	for id, r := range rows {
		for j := range r.Refs {
			r.Refs[j] = n - 1 - r.Refs[j]
		}
		out[n-1-id] = r
	}
	rs := "-"
	if len(ids) > 0 {
		ss := make([]string, len(ids))
		for i, id := range ids {
			ss[i] = strconv.Itoa(n - 1 - id)
		}
		rs = strings.Join(ss, ".")
	}
	return TableString(out) + " " + rs
}

// ------------------------------------------------------------------------------------------------ generators

type DagOpts struct {
	MaxCells   int
	Exotic     bool // allow well-formed exotic cells (pruned / library / merkle)
	MaxBits    int  // 0 = 1023
	ChainDepth int  // >0: force a chain of this depth
}

// RandBits returns (data, bitLen) with the bit length biased towards 0, 1..7 mod 8 and 1016..1023.
func (g *G) RandBitLen(max int) int {
	if max <= 0 {
		max = 1023
	}
	var n int
	switch g.Rng.Intn(10) {
	case 0:
		n = 0
	case 1:
		n = max - g.Rng.Intn(8)
	case 2:
		n = 8 * g.Rng.Intn(max/8+1)
	case 3, 4:
		n = g.Rng.Intn(17)
	default:
		n = g.Rng.Intn(max + 1)
	}
	if n < 0 {
		n = 0
	}
	if n > max {
		n = max
	}
	return n
}

func (g *G) RandData(n int) []byte {
	nb := (n + 7) / 8
	d := g.Bytes(nb)
	switch g.Rng.Intn(6) {
	case 0:
		for i := range d {
			d[i] = 0
		}
	case 1:
		for i := range d {
			d[i] = 0xff
		}
	}
	if n%8 != 0 {
		d[nb-1] &= byte(0xff << uint(8-n%8))
	}
	return d
}

// RandOrdinaryTable: a random DAG of ordinary cells in topological order (row 0 = root, every row reachable).
func (g *G) RandOrdinaryTable(o DagOpts) []Row {
	n := 1 + g.Rng.Intn(o.MaxCells)
	t := make([]Row, n)
	for i := n - 1; i >= 0; i-- {
		bl := g.RandBitLen(o.MaxBits)
		t[i] = Row{BitLen: bl, Data: g.RandData(bl)}
	}
	// make every row i>0 reachable: give it a parent with a smaller index that still has room
	for i := 1; i < n; i++ {
		for tries := 0; ; tries++ {
			p := g.Rng.Intn(i)
			if tries > 20 {
				// find any with room, scanning backwards (prefers deep chains)
				p = -1
				for q := i - 1; q >= 0; q-- {
					if len(t[q].Refs) < 4 {
						p = q
						break
					}
				}
				if p < 0 {
					break
				}
			}
			if g.Rng.Intn(3) == 0 {
				p = i - 1 // chains
			}
			if len(t[p].Refs) < 4 {
				t[p].Refs = append(t[p].Refs, i)
				break
			}
		}
	}
	// extra edges = sharing
	extra := g.Rng.Intn(n/2 + 1)
	for k := 0; k < extra; k++ {
		p := g.Rng.Intn(n)
		if p == n-1 || len(t[p].Refs) >= 4 {
			continue
		}
		c := p + 1 + g.Rng.Intn(n-p-1)
		t[p].Refs = append(t[p].Refs, c)
	}
	// shuffle ref order within rows
	for i := range t {
		g.Rng.Shuffle(len(t[i].Refs), func(a, b int) { t[i].Refs[a], t[i].Refs[b] = t[i].Refs[b], t[i].Refs[a] })
	}
	return t
}
