package h

import (
	"bytes"
	"crypto/sha256"
	"encoding/base64"
	"encoding/hex"
	"os"
	"path/filepath"
	"regexp"
	"sort"
	"strings"

	"github.com/tonkeeper/tongo/boc"
)

// FoundBoc is one bag of cells found in the repo's testdata.
type FoundBoc struct {
	Source string // file (relative to the repo) and how it was found
	Bytes  []byte
	Roots  []*boc.Cell
}

func RepoRoot() string {
	if r := os.Getenv("VERIF_REPO"); r != "" {
		return r
	}
	return "/repo"
}

var (
	hexBocRe = regexp.MustCompile(`(?i)b5ee9c72[0-9a-f]{8,}`)
	b64BocRe = regexp.MustCompile(`te6cc[A-Za-z0-9+/_-]{8,}={0,2}`)
	bocMagic = []byte{0xb5, 0xee, 0x9c, 0x72}
)

// FindTestdataBocs scans every testdata directory of the repo for bags of cells: whole files, hex and base64 strings
// inside text files, and embedded BOCs inside binary files (lite-server answers). Only candidates accepted by the real
// parser are returned (deduplicated, in a stable order).
func FindTestdataBocs() []FoundBoc {
	root := RepoRoot()
	var files []string
	filepath.Walk(root, func(p string, info os.FileInfo, err error) error {
		if err != nil {
			return nil
		}
		if info.IsDir() {
			if info.Name() == ".git" {
				return filepath.SkipDir
			}
			return nil
		}
		if strings.Contains(p, string(filepath.Separator)+"testdata"+string(filepath.Separator)) {
			files = append(files, p)
		}
		return nil
	})
	sort.Strings(files)
	seen := map[[32]byte]bool{}
	var out []FoundBoc
	try := func(src string, b []byte) bool {
		defer func() { recover() }()
		k := sha256.Sum256(b)
		if seen[k] {
			return true
		}
		roots, err := boc.DeserializeBoc(b)
		if err != nil || len(roots) == 0 {
			return false
		}
		seen[k] = true
		out = append(out, FoundBoc{Source: src, Bytes: b, Roots: roots})
		return true
	}
	for _, f := range files {
		data, err := os.ReadFile(f)
		if err != nil || len(data) == 0 {
			continue
		}
		rel, _ := filepath.Rel(root, f)
		if bytes.HasPrefix(data, bocMagic) {
			if try(rel, data) {
				continue
			}
		}
		isText := !bytes.ContainsRune(data[:minInt(len(data), 4096)], 0)
		if isText {
			for _, m := range hexBocRe.FindAll(data, -1) {
				if len(m)%2 == 1 {
					m = m[:len(m)-1]
				}
				if b, err := hex.DecodeString(string(m)); err == nil {
					try(rel+"#hex", b)
				}
			}
			for _, m := range b64BocRe.FindAll(data, -1) {
				s := strings.TrimRight(string(m), "=")
				s = strings.NewReplacer("-", "+", "_", "/").Replace(s)
				if b, err := base64.RawStdEncoding.DecodeString(s); err == nil {
					try(rel+"#base64", b)
				}
			}
			continue
		}
		for off := 0; ; {
			i := bytes.Index(data[off:], bocMagic)
			if i < 0 {
				break
			}
			cand := data[off+i:]
			if n := bocLength(cand); n > 0 && n <= len(cand) {
				try(rel+"#embedded", cand[:n]) // an answer of a lite server continues after the bag of cells
			} else {
				try(rel+"#embedded", cand)
			}
			off += i + 4
		}
	}
	return out
}

// bocLength computes the total length of a serialized_boc#b5ee9c72 from its header (0 when the header is short).
func bocLength(b []byte) int {
	if len(b) < 6 {
		return 0
	}
	flags := b[4]
	size := int(flags & 7)
	hasIdx, hasCrc := flags&0x80 != 0, flags&0x40 != 0
	off := int(b[5])
	if size == 0 || size > 4 || off == 0 || off > 8 || len(b) < 6+3*size+off {
		return 0
	}
	rd := func(p, n int) int {
		v := 0
		for i := 0; i < n; i++ {
			v = v<<8 | int(b[p+i])
		}
		return v
	}
	cells, roots := rd(6, size), rd(6+size, size)
	tot := rd(6+3*size, off)
	n := 6 + 3*size + off + roots*size + tot
	if hasIdx {
		n += cells * off
	}
	if hasCrc {
		n += 4
	}
	if n < 0 {
		return 0
	}
	return n
}
