package h

import (
	"crypto/sha256"
	"math/bits"
)

// SpecHasher evaluates the TON definition of the cell representation hash / depth / level directly on a table
// (lean/TongoModel/CellHashSpec.lean transcribed to Go). It shares nothing with boc/immutable_cell.go: recursion on
// (cell, level) with a memo, no per-level loop, no hash index arithmetic.
type SpecHasher struct {
	T     []Row
	memoH map[[2]int][]byte
	memoD map[[2]int]int
}

func NewSpecHasher(t []Row) *SpecHasher {
	return &SpecHasher{T: t, memoH: map[[2]int][]byte{}, memoD: map[[2]int]int{}}
}

func SpecLevel(mask int) int { return bits.Len(uint(mask)) }

func specSignificant(mask, l int) bool { return l == 0 || (mask>>(uint(l)-1))&1 == 1 }

func specPopcount(mask int) int { return bits.OnesCount(uint(mask)) }

func specChildLevel(ty, l int) int {
	if ty == 3 || ty == 4 {
		return l + 1
	}
	return l
}

// toppedUp returns the data bytes with completion tag.
func toppedUp(r Row) []byte {
	nb := (r.BitLen + 7) / 8
	out := make([]byte, nb)
	copy(out, r.Data)
	if r.BitLen%8 != 0 {
		out[nb-1] &= byte(0xff << uint(8-r.BitLen%8))
		out[nb-1] |= 1 << uint(7-r.BitLen%8)
	}
	return out
}

func (s *SpecHasher) storedHash(r Row, k int) []byte {
	lo, hi := 2+32*k, 2+32*k+32
	if lo > len(r.Data) {
		lo = len(r.Data)
	}
	if hi > len(r.Data) {
		hi = len(r.Data)
	}
	return r.Data[lo:hi]
}

func (s *SpecHasher) storedDepth(r Row, n, k int) int {
	at := func(i int) int {
		if i < len(r.Data) {
			return int(r.Data[i])
		}
		return 0
	}
	return at(2+32*n+2*k)*256 + at(2+32*n+2*k+1)
}

func (s *SpecHasher) Depth(i, l int) int {
	key := [2]int{i, l}
	if v, ok := s.memoD[key]; ok {
		return v
	}
	r := s.T[i]
	var d int
	switch {
	case r.Ty == 1 && l < SpecLevel(r.Mask):
		d = s.storedDepth(r, specPopcount(r.Mask), specPopcount(r.Mask&((1<<uint(l))-1)))
	case !specSignificant(r.Mask, l):
		d = s.Depth(i, l-1)
	default:
		for _, c := range r.Refs {
			if cd := s.Depth(c, specChildLevel(r.Ty, l)); cd > d {
				d = cd
			}
		}
		if len(r.Refs) > 0 {
			d++
		}
	}
	s.memoD[key] = d
	return d
}

func (s *SpecHasher) Hash(i, l int) []byte {
	key := [2]int{i, l}
	if v, ok := s.memoH[key]; ok {
		return v
	}
	r := s.T[i]
	var out []byte
	switch {
	case r.Ty == 1 && l < SpecLevel(r.Mask):
		out = s.storedHash(r, specPopcount(r.Mask&((1<<uint(l))-1)))
	case !specSignificant(r.Mask, l):
		out = s.Hash(i, l-1)
	default:
		x := sha256.New()
		exotic := 0
		if r.Ty != 0 {
			exotic = 8
		}
		d1 := byte(len(r.Refs) + exotic + 32*(r.Mask&((1<<uint(l))-1)))
		d2 := byte((r.BitLen+7)/8 + r.BitLen/8)
		x.Write([]byte{d1, d2})
		lowest := l == 0 || r.Ty == 1 // level 0, or the own level of a pruned branch
		if lowest {
			x.Write(toppedUp(r))
		} else {
			x.Write(s.Hash(i, l-1))
		}
		cl := specChildLevel(r.Ty, l)
		for _, c := range r.Refs {
			d := s.Depth(c, cl)
			x.Write([]byte{byte(d >> 8), byte(d)})
		}
		for _, c := range r.Refs {
			x.Write(s.Hash(c, cl))
		}
		out = x.Sum(nil)
	}
	s.memoH[key] = out
	return out
}

// TooDeep reports whether some cell reachable from row i that is not a pruned branch has, at one of the levels
// 0..3, a depth above 1024 (the trees for which hashing must report ErrDepthIsTooBig).
func (s *SpecHasher) TooDeep(i int) bool {
	seen := map[int]bool{}
	var visit func(i int) bool
	visit = func(i int) bool {
		if seen[i] {
			return false
		}
		seen[i] = true
		r := s.T[i]
		for _, c := range r.Refs {
			if visit(c) {
				return true
			}
		}
		if r.Ty != 1 {
			for l := 0; l < 4; l++ {
				if s.Depth(i, l) > 1024 {
					return true
				}
			}
		}
		return false
	}
	return visit(i)
}

// WFExotic checks the exotic-cell well-formedness rules on every row (Tongo.Spec.wfNode).
func WFExotic(t []Row) bool {
	for _, r := range t {
		if r.Mask > 7 || r.BitLen > 1023 || len(r.Refs) > 4 {
			return false
		}
		or := 0
		for _, c := range r.Refs {
			or |= t[c].Mask
		}
		switch r.Ty {
		case 0:
			if r.Mask != or {
				return false
			}
		case 1:
			if len(r.Refs) != 0 || r.Mask == 0 || r.BitLen != 16+specPopcount(r.Mask)*272 {
				return false
			}
		case 2:
			if len(r.Refs) != 0 || r.Mask != 0 || r.BitLen != 8+256 {
				return false
			}
		case 3:
			if len(r.Refs) != 1 || r.BitLen != 8+272 || r.Mask != or>>1 {
				return false
			}
		case 4:
			if len(r.Refs) != 2 || r.BitLen != 8+2*272 || r.Mask != or>>1 {
				return false
			}
		default:
			return false
		}
	}
	return true
}
