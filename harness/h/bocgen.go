package h

import (
	"encoding/binary"
	"encoding/hex"
	"fmt"
	"hash/crc32"
	"math/bits"
	"strconv"
	"strings"
)

// ---------------------------------------------------------------------------------------------------------------
// Go port of the Lean reference writer Tongo.Boc.emitBoc (lean/TongoModel/Boc.lean). It exists only so that the
// generators can produce bytes at generation time; it is compared byte for byte with the Lean writer on every case
// through the op `boc.emit`.

type EmitParams struct {
	Magic     int // 0 generic, 1 idx, 2 idx+crc
	HasIdx    bool
	HasCrc    bool
	HasCache  bool
	Size      int
	OffBytes  int
	Absent    uint64
	CacheBits []bool
	Stored    [][]byte // nil entry = cell stored without hashes
}

func b01(b bool) string {
	if b {
		return "1"
	}
	return "0"
}

func (p EmitParams) String() string {
	cb := "-"
	if len(p.CacheBits) > 0 {
		var sb strings.Builder
		for _, b := range p.CacheBits {
			sb.WriteString(b01(b))
		}
		cb = sb.String()
	}
	st := "-"
	if len(p.Stored) > 0 {
		ss := make([]string, len(p.Stored))
		for i, s := range p.Stored {
			if s == nil {
				ss[i] = "-"
			} else {
				ss[i] = hex.EncodeToString(s)
				if len(s) == 0 {
					panic("empty stored hashes are not representable")
				}
			}
		}
		st = strings.Join(ss, ".")
	}
	return fmt.Sprintf("%d,%s,%s,%s,%d,%d,%d,%s,%s", p.Magic, b01(p.HasIdx), b01(p.HasCrc), b01(p.HasCache), p.Size,
		p.OffBytes, p.Absent, cb, st)
}

func (p EmitParams) Idx() bool   { return p.Magic != 0 || p.HasIdx }
func (p EmitParams) Crc() bool   { return (p.Magic == 0 && p.HasCrc) || p.Magic == 2 }
func (p EmitParams) Cache() bool { return p.Magic == 0 && p.HasCache }

// BE writes n big-endian on w bytes (value taken mod 256^w).
func BE(w int, n uint64) []byte {
	out := make([]byte, w)
	for i := 0; i < w && i < 8; i++ {
		out[w-1-i] = byte(n >> (8 * uint(i)))
	}
	return out
}

// ToppedUp returns the data bytes with the completion tag.
func ToppedUp(data []byte, bitLen int) []byte {
	nb := (bitLen + 7) / 8
	out := make([]byte, nb)
	copy(out, data)
	if bitLen%8 != 0 {
		out[nb-1] &= byte(0xff << uint(8-bitLen%8))
		out[nb-1] |= 1 << uint(7-bitLen%8)
	}
	return out
}

func EmitCell(size int, r Row, stored []byte) []byte {
	d1 := len(r.Refs) + 32*r.Mask
	if r.Ty != 0 {
		d1 += 8
	}
	if stored != nil {
		d1 += 16
	}
	out := []byte{byte(d1), byte((r.BitLen+7)/8 + r.BitLen/8)}
	out = append(out, stored...)
	out = append(out, ToppedUp(r.Data, r.BitLen)...)
	for _, x := range r.Refs {
		out = append(out, BE(size, uint64(x))...)
	}
	return out
}

var MagicBytes = [3][]byte{{0xb5, 0xee, 0x9c, 0x72}, {0x68, 0xff, 0x65, 0xf3}, {0xac, 0xc3, 0xa7, 0x28}}

var castagnoli = crc32.MakeTable(crc32.Castagnoli)

func EmitBoc(p EmitParams, t []Row, roots []int) []byte {
	cells := make([][]byte, len(t))
	tot := 0
	for i, r := range t {
		var st []byte
		if i < len(p.Stored) {
			st = p.Stored[i]
		}
		cells[i] = EmitCell(p.Size, r, st)
		tot += len(cells[i])
	}
	m := p.Magic
	if m > 2 {
		m = 2
	}
	out := append([]byte{}, MagicBytes[m]...)
	if p.Magic == 0 {
		fb := p.Size
		if p.HasIdx {
			fb += 128
		}
		if p.HasCrc {
			fb += 64
		}
		if p.HasCache {
			fb += 32
		}
		out = append(out, byte(fb))
	} else {
		out = append(out, byte(p.Size))
	}
	out = append(out, byte(p.OffBytes))
	out = append(out, BE(p.Size, uint64(len(t)))...)
	out = append(out, BE(p.Size, uint64(len(roots)))...)
	out = append(out, BE(p.Size, p.Absent)...)
	out = append(out, BE(p.OffBytes, uint64(tot))...)
	if p.Magic == 0 {
		for _, r := range roots {
			out = append(out, BE(p.Size, uint64(r))...)
		}
	}
	if p.Idx() {
		acc := 0
		for i, c := range cells {
			acc += len(c)
			v := uint64(acc)
			if p.Cache() {
				v *= 2
				if i < len(p.CacheBits) && p.CacheBits[i] {
					v++
				}
			}
			out = append(out, BE(p.OffBytes, v)...)
		}
	}
	for _, c := range cells {
		out = append(out, c...)
	}
	if p.Crc() {
		var cs [4]byte
		binary.LittleEndian.PutUint32(cs[:], crc32.Checksum(out, castagnoli))
		out = append(out, cs[:]...)
	}
	return out
}

// MinSize is the smallest reference width that can hold every index < n and the counter n itself.
func MinSize(n int) int {
	s := (bits.Len(uint(n)) + 7) / 8
	if s < 1 {
		s = 1
	}
	return s
}

// DataSize is the total size of the serialised cells for a reference width.
func DataSize(size int, t []Row, stored [][]byte) int {
	tot := 0
	for i, r := range t {
		tot += 2 + (r.BitLen+7)/8 + size*len(r.Refs)
		if i < len(stored) {
			tot += len(stored[i])
		}
	}
	return tot
}

// RandEmitParams draws valid parameters for the table: every header variant a conforming writer may choose.
func (g *G) RandEmitParams(t []Row, nroots int, allowIdxMagic bool) EmitParams {
	var p EmitParams
	minSize := MinSize(len(t))
	if ms := MinSize(nroots); ms > minSize {
		minSize = ms
	}
	p.Size = minSize + g.Rng.Intn(4-minSize+1)
	if g.Rng.Intn(3) == 0 {
		p.Size = minSize
	}
	p.Magic = 0
	if allowIdxMagic && nroots == 1 && g.Rng.Intn(3) == 0 {
		p.Magic = 1 + g.Rng.Intn(2)
	}
	p.HasIdx = g.Rng.Intn(2) == 0
	p.HasCrc = g.Rng.Intn(2) == 0
	p.HasCache = g.Rng.Intn(2) == 0
	// cells stored with hashes (content of the stored bytes is irrelevant to a reader that recomputes hashes)
	if g.Rng.Intn(3) == 0 {
		p.Stored = make([][]byte, len(t))
		for i, r := range t {
			if g.Rng.Intn(2) == 0 {
				p.Stored[i] = g.Bytes((bits.OnesCount(uint(r.Mask)) + 1) * 34)
			}
		}
	}
	tot := DataSize(p.Size, t, p.Stored)
	maxOff := uint64(tot)
	if p.Cache() {
		maxOff = 2*maxOff + 1
	}
	minOff := (bits.Len64(maxOff) + 7) / 8
	if minOff < 1 {
		minOff = 1
	}
	p.OffBytes = minOff + g.Rng.Intn(8-minOff+1)
	if g.Rng.Intn(3) == 0 {
		p.OffBytes = minOff
	}
	if g.Rng.Intn(4) == 0 {
		// roots + absent <= cells
		room := len(t) - nroots
		if room > 0 {
			p.Absent = uint64(g.Rng.Intn(room + 1))
		}
	}
	if p.HasCache {
		p.CacheBits = make([]bool, len(t))
		for i := range p.CacheBits {
			p.CacheBits[i] = g.Rng.Intn(2) == 0
		}
	}
	return p
}

// ---------------------------------------------------------------------------------------------------------------
// tables

// CanonTable computes the canonical form of a table without building cells (mirror of Tongo.CellFmt.canon).
func CanonTable(t []Row, roots []int) string {
	memo := map[int]int{}
	intern := map[string]int{}
	var rows []Row
	var visit func(i int) int
	visit = func(i int) int {
		if id, ok := memo[i]; ok {
			return id
		}
		r := t[i]
		nr := Row{Ty: r.Ty, Mask: r.Mask, BitLen: r.BitLen, Data: r.Data}
		for _, ch := range r.Refs {
			nr.Refs = append(nr.Refs, visit(ch))
		}
		key := nr.String()
		if id, ok := intern[key]; ok {
			memo[i] = id
			return id
		}
		id := len(rows)
		rows = append(rows, nr)
		intern[key] = id
		memo[i] = id
		return id
	}
	ids := make([]int, len(roots))
	for i, r := range roots {
		ids[i] = visit(r)
	}
	n := len(rows)
	out := make([]Row, n)
	for id, r := range rows {
		for j := range r.Refs {
			r.Refs[j] = n - 1 - r.Refs[j]
		}
		out[n-1-id] = r
	}
	rs := "-"
	if len(ids) > 0 {
		ss := make([]string, len(ids))
		for i, id := range ids {
			ss[i] = strconv.Itoa(n - 1 - id)
		}
		rs = strings.Join(ss, ".")
	}
	return TableString(out) + " " + rs
}

// Permute renumbers a table by a random topological order (refs still point forward) and returns the new table and
// the new index of every old row.
func (g *G) Permute(t []Row) ([]Row, []int) {
	n := len(t)
	// random priorities; a row may be placed once all its parents are placed (Kahn with random choice)
	indeg := make([]int, n)
	for _, r := range t {
		for _, c := range r.Refs {
			indeg[c]++
		}
	}
	var ready []int
	for i := 0; i < n; i++ {
		if indeg[i] == 0 {
			ready = append(ready, i)
		}
	}
	pos := make([]int, n)
	order := make([]int, 0, n)
	for len(ready) > 0 {
		k := g.Rng.Intn(len(ready))
		i := ready[k]
		ready[k] = ready[len(ready)-1]
		ready = ready[:len(ready)-1]
		pos[i] = len(order)
		order = append(order, i)
		for _, c := range t[i].Refs {
			indeg[c]--
			if indeg[c] == 0 {
				ready = append(ready, c)
			}
		}
	}
	if len(order) != n {
		panic("table has a cycle")
	}
	out := make([]Row, n)
	for newI, oldI := range order {
		r := t[oldI]
		nr := Row{Ty: r.Ty, Mask: r.Mask, BitLen: r.BitLen, Data: r.Data}
		for _, c := range r.Refs {
			nr.Refs = append(nr.Refs, pos[c])
		}
		out[newI] = nr
	}
	return out, pos
}

// exoticRow builds a well-formed exotic cell of the given type over the (already built) children.
func (g *G) exoticRow(ty int, t []Row, kids []int) Row {
	switch ty {
	case 1: // pruned branch: type, mask, k hashes, k depths
		mask := 1 + g.Rng.Intn(7)
		k := bits.OnesCount(uint(mask))
		d := append([]byte{1, byte(mask)}, g.Bytes(34*k)...)
		for j := 0; j < k; j++ { // keep stored depths small
			d[2+32*k+2*j] = 0
		}
		return Row{Ty: 1, Mask: mask, BitLen: 8 * len(d), Data: d}
	case 2: // library: type + hash
		d := append([]byte{2}, g.Bytes(32)...)
		return Row{Ty: 2, Mask: 0, BitLen: 8 * len(d), Data: d}
	case 3: // merkle proof: type + hash + depth, one ref
		d := append([]byte{3}, g.Bytes(34)...)
		d[33] = 0
		return Row{Ty: 3, Mask: t[kids[0]].Mask >> 1, BitLen: 8 * len(d), Data: d, Refs: []int{kids[0]}}
	default: // merkle update: type + 2 hashes + 2 depths, two refs
		d := append([]byte{4}, g.Bytes(68)...)
		d[65], d[67] = 0, 0
		return Row{Ty: 4, Mask: (t[kids[0]].Mask | t[kids[1]].Mask) >> 1, BitLen: 8 * len(d), Data: d,
			Refs: []int{kids[0], kids[1]}}
	}
}

// RandTable: a random DAG (row 0 = root, every row reachable, refs forward) of ordinary and — when o.Exotic —
// well-formed exotic cells with consistent level masks. Shapes: "rand", "chain", "diamond", "bintree", "wide".
func (g *G) RandTable(o DagOpts, shape string) []Row {
	n := 1 + g.Rng.Intn(o.MaxCells)
	switch shape {
	case "chain":
		if o.ChainDepth > 0 {
			n = o.ChainDepth
		}
	case "bintree":
		// full binary tree levels sharing one row per level (exponential unfolding, linear table)
		if n > 60 {
			n = 60
		}
	}
	t := make([]Row, n)
	for i := n - 1; i >= 0; i-- {
		var kids []int
		room := n - 1 - i
		switch shape {
		case "chain":
			if room > 0 {
				kids = []int{i + 1}
			}
		case "bintree":
			if room > 0 {
				kids = []int{i + 1, i + 1}
			}
		case "diamond":
			if room >= 2 && i%3 == 0 {
				kids = []int{i + 1, i + 2}
			} else if room >= 1 {
				kids = []int{i + 1 + g.Rng.Intn(min(room, 2))}
			}
		case "wide":
			for k := 0; k < 4 && room > 0; k++ {
				kids = append(kids, i+1+g.Rng.Intn(room))
			}
		default:
			nk := g.Rng.Intn(5)
			for k := 0; k < nk && room > 0; k++ {
				if g.Rng.Intn(3) == 0 {
					kids = append(kids, i+1)
				} else {
					kids = append(kids, i+1+g.Rng.Intn(room))
				}
			}
		}
		if o.Exotic && g.Rng.Intn(6) == 0 {
			ty := 1 + g.Rng.Intn(4)
			if ty == 3 && len(kids) < 1 {
				ty = 2
			}
			if ty == 4 && len(kids) < 2 {
				ty = 1
			}
			t[i] = g.exoticRow(ty, t, kids)
			continue
		}
		bl := g.RandBitLen(o.MaxBits)
		mask := 0
		for _, k := range kids {
			mask |= t[k].Mask
		}
		t[i] = Row{BitLen: bl, Data: g.RandData(bl), Mask: mask, Refs: kids}
	}
	// make every row reachable: attach orphans to an earlier ordinary row with room (or drop them by compaction)
	reach := make([]bool, n)
	reach[0] = true
	for i := 0; i < n; i++ {
		if !reach[i] {
			// find a parent
			for tries := 0; tries < 30 && !reach[i]; tries++ {
				p := g.Rng.Intn(i)
				if reach[p] && t[p].Ty == 0 && len(t[p].Refs) < 4 {
					t[p].Refs = append(t[p].Refs, i)
					reach[i] = true
				}
			}
		}
		if reach[i] {
			for _, c := range t[i].Refs {
				reach[c] = true
			}
		}
	}
	// compaction of unreachable rows + recomputation of the masks of ordinary rows (children first)
	newIdx := make([]int, n)
	var out []Row
	for i := 0; i < n; i++ {
		if reach[i] {
			newIdx[i] = len(out)
			out = append(out, t[i])
		}
	}
	for i := range out {
		refs := make([]int, len(out[i].Refs))
		for j, c := range out[i].Refs {
			refs[j] = newIdx[c]
		}
		out[i].Refs = refs
	}
	for i := len(out) - 1; i >= 0; i-- {
		r := &out[i]
		switch r.Ty {
		case 0:
			r.Mask = 0
			for _, c := range r.Refs {
				r.Mask |= out[c].Mask
			}
		case 3:
			r.Mask = out[r.Refs[0]].Mask >> 1
		case 4:
			r.Mask = (out[r.Refs[0]].Mask | out[r.Refs[1]].Mask) >> 1
		}
	}
	return out
}

func min(a, b int) int {
	if a < b {
		return a
	}
	return b
}
