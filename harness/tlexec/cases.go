package tlexec

import (
	"encoding/hex"
	"fmt"

	"verifharness/h"
	"verifharness/tlmini"
)

func TextHex(s string) string { return hex.EncodeToString([]byte(s)) }

// LengthPlan returns a byte-string length generator biased to the layout boundaries.
func LengthPlan(g *h.G) func() int {
	return func() int {
		switch g.Rng.Intn(12) {
		case 0:
			return 0
		case 1:
			return g.Pick(1, 2, 3, 4, 5, 7, 8)
		case 2:
			return g.Pick(252, 253, 254, 255, 256, 257, 258, 259, 260)
		case 3:
			return 200 + g.Rng.Intn(120)
		case 4:
			if g.Rng.Intn(4) == 0 { // around the decoder's incremental-read chunk (4096 bytes)
				return g.Pick(4095, 4096, 4097, 8192, 8193, 12289)
			}
			return g.Rng.Intn(48)
		default:
			return g.Rng.Intn(48)
		}
	}
}

// ModePlan enumerates all subsets of the tested flag bits in turn; every other value also carries random untested bits.
func ModePlan(g *h.G) func(used uint32) uint32 {
	ctr := uint32(g.Rng.Intn(1 << 16))
	return func(used uint32) uint32 {
		ctr++
		var m uint32
		k := ctr
		for b := uint(0); b < 32; b++ {
			if used&(1<<b) != 0 {
				if k&1 == 1 {
					m |= 1 << b
				}
				k >>= 1
			}
		}
		if g.Rng.Intn(2) == 0 {
			m |= g.Rng.Uint32() &^ used
		}
		return m
	}
}

// CountVal feeds the shape of a value into the input distribution of the evidence.
func CountVal(g *h.G, v *tlmini.Val) {
	switch v.K {
	case tlmini.VRaw:
		n := len(v.B)
		switch {
		case n == 0:
			g.Count("bytes_len_0")
		case n == 32:
			g.Count("raw_32_bytes")
		case n < 254:
			g.Count(fmt.Sprintf("bytes_len_mod4_%d", n%4))
		default:
			g.Count("bytes_len_ge254")
		}
	case tlmini.VVec:
		switch n := len(v.Items); {
		case n == 0:
			g.Count("vec_0")
		case n < 8:
			g.Count("vec_1..7")
		default:
			g.Count("vec_8..50")
		}
	case tlmini.VAbsent:
		g.Count("field_absent")
	case tlmini.VSum:
		g.Count("boxed_values")
	}
	for _, it := range v.Items {
		CountVal(g, it)
	}
}

// TopTypes: what is exercised per result type — single-constructor types through their bare constructor (the
// generated <Ctor>C struct), multi-constructor types boxed.
func TopTypes(s *tlmini.Schema) []*tlmini.Ty {
	var tys []*tlmini.Ty
	for _, tn := range s.TypeNames() {
		cs := s.CtorsOf(tn)
		if len(cs) == 1 {
			tys = append(tys, &tlmini.Ty{Kind: tlmini.KBare, Name: cs[0].Ctor})
		} else {
			tys = append(tys, &tlmini.Ty{Kind: tlmini.KBoxed, Name: tn})
		}
	}
	return tys
}

// malformed re-encodes a value with ONE of its bytes / string / Bool leaves written in an invalid or non-canonical way
// (tlmini.Malform: length prefix 255, long form for a short string, non-zero padding, length past the data, unknown
// Bool magic): up to two such byte strings per value. What a decoder must do with them is decided by the schema
// semantics (spec ops): refuse prefix 255 and unknown Bool magics, accept non-canonical long forms and any padding.
func malformed(g *h.G, enc func() ([]byte, error)) [][]byte {
	if noMalformed {
		return nil
	}
	tlmini.Malform = tlmini.MalformPlan{}
	enc()
	leaves := tlmini.Malform.Seen
	var out [][]byte
	for k := 0; k < 2 && leaves > 0; k++ {
		tlmini.Malform = tlmini.MalformPlan{Target: 1 + g.Rng.Intn(leaves), Kind: g.Rng.Intn(100000)}
		if b, err := enc(); err == nil {
			out = append(out, b)
			g.Count("malformed_leaf")
		}
	}
	tlmini.Malform = tlmini.MalformPlan{}
	return out
}

// noMalformed: set by EmitCases for schemas that declare a vector whose items occupy ZERO bytes (a constructor without
// fields): after a malformed leaf the decoders may read a garbage count for such a vector, and a count of up to 2^32
// items that consume no input is legitimately decodable by the TL rules but takes tl.decodeVector minutes (and the
// model's structural decoder a stack of that depth) - recorded separately by the oracle go.tl.zerovec.
var noMalformed bool

func zeroSize(s *tlmini.Schema, t *tlmini.Ty, depth int) bool {
	if depth > 8 {
		return false
	}
	switch t.Kind {
	case tlmini.KTrue:
		return true
	case tlmini.KBare:
		d := s.Ctor(t.Name)
		if d == nil {
			return false
		}
		for i := range d.Fields {
			if !zeroSize(s, d.Fields[i].Ty, depth+1) {
				return false
			}
		}
		return true
	}
	return false
}

func hasZeroSizeVector(s *tlmini.Schema) bool {
	var in func(t *tlmini.Ty) bool
	in = func(t *tlmini.Ty) bool {
		return t.Kind == tlmini.KVector && (zeroSize(s, t.Item, 0) || in(t.Item))
	}
	for _, d := range append(append([]*tlmini.Decl{}, s.Types...), s.Funcs...) {
		for i := range d.Fields {
			if in(d.Fields[i].Ty) {
				return true
			}
		}
	}
	return false
}

// EmitCases writes, for every type in tys and every function of the schema, n random values each with the operations
// tl.enc / tl.dec / go.tl.roundtrip, tl.fenc / tl.fdec / <reqOp> / tl.reqdec / tl.ans. `key` prefixes the non-trivial
// case identity (schema id); whole != "": every line carries that (raw) text of the whole schema instead of the declarations it needs.
func EmitCases(g *h.G, s *tlmini.Schema, tys []*tlmini.Ty, n int, reqOp, key string, whole string) {
	gen := &tlmini.Gen{R: g.Rng, S: s, MaxVec: 50, Len: LengthPlan(g), Mode: ModePlan(g)}
	noMalformed = hasZeroSizeVector(s)
	if noMalformed {
		g.Count("schemas_without_malformed_cases")
	}
	junk := func() string {
		if g.Rng.Intn(3) == 0 {
			return "-"
		}
		return h.Hex(g.Bytes(1 + g.Rng.Intn(9)))
	}
	all := append(append([]*tlmini.Decl{}, s.Types...), s.Funcs...)
	fullHex := TextHex(s.Render())
	if whole != "" {
		fullHex = TextHex(whole)
	}
	subOf := func(tys []*tlmini.Ty, funcs []string, extra ...string) string {
		if whole != "" {
			return fullHex
		}
		return TextHex(s.Sub(tys, funcs, extra...))
	}
	g.Emit("go.tl.reqtable", fullHex)
	for _, t := range tys {
		sub := subOf([]*tlmini.Ty{t}, nil)
		for i := 0; i < n; i++ {
			gen.Budget = 60
			v := gen.Val(t, 0)
			CountVal(g, v)
			vs := v.String()
			g.NonTrivial(key + t.Name + "/" + vs)
			g.Emit("tl.enc", sub, t.Name, vs)
			ref, err := s.Encode(t, v)
			if err != nil {
				h.Fatalf("reference encoder: %v", err)
			}
			j := junk()
			g.Emit("tl.dec", sub, t.Name, h.Hex(append(ref, h.MustUnHex(j)...)))
			g.Emit("go.tl.roundtrip", sub, "type", t.Name, vs, j)
			for _, mb := range malformed(g, func() ([]byte, error) { return s.Encode(t, v) }) {
				g.Emit("tl.dec", sub, t.Name, h.Hex(append(mb, h.MustUnHex(junk())...)))
			}
			if t.Kind == tlmini.KBoxed && g.Rng.Intn(4) == 0 { // dispatch on an id that is not one of the type's
				bad := append([]byte{}, ref...)
				bad[g.Rng.Intn(4)] ^= byte(1 << uint(g.Rng.Intn(8)))
				tag := uint32(bad[0]) | uint32(bad[1])<<8 | uint32(bad[2])<<16 | uint32(bad[3])<<24
				clash := false
				for _, c := range s.CtorsOf(t.Name) {
					clash = clash || c.ID == tag
				}
				if !clash {
					g.Emit("tl.dec", sub, t.Name, h.Hex(bad))
				}
			}
		}
	}
	errDecl := s.Ctor("liteServer.error")
	for _, d := range s.Funcs {
		sub := subOf(nil, []string{d.Ctor}, "liteServer.error")
		resTy := &tlmini.Ty{Kind: tlmini.KBoxed, Name: d.Result}
		for i := 0; i < n; i++ {
			gen.Budget = 60
			ps := &tlmini.Val{K: tlmini.VTuple, Items: gen.Fields(d, 0)}
			CountVal(g, ps)
			g.NonTrivial(key + d.Ctor + "/" + ps.String())
			g.Emit("tl.fenc", sub, d.Ctor, ps.String())
			ref, err := s.EncodeFields(d.Fields, ps.Items)
			if err != nil {
				h.Fatalf("reference encoder: %v", err)
			}
			j := junk()
			g.Emit("tl.fdec", sub, d.Ctor, h.Hex(append(ref, h.MustUnHex(j)...)))
			for _, mb := range malformed(g, func() ([]byte, error) { return s.EncodeFields(d.Fields, ps.Items) }) {
				g.Emit("tl.fdec", sub, d.Ctor, h.Hex(mb))
				g.Emit("tl.reqdec", fullHex, h.Hex(append(tlmini.Le32(d.ID), mb...)))
			}
			g.Emit("go.tl.roundtrip", sub, "func", d.Ctor, ps.String(), j)
			if i%3 == 0 || len(d.Fields) > 0 && i < 20 {
				g.Emit(reqOp, sub, d.Ctor, ps.String())
			}
			g.Emit("tl.reqdec", fullHex, h.Hex(append(append(tlmini.Le32(d.ID), ref...), h.MustUnHex(j)...)))
			gen.Budget = 60
			res := gen.Val(resTy, 0)
			CountVal(g, res)
			rb, err := s.Encode(resTy, res)
			if err != nil {
				h.Fatalf("reference encoder: %v", err)
			}
			for _, mb := range malformed(g, func() ([]byte, error) { return s.Encode(resTy, res) }) {
				g.Emit("tl.ans", sub, d.Ctor, h.Hex(mb))
			}
			otherTag := func() []byte { // a leading id that is neither a constructor of the result type nor liteServer.error
				bad := append([]byte{}, rb[:4]...)
				for {
					if g.Rng.Intn(2) == 0 {
						copy(bad, tlmini.Le32(all[g.Rng.Intn(len(all))].ID))
					} else {
						copy(bad, rb[:4])
						bad[g.Rng.Intn(4)] ^= byte(1 << uint(g.Rng.Intn(8)))
					}
					tag := uint32(bad[0]) | uint32(bad[1])<<8 | uint32(bad[2])<<16 | uint32(bad[3])<<24
					clash := tag == errDecl.ID
					for _, c := range s.CtorsOf(d.Result) {
						clash = clash || c.ID == tag
					}
					if !clash {
						return bad
					}
				}
			}
			errAnswer := func(class int) []byte { // liteServer.error of every code class / message length class
				codes := []uint64{0, 1, 651, 228, 0x7fffffff, 0x80000000, 0xfffffdc5 /* -571 */, 0xffffffff, uint64(g.Rng.Uint32())}
				msgs := [][]byte{{}, []byte("block is not applied"), []byte("x"), g.Bytes(3), g.Bytes(253), g.Bytes(254), g.Bytes(255), g.Bytes(300 + g.Rng.Intn(700))}
				ev := []*tlmini.Val{{K: tlmini.VNum, N: codes[class%len(codes)]}, {K: tlmini.VRaw, B: msgs[(class/len(codes)+class)%len(msgs)]}}
				if len(errDecl.Fields) != 2 {
					ev = gen.Fields(errDecl, 0)
				}
				eb, err := s.EncodeFields(errDecl.Fields, ev)
				if err != nil {
					eb, _ = s.EncodeFields(errDecl.Fields, gen.Fields(errDecl, 0))
				}
				return append(tlmini.Le32(errDecl.ID), eb...)
			}
			switch i % 10 {
			case 1: // liteServer.error, every code class in turn
				g.Count("answer_error")
				g.Emit("tl.ans", sub, d.Ctor, h.Hex(errAnswer(i/10+g.Rng.Intn(64))))
			case 2: // wrong tag (never another constructor of the result type: that is a malformed value, property C08)
				g.Count("answer_wrong_tag")
				g.Emit("tl.ans", sub, d.Ctor, h.Hex(append(otherTag(), rb[4:]...)))
			case 3: // a complete, valid value - of another type
				for try := 0; try < 20; try++ {
					o := all[g.Rng.Intn(len(s.Types))]
					if o.Result == d.Result || o.ID == errDecl.ID {
						continue
					}
					gen.Budget = 30
					oty := &tlmini.Ty{Kind: tlmini.KBoxed, Name: o.Result}
					ob, err := s.Encode(oty, gen.Val(oty, 0))
					tag := uint32(ob[0]) | uint32(ob[1])<<8 | uint32(ob[2])<<16 | uint32(ob[3])<<24
					clash := err != nil || tag == errDecl.ID
					for _, c := range s.CtorsOf(d.Result) {
						clash = clash || c.ID == tag
					}
					if !clash {
						g.Count("answer_other_type")
						g.Emit("tl.ans", sub, d.Ctor, h.Hex(ob))
						break
					}
				}
			case 4: // shorter than a constructor id, or the id alone
				g.Count("answer_truncated_tag")
				g.Emit("tl.ans", sub, d.Ctor, h.Hex(rb[:g.Rng.Intn(5)]))
			case 5: // cut inside the value / inside a liteServer.error
				g.Count("answer_truncated")
				cut := rb
				if g.Rng.Intn(3) == 0 {
					cut = errAnswer(g.Rng.Intn(64))
				}
				g.Emit("tl.ans", sub, d.Ctor, h.Hex(cut[:g.Rng.Intn(len(cut))]))
			case 6: // oversized: bytes after the value are ignored by the generated code
				g.Count("answer_trailing")
				extra := 1 + g.Rng.Intn(8)
				if g.Rng.Intn(4) == 0 {
					extra = 1000 + g.Rng.Intn(3096)
				}
				ans := rb
				if g.Rng.Intn(4) == 0 {
					ans = errAnswer(g.Rng.Intn(64))
				}
				g.Emit("tl.ans", sub, d.Ctor, h.Hex(append(append([]byte{}, ans...), g.Bytes(extra)...)))
			default:
				g.Count("answer_result")
				g.Emit("tl.ans", sub, d.Ctor, h.Hex(rb))
			}
		}
	}
	// long vectors: every vector-typed field of every declaration with exactly 255, 256, 257, 300, 1000 items (and
	// 65536+ items of builtin element types in the thorough tier), in both directions; nested vectors and vectors of
	// boxed values included. A conditional vector field is made present (all tested mode bits set).
	lens := []int{255, 256, 257, 300, 1000}
	saveMode := gen.Mode
	gen.Mode = func(used uint32) uint32 { return used }
	longVec := func(d *tlmini.Decl, emit func(items []*tlmini.Val, f *tlmini.Field, n int)) {
		for i := range d.Fields {
			f := &d.Fields[i]
			if f.Ty.Kind != tlmini.KVector {
				continue
			}
			ls := lens
			if g.Thorough() && (f.Ty.Item.Kind <= tlmini.KBool) {
				ls = append(append([]int{}, lens...), 65536, 65537, 70001)
			}
			for _, n := range ls {
				gen.Force = map[*tlmini.Field]int{f: n}
				gen.Budget = 20
				items := gen.Fields(d, 1)
				gen.Force = nil
				g.Count("long_vectors")
				g.Count(fmt.Sprintf("long_vector_%d", n))
				emit(items, f, n)
			}
		}
	}
	for _, t := range tys {
		var ds []*tlmini.Decl
		if t.Kind == tlmini.KBoxed {
			ds = s.CtorsOf(t.Name)
		} else if d := s.Ctor(t.Name); d != nil {
			ds = []*tlmini.Decl{d}
		}
		sub := subOf([]*tlmini.Ty{t}, nil)
		for _, d := range ds {
			d := d
			longVec(d, func(items []*tlmini.Val, f *tlmini.Field, n int) {
				v := &tlmini.Val{K: tlmini.VTuple, Items: items}
				if t.Kind == tlmini.KBoxed {
					v = &tlmini.Val{K: tlmini.VSum, Ctor: d.Ctor, Items: items}
				}
				ref, err := s.Encode(t, v)
				if err != nil {
					h.Fatalf("reference encoder: %v", err)
				}
				g.NonTrivial(fmt.Sprintf("%s%s/long/%s/%d", key, t.Name, f.Name, n))
				g.Emit("tl.enc", sub, t.Name, v.String())
				g.Emit("tl.dec", sub, t.Name, h.Hex(append(ref, 0xab, 0xcd)))
				g.Emit("go.tl.roundtrip", sub, "type", t.Name, v.String(), "abcd")
			})
		}
	}
	for _, d := range s.Funcs {
		d := d
		sub := subOf(nil, []string{d.Ctor}, "liteServer.error")
		longVec(d, func(items []*tlmini.Val, f *tlmini.Field, n int) {
			ps := &tlmini.Val{K: tlmini.VTuple, Items: items}
			ref, err := s.EncodeFields(d.Fields, items)
			if err != nil {
				h.Fatalf("reference encoder: %v", err)
			}
			g.NonTrivial(fmt.Sprintf("%s%s/long/%s/%d", key, d.Ctor, f.Name, n))
			g.Emit("tl.fenc", sub, d.Ctor, ps.String())
			g.Emit("tl.fdec", sub, d.Ctor, h.Hex(append(ref, 0xab)))
			g.Emit("go.tl.roundtrip", sub, "func", d.Ctor, ps.String(), "ab")
			g.Emit(reqOp, sub, d.Ctor, ps.String())
			g.Emit("tl.reqdec", fullHex, h.Hex(append(tlmini.Le32(d.ID), ref...)))
		})
		// answers whose result carries a long vector
		resTy := &tlmini.Ty{Kind: tlmini.KBoxed, Name: d.Result}
		for _, c := range s.CtorsOf(d.Result) {
			c := c
			longVec(c, func(items []*tlmini.Val, f *tlmini.Field, n int) {
				if n > 1000 {
					return
				}
				rb, err := s.Encode(resTy, &tlmini.Val{K: tlmini.VSum, Ctor: c.Ctor, Items: items})
				if err != nil || c.ID == errDecl.ID {
					return
				}
				g.Count("answer_long_vector")
				g.Emit("tl.ans", sub, d.Ctor, h.Hex(rb))
			})
		}
	}
	gen.Mode = saveMode
	// request decoder: ids that are no function, short inputs
	for i := 0; i < 8+n/2; i++ {
		b := g.Bytes(g.Rng.Intn(12))
		if g.Rng.Intn(3) == 0 && len(b) >= 4 {
			copy(b, tlmini.Le32(s.Types[g.Rng.Intn(len(s.Types))].ID))
		}
		g.Emit("tl.reqdec", fullHex, h.Hex(b))
	}
}
