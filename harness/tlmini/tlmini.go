// Package tlmini is the harness' own reading of the TL subset used by liteclient/lite_api.tl: a tokeniser/parser
// (independent of tongo's tl/parser, which is under test), a canonical printer that must agree character by character
// with Tongo.Tl.render of the Lean model, untyped TL values with the textual syntax shared with the Lean driver, a
// reference encoder, and random value generation directed by the schema.
package tlmini

import (
	"fmt"
	"strconv"
	"strings"
)

type Kind int

const (
	KNat Kind = iota // #
	KInt
	KLong
	KInt256
	KBytes
	KString
	KBool
	KTrue
	KBare
	KBoxed
	KVector
)

type Ty struct {
	Kind Kind
	Name string // KBare / KBoxed
	Item *Ty    // KVector
}

type Field struct {
	Name    string
	HasCond bool
	Flag    string
	Bit     int
	Ty      *Ty
}

type Decl struct {
	Ctor   string
	ID     uint32
	Fields []Field
	Result string
}

type Schema struct {
	Types []*Decl
	Funcs []*Decl
}

// ---------------------------------------------------------------------------------------------------- tokeniser

type tok struct {
	k byte // 'w' word, or one of : ? ( ) = ;
	s string
}

func isWordChar(c byte) bool {
	return c >= 'a' && c <= 'z' || c >= 'A' && c <= 'Z' || c >= '0' && c <= '9' || c == '_' || c == '.' || c == '#' || c == '-'
}

func tokenize(src string) ([]tok, error) {
	var out []tok
	i := 0
	for i < len(src) {
		c := src[i]
		switch {
		case c == '/' && i+1 < len(src) && src[i+1] == '/':
			for i < len(src) && src[i] != '\n' {
				i++
			}
		case isWordChar(c):
			j := i
			for j < len(src) && isWordChar(src[j]) {
				j++
			}
			out = append(out, tok{'w', src[i:j]})
			i = j
		case strings.IndexByte(":?()=;", c) >= 0:
			out = append(out, tok{c, string(c)})
			i++
		case c == ' ' || c == '\n' || c == '\t' || c == '\r':
			i++
		default:
			return nil, fmt.Errorf("unexpected character %q at offset %d", c, i)
		}
	}
	return out, nil
}

func validComponent(s string) bool {
	if s == "" {
		return false
	}
	for i := 0; i < len(s); i++ {
		c := s[i]
		letter := c >= 'a' && c <= 'z' || c >= 'A' && c <= 'Z'
		if i == 0 && !letter {
			return false
		}
		if !letter && !(c >= '0' && c <= '9') && c != '_' {
			return false
		}
	}
	return true
}

func validName(s string) bool {
	for _, c := range strings.Split(s, ".") {
		if !validComponent(c) {
			return false
		}
	}
	return true
}

// IsTypeName: the last dotted component starts with an upper-case letter.
func IsTypeName(s string) bool {
	p := strings.Split(s, ".")
	l := p[len(p)-1]
	return l != "" && l[0] >= 'A' && l[0] <= 'Z'
}

type parser struct {
	t []tok
	p int
}

func (p *parser) peek(k byte) bool { return p.p < len(p.t) && p.t[p.p].k == k }
func (p *parser) word() (string, bool) {
	if p.peek('w') {
		p.p++
		return p.t[p.p-1].s, true
	}
	return "", false
}
func (p *parser) eat(k byte) bool {
	if p.peek(k) {
		p.p++
		return true
	}
	return false
}

func (p *parser) ty() (*Ty, error) {
	if p.eat('(') {
		w, ok := p.word()
		if !ok || w != "vector" {
			return nil, fmt.Errorf("only (vector T) is in the subset")
		}
		it, err := p.ty()
		if err != nil {
			return nil, err
		}
		if !p.eat(')') {
			return nil, fmt.Errorf("missing )")
		}
		return &Ty{Kind: KVector, Item: it}, nil
	}
	w, ok := p.word()
	if !ok {
		return nil, fmt.Errorf("type expected")
	}
	switch w {
	case "#":
		return &Ty{Kind: KNat}, nil
	case "int":
		return &Ty{Kind: KInt}, nil
	case "long":
		return &Ty{Kind: KLong}, nil
	case "int256":
		return &Ty{Kind: KInt256}, nil
	case "bytes":
		return &Ty{Kind: KBytes}, nil
	case "string":
		return &Ty{Kind: KString}, nil
	case "Bool":
		return &Ty{Kind: KBool}, nil
	case "true":
		return &Ty{Kind: KTrue}, nil
	}
	if !validName(w) {
		return nil, fmt.Errorf("bad type name %q", w)
	}
	if IsTypeName(w) {
		return &Ty{Kind: KBoxed, Name: w}, nil
	}
	return &Ty{Kind: KBare, Name: w}, nil
}

func (p *parser) decl() (*Decl, error) {
	head, ok := p.word()
	if !ok {
		return nil, fmt.Errorf("constructor expected")
	}
	i := strings.IndexByte(head, '#')
	if i < 0 || len(head)-i-1 != 8 || !validName(head[:i]) {
		return nil, fmt.Errorf("constructor must be spelled name#xxxxxxxx: %q", head)
	}
	for _, c := range head[i+1:] {
		if !(c >= '0' && c <= '9' || c >= 'a' && c <= 'f') {
			return nil, fmt.Errorf("bad id in %q", head)
		}
	}
	id, err := strconv.ParseUint(head[i+1:], 16, 32)
	if err != nil {
		return nil, err
	}
	d := &Decl{Ctor: head[:i], ID: uint32(id)}
	for !p.eat('=') {
		name, ok := p.word()
		if !ok || !validName(name) || !p.eat(':') {
			return nil, fmt.Errorf("field expected in %s", d.Ctor)
		}
		f := Field{Name: name}
		if p.p+1 < len(p.t) && p.t[p.p].k == 'w' && p.t[p.p+1].k == '?' {
			w := p.t[p.p].s
			p.p += 2
			parts := strings.Split(w, ".")
			if len(parts) != 2 || !validComponent(parts[0]) || parts[1] == "" {
				return nil, fmt.Errorf("bad condition %q", w)
			}
			for _, c := range parts[1] {
				if c < '0' || c > '9' {
					return nil, fmt.Errorf("bad condition %q", w)
				}
			}
			bit, err := strconv.Atoi(parts[1])
			if err != nil {
				return nil, err
			}
			f.HasCond, f.Flag, f.Bit = true, parts[0], bit
		}
		t, err := p.ty()
		if err != nil {
			return nil, fmt.Errorf("%s.%s: %v", d.Ctor, name, err)
		}
		f.Ty = t
		d.Fields = append(d.Fields, f)
	}
	res, ok := p.word()
	if !ok || !validName(res) || !IsTypeName(res) || !p.eat(';') {
		return nil, fmt.Errorf("result type and ; expected in %s", d.Ctor)
	}
	d.Result = res
	return d, nil
}

// Parse reads a schema text.
func Parse(src string) (*Schema, error) {
	t, err := tokenize(src)
	if err != nil {
		return nil, err
	}
	p := &parser{t: t}
	s := &Schema{}
	funcs := false
	for p.p < len(p.t) {
		if p.peek('w') && p.t[p.p].s == "---functions---" {
			if funcs {
				return nil, fmt.Errorf("second functions separator")
			}
			funcs = true
			p.p++
			continue
		}
		d, err := p.decl()
		if err != nil {
			return nil, err
		}
		if funcs {
			s.Funcs = append(s.Funcs, d)
		} else {
			s.Types = append(s.Types, d)
		}
	}
	return s, nil
}

// ------------------------------------------------------------------------------------------------------ printer

func (t *Ty) render(parens bool) string {
	switch t.Kind {
	case KNat:
		return "#"
	case KInt:
		return "int"
	case KLong:
		return "long"
	case KInt256:
		return "int256"
	case KBytes:
		return "bytes"
	case KString:
		return "string"
	case KBool:
		return "Bool"
	case KTrue:
		return "true"
	case KBare, KBoxed:
		return t.Name
	case KVector:
		if parens {
			return "(vector " + t.Item.render(parens) + ")"
		}
		return "vector " + t.Item.render(parens)
	}
	panic("bad kind")
}

func (t *Ty) String() string { return t.render(true) }

func (f *Field) render(parens bool) string {
	s := f.Name + ":"
	if f.HasCond {
		s += fmt.Sprintf("%s.%d?", f.Flag, f.Bit)
	}
	return s + f.Ty.render(parens)
}

// Render: `ctor#id f:t ... = Result;` — must equal Tongo.Tl.renderDecl.
func (d *Decl) Render() string {
	s := fmt.Sprintf("%s#%08x ", d.Ctor, d.ID)
	for _, f := range d.Fields {
		s += f.render(true) + " "
	}
	return s + "= " + d.Result + ";\n"
}

// CrcText: the text hashed for the constructor id (no #id, no ;, no parentheses).
func (d *Decl) CrcText() string {
	s := d.Ctor + " "
	for _, f := range d.Fields {
		s += f.render(false) + " "
	}
	return s + "= " + d.Result
}

// Render of a schema — must equal Tongo.Tl.render.
func (s *Schema) Render() string {
	var sb strings.Builder
	for _, d := range s.Types {
		sb.WriteString(d.Render())
	}
	sb.WriteString("---functions---\n")
	for _, d := range s.Funcs {
		sb.WriteString(d.Render())
	}
	return sb.String()
}

// ------------------------------------------------------------------------------------------------------ lookups

func (s *Schema) Ctor(c string) *Decl {
	for _, d := range s.Types {
		if d.Ctor == c {
			return d
		}
	}
	return nil
}

func (s *Schema) CtorsOf(t string) []*Decl {
	var r []*Decl
	for _, d := range s.Types {
		if d.Result == t {
			r = append(r, d)
		}
	}
	return r
}

func (s *Schema) Func(f string) *Decl {
	for _, d := range s.Funcs {
		if d.Ctor == f {
			return d
		}
	}
	return nil
}

// TypeNames: result types in order of first appearance.
func (s *Schema) TypeNames() []string {
	var r []string
	seen := map[string]bool{}
	for _, d := range s.Types {
		if !seen[d.Result] {
			seen[d.Result] = true
			r = append(r, d.Result)
		}
	}
	return r
}

func (s *Schema) closeTy(t *Ty, need map[*Decl]bool) {
	switch t.Kind {
	case KBare:
		if d := s.Ctor(t.Name); d != nil {
			s.closeDecl(d, need)
		}
	case KBoxed:
		for _, d := range s.CtorsOf(t.Name) {
			s.closeDecl(d, need)
		}
	case KVector:
		s.closeTy(t.Item, need)
	}
}

func (s *Schema) closeDecl(d *Decl, need map[*Decl]bool) {
	if need[d] {
		return
	}
	need[d] = true
	for i := range d.Fields {
		s.closeTy(d.Fields[i].Ty, need)
	}
}

// Sub returns the text of the sub-schema needed to interpret the given types (by type expression), constructor and
// function names: the declarations reachable from them, in source order. Functions also pull in their result type and
// the constructors listed in `extra`.
func (s *Schema) Sub(tys []*Ty, funcs []string, extra ...string) string {
	need := map[*Decl]bool{}
	for _, t := range tys {
		s.closeTy(t, need)
	}
	for _, c := range extra {
		if d := s.Ctor(c); d != nil {
			s.closeDecl(d, need)
		}
	}
	var fs []*Decl
	for _, f := range funcs {
		d := s.Func(f)
		if d == nil {
			continue
		}
		fs = append(fs, d)
		for i := range d.Fields {
			s.closeTy(d.Fields[i].Ty, need)
		}
		for _, c := range s.CtorsOf(d.Result) {
			s.closeDecl(c, need)
		}
	}
	var sb strings.Builder
	for _, d := range s.Types {
		if need[d] {
			sb.WriteString(d.Render())
		}
	}
	if len(fs) > 0 {
		sb.WriteString("---functions---\n")
		for _, d := range s.Funcs {
			for _, f := range fs {
				if f == d {
					sb.WriteString(d.Render())
				}
			}
		}
	}
	return sb.String()
}
