package tlmini

import (
	"encoding/binary"
	"encoding/hex"
	"fmt"
	"math/rand"
	"strconv"
	"strings"
)

// Val is an untyped TL value; its text form is shared with the Lean driver:
//
//	123            # int long
//	x0a0b / x      int256 bytes string (hex)
//	T / F          Bool
//	u              true
//	_              conditional field whose flag bit is clear
//	{v,v,...}      bare constructor (fields in schema order)
//	@ctor{v,...}   boxed value
//	[v,v,...]      vector
type VK int

const (
	VNum VK = iota
	VRaw
	VBool
	VUnit
	VAbsent
	VTuple
	VSum
	VVec
)

type Val struct {
	K     VK
	N     uint64
	B     []byte
	Bool  bool
	Ctor  string
	Items []*Val
}

func (v *Val) write(sb *strings.Builder) {
	switch v.K {
	case VNum:
		sb.WriteString(strconv.FormatUint(v.N, 10))
	case VRaw:
		sb.WriteByte('x')
		sb.WriteString(hex.EncodeToString(v.B))
	case VBool:
		if v.Bool {
			sb.WriteByte('T')
		} else {
			sb.WriteByte('F')
		}
	case VUnit:
		sb.WriteByte('u')
	case VAbsent:
		sb.WriteByte('_')
	case VTuple, VSum, VVec:
		open, cl := byte('{'), byte('}')
		if v.K == VVec {
			open, cl = '[', ']'
		}
		if v.K == VSum {
			sb.WriteByte('@')
			sb.WriteString(v.Ctor)
		}
		sb.WriteByte(open)
		for i, it := range v.Items {
			if i > 0 {
				sb.WriteByte(',')
			}
			it.write(sb)
		}
		sb.WriteByte(cl)
	}
}

func (v *Val) String() string {
	var sb strings.Builder
	v.write(&sb)
	return sb.String()
}

type vparser struct {
	s string
	p int
}

func (p *vparser) list(cl byte) ([]*Val, error) {
	var items []*Val
	if p.p < len(p.s) && p.s[p.p] == cl {
		p.p++
		return items, nil
	}
	for {
		v, err := p.val()
		if err != nil {
			return nil, err
		}
		items = append(items, v)
		if p.p >= len(p.s) {
			return nil, fmt.Errorf("unterminated list")
		}
		c := p.s[p.p]
		p.p++
		if c == cl {
			return items, nil
		}
		if c != ',' {
			return nil, fmt.Errorf("bad separator %q", c)
		}
	}
}

func (p *vparser) val() (*Val, error) {
	if p.p >= len(p.s) {
		return nil, fmt.Errorf("value expected")
	}
	c := p.s[p.p]
	switch {
	case c >= '0' && c <= '9':
		j := p.p
		for j < len(p.s) && p.s[j] >= '0' && p.s[j] <= '9' {
			j++
		}
		n, err := strconv.ParseUint(p.s[p.p:j], 10, 64)
		if err != nil {
			return nil, err
		}
		p.p = j
		return &Val{K: VNum, N: n}, nil
	case c == 'x':
		j := p.p + 1
		for j < len(p.s) && (p.s[j] >= '0' && p.s[j] <= '9' || p.s[j] >= 'a' && p.s[j] <= 'f') {
			j++
		}
		b, err := hex.DecodeString(p.s[p.p+1 : j])
		if err != nil {
			return nil, err
		}
		p.p = j
		return &Val{K: VRaw, B: b}, nil
	case c == 'T' || c == 'F':
		p.p++
		return &Val{K: VBool, Bool: c == 'T'}, nil
	case c == '_':
		p.p++
		return &Val{K: VAbsent}, nil
	case c == '{':
		p.p++
		it, err := p.list('}')
		return &Val{K: VTuple, Items: it}, err
	case c == '[':
		p.p++
		it, err := p.list(']')
		return &Val{K: VVec, Items: it}, err
	case c == 'u':
		p.p++
		return &Val{K: VUnit}, nil
	case c == '@':
		j := p.p + 1
		for j < len(p.s) && p.s[j] != '{' {
			j++
		}
		if j >= len(p.s) {
			return nil, fmt.Errorf("bad boxed value at %d", p.p)
		}
		name := p.s[p.p+1 : j]
		p.p = j + 1
		it, err := p.list('}')
		return &Val{K: VSum, Ctor: name, Items: it}, err
	default:
		return nil, fmt.Errorf("bad value at %d", p.p)
	}
}

func ParseVal(s string) (*Val, error) {
	p := &vparser{s: s}
	v, err := p.val()
	if err != nil {
		return nil, err
	}
	if p.p != len(s) {
		return nil, fmt.Errorf("trailing characters in value")
	}
	return v, nil
}

// ------------------------------------------------------------------------------------------- reference encoder

func le32(n uint32) []byte { b := make([]byte, 4); binary.LittleEndian.PutUint32(b, n); return b }

// Le32: four bytes little-endian.
func Le32(n uint32) []byte { return le32(n) }

// EncBytes: TL byte string (length prefix, data, zero padding to a multiple of four).
func EncBytes(data []byte) ([]byte, error) {
	var b []byte
	n := len(data)
	switch {
	case n < 254:
		b = append(b, byte(n))
	case n < 1<<24:
		b = append(b, 254, byte(n), byte(n>>8), byte(n>>16))
	default:
		return nil, fmt.Errorf("byte string of %d bytes is not representable", n)
	}
	b = append(b, data...)
	for len(b)%4 != 0 {
		b = append(b, 0)
	}
	return b, nil
}

// Malform makes the reference encoder write ONE bytes/string/Bool leaf (the Target-th one met, counting from 1) in a
// non-canonical or invalid way: inputs for the decoders that the schema semantics refuses (or accepts although no encoder
// writes them). Target 0 = off; Seen counts the leaves of the last encoding.
var Malform MalformPlan

type MalformPlan struct {
	Target, Kind, Seen int
}

func (m *MalformPlan) hit() bool {
	m.Seen++
	return m.Target != 0 && m.Seen == m.Target
}

// malformedBytes: kind%5 = 0: prefix byte 255 used like the long form (255, 3 length bytes); 1: the long form for a
// string that has a short form (254, 3 length bytes: non-canonical, accepted by decoders); 2: non-zero padding bytes
// (ignored by decoders); 3: first byte 255 in place of the short length; 4: long form whose length runs past the data
func malformedBytes(data []byte, kind int) []byte {
	n := len(data)
	long := func(first byte, n int) []byte { return []byte{first, byte(n), byte(n >> 8), byte(n >> 16)} }
	var b []byte
	switch kind % 5 {
	case 0:
		b = append(long(255, n), data...)
	case 1:
		b = append(long(254, n), data...)
	case 2:
		b, _ = EncBytes(data)
		head := 1
		if n >= 254 {
			head = 4
		}
		for i := head + n; i < len(b); i++ {
			b[i] = byte(kind/5%255) + 1
		}
		return b
	case 3:
		b, _ = EncBytes(data)
		b[0] = 255
		return b
	default:
		b = append(long(254, n+1+kind/5%1000), data...)
	}
	for len(b)%4 != 0 {
		b = append(b, 0)
	}
	return b
}

// Present reports whether conditional field f is present given the `#` fields seen so far.
func Present(f *Field, env map[string]uint64) (bool, error) {
	if !f.HasCond {
		return true, nil
	}
	m, ok := env[f.Flag]
	if !ok {
		return false, fmt.Errorf("flag field %s not seen before %s", f.Flag, f.Name)
	}
	return (m>>uint(f.Bit))&1 == 1, nil
}

func (s *Schema) EncodeFields(fs []Field, vs []*Val) ([]byte, error) {
	if len(fs) != len(vs) {
		return nil, fmt.Errorf("arity")
	}
	env := map[string]uint64{}
	var out []byte
	for i := range fs {
		f := &fs[i]
		p, err := Present(f, env)
		if err != nil {
			return nil, err
		}
		if !p {
			if vs[i].K != VAbsent {
				return nil, fmt.Errorf("field %s must be absent", f.Name)
			}
			continue
		}
		b, err := s.Encode(f.Ty, vs[i])
		if err != nil {
			return nil, err
		}
		out = append(out, b...)
		if f.Ty.Kind == KNat && !f.HasCond {
			env[f.Name] = vs[i].N
		}
	}
	return out, nil
}

// Encode is the harness' reference encoder (the Lean model Tongo.Tl.encode is the specification; this one exists so
// that the generator can produce byte strings without calling the code under test).
func (s *Schema) Encode(t *Ty, v *Val) ([]byte, error) {
	bad := fmt.Errorf("value %.40s does not have type %s", v.String(), t.String())
	switch t.Kind {
	case KNat, KInt:
		if v.K != VNum || v.N >= 1<<32 {
			return nil, bad
		}
		return le32(uint32(v.N)), nil
	case KLong:
		if v.K != VNum {
			return nil, bad
		}
		b := make([]byte, 8)
		binary.LittleEndian.PutUint64(b, v.N)
		return b, nil
	case KInt256:
		if v.K != VRaw || len(v.B) != 32 {
			return nil, bad
		}
		return append([]byte{}, v.B...), nil
	case KBytes, KString:
		if v.K != VRaw {
			return nil, bad
		}
		if Malform.hit() {
			return malformedBytes(v.B, Malform.Kind), nil
		}
		return EncBytes(v.B)
	case KBool:
		if v.K != VBool {
			return nil, bad
		}
		if Malform.hit() {
			m := uint32(0xbc799737)
			if v.Bool {
				m = 0x997275b5
			}
			switch Malform.Kind % 3 {
			case 0:
				m ^= 1 << uint(Malform.Kind/3%32)
			case 1:
				m = uint32(Malform.Kind) * 2654435761
			default: // the magic in big-endian byte order
				m = m>>24 | m>>8&0xff00 | m<<8&0xff0000 | m<<24
			}
			return le32(m), nil
		}
		if v.Bool {
			return le32(0x997275b5), nil
		}
		return le32(0xbc799737), nil
	case KTrue:
		if v.K != VUnit {
			return nil, bad
		}
		return []byte{}, nil
	case KBare:
		d := s.Ctor(t.Name)
		if d == nil || v.K != VTuple {
			return nil, bad
		}
		return s.EncodeFields(d.Fields, v.Items)
	case KBoxed:
		if v.K != VSum {
			return nil, bad
		}
		for _, d := range s.CtorsOf(t.Name) {
			if d.Ctor == v.Ctor {
				b, err := s.EncodeFields(d.Fields, v.Items)
				if err != nil {
					return nil, err
				}
				return append(le32(d.ID), b...), nil
			}
		}
		return nil, bad
	case KVector:
		if v.K != VVec {
			return nil, bad
		}
		out := le32(uint32(len(v.Items)))
		for _, it := range v.Items {
			b, err := s.Encode(t.Item, it)
			if err != nil {
				return nil, err
			}
			out = append(out, b...)
		}
		return out, nil
	}
	return nil, bad
}

// ------------------------------------------------------------------------------------------------- generation

// Gen produces random values directed by the schema.
type Gen struct {
	R      *rand.Rand
	S      *Schema
	MaxVec int                      // upper bound of vector lengths at depth 0 (halved per nesting level)
	Len    func() int               // length of the next byte string
	Mode   func(used uint32) uint32 // value of the next flag field given the bits its users test
	Budget int                      // remaining number of composite nodes; generation gets terse when exhausted
	Force  map[*Field]int           // vector fields that get exactly that many items (items themselves stay small)
}

func (g *Gen) u64() uint64 {
	switch g.R.Intn(8) {
	case 0:
		return 0
	case 1:
		return ^uint64(0)
	case 2:
		return 1 << uint(g.R.Intn(64))
	case 3:
		return (1 << uint(g.R.Intn(64))) - 1
	case 4:
		return uint64(g.R.Intn(300))
	default:
		return g.R.Uint64()
	}
}

func (g *Gen) bytes(n int) []byte {
	b := make([]byte, n)
	g.R.Read(b)
	if n > 0 && g.R.Intn(8) == 0 { // zero tail: must not be confused with padding
		for i := n - 1; i >= 0 && i >= n-3; i-- {
			b[i] = 0
		}
	}
	return b
}

// UsedBits: the bits of flag field `name` tested by later fields of d.
func UsedBits(d *Decl, name string) uint32 {
	var m uint32
	for _, f := range d.Fields {
		if f.HasCond && f.Flag == name && f.Bit < 32 {
			m |= 1 << uint(f.Bit)
		}
	}
	return m
}

func (g *Gen) Fields(d *Decl, depth int) []*Val {
	env := map[string]uint64{}
	var vs []*Val
	for i := range d.Fields {
		f := &d.Fields[i]
		p, err := Present(f, env)
		if err != nil || !p {
			vs = append(vs, &Val{K: VAbsent})
			continue
		}
		var v *Val
		if f.Ty.Kind == KNat && !f.HasCond && UsedBits(d, f.Name) != 0 {
			v = &Val{K: VNum, N: uint64(g.Mode(UsedBits(d, f.Name)))}
		} else if n, forced := g.Force[f]; forced && f.Ty.Kind == KVector {
			v = &Val{K: VVec}
			saveMax, saveLen, saveForce := g.MaxVec, g.Len, g.Force
			g.MaxVec, g.Len, g.Force = 2, func() int { return g.R.Intn(6) }, nil // the items (possibly of this very type) stay small
			for k := 0; k < n; k++ {
				g.Budget = 6
				v.Items = append(v.Items, g.Val(f.Ty.Item, depth+2))
			}
			g.MaxVec, g.Len, g.Force = saveMax, saveLen, saveForce
		} else {
			v = g.Val(f.Ty, depth)
		}
		if f.Ty.Kind == KNat && !f.HasCond {
			env[f.Name] = v.N
		}
		vs = append(vs, v)
	}
	return vs
}

func (g *Gen) Val(t *Ty, depth int) *Val {
	switch t.Kind {
	case KNat, KInt:
		return &Val{K: VNum, N: g.u64() & 0xffffffff}
	case KLong:
		return &Val{K: VNum, N: g.u64()}
	case KInt256:
		return &Val{K: VRaw, B: g.bytes(32)}
	case KBytes, KString:
		return &Val{K: VRaw, B: g.bytes(g.Len())}
	case KBool:
		return &Val{K: VBool, Bool: g.R.Intn(2) == 0}
	case KTrue:
		return &Val{K: VUnit}
	case KBare:
		g.Budget--
		d := g.S.Ctor(t.Name)
		if d == nil {
			panic("undeclared constructor " + t.Name)
		}
		return &Val{K: VTuple, Items: g.Fields(d, depth+1)}
	case KBoxed:
		g.Budget--
		cs := g.S.CtorsOf(t.Name)
		if len(cs) == 0 {
			panic("undeclared type " + t.Name)
		}
		d := cs[g.R.Intn(len(cs))]
		return &Val{K: VSum, Ctor: d.Ctor, Items: g.Fields(d, depth+1)}
	case KVector:
		g.Budget--
		max := g.MaxVec >> uint(2*depth)
		if g.Budget <= 0 {
			max = 0
		}
		n := 0
		if max > 0 {
			switch g.R.Intn(4) {
			case 0:
				n = g.R.Intn(3)
			case 1:
				n = max
			default:
				n = g.R.Intn(max + 1)
			}
		}
		v := &Val{K: VVec}
		for i := 0; i < n; i++ {
			v.Items = append(v.Items, g.Val(t.Item, depth+1))
		}
		return v
	}
	panic("bad kind")
}
