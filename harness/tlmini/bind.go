package tlmini

import (
	"fmt"
	"reflect"

	"github.com/tonkeeper/tongo/utils"
)

// Binding between schema-directed values and the Go structs emitted by tl/parser's generator. Only the naming
// convention is assumed (field `foo_bar` ↔ Go field `FooBar`; sum types carry `SumType` and one sub-struct per
// constructor named after it; `true` fields have no Go field; conditional non-slice fields are pointers). Field ORDER
// in the Go struct is irrelevant here.

func goName(s string) string { return utils.ToCamelCase(s) }

// GoTypeName: name of the Go type the generator emits for a bare constructor / a boxed type / a function request.
func GoBareName(ctor string) string  { return goName(ctor) + "C" }
func GoBoxedName(typ string) string  { return goName(typ) }
func GoRequestName(fn string) string { return goName(fn) + "Request" }
func GoMethodName(fn string) string  { return goName(fn) }

func deref(rv reflect.Value, alloc bool) (reflect.Value, bool) {
	for rv.Kind() == reflect.Pointer {
		if rv.IsNil() {
			if !alloc {
				return rv, false
			}
			rv.Set(reflect.New(rv.Type().Elem()))
		}
		rv = rv.Elem()
	}
	return rv, true
}

// SetFields fills struct rv from the field values of declaration d.
func (s *Schema) SetFields(d *Decl, vs []*Val, rv reflect.Value) error {
	if rv.Kind() != reflect.Struct {
		return fmt.Errorf("%s: Go value is %s, not a struct", d.Ctor, rv.Kind())
	}
	if len(vs) != len(d.Fields) {
		return fmt.Errorf("%s: arity", d.Ctor)
	}
	for i := range d.Fields {
		f := &d.Fields[i]
		if f.Ty.Kind == KTrue || vs[i].K == VAbsent {
			continue
		}
		fv := rv.FieldByName(goName(f.Name))
		if !fv.IsValid() {
			return fmt.Errorf("no-field %s.%s", d.Ctor, f.Name)
		}
		if err := s.ToGo(f.Ty, vs[i], fv); err != nil {
			return err
		}
	}
	return nil
}

// ToGo stores value v of schema type t into the settable Go value rv.
func (s *Schema) ToGo(t *Ty, v *Val, rv reflect.Value) error {
	rv, _ = deref(rv, true)
	bad := func() error {
		return fmt.Errorf("cannot store %.30s : %s into Go %s", v.String(), t.String(), rv.Type())
	}
	switch t.Kind {
	case KNat, KInt, KLong:
		if v.K != VNum {
			return bad()
		}
		switch rv.Kind() {
		case reflect.Uint32, reflect.Uint64:
			rv.SetUint(v.N)
		case reflect.Int32:
			rv.SetInt(int64(int32(uint32(v.N))))
		case reflect.Int64:
			rv.SetInt(int64(v.N))
		default:
			return bad()
		}
	case KInt256:
		if v.K != VRaw || rv.Kind() != reflect.Array || rv.Len() != len(v.B) {
			return bad()
		}
		reflect.Copy(rv, reflect.ValueOf(v.B))
	case KBytes, KString:
		if v.K != VRaw {
			return bad()
		}
		switch {
		case rv.Kind() == reflect.String:
			rv.SetString(string(v.B))
		case rv.Kind() == reflect.Slice && rv.Type().Elem().Kind() == reflect.Uint8:
			rv.SetBytes(append([]byte{}, v.B...))
		default:
			return bad()
		}
	case KBool:
		if v.K != VBool || rv.Kind() != reflect.Bool {
			return bad()
		}
		rv.SetBool(v.Bool)
	case KTrue:
	case KBare:
		d := s.Ctor(t.Name)
		if d == nil || v.K != VTuple {
			return bad()
		}
		return s.SetFields(d, v.Items, rv)
	case KBoxed:
		if v.K != VSum || rv.Kind() != reflect.Struct {
			return bad()
		}
		var d *Decl
		for _, c := range s.CtorsOf(t.Name) {
			if c.Ctor == v.Ctor {
				d = c
			}
		}
		if d == nil {
			return bad()
		}
		if st := rv.FieldByName("SumType"); st.IsValid() {
			st.SetString(goName(d.Ctor))
			sub := rv.FieldByName(goName(d.Ctor))
			if !sub.IsValid() {
				return fmt.Errorf("no-field %s in sum type %s", goName(d.Ctor), rv.Type())
			}
			return s.SetFields(d, v.Items, sub)
		}
		return s.SetFields(d, v.Items, rv)
	case KVector:
		if v.K != VVec || rv.Kind() != reflect.Slice {
			return bad()
		}
		sl := reflect.MakeSlice(rv.Type(), len(v.Items), len(v.Items))
		for i, it := range v.Items {
			if err := s.ToGo(t.Item, it, sl.Index(i)); err != nil {
				return err
			}
		}
		rv.Set(sl)
	}
	return nil
}

func isZero(rv reflect.Value) bool {
	switch rv.Kind() {
	case reflect.Pointer:
		return rv.IsNil()
	case reflect.Slice, reflect.String:
		return rv.Len() == 0
	}
	return rv.IsZero()
}

// GetFields reads the field values of declaration d from struct rv. A conditional field whose flag bit is clear must be
// empty in the Go value (nil pointer / empty slice), otherwise it is reported as `stale` (cannot happen for a value
// decoded into a fresh struct).
func (s *Schema) GetFields(d *Decl, rv reflect.Value) ([]*Val, error) {
	if rv.Kind() != reflect.Struct {
		return nil, fmt.Errorf("%s: Go value is %s, not a struct", d.Ctor, rv.Kind())
	}
	env := map[string]uint64{}
	var vs []*Val
	for i := range d.Fields {
		f := &d.Fields[i]
		p, err := Present(f, env)
		if err != nil {
			return nil, err
		}
		if f.Ty.Kind == KTrue {
			if p {
				vs = append(vs, &Val{K: VUnit})
			} else {
				vs = append(vs, &Val{K: VAbsent})
			}
			continue
		}
		fv := rv.FieldByName(goName(f.Name))
		if !fv.IsValid() {
			return nil, fmt.Errorf("no-field %s.%s", d.Ctor, f.Name)
		}
		if !p {
			if !isZero(fv) {
				return nil, fmt.Errorf("stale %s.%s", d.Ctor, f.Name)
			}
			vs = append(vs, &Val{K: VAbsent})
			continue
		}
		v, err := s.FromGo(f.Ty, fv)
		if err != nil {
			return nil, err
		}
		if f.Ty.Kind == KNat && !f.HasCond {
			env[f.Name] = v.N
		}
		vs = append(vs, v)
	}
	return vs, nil
}

// FromGo reads a value of schema type t out of the Go value rv.
func (s *Schema) FromGo(t *Ty, rv reflect.Value) (*Val, error) {
	rv, ok := deref(rv, false)
	if !ok {
		return nil, fmt.Errorf("nil pointer for present field of type %s", t.String())
	}
	bad := func() error { return fmt.Errorf("Go %s does not carry a %s", rv.Type(), t.String()) }
	switch t.Kind {
	case KNat, KInt, KLong:
		switch rv.Kind() {
		case reflect.Uint32, reflect.Uint64:
			return &Val{K: VNum, N: rv.Uint()}, nil
		case reflect.Int32:
			return &Val{K: VNum, N: uint64(uint32(rv.Int()))}, nil
		case reflect.Int64:
			return &Val{K: VNum, N: uint64(rv.Int())}, nil
		}
		return nil, bad()
	case KInt256:
		if rv.Kind() != reflect.Array {
			return nil, bad()
		}
		b := make([]byte, rv.Len())
		reflect.Copy(reflect.ValueOf(b), rv)
		return &Val{K: VRaw, B: b}, nil
	case KBytes, KString:
		switch {
		case rv.Kind() == reflect.String:
			return &Val{K: VRaw, B: []byte(rv.String())}, nil
		case rv.Kind() == reflect.Slice && rv.Type().Elem().Kind() == reflect.Uint8:
			return &Val{K: VRaw, B: append([]byte{}, rv.Bytes()...)}, nil
		}
		return nil, bad()
	case KBool:
		if rv.Kind() != reflect.Bool {
			return nil, bad()
		}
		return &Val{K: VBool, Bool: rv.Bool()}, nil
	case KTrue:
		return &Val{K: VUnit}, nil
	case KBare:
		d := s.Ctor(t.Name)
		if d == nil {
			return nil, bad()
		}
		vs, err := s.GetFields(d, rv)
		return &Val{K: VTuple, Items: vs}, err
	case KBoxed:
		if rv.Kind() != reflect.Struct {
			return nil, bad()
		}
		cs := s.CtorsOf(t.Name)
		if st := rv.FieldByName("SumType"); st.IsValid() {
			for _, d := range cs {
				if goName(d.Ctor) == st.String() {
					vs, err := s.GetFields(d, rv.FieldByName(goName(d.Ctor)))
					return &Val{K: VSum, Ctor: d.Ctor, Items: vs}, err
				}
			}
			return nil, fmt.Errorf("SumType %q names no constructor of %s", st.String(), t.Name)
		}
		if len(cs) != 1 {
			return nil, bad()
		}
		vs, err := s.GetFields(cs[0], rv)
		return &Val{K: VSum, Ctor: cs[0].Ctor, Items: vs}, err
	case KVector:
		if rv.Kind() != reflect.Slice {
			return nil, bad()
		}
		v := &Val{K: VVec}
		for i := 0; i < rv.Len(); i++ {
			it, err := s.FromGo(t.Item, rv.Index(i))
			if err != nil {
				return nil, err
			}
			v.Items = append(v.Items, it)
		}
		return v, nil
	}
	return nil, bad()
}
