package tlmini

import (
	"fmt"
	"math/rand"
	"strings"
)

// SchemaOpts steers the random schema generator of property C09.
type SchemaOpts struct {
	MaxDecls  int      // upper bound on declarations (types + functions), >= 3
	FlagNames []string // names a flag field may take
	Count     func(key string)
}

type sgen struct {
	r       *rand.Rand
	o       SchemaOpts
	goNames map[string]bool
	ids     map[uint32]bool
	n       int
	bare    []string // constructors of single-constructor types declared so far
	sums    []string // multi-constructor types completely declared so far
	allSums []string // every planned multi-constructor type (forward references inside vectors)
	results []string // every declared type (function results)
}

var idents = []string{"foo", "barBaz", "x_y", "item2d", "node", "blockIdExt", "info", "a1", "longerNameWithCaps", "q"}
var spaces = []string{"a", "tn", "liteX", "p.q", "ns1.sub_2"}

func lowerFirst(s string) string { return strings.ToLower(s[:1]) + s[1:] }
func upperFirst(s string) string { return strings.ToUpper(s[:1]) + s[1:] }

func (g *sgen) count(k string) {
	if g.o.Count != nil {
		g.o.Count(k)
	}
}

func (g *sgen) id() uint32 {
	for {
		var id uint32
		switch g.r.Intn(6) {
		case 0:
			id = uint32(g.r.Intn(1 << 16)) // leading zero digits
		case 1:
			id = 0xffffff00 | uint32(g.r.Intn(256))
		default:
			id = g.r.Uint32()
		}
		if !g.ids[id] && id != 0xbba9e148 {
			g.ids[id] = true
			return id
		}
	}
}

// typeName returns a fresh (namespace, Upper-case type component) whose derived Go names are all unused.
func (g *sgen) typeName() (string, string) {
	for {
		g.n++
		ns := spaces[g.r.Intn(len(spaces))]
		comp := upperFirst(idents[g.r.Intn(len(idents))]) + fmt.Sprint(g.n)
		full := ns + "." + comp
		names := []string{GoBoxedName(full), GoBareName(ns + "." + lowerFirst(comp)), GoRequestName(ns + "." + lowerFirst(comp))}
		ok := true
		for _, n := range names {
			if g.goNames[n] {
				ok = false
			}
		}
		if ok {
			for _, n := range names {
				g.goNames[n] = true
			}
			return ns, comp
		}
	}
}

func (g *sgen) builtin() string {
	return []string{"int", "long", "int256", "bytes", "string", "Bool", "#"}[g.r.Intn(7)]
}

func (g *sgen) ty(depth int) string {
	switch k := g.r.Intn(12); {
	case k < 5:
		return g.builtin()
	case k < 7 && len(g.bare) > 0:
		g.count("field_bare_ref")
		return g.bare[g.r.Intn(len(g.bare))]
	case k < 9 && len(g.sums) > 0:
		g.count("field_boxed_ref")
		return g.sums[g.r.Intn(len(g.sums))]
	case k < 11 && depth < 2:
		var item string
		switch j := g.r.Intn(10); {
		case j < 4:
			item = g.builtin()
			g.count("vector_of_builtin")
		case j < 6 && len(g.bare) > 0:
			item = g.bare[g.r.Intn(len(g.bare))]
			g.count("vector_of_bare")
		case j < 8 && len(g.allSums) > 0:
			item = g.allSums[g.r.Intn(len(g.allSums))] // may be declared later, or be the enclosing type itself
			g.count("vector_of_boxed")
		case j < 9:
			item = g.ty(depth + 1)
			g.count("vector_nested")
		default:
			item = g.builtin()
		}
		return "(vector " + item + ")"
	}
	return g.builtin()
}

func (g *sgen) fields() string {
	n := g.r.Intn(7)
	if g.r.Intn(6) == 0 {
		n = 0
	}
	var out []string
	used := map[string]bool{"SumType": true}
	var flags []string
	name := func() string {
		for {
			f := idents[g.r.Intn(len(idents))]
			if g.r.Intn(3) == 0 {
				f += fmt.Sprint(g.r.Intn(4))
			}
			if g.r.Intn(4) == 0 {
				f = lowerFirst(f) + "_" + idents[g.r.Intn(len(idents))]
			}
			if !used[goName(f)] {
				used[goName(f)] = true
				return f
			}
		}
	}
	for i := 0; i < n; i++ {
		if g.r.Intn(3) == 0 && len(flags) < len(g.o.FlagNames) {
			fn := g.o.FlagNames[len(flags)]
			if !used[goName(fn)] {
				used[goName(fn)] = true
				flags = append(flags, fn)
				out = append(out, fn+":#")
				continue
			}
		}
		f := name()
		if len(flags) > 0 && g.r.Intn(2) == 0 {
			flag := flags[g.r.Intn(len(flags))]
			bit := g.r.Intn(32)
			g.count(fmt.Sprintf("cond_bit_%02d", bit))
			t := g.ty(0)
			if g.r.Intn(6) == 0 {
				t = "true"
				g.count("cond_true")
			}
			out = append(out, fmt.Sprintf("%s:%s.%d?%s", f, flag, bit, t))
			continue
		}
		out = append(out, f+":"+g.ty(0))
	}
	return strings.Join(out, " ")
}

func (g *sgen) sep() string {
	switch g.r.Intn(8) {
	case 0:
		return "  "
	case 1:
		return "\n    "
	}
	return " "
}

func (g *sgen) decl(ctor string, fields, result string) string {
	s := fmt.Sprintf("%s#%08x", ctor, g.id())
	if fields != "" {
		for _, f := range strings.Split(fields, " ") {
			s += g.sep() + f
		}
	}
	s += g.sep() + "=" + g.sep() + result + ";"
	if g.r.Intn(10) == 0 {
		s += " // " + ctor
	}
	return s + "\n"
}

// GenSchema writes a random schema of the subset accepted by tongo's tl/parser generator: liteServer.error (the
// generator requires it), single-constructor types whose constructor is the lower-cased type name (the generator finds
// response types that way), multi-constructor types of 2..5 constructors, at least one function.
func GenSchema(r *rand.Rand, o SchemaOpts) string {
	g := &sgen{r: r, o: o, goNames: map[string]bool{"LiteServerErrorC": true, "LiteServerError": true, "Client": true},
		ids: map[uint32]bool{}}
	if len(g.o.FlagNames) == 0 {
		g.o.FlagNames = []string{"mode"}
	}
	budget := 3 + r.Intn(o.MaxDecls-2)
	nFuncs := 1 + r.Intn(1+budget/5)
	budget -= nFuncs + 1
	var sb strings.Builder
	sb.WriteString("// random schema (property C09)\n")
	errAt := r.Intn(budget + 1)
	emitErr := func() {
		sb.WriteString("liteServer.error#bba9e148 code:int message:string = liteServer.Error;\n")
		g.results = append(g.results, "liteServer.Error")
	}
	// plan
	type plan struct {
		ns, comp string
		ctors    int
	}
	var plans []plan
	for left := budget; left > 0; {
		k := 1
		if r.Intn(3) == 0 && left >= 2 {
			k = 2 + r.Intn(4)
			if k > left {
				k = left
			}
		}
		ns, comp := g.typeName()
		plans = append(plans, plan{ns, comp, k})
		if k > 1 {
			g.allSums = append(g.allSums, ns+"."+comp)
		}
		left -= k
	}
	emitted := 0
	for _, p := range plans {
		if emitted >= errAt && errAt >= 0 {
			emitErr()
			errAt = -1
		}
		full := p.ns + "." + p.comp
		if p.ctors == 1 {
			c := p.ns + "." + lowerFirst(p.comp)
			sb.WriteString(g.decl(c, g.fields(), full))
			g.bare = append(g.bare, c)
			g.count("single_constructor_types")
		} else {
			for i := 0; i < p.ctors; i++ {
				c := fmt.Sprintf("%s.%s_c%d", p.ns, lowerFirst(p.comp), i)
				g.goNames[GoBareName(c)] = true
				sb.WriteString(g.decl(c, g.fields(), full))
			}
			g.sums = append(g.sums, full)
			g.count(fmt.Sprintf("sum_types_%d_constructors", p.ctors))
		}
		g.results = append(g.results, full)
		emitted += p.ctors
		if r.Intn(5) == 0 {
			sb.WriteString("\n")
		}
	}
	if errAt >= 0 {
		emitErr()
	}
	sb.WriteString("\n---functions---\n\n")
	for i := 0; i < nFuncs; i++ {
		ns, comp := g.typeName()
		res := g.results[r.Intn(len(g.results))]
		sb.WriteString(g.decl(ns+".get"+comp, g.fields(), res))
		g.count("functions")
	}
	return sb.String()
}
