// Package tldesc derives, from the Go source (go/ast over liteclient/generated.go and extensions.go) and by
// reflection, the descriptor of every TL type as the TL decoder sees it (grammar: lean/TongoModel/TlDecode.lean).
// Shared by the C08 harness (cmd/vh) and the translator TldTypes (cmd/extract).
package tldesc

import (
	"fmt"
	"go/ast"
	"go/parser"
	"go/token"
	"os"
	"path/filepath"
	"reflect"
	"regexp"
	"strconv"
	"strings"

	"github.com/tonkeeper/tongo/liteclient"
	"github.com/tonkeeper/tongo/tl"
)

// RegType is one registered TL type.
type RegType struct {
	Name string
	T    reflect.Type
}

// ---------------------------------------------------------------------------------------- go/ast schema of generated.go

type genField struct {
	Path []string // t.A.B -> [A B]
	Cond int      // -1 = unconditional, else mode bit
}
type genAlt struct {
	Tag    uint64
	Fields []genField
}
type genType struct {
	Fields []genField
	Alts   []genAlt // non-nil for tag-switch types
	IsSum  bool
}

type Schema struct {
	Types    map[string]*genType
	Requests map[uint32]string // tag -> request type name (taggedRequestDecodeFunctions)
	SigTag   uint64            // tag checked by the hand-written LiteServerSignatureSet.UnmarshalTL
}

func fatalSubset(what string, pos token.Position) {
	panic(fmt.Sprintf("c08 translator: construct outside the supported subset of generated UnmarshalTL: %s at %v", what, pos))
}

// selector chain t.A.B -> [A B]; an identifier tempX -> nil, name
func selPath(e ast.Expr) ([]string, string) {
	switch x := e.(type) {
	case *ast.Ident:
		return nil, x.Name
	case *ast.SelectorExpr:
		p, root := selPath(x.X)
		return append(p, x.Sel.Name), root
	}
	return nil, ""
}

// isUnmarshalCall recognises `tl.Unmarshal(r, &X)` and returns X.
func isUnmarshalCall(e ast.Expr) (ast.Expr, bool) {
	c, ok := e.(*ast.CallExpr)
	if !ok || len(c.Args) != 2 {
		return nil, false
	}
	s, ok := c.Fun.(*ast.SelectorExpr)
	if !ok || s.Sel.Name != "Unmarshal" {
		return nil, false
	}
	if id, ok := s.X.(*ast.Ident); !ok || id.Name != "tl" {
		return nil, false
	}
	u, ok := c.Args[1].(*ast.UnaryExpr)
	if !ok || u.Op != token.AND {
		return nil, false
	}
	return u.X, true
}

func isErrCheck(s ast.Stmt) bool {
	i, ok := s.(*ast.IfStmt)
	if !ok || i.Init != nil {
		return false
	}
	b, ok := i.Cond.(*ast.BinaryExpr)
	if !ok || b.Op != token.NEQ {
		return false
	}
	x, ok := b.X.(*ast.Ident)
	return ok && x.Name == "err"
}

// modeBit recognises `(t.Mode>>k)&1 == 1`
func modeBit(e ast.Expr) (int, bool) {
	b, ok := e.(*ast.BinaryExpr)
	if !ok || b.Op != token.EQL {
		return 0, false
	}
	and, ok := b.X.(*ast.BinaryExpr)
	if !ok || and.Op != token.AND {
		return 0, false
	}
	par, ok := and.X.(*ast.ParenExpr)
	if !ok {
		return 0, false
	}
	sh, ok := par.X.(*ast.BinaryExpr)
	if !ok || sh.Op != token.SHR {
		return 0, false
	}
	p, root := selPath(sh.X)
	if root != "t" || len(p) == 0 || p[len(p)-1] != "Mode" {
		return 0, false
	}
	lit, ok := sh.Y.(*ast.BasicLit)
	if !ok {
		return 0, false
	}
	k, err := strconv.Atoi(lit.Value)
	return k, err == nil
}

func parseGenBody(fset *token.FileSet, stmts []ast.Stmt, gt *genType) []genField {
	var fields []genField
	for _, s := range stmts {
		switch x := s.(type) {
		case *ast.DeclStmt: // var err error / var b [4]byte
			continue
		case *ast.ReturnStmt:
			continue
		case *ast.AssignStmt:
			if len(x.Rhs) == 1 {
				if target, ok := isUnmarshalCall(x.Rhs[0]); ok {
					p, root := selPath(target)
					if root != "t" || len(p) == 0 {
						fatalSubset("tl.Unmarshal target", fset.Position(x.Pos()))
					}
					fields = append(fields, genField{Path: p, Cond: -1})
					continue
				}
				// _, err = io.ReadFull(r, b[:]) ; tag := int(binary.LittleEndian.Uint32(b[:])) ; t.SumType = "X"
				if c, ok := x.Rhs[0].(*ast.CallExpr); ok {
					if se, ok := c.Fun.(*ast.SelectorExpr); ok && (se.Sel.Name == "ReadFull") {
						gt.IsSum = true
						continue
					}
					if id, ok := c.Fun.(*ast.Ident); ok && id.Name == "int" {
						continue
					}
				}
				if _, ok := x.Rhs[0].(*ast.BasicLit); ok { // t.SumType = "..."
					continue
				}
			}
			fatalSubset("assignment", fset.Position(x.Pos()))
		case *ast.IfStmt:
			if isErrCheck(x) {
				continue
			}
			k, ok := modeBit(x.Cond)
			if !ok {
				fatalSubset("if condition", fset.Position(x.Pos()))
			}
			// var tempF X; err = tl.Unmarshal(r, &tempF); if err..; t.F = tempF | &tempF
			var dst []string
			sawUnmarshal := false
			for _, bs := range x.Body.List {
				switch y := bs.(type) {
				case *ast.DeclStmt:
				case *ast.IfStmt:
					if !isErrCheck(y) {
						fatalSubset("nested if", fset.Position(y.Pos()))
					}
				case *ast.AssignStmt:
					if _, ok := isUnmarshalCall(y.Rhs[0]); ok {
						sawUnmarshal = true
						continue
					}
					p, root := selPath(y.Lhs[0])
					if root != "t" || len(p) == 0 {
						fatalSubset("conditional assignment", fset.Position(y.Pos()))
					}
					dst = p
				default:
					fatalSubset("conditional body", fset.Position(bs.Pos()))
				}
			}
			if len(x.Body.List) == 0 {
				continue // `mode.k?true`: a flag without payload
			}
			if !sawUnmarshal || dst == nil {
				fatalSubset("conditional field without decode", fset.Position(x.Pos()))
			}
			fields = append(fields, genField{Path: dst, Cond: k})
		case *ast.SwitchStmt:
			for _, cc := range x.Body.List {
				cl := cc.(*ast.CaseClause)
				if cl.List == nil {
					continue // default: return error
				}
				lit, ok := cl.List[0].(*ast.BasicLit)
				if !ok {
					fatalSubset("case label", fset.Position(cl.Pos()))
				}
				tag, err := strconv.ParseUint(lit.Value, 0, 64)
				if err != nil {
					fatalSubset("case label value", fset.Position(cl.Pos()))
				}
				sub := &genType{}
				fs := parseGenBody(fset, cl.Body, sub)
				gt.Alts = append(gt.Alts, genAlt{Tag: tag, Fields: fs})
			}
		default:
			fatalSubset(fmt.Sprintf("%T", s), fset.Position(s.Pos()))
		}
	}
	return fields
}

// Load parses the generated code under repo and checks it against the registry.
func Load(repo string) *Schema {
	sc := &Schema{Types: map[string]*genType{}, Requests: map[uint32]string{}}
	fset := token.NewFileSet()
	path := filepath.Join(repo, "liteclient", "generated.go")
	f, err := parser.ParseFile(fset, path, nil, 0)
	if err != nil {
		panic(fmt.Sprintf("c08: cannot parse %s: %v", path, err))
	}
	for _, d := range f.Decls {
		switch x := d.(type) {
		case *ast.FuncDecl:
			if x.Name.Name != "UnmarshalTL" || x.Recv == nil {
				continue
			}
			st, ok := x.Recv.List[0].Type.(*ast.StarExpr)
			if !ok {
				continue
			}
			name := st.X.(*ast.Ident).Name
			gt := &genType{}
			gt.Fields = parseGenBody(fset, x.Body.List, gt)
			sc.Types[name] = gt
		case *ast.GenDecl:
			// decodeFuncX = decodeRequest(0x.., XName, X{})
			for _, sp := range x.Specs {
				vs, ok := sp.(*ast.ValueSpec)
				if !ok || len(vs.Values) != 1 {
					continue
				}
				c, ok := vs.Values[0].(*ast.CallExpr)
				if !ok {
					continue
				}
				if id, ok := c.Fun.(*ast.Ident); !ok || id.Name != "decodeRequest" || len(c.Args) != 3 {
					continue
				}
				tag, err := strconv.ParseUint(c.Args[0].(*ast.BasicLit).Value, 0, 32)
				if err != nil {
					panic("c08: decodeRequest tag")
				}
				cl, ok := c.Args[2].(*ast.CompositeLit)
				if !ok {
					panic("c08: decodeRequest type")
				}
				sc.Requests[uint32(tag)] = cl.Type.(*ast.Ident).Name
			}
		}
	}
	ext, err := os.ReadFile(filepath.Join(repo, "liteclient", "extensions.go"))
	if err != nil {
		panic(err)
	}
	m := regexp.MustCompile(`(?s)func \(t \*LiteServerSignatureSet\) UnmarshalTL.*?tag != (0x[0-9a-fA-F]+)`).FindSubmatch(ext)
	if m == nil {
		panic("c08: LiteServerSignatureSet.UnmarshalTL has changed shape")
	}
	sc.SigTag, _ = strconv.ParseUint(string(m[1]), 0, 64)
	// the registry must list exactly the types that have an UnmarshalTL
	have := map[string]bool{"LiteServerSignatureSet": true}
	for n := range sc.Types {
		have[n] = true
	}
	for _, r := range Registry {
		if !have[r.Name] {
			panic("c08: registry lists " + r.Name + " which has no UnmarshalTL any more; run tools_gen_c08_registry.py")
		}
		delete(have, r.Name)
	}
	for n := range have {
		panic("c08: type " + n + " has an UnmarshalTL but is not in the registry; run tools_gen_c08_registry.py")
	}
	return sc
}

// ---------------------------------------------------------------------------------------- descriptors

var unmarshalerTL = reflect.TypeOf((*tl.UnmarshalerTL)(nil)).Elem()
var int256Type = reflect.TypeOf(tl.Int256{})

func fieldByPath(t reflect.Type, path []string) reflect.Type {
	for _, p := range path {
		f, ok := t.FieldByName(p)
		if !ok {
			panic("c08: field " + p + " not found in " + t.String())
		}
		t = f.Type
	}
	return t
}

func (sc *Schema) fieldsDesc(t reflect.Type, fs []genField) string {
	var parts []string
	for _, f := range fs {
		ft := fieldByPath(t, f.Path)
		s := ""
		if f.Path[len(f.Path)-1] == "Mode" && f.Cond < 0 {
			s += "m"
		}
		if f.Cond >= 0 {
			s += "?" + strconv.Itoa(f.Cond) + ":"
			if ft.Kind() == reflect.Pointer {
				ft = ft.Elem() // var temp T; t.F = &temp
			}
		}
		parts = append(parts, s+sc.Desc(ft))
	}
	return "T(" + strings.Join(parts, ",") + ")"
}

// desc: the shape of type t as tl.decode sees it (see lean/TongoModel/TlDecode.lean for the grammar)
func (sc *Schema) Desc(t reflect.Type) string {
	if t == int256Type {
		return "H"
	}
	if reflect.PointerTo(t).Implements(unmarshalerTL) {
		if t.PkgPath() == "github.com/tonkeeper/tongo/liteclient" {
			if t.Name() == "LiteServerSignatureSet" {
				inner := reflect.TypeOf(liteclient.LiteServerSignatureSetC{})
				return "U(" + strconv.FormatUint(sc.SigTag, 10) + "=" + sc.Desc(inner) + ")"
			}
			gt, ok := sc.Types[t.Name()]
			if !ok {
				panic("c08: no generated UnmarshalTL found for " + t.Name())
			}
			if gt.IsSum {
				var alts []string
				for _, a := range gt.Alts {
					alts = append(alts, strconv.FormatUint(a.Tag, 10)+"="+sc.fieldsDesc(t, a.Fields))
				}
				return "U(" + strings.Join(alts, ",") + ")"
			}
			return sc.fieldsDesc(t, gt.Fields)
		}
		panic("c08: type with a hand-written UnmarshalTL outside the model: " + t.String())
	}
	switch t.Kind() {
	case reflect.Uint32, reflect.Int32:
		return "i"
	case reflect.Uint64, reflect.Int64:
		return "l"
	case reflect.Bool:
		return "b"
	case reflect.String:
		return "B"
	case reflect.Slice:
		if t.Elem().Kind() == reflect.Uint8 {
			return "B"
		}
		return "V" + strconv.Itoa(int(t.Elem().Size())) + "(" + sc.Desc(t.Elem()) + ")"
	case reflect.Array:
		if t.Elem().Kind() == reflect.Uint8 {
			return "A" + strconv.Itoa(t.Len())
		}
		return "X"
	case reflect.Pointer:
		return "P(" + sc.Desc(t.Elem()) + ")"
	case reflect.Struct:
		if _, ok := t.FieldByName("SumType"); ok {
			var alts []string
			for i := 0; i < t.NumField(); i++ {
				f := t.Field(i)
				if f.Type.Name() == "SumType" {
					continue
				}
				tag := f.Tag.Get("tlSumType")
				if len(tag) == 8 {
					if v, err := strconv.ParseUint(tag, 16, 32); err == nil {
						alts = append(alts, strconv.FormatUint(v, 10)+"="+sc.Desc(f.Type))
						continue
					}
				}
				alts = append(alts, "!="+sc.Desc(f.Type))
			}
			return "U(" + strings.Join(alts, ",") + ")"
		}
		var parts []string
		for i := 0; i < t.NumField(); i++ {
			f := t.Field(i)
			if !f.IsExported() {
				parts = append(parts, "X") // "can't set field": an error before anything is read
				break
			}
			parts = append(parts, sc.Desc(f.Type))
		}
		return "T(" + strings.Join(parts, ",") + ")"
	}
	return "X"
}
