import Driver.Proto
import TongoModel.Boc
import TongoModel.BocToString
/-! Line handler for the model of `Cell.ToString` on parsed bags of cells (C07). -/
namespace Driver
open Tongo Tongo.Boc

def opsBocStr : List (String × Handler) := [
  -- boc.tostring <hex> -> ok <lines>:<bytes> of Cell.ToString() for every root | err | panic
  ("boc.tostring", fun
    | [h] => match hexArg h with
      | some bs => match parseBoc bs with
        | .ok (t, roots) =>
          " ".intercalate ("ok" :: roots.map fun r =>
            let o := Str.toStringOut t (maxDepth + 2) r
            s!"{o.lines}:{o.bytes}")
        | .err _ => "err"
        | .panic _ => "panic"
      | none => "bad-op"
    | _ => "bad-op")
]

end Driver
