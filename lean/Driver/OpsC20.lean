import Driver.Proto
import TongoModel.Json
import TongoModel.JsonCell
import TongoModel.CellFmt
/-! Line handlers for property C20 (JSON forms). Value / answer syntax: see harness/cmd/vh/c20.go. -/
namespace Driver
open Tongo Tongo.Json Tongo.Dec

private def strOfBytes (bs : List UInt8) : Str := bs.map fun b => Char.ofNat b.toNat
private def bytesOfStr (s : Str) : List UInt8 := s.map fun c => UInt8.ofNat c.toNat

private def docArg (h : String) : Option Str := (hexArg h).map strOfBytes
private def docOut (s : Str) : String := "ok " ++ hexOut (bytesOfStr s)

private def binArg (s : String) : Option (List Bool) := if s == "-" then some [] else Bits.ofBinString? s
private def binOut (l : List Bool) : String := if l.isEmpty then "-" else Bits.toBinString l

private def anyArg (s : String) : Option (Option Anycast) :=
  if s == "-" then some none
  else match s.splitOn "," with
    | [d, p] => match d.toNat?, p.toNat? with
      | some d, some p => some (some ⟨d, p⟩)
      | _, _ => none
    | _ => none

private def anyOut : Option Anycast → String
  | none => "-"
  | some a => s!"{a.depth},{a.pfx}"

private def addrArg (s : String) : Option MsgAddr :=
  match s.splitOn "/" with
  | ["none"] => some .none
  | ["ext", b] => (binArg b).map .extern
  | ["std", a, wc, hx] => do
    let a ← anyArg a
    let wc ← wc.toInt?
    let bs ← hexArg hx
    pure (.std a wc bs)
  | ["var", a, wc, b] => do
    let a ← anyArg a
    let wc ← wc.toInt?
    let b ← binArg b
    pure (.var a wc b)
  | _ => none

private def addrOut : MsgAddr → String
  | .none => "none"
  | .extern b => "ext/" ++ binOut b
  | .std a wc bs => s!"std/{anyOut a}/{wc}/{hexOut bs}"
  | .var a wc b => s!"var/{anyOut a}/{wc}/{binOut b}/{b.length % 65536}"   -- AddrLen is a Uint9 = uint16

/-- a codec of the model for one family: printer from value tokens, parser to canonical text; `n` = number of type
tokens, `m` = number of value tokens -/
private structure Codec where
  print : List String → Option Str
  parse : Str → Outcome String

private def outMap {α} (f : α → String) : Outcome α → Outcome String
  | .ok a => .ok (f a)
  | .err e => .err e
  | .panic e => .panic e

/-- resolve the family tokens; returns the codec and the remaining tokens -/
private def codecOf : List String → Option (Codec × List String)
  | "uint" :: b :: rest => b.toNat?.map fun bits =>
      (⟨fun | [v] => v.toNat?.map (printUintN bits) | _ => none, fun p => outMap toString (parseUintN bits p)⟩, rest)
  | "int" :: b :: rest => b.toNat?.map fun bits =>
      (⟨fun | [v] => v.toInt?.map (printIntN bits) | _ => none, fun p => outMap toString (parseIntN bits p)⟩, rest)
  | "big" :: _ :: rest =>
      some (⟨fun | [v] => v.toInt?.map printBig | _ => none, fun p => outMap toString (parseBigJson p)⟩, rest)
  | "bits" :: n :: rest => n.toNat?.map fun n =>
      (⟨fun | [h] => (hexArg h).map printBitsN | _ => none, fun p => outMap hexOut (parseBitsN n p)⟩, rest)
  | "h256" :: rest =>
      some (⟨fun | [h] => (hexArg h).map printBitsN | _ => none, fun p => outMap hexOut (parseBits256Scan p)⟩, rest)
  | "i256" :: rest =>
      some (⟨fun | [h] => (hexArg h).map printInt256 | _ => none, fun p => outMap hexOut (parseInt256 p)⟩, rest)
  | "grams" :: rest =>
      some (⟨fun | [v] => v.toNat?.map printGrams | _ => none, fun p => outMap toString (parseGrams p)⟩, rest)
  | "scoins" :: rest =>
      some (⟨fun | [v] => v.toInt?.map printSignedCoins | _ => none, fun p => outMap toString (parseSignedCoins p)⟩, rest)
  | "magic" :: rest =>
      some (⟨fun | [v] => v.toNat?.map printMagic | _ => none, fun p => outMap toString (parseMagic p)⟩, rest)
  | "bitstr" :: rest =>
      some (⟨fun | [b] => (binArg b).map printBitString | _ => none, fun p => outMap binOut (parseBitString p)⟩, rest)
  | "anycast" :: rest =>
      some (⟨fun | [a] => (anyArg a).bind fun o => o.map printAnycastJson | _ => none,
             fun p => outMap (fun a => anyOut (some a)) (parseAnycastJson p)⟩, rest)
  | "cell" :: rest =>
      some (⟨fun _ => none, fun p => outMap (fun (t, r) => CellFmt.canonString t [r]) (parseCellJson p)⟩, rest)
  | "anycell" :: rest =>
      some (⟨fun _ => none, fun p => outMap (fun (t, r) => CellFmt.canonString t [r]) (parseCellJson p)⟩, rest)
  | "addr" :: rest =>
      some (⟨fun | [a] => (addrArg a).map printMsgAddr | _ => none, fun p => outMap addrOut (parseMsgAddr p)⟩, rest)
  | _ => none

private def maybeCodec (c : Codec) : Codec :=
  ⟨fun
    | ["none"] => some (printMaybe (fun (s : Str) => s) none)
    | "some" :: v => (c.print v).map fun s => printMaybe (fun (s : Str) => s) (some s)
    | _ => none,
   fun p =>
    -- parseMaybe over the canonical text of the inner value
    outMap (fun | none => "none" | some s => "some " ++ s) (parseMaybe c.parse p)⟩

private def resolve : List String → Option (Codec × List String)
  | "maybe" :: rest => (codecOf rest).map fun (c, r) => (maybeCodec c, r)
  | toks => codecOf toks

private def opOut : Option Nat → String
  | none => "-"
  | some n => toString n

/-- the envelope with the cell codec of the BOC model; every other non-empty SumType is reported by name (the
registry of known body types lives on the Go side, the Go executor reports the same shape) -/
private def envelopeLine (p : Str) : Outcome String :=
  match unmarshalEnvelope p with
  | .err e => .err e
  | .panic e => .panic e
  | .ok r =>
    if r.sumType = [] then .ok s!"empty {opOut r.opCode}"
    else if r.sumType = unknownName then
      match r.value with
      | none => .err "no value"
      | some raw => outMap (fun (t, root) => s!"unknown {opOut r.opCode} {CellFmt.canonString t [root]}") (parseCellJson raw)
    else .ok s!"named {hexOut (bytesOfStr r.sumType)} {opOut r.opCode}"

private def outcomeLine : Outcome String → String
  | .ok s => "ok " ++ s
  | .err _ => "err"
  | .panic _ => "panic"

def opsC20 : List (String × Handler) := [
  ("json.print", fun toks =>
    match resolve toks with
    | some (c, vt) => match c.print vt with
      | some s => docOut s
      | none => "bad-op"
    | none => "bad-op"),
  ("json.parse", fun toks =>
    match toks with
    | ["envelope", _, doc] => (match docArg doc with
      | some p => outcomeLine (envelopeLine p)
      | none => "bad-op")
    | _ =>
    match resolve toks with
    | some (c, [doc]) => match docArg doc with
      | some p => outcomeLine (c.parse p)
      | none => "bad-op"
    | _ => "bad-op"),
  ("json.valid", fun
    | [doc] => match docArg doc with
      | some p => if valid p then "ok 1" else "ok 0"
      | none => "bad-op"
    | _ => "bad-op")
]

end Driver
