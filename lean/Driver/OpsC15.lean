import Driver.Proto
import TongoModel.CellFmt
import TongoModel.WalletSend
import TongoModel.WalletSendMsg
import TongoModel.WalletSeed
/-! Line handlers for property C15 (wallet address and send parameters). -/
namespace Driver
open Tongo Tongo.Wallet Tongo.CellFmt

/-- optional integer argument: `_` = absent -/
def optIntArg (s : String) : Option (Option Int) := if s == "_" then some none else s.toInt?.map some
def optNatArg (s : String) : Option (Option Nat) := if s == "_" then some none else s.toNat?.map some

/-- a cell argument: a table whose row 0 is the root; `-` = the empty ordinary cell -/
def cellArg (s : String) : Option Cell :=
  if s == "-" then some (.ordinary [] [])
  else (parseTable s).bind fun t => t.root

def cellOut (c : Cell) : String := canonString c.toTable [0]

private def outcomeTag {α} : Outcome α → String
  | .ok _ => "ok" | .err _ => "err" | .panic _ => "panic"

private def addrOut : Outcome Address → String
  | .ok a => s!"ok {a.workchain} {hexOut a.hash}"
  | .err _ => "err"
  | .panic _ => "panic"

/-- the option list the harness hands to `wallet.New` (`walletOpts` in harness/cmd/vh/walletcommon.go): WithWorkchain,
WithSubWalletID, WithNetworkGlobalID, each only when given, in this order -/
def walletOptList (wc : Option Int) (sub : Option Nat) (net : Option Int) : List OptSetter :=
  (wc.map OptSetter.workchain).toList ++ (sub.map OptSetter.subWallet).toList ++ (net.map OptSetter.net).toList

def walletOpts (wc : Option Int) (sub : Option Nat) (net : Option Int) : Opts := applyOptions (walletOptList wc sub net)

def parseAcct (s : String) : Option AcctState :=
  if s == "none" then some .none
  else if s == "uninit" then some .uninit
  else if s == "frozen" then some .frozen
  else if s == "invalid" then some .invalid
  else if s.startsWith "active:" then (cellArg (s.drop 7).toString).map .active
  else none

/-- polls: `-` or `seqno:err,seqno:err,…`; poll i is given the clock reading i·step -/
def parsePolls (s : String) (step : Nat) : Option (List Poll) :=
  if s == "-" then some []
  else do
    let items ← (s.splitOn ",").mapM fun it =>
      match it.splitOn ":" with
      | [a, b] => a.toNat?.map fun n => (n, b == "1")
      | _ => none
    pure ((List.range items.length).zip items |>.map fun (i, (n, e)) => { elapsed := i * step, seqno := n, err := e })

def sendOut (v : Version) (r : SendResult) : String :=
  let tag := outcomeTag r.outcome
  match r.sent with
  | none => s!"{tag} sent=0"
  | some s =>
    let sq := if v = .highloadV2R2 then "-" else toString s.seqno
    s!"{tag} sent=1 dest={s.destWc}:{hexOut s.destHash} init={if s.init then 1 else 0} seqno={sq}"

def natOfBytes (bs : List UInt8) : Nat := bs.foldl (fun a b => a * 256 + b.toNat) 0
def hex32 (n : Nat) : String := Tongo.Hex.encode ((List.range 32).map fun i => UInt8.ofNat (n / 256 ^ (31 - i) % 256))

def opsC15 : List (String × Handler) := [
  -- w.codehash <ver> <code>   the hash of the version's PUBLISHED code (model table); the cell handed over (the library's
  --   code constant) must hash to it
  ("w.codehash", fun
    | [ver, code] =>
      match ver.toNat?, cellArg code with
      | some ver, some code =>
        match Version.ofGoIndex? ver with
        | none => "bad-op"
        | some v =>
          match code.hashO? sha256 with
          | .ok h => if natOfBytes h == publishedCodeHash v then s!"ok {hex32 (publishedCodeHash v)}"
                     else s!"ok {hex32 (publishedCodeHash v)} BUT-the-code-cell-hashes-to {hexOut h}"
          | _ => "err"
      | _, _ => "bad-op"
    | _ => "bad-op"),
  -- w.addr <ver> <seed> <pk> <wc|_> <sub|_> <net|_> <code>      wallet.New(...).GetAddress()
  ("w.addr", fun
    | [ver, _seed, pk, wc, sub, net, code] =>
      match ver.toNat?, hexArg pk, optIntArg wc, optNatArg sub, optIntArg net, cellArg code with
      | some ver, some pk, some wc, some sub, some net, some code =>
        addrOut (apiNewGetAddress sha256 code ver pk (walletOptList wc sub net))
      | _, _, _, _, _, _ => "bad-op"
    | _ => "bad-op"),
  -- w.gwa <ver> <pk> <wc> <sub|_> <net|_> <code>                wallet.GenerateWalletAddress
  ("w.gwa", fun
    | [ver, pk, wc, sub, net, code] =>
      match ver.toNat?, hexArg pk, wc.toInt?, optNatArg sub, optIntArg net, cellArg code with
      | some ver, some pk, some wc, some sub, some net, some code =>
        addrOut (apiGenerateWalletAddress sha256 code ver pk net wc sub)
      | _, _, _, _, _, _ => "bad-op"
    | _ => "bad-op"),
  -- w.gsi <ver> <pk> <wc> <sub|_> <net|_> <code>                wallet.GenerateStateInit, marshalled
  ("w.gsi", fun
    | [ver, pk, wc, sub, net, code] =>
      match ver.toNat?, hexArg pk, wc.toInt?, optNatArg sub, optIntArg net, cellArg code with
      | some ver, some pk, some wc, some sub, some net, some code =>
        (match apiGenerateStateInit code ver pk net wc sub with
        | .ok c => "ok " ++ cellOut c
        | .err _ => "err"
        | .panic _ => "panic")
      | _, _, _, _, _, _ => "bad-op"
    | _ => "bad-op"),
  -- w.send <ver> <seed> <pk> <wc|_> <sub|_> <net|_> <code> <state> <acctErr> <sendErr> <nMsgs> <waitMs> <polls>
  ("w.send", fun
    | [ver, _seed, pk, wc, sub, net, code, st, acctErr, sendErr, nMsgs, wait, polls] =>
      match ver.toNat?, hexArg pk, optIntArg wc, optNatArg sub, optIntArg net, cellArg code, parseAcct st,
            nMsgs.toNat?, wait.toNat? with
      | some ver, some pk, some wc, some sub, some net, some code, some st, some nMsgs, some wait =>
        match Version.ofGoIndex? ver, parsePolls polls (wait / 10) with
        | some v, some polls =>
          match address sha256 code v pk (walletOpts wc sub net) with
          | .ok self =>
            let sc : Script := { acct := if acctErr == "1" then .err "scripted" else .ok st,
                                 sendErr := sendErr == "1", polls := polls }
            sendOut v (sendV2 confirmLoop v self nMsgs sc wait)
          | _ => "bad-op"
        | _, _ => "bad-op"
      | _, _, _, _, _, _, _, _, _ => "bad-op"
    | _ => "bad-op"),
  -- w.sendc … <cancelAt|_>: w.send under a context cancelled before call k; <ver> <seed> <pk> <wc|_> <sub|_> <net|_> <code> <state> <acctErr> <sendErr> <nMsgs> <waitMs> <polls>
  ("w.sendc", fun
    | [ver, _seed, pk, wc, sub, net, code, st, acctErr, sendErr, nMsgs, wait, polls, cancel] =>
      match ver.toNat?, hexArg pk, optIntArg wc, optNatArg sub, optIntArg net, cellArg code, parseAcct st,
            nMsgs.toNat?, wait.toNat? with
      | some ver, some pk, some wc, some sub, some net, some code, some st, some nMsgs, some wait =>
        match Version.ofGoIndex? ver, parsePolls polls (wait / 10) with
        | some v, some polls =>
          match address sha256 code v pk (walletOpts wc sub net) with
          | .ok self =>
            let sc : Script := { acct := if acctErr == "1" then .err "scripted" else .ok st,
                                 sendErr := sendErr == "1", polls := polls }
            (match optNatArg cancel with
              | some c => sendOut v (sendV2Ctx confirmLoop v self nMsgs sc wait c)
              | none => "bad-op")
          | _ => "bad-op"
        | _, _ => "bad-op"
      | _, _, _, _, _, _, _, _, _ => "bad-op"
    | _ => "bad-op"),
  ("prim.sha512", fun
    | [m] => match hexArg m with
      | some m => hexOut (Tongo.Sha512.hash m)
      | none => "bad-op"
    | _ => "bad-op"),
  ("prim.hmac512", fun
    | [k, m] => match hexArg k, hexArg m with
      | some k, some m => hexOut (Tongo.Sha512.hmac k m)
      | _, _ => "bad-op"
    | _ => "bad-op"),
  -- prim.pbkdf2_512 <password> <salt> <iters> <keyLen>
  ("prim.pbkdf2_512", fun
    | [pw, salt, it, kl] => match hexArg pw, hexArg salt, it.toNat?, kl.toNat? with
      | some pw, some salt, some it, some kl => hexOut (Tongo.Sha512.pbkdf2 pw salt it kl)
      | _, _, _, _ => "bad-op"
    | _ => "bad-op"),
  -- seed.key <seed text hex>: SeedToPrivateKey -> "ok <32-byte Ed25519 seed>" | "err"
  ("seed.key", fun
    | [s] => match hexArg s with
      | some s => match Tongo.Wallet.Seed.seedToPrivateKey Tongo.Wallet.Seed.sha512Kdf s with
        | .ok k => "ok " ++ hexOut k
        | .err _ => "err"
        | .panic _ => "panic"
      | none => "bad-op"
    | _ => "bad-op"),
  -- w.ctx <wc> <net>      genContextID(uint32(wc)) and the v5r1 wallet id
  ("w.ctx", fun
    | [wc, net] =>
      match wc.toInt?, net.toInt? with
      | some wc, some net => s!"{genContextID wc} {walletIdV5R1 { workchain := some wc, net := some net }}"
      | _, _ => "bad-op"
    | _ => "bad-op")
]

end Driver
