import Driver.Proto
import TongoModel.Hashmap
import TongoModel.CellFmt
/-! Line handlers for property C05 (dictionaries). Text forms shared with harness/cmd/vh/c05.go:

  key type   u<N> | i<N> | b<N> | a288        key text: decimal (u, i) or hex of the encoded key (b, a)
  value type U32 | B256 | P | R               value text: decimal | hex | cell table (payload cell / referenced cell)
  entry      <key>=<value>
-/
namespace Driver.C05
open Tongo Tongo.Hashmap Tongo.CellFmt

abbrev Val := List Bool × List Cell

inductive Fam | u | i | b | a deriving DecidableEq

structure KT where
  fam : Fam
  n : Nat

def parseKT (s : String) : Option KT :=
  match s.toList with
  | 'u' :: r => (String.ofList r).toNat?.map (⟨.u, ·⟩)
  | 'i' :: r => (String.ofList r).toNat?.map (⟨.i, ·⟩)
  | 'b' :: r => (String.ofList r).toNat?.map (⟨.b, ·⟩)
  | 'a' :: r => (String.ofList r).toNat?.map (⟨.a, ·⟩)
  | _ => none

/-- The dictionary state of the driver holds TYPED keys, as Go does: an integer key is kept as the 64-bit image of the Go
value (so that values outside the declared width — `Uint7(200)` — are distinct from their truncations), byte-string
and address keys as their encoding. `Compare` on the typed keys: all of one width, where the fast forms equal
ltSigned / ltUnsigned. -/
def KT.lt (kt : KT) : Key → Key → Bool := if kt.fam = .i then ltSignedFast else ltUnsignedFast

def parseInt? (s : String) : Option Int :=
  match s.toList with
  | '-' :: r => (String.ofList r).toNat?.map (fun n => -(n : Int))
  | _ => s.toNat?.map (fun n => (n : Int))

def parseKey (kt : KT) (s : String) : Option Key :=
  match kt.fam with
  | .u => s.toNat?.map (Bits.natToBits 64)
  | .i => (parseInt? s).map (Bits.intToBits 64)
  | _ => (hexArg s).bind fun bs => if bs.length * 8 = kt.n then some (Bits.bytesToBits bs) else none

/-- Go decodes the key into its typed form and the harness prints that: AddressWithWorkchain keeps only an int8 of
the 32-bit workchain -/
def normKey (kt : KT) (k : Key) : Key :=
  match kt.fam with
  | .a =>
    let wc := Bits.bitsToInt (k.take 32)
    let wc8 := (wc + 128) % 256 - 128
    Bits.intToBits 32 wc8 ++ k.drop 32
  | _ => k

/-- Marshal(cell, key): typed key → encoded bits (model `encUintKey` / `encIntKey`) -/
def encKey (kt : KT) (t : Key) : Outcome Key :=
  match kt.fam with
  | .u => encUintKey kt.n (Bits.bitsToNat t)
  | .i => encIntKey kt.n (Bits.bitsToInt t)
  | _ => .ok t

/-- Unmarshal of a key: encoded bits → typed key -/
def decKey (kt : KT) (k : Key) : Key :=
  match kt.fam with
  | .u => Bits.natToBits 64 (Bits.bitsToNat k)
  | .i => Bits.intToBits 64 (Bits.bitsToInt k)
  | _ => normKey kt k

def encAll (kt : KT) {α : Type} : List (Key × α) → Outcome (List (Key × α))
  | [] => .ok []
  | (t, v) :: rest =>
    match encKey kt t with
    | .ok k => match encAll kt rest with
      | .ok r => .ok ((k, v) :: r)
      | e => e
    | .err e => .err e
    | .panic p => .panic p

def showKey (kt : KT) (k : Key) : String :=
  match kt.fam with
  | .u => toString (Bits.bitsToNat k)
  | .i => toString (Bits.bitsToInt k)
  | _ => hexOut (Bits.bitsToBytes (normKey kt k))

inductive VT | u32 | b256 | p | r deriving DecidableEq

def parseVT : String → Option VT
  | "U32" => some .u32 | "B256" => some .b256 | "P" => some .p | "R" => some .r | _ => none

partial def flattenAux (c : Cell) (acc : Array CellRow) : Nat × Array CellRow :=
  let i := acc.size
  let acc := acc.push default
  let (ids, acc) := c.refs.foldl (fun (st : Array Nat × Array CellRow) ch =>
    let (j, acc') := flattenAux ch st.2
    (st.1.push j, acc')) (#[], acc)
  (i, acc.set! i { ty := c.ty, mask := c.mask, bits := c.bits, refs := ids.toList })

/-- canonical table text of a cell tree (root = row 0) -/
def cellText (c : Cell) : String :=
  match canon (flattenAux c #[]).2 [0] with
  | some (t, _) => tableToString t
  | none => "bad-table"

def parseCell (s : String) : Option Cell := (parseTable s).bind Table.root

private def parseVal (vt : VT) (s : String) : Option Val :=
  match vt with
  | .u32 => s.toNat?.map fun n => (Bits.natToBits 32 n, [])
  | .b256 => (hexArg s).bind fun bs => if bs.length = 32 then some (Bits.bytesToBits bs, []) else none
  | _ => (parseCell s).map fun c => (c.bits, c.refs)

def showVal (vt : VT) (v : Val) : String :=
  match vt with
  | .u32 => toString (Bits.bitsToNat v.1)
  | .b256 => hexOut (Bits.bitsToBytes v.1)
  | _ => cellText (Cell.ordinary v.1 v.2)

def fixedCodec (w : Nat) : Codec Val where
  enc v := .ok v
  dec bits _ := if bits.length < w then .err "not enough bits" else .ok (bits.take w, [])

/-- harness type Payload: the rest of the cell -/
def payloadCodec : Codec Val where
  enc v := .ok v
  dec bits refs := .ok (bits, refs)

/-- tlb.Ref[Payload] -/
def refCodec : Codec Val where
  enc v := .ok ([], [Cell.ordinary v.1 v.2])
  dec _ refs := match refs with
    | [] => .err "not enough refs"
    | r :: _ =>
      if r.ty = tyPruned then .ok ([], [])
      else if r.ty = tyLibrary then .err "library cell decoding is not configured properly"
      else .ok (r.bits, r.refs)

private def codecOf : VT → Codec Val
  | .u32 => fixedCodec 32
  | .b256 => fixedCodec 256
  | .p => payloadCodec
  | .r => refCodec

def parseEntry (kt : KT) (vt : VT) (s : String) : Option (Key × Val) :=
  match s.splitOn "=" with
  | [k, v] => do
    let k ← parseKey kt k
    let v ← parseVal vt v
    pure (k, v)
  | _ => none

def showEntries (kt : KT) (vt : VT) (kvs : List (Key × Val)) : String :=
  " ".intercalate (toString kvs.length :: kvs.map fun kv => showKey kt kv.1 ++ "=" ++ showVal vt kv.2)

def omap {α β : Type} (x : Outcome α) (f : α → β) : Outcome β :=
  match x with
  | .ok a => .ok (f a)
  | .err e => .err e
  | .panic p => .panic p

def outStr : Outcome String → String
  | .ok s => if s.isEmpty then "ok" else "ok " ++ s
  | .err _ => "err"
  | .panic _ => "panic"

def withTypes (a : List String) (f : KT → VT → List String → Option String) : String :=
  match a with
  | kt :: vt :: rest =>
    match parseKT kt, parseVT vt with
    | some kt, some vt => (f kt vt rest).getD "bad-op"
    | _, _ => "bad-op"
  | _ => "bad-op"

/-- HashmapE.UnmarshalTLB followed by the key type's own decoding (lossy only for AddressWithWorkchain, see normKey) -/
def decodeE (kt : KT) (vt : VT) (c : Cell) : Outcome (List (Key × Val)) :=
  omap (unmarshalE (codecOf vt) kt.n c) fun d => d.map fun kv => (decKey kt kv.1, kv.2)

/-- HashmapE.MarshalTLB of the typed dictionary: every key is marshalled first (an error there fails the whole call) -/
def marshalT (kt : KT) (vt : VT) (d : List (Key × Val)) : Outcome Cell :=
  match encAll kt d with
  | .ok w => marshalE (codecOf vt) kt.n w
  | .err e => .err e
  | .panic p => .panic p

def marshalBareT (kt : KT) (vt : VT) (d : List (Key × Val)) : Outcome Cell :=
  if d.isEmpty then marshal (codecOf vt) kt.n []
  else match encAll kt d with
  | .ok w => marshal (codecOf vt) kt.n w
  | .err e => .err e
  | .panic p => .panic p

def applyPuts (kt : KT) (d : List (Key × Val)) (ops : List (Key × Val)) : List (Key × Val) :=
  ops.foldl (fun d kv => put kt.lt d kv.1 kv.2) d

/-! extras of HashmapAug: the decoded extra is kept as the text the harness prints for it -/

inductive XT | u32 | cc | dbi | imf deriving DecidableEq

def parseXT : String → Option XT
  | "U32" => some .u32 | "CC" => some .cc | "DBI" => some .dbi | "IF" => some .imf | _ => none

abbrev XRes := Outcome (String × List Bool × List Cell)

def xU32 : XDec String := fun bits refs =>
  if bits.length < 32 then .err "not enough bits" else .ok (toString (Bits.bitsToNat (bits.take 32)), bits.drop 32, refs)

/-- tlb.Grams.UnmarshalTLB: 4-bit byte count (more than 8 is an error), then the bytes -/
def xGrams : XDec String := fun bits refs =>
  match readUint 4 bits with
  | none => .err "not enough bits"
  | some (ln, r) =>
    if ln > 8 then .err "grams overflow"
    else match readUint (8 * ln) r with
      | none => .err "not enough bits"
      | some (v, r') => .ok (toString v, r', refs)

/-- tlb.VarUInteger32 as a dictionary value: 5-bit byte count, then the bytes -/
def varUInt32Codec : Codec Nat where
  enc _ := .err "unused"
  dec bits _ := match readUint 5 bits with
    | none => .err "not enough bits"
    | some (ln, r) => match readUint (8 * ln) r with
      | none => .err "not enough bits"
      | some (v, _) => .ok v

/-- tlb.CurrencyCollection: Grams, then ExtraCurrencyCollection = HashmapE[Uint32, VarUInteger32] -/
def xCC : XDec String := fun bits refs =>
  match xGrams bits refs with
  | .ok (g, r, _) =>
    match r with
    | [] => .err "not enough bits"
    | b :: r' =>
      match unmarshalE varUInt32Codec 32 (Cell.ordinary r refs) with
      | .ok d =>
        let items := ",".intercalate (d.map fun kv => toString (Bits.bitsToNat kv.1) ++ ":" ++ toString kv.2)
        .ok (g ++ "/{" ++ items ++ "}", r', if b then refs.drop 1 else refs)
      | .err e => .err e
      | .panic p => .panic p
  | .err e => .err e
  | .panic p => .panic p

/-- tlb.DepthBalanceInfo: split_depth as Uint5, then CurrencyCollection -/
def xDBI : XDec String := fun bits refs =>
  match readUint 5 bits with
  | none => .err "not enough bits"
  | some (d, r) => match xCC r refs with
    | .ok (c, r', refs') => .ok (toString d ++ "|" ++ c, r', refs')
    | .err e => .err e
    | .panic p => .panic p

/-- tlb.ImportFees: Grams, then CurrencyCollection -/
def xIF : XDec String := fun bits refs =>
  match xGrams bits refs with
  | .ok (g, r, refs') => match xCC r refs' with
    | .ok (c, r', refs'') => .ok (g ++ "+" ++ c, r', refs'')
    | .err e => .err e
    | .panic p => .panic p
  | .err e => .err e
  | .panic p => .panic p

def xdecOf : XT → XDec String
  | .u32 => xU32 | .cc => xCC | .dbi => xDBI | .imf => xIF

def xzero : XT → String
  | .u32 => "0" | .cc => "0/{}" | .dbi => "0|0/{}" | .imf => "0+0/{}"

def showExtras : AugExtras String → String
  | .leaf y => "L(" ++ y ++ ")"
  | .fork y l r => "F(" ++ y ++ "," ++ showExtras l ++ "," ++ showExtras r ++ ")"

def codecOfAug (vt : VT) : Codec Val := codecOf vt

end Driver.C05

namespace Driver
open Tongo Tongo.Hashmap Driver.C05

def opsC05 : List (String × Handler) := [
  ("hm.minbits", fun
    | [v] => match v.toNat? with
      | some n => toString (minBitsRequired n)
      | none => "bad-op"
    | _ => "bad-op"),
  -- Put in the given order, then Keys()/Values()
  ("hm.putkeys", fun a => withTypes a fun kt vt rest => do
    let ops ← rest.mapM (parseEntry kt vt)
    pure ("ok " ++ showEntries kt vt (applyPuts kt [] ops))),
  -- Put in the given order, Marshal the HashmapE, dump the cell tree
  ("hm.build", fun a => withTypes a fun kt vt rest => do
    let ops ← rest.mapM (parseEntry kt vt)
    pure (outStr (omap (marshalT kt vt (applyPuts kt [] ops)) cellText))),
  -- Unmarshal a HashmapE from a cell table, Items()
  ("hm.decode", fun a => withTypes a fun kt vt rest =>
    match rest with
    | [t] => do
      let c ← parseCell t
      pure (outStr (omap (decodeE kt vt c) (showEntries kt vt)))
    | _ => none),
  -- bare tlb.Hashmap: Put, Marshal into a fresh cell / Unmarshal from the root cell
  ("hmb.build", fun a => withTypes a fun kt vt rest => do
    let ops ← rest.mapM (parseEntry kt vt)
    pure (outStr (omap (marshalBareT kt vt (applyPuts kt [] ops)) cellText))),
  ("hmb.decode", fun a => withTypes a fun kt vt rest =>
    match rest with
    | [t] => do
      let c ← parseCell t
      pure (outStr (omap (omap (unmarshal (codecOf vt) kt.n c) fun d => d.map fun kv => (decKey kt kv.1, kv.2))
        (showEntries kt vt)))
    | _ => none),
  -- Unmarshal, then Get for each listed key
  ("hm.get", fun a => withTypes a fun kt vt rest =>
    match rest with
    | t :: keys => do
      let c ← parseCell t
      let ks ← keys.mapM (parseKey kt)
      pure (outStr (omap (decodeE kt vt c) fun d =>
        " ".intercalate (ks.map fun k => match get d k with
          | some v => showVal vt v
          | none => "none")))
    | _ => none),
  -- Unmarshal, Put each entry, Items(), Marshal again
  ("hm.decput", fun a => withTypes a fun kt vt rest =>
    match rest with
    | t :: es => do
      let c ← parseCell t
      let ops ← es.mapM (parseEntry kt vt)
      pure (outStr (do
        let d ← decodeE kt vt c
        let d' := applyPuts kt d ops
        let c' ← marshalT kt vt d'
        pure (showEntries kt vt d' ++ " | " ++ cellText c')))
    | _ => none),
  -- NewHashmapE(keys, values) with slices of any two lengths: Marshal, Items()
  ("hm.new", fun a => withTypes a fun kt vt rest =>
    match rest with
    | nk :: more => do
      let nk ← nk.toNat?
      let keys ← (more.take nk).mapM (parseKey kt)
      let vals ← (more.drop nk).mapM (parseVal vt)
      let wire : Outcome (List Key) := omap (encAll kt (keys.map fun k => (k, ()))) fun l => l.map (·.1)
      let m : Outcome Cell := match wire with
        | .ok w => marshalSlicesE (codecOf vt) kt.n w vals
        | .err e => .err e
        | .panic p => .panic p
      let items : Outcome (List (Key × Val)) := itemsSlices keys vals
      pure ("ok M=" ++ (outStr (omap m cellText)).replace " " ":" ++ " I=" ++
        (outStr (omap items (showEntries kt vt))).replace " " ":")
    | _ => none),
  -- HashmapAugE[K, V, X]: Unmarshal; Keys()/Values(), root extra, tree of extras
  ("hma.decode", fun
    | [kt, vt, xt, t] => match parseKT kt, parseVT vt, parseXT xt, parseCell t with
      | some kt, some vt, some xt, some c =>
        outStr (omap (unmarshalAugE (xdecOf xt) (xzero xt) (codecOfAug vt) kt.n c) fun r =>
          showEntries kt vt (r.1.map fun kv => (decKey kt kv.1, kv.2)) ++ " | X=" ++ r.2.2 ++ " T=" ++ showExtras r.2.1)
      | _, _, _, _ => "bad-op"
    | _ => "bad-op"),
  -- HashmapAug[K, V, X] stored inline: Unmarshal from the given cell
  ("hmai.decode", fun
    | [kt, vt, xt, t] => match parseKT kt, parseVT vt, parseXT xt, parseCell t with
      | some kt, some vt, some xt, some c =>
        outStr (omap (unmarshalAug (xdecOf xt) (xzero xt) (codecOfAug vt) kt.n c) fun r =>
          showEntries kt vt (r.1.map fun kv => (decKey kt kv.1, kv.2)) ++ " | T=" ++ showExtras r.2)
      | _, _, _, _ => "bad-op"
    | _ => "bad-op")
]

end Driver
