import Driver.Proto
import TongoModel.CellFmt
import TongoModel.TlbRead
import TongoModel.TlbAlloc
/-! Line handlers for the modelled TL-B custom decoders of property C08. -/
namespace Driver
open Tongo Tongo.Tlb Tongo.CellFmt

def binOut (l : List Bool) : String := if l.isEmpty then "-" else Bits.toBinString l

def intArg (s : String) : Option Int :=
  if s.startsWith "-" then (s.drop 1).toNat?.map (fun n => -(n : Int)) else s.toNat?.map (fun n => (n : Int))

def rootOf (t : String) : Option Cell := (parseTable t).bind Table.root

/-- the entry check of tlb.decode on the root cell: a library cell without a resolver is an error -/
def rootLibrary (c : Cell) : Bool := c.ty == tyLibrary

/-- top-of-stack decoder for the allocation lines: the harness only writes `vm_stk_null#00`, `vm_stk_tinyint#01 int64`
and deliberately invalid tags into the stack cells -/
def tosSimple : Cell → Bool
  | .mk ty _ bits _ =>
    ty == 0 && decide (8 ≤ bits.length) &&
      (let tag := Bits.bitsToNat (bits.take 8); tag == 0 || (tag == 1 && decide (72 ≤ bits.length)))

/-- allocation class of the model's accounting: `cost` elements against `k` per cell of the unfolded tree -/
def costClass (cost k cells : Nat) : String := if cost ≤ k * cells then "lin" else "super"

def costOut (r : Tlb.Cost Nat) (k cells : Nat) : String :=
  match r.1 with
  | .ok n => s!"ok {n} {costClass r.2 k cells}"
  | .err _ => s!"err {costClass r.2 k cells}"
  | .panic _ => "panic"

def opsC08Tlb : List (String × Handler) := [
  -- the allocation models of TongoModel/TlbAlloc.lean (theorem tlb_custom_alloc) against the measured allocation of
  -- the real decoders: VmStack.UnmarshalTLB = depth:24 then getStackListItems
  ("tlb.alloc.stack", fun
    | [t] => match rootOf t with
      | some (.mk ty m bits refs) =>
        if bits.length < 24 then "err lin"
        else
          let depth := Bits.bitsToNat (bits.take 24)
          let c := Cell.mk ty m (bits.drop 24) refs
          if depth = 0 then "ok 0 lin" else costOut (stackFixed tosSimple c depth) 2 (cellCount c)
      | none => "bad-op"
    | _ => "bad-op"),
  ("tlb.alloc.bintree", fun
    | [t] => match rootOf t with
      | some c => costOut (binFixed c) 1 (cellCount c)
      | none => "bad-op"
    | _ => "bad-op"),
  ("tlb.alloc.snake", fun
    | [t] => match rootOf t with
      | some c => match (snake false c).1 with
        | .ok (d, copied) => s!"ok {d.length} {if copied ≤ d.length then "lin" else "super"}"
        | .err _ => "err lin"
        | .panic _ => "panic"
      | none => "bad-op"
    | _ => "bad-op"),
  -- the same on deep inputs both sides build themselves: a stack of depth d, a comb of depth d, a chain of d+1 cells
  ("tlb.alloc.deep", fun
    | [k, ds] => match ds.toNat? with
      | some d =>
        if k == "vmstack" then
          if d = 0 then "ok 0 lin" else costOut (stackFixed (fun _ => true) (stackChain d) d) 2 (d + 1)
        else if k == "bintree" then costOut (binFixed (comb d)) 1 (2 * d + 1)
        else if k == "snake" then if d = 0 then "bad-op" else match (snake false (chain 1016 (d - 1))).1 with
          | .ok (data, copied) => s!"ok {data.length / 8} {if copied ≤ data.length then "lin" else "super"}"
          | _ => "err lin"
        else "bad-op"
      | none => "bad-op"
    | _ => "bad-op"),
  ("tlb.label", fun
    | [sz, cp, t] => match intArg sz, cp.toNat?, rootOf t with
      | some size, some cap, some c => match loadLabel size (Rd.ofCell c) [] cap with
        | .ok (n, key, _) => s!"ok {n} {binOut key}"
        | .err _ => "err"
        | .panic _ => "panic"
      | _, _, _ => "bad-op"
    | _ => "bad-op"),
  ("tlb.countleafs", fun
    | [ks, lf, t] => match intArg ks, intArg lf, rootOf t with
      | some ks, some lf, some c => match (countLeafs ks c lf).1 with
        | .ok n => s!"ok {n}"
        | .err _ => "err"
        | .panic _ => "panic"
      | _, _, _ => "bad-op"
    | _ => "bad-op"),
  ("tlb.snake", fun
    | [t] => match rootOf t with
      | some c => if rootLibrary c then "err" else match (snake false c).1 with
        | .ok (d, _) => "ok " ++ binOut d
        | .err _ => "err"
        | .panic _ => "panic"
      | none => "bad-op"
    | _ => "bad-op"),
  ("tlb.bintree", fun
    | [t] => match rootOf t with
      | some c => if rootLibrary c then "err" else match (binTree c).1 with
        | .ok n => s!"ok {n}"
        | .err _ => "err"
        | .panic _ => "panic"
      | none => "bad-op"
    | _ => "bad-op"),
  ("tlb.hashmap", fun
    | [kb, t] => match kb.toNat?, rootOf t with
      | some ks, some c => if rootLibrary c then "err" else
        match (mapInner (fun _ => .ok ()) ks c ks []).1 with
        | .ok keys => "ok " ++ (if keys.isEmpty then "-" else ".".intercalate (keys.map Bits.toBinString))
        | .err _ => "err"
        | .panic _ => "panic"
      | _, _ => "bad-op"
    | _ => "bad-op")
]

end Driver
