import Driver.Proto
import TongoModel.CellFmt
import TongoModel.TlbRead
/-! Line handlers for the modelled TL-B custom decoders of property C08. -/
namespace Driver
open Tongo Tongo.Tlb Tongo.CellFmt

def binOut (l : List Bool) : String := if l.isEmpty then "-" else Bits.toBinString l

def intArg (s : String) : Option Int :=
  if s.startsWith "-" then (s.drop 1).toNat?.map (fun n => -(n : Int)) else s.toNat?.map (fun n => (n : Int))

def rootOf (t : String) : Option Cell := (parseTable t).bind Table.root

/-- the entry check of tlb.decode on the root cell: a library cell without a resolver is an error -/
def rootLibrary (c : Cell) : Bool := c.ty == tyLibrary

def opsC08Tlb : List (String × Handler) := [
  ("tlb.label", fun
    | [sz, cp, t] => match intArg sz, cp.toNat?, rootOf t with
      | some size, some cap, some c => match loadLabel size (Rd.ofCell c) [] cap with
        | .ok (n, key, _) => s!"ok {n} {binOut key}"
        | .err _ => "err"
        | .panic _ => "panic"
      | _, _, _ => "bad-op"
    | _ => "bad-op"),
  ("tlb.countleafs", fun
    | [ks, lf, t] => match intArg ks, intArg lf, rootOf t with
      | some ks, some lf, some c => match (countLeafs ks c lf).1 with
        | .ok n => s!"ok {n}"
        | .err _ => "err"
        | .panic _ => "panic"
      | _, _, _ => "bad-op"
    | _ => "bad-op"),
  ("tlb.snake", fun
    | [t] => match rootOf t with
      | some c => if rootLibrary c then "err" else match (snake false c).1 with
        | .ok (d, _) => "ok " ++ binOut d
        | .err _ => "err"
        | .panic _ => "panic"
      | none => "bad-op"
    | _ => "bad-op"),
  ("tlb.bintree", fun
    | [t] => match rootOf t with
      | some c => if rootLibrary c then "err" else match (binTree c).1 with
        | .ok n => s!"ok {n}"
        | .err _ => "err"
        | .panic _ => "panic"
      | none => "bad-op"
    | _ => "bad-op"),
  ("tlb.hashmap", fun
    | [kb, t] => match kb.toNat?, rootOf t with
      | some ks, some c => if rootLibrary c then "err" else
        match (mapInner (fun _ => .ok ()) ks c ks []).1 with
        | .ok keys => "ok " ++ (if keys.isEmpty then "-" else ".".intercalate (keys.map Bits.toBinString))
        | .err _ => "err"
        | .panic _ => "panic"
      | _, _ => "bad-op"
    | _ => "bad-op")
]

end Driver
