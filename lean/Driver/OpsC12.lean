import Driver.Proto
import TongoModel.ClientSM
/-! Line handlers for property C12 (lite-client request multiplexer): history validation against the transition
system, and prediction of the per-call results of a deterministic script BY RUNNING the transition system. -/
namespace Driver
open Tongo.ClientSM

def c12IdOf (k : Nat) : Id := 1000000 + k
def c12Fresh : Id := 7

def parseEvent (t : String) : Option Event :=
  if t.length < 2 then none else
  let kind := t.front
  let f := (t.drop 1).toString.splitOn ":"
  match kind, f with
  | 'B', [k] => k.toNat?.map .begin
  | 'Q', [k, c] => do let k ← k.toNat?; let c ← c.toNat?; pure (.query k c)
  | 'A', [c, k, "g", tag] => do let c ← c.toNat?; let k ← k.toNat?; let tag ← tag.toNat?; pure (.answer c k (.good tag))
  | 'A', [c, k, "m"] => do let c ← c.toNat?; let k ← k.toNat?; pure (.answer c k .malformed)
  | 'U', [c] => c.toNat?.map .unknown
  | 'O', [c] => c.toNat?.map .other
  | 'D', [c] => c.toNat?.map .drop
  | 'H', [c] => c.toNat?.map .accepted
  | 'R', [k, "o", tag, _] => do let k ← k.toNat?; let tag ← tag.toNat?; pure (.ret k (.ok tag))
  | 'R', [k, "t", _] => k.toNat?.map (.ret · .timeout)
  | 'R', [k, "e", _] => k.toNat?.map (.ret · .sendErr)
  | _, _ => none

def underscored (s : String) : String := s.map fun c => if c == ' ' then '_' else c

/-- the events a scripted server produces for call k whose query arrives on connection c, BEFORE the call returns,
and those it produces only after the client's deadline -/
def scriptEvents (nConn k c : Nat) (act : String) : Option (List Event × List Event) :=
  let tag := 1000 + k
  let dup := 500000 + k
  match act.front with
  | 'n' => some ([.answer c k (.good tag)], [])
  | 'd' => some ([.answer c k (.good tag)], [])
  | 'L' => some ([], [.answer c k (.good tag)])
  | '2' => some ([.answer c k (.good tag), .answer c k (.good dup)], [])
  | 'u' => some ([.unknown c, .answer c k (.good tag)], [])
  | 'p' => some ([.other c, .other c, .other c, .other c, .answer c k (.good tag)], [])
  | 'x' => some ([], [])
  | 'm' => some ([.answer c k .malformed, .answer c k (.good tag)], [])
  | 'o' => some ([.answer ((c + 1) % nConn) k (.good tag)], [])
  | _ => none

/-- run the transition system on a deterministic script; the result of each call is what the system holds for it when
the call stops waiting: the value in its channel, or a timeout -/
def predictRun (nConn : Nat) (acts : List String) : Option (List String) := do
  let n := acts.length
  let mut ck : Check := { st := init, sent := [], todo := [], err := none }
  let mut out : Array String := #[]
  let mut k := 0
  for act in acts do
    let c := k % nConn
    let (before, after) ← scriptEvents nConn k c act
    let all : List Event := [.begin k, .query k c]
    ck := checkEvent c12IdOf nConn c12Fresh all ck (.begin k)
    ck := checkEvent c12IdOf nConn c12Fresh all ck (.query k c)
    for e in before do
      ck := checkEvent c12IdOf nConn c12Fresh all ck e
    -- everything written well before the deadline is delivered before the call stops waiting
    for c' in List.range nConn do
      ck := flushConn c12IdOf nConn ck c' none
    let r : Res := match ck.st.chan k with
      | some b => .ok b
      | none => .timeout
    ck := checkEvent c12IdOf nConn c12Fresh all ck (.ret k r)
    for e in after do
      ck := checkEvent c12IdOf nConn c12Fresh all ck e
    out := out.push (match r with | .ok b => s!"m{b}" | .timeout => "t" | .sendErr => "e")
    k := k + 1
  if ck.err.isSome ∨ ck.st.readerBlocked ∨ n = 0 then none else some out.toList

def opsC12 : List (String × Handler) := [
  ("clientsm.check", fun
    | nc :: _ncalls :: evs => match nc.toNat?, evs.mapM parseEvent with
      | some nConn, some evs =>
        if nConn = 0 then "bad-op" else
        match checkHistory c12IdOf nConn c12Fresh evs with
        | none => "accept"
        | some why => "reject " ++ underscored why
      | _, _ => "bad-op"
    | _ => "bad-op"),
  ("client.run", fun
    | [_seed, nc, _tmo, callers, per, script] => match nc.toNat?, callers.toNat?, per.toNat? with
      | some nConn, some callers, some per =>
        let acts := script.splitOn ","
        if nConn = 0 ∨ acts.length ≠ callers * per then "bad-op" else
        match predictRun nConn acts with
        | some rs => " ".intercalate ("ok" :: rs)
        | none => "bad-op"
      | _, _, _ => "bad-op"
    | _ => "bad-op")
]

end Driver
