import Driver.OpsC15
import TongoModel.TonConnect
import TongoModel.Prim.Hmac
/-! Line handlers for property C19 (TON Connect proofs). -/
namespace Driver
open Tongo Tongo.TonConnect Tongo.CellFmt

def parseKnown (s : String) : Option (List (List UInt8 × Nat)) :=
  if s == "-" then some []
  else (s.splitOn ",").mapM fun it =>
    match it.splitOn ":" with
    | [i, h] => do
      let i ← i.toNat?
      let h ← hexArg h
      pure (h, i)
    | _ => none

/-- state-init argument: `empty`, `bocerr`, or root tables separated by `/` -/
def parseStateInitArg (s : String) : Option (Bool × BocResult) :=
  if s == "empty" then some (true, .bocErr)
  else if s == "bocerr" then some (false, .bocErr)
  else do
    let cells ← (s.splitOn "/").mapM Driver.cellArg
    pure (false, .roots cells)

def parseGetter (s : String) : Option Getter :=
  if s.startsWith "fail" then some .fail
  else if s.startsWith "int:" then (s.drop 4).toString.toInt?.map .int
  else none

/-- verdict table: `-` or `pkhex=0|1,…`: the Ed25519 verdict for the digest and signature of this line under each key -/
def parseVerdicts (s : String) : Option (List (List UInt8 × Bool)) :=
  if s == "-" then some []
  else (s.splitOn ",").mapM fun it =>
    match it.splitOn "=" with
    | [k, b] => (hexArg k).map fun k => (k, b == "1")
    | _ => none

def outKey : Outcome (List UInt8) → String
  | .ok k => "ok " ++ hexOut k
  | .err e => if e.startsWith "unmodelled" then "unmodelled" else "err"
  | .panic _ => "panic"

def opsC19 : List (String × Handler) := [
  ("prim.hmac256", fun
    | [k, m] => match hexArg k, hexArg m with
      | some k, some m => hexOut (Hmac.hmacSha256 k m)
      | _, _ => "bad-op"
    | _ => "bad-op"),
  -- tc.msg <wc> <addrhex> <domainhex> <ts> <payloadhex>: the digest that is signed
  ("tc.msg", fun
    | [wc, a, d, ts, p] => match wc.toInt?, hexArg a, hexArg d, ts.toInt?, hexArg p with
      | some wc, some a, some d, some ts, some p =>
        hexOut (createMessage sha256 { workchain := wc, address := a, domain := d, ts := ts, payload := p })
      | _, _, _, _, _ => "bad-op"
    | _ => "bad-op"),
  -- tc.payload <secrethex> <payload string hex> <nowNs> <life>: CheckPayload
  ("tc.payload", fun
    | [s, p, now, life] => match hexArg s, hexArg p, now.toInt?, life.toInt? with
      | some s, some p, some now, some life =>
        match checkPayload (Hmac.hmacSha256 s) now life p with
        | .ok _ => "ok"
        | .err _ => "err"
        | .panic _ => "panic"
      | _, _, _, _ => "bad-op"
    | _ => "bad-op"),
  -- tc.domain <configured hex> <presented hex>: StaticDomain(configured)(presented)
  ("tc.domain", fun
    | [c, p] => match hexArg c, hexArg p with
      | some c, some p => if staticDomain c p then "1" else "0"
      | _, _ => "bad-op"
    | _ => "bad-op"),
  -- tc.parse <known> <stateinit>: ParseStateInit
  ("tc.parse", fun
    | [known, si] => match parseKnown known, parseStateInitArg si with
      | some known, some (_, b) => outKey (parseStateInit sha256 known b)
      | _, _ => "bad-op"
    | _ => "bad-op"),
  -- tc.check <life> <nowNs> <payloadOk> <domainOk 1|0|e> <address hex> <ts> <domain hex> <sig hex|b64err> <payload hex>
  --          <getter> <stateinit> <known> <verdicts> <seed>
  ("tc.check", fun
    | [life, now, pok, dok, addr, ts, dom, sig, payload, getter, si, known, verdicts, _seed] =>
      match life.toInt?, now.toInt?, hexArg addr, ts.toInt?, hexArg dom, hexArg payload with
      | some life, some now, some addr, some ts, some dom, some payload =>
        match parseGetter getter, parseStateInitArg si, parseKnown known, parseVerdicts verdicts with
        | some getter, some (siEmpty, b), some known, some verdicts =>
          let sigv : Option (Option (List UInt8)) := if sig == "b64err" then some none else (hexArg sig).map some
          match sigv with
          | none => "bad-op"
          | some sigv =>
            let env : Env := { nowNs := now, lifeProof := life, payloadOk := pok == "1",
                               domainOk := if dok == "e" then none
                                 else if dok.startsWith "s:" then (hexArg (dok.drop 2).toString).map fun c => staticDomain c dom
                                 else some (dok == "1"),
                               getter := getter, known := known }
            let p : ProofIn := { address := addr, ts := ts, domain := dom, signature := sigv, payload := payload,
                                 stateInitEmpty := siEmpty, stateInit := b }
            let verify := fun (pk _ _ : List UInt8) => match verdicts.find? (fun x => x.1 == pk) with
              | some (_, v) => v
              | none => false
            outKey (checkProof sha256 verify env p)
        | _, _, _, _ => "bad-op"
      | _, _, _, _, _, _ => "bad-op"
    | _ => "bad-op")
]

end Driver
