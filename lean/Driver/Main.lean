import Driver.Proto
import Driver.All
import Std.Data.HashMap
/-! `tongo_model`: reads request lines on stdin, writes one answer line per request. Unknown op ⇒ `bad-op`
(never a default answer). -/
open Driver


def dispatch (tbl : Std.HashMap String Handler) (line : String) : String :=
  match (line.trimAscii.toString.splitOn " ").filter (· ≠ "") with
  | [] => "bad-op"
  | op :: args =>
    match tbl.get? op with
    | some h => h args
    | none => "bad-op"

partial def loop (tbl : Std.HashMap String Handler) (hin hout : IO.FS.Stream) : IO Unit := do
  let line ← hin.getLine
  if line.isEmpty then return ()
  hout.putStrLn (dispatch tbl line)
  loop tbl hin hout

def main : IO Unit := do
  let tbl : Std.HashMap String Handler := Std.HashMap.ofList allHandlers
  let hin ← IO.getStdin
  let hout ← IO.getStdout
  loop tbl hin hout
  hout.flush
