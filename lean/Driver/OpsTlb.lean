import Driver.Proto
import TongoModel.Tlb.Enc
import TongoModel.Tlb.Dec
import TongoModel.Tlb.TyText
import TongoModel.Tlb.Tags
import TongoModel.Tlb.CanonCell
import TongoModel.Tlb.Dns
/-! Line handlers of the TL-B codec model (properties C03, C04):
  tlb.enc <GoType> <ty> <env> <val>     → ok <canonical table> | err | panic
  tlb.dec <GoType> <ty> <env> <table>   → ok <val> | err | panic
  tlb.parsetag <hex of the tag string>  → ok <len> <val> | err        (tlb.ParseTag)
  tlb.fieldtag <hex of the tag string>  → ok p|r|m|mr | err            (the unexported parseTag) -/
namespace Driver
open Tongo Tongo.Tlb

def tlbFuel : Nat := 1000000

private def outcomeStr {α} (f : α → String) : Outcome α → String
  | .ok a => "ok " ++ f a
  | .err _ => "err"
  | .panic _ => "panic"

def opsTlb : List (String × Handler) := [
  ("tlb.enc", fun
    | [_, ty, env, val] =>
      match TyText.parseTy ty, TyText.parseEnv env, SExp.parse val with
      | some t, some e, some v => outcomeStr (fun b => SExp.cellToString b.toCell) (encode e tlbFuel t v Builder.empty)
      | _, _, _ => "bad-op"
    | _ => "bad-op"),
  ("tlb.dec", fun
    | [_, ty, env, tbl] =>
      match TyText.parseTy ty, TyText.parseEnv env, SExp.cellOfString tbl with
      | some t, some e, some c => outcomeStr (fun r => SExp.toString r.1) (decode e tlbFuel t (Slice.ofCell c))
      | _, _, _ => "bad-op"
    | _ => "bad-op"),
  -- the cell-level canonicity check of C03 (`canonicalCell`) on a cell from outside; `flag`: what the Go code found
  -- when it decoded and re-encoded the cell (same-hash | other-hash | enc-err | dec-err). The theorem
  -- `reencode_canonical_cell` (+ model = code) forbids `canonical ∧ other-hash`: that combination answers `same-hash`,
  -- which the Go side never echoes
  ("tlb.canon", fun
    | [_, ty, env, tbl, flag] =>
      match TyText.parseTy ty, TyText.parseEnv env, SExp.cellOfString tbl with
      | some t, some e, some c =>
        if canonicalCell e tlbFuel t c && flag == "other-hash" then "ok same-hash" else s!"ok {flag}"
      | _, _, _ => "bad-op"
    | _ => "bad-op"),
  -- statistics only (info op): is the cell canonical
  ("tlb.canoninfo", fun
    | [_, ty, env, tbl] =>
      match TyText.parseTy ty, TyText.parseEnv env, SExp.cellOfString tbl with
      | some t, some e, some c => if canonicalCell e tlbFuel t c then "ok canonical" else "ok noncanonical"
      | _, _, _ => "bad-op"
    | _ => "bad-op"),
  -- tlb.DNSRecord / tlb.DNSText: the hand-written decoders of tlb/dns.go
  ("tlb.dns", fun
    | [tbl] => match SExp.cellOfString tbl with
      | some c => outcomeStr SExp.toString (Dns.decDnsRecord (Slice.ofCell c))
      | none => "bad-op"
    | _ => "bad-op"),
  ("tlb.dnstext", fun
    | [tbl] => match SExp.cellOfString tbl with
      | some c =>
        let s := Slice.ofCell c
        if s.isLibrary then "err"
        else outcomeStr (fun r => "x" ++ Hex.encode r.1) (Dns.decDnsText s)
      | none => "bad-op"
    | _ => "bad-op"),
  -- the schema side: the cell block.tlb prescribes for a Text with the given chunks (`-` = the empty chunk)
  ("tlb.dnsspec", fun chunks =>
    match chunks.mapM hexArg with
    | some cs => let r := Dns.specDnsText cs; "ok " ++ SExp.cellToString (Cell.mk 0 0 r.1 r.2)
    | none => "bad-op"),
  -- VmStack.Put applied to the listed values in order, starting from the empty stack
  ("tlb.stackput", fun
    | [val] => match SExp.parse val with
      | some v => "ok " ++ SExp.toString ((Val.toList v).foldl (fun s x => Val.cons x s) Val.nil)
      | none => "bad-op"
    | _ => "bad-op"),
  ("tlb.parsetag", fun
    | [h] => match hexArg h with
      | some bs => match Tags.parseTag (String.ofList (bs.map fun b => Char.ofNat b.toNat)) with
        | some t => s!"ok {t.len} {t.val}"
        | none => "err"
      | none => "bad-op"
    | _ => "bad-op"),
  ("tlb.fieldtag", fun
    | [h] => match hexArg h with
      | some bs => match Tags.fieldTag (String.ofList (bs.map fun b => Char.ofNat b.toNat)) with
        | .plain => "ok p"
        | .ref => "ok r"
        | .maybe => "ok m"
        | .maybeRef => "ok mr"
        | .bad => "err"
      | none => "bad-op"
    | _ => "bad-op")
]

end Driver
