import Driver.Proto
import TongoModel.PoolSelect
/-! Line handlers for property C13 (connection pool). Selection ops answer with the SPECIFICATION `specSelect`
(proved equal to the model of the repaired `updateBest` in `TongoProofs.C13.select_spec`). -/
namespace Driver
open Tongo.PoolSelect

namespace C13

def seqnoTab : Array (BitVec 32) := #[0#32, 1#32, 2#32, 3#32, 0xFFFFFFFE#32, 0xFFFFFFFF#32]

/-- grid code 0..35 of one member: `alive*18 + seqnoIdx*3 + rttIdx`, rtt ∈ {1,2,3} -/
def connOfCode (id code : Nat) : Conn :=
  { id := id, alive := code / 18 == 1, seqno := seqnoTab[(code / 3) % 6]!, rtt := Int.ofNat (code % 3 + 1) }

def stratOf (s : String) : Strategy :=
  if s == "best-ping" then .bestPing else if s == "first-working" then .firstWorking else .other

def prevOf (cs : List Conn) (p : Int) : Option Conn := if p < 0 then none else cs[p.toNat]?

def resId : Option Conn → Nat
  | none => 0
  | some c => c.id + 1

@[inline] def mix (h : UInt64) (r : Nat) : UInt64 := (h ^^^ r.toUInt64) * 1099511628211

/-- digest over the last `min n 2` members ranging over all 36 codes each (lexicographic), the first ones fixed -/
def batch (st : Strategy) (prev : Int) (n : Nat) (fixed : List Nat) : Option (Nat × UInt64) :=
  let k := n - fixed.length
  if fixed.length > n ∨ k > 2 ∨ n = 0 then none else
  let fixedConns := fixed.zipIdx.map (fun (c, i) => connOfCode i c)
  let base := fixed.length
  let run (cs : List Conn) (h : UInt64) : UInt64 := mix h (resId (specSelect st cs (prevOf cs prev)))
  if k = 0 then some (1, run fixedConns 14695981039346656037)
  else if k = 1 then
    let h := (List.range 36).foldl (fun h a => run (fixedConns ++ [connOfCode base a]) h) 14695981039346656037
    some (36, h)
  else
    let h := (List.range 36).foldl (fun h a =>
      (List.range 36).foldl (fun h b => run (fixedConns ++ [connOfCode base a, connOfCode (base + 1) b]) h) h)
      14695981039346656037
    some (1296, h)

/-- `alive:seqno:rtt` -/
def connOfText (id : Nat) (s : String) : Option Conn :=
  match s.splitOn ":" with
  | [a, q, r] => match q.toNat?, r.toInt? with
    | some q, some r => some { id := id, alive := a == "1", seqno := BitVec.ofNat 32 q, rtt := r }
    | _, _ => none
  | _ => none

def connsOfText (l : List String) : Option (List Conn) :=
  l.zipIdx.mapM (fun (s, i) => connOfText i s)

end C13

open C13 in
def opsC13 : List (String × Handler) := [
  ("select.batch", fun
    | st :: prev :: n :: fixed => match prev.toInt?, n.toNat?, fixed.mapM String.toNat? with
      | some p, some n, some f => match batch (stratOf st) p n f with
        | some (cnt, h) => s!"ok {cnt} {h.toNat}"
        | none => "bad-op"
      | _, _, _ => "bad-op"
    | _ => "bad-op"),
  ("select.one", fun
    | st :: prev :: conns => match prev.toInt?, connsOfText conns with
      | some p, some cs => s!"ok {(resId (specSelect (stratOf st) cs (prevOf cs p)) : Int) - 1}"
      | _, _ => "bad-op"
    | _ => "bad-op"),
  -- the model of the code as ORIGINALLY written (uint32 wrap), for the record / replays of the wrap witness
  ("selectorig.one", fun
    | st :: prev :: conns => match prev.toInt?, connsOfText conns with
      | some p, some cs => s!"ok {(resId (updateBest true (stratOf st) cs (prevOf cs p)) : Int) - 1}"
      | _, _ => "bad-op"
    | _ => "bad-op")
]

end Driver
