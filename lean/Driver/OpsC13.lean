import Driver.Proto
import TongoModel.PoolSelect
import TongoModel.PoolSM
/-! Line handlers for property C13 (connection pool). Selection ops answer with the SPECIFICATION `specSelect`
(proved equal to the model of the repaired `updateBest` in `TongoProofs.C13.select_spec`). -/
namespace Driver
open Tongo.PoolSelect

namespace C13

def seqnoTab : Array (BitVec 32) := #[0#32, 1#32, 2#32, 3#32, 0xFFFFFFFE#32, 0xFFFFFFFF#32]

/-- grid code 0..35 of one member: `alive*18 + seqnoIdx*3 + rttIdx`, rtt ∈ {1,2,3} -/
def connOfCode (id code : Nat) : Conn :=
  { id := id, alive := code / 18 == 1, seqno := seqnoTab[(code / 3) % 6]!, rtt := Int.ofNat (code % 3 + 1) }

def stratOf (s : String) : Strategy :=
  if s == "best-ping" then .bestPing else if s == "first-working" then .firstWorking else .other

def prevOf (cs : List Conn) (p : Int) : Option Conn := if p < 0 then none else cs[p.toNat]?

def resId : Option Conn → Nat
  | none => 0
  | some c => c.id + 1

@[inline] def mix (h : UInt64) (r : Nat) : UInt64 := (h ^^^ r.toUInt64) * 1099511628211

/-- digest over the last `min n 2` members ranging over all 36 codes each (lexicographic), the first ones fixed -/
def batch (st : Strategy) (prev : Int) (n : Nat) (fixed : List Nat) : Option (Nat × UInt64) :=
  let k := n - fixed.length
  if fixed.length > n ∨ k > 2 ∨ n = 0 then none else
  let fixedConns := fixed.zipIdx.map (fun (c, i) => connOfCode i c)
  let base := fixed.length
  let run (cs : List Conn) (h : UInt64) : UInt64 := mix h (resId (specSelect st cs (prevOf cs prev)))
  if k = 0 then some (1, run fixedConns 14695981039346656037)
  else if k = 1 then
    let h := (List.range 36).foldl (fun h a => run (fixedConns ++ [connOfCode base a]) h) 14695981039346656037
    some (36, h)
  else
    let h := (List.range 36).foldl (fun h a =>
      (List.range 36).foldl (fun h b => run (fixedConns ++ [connOfCode base a, connOfCode (base + 1) b]) h) h)
      14695981039346656037
    some (1296, h)

/-- `alive:seqno:rtt` -/
def connOfText (id : Nat) (s : String) : Option Conn :=
  match s.splitOn ":" with
  | [a, q, r] => match q.toNat?, r.toInt? with
    | some q, some r => some { id := id, alive := a == "1", seqno := BitVec.ofNat 32 q, rtt := r }
    | _, _ => none
  | _ => none

def connsOfText (l : List String) : Option (List Conn) :=
  l.zipIdx.mapM (fun (s, i) => connOfText i s)

/-! ### wait protocol: scripted scenarios on the transition system `PoolSM` -/
open Tongo.PoolSM in
/-- the actions the threads take on their own (everything except arrivals, the ticker and timers/cancellations) -/
def autoActions (v : Variant) (parked : List Nat) (s : State) : List Action :=
  (enabledActions v s).filter fun
    | .wRecv i => !parked.contains i
    | .recv | .nRLock | .nCheck | .nSend _ | .nDrain _ | .nPut | .nDone | .wSub _ | .wUnsub _ | .sSend _ => true
    | _ => false

open Tongo.PoolSM in
def settle (v : Variant) (parked : List Nat) : Nat → State → State
  | 0, s => s
  | fuel + 1, s => match autoActions v parked s with
    | [] => s
    | a :: _ => match step v s a with
      | some s' => settle v parked fuel s'
      | none => s

open Tongo.PoolSM in
/-- every thread that has arrived is finished or parked in its select: the scenario is at rest -/
def atRest (s : State) : Bool :=
  s.run == .idle && s.upd.isEmpty &&
  s.waiters.all (fun w => match w.pc with | .subRead => false | .leave _ => false | _ => true) &&
  s.setters.all (fun x => match x.pc with | .sendLocked => false | .sendUnlocked => false | _ => true)

open Tongo.PoolSM in
def obsOf (s : State) : String :=
  let b : Int := match s.best with | none => -1 | some c => c
  let ws := s.waiters.map fun w => match w.pc with
    | .start => '-'
    | .done .ok => 'o'
    | .done .err => 'e'
    | .done .panic => 'p'
    | _ => 'w'
  s!"{b}/{s.waitList.length}/{String.ofList ws}"

structure Scen where
  strategy : Strategy
  heads : List Nat
  best : Option Nat
  steps : List (List String)

open Tongo.PoolSM in
def scenInit (sc : Scen) : State :=
  let nw := sc.steps.foldl (fun n st => match st with
    | ["w", i, _, _] => max n (i.toNat?.getD 0 + 1)
    | _ => n) 0
  let targets := (List.range nw).map fun i =>
    (sc.steps.findSome? fun st => match st with
      | ["w", j, t, _] => if j.toNat? == some i then t.toNat? else none
      | _ => none).getD 0
  let pubs := sc.steps.filterMap fun st => match st with
    | ["u", c, q] => some (c.toNat?.getD 0, q.toNat?.getD 0)
    | _ => none
  mkInit sc.heads sc.best targets pubs sc.strategy ((List.range sc.heads.length).map (fun (i : Nat) => Int.ofNat i + 1))

open Tongo.PoolSM in
def apply? (v : Variant) (s : State) (as : List Action) : Option State := runTrace v s as

open Tongo.PoolSM in
/-- one script step; `k` = number of `u` steps seen so far; `shorts` = waiters with a short timer; `parked` =
waiters held at the entry of their select (they do not receive). Returns `none` when the model cannot take the step
(a thread that should move is blocked). -/
def scenStep (v : Variant) (sc : Scen) (s : State) (k : Nat) (shorts parked : List Nat) (st : List String) :
    Option (State × List Nat) :=
  match st with
  | ["w", i, _, kind] =>
    let i := i.toNat?.getD 0
    let parked := if kind == "P" then i :: parked else parked
    (apply? v s [.wLock i]).map fun s' => (settle v parked 10000 s', parked)
  | ["u", _, _] => (apply? v s [.sLock k]).map fun s' => (settle v parked 10000 s', parked)
  | ["t", mask, rtts] =>
    let m := mask.toNat?.getD 0
    let rs := (rtts.splitOn ".").map (fun x => x.toInt?.getD 1)
    let n := s.heads.length
    let env : List Action := (List.range n).flatMap fun i =>
      [.setAlive i ((m >>> i) % 2 == 1)] ++ (match rs[i]? with | some r => [.setRtt i r] | none => [])
    (apply? v s (env ++ [.tick, .ubLock] ++ List.replicate (n + 1) .ubRead ++ List.replicate n .ubSel ++ [.ubSet])).map
      fun s' => (settle v parked 10000 s', parked)
  | ["r", i] =>
    let parked := parked.erase (i.toNat?.getD 0)
    some (settle v parked 10000 s, parked)
  | [c, i] =>
    let i := i.toNat?.getD 0
    if (c == "c" ∨ (c == "x" ∧ i ∈ shorts)) ∧ !parked.contains i then
      match s.waiters[i]? with
      | some w => if w.pc == .sel then (apply? v s [.wFire i]).map fun s' => (settle v parked 10000 s', parked)
                  else some (s, parked)
      | none => some (s, parked)
    else if c == "x" ∨ c == "c" then some (s, parked) else none
  | _ => none

open Tongo.PoolSM in
def runScen (v : Variant) (sc : Scen) : String :=
  let shorts := sc.steps.filterMap fun st => match st with
    | ["w", i, _, "S"] => i.toNat?
    | _ => none
  let rec go (s : State) (k : Nat) (parked : List Nat) (acc : List String) :
      List (List String) → Option (State × List Nat × List String)
    | [] => some (s, parked, acc)
    | st :: rest =>
      match scenStep v sc s k shorts parked st with
      | none => none
      | some (s', parked') =>
        if atRest s' then go s' (if st.head? == some "u" then k + 1 else k) parked' (obsOf s' :: acc) rest else none
  match go (scenInit sc) 0 [] [] sc.steps with
  | none => "hang"
  | some (s, _, acc) =>
    -- epilogue: parked waiters are released, then everybody still waiting is cancelled, in order of arrival
    let order := sc.steps.filterMap fun st => match st with
      | ["w", i, _, _] => i.toNat?
      | _ => none
    let s := settle v [] 10000 s
    let fin := order.foldl (fun (o : Option State) i => o.bind fun s =>
      match s.waiters[i]? with
      | some w => if w.pc == .sel then (apply? v s [.wFire i]).map (settle v [] 10000) else some s
      | none => some s) (some s)
    match fin with
    | some s' => if atRest s' then "ok " ++ "|".intercalate ((obsOf s' :: acc).reverse) else "hang"
    | none => "hang"

open Tongo.PoolSM in
/-- `selectmv.run`: members `alive:seqno:rtt`, moves `m<k>:<conn>:<seqno>` = SetMasterHead(conn, seqno) just before
the k-th MasterHead() call of the refresh. -/
def selectMoving (v : Variant) (st : Strategy) (prev : Int) (args : List String) : String :=
  let mem := args.filter (fun x => !x.startsWith "m")
  let moves := (args.filter (fun x => x.startsWith "m")).map fun x => ((x.drop 1).toString.splitOn ":").map (·.toNat?.getD 0)
  match connsOfText mem with
  | none => "bad-op"
  | some cs =>
    let n := cs.length
    let s0 : State :=
      { mkInit (cs.map (·.seqno.toNat)) (if prev < 0 ∨ prev.toNat ≥ n then none else some prev.toNat) []
          (moves.map fun m => (m.getD 1 0, m.getD 2 0)) st (cs.map (·.rtt)) with alive := cs.map (·.alive) }
    -- the k-th head-reading action is preceded by the moves with index k
    let readStep (k : Nat) (a : Action) (s : State) : Option State :=
      -- a move is a complete SetMasterHead call: lock/compare/store, then the publication if the head was newer
      let s := (moves.zipIdx.filter (fun (m, _) => m.getD 0 0 == k)).foldl (fun (s : State) (_, j) =>
        match step v s (.sLock j) with
        | some s1 => (step v s1 (.sSend j)).getD s1
        | none => s) s
      runTrace v s [a]
    let pass1 := (List.range n).foldl (fun (o : Option State) k => o.bind (readStep k .ubRead)) (runTrace v s0 [.tick, .ubLock])
    let pass1 := pass1.bind fun s => runTrace v s [.ubRead]
    let pass2 := (List.range n).foldl (fun (o : Option State) k => o.bind fun s =>
      if v.oneSnapshot then runTrace v s [.ubSel] else readStep (n + k) .ubSel s) pass1
    match pass2.bind fun s => runTrace v s [.ubSet] with
    | some s => s!"ok {(match s.best with | none => (-1 : Int) | some c => c)}"
    | none => "hang"

def scenOf : List String → Option Scen
  | st :: heads :: best :: steps =>
    match (heads.splitOn "/").mapM String.toNat?, best.toInt? with
    | some hs, some b => some { strategy := stratOf st, heads := hs, best := if b < 0 then none else some b.toNat,
                                steps := steps.map (·.splitOn ":") }
    | _, _ => none
  | _ => none

end C13

open C13 in
def opsC13 : List (String × Handler) := [
  ("select.batch", fun
    | st :: prev :: n :: fixed => match prev.toInt?, n.toNat?, fixed.mapM String.toNat? with
      | some p, some n, some f => match batch (stratOf st) p n f with
        | some (cnt, h) => s!"ok {cnt} {h.toNat}"
        | none => "bad-op"
      | _, _, _ => "bad-op"
    | _ => "bad-op"),
  ("select.one", fun
    | st :: prev :: conns => match prev.toInt?, connsOfText conns with
      | some p, some cs => s!"ok {(resId (specSelect (stratOf st) cs (prevOf cs p)) : Int) - 1}"
      | _, _ => "bad-op"
    | _ => "bad-op"),
  -- the model of the code as ORIGINALLY written (uint32 wrap), for the record / replays of the wrap witness
  ("selectorig.one", fun
    | st :: prev :: conns => match prev.toInt?, connsOfText conns with
      | some p, some cs => s!"ok {(resId (updateBest true (stratOf st) cs (prevOf cs p)) : Int) - 1}"
      | _, _ => "bad-op"
    | _ => "bad-op"),
  -- one refresh with heads moving between the reads (see harness: selectmv.run)
  ("selectmv.run", fun
    | st :: prev :: rest => match prev.toInt? with
      | some p => selectMoving Tongo.PoolSM.fixed (stratOf st) p rest
      | none => "bad-op"
    | _ => "bad-op"),
  ("selectmvorig.run", fun
    | st :: prev :: rest => match prev.toInt? with
      | some p => selectMoving ⟨true, true, false, true⟩ (stratOf st) p rest
      | none => "bad-op"
    | _ => "bad-op"),
  ("wait.script", fun a => match scenOf a with
    | some sc => runScen Tongo.PoolSM.fixed sc
    | none => "bad-op"),
  -- the same scenario on the model of the code as ORIGINALLY written (for replays)
  ("waitorig.script", fun a => match scenOf a with
    | some sc => runScen Tongo.PoolSM.orig sc
    | none => "bad-op")
]

end Driver
