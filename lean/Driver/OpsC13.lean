import Driver.Proto
import TongoModel.PoolSelect
import TongoModel.PoolSM
/-! Line handlers for property C13 (connection pool). Selection ops answer with the SPECIFICATION `specSelect`
(proved equal to the model of the repaired `updateBest` in `TongoProofs.C13.select_spec`). -/
namespace Driver
open Tongo.PoolSelect

namespace C13

def seqnoTab : Array (BitVec 32) := #[0#32, 1#32, 2#32, 3#32, 0xFFFFFFFE#32, 0xFFFFFFFF#32]

/-- grid code 0..35 of one member: `alive*18 + seqnoIdx*3 + rttIdx`, rtt ∈ {1,2,3} -/
def connOfCode (id code : Nat) : Conn :=
  { id := id, alive := code / 18 == 1, seqno := seqnoTab[(code / 3) % 6]!, rtt := Int.ofNat (code % 3 + 1) }

def stratOf (s : String) : Strategy := strategyOfName s

def prevOf (cs : List Conn) (p : Int) : Option Conn := if p < 0 then none else cs[p.toNat]?

def resId : Option Conn → Nat
  | none => 0
  | some c => c.id + 1

@[inline] def mix (h : UInt64) (r : Nat) : UInt64 := (h ^^^ r.toUInt64) * 1099511628211

/-- digest over the last `min n 2` members ranging over all 36 codes each (lexicographic), the first ones fixed -/
def batch (st : Strategy) (prev : Int) (n : Nat) (fixed : List Nat) : Option (Nat × UInt64) :=
  let k := n - fixed.length
  if fixed.length > n ∨ k > 2 ∨ n = 0 then none else
  let fixedConns := fixed.zipIdx.map (fun (c, i) => connOfCode i c)
  let base := fixed.length
  let run (cs : List Conn) (h : UInt64) : UInt64 := mix h (resId (specSelect st cs (prevOf cs prev)))
  if k = 0 then some (1, run fixedConns 14695981039346656037)
  else if k = 1 then
    let h := (List.range 36).foldl (fun h a => run (fixedConns ++ [connOfCode base a]) h) 14695981039346656037
    some (36, h)
  else
    let h := (List.range 36).foldl (fun h a =>
      (List.range 36).foldl (fun h b => run (fixedConns ++ [connOfCode base a, connOfCode (base + 1) b]) h) h)
      14695981039346656037
    some (1296, h)

/-- `alive:seqno:rtt` -/
def connOfText (id : Nat) (s : String) : Option Conn :=
  match s.splitOn ":" with
  | [a, q, r] => match q.toNat?, r.toInt? with
    | some q, some r => some { id := id, alive := a == "1", seqno := BitVec.ofNat 32 q, rtt := r }
    | _, _ => none
  | _ => none

def connsOfText (l : List String) : Option (List Conn) :=
  l.zipIdx.mapM (fun (s, i) => connOfText i s)

/-! ### wait protocol: scripted scenarios on the transition system `PoolSM`

The driver schedules the model deterministically the way the harness schedules the real goroutines: after every
script step everything that can run on its own runs (`settle`), threads that wait for the pool's write lock before
`Run` (Go's RWMutex prefers a waiting writer to a new reader). `Ctl` is the script-side control state: waiters held at
the entry of their select (`parked`), the Run-side gate (`armed` → `runParked`: Run sits in notifySubscribers at its
`bestConn.ID()` test, read lock held), and what the script has queued behind the lock meanwhile. -/
structure Ctl where
  parked : List Nat := []
  armed : Bool := false
  runParked : Bool := false
  late : List Nat := []                       -- arrivals queued on the write lock
  pendTick : Option (Nat × List Int) := none  -- a refresh queued on the write lock
  launched : List Nat := []

open Tongo.PoolSM in
/-- the actions the threads take on their own (everything except arrivals, the ticker and timers/cancellations);
waiters first, then Run. While the Run gate holds, Run does not pass its `nCheck`. -/
def autoActions (v : Variant) (c : Ctl) (s : State) : List Action :=
  let en := (enabledActions v s).filter fun
    | .wRecv i => !c.parked.contains i
    | .wFire i => !c.parked.contains i
    | .nCheck => !(c.armed || c.runParked)
    | .recv | .nRLock | .nSend _ | .nDrain _ | .nPut | .nDone | .wSub _ | .wUnsub _ | .sSend _ => true
    | _ => false
  let isRun : Action → Bool := fun
    | .recv | .nRLock | .nCheck | .nSend _ | .nDrain _ | .nPut | .nDone => true
    | _ => false
  -- Run finishes the call it is in before anybody else gets the lock; otherwise the others go first
  if s.run != .idle then en.filter isRun ++ en.filter (fun a => !isRun a)
  else en.filter (fun a => !isRun a) ++ en.filter isRun

open Tongo.PoolSM in
def settle (v : Variant) (c : Ctl) : Nat → State → State
  | 0, s => s
  | fuel + 1, s => match autoActions v c s with
    | [] => s
    | a :: _ => match step v s a with
      | some s' => settle v c fuel s'
      | none => s

open Tongo.PoolSM in
/-- every thread that has arrived is finished or parked in its select: the scenario is at rest -/
def atRest (s : State) : Bool :=
  s.run == .idle && s.upd.isEmpty &&
  s.waiters.all (fun w => match w.pc with | .subRead => false | .leave _ => false | _ => true) &&
  s.setters.all (fun x => match x.pc with | .sendLocked => false | .sendUnlocked => false | _ => true)

open Tongo.PoolSM in
def obsOf (c : Ctl) (s : State) : String :=
  let b : Int := match s.best with | none => -1 | some c => c
  let ws := s.waiters.zipIdx.map fun (w, i) => match w.pc with
    | .start => if c.launched.contains i then 'w' else '-'
    | .done .ok => 'o'
    | .done .err => 'e'
    | .done .panic => 'p'
    | _ => 'w'
  if c.runParked then s!"P{s.upd.length}/{String.ofList ws}"
  else s!"{b}/{s.waitList.length}/{String.ofList ws}"

structure Scen where
  strategy : Strategy
  heads : List Nat
  best : Option Nat
  steps : List (List String)

open Tongo.PoolSM in
def scenInit (sc : Scen) : State :=
  let nw := sc.steps.foldl (fun n st => match st with
    | ["w", i, _, _] => max n (i.toNat?.getD 0 + 1)
    | _ => n) 0
  let targets := (List.range nw).map fun i =>
    (sc.steps.findSome? fun st => match st with
      | ["w", j, t, _] => if j.toNat? == some i then t.toNat? else none
      | _ => none).getD 0
  let pubs := sc.steps.filterMap fun st => match st with
    | ["u", c, q] => some (c.toNat?.getD 0, q.toNat?.getD 0)
    | _ => none
  mkInit sc.heads sc.best targets pubs sc.strategy ((List.range sc.heads.length).map (fun (i : Nat) => Int.ofNat i + 1))

open Tongo.PoolSM in
def apply? (v : Variant) (s : State) (as : List Action) : Option State := runTrace v s as

open Tongo.PoolSM in
/-- the actions of one complete refresh issued by the script: the environment sets liveness / rtt, then the ticker -/
def tickActions (s : State) (m : Nat) (rs : List Int) : List Action :=
  let n := s.heads.length
  ((List.range n).flatMap fun i =>
    [Action.setAlive i ((m >>> i) % 2 == 1)] ++ (match rs[i]? with | some r => [.setRtt i r] | none => []))
  ++ [.tick, .ubLock] ++ List.replicate (n + 1) .ubRead ++ List.replicate n .ubSel ++ [.ubSet]

open Tongo.PoolSM in
/-- after a step: if the Run gate is armed and Run has reached its `nCheck`, it is parked there -/
def notePark (c : Ctl) (s : State) : Ctl :=
  match s.run with
  | .nCheck _ _ => if c.armed then { c with armed := false, runParked := true } else c
  | _ => c

open Tongo.PoolSM in
/-- release of the Run gate: Run finishes its notification; whoever queued on the write lock goes next (an arrival
subscribes, a refresh runs); then everything settles. -/
def releaseRun (v : Variant) (c : Ctl) (s : State) : Option (State × Ctl) :=
  let c := { c with armed := false, runParked := false }
  let noLockTakers : Ctl := c
  -- 1. Run finishes the current notifySubscribers (waiters that are not held may receive meanwhile)
  let s := settleRunCall v noLockTakers 10000 s
  -- 2. queued writers
  let s? := c.late.foldl (fun (o : Option State) i => o.bind fun s =>
    (apply? v s [.wLock i]).map (settleNoRun v c 10000)) (some s)
  let s? := s?.bind fun s => match c.pendTick with
    | some (m, rs) => apply? v s (tickActions s m rs)
    | none => some s
  s?.map fun s => (settle v { c with late := [], pendTick := none } 10000 s, { c with late := [], pendTick := none })
where
  /-- run only Run's own actions until it is back in its select (idle), plus receives of unheld waiters -/
  settleRunCall (v : Variant) (c : Ctl) : Nat → State → State
    | 0, s => s
    | fuel + 1, s =>
      if s.run == .idle then s else
      match (autoActions v c s).filter (fun a => match a with
          | .nCheck | .nSend _ | .nDrain _ | .nPut | .nDone | .wRecv _ => true | _ => false) with
      | [] => s
      | a :: _ => match step v s a with
        | some s' => settleRunCall v c fuel s'
        | none => s
  /-- everything except Run's `recv` / `nRLock` (the queued writer acts before Run gets the lock again) -/
  settleNoRun (v : Variant) (c : Ctl) : Nat → State → State
    | 0, s => s
    | fuel + 1, s =>
      match (autoActions v c s).filter (fun a => match a with | .recv | .nRLock => false | _ => true) with
      | [] => s
      | a :: _ => match step v s a with
        | some s' => settleNoRun v c fuel s'
        | none => s

open Tongo.PoolSM in
/-- one script step; `k` = number of `u` steps seen so far; `shorts` = waiters with a short timer.
Returns `none` when the model cannot take the step (a thread that should move is blocked). -/
def scenStep (v : Variant) (s : State) (k : Nat) (shorts : List Nat) (c : Ctl) (st : List String) :
    Option (State × Ctl) :=
  let fin (c : Ctl) (s' : State) : State × Ctl := let s'' := settle v c 10000 s'; (s'', notePark c s'')
  match st with
  | ["w", i, _, kind] =>
    let i := i.toNat?.getD 0
    let c := { c with launched := i :: c.launched }
    if c.runParked then some (s, { c with late := c.late ++ [i] })
    else
      let c := if kind == "P" then { c with parked := i :: c.parked } else c
      (apply? v s [.wLock i]).map (fin c)
  | ["u", _, _] => (apply? v s [.sLock k]).map (fin c)
  | ["t", mask, rtts] =>
    let m := mask.toNat?.getD 0
    let rs := (rtts.splitOn ".").map (fun x => x.toInt?.getD 1)
    if c.runParked then some (s, { c with pendTick := some (m, rs) })
    else (apply? v s (tickActions s m rs)).map (fin c)
  | ["r", i] => some (fin { c with parked := c.parked.erase (i.toNat?.getD 0) } s)
  | ["G"] => some (s, if c.runParked then c else { c with armed := true })
  | ["g"] => if c.runParked then releaseRun v c s else some (s, { c with armed := false })
  | [cmd, i] =>
    let i := i.toNat?.getD 0
    if (cmd == "c" ∨ (cmd == "x" ∧ i ∈ shorts ∧ !c.runParked)) ∧ !c.parked.contains i then
      match s.waiters[i]? with
      | some w =>
        if w.pc == .sel then
          -- c: the context is cancelled; x: the timeout elapses, the select then takes the timer case on its own
          (apply? v s [if cmd == "c" then .wCancel i else .wDeadline i]).map (fin c)
        else some (s, c)
      | none => some (s, c)
    else if cmd == "x" ∨ cmd == "c" then some (s, c) else none
  | _ => none

open Tongo.PoolSM in
def runScen (v : Variant) (sc : Scen) : String :=
  let shorts := sc.steps.filterMap fun st => match st with
    | ["w", i, _, "S"] => i.toNat?
    | _ => none
  let rec go (s : State) (k : Nat) (c : Ctl) (acc : List String) :
      List (List String) → Option (State × Ctl × List String)
    | [] => some (s, c, acc)
    | st :: rest =>
      match scenStep v s k shorts c st with
      | none => none
      | some (s', c') =>
        if c'.runParked ∨ atRest s' then
          go s' (if st.head? == some "u" then k + 1 else k) c' (obsOf c' s' :: acc) rest
        else none
  match go (scenInit sc) 0 {} [] sc.steps with
  | none => "hang"
  | some (s, c, acc) =>
    -- epilogue: Run and held waiters are released, then everybody still waiting is cancelled, in order of arrival
    let order := sc.steps.filterMap fun st => match st with
      | ["w", i, _, _] => i.toNat?
      | _ => none
    match (if c.runParked then releaseRun v c s else some (s, { c with armed := false })) with
    | none => "hang"
    | some (s, c) =>
      let c := { c with parked := [] }
      let s := settle v c 10000 s
      let fin := order.foldl (fun (o : Option State) i => o.bind fun s =>
        match s.waiters[i]? with
        | some w => if w.pc == .sel then (apply? v s [.wCancel i]).map (settle v c 10000) else some s
        | none => some s) (some s)
      match fin with
      | some s' => if atRest s' then "ok " ++ "|".intercalate ((obsOf c s' :: acc).reverse) else "hang"
      | none => "hang"

open Tongo.PoolSM in
/-- `selectmv.run`: members `alive:seqno:rtt`, moves `m<k>:<conn>:<seqno>` = SetMasterHead(conn, seqno) just before
the k-th MasterHead() call of the refresh. -/
def selectMoving (v : Variant) (st : Strategy) (prev : Int) (args : List String) : String :=
  let mem := args.filter (fun x => !x.startsWith "m" && !x.startsWith "r")
  let moves := (args.filter (fun x => x.startsWith "m")).map fun x => ((x.drop 1).toString.splitOn ":").map (·.toNat?.getD 0)
  -- r<i>:<conn>:<rtt>: the round-trip time of <conn> changes just before the refresh reads member i
  let rmoves := (args.filter (fun x => x.startsWith "r")).map fun x => ((x.drop 1).toString.splitOn ":").map (·.toNat?.getD 0)
  let rtts (k : Nat) (s : State) : State :=
    (rmoves.filter (fun m => m.getD 0 0 == k)).foldl (fun (s : State) m =>
      (step v s (.setRtt (m.getD 1 0) (Int.ofNat (m.getD 2 0)))).getD s) s
  match connsOfText mem with
  | none => "bad-op"
  | some cs =>
    let n := cs.length
    let s0 : State :=
      { mkInit (cs.map (·.seqno.toNat)) (if prev < 0 ∨ prev.toNat ≥ n then none else some prev.toNat) []
          (moves.map fun m => (m.getD 1 0, m.getD 2 0)) st (cs.map (·.rtt)) with alive := cs.map (·.alive) }
    -- the k-th head-reading action is preceded by the moves with index k
    let readStep (k : Nat) (a : Action) (s : State) : Option State :=
      -- a move is a complete SetMasterHead call: lock/compare/store, then the publication if the head was newer
      let s := (moves.zipIdx.filter (fun (m, _) => m.getD 0 0 == k)).foldl (fun (s : State) (_, j) =>
        match step v s (.sLock j) with
        | some s1 => (step v s1 (.sSend j)).getD s1
        | none => s) s
      runTrace v s [a]
    let pass1 := (List.range n).foldl (fun (o : Option State) k => o.bind fun s => readStep k .ubRead (rtts k s))
      (runTrace v s0 [.tick, .ubLock])
    let pass1 := pass1.bind fun s => runTrace v s [.ubRead]
    let pass2 := (List.range n).foldl (fun (o : Option State) k => o.bind fun s =>
      if v.oneSnapshot then runTrace v s [.ubSel] else readStep (n + k) .ubSel s) pass1
    match pass2.bind fun s => runTrace v s [.ubSet] with
    | some s => s!"ok {(match s.best with | none => (-1 : Int) | some c => c)}"
    | none => "hang"

def scenOf : List String → Option Scen
  | st :: heads :: best :: steps =>
    match (heads.splitOn "/").mapM String.toNat?, best.toInt? with
    | some hs, some b => some { strategy := stratOf st, heads := hs, best := if b < 0 then none else some b.toNat,
                                steps := steps.map (·.splitOn ":") }
    | _, _ => none
  | _ => none

end C13

open C13 in
def opsC13 : List (String × Handler) := [
  ("select.batch", fun
    | st :: prev :: n :: fixed => match prev.toInt?, n.toNat?, fixed.mapM String.toNat? with
      | some p, some n, some f => match batch (stratOf st) p n f with
        | some (cnt, h) => s!"ok {cnt} {h.toNat}"
        | none => "bad-op"
      | _, _, _ => "bad-op"
    | _ => "bad-op"),
  ("select.one", fun
    | st :: prev :: conns => match prev.toInt?, connsOfText conns with
      | some p, some cs => s!"ok {(resId (specSelect (stratOf st) cs (prevOf cs p)) : Int) - 1}"
      | _, _ => "bad-op"
    | _ => "bad-op"),
  -- the model of the code as ORIGINALLY written (uint32 wrap), for the record / replays of the wrap witness
  ("selectorig.one", fun
    | st :: prev :: conns => match prev.toInt?, connsOfText conns with
      | some p, some cs => s!"ok {(resId (updateBest true (stratOf st) cs (prevOf cs p)) : Int) - 1}"
      | _, _ => "bad-op"
    | _ => "bad-op"),
  -- one refresh with heads moving between the reads (see harness: selectmv.run)
  ("selectmv.run", fun
    | st :: prev :: rest => match prev.toInt? with
      | some p => selectMoving Tongo.PoolSM.fixed (stratOf st) p rest
      | none => "bad-op"
    | _ => "bad-op"),
  ("selectmvorig.run", fun
    | st :: prev :: rest => match prev.toInt? with
      | some p => selectMoving ⟨true, true, false, true, true⟩ (stratOf st) p rest
      | none => "bad-op"
    | _ => "bad-op"),
  -- pool start-up: members and initial best connection after the connections have arrived in the given order
  ("pool.start", fun
    | [arr] => match (arr.splitOn ".").mapM String.toNat? with
      | some a =>
        let (ids, best) := Tongo.PoolSM.startPool a
        let b : Int := match best with | none => -1 | some c => c
        "ok " ++ ".".intercalate (ids.map toString) ++ s!" best={b}"
      | none => "bad-op"
    | _ => "bad-op"),
  ("wait.script", fun a => match scenOf a with
    | some sc => runScen Tongo.PoolSM.fixed sc
    | none => "bad-op"),
  -- the same scenario on the model of the code as ORIGINALLY written (for replays)
  ("waitorig.script", fun a => match scenOf a with
    | some sc => runScen Tongo.PoolSM.orig sc
    | none => "bad-op")
]

end Driver
