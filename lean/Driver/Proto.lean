import TongoModel.Prim.Hex
import TongoModel.Prim.Sha256
import TongoModel.Prim.Crc
/-! Line protocol of the model driver: one request per line `op arg1 arg2 ...` (space separated, no spaces inside an
argument), one answer line per request. Handlers are pure functions `List String → String`. -/
namespace Driver

abbrev Handler := List String → String

def hexArg (s : String) : Option (List UInt8) := if s == "-" then some [] else Tongo.Hex.decode s
def hexOut (bs : List UInt8) : String := if bs.isEmpty then "-" else Tongo.Hex.encode bs

def primHandlers : List (String × Handler) := [
  ("prim.sha256", fun
    | [h] => match hexArg h with
      | some bs => hexOut (Tongo.Sha256.hash bs)
      | none => "bad-op"
    | _ => "bad-op"),
  ("prim.crc16", fun
    | [h] => match hexArg h with
      | some bs => toString (Tongo.Crc.crc16 bs).toNat
      | none => "bad-op"
    | _ => "bad-op"),
  ("prim.crc32c", fun
    | [h] => match hexArg h with
      | some bs => toString (Tongo.Crc.crc32c bs).toNat
      | none => "bad-op"
    | _ => "bad-op")
]

end Driver
