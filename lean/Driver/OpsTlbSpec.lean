import Driver.Proto
import TongoModel.Tlb.BlockTlb
import TongoModel.Tlb.SExp
/-! Line handlers of the TL-B SPEC (property C04): what the schema prescribes for a value.
  tlb.spec <GoType> <stype> <val>  → ok <canonical table> | err
  stype := (:nat|n) (:int|n) :bool (:bits|n) (:natleq|n) :unary (:varuint|n) :any :cellref :msgaddress :anycast
           (:maybe|s) (:either|s|s) (:ref|s) (:N|:Name)                  (Name: entry of Spec.senv)
  tlb.extmsg <workchain> <address hex32> <body table> <init val | ~> <import fee>
                                     → the cell block.tlb prescribes for the external-in message -/
namespace Driver
open Tongo Tongo.Tlb Tongo.Tlb.Spec

def stypeOf : Val → Option SType
  | .sym "bool" => some .bool
  | .sym "unary" => some .unary
  | .sym "any" => some .any
  | .sym "cellref" => some .cellRef
  | .sym "msgaddress" => some .msgAddress
  | .sym "anycast" => some .anycast
  | .cons (.sym "maybe") (.cons t .nil) => (stypeOf t).map .maybe
  | .cons (.sym "ref") (.cons t .nil) => (stypeOf t).map .ref
  | .cons (.sym "either") (.cons l (.cons r .nil)) => do
    let l ← stypeOf l
    let r ← stypeOf r
    pure (.either l r)
  | .cons (.sym "nat") (.cons (.int n) .nil) => some (.nat n.toNat)
  | .cons (.sym "int") (.cons (.int n) .nil) => some (.int n.toNat)
  | .cons (.sym "bits") (.cons (.int n) .nil) => some (.bits n.toNat)
  | .cons (.sym "natleq") (.cons (.int n) .nil) => some (.natLeq n.toNat)
  | .cons (.sym "varuint") (.cons (.int n) .nil) => some (.varUint n.toNat)
  | .cons (.sym "N") (.cons (.sym name) .nil) => some (.named name)
  | _ => none

/-- every cell of the tree respects the capacity of a cell -/
partial def cellFits : Cell → Bool
  | .mk _ _ bits refs => bits.length ≤ cellBits && refs.length ≤ cellRefs && refs.all cellFits

def specFuel : Nat := 100000

def specAnswer (S : SType) (v0 : Val) : String :=
  let v := byName senv specFuel S v0     -- struct fields are picked by the schema's field names
  match specCell senv specFuel S v with
  | some c => if cellFits c then "ok " ++ SExp.cellToString c else "err"
  | none => "err"

def opsTlbSpec : List (String × Handler) := [
  ("tlb.spec", fun
    | [_, st, val] =>
      match (SExp.parse st).bind stypeOf, SExp.parse val with
      | some S, some v => specAnswer S v
      | _, _ => "bad-op"
    | _ => "bad-op"),
  ("tlb.extmsg", fun
    | [wc, addr, body, init, fee] =>
      match wc.toInt?, hexArg addr, SExp.cellOfString body, SExp.parse init, fee.toNat? with
      | some w, some a, some bc, some iv, some f =>
        -- ton.CreateExternalMessage: ext_in_msg_info$10 src:addr_none dest:addr_std import_fee; init (if any) and body
        -- both as references (right)
        let info := Val.ctor "ExtInMsgInfo" (Val.some (Val.list [
          Val.ctor "AddrNone" .nil, Val.ctor "AddrStd" (Val.list [.none, .int w, .bytes a]), .int f]))
        let initV := match iv with
          | .none => Val.none
          | x => Val.some (Val.ctor "R" (byName senv specFuel Spec.StateInit x))
        specAnswer Spec.Message (Val.list [info, initV, Val.ctor "R" (.cell bc)])
      | _, _, _, _, _ => "bad-op"
    | _ => "bad-op")
]

end Driver
