import Driver.OpsC15
import TongoModel.WalletMsg
import TongoModel.WalletInt
import TongoModel.WalletSendMsg
/-! Line handlers for property C14 (wallet message bodies, signatures, decoding). -/
namespace Driver
open Tongo Tongo.Wallet Tongo.CellFmt

/-- messages: `-` or `mode:table/mode:table/…` -/
def parseMsgs (s : String) : Option (List RawMsg) :=
  if s == "-" then some []
  else (s.splitOn "/").mapM fun it =>
    match it.splitOn ":" with
    | [m, t] => do
      let mode ← m.toNat?
      let c ← cellArg t
      pure { mode := mode, msg := c }
    | _ => none

def hashOut (c : Cell) : String :=
  match c.hashO? sha256 with
  | .ok h => hexOut h
  | _ => "unhashable"

def extAddrOut : ExtAddr → String
  | .none => "none"
  | .std wc h => s!"{wc}:{hexOut h}"

def extActionOut : ExtAction → String
  | .addExtension a => "a:" ++ extAddrOut a
  | .removeExtension a => "r:" ++ extAddrOut a
  | .setSignatureAllowed b => if b then "s:1" else "s:0"

def extAddrArg (s : String) : Option ExtAddr :=
  if s == "none" then some .none
  else match s.splitOn ":" with
    | [wc, h] => do
      let wc ← wc.toInt?
      let h ← hexArg h
      pure (.std wc h)
    | _ => none

/-- extended actions: `n` = nil pointer, `e` = empty list, else items `a:<wc>:<hash>` | `a:none` | `r:…` | `s:0|1` joined by `/` -/
def extsArg (s : String) : Option (Option (List ExtAction)) :=
  if s == "n" then some none
  else if s == "e" then some (some [])
  else ((s.splitOn "/").mapM fun (it : String) =>
    if it.startsWith "a:" then (extAddrArg (it.drop 2).toString).map ExtAction.addExtension
    else if it.startsWith "r:" then (extAddrArg (it.drop 2).toString).map ExtAction.removeExtension
    else if it == "s:1" then some (ExtAction.setSignatureAllowed true)
    else if it == "s:0" then some (ExtAction.setSignatureAllowed false)
    else none).map some

def decodedOut (d : Decoded) : String :=
  let ms := d.msgs.map fun m => s!"{m.mode}:{hashOut m.msg}"
  let xs := d.extnActions.map fun m => s!"{m.mode}:{hashOut m.msg}"
  s!"ok {d.ids.subWallet} {d.ids.walletId} {d.ids.net} {d.ids.wcByte} {d.seqno} {d.validUntil} {d.queryId} {d.msgs.length}" ++
    (if ms.isEmpty then "" else " " ++ " ".intercalate ms) ++
    (if d.ext.isEmpty then "" else " ext=" ++ "/".intercalate (d.ext.map extActionOut)) ++
    (if xs.isEmpty then "" else " xacts=" ++ "/".intercalate xs)

def cellOutcome (r : Outcome Cell) : String :=
  match r with
  | .ok c => "ok " ++ cellOut c
  | .err _ => "err"
  | .panic _ => "panic"

/-- sign parameter of the model: the harness supplies the Ed25519 signature of the digest -/
def fixedSign (sig : List UInt8) : List UInt8 → List UInt8 → List UInt8 := fun _ _ => sig

def optCellArg (s : String) : Option (Option Cell) := if s == "-" then some none else (cellArg s).map some

/-- a comment: `-` followed by the hex of its bytes -/
def commentArg (s : String) : Option (List UInt8) :=
  if s == "-" then some [] else if s.startsWith "-" then Tongo.Hex.decode (s.drop 1).toString else none

def optHashOut : Option Cell → String
  | none => "-"
  | some c => hashOut c

/-- extra currencies: `-` or `id:amount+id:amount…` (ids as uint32) -/
def extrasArg (s : String) : Option (List (Nat × Nat)) :=
  if s == "-" then some []
  else (s.splitOn "+").mapM fun it =>
    match it.splitOn ":" with
    | [a, b] => do
      let a ← a.toNat?
      let b ← b.toNat?
      pure (a, b)
    | _ => none

def extrasOut (l : List (Nat × Nat)) : String :=
  if l.isEmpty then "" else " x=" ++ "+".intercalate (l.map fun p => s!"{p.1}:{p.2}")

def intMsgOut (m : IntMsg) : String :=
  let dest := match m.dest with
    | some (wc, a) => s!"{wc}:{hexOut (Tongo.Bits.bitsToBytes a)}"
    | none => "none"
  let b (x : Bool) := if x then "1" else "0"
  s!"ok {b m.bounce} {dest} {m.amount} {b m.hasInit} {optHashOut m.init.code} {optHashOut m.init.data} {hashOut m.body}" ++ extrasOut m.extra

def opsC14 : List (String × Handler) := [
  -- m.int <kind s|m|d> <amount> <wc> <addrhex> <bounce> <mode> <-commenthex> <body|-> <code|-> <data|-> <extras|->
  --   ToInternal + tlb.Marshal of SimpleTransfer / Message / ContractDeploy: "ok <mode> <canonical internal message>"
  ("m.int", fun
    | [kind, amount, wc, addr, bounce, mode, comment, body, code, data, extras] =>
      match amount.toNat?, wc.toInt?, hexArg addr, mode.toNat?, commentArg comment, optCellArg body, optCellArg code, optCellArg data, extrasArg extras with
      | some amount, some wc, some addr, some mode, some comment, some body, some code, some data, some extras =>
        let dest : Address := { workchain := wc, hash := addr }
        let m : Outcome OutMsg :=
          if kind == "s" then .ok (simpleTransfer amount dest comment (bounce == "1") extras)
          else if kind == "m" then
            .ok { bounce := bounce == "1", dest := dest, amount := amount, body := body, code := code, data := data, mode := mode }
          else if kind == "d" then contractDeploy sha256 wc code data body amount
          else .err "kind"
        match m.bind (fun m => (internalMsg m).bind fun c => .ok (m.mode, c)) with
        | .ok (mode, c) => s!"ok {mode} {cellOut c}"
        | .err _ => "err"
        | .panic _ => "panic"
      | _, _, _, _, _, _, _, _, _ => "bad-op"
    | _ => "bad-op"),
  -- m.intdec <msg>    tlb.Unmarshal of an internal message: bounce, destination, amount, init (code hash, data hash), body hash
  ("m.intdec", fun
    | [msg] =>
      match cellArg msg with
      | some msg =>
        match decodeInternal msg with
        | .ok m => intMsgOut m
        | .err e => if e.startsWith "unmodelled" then "unmodelled" else "err"
        | .panic _ => "panic"
      | none => "bad-op"
    | _ => "bad-op"),
  -- m.body <ver> <seed> <wc|_> <sub|_> <net|_> <op> <seqno> <validUntil> <rnd> <sig> <msgs> <specs>
  --   the signed body cell of createSignedMsgBodyCell: "ok <digest> <canonical body>"
  ("m.body", fun
    | [ver, _seed, wc, sub, net, op, seqno, vu, rnd, sig, msgs, _specs] =>
      match ver.toNat?, optIntArg wc, optNatArg sub, optIntArg net, op.toNat?, seqno.toNat?, vu.toNat?, rnd.toNat?, hexArg sig, parseMsgs msgs with
      | some ver, some wc, some sub, some net, some op, some seqno, some vu, some rnd, some sig, some msgs =>
        match Version.ofGoIndex? ver with
        | none => "bad-op"
        | some v =>
          let ids := bodyIds v (walletOpts wc sub net)
          match signedCell v ids op seqno vu rnd msgs with
          | .err _ => "err"
          | .panic _ => "panic"
          | .ok c =>
            match c.hashO? sha256 with
            | .err _ => "err"
            | .panic _ => "panic"
            | .ok digest =>
              match attachSignature v sig c with
              | .ok b => s!"ok {hexOut digest} {cellOut b}"
              | .err _ => "err"
              | .panic _ => "panic"
      | _, _, _, _, _, _, _, _, _, _ => "bad-op"
    | _ => "bad-op"),
  -- m.bodyx <seed> <wc|_> <net|_> <op> <seqno> <validUntil> <sig> <msgs> <exts>
  --   walletV5R1.CreateSignedMsgBodyCell with extended actions: "ok <digest> <canonical body>"
  ("m.bodyx", fun
    | [_seed, wc, net, op, seqno, vu, sig, msgs, exts] =>
      match optIntArg wc, optIntArg net, op.toNat?, seqno.toNat?, vu.toNat?, hexArg sig, parseMsgs msgs, extsArg exts with
      | some wc, some net, some op, some seqno, some vu, some sig, some msgs, some exts =>
        let ids := bodyIds .v5r1 (walletOpts wc none net)
        match signedCellV5Ext ids op seqno vu msgs exts with
        | .err _ => "err"
        | .panic _ => "panic"
        | .ok c =>
          match c.hashO? sha256 with
          | .ok digest =>
            (match attachSignature .v5r1 sig c with
            | .ok b => s!"ok {hexOut digest} {cellOut b}"
            | .err _ => "err"
            | .panic _ => "panic")
          | .err _ => "err"
          | .panic _ => "panic"
      | _, _, _, _, _, _, _, _ => "bad-op"
    | _ => "bad-op"),
  -- m.extn <queryId> <msgs|n> <exts>   the body `extension_action#6578746e …` marshalled from wallet.MessageV5
  ("m.extn", fun
    | [q, msgs, exts] =>
      match q.toNat?, (if msgs == "n" then some none else (parseMsgs msgs).map some), extsArg exts with
      | some q, some msgs, some exts => cellOutcome (extensionBody q msgs exts)
      | _, _, _ => "bad-op"
    | _ => "bad-op"),
  -- m.raw <ver> <seed> <pk> <wc|_> <sub|_> <net|_> <code|-> <init 0|1> <seqno> <validUntil> <rnd> <sig> <msgs>
  --   RawSendV2: the external message that reaches SendMessage: "ok <canonical message>" | "err sent=0" | …
  ("m.raw", fun
    | [ver, _seed, pk, wc, sub, net, code, init, seqno, vu, rnd, sig, msgs] =>
      match ver.toNat?, hexArg pk, optIntArg wc, optNatArg sub, optIntArg net, cellArg code, seqno.toNat?, vu.toNat?, rnd.toNat? with
      | some ver, some pk, some wc, some sub, some net, some code, some seqno, some vu, some rnd =>
        match Version.ofGoIndex? ver, hexArg sig, parseMsgs msgs with
        | some v, some sig, some msgs =>
          -- the message-level send model (TongoModel/WalletSendMsg.lean): guard, build, SendMessage (no error, no waiting)
          let cfg : SendCfg := { H := sha256, sign := fixedSign sig, sk := [], pk := pk, code := code, v := v, o := walletOpts wc sub net }
          let sc : Script := { acct := .ok .none, sendErr := false, polls := [] }
          let r := rawSendV2Msg cfg (fun _ _ _ => false) seqno vu rnd msgs (init == "1") sc 0
          let tag := match r.outcome with | .ok _ => "ok" | .err _ => "err" | .panic _ => "panic"
          match r.sent with
          | some m => s!"{tag} sent=1 {cellOut m}"
          | none => s!"{tag} sent=0"
        | _, _, _ => "bad-op"
      | _, _, _, _, _, _, _, _, _ => "bad-op"
    | _ => "bad-op"),
  -- m.decode <ver> <msg>     Decode…/ExtractRawMessages on an external message cell
  ("m.decode", fun
    | [ver, msg] =>
      match ver.toNat?, cellArg msg with
      | some ver, some msg =>
        match Version.ofGoIndex? ver with
        | none => "bad-op"
        | some v =>
          match decodeMessage v msg with
          | .ok d => decodedOut d
          | .err e => if e.startsWith "unmodelled" then "unmodelled" else "err"
          | .panic _ => "panic"
      | _, _ => "bad-op"
    | _ => "bad-op"),
  -- m.verify <ver> <msg> <pk> <verdict>   VerifySignature; <verdict> = ed25519.Verify(pk, digest, sig) supplied by the
  --   harness for the digest and signature printed in the answer
  ("m.verify", fun
    | [ver, msg, pk, verdict] =>
      match ver.toNat?, cellArg msg, hexArg pk with
      | some ver, some msg, some pk =>
        match Version.ofGoIndex? ver with
        | none => "bad-op"
        | some v =>
          match verifierOf v with
          | none => "err"
          | some sigLast =>
            match decodeExtMessage msg with
            | .err e => if e.startsWith "unmodelled" then "unmodelled" else "err"
            | .panic _ => "panic"
            | .ok m =>
              match splitSignature sha256 sigLast m.body with
              | .err _ => "err"
              | .panic _ => "panic"
              | .ok (digest, sig) =>
                match edVerify (fun _ _ _ => verdict == "1") pk digest sig with
                | .ok true => s!"ok 1 {hexOut digest} {hexOut sig}"
                | .ok false => s!"ok 0 {hexOut digest} {hexOut sig}"
                | .err _ => "err"
                | .panic _ => "panic"
      | _, _, _ => "bad-op"
    | _ => "bad-op")
]

end Driver
