import Driver.Proto
import TongoModel.TlbSchema
import TongoModel.Tlb.Enc
import TongoModel.Tlb.Dec
/-! Line handlers of the TL-B half of property C09: the schema text travels in the line (hex), is parsed by
`TlbSchema.parse`;
  tlbs.desc <schema> <Type>          → ok <descriptor text of goBody> <Go field names>      (what the generator must emit)
  tlbs.enc  <schema> <Type> <val>    → ok <cell table> | err       (what the declaration prescribes: specChunk)
  tlbs.dec  <schema> <Type> <table>  → ok <val> | err              (reflection decoder model on goTy)
  tlbs.ok   <schema>                 → ok <in subset 0/1> <descriptors well-formed for the round trip 0/1> -/
namespace Driver
open Tongo Tongo.Tlb Tongo.TlbSchema

private def tsFuel : Nat := 100000

private def tsSchema (h : String) : Option TSchema :=
  (hexArg h).bind fun bs => (String.fromUTF8? (ByteArray.mk bs.toArray)).bind parse

private def tagTxt : Option Tag → String
  | some t => s!"({t.len}|{t.val})"
  | none => "~"

private def ftTxt : FieldTag → String
  | .plain => ":p" | .ref => ":r" | .maybe => ":m" | .maybeRef => ":mr" | .bad => ":bad"

private def primTxt : Prim → String
  | .varUint n => s!"(:P|:varUint|{n})"
  | .bigUint n => s!"(:P|:bigUint|{n})"
  | .bigInt n => s!"(:P|:bigInt|{n})"
  | .grams => "(:P|:grams)"
  | .msgAddress => "(:P|:msgAddress)"
  | .any => "(:P|:any)"
  | _ => "(:P|:other)"

mutual
private partial def tyTxt (names : List String) : Ty → String
  | .uint n => s!"(:u|{n})"
  | .int n => s!"(:i|{n})"
  | .bool => ":b"
  | .bytes n => s!"(:y|{n})"
  | .cell => ":c"
  | .ptr m t => s!"(:p|{if m then "T" else "F"}|{tyTxt names t})"
  | .struct fs => "(:s" ++ fieldsTxt names fs ++ ")"
  | .sum cs => "(:+" ++ ctorsTxt names cs ++ ")"
  | .named id => s!"(:n|:{names.getD id "?"})"
  | .magic t => s!"(:g|{tagTxt t})"
  | .maybe t => s!"(:?|{tyTxt names t})"
  | .either l r => s!"(:e|{tyTxt names l}|{tyTxt names r})"
  | .eitherRef t => s!"(:er|{tyTxt names t})"
  | .refT t => s!"(:^|{tyTxt names t})"
  | .prim p => primTxt p
  | .dictE k t => s!"(:de|{tyTxt names k}|{tyTxt names t})"
  | _ => "(:o|:unsupported)"
private partial def fieldsTxt (names : List String) : Fields → String
  | .nil => ""
  | .cons _ ft t rest => s!"|({ftTxt ft}|{tyTxt names t})" ++ fieldsTxt names rest
private partial def ctorsTxt (names : List String) : Ctors → String
  | .nil => ""
  | .cons n tg t rest => s!"|(:{n}|{tagTxt tg}|{tyTxt names t})" ++ ctorsTxt names rest
end

/-- Go field names the generator must use (CamelCase of the schema names; `Magic` for the tag of a single constructor) -/
private def fieldNamesTxt (cs : List TDecl) : String :=
  let one := fun (d : TDecl) (magic : Bool) =>
    ",".intercalate ((if magic then ["Magic"] else []) ++ d.fields.map (fun f => camel f.name))
  match cs with
  | [d] => "{" ++ one d (!d.tag.isEmpty) ++ "}"
  | _ => ";".intercalate (cs.map fun d => camel d.ctor ++ "{" ++ one d false ++ "}")

private def chunkCell (c : Spec.Chunk) : Cell := .mk 0 0 c.1 c.2

/-- every cell of the tree respects 1023 bits / 4 references -/
private partial def cellFits : Cell → Bool
  | .mk _ _ bits refs => bits.length ≤ cellBits && refs.length ≤ cellRefs && refs.all cellFits

def opsTlbSchema : List (String × Handler) := [
  ("tlbs.ok", fun
    | [sh] => match tsSchema sh with
      | some S => s!"ok {if S.ok then 1 else 0} {if envOk S.goEnv S.goBodies then 1 else 0}"
      | none => "err"
    | _ => "bad-op"),
  ("tlbs.desc", fun
    | [sh, ty] => match tsSchema sh with
      | some S =>
        if S.typeNames.contains ty then
          s!"ok {tyTxt S.typeNames (goBody S.typeNames (S.ctorsOf ty))} {fieldNamesTxt (S.ctorsOf ty)}"
        else "err"
      | none => "bad-op"
    | _ => "bad-op"),
  -- a declaration of abi/schemas against the checked-in struct: message bodies are generated without the Magic field
  ("tlbs.absdesc", fun
    | [sh, ty, _, sm] => match tsSchema sh with
      | some S =>
        if S.typeNames.contains ty then
          let cs := S.ctorsOf ty
          let cs' := if sm == "1" then cs.map (fun d => { d with tag := ([] : List Bool) }) else cs
          match sm == "1", cs with
          | true, [_] => s!"ok {tyTxt S.typeNames (goBody S.typeNames cs')} {fieldNamesTxt cs'}"
          | _, _ => s!"ok {tyTxt S.typeNames (goBody S.typeNames cs)} {fieldNamesTxt cs}"
        else "err"
      | none => "err"
    | _ => "bad-op"),
  ("tlbs.enc", fun
    | [sh, ty, val] => match tsSchema sh, SExp.parse val with
      | some S, some v =>
        if !S.typeNames.contains ty then "bad-op" else
        let spec := Spec.specChunk S.specEnv tsFuel (.named ty) v
        let impl := encode S.goEnv tsFuel (.named (idxOf S.typeNames ty)) v Builder.empty
        match spec, impl with
        | some c, .ok b =>
          -- tlb_schema_sound: the two agree; reported if they ever do not
          if SExp.cellToString (chunkCell c) == SExp.cellToString b.toCell then "ok " ++ SExp.cellToString (chunkCell c)
          else "model-disagree"
        | some c, _ =>
          -- prescribed by the schema but refused by the codec: only a cell overflow (1023 bits / 4 references)
          if !cellFits (chunkCell c) then "err" else "model-disagree"
        | none, _ => "err"
      | _, _ => "bad-op"
    | _ => "bad-op"),
  ("tlbs.dec", fun
    | [sh, ty, tbl] => match tsSchema sh, SExp.cellOfString tbl with
      | some S, some c =>
        if !S.typeNames.contains ty then "bad-op" else
        match decode S.goEnv tsFuel (.named (idxOf S.typeNames ty)) (Slice.ofCell c) with
        | .ok (v, _) => "ok " ++ SExp.toString v
        | .err _ => "err"
        | .panic _ => "panic"
      | _, _ => "bad-op"
    | _ => "bad-op")
]

end Driver
