import Driver.Proto
import TongoModel.Tl.Codec
/-! Text form of TL values shared with the Go harness (harness/tlmini/values.go):
`123` · `x0a0b` · `T`/`F` · `u` · `_` · `{v,…}` · `@ctor{v,…}` · `[v,…]`. Driver-only code (not used by theorems). -/
namespace Driver.TlVal
open Tongo.Tl

def hexNib (n : Nat) : Char := if n < 10 then Char.ofNat (48 + n) else Char.ofNat (87 + n)

def pushHex (acc : String) (bs : List UInt8) : String :=
  bs.foldl (fun s b => (s.push (hexNib (b.toNat / 16))).push (hexNib (b.toNat % 16))) acc

mutual
partial def printTo (acc : String) : Val → String
  | .num n => acc ++ toString n
  | .raw bs => pushHex (acc.push 'x') bs
  | .bool b => acc.push (if b then 'T' else 'F')
  | .unit => acc.push 'u'
  | .absent => acc.push '_'
  | .tuple fs => (printList (acc.push '{') fs).push '}'
  | .sum c fs => (printList ((acc.push '@') ++ c |>.push '{') fs).push '}'
  | .vec items => (printList (acc.push '[') items).push ']'
partial def printList (acc : String) : List Val → String
  | [] => acc
  | [v] => printTo acc v
  | v :: vs => printList ((printTo acc v).push ',') vs
end

def print (v : Val) : String := printTo "" v

def nib? (c : Char) : Option Nat :=
  let n := c.toNat
  if 48 ≤ n ∧ n ≤ 57 then some (n - 48) else if 97 ≤ n ∧ n ≤ 102 then some (n - 87) else none

partial def readHex (acc : Array UInt8) : List Char → Option (List UInt8 × List Char)
  | a :: b :: r =>
    match nib? a, nib? b with
    | some x, some y => readHex (acc.push (UInt8.ofNat (x * 16 + y))) r
    | none, _ => some (acc.toList, a :: b :: r)
    | _, none => none
  | [a] => if (nib? a).isSome then none else some (acc.toList, [a])
  | [] => some (acc.toList, [])

partial def readNum (acc : Nat) : List Char → Nat × List Char
  | c :: r => if c.isDigit then readNum (acc * 10 + (c.toNat - 48)) r else (acc, c :: r)
  | [] => (acc, [])

mutual
private partial def parseVal : List Char → Option (Val × List Char)
  | [] => none
  | c :: r =>
    if c.isDigit then
      let (n, r') := readNum 0 (c :: r)
      some (.num n, r')
    else if c == 'x' then (readHex #[] r).map (fun (bs, r') => (.raw bs, r'))
    else if c == 'T' then some (.bool true, r)
    else if c == 'F' then some (.bool false, r)
    else if c == 'u' then some (.unit, r)
    else if c == '_' then some (.absent, r)
    else if c == '{' then (parseList '}' #[] r).map (fun (vs, r') => (.tuple vs, r'))
    else if c == '[' then (parseList ']' #[] r).map (fun (vs, r') => (.vec vs, r'))
    else if c == '@' then
      let name := r.takeWhile (· != '{')
      match r.dropWhile (· != '{') with
      | _ :: r' => (parseList '}' #[] r').map (fun (vs, r'') => (.sum (String.ofList name) vs, r''))
      | [] => none
    else none
partial def parseList (close : Char) (acc : Array Val) : List Char → Option (List Val × List Char)
  | [] => none
  | c :: r =>
    if c == close && acc.isEmpty then some ([], r)
    else
      match parseVal (c :: r) with
      | some (v, d :: r') =>
        if d == close then some ((acc.push v).toList, r')
        else if d == ',' then parseList close (acc.push v) r'
        else none
      | _ => none
end

def parse (s : String) : Option Val :=
  match parseVal s.toList with
  | some (v, []) => some v
  | _ => none

end Driver.TlVal
