import Driver.Proto
import TongoModel.Tlb.OpBody
import TongoModel.Tlb.TyText
import TongoModel.Tlb.SExp
/-! Line handlers of the opcode-tagged bodies of package abi (property C03):
  abi.dec <kind> <table> <env> <cell table>  → ok <val> | err | panic
  abi.enc <kind> <table> <env> <val>         → ok <canonical table> | err | panic
  kind: in | extin | extout (message bodies) | jetton | nft (payload unions)
  table: the layouts registered for the opcode(s) in question, as the constructor list of a sum type
         `(:+|(:Name|(32|opcode)|ty)|…)` in table order (the dispatch looks at the entries of one opcode only) -/
namespace Driver
open Tongo Tongo.Tlb

private def abiFuel : Nat := 1000000

private def abiOutcome {α} (f : α → String) : Outcome α → String
  | .ok a => "ok " ++ f a
  | .err _ => "err"
  | .panic _ => "panic"

private def abiTable (s : String) : Option Ctors :=
  match TyText.parseTy s with
  | some (.sum cs) => some cs
  | _ => none

def opsAbi : List (String × Handler) := [
  ("abi.dec", fun
    | [kind, tab, env, tbl] =>
      match abiTable tab, TyText.parseEnv env, SExp.cellOfString tbl with
      | some cs, some e, some c =>
        let s := Slice.ofCell c
        let r := if kind == "jetton" || kind == "nft" then decodePayload e abiFuel cs s
          else decodeOpBody e abiFuel (kind == "extout") cs s
        abiOutcome (fun r => SExp.toString r.1) r
      | _, _, _ => "bad-op"
    | _ => "bad-op"),
  ("abi.enc", fun
    | [kind, tab, env, val] =>
      match abiTable tab, TyText.parseEnv env, SExp.parse val with
      | some cs, some e, some v =>
        let r := if kind == "jetton" || kind == "nft" then encodePayload e abiFuel cs v Builder.empty
          else encodeOpBody e abiFuel cs v Builder.empty
        abiOutcome (fun b => SExp.cellToString b.toCell) r
      | _, _, _ => "bad-op"
    | _ => "bad-op")
]

end Driver
