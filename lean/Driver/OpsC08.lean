import Driver.Proto
import TongoModel.TlDecode
import TongoModel.Helpers08
/-! Line handlers for property C08 (totality of decoders on untrusted input). The TL decoder is run in its repaired
configuration `Cfg.fixed`: it must agree with the current source. -/
namespace Driver
open Tongo Tongo.TlD Tongo.Helpers

def cls {α} : Outcome α → String
  | .ok _ => "ok" | .err _ => "err" | .panic _ => "panic"

/-- the Go-side budget: 64·|input| + 1 MiB -/
def allocClass (alloc n : Nat) : String := if alloc > 64 * n + 2 ^ 20 then "big" else "small"

def tupleOfLen : Nat → Tuple
  | 0 => .nil
  | n + 1 => .node (match n with
      | 0 => .empty
      | 1 => .entry .other
      | _ => .ref (tupleOfLen n)) .other

def opsC08 : List (String × Handler) := [
  ("tld.dec", fun
    | [_, d, hx] => match parseTy d, hexArg hx with
      | some ty, some bs =>
        let (o, st) := run Cfg.fixed ty bs
        match o with
        | .panic _ => "panic"
        | o => s!"{cls o} {bs.length - st.rest.length} {allocClass st.alloc bs.length}"
      | _, _ => "bad-op"
    | _ => "bad-op"),
  ("tld.consts", fun
    | [_, d] => match parseTy d with
      | some ty => (if ty.wf then "ok wf " else "ok notwf ") ++ ty.show
      | none => "bad-op"
    | _ => "bad-op"),
  -- not compared: the constants of tl_decode_alloc / tl_decode_steps for a descriptor (used for the report)
  ("tld.bounds", fun
    | [d] => match parseTy d with
      | some ty => s!"{ty.allocA} {ty.allocB} {ty.stepK} {ty.stepS}"
      | none => "bad-op"
    | _ => "bad-op"),
  ("tld.reqdec", fun
    | [d, hx] => match hexArg hx with
      | some bs =>
        let ty? := if d == "-" then some none else (parseTy d).map some
        match ty? with
        | none => "bad-op"
        | some ty => match liteapiRequestDecoder Cfg.fixed (fun _ => ty) bs with
          | .ok (tag, known) => s!"ok {tag} {if known then 1 else 0}"
          | .err _ => "err"    -- len(b) < 4
          | .panic _ => "panic"
      | none => "bad-op"
    | _ => "bad-op"),
  ("tld.len", fun
    | [hx] => match hexArg hx with
      | some bs => match decodeLength bs with
        | .ok (l, off) => s!"ok {l} {off}"
        | .err _ => "err"
        | .panic _ => "panic"
      | none => "bad-op"
    | _ => "bad-op"),
  ("tld.pqa", fun
    | [k, hx] => match hexArg hx with
      | some bs => match processQueryAnswer bs (k == "1") with
        | .ok d => "ok " ++ hexOut d
        | .err _ => "err"
        | .panic _ => "panic"
      | none => "bad-op"
    | _ => "bad-op"),
  ("h.firstroot", fun
    | [n] => match n.toNat? with
      | some n => if (firstRoot true n).isPanic then "panic" else "ok"
      | none => "bad-op"
    | _ => "bad-op"),
  ("h.vmstack", fun
    | [nf, l] => match nf.toNat?, l.toNat? with
      | some nf, some l => match vmStackFieldSources nf l with
        | .ok src => "ok " ++ (if src.isEmpty then "-" else ",".intercalate (src.map toString))
        | o => cls o
      | _, _ => "bad-op"
    | _ => "bad-op"),
  ("h.tuple", fun
    | [l, nf] => match l.toNat?, nf.toNat? with
      | some l, some nf => cls (tupleUnmarshalStruct true l (tupleOfLen l) nf)
      | _, _ => "bad-op"
    | _ => "bad-op"),
  ("h.vmslice", fun args => match args.mapM String.toNat? with
    | some [bits, refs, st, en, sr, er] =>
      -- VmCellSlice.UnmarshalTLB: the reference exists (the harness always adds it), then the four checks in order
      if st > en then "err" else if sr > er then "err" else if en > bits then "err" else if er > refs then "err"
      else match (VmCellSlice.mk (some (bits, refs)) st en sr er).toCell with
        | .ok (b, r) => s!"ok {b} {r}"
        | .err _ => "err"
        | .panic _ => "panic"
    | _ => "bad-op")
]

end Driver
