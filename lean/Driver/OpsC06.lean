import Driver.Proto
import TongoModel.BitOps
import TongoModel.CellSeq
/-! Line handlers for property C06 (bit strings and cell read/write primitives).

`bs.seq <cap> <item;item;…>`     run the items on `NewBitString(cap)`; answer: one result per item, then
                                 `| len availWrite availRead hex(buffer[:⌈len/8⌉])`
`bs.spec <cap> <item;…>`        the same sequence on the ideal bit list (only well-formed `Op`s)
`bs.grid <hex> <width> <lo> <hi>` ReadUint / PickUint / ReadInt of `width` bits at every offset lo..hi of the buffer
`bs.fromfift <text>`             BitStringFromFiftHex
`bs.cell <init> <item;…>`       items on a cell: `-` = NewCell(), `p<bits>` = a cell parsed from a BOC holding these bits
`bs.minbits <n>`                 minBitsRequired -/
namespace Driver
open Tongo Tongo.BitString

inductive Item where
  | op (o : Op)
  | zop (z : ZOp)
  | fift
  | topUp
  | on (n : Int)
  | off (n : Int)
  | setTop (arr : List UInt8) (full : Bool)
  | avail
  -- cell items
  | addRef (bits : List Bool)
  | nextRef
  | resetCounters
  | copyRemaining

def binArg (s : String) : Option (List Bool) := Bits.ofBinString? s

def parseItem (tok : String) : Option Item :=
  match tok.splitOn ":" with
  | ["wb", b] => some (.op (.writeBit (b == "1")))
  | ["wa", l] => (binArg l).map fun l => .op (.writeBitArray l)
  | ["wu", v, n] => do let v ← v.toNat?; let n ← n.toInt?; pure (if n < 0 then .zop (.writeUint v n) else .op (.writeUint v n.toNat))
  | ["wi", v, n] => do let v ← v.toInt?; let n ← n.toInt?; pure (if n < 0 then .zop (.writeInt v n) else .op (.writeInt v n.toNat))
  | ["wB", b] => do let b ← b.toNat?; pure (.op (.writeByte (UInt8.ofNat b)))
  | ["wy", h] => (hexArg h).map fun l => .op (.writeBytes l)
  | ["ws", l] => (binArg l).map fun l => .op (.writeBitString (ofBits l))
  | ["ws", l, k] => do
    let l ← binArg l; let k ← k.toNat?
    pure (.op (.writeBitString { ofBits l with rCursor := k }))   -- a source of which k bits have been read
  | ["wU", v, n] => do let v ← v.toInt?; let n ← n.toInt?; pure (if n < 0 then .zop (.writeBigUint v n) else .op (.writeBigUint v n.toNat))
  | ["wI", v, n] => do let v ← v.toInt?; let n ← n.toInt?; pure (if n ≤ 0 then .zop (.writeBigInt v n) else .op (.writeBigInt v n.toNat))
  | ["wn", n] => do let n ← n.toNat?; pure (.op (.writeUnary n))
  | ["wl", v, n] => do let v ← v.toInt?; let n ← n.toInt?; pure (if v < 0 ∨ n < 0 then .zop (.writeLimUint v n) else .op (.writeLimUint v.toNat n.toNat))
  | ["rb"] => some (.op .readBit)
  | ["sk", n] => do let n ← n.toInt?; pure (if n < 0 then .zop (.skip n) else .op (.skip n.toNat))
  | ["ru", n] => do let n ← n.toInt?; pure (if n < 0 then .zop (.readUint n) else .op (.readUint n.toNat))
  | ["pu", n] => do let n ← n.toInt?; pure (if n < 0 then .zop (.pickUint n) else .op (.pickUint n.toNat))
  | ["ri", n] => do let n ← n.toInt?; pure (if n < 0 then .zop (.readInt n) else .op (.readInt n.toNat))
  | ["rB"] => some (.op .readByte)
  | ["ry", n] => do let n ← n.toInt?; pure (if n < 0 then .zop (.readBytes n) else .op (.readBytes n.toNat))
  | ["rs", n] => do let n ← n.toInt?; pure (if n < 0 then .zop (.readBits n) else .op (.readBits n.toNat))
  | ["rr"] => some (.op .readRemainingBits)
  | ["rU", n] => do let n ← n.toInt?; pure (if n < 0 then .zop (.readBigUint n) else .op (.readBigUint n.toNat))
  | ["rI", n] => do let n ← n.toInt?; pure (if n < 0 then .zop (.readBigInt n) else .op (.readBigInt n.toNat))
  | ["rn"] => some (.op .readUnary)
  | ["rl", n] => do let n ← n.toInt?; pure (if n < 0 then .zop (.readLimUint n) else .op (.readLimUint n.toNat))
  | ["rc"] => some (.op .resetCounter)
  | ["gr", n] => do let n ← n.toNat?; pure (.op (.grow n))
  | ["ap", l] => (binArg l).map fun l => .op (.append (ofBits l))
  | ["ap", l, k] => do
    let l ← binArg l; let k ← k.toNat?
    pure (.op (.append { ofBits l with rCursor := k }))
  | ["cp"] => some (.op .copy)
  | ["fh"] => some .fift
  | ["gt"] => some .topUp
  | ["on", n] => do let n ← n.toInt?; pure (.on n)
  | ["off", n] => do let n ← n.toInt?; pure (.off n)
  | ["st", h, f] => (hexArg h).map fun l => .setTop l (f == "1")
  | ["av"] => some .avail
  | ["ar", l] => (binArg l).map fun l => .addRef l
  | ["nr"] => some .nextRef
  | ["rC"] => some .resetCounters
  | ["cr"] => some .copyRemaining
  | _ => none

def parseItems (s : String) : Option (List Item) :=
  if s == "-" then some [] else (s.splitOn ";").mapM parseItem

/-- observable part of a bit string: len, BitsAvailableForWrite, BitsAvailableForRead, Buffer()[:⌈len/8⌉] -/
def showState (s : BitString) : String :=
  s!"{s.len} {s.bitsAvailableForWrite} {s.bitsAvailableForRead} {hexOut (s.buf.take ((s.len + 7) / 8))}"

def showBs (r : BitString) : String :=
  s!"{r.len}/{r.bitsAvailableForWrite}/{hexOut (r.buf.take ((r.len + 7) / 8))}"

def showOut : Out → String
  | .unit => "ok"
  | .bool b => if b then "ok:1" else "ok:0"
  | .nat n => s!"ok:{n}"
  | .int i => s!"ok:{i}"
  | .bytes l => "ok:" ++ hexOut l
  | .bs r => "ok:" ++ showBs r
  | .bits l => s!"ok:{l.length}/0/{hexOut (Bits.bitsToBytes l)}"

def showRes : Outcome String → String
  | .ok s => s
  | .err _ => "err"
  | .panic _ => "panic"

/-- one item on a bit string -/
def runItem : Item → M String
  | .op o => do let r ← o.run; pure (showOut r)
  | .fift => do let s ← get; let r ← liftO (toFiftHex s); pure ("ok:" ++ String.ofList r)
  | .topUp => do let s ← get; let r ← liftO (getTopUppedArray s); pure ("ok:" ++ hexOut r)
  | .zop z => do let r ← z.run; pure (showOut r)
  | .on n => do let r ← ZOp.onOff true n; pure (showOut r)
  | .off n => do let r ← ZOp.onOff false n; pure (showOut r)
  | .setTop arr f => do BitString.setTopUppedArray arr f; pure "ok"
  | .avail => do let s ← get; pure s!"ok:{s.bitsAvailableForWrite}/{s.bitsAvailableForRead}"
  | _ => pure "bad"

def runItems : List Item → BitString → List String × Option BitString
  | [], s => ([], some s)
  | it :: rest, s =>
    match runItem it s with
    | (.panic _, _) => (["panic"], none)
    | (r, s') => let (rs, f) := runItems rest s'; (showRes r :: rs, f)

def answer (rs : List String) (final : String) : String :=
  " ".intercalate (rs ++ ["|", final])

def seqHandler : Handler
  | [c, items] => match c.toNat?, parseItems items with
    | some cap, some its =>
      let (rs, f) := runItems its (BitString.new cap)
      answer rs (match f with | some s => showState s | none => "panic")
    | _, _ => "bad-op"
  | _ => "bad-op"

def showIdeal (t : Ideal) : String :=
  s!"{t.bits.length} {(t.cap : Int) - t.bits.length} {(t.bits.length : Int) - t.pos} {hexOut (Bits.bitsToBytes t.bits)}"

def specHandler : Handler
  | [c, items] => match c.toNat?, parseItems items with
    | some cap, some its =>
      match its.mapM (fun | .op o => if o.WF then some (ZOp.op o) else none
                          | .zop z => if z.WF then some z else none
                          | _ => none) with
      | some ops =>
        let (rs, t) := ZOp.specAll ops ⟨[], cap, 0⟩
        answer (rs.map fun r => showRes (match r with | .ok o => .ok (showOut o.norm) | .err e => .err e | .panic p => .panic p)) (showIdeal t)
      | none => "bad-op"
    | _, _ => "bad-op"
  | _ => "bad-op"

/-- ReadUint / PickUint / ReadInt of `w` bits at offset `off` of `s0` -/
def gridAt (s0 : BitString) (w off : Nat) : String :=
  let start : M Unit := do resetCounter; skip off
  let one {α} (x : M α) (sh : α → String) : String :=
    match (do start; x) s0 with
    | (.ok v, s) => s!"{sh v}:{s.bitsAvailableForRead}"
    | (.err _, s) => s!"e:{s.bitsAvailableForRead}"
    | (.panic _, _) => "p"
  one (readUint w) toString ++ "," ++ one (pickUint w) toString ++ "," ++ one (readInt w) toString

def gridHandler : Handler
  | [h, w, lo, hi] => match hexArg h, w.toNat?, lo.toNat?, hi.toNat? with
    | some buf, some w, some lo, some hi =>
      match setTopUppedArray buf true (BitString.new 0) with
      | (.ok _, s0) => " ".intercalate ((List.range (hi + 1 - lo)).map fun k => gridAt s0 w (lo + k))
      | _ => "bad-op"
    | _, _, _, _ => "bad-op"
  | _ => "bad-op"

def fromFiftHandler : Handler := fun args =>
  let str := match args with | [] => some "" | [s] => some s | _ => none
  match str with
  | none => "bad-op"
  | some str => match fromFiftHex str.toList with
    | .ok s => "ok " ++ showState s
    | .err _ => "err"
    | .panic _ => "panic"

/-! cells -/

def showCell (c : MCell) : String :=
  s!"{showState c.bits} {c.refs.length} {c.refsAvailableForRead}"

/-- a reference cell carrying marker bits -/
def refCell (l : List Bool) : MCell :=
  MCell.mk (Op.runAll [.writeBitArray l] (BitString.new MCell.cellBits)).2 [] 0

def cellItem (it : Item) (c : MCell) : Outcome String × MCell :=
  match it with
  | .addRef l => match c.addRef (refCell l) with
    | (.ok _, c') => (.ok "ok", c')
    | (.err e, c') => (.err e, c')
    | (.panic p, c') => (.panic p, c')
  | .nextRef => match c.nextRef with
    | (.ok r, c') => (.ok ("ok:" ++ showBs r.bits ++ s!"/{r.bits.bitsAvailableForRead}"), c')
    | (.err e, c') => (.err e, c')
    | (.panic p, c') => (.panic p, c')
  | .resetCounters => (.ok "ok", c.resetCounters)
  | .copyRemaining => match c.copyRemaining with
    | (.ok c2, c') =>
      let rs := c2.refs.map fun r => "/" ++ showBs r.bits ++ s!":{r.bits.bitsAvailableForRead}"
      (.ok ("ok:" ++ showBs c2.bits ++ s!"/{c2.bits.bitsAvailableForRead}/{c2.refs.length}/{c2.refsAvailableForRead}" ++ String.join rs), c')
    | (.err e, c') => (.err e, c')
    | (.panic p, c') => (.panic p, c')
  | it => match runItem it c.bits with
    | (r, b) => (r, MCell.mk b c.refs c.refCursor)

def cellItems : List Item → MCell → List String × Option MCell
  | [], c => ([], some c)
  | it :: rest, c =>
    match cellItem it c with
    | (.panic _, _) => (["panic"], none)
    | (r, c') => let (rs, f) := cellItems rest c'; (showRes r :: rs, f)

def cellInit (s : String) : Option (Outcome MCell) :=
  if s == "-" then some (.ok MCell.new)
  else if s.startsWith "p" then
    (binArg (s.drop 1).toString).map fun l =>
      match MCell.setTopUppedArray (Bits.toppedUp l) (l.length % 8 == 0) with
      | (.ok _, b) => .ok (MCell.mk b [] 0)
      | (.err e, _) => .err e
      | (.panic p, _) => .panic p
  else none

def cellHandler : Handler
  | [init, items] => match cellInit init, parseItems items with
    | some (.ok c), some its =>
      let (rs, f) := cellItems its c
      answer rs (match f with | some c => showCell c | none => "panic")
    | some (.err _), some _ => "err"
    | some (.panic _), some _ => "panic"
    | _, _ => "bad-op"
  | _ => "bad-op"

/-! cell-level sequences over a heap -/

open Tongo.CellSeq in
private def parseCellStep (tok : String) : Option (Nat × CellOp) :=
  match tok.splitOn "." with
  | [t, it] => do
    let t ← t.toNat?
    let op ← match it.splitOn ":" with
      | ["nc"] => some CellOp.newCell
      | ["ar", c] => c.toNat?.map CellOp.addRef
      | ["nf"] => some .newRef
      | ["nr"] => some .nextRef
      | ["rC"] => some .resetCounters
      | ["cr"] => some .copyRemaining
      | ["rz"] => some .refsSize
      | ["ra"] => some .refsAvailableForRead
      | ["ba"] => some .bitsAvailableForRead
      | ["bw"] => some .bitsAvailableForWrite
      | _ => match parseItem it with
        | some (.op o) => some (.bit (.op o))
        | some (.zop z) => some (.bit z)
        | _ => none
    pure (t, op)
  | _ => none

private def parseCellSteps (s : String) : Option (List (Nat × Tongo.CellSeq.CellOp)) :=
  if s == "-" then some [] else (s.splitOn ";").mapM parseCellStep

private def showRefs (refs : List Nat) (avail : Int) : String :=
  "[" ++ ",".intercalate (refs.map toString) ++ s!"] {avail}"

private def cellSeqAnswer (rs : List (Outcome Out)) (cells : List String) : String :=
  let outs := rs.map fun r => showRes (match r with | .ok o => .ok (showOut o.norm) | .err e => .err e | .panic p => .panic p)
  " ".intercalate (outs ++ ["|", " / ".intercalate cells])

open Tongo.CellSeq in
private def cellSeqHandler (spec : Bool) : Handler
  | [steps] => match parseCellSteps steps with
    | some ops =>
      if spec then
        if ops.all (fun p => decide p.2.WF) then
          let (rs, g) := runAll specI ops initSpec
          cellSeqAnswer rs (g.map fun c => showIdeal c.bits ++ " " ++ showRefs c.refs ((c.refs.length : Int) - c.refCursor))
        else "bad-op"
      else
        let (rs, h) := runAll implI ops initImpl
        let panicked := rs.any fun r => match r with | .panic _ => true | _ => false
        if panicked then cellSeqAnswer rs ["panic"]
        else cellSeqAnswer rs (h.map fun c => showState c.bits ++ " " ++ showRefs c.refs ((c.refs.length : Int) - c.refCursor))
    | none => "bad-op"
  | _ => "bad-op"

def opsC06 : List (String × Handler) := [
  ("bs.cellseq", cellSeqHandler false),
  ("bs.cellspec", cellSeqHandler true),
  ("bs.seq", seqHandler),
  ("bs.spec", specHandler),
  ("bs.grid", gridHandler),
  ("bs.fromfift", fromFiftHandler),
  ("bs.cell", cellHandler),
  ("bs.minbits", fun
    | [n] => match n.toNat? with
      | some v => toString (minBitsRequired v)
      | none => "bad-op"
    | _ => "bad-op")
]

end Driver
