import TongoModel.Tl.BindingsMatch
/-! Reader of the flat token form of extracted bindings (harness/tlbind `Text`): the same data as the Lean value
`Gen.tlBindings`, for generator output that only exists at run time (sampled schemas of property C09). -/
namespace Driver.TlBindText
open Tongo.Tl Tongo.Tl.Bind

abbrev P := StateT (List String) Option

def tok : P String := fun ts => match ts with
  | t :: r => some (t, r)
  | [] => none

def num : P Nat := do
  let t ← tok
  match t.toNat? with
  | some n => pure n
  | none => failure

def optTok : P (Option String) := do
  let t ← tok
  pure (if t == "-" then none else some t)

def many {α} (p : P α) : Nat → P (List α)
  | 0 => pure []
  | n + 1 => do
    let a ← p
    let r ← many p n
    pure (a :: r)

partial def goTy : P GoTy := do
  let t ← tok
  match t with
  | "u32" => pure .u32
  | "u64" => pure .u64
  | "int256" => pure .int256
  | "bytes" => pure .bytes
  | "str" => pure .str
  | "bool" => pure .bool
  | "named" => do let n ← tok; pure (.named n)
  | "slice" => do let e ← goTy; pure (.slice e)
  | "ptr" => do let e ← goTy; pure (.ptr e)
  | _ => failure

def structDecl : P StructDecl := do
  let k ← num
  many (do let n ← tok; let t ← goTy; pure (n, t)) k

def steps : P (List Step) := do
  let k ← num
  many (do
    let f ← optTok
    let g ← optTok
    let b ← num
    pure { field := f, guard := g.map fun flag => (flag, b) }) k

def typeEntry : P (String × Binding) := do
  let kind ← tok
  let name ← tok
  match kind with
  | "S" => do
    let st ← structDecl
    let m ← steps
    let u ← steps
    pure (name, .simple { fields := st, marshal := m, unmarshal := u })
  | "U" => do
    let nv ← num
    let vs ← many (do let v ← tok; let st ← structDecl; pure (v, st)) nv
    let nm ← num
    let ms ← many (do
      let s ← tok; let tag ← num; let v ← tok; let ss ← steps
      pure ({ sumType := s, tag := tag, variant := v, steps := ss } : MCase)) nm
    let nu ← num
    let us ← many (do
      let tag ← num; let s ← tok; let v ← tok; let ss ← steps
      pure ({ tag := tag, sumType := s, variant := v, steps := ss } : UCase)) nu
    pure (name, .sum { variants := vs, marshal := ms, unmarshal := us })
  | "G" => do
    let tag ← num
    let inner ← tok
    pure (name, .tagged tag inner)
  | _ => failure

def expect (s : String) : P Unit := do
  let t ← tok
  if t == s then pure () else failure

def bindings : P Bindings := do
  expect "T"
  let nt ← num
  let ts ← many typeEntry nt
  expect "M"
  let nm ← num
  let ms ← many (do
    let name ← tok; let rid ← num; let req ← optTok; let et ← num; let res ← tok; let rt ← optTok
    let rtn ← match rt with
      | none => pure none
      | some s => match s.toNat? with
        | some n => pure (some n)
        | none => failure
    pure ({ name := name, requestId := rid, request := req, errorTag := et, result := res, resultTag := rtn } : ClientMethod)) nm
  expect "D"
  let nd ← num
  let ds ← many (do
    let k ← num; let t ← num; let n ← tok; let g ← tok
    pure ({ key := k, tag := t, tlName := n, goType := g } : DecoderEntry)) nd
  pure { types := ts, methods := ms, decoders := ds }

def parse (s : String) : Option Bindings :=
  match bindings ((s.splitOn " ").filter (· != "")) with
  | some (b, []) => some b
  | _ => none

/-- the first declaration whose binding the matcher rejects (`none`: `agreeAll` holds) -/
def firstDisagreement (S : Schema) (B : Bindings) : Option String :=
  match (typeNames S).find? (fun t => !agreeType S B t) with
  | some t => some ("type:" ++ t)
  | none =>
    match S.funcs.find? (fun f => !agreeFuncN S B f.ctor) with
    | some f => some ("function:" ++ f.ctor)
    | none =>
      if B.decoders.length == S.funcs.length && B.methods.length == S.funcs.length then none
      else some "table-length"

end Driver.TlBindText
