import Driver.Proto
import TongoModel.BocOrder
import TongoModel.CellFmt
/-! Line handlers for the model of Go's cell ORDER (importCell / reorderCells / revisit) and of serializeBoc as a
whole (C01). -/
namespace Driver
open Tongo Tongo.Boc Tongo.CellFmt

/-- canonical id of every row reachable from `roots` (the ids `CellFmt.canon` assigns: structurally equal rows get the
same id) -/
private def canonIdsOf (t : Table) (roots : List Nat) : Option (Nat → Option Nat) := do
  let st ← roots.foldlM (fun (st : CanonState) r => do
    let (_, st') ← canonVisit t (t.size + 1) r st
    pure st') {}
  let n := st.rows.size
  pure fun i => (st.memo.get? i).map fun id => n - 1 - id

/-- de-duplication keys of the rows: the hex representation hash, as in Go (`none` = Hash() returned an error) -/
private def hashKeyArr (t : Table) : Array (Option String) :=
  (Table.infos sha256 t).map fun o =>
    match o >>= (·.hashAt 3) with
    | .ok h => some (Hex.encode h)
    | _ => none

private def idsOut (ids : List (Option Nat)) : String :=
  ".".intercalate (ids.map fun | some i => toString i | none => "?")

private def lenCrc (bs : Bytes) : String := s!"{bs.length}.{Hex.encode ((Sha256.hash bs).take 8)}"

def opsBocOrder : List (String × Handler) := [
  -- boc.order <table> -> canonical ids of the cells in the order the model of serializeBoc stores them
  ("boc.order", fun
    | [t] => match parseTable t with
      | some t => let ks := hashKeyArr t
        match Order.order t (fun i => (ks[i]?).join) [0], canonIdsOf t [0] with
        | .ok o, some ids => "ok " ++ idsOut (o.rowAt.map ids)
        | .err _, _ => "err"
        | .panic _, _ => "panic"
        | _, none => "bad-op"
      | none => "bad-op"
    | _ => "bad-op"),
  -- boc.rows <hex> -> canonical ids of the cells of a bag of cells in file order (verified reader); the Go side of
  -- boc.order reads the order Go emitted off its own bytes with it
  ("boc.rows", fun
    | [h] => match hexArg h with
      | some bs => match parseBoc bs with
        | .ok (t, roots) => match canonIdsOf t roots with
          | some ids => "ok " ++ idsOut ((List.range t.size).map ids)
          | none => "bad-table"
        | .err _ => "err"
        | .panic _ => "panic"
      | none => "bad-op"
    | _ => "bad-op"),
  -- boc.serialize <table> -> length.sha256[0:8] of the bytes of serializeBocModel for the 8 option sets
  ("boc.serialize", fun
    | [t] => match parseTable t with
      | some t =>
        let ks := hashKeyArr t
        match Order.order t (fun i => (ks[i]?).join) [0] with
        | .ok o => " ".intercalate ("ok" :: (List.range 8).map fun k =>
            lenCrc (Writer.serializeOrdered o.table o.roots (k / 4 % 2 == 1) (k / 2 % 2 == 1) (k % 2 == 1) o.cacheBits))
        | .err _ => "err"
        | .panic _ => "panic"
      | none => "bad-op"
    | _ => "bad-op"),
  -- boc.serialize.hex <table> <idx><crc><cache> -> the bytes themselves (diagnostics, small cases)
  ("boc.serialize.hex", fun
    | [t, o] => match parseTable t, o.toList with
      | some t, [i, c, k] =>
        let ks := hashKeyArr t
        match Order.serializeBocModel t (fun i => (ks[i]?).join) [0] (i == '1') (c == '1') (k == '1') with
        | .ok bs => "ok " ++ hexOut bs
        | .err _ => "err"
        | .panic _ => "panic"
      | _, _ => "bad-op"
    | _ => "bad-op")
]

end Driver
