import Driver.Proto
import TongoModel.CellFmt
import TongoModel.Message
/-! Line handlers for property C16 (message / transaction hashes). Tables are evaluated row-wise (`Table.infos`,
linear on DAGs); the message decoder and the normalised-hash builder are the functions of TongoModel/Message.lean
instantiated with row indices as references. -/
namespace Driver
open Tongo Tongo.CellFmt Tongo.Message

private def tableStore (t : Table) : Store Nat := ⟨fun i => t[i]?.map fun r => ⟨r.bits, r.refs⟩⟩

private def kidsOf (infos : Array (Outcome HashInfo)) (refs : List Nat) : Outcome (List HashInfo) :=
  refs.mapM fun r => match infos[r]? with
    | some i => i
    | none => .err "bad ref index"

private def infoKind : Info → Nat
  | .int .. => 0
  | .extIn .. => 1
  | .extOut .. => 2

private def msgHashLine (t : Table) : Outcome String := do
  let infos := Table.infos sha256 t
  let root ← match infos[0]? with
    | some i => i
    | none => .err "empty table"
  let h0 ← root.hashAt 3
  let row ← match t[0]? with
    | some r => pure r
    | none => Outcome.err "empty table"
  let m ← decodeMsg (tableStore t) ⟨row.bits, row.refs⟩
  let kids ← kidsOf infos m.body.refs
  let bi ← ordinaryInfo sha256 m.body.bits kids
  let bh ← bi.hashAt 3
  let h1 ← match m.info with
    | .extIn _ dest _ => normHashFrom sha256 dest m.body.bits kids
    | _ => pure h0
  pure s!"{hexOut h0} {hexOut h1} {infoKind m.info} {hexOut bh}"

private def msgHashHandler : Handler := fun
  | [t] => match parseTable t with
    | some tb => match msgHashLine tb with
      | .ok s => "ok " ++ s
      | .err _ => "err"
      | .panic _ => "panic"
    | none => "bad-op"
  | _ => "bad-op"

private def txHashHandler : Handler := fun
  | [t] => match parseTable t with
    | some tb => match (match (Table.infos sha256 tb)[0]? with
        | some i => i >>= (·.hashAt 3)
        | none => .err "empty table") with
      | .ok h => "ok " ++ hexOut h
      | .err _ => "err"
      | .panic _ => "panic"
    | none => "bad-op"
  | _ => "bad-op"

/-- hashes (plain, normalised) of the message in a table -/
private def msgHashes (t : Table) : Outcome (List UInt8 × List UInt8) := do
  let infos := Table.infos sha256 t
  let root ← match infos[0]? with
    | some i => i
    | none => .err "empty table"
  let h0 ← root.hashAt 3
  let row ← match t[0]? with
    | some r => pure r
    | none => Outcome.err "empty table"
  let m ← decodeMsg (tableStore t) ⟨row.bits, row.refs⟩
  let kids ← kidsOf infos m.body.refs
  let h1 ← match m.info with
    | .extIn _ dest _ => normHashFrom sha256 dest m.body.bits kids
    | _ => pure h0
  pure (h0, h1)

private def txHashOf (t : Table) : Outcome (List UInt8) :=
  match (Table.infos sha256 t)[0]? with
  | some i => i >>= (·.hashAt 3)
  | none => .err "empty table"

/-- a script over ONE reused variable (the state machine of TongoModel/Message.lean: every observation is a function
of the last decoded table): `obs` maps a read step (`s`, `h`, `n`) and the last decoded table to the observed hash -/
private def runSeq (obs : Char → Table → Outcome (List UInt8)) (script : String) (tables : List String) : String :=
  let rec go (steps : List String) (last : Option Table) (acc : List String) : String :=
    match steps with
    | [] => " ".intercalate ("ok" :: acc.reverse)
    | st :: rest =>
      match st.toList with
      | ['d', i] =>
        match tables[i.toNat - 48]? with
        | some ts => match parseTable ts with
          | some t => go rest (some t) acc
          | none => "bad-op"
        | none => "bad-op"
      | [c] =>
        match last with
        | none => go rest last acc
        | some t => match obs c t with
          | .ok h => go rest last (hexOut h :: acc)
          | .err _ => "err"
          | .panic _ => "panic"
      | _ => "bad-op"
  go (script.splitOn ".") none []

/-- the `.hasher` variants are the same model functions: a sound caching hasher reports the representation hash
(msg_hash_hasher_independent) -/
def opsC16 : List (String × Handler) := [
  ("msg.hash", msgHashHandler),
  ("msg.hash.hasher", msgHashHandler),
  -- cursors moved / hasher warmed before the decode: `msg_hash_is_cell_hash` says the answer is the same
  ("msg.hash.moved", fun
    | t :: _ => msgHashHandler [t]
    | _ => "bad-op"),
  ("tx.hash", txHashHandler),
  ("tx.hash.hasher", txHashHandler),
  ("tx.seq", fun
    | _ :: script :: tables => runSeq (fun _ t => txHashOf t) script tables
    | _ => "bad-op"),
  ("msg.seq", fun
    | _ :: script :: tables => runSeq (fun c t => (msgHashes t).bind fun (h0, h1) => .ok (if c == 'n' then h1 else h0)) script tables
    | _ => "bad-op")
]

end Driver
