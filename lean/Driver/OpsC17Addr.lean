import Driver.Proto
import TongoModel.Address
/-! Line handlers for property C17, address forms. Strings and byte strings travel hex-encoded (`-` = empty). -/
namespace Driver
open Tongo Tongo.Address

def bvBytes (bs : List UInt8) : List (BitVec 8) := bs.map (·.toBitVec)
def u8Bytes (bs : List (BitVec 8)) : List UInt8 := bs.map UInt8.ofBitVec
def hexBV (s : String) : Option (List (BitVec 8)) := (hexArg s).map bvBytes
def outBV (bs : List (BitVec 8)) : String := hexOut (u8Bytes bs)

def acctArg (w a : String) : Option AccountID :=
  match w.toInt?, hexBV a with
  | some wi, some ab => some ⟨BitVec.ofInt 32 wi, ab⟩
  | _, _ => none

def outAcct : Outcome AccountID → String
  | .ok a => s!"ok {a.wc.toInt} {outBV a.addr}"
  | .err _ => "err"
  | .panic _ => "panic"

def bitsStr (bs : List Bool) : String := if bs.isEmpty then "-" else String.ofList (bs.map fun b => if b then '1' else '0')
def bitsArg (s : String) : Option (List Bool) :=
  if s == "-" then some [] else s.toList.mapM (fun c => if c == '0' then some false else if c == '1' then some true else none)

/-- all 48 × 63 single-digit substitutions of a 48-character friendly string: how many still decode -/
def substAccepted (s : Str) : Nat :=
  (List.range 48).foldl (fun acc i =>
    let cur := Base64.decChar true (mapStd (s.getD i 0))
    (List.range 64).foldl (fun acc v =>
      let bv := BitVec.ofNat 6 v
      if cur == some bv then acc
      else match fromBase64Url (s.set i (Base64.encChar true bv)) with
        | .ok _ => acc + 1
        | _ => acc) acc) 0

def strOp (f : Str → String) : Handler := fun
  | [h] => match hexBV h with
    | some s => f s
    | none => "bad-op"
  | _ => "bad-op"

def acctOp (f : AccountID → String) : Handler := fun
  | [w, a] => match acctArg w a with
    | some id => f id
    | none => "bad-op"
  | _ => "bad-op"

def opsC17Addr : List (String × Handler) := [
  ("addr.raw", acctOp fun id => "ok " ++ outBV (toRaw id)),
  ("addr.from_raw", strOp fun s => outAcct (fromRaw s)),
  ("addr.human", fun
    | [w, a, b, t] => match acctArg w a with
      | some id => "ok " ++ outBV (toHuman id (b == "1") (t == "1"))
      | none => "bad-op"
    | _ => "bad-op"),
  ("addr.from_b64", strOp fun s => outAcct (fromBase64Url s)),
  ("addr.root_parse", strOp fun s => match parseAddress s with
    | .ok (a, b) => s!"ok {a.wc.toInt} {outBV a.addr} {if b then 1 else 0}"
    | .err _ => "err"
    | .panic _ => "panic"),
  ("addr.parse", strOp fun s => outAcct (parseAccountID s)),
  ("addr.json", acctOp fun id => "ok " ++ outBV (toJSON id)),
  ("addr.from_json", strOp fun s => outAcct (fromJSON s)),
  ("addr.tl", acctOp fun id => "ok " ++ outBV (toTL id)),
  ("addr.from_tl", strOp fun s => outAcct (fromTL s)),
  ("addr.tlb", acctOp fun id => match tlbBits (toMsgAddress id) with
    | some bs => "ok " ++ bitsStr bs
    | none => "err"),
  ("addr.from_tlb", fun
    | [b] => match bitsArg b with
      | some bs => match parseTlbBits bs with
        | .ok m => match fromTlb m with
          | .ok (some a) => outAcct (.ok a)
          | .ok none => "ok nil"
          | .err _ => "err"
          | .panic _ => "panic"
        | .err _ => "err"
        | .panic _ => "panic"
      | none => "bad-op"
    | _ => "bad-op"),
  ("addr.tlb_parse", fun
    | [b] => match bitsArg b with
      | some bs =>
        let ac : Option (BitVec 32 × BitVec 32) → String := fun
          | some (d, p) => s!"{d.toNat}/{p.toNat}"
          | none => "-"
        match parseTlbBits bs with
        | .ok .none => "ok none"
        | .ok (.extern x) => s!"ok extern {bitsStr x}"
        | .ok (.std a wc addr) => s!"ok std {ac a} {wc.toInt} {outBV addr}"
        | .ok (.var a ln wc x) => s!"ok var {ac a} {ln.toNat} {wc.toInt} {bitsStr x}"
        | .err _ => "err"
        | .panic _ => "panic"
      | none => "bad-op"
    | _ => "bad-op"),
  ("addr.tlb_bits", fun
    | [b] => match bitsArg b with
      | some bs => match parseTlbBits bs with
        | .ok m => match tlbBits m with
          | some r => "ok " ++ bitsStr r
          | none => "err"
        | _ => "err"
      | none => "bad-op"
    | _ => "bad-op"),
  ("shard.match_acct", fun
    | [m, a] => match m.toNat?, hexBV a with
      | some mv, some ab => match Shard.parseShardID (BitVec.ofNat 64 mv) with
        | some sh => if matchAccountID sh ⟨0#32, ab⟩ then "ok 1" else "ok 0"
        | none => "err"
      | _, _ => "bad-op"
    | _ => "bad-op"),
  ("addr.anycast", fun
    | [w, a, d, p] => match w.toInt?, hexBV a, d.toNat?, p.toNat? with
      | some wi, some ab, some dn, some pn =>
        match fromTlb (.std (some (BitVec.ofNat 32 dn, BitVec.ofNat 32 pn)) (BitVec.ofInt 8 wi) ab) with
        | .ok (some r) => outAcct (.ok r)
        | _ => "err"
      | _, _, _, _ => "bad-op"
    | _ => "bad-op"),
  ("addr.subst", strOp fun s => if s.length = 48 then s!"ok {substAccepted s}" else "bad-op"),
  ("adnl.to32", strOp fun s => "ok " ++ outBV (adnlToBase32 s)),
  ("adnl.parse", strOp fun s => match parseADNL s with
    | .ok a => "ok " ++ outBV a
    | .err _ => "err"
    | .panic _ => "panic"),
  ("prim.crc16x", strOp fun s => toString (Crc16.crc16 s).toNat),
  ("prim.b64enc", fun
    | [u, h] => match hexBV h with
      | some s => "ok " ++ outBV (Base64.encode (u == "1") s)
      | none => "bad-op"
    | _ => "bad-op"),
  ("prim.b64dec", fun
    | [u, h] => match hexBV h with
      | some s => match Base64.decode (u == "1") s with
        | some r => "ok " ++ outBV r
        | none => "err"
      | none => "bad-op"
    | _ => "bad-op"),
  ("prim.b32enc", strOp fun s => "ok " ++ outBV (Base32.encode s)),
  ("prim.b32dec", strOp fun s => match Base32.decode s with
    | some r => "ok " ++ outBV r
    | none => "err")
]

end Driver
