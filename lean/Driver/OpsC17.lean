import Driver.Proto
import TongoModel.Shard
/-! Line handlers for property C17 (addresses and shard ids). -/
namespace Driver
open Tongo.Shard

def u64Arg (s : String) : Option (BitVec 64) := s.toNat?.map (BitVec.ofNat 64)

def optU64 : Option (BitVec 64) → String
  | some v => s!"ok {v.toNat}"
  | none => "err"

/-- ton.GetParents restricted to the shard ids it returns: convertShardIdent, then shardParent (after split) or the
two shardChild values (after merge). `pfxBits` is a tlb.Uint6 field (0..63). -/
def parents (pfxBits : Nat) (pfx : BitVec 64) (split merge : Bool) : Option (List (BitVec 64)) :=
  let s := convertShardIdent pfx (BitVec.ofNat 8 pfxBits)
  if !merge then
    if split then some [shardParent s] else some [s]
  else some [shardChild s true, shardChild s false]

def opsC17 : List (String × Handler) := [
  ("shard.parents", fun
    | [b, p, sp, mg] => match b.toNat?, u64Arg p with
      | some bits, some pfx => match parents bits pfx (sp == "1") (mg == "1") with
        | some l => " ".intercalate ("ok" :: l.map (fun v => toString v.toNat))
        | none => "panic"
      | _, _ => "bad-op"
    | _ => "bad-op"),
  ("shard.child", fun
    | [s, l] => match u64Arg s with
      | some v => toString (shardChild v (l == "1")).toNat
      | none => "bad-op"
    | _ => "bad-op"),
  ("shard.parent", fun
    | [s] => match u64Arg s with
      | some v => toString (shardParent v).toNat
      | none => "bad-op"
    | _ => "bad-op"),
  ("shard.parse", fun
    | [s] => match u64Arg s with
      | some v => match parseShardID v with
        | some sh => s!"ok {sh.pfx.toNat} {sh.mask.toNat}"
        | none => "err"
      | none => "bad-op"
    | _ => "bad-op"),
  ("shard.reencode", fun
    | [s] => match u64Arg s with
      | some v => match parseShardID v with
        | some sh => optU64 (encode sh)
        | none => "err"
      | none => "bad-op"
    | _ => "bad-op"),
  ("shard.match_account", fun
    | [s, a] => match u64Arg s, u64Arg a with
      | some v, some p => match parseShardID v with
        | some sh => if matchPrefix sh p then "ok 1" else "ok 0"
        | none => "err"
      | _, _ => "bad-op"
    | _ => "bad-op"),
  ("shard.match_block", fun
    | [s, b] => match u64Arg s, u64Arg b with
      | some v, some bl => match parseShardID v with
        | some sh => if matchBlock sh bl then "ok 1" else "ok 0"
        | none => "err"
      | _, _ => "bad-op"
    | _ => "bad-op")
]

end Driver
