import Driver.Proto
namespace Driver
def opsPrim : List (String × Handler) := primHandlers
end Driver
