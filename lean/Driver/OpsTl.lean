import Driver.Proto
import Driver.TlVal
import TongoModel.Tl.LiteClient
import Driver.TlBindText
/-! Line handlers for properties C10 (lite-server bindings) and C09 (schema compilers): the schema text travels in
the line (hex), is parsed by the model's own parser, and values are encoded/decoded by the schema semantics. -/
namespace Driver
open Tongo Tongo.Tl

/-- fuel for decoding: far above any nesting depth the harness produces; exhaustion is reported as `fuel` -/
def tlFuel : Nat := 4096

/-- hex argument, tail-recursive (byte strings of 2^24 bytes travel through these lines) -/
def hexArgBig (s : String) : Option (List UInt8) :=
  if s == "-" then some [] else
  match TlVal.readHex #[] s.toList with
  | some (bs, []) => some bs
  | _ => none

def textArg (h : String) : Option String :=
  (hexArgBig h).bind (fun bs => String.fromUTF8? (ByteArray.mk bs.toArray))

def schemaArg (h : String) : Option Schema := (textArg h).bind parse

def hexOfString (s : String) : String := hexOut s.toUTF8.toList

def hex8s (n : Nat) : String := String.ofList (hex8 n)

private def outcomeStr {α} (o : Outcome α) (f : α → String) : String :=
  match o with
  | .ok a => f a
  | .err _ => "err"
  | .panic p => if p == "fuel" then "fuel" else "panic"

/-- a name denotes a boxed type (upper-case) or a bare constructor (lower-case) -/
def namedTy (w : String) : Option Ty :=
  match tyOfWord w with
  | some (.bare c) => some (.bare c)
  | some (.boxed t) => some (.boxed t)
  | _ => none

def opsTl : List (String × Handler) := [
  ("prim.crc32", fun
    | [h] => match hexArg h with
      | some bs =>
        -- the three definitions of the model (UInt32 bitwise, Nat bitwise, Nat table-driven) must agree with Go
        let a := Crc.crc32N (bs.map (·.toNat))
        if a == Crc.crc32T (bs.map (·.toNat)) && a == (Crc.crc32 bs).toNat then toString a else "crc-variants-disagree"
      | none => "bad-op"
    | _ => "bad-op"),
  -- the whole schema file: parse, well-formedness, canonical text
  ("tl.schema", fun
    | [h] => match textArg h with
      | some txt => match parse txt with
        | some S => s!"ok {S.types.length} {S.funcs.length} {if wfSchemaB S then 1 else 0} {hexOfString (render S)}"
        | none => "err"
      | none => "bad-op"
    | _ => "bad-op"),
  -- one declaration: the id the TL rules derive from its text (CRC-32)
  ("tl.crcid", fun
    | [_, h] => match schemaArg h with
      | some S => match S.types ++ S.funcs with
        | [d] => s!"ok {hex8s (crcOf d)}"
        | _ => "bad-op"
      | none => "bad-op"
    | _ => "bad-op"),
  ("tl.enc", fun
    | [sh, name, v] => match schemaArg sh, namedTy name, TlVal.parse v with
      | some S, some t, some val => match encode S t val with
        | some bs => s!"ok {hexOut bs}"
        | none => "err"
      | _, _, _ => "bad-op"
    | _ => "bad-op"),
  ("tl.dec", fun
    | [sh, name, h] => match schemaArg sh, namedTy name, hexArgBig h with
      | some S, some t, some bs =>
        outcomeStr (decode S tlFuel t bs) (fun (v, r) => s!"ok {TlVal.print v} {hexOut r}")
      | _, _, _ => "bad-op"
    | _ => "bad-op"),
  -- parameter struct of a function (the generated <F>Request type): fields without id
  ("tl.fenc", fun
    | [sh, f, v] => match schemaArg sh, TlVal.parse v with
      | some S, some (.tuple ps) => match S.func? f with
        | some d => match encodeFields S d.fields [] ps with
          | some bs => s!"ok {hexOut bs}"
          | none => "err"
        | none => "bad-op"
      | _, _ => "bad-op"
    | _ => "bad-op"),
  ("tl.fdec", fun
    | [sh, f, h] => match schemaArg sh, hexArgBig h with
      | some S, some bs => match S.func? f with
        | some d => outcomeStr (decodeFields S tlFuel d.fields [] bs)
            (fun (vs, r) => s!"ok {TlVal.print (.tuple vs)} {hexOut r}")
        | none => "bad-op"
      | _, _ => "bad-op"
    | _ => "bad-op"),
  -- a client call: the ADNL payload handed to the connection, without the random query id
  ("tl.req", fun
    | [sh, f, v] => match schemaArg sh, TlVal.parse v with
      | some S, some (.tuple ps) => match encodeRequest S f ps with
        | some req => s!"ok {hexOut (envelope [] req)}"
        | none => "err"
      | _, _ => "bad-op"
    | _ => "bad-op"),
  -- C09: the bytes a generated client method hands to its connection (no transport envelope)
  ("tlc.req", fun
    | [sh, f, v] => match schemaArg sh, TlVal.parse v with
      | some S, some (.tuple ps) => match encodeRequest S f ps with
        | some req => s!"ok {hexOut req}"
        | none => "err"
      | _, _ => "bad-op"
    | _ => "bad-op"),
  -- a client call answered with the given bytes
  ("tl.ans", fun
    | [sh, f, h] => match schemaArg sh, hexArgBig h with
      | some S, some bs => outcomeStr (decodeAnswer S tlFuel f bs) (fun
          | .result v => s!"ok {TlVal.print v}"
          | .serverError vs => s!"lserr {TlVal.print (.tuple vs)}")
      | _, _ => "bad-op"
    | _ => "bad-op"),
  ("tl.reqdec", fun
    | [sh, h] => match schemaArg sh, hexArgBig h with
      | some S, some bs => outcomeStr (requestDecoder S tlFuel bs) (fun
          | (tag, some (name, vs)) => s!"ok {hex8s tag} {name} {TlVal.print (.tuple vs)}"
          | (tag, none) => s!"ok {hex8s tag} Unknown")
      | _, _ => "bad-op"
    | _ => "bad-op"),
  -- hand-written codecs
  ("tl.hw.accountid", fun
    | [wc, a] => match wc.toNat?, hexArg a with
      | some w, some addr => s!"ok {hexOut (accountIdTL w addr)}"
      | _, _ => "bad-op"
    | _ => "bad-op"),
  ("tl.hw.blockidext", fun
    | [wc, sh, sq, r, f] => match wc.toNat?, sh.toNat?, sq.toNat?, hexArg r, hexArg f with
      | some w, some s, some q, some root, some file => s!"ok {hexOut (blockIdExtTL w s q root file)}"
      | _, _, _, _, _ => "bad-op"
    | _ => "bad-op"),
  -- the generator's output on the schema of the line, as extracted by X7 (harness/tlbind): the matcher of
  -- TongoModel/Tl/BindingsMatch.lean, whose soundness is `C10.steps_eq_schema`, evaluated on it
  ("tlc.bind", fun
    | [sh, bh] => match schemaArg sh, textArg bh with
      | some S, some bt => match TlBindText.parse bt with
        | some B =>
          if !wfSchemaB S then "ok 0 schema-not-wf"
          else match TlBindText.firstDisagreement S B with
            | none => if Bind.agreeAll S B then "ok 1" else "ok 0 agreeAll"
            | some w => s!"ok 0 {w}"
        | none => "bad-bindings"
      | _, _ => "bad-op"
    | _ => "bad-op"),
  -- hand-written request builders of liteclient/client.go (answers: WaitMasterchainBlock handles them exactly like the
  -- generated method of liteServer.lookupBlock)
  ("tl.wait.seqno", fun
    | [sh, sq, to, h] => match schemaArg sh, sq.toNat?, to.toNat?, hexArgBig h with
      | some S, some q, some t, some bs => match waitSeqnoRequest q t with
        | some req =>
          let ans := outcomeStr (waitSeqnoAnswer S tlFuel bs) (fun
            | none => "nil"
            | some vs => s!"lserr {TlVal.print (.tuple vs)}")
          s!"ok {hexOut (envelope [] req)} {ans}"
        | none => "err"
      | _, _, _, _ => "bad-op"
    | _ => "bad-op"),
  ("tl.wait.block", fun
    | [sh, sq, to, h] => match schemaArg sh, sq.toNat?, to.toNat?, hexArgBig h with
      | some S, some q, some t, some bs => match waitBlockRequest S q t with
        | some req =>
          let ans := outcomeStr (decodeAnswer S tlFuel "liteServer.lookupBlock" bs) (fun
            | .result v => s!"res {TlVal.print v}"
            | .serverError vs => s!"lserr {TlVal.print (.tuple vs)}")
          s!"ok {hexOut (envelope [] req)} {ans}"
        | none => "err"
      | _, _, _, _ => "bad-op"
    | _ => "bad-op"),
  ("tl.hw.accountid.dec", fun
    | [h] => match hexArg h with
      | some bs => outcomeStr (accountIdUnTL bs) (fun ((wc, a), r) => s!"ok {wc} {hexOut a} {hexOut r}")
      | none => "bad-op"
    | _ => "bad-op"),
  ("tl.hw.blockidext.dec", fun
    | [h] => match hexArg h with
      | some bs => outcomeStr (blockIdExtUnTL bs) (fun (wc, sh, sq, r, f) => s!"ok {wc} {sh} {sq} {hexOut r} {hexOut f}")
      | none => "bad-op"
    | _ => "bad-op"),
  ("tl.hw.int256.dec", fun
    | [h] => match hexArg h with
      | some bs => outcomeStr (int256UnTL bs) (fun (a, r) => s!"ok {hexOut a} {hexOut r}")
      | none => "bad-op"
    | _ => "bad-op")
]

end Driver
