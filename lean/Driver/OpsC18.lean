import Driver.Proto
import TongoModel.CellFmt
import TongoModel.Merkle
/-! C18 handlers: Merkle proofs through the cursor API and through ProveKeyInHashmap; results as canonical tables. -/
namespace Driver
open Tongo Tongo.CellFmt Tongo.Merkle

/-- row reached from row `i` along a path of ref indices -/
def rowAt (t : Table) : Nat → List Nat → Option Nat
  | i, [] => if i < t.size then some i else none
  | i, k :: rest => match t[i]? with
    | some row => match row.refs[k]? with
      | some j => rowAt t j rest
      | none => none
    | none => none

def parsePath (s : String) : Option (List Nat) :=
  if s == "r" then some [] else (s.splitOn ".").mapM (·.toNat?)

def parsePaths (s : String) : Option (List (List Nat)) :=
  if s == "-" then some [] else (s.splitOn "/").mapM parsePath

def outcomeCell (r : Outcome Cell) : String :=
  match r with
  | .ok c => "ok " ++ canonString (toTable c) [0]
  | .err _ => "err"
  | .panic _ => "panic"

def opsC18 : List (String × Handler) := [
  -- mk.prune <table> <paths> -> "ok <canonical table of the proof> 0" | err | panic
  ("mk.prune", fun
    | [t, ps] => match parseTable t, parsePaths ps with
      | some tb, some paths => match Table.root tb with
        | some root =>
          let rows := paths.map (rowAt tb 0)
          if rows.any (·.isNone) then
            -- Cursor.Ref on a missing ref: index out of range (after NewMerkleProver succeeded)
            match Cell.info sha256 root with
            | .ok _ => "panic"
            | .err _ => "err"
            | .panic _ => "panic"
          else
            let P := fun (p : List Nat) => paths.contains p
            outcomeCell (createProof sha256 P root)
        | none => "bad-op"
      | _, _ => "bad-op"
    | _ => "bad-op"),
  -- mk.prove <key bits> <value width> <table> -> "ok <value bits> <canonical table of the proof> 0" | err | panic
  ("mk.prove", fun
    | [k, vb, t] => match (if k == "-" then some [] else Bits.ofBinString? k), vb.toNat?, parseTable t with
      | some key, some vbits, some tb => match Table.root tb with
        | some root =>
          match proveKey sha256 vbits root key with
          | .ok (v, c) => "ok " ++ (if v.isEmpty then "-" else Bits.toBinString v) ++ " " ++ canonString (toTable c) [0]
          | .err _ => "err"
          | .panic _ => "panic"
        | none => "bad-op"
      | _, _, _ => "bad-op"
    | _ => "bad-op")
]

end Driver
