import Driver.Proto
import TongoModel.CellFmt
import TongoModel.Merkle
/-! C18 handlers: Merkle proofs through the cursor API and through ProveKeyInHashmap; results as canonical tables. -/
namespace Driver
open Tongo Tongo.CellFmt Tongo.Merkle

/-- row reached from row `i` along a path of ref indices -/
def rowAt (t : Table) : Nat → List Nat → Option Nat
  | i, [] => if i < t.size then some i else none
  | i, k :: rest => match t[i]? with
    | some row => match row.refs[k]? with
      | some j => rowAt t j rest
      | none => none
    | none => none

def parsePath (s : String) : Option (List Nat) :=
  if s == "r" then some [] else (s.splitOn ".").mapM (·.toNat?)

def parsePaths (s : String) : Option (List (List Nat)) :=
  if s == "-" then some [] else (s.splitOn "/").mapM parsePath

def outcomeCell (r : Outcome Cell) : String :=
  match r with
  | .ok c => "ok " ++ canonString (toTable c) [0]
  | .err _ => "err"
  | .panic _ => "panic"

def opsC18 : List (String × Handler) := [
  -- mk.prune <table> <paths> -> "ok <canonical table of the proof> 0" | err | panic
  ("mk.prune", fun
    | [t, ps] => match parseTable t, parsePaths ps with
      | some tb, some paths => match Table.root tb with
        | some root =>
          let rows := paths.map (rowAt tb 0)
          if rows.any (·.isNone) then
            -- Cursor.Ref on a missing ref: index out of range (after NewMerkleProver succeeded)
            match Cell.info sha256 root with
            | .ok _ => "panic"
            | .err _ => "err"
            | .panic _ => "panic"
          else
            let P := fun (p : List Nat) => paths.contains p
            outcomeCell (createProof sha256 P root)
        | none => "bad-op"
      | _, _ => "bad-op"
    | _ => "bad-op"),
  -- mk.prune2 <table> <paths1> <paths2>: one prover, two cursors (each with its own prune set); the second proof
  ("mk.prune2", fun
    | [t, ps1, ps2] => match parseTable t, parsePaths ps1, parsePaths ps2 with
      | some tb, some p1, some p2 => match Table.root tb with
        | some root =>
          let bad := fun (ps : List (List Nat)) => (ps.map (rowAt tb 0)).any (·.isNone)
          let run := fun (ps : List (List Nat)) =>
            if bad ps then
              match Cell.info sha256 root with
              | .ok _ => (Outcome.panic "index out of range (Cursor.Ref)" : Outcome Cell)
              | .err e => .err e
              | .panic p => .panic p
            else createProof sha256 (fun p => ps.contains p) root
          match run p1 with
          | .ok _ => outcomeCell (run p2)
          | .err _ => "err"
          | .panic _ => "panic"
        | none => "bad-op"
      | _, _, _ => "bad-op"
    | _ => "bad-op"),
  -- mk.prune.il <table> <pathsA> <pathsB> <ab|ba>: one prover, two LIVE cursors with interleaved Prune calls; every
  -- cursor has its own prune set, so each proof is the one for its own paths, in either order of CreateProof
  ("mk.prune.il", fun
    | [t, ps1, ps2, order] => match parseTable t, parsePaths ps1, parsePaths ps2 with
      | some tb, some p1, some p2 => match Table.root tb with
        | some root =>
          if (p1 ++ p2).any (fun p => (rowAt tb 0 p).isNone) then
            match Cell.info sha256 root with
            | .ok _ => "panic"
            | .err _ => "err"
            | .panic _ => "panic"
          else
            let ra := createProof sha256 (fun p => p1.contains p) root
            let rb := createProof sha256 (fun p => p2.contains p) root
            let first := if order == "ab" then ra else rb
            let second := if order == "ab" then rb else ra
            match first, second with
            | .ok _, .ok _ =>
              match ra, rb with
              | .ok ca, .ok cb => "ok " ++ canonString (toTable ca) [0] ++ " | " ++ canonString (toTable cb) [0]
              | _, _ => "err"
            | .panic _, _ => "panic"
            | .err _, _ => "err"
            | .ok _, .panic _ => "panic"
            | .ok _, .err _ => "err"
        | none => "bad-op"
      | _, _, _ => "bad-op"
    | _ => "bad-op"),
  -- mk.prove2 <key1> <key2> <value width> <table>: one prover, a proof for key1 (result ignored), then for key2
  ("mk.prove2", fun
    | [k1, k2, vb, t] =>
      let kb := fun (k : String) => if k == "-" then some [] else Bits.ofBinString? k
      match kb k1, kb k2, vb.toNat?, parseTable t with
      | some key1, some key2, some vbits, some tb => match Table.root tb with
        | some root =>
          match proveKey sha256 vbits root key1 with
          | .panic _ => "panic"
          | _ =>
            match proveKey sha256 vbits root key2 with
            | .ok (v, c) => "ok " ++ (if v.isEmpty then "-" else Bits.toBinString v) ++ " " ++ canonString (toTable c) [0]
            | .err _ => "err"
            | .panic _ => "panic"
        | none => "bad-op"
      | _, _, _, _ => "bad-op"
    | _ => "bad-op"),
  -- mk.prove <key bits> <value width> <table> -> "ok <value bits> <canonical table of the proof> 0" | err | panic
  ("mk.prove", fun
    | [k, vb, t] => match (if k == "-" then some [] else Bits.ofBinString? k), vb.toNat?, parseTable t with
      | some key, some vbits, some tb => match Table.root tb with
        | some root =>
          match proveKey sha256 vbits root key with
          | .ok (v, c) => "ok " ++ (if v.isEmpty then "-" else Bits.toBinString v) ++ " " ++ canonString (toTable c) [0]
          | .err _ => "err"
          | .panic _ => "panic"
        | none => "bad-op"
      | _, _, _ => "bad-op"
    | _ => "bad-op")
]

end Driver
