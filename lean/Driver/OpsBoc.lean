import Driver.Proto
import TongoModel.Boc
import TongoModel.BocWriter
import TongoModel.CellFmt
/-! Line handlers for the bag-of-cells reader model, the reference writer and the writer oracle (C01, C07). -/
namespace Driver
open Tongo Tongo.Boc Tongo.CellFmt

private def outcomeTag {α} : Outcome α → String
  | .ok _ => "ok" | .err _ => "err" | .panic _ => "panic"

/-- `ok <canonical table> <roots> <hash of every root>` -/
def parseAnswer (bs : Bytes) : String :=
  match parseBoc bs with
  | .err _ => "err"
  | .panic _ => "panic"
  | .ok (t, roots) =>
    let infos := Table.infos sha256 t
    let hs := roots.map fun r =>
      match (match infos[r]? with | some i => i | none => .panic "root") >>= (·.hashAt 3) with
      | .ok h => hexOut h
      | .err _ => "err"
      | .panic _ => "panic"
    " ".intercalate (["ok", canonString t roots] ++ hs)

def parseBools (s : String) : Option (List Bool) := if s == "-" then some [] else Bits.ofBinString? s

def parseStored (s : String) : Option (List (Option Bytes)) :=
  if s == "-" then some []
  else (s.splitOn ".").mapM fun x => if x == "-" then some none else (Hex.decode x).map some

/-- `magic,idx,crc,cache,size,off,absent,cachebits,stored` -/
def parseEmitParams (s : String) : Option EmitParams :=
  match s.splitOn "," with
  | [m, i, c, k, sz, off, ab, cb, st] => do
    let m ← m.toNat?
    let sz ← sz.toNat?
    let off ← off.toNat?
    let ab ← ab.toNat?
    let cb ← parseBools cb
    let st ← parseStored st
    pure { magic := m, hasIdx := i == "1", hasCrc := c == "1", hasCache := k == "1", size := sz, offBytes := off,
           absent := ab, cacheBits := cb, stored := st }
  | _ => none

def parseRoots (s : String) : Option (List Nat) := if s == "-" then some [] else (s.splitOn ".").mapM (·.toNat?)

/-- end offsets of the cells inside the cell data for cells stored without hashes: a cell takes
2 + ⌈bits/8⌉ + size·refs bytes (if a cell did carry stored hashes the sum would miss `tot_cells_size`) -/
def cellEnds (size : Nat) (rows : List CellRow) : List Nat :=
  (rows.foldl (fun (acc : Nat × List Nat) r =>
    let e := acc.1 + 2 + (r.bits.length + 7) / 8 + size * r.refs.length
    (e, e :: acc.2)) (0, [])).2.reverse

/-- the writer oracle: are `bs` a faithful, canonical serialisation of row 0 of `t` under the options
(idx, crc, cache)? Decided with the verified reader and the model of the writer's header arithmetic. -/
def checkWritten (bs : Bytes) (t : Table) (idx crc cache : Bool) : String :=
  match (parseHeader bs 0).1, parseBoc bs with
  | .ok h, .ok (pt, roots) =>
    match canon t [0], canon pt roots with
    | some (ct, cr), some (cpt, cpr) =>
      if roots.length ≠ 1 then "FAIL roots"
      else if (ct, cr) ≠ (cpt, cpr) then "FAIL cells-differ"
      else if h.cellCount ≠ ct.size then s!"FAIL cell-count header={h.cellCount} distinct={ct.size}"
      else if h.hasIdx ≠ idx ∨ h.hasCrc ≠ crc ∨ h.hasCache ≠ cache ∨ h.flags ≠ 0 then "FAIL flags"
      else if bs.take 4 ≠ magicGeneric then "FAIL magic"
      else if h.absentCount ≠ 0 then "FAIL absent"
      else if h.totCellsSize ≠ h.cellsData.length then "FAIL tot-cells-size"
      else
        let ends := cellEnds h.sizeBytes pt.toList
        if ends.getLast? ≠ (if pt.size = 0 then none else some h.totCellsSize) then "FAIL cell-sizes"
        else if idx ∧ h.index ≠ ends then "FAIL index"
        else "ok"
    | _, _ => "FAIL canon"
  | _, .err _ => "FAIL parse-err"
  | _, .panic _ => "FAIL parse-panic"
  | _, _ => "FAIL header"

def opsBoc : List (String × Handler) := [
  ("boc.parse", fun
    | [h] => match hexArg h with
      | some bs => parseAnswer bs
      | none => "bad-op"
    | _ => "bad-op"),
  -- boc.emit <params> <table> <roots> -> hex of the reference writer's output
  ("boc.emit", fun
    | [p, t, r] => match parseEmitParams p, parseTable t, parseRoots r with
      | some p, some t, some r => hexOut (emitBoc p t r)
      | _, _, _ => "bad-op"
    | _ => "bad-op"),
  -- boc.header <table> -> "size off" chosen by serializeBoc for the 8 option sets (model of the writer's arithmetic)
  ("boc.header", fun
    | [t] => match parseTable t with
      | some t => match canon t [0] with
        | some (ct, _) =>
          " ".intercalate ((List.range 8).map fun o =>
            let p := Writer.params ct (o / 4 % 2 == 1) (o / 2 % 2 == 1) (o % 2 == 1) []
            s!"{p.size},{p.offBytes}")
        | none => "bad-op"
      | none => "bad-op"
    | _ => "bad-op"),
  -- boc.alloc <hex> -> bytes requested from the allocator by the reader model
  ("boc.alloc", fun
    | [h] => match hexArg h with
      | some bs => toString (parseAlloc bs)
      | none => "bad-op"
    | _ => "bad-op"),
  -- boc.check <hex> <table> <idx><crc><cache> -> ok | FAIL <why>     (used by the go.writer oracle)
  ("boc.check", fun
    | [h, t, o] => match hexArg h, parseTable t, o.toList with
      | some bs, some t, [i, c, k] => checkWritten bs t (i == '1') (c == '1') (k == '1')
      | _, _, _ => "bad-op"
    | _ => "bad-op")
]

end Driver
