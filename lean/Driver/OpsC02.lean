import Driver.Proto
import TongoModel.CellFmt
import TongoModel.CellHashSpec
/-! C02 handlers: hashes of every row of a table (digest), the SPECIFICATION evaluated directly on the unfolded tree,
and the level-mask helpers. -/
namespace Driver
open Tongo Tongo.CellFmt

def levelsOf (i : HashInfo) : Outcome String := do
  let parts ← (List.range 4).mapM fun l => do
    let h ← i.hashAt l
    let d ← i.depthAt l
    pure s!"{hexOut h} {d}"
  pure (" ".intercalate parts ++ s!" {LevelMask.level i.mask}")

def opsC02 : List (String × Handler) := [
  -- cell.all <table> -> "ok <rows> <sha256 of one levels line per row>"
  ("cell.all", fun
    | [t] => match parseTable t with
      | some tb =>
        let infos := Table.infos sha256 tb
        let lines : Outcome (List String) := infos.toList.mapM fun r =>
          match r >>= levelsOf with
          | .ok s => .ok s
          | .err _ => .ok "err"
          | .panic p => .panic p
        match lines with
        | .ok ls =>
          let text := String.join (ls.map (· ++ "\n"))
          s!"ok {tb.size} {Hex.encode (sha256 text.toUTF8.toList)}"
        | .err _ => "err"
        | .panic _ => "panic"
      | none => "bad-op"
    | _ => "bad-op"),
  -- cell.forms <table> -> "ok <Level()> <Hash() hex> <Hash256() hex> <HashString()>" for row 0
  ("cell.forms", fun
    | [t] => match parseTable t with
      | some tb => match tb[0]? with
        | some row0 =>
          -- Cell.level / hash256 / hashString of TongoModel/Cell.lean evaluated through the table result of row 0
          -- (the tree recursion is exponential on shared DAGs)
          match ((Table.infos sha256 tb)[0]? : Option (Outcome HashInfo)) with
          | some (Outcome.ok i) =>
            match i.hashAt 3 with
            | .ok hsh =>
              let h256 := (hsh ++ List.replicate (32 - hsh.length) 0).take 32
              s!"ok {LevelMask.level row0.mask} {hexOut hsh} {hexOut h256} {Hex.encode hsh}"
            | .err _ => "err"
            | .panic _ => "panic"
          | some (Outcome.err _) => "err"
          | some (Outcome.panic _) => "panic"
          | none => "bad-op"
        | none => "bad-op"
      | none => "bad-op"
    | _ => "bad-op"),
  -- cell.rehash <steps>: one cell built in memory, hashed between writes (w<bits> / a<table> / h)
  ("cell.rehash", fun
    | [st] =>
      let rec go (steps : List String) (bits : List Bool) (refs : List Cell) (out : List String) : String :=
        match steps with
        | [] => "ok " ++ " ".intercalate out.reverse
        | s :: rest =>
          match s.toList with
          | 'w' :: bs =>
            let nb := bits ++ bs.map (· == '1')
            if nb.length > 1023 then "err" else go rest nb refs out
          | 'a' :: tb =>
            match parseTable (String.ofList tb) with
            | some t => match Table.root t with
              | some c => if refs.length ≥ 4 then "err" else go rest bits (refs ++ [c]) out
              | none => "bad-op"
            | none => "bad-op"
          | ['h'] =>
            match Cell.hashString sha256 (.mk 0 0 bits refs) with
            | .ok x => go rest bits refs (x :: out)
            | .err _ => "err"
            | .panic _ => "panic"
          | _ => "bad-op"
      go (st.splitOn "/") [] [] []
    | _ => "bad-op"),
  -- spec.levels <table> -> the definition (Spec.hashAt/depthAt/level) on the unfolded tree of row 0
  ("spec.levels", fun
    | [t] => match parseTable t with
      | some tb => match Table.root tb with
        | some c =>
          if Spec.tooDeep c then "err"
          else
            let parts := (List.range 4).map fun l => s!"{hexOut (Spec.hashAt sha256 c l)} {Spec.depthAt c l}"
            "ok " ++ " ".intercalate parts ++ s!" {Spec.cellLevel c}"
        | none => "bad-op"
      | none => "bad-op"
    | _ => "bad-op"),
  -- lmask <mask> <level> -> "level hashIndex hashesCount apply significant"
  ("lmask", fun
    | [m, l] => match m.toNat?, l.toNat? with
      | some m, some l =>
        s!"{LevelMask.level m} {LevelMask.hashIndex m} {LevelMask.hashesCount m} {LevelMask.apply m l} {if LevelMask.isSignificant m l then 1 else 0}"
      | _, _ => "bad-op"
    | _ => "bad-op")
]

end Driver
