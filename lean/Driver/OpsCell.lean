import Driver.Proto
import TongoModel.CellFmt
/-! Shared cell handlers: canonical dump and hashes of the root (row 0) of a table. -/
namespace Driver
open Tongo Tongo.CellFmt

def infoOfRoot (t : Table) : Outcome HashInfo :=
  match (Table.infos sha256 t)[0]? with
  | some r => r
  | none => .err "empty table"

def opsCell : List (String × Handler) := [
  ("cell.canon", fun
    | [t] => match parseTable t with
      | some tb => canonString tb [0]
      | none => "bad-op"
    | _ => "bad-op"),
  ("cell.hash", fun
    | [t] => match parseTable t with
      | some tb => match infoOfRoot tb >>= (·.hashAt 3) with
        | .ok h => "ok " ++ hexOut h
        | .err _ => "err"
        | .panic _ => "panic"
      | none => "bad-op"
    | _ => "bad-op"),
  ("cell.levels", fun
    | [t] => match parseTable t with
      | some tb =>
        let r : Outcome String := do
          let i ← infoOfRoot tb
          let parts ← (List.range 4).mapM fun l => do
            let h ← i.hashAt l
            let d ← i.depthAt l
            pure s!"{hexOut h} {d}"
          pure ("ok " ++ " ".intercalate parts ++ s!" {LevelMask.level i.mask}")
        match r with
        | .ok s => s
        | .err _ => "err"
        | .panic _ => "panic"
      | none => "bad-op"
    | _ => "bad-op")
]

end Driver
