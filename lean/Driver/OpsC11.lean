import Driver.Proto
import TongoModel.Adnl
import TongoModel.Prim.Aes
import TongoModel.Prim.Sha512
/-! Line handlers for property C11 (ADNL frames, stream ciphers, handshake). The model's parameters are instantiated
with the executable primitives: `H := Sha256.hash`, keystreams from AES-256-CTR. -/
namespace Driver
open Tongo Tongo.Adnl

/-- hex decoding without deep recursion (payloads up to 8 MiB) -/
def unhexFast (s : String) : Option (List UInt8) :=
  if s == "-" then some [] else Id.run do
    let b := s.toUTF8
    if b.size % 2 != 0 then return none
    let nib (c : UInt8) : UInt8 :=
      if 48 ≤ c ∧ c ≤ 57 then c - 48 else if 97 ≤ c ∧ c ≤ 102 then c - 87 else if 65 ≤ c ∧ c ≤ 70 then c - 55 else 255
    let mut out : Array UInt8 := Array.mkEmpty (b.size / 2)
    for i in [0:b.size / 2] do
      let x := nib b[2*i]!
      let y := nib b[2*i+1]!
      if x == 255 || y == 255 then return none
      out := out.push (x * 16 + y)
    return some out.toList

def hexFast (bs : List UInt8) : String :=
  if bs.isEmpty then "-" else Id.run do
    let dig (n : UInt8) : UInt8 := if n < 10 then 48 + n else 87 + n
    let mut out : ByteArray := ByteArray.emptyWithCapacity (2 * bs.length)
    for b in bs do
      out := out.push (dig (b / 16))
      out := out.push (dig (b % 16))
    return (String.fromUTF8? out).getD ""

/-- a precomputed keystream as a function (the array is an argument, so it is evaluated once by the caller) -/
def ksOfArr (arr : Array UInt8) : Nat → UInt8 := fun i => arr[i]!

/-- AES-256-CTR as the model's `ctr` parameter: the keystream for the expected (key, iv) is precomputed by the caller;
any other (key, iv) the model might ask for is computed on demand (slow path, same function). -/
def ctrWith (key0 iv0 : List UInt8) (arr0 : Array UInt8) (n : Nat) : List UInt8 → List UInt8 → Nat → UInt8 :=
  fun k iv i => if k == key0 && iv == iv0 then arr0[i]! else (Aes.keystream k iv n)[i]!

def sha : List UInt8 → List UInt8 := Sha256.hash

/-- `nonce:payload` -/
def packetArg (s : String) : Option Packet :=
  match s.splitOn ":" with
  | [n, p] => match unhexFast n, unhexFast p with
    | some n, some p => some ⟨n, p⟩
    | _, _ => none
  | _ => none

def packetsDigest (ps : List Packet) : String :=
  hexFast (sha (ps.flatMap fun p => le32 p.payload.length ++ p.nonce ++ p.payload))

def opsC11 : List (String × Handler) := [
  ("prim.aes256ctr", fun
    | [k, iv, off, d] => match unhexFast k, unhexFast iv, off.toNat?, unhexFast d with
      | some k, some iv, some off, some d =>
        if k.length = 32 ∧ iv.length = 16 then hexFast (Aes.ctrXor k iv off d) else "bad-op"
      | _, _, _, _ => "bad-op"
    | _ => "bad-op"),
  ("adnl.params", fun
    | [r] => match unhexFast r with
      | some p => " ".intercalate ["ok", hexFast (rxKey p), hexFast (txKey p), hexFast (rxNonce p), hexFast (txNonce p),
          hexFast (padding p), hexFast (sha p)]
      | none => "bad-op"
    | _ => "bad-op"),
  ("adnl.frame", fun
    | [n, p] => match unhexFast n, unhexFast p with
      | some n, some p => "ok " ++ hexFast (marshal sha ⟨n, p⟩)
      | _, _ => "bad-op"
    | _ => "bad-op"),
  ("adnl.parsepkt", fun
    | [k, iv, off, s] => match unhexFast k, unhexFast iv, off.toNat?, unhexFast s with
      | some k, some iv, some off, some s =>
        let arr := Aes.keystream k iv (off + s.length + 16)
        match parsePacket sha (ksOfArr arr) off s with
        | .ok (some (p, rest)) => s!"ok {hexFast p.nonce} {hexFast p.payload} {rest.length}"
        | .ok none => "eof"
        | .err _ => "err"
        | .panic _ => "panic"
      | _, _, _, _ => "bad-op"
    | _ => "bad-op"),
  ("adnl.recv", fun
    | [k, iv, off, s] => match unhexFast k, unhexFast iv, off.toNat?, unhexFast s with
      | some k, some iv, some off, some s =>
        let arr := Aes.keystream k iv (off + s.length + 16)
        let r := recvAll sha (ksOfArr arr) off s
        s!"{r.1.length} {packetsDigest r.1} {if r.2 == .waiting then "waiting" else "dead"}"
      | _, _, _, _ => "bad-op"
    | _ => "bad-op"),
  ("adnl.send", fun
    | k :: iv :: off :: ps => match unhexFast k, unhexFast iv, off.toNat?, ps.mapM packetArg with
      | some k, some iv, some off, some ps =>
        let total := (ps.map fun p => 68 + p.payload.length).sum
        let arr := Aes.keystream k iv (off + total + 16)
        let out := sendAll sha (ksOfArr arr) off ps
        s!"ok {out.length} {hexFast (sha out)}"
      | _, _, _, _ => "bad-op"
    | _ => "bad-op"),
  ("adnl.handshake", fun
    | [sp, ep, sh, pr] => match unhexFast sp, unhexFast ep, unhexFast sh, unhexFast pr with
      | some sp, some ep, some sh, some pr =>
        let h := sha pr
        let k0 := hsKey sh h
        let iv0 := hsIv sh h
        let arr := if k0.length = 32 ∧ iv0.length = 16 then Aes.keystream k0 iv0 (pr.length + 16) else #[]
        match handshakePacket sha (ctrWith k0 iv0 arr (pr.length + 16)) sp ep sh pr with
        | .ok b => "ok " ++ hexFast b
        | .err _ => "err"
        | .panic _ => "panic"
      | _, _, _, _ => "bad-op"
    | _ => "bad-op"),
  ("adnl.accept", fun
    | [sp, sh, pkt] => match unhexFast sp, unhexFast sh, unhexFast pkt with
      | some sp, some sh, some pkt =>
        let h := (pkt.drop 64).take 32
        let k0 := hsKey sh h
        let iv0 := hsIv sh h
        let arr := if k0.length = 32 ∧ iv0.length = 16 then Aes.keystream k0 iv0 176 else #[]
        match serverAccept sha (ctrWith k0 iv0 arr 176) sp (fun _ => sh) pkt with
        | .ok p => "ok " ++ hexFast p
        | .err _ => "err"
        | .panic _ => "panic"
      | _, _, _ => "bad-op"
    | _ => "bad-op"),
  ("adnl.reader", fun ps =>
    match ps.mapM unhexFast with
    | some ps => "ok " ++ String.ofList (ps.map fun p => match connReader p with
        | .forward => 'f' | .pong => 'p' | .authNonce => 'a')
    | none => "bad-op"),
  ("adnl.keyid", fun
    | [pk] => match unhexFast pk with
      | some pk => "ok " ++ hexFast (keyId sha pk)
      | none => "bad-op"
    | _ => "bad-op"),
  ("adnl.scalar", fun
    | [seed] => match unhexFast seed with
      | some seed => "ok " ++ hexFast (scalarOf ⟨Sha512.hash, id, fun _ => none, fun _ _ => []⟩ seed)
      | none => "bad-op"
    | _ => "bad-op"),
  ("adnl.tomont", fun
    | [pk] => match unhexFast pk with
      | some pk => match toMontSpec pk with
        | some u => if isLowOrderU u then "rejected" else "ok " ++ hexFast u
        | none => "rejected"
      | none => "bad-op"
    | _ => "bad-op"),
  ("adnl.reply", fun
    | [pr, n] => match unhexFast pr, unhexFast n with
      | some pr, some n =>
        let k0 := pr.take 32
        let iv0 := (pr.drop 64).take 16
        let arr := if k0.length = 32 ∧ iv0.length = 16 then Aes.keystream k0 iv0 96 else #[]
        "ok " ++ hexFast (serverReply sha (ctrWith k0 iv0 arr 96) pr n)
      | _, _ => "bad-op"
    | _ => "bad-op")
]

end Driver
