import TongoModel.PoolSelect
import TongoProofs.Lemmas.PoolSelect
/-! Property C13 — the connection pool picks a healthy, current server and its waits never hang.
Property theorems only (helper lemmas live in TongoProofs/Lemmas/PoolSelect.lean, PoolSM*.lean).

Part 1: the selection rule (`liteapi/pool/conn_pool.go`: updateBest, findBestPingConnection,
findFirstWorkingConnection). `wrap = false` is the code as repaired (`uint64(seqno)+1 >= uint64(maxSeqno)`),
`wrap = true` the code as originally written (`seqno+1 >= maxSeqno` in uint32). -/
namespace Tongo.C13
open Tongo.PoolSelect

/-- What the specification's `firstMin` returns, declaratively: the element of least round-trip time, the earliest
among ties (strictly smaller than everything before it, not larger than anything after it). -/
theorem firstMin_spec (l : List Conn) :
    (l = [] → firstMin l = none) ∧
    (l ≠ [] → ∃ r pre post, firstMin l = some r ∧ l = pre ++ r :: post ∧
        (∀ d ∈ pre, r.rtt < d.rtt) ∧ (∀ d ∈ post, r.rtt ≤ d.rtt)) := by
  constructor
  · rintro rfl; rfl
  · intro hne
    cases h : firstMin l with
    | none => exact absurd (firstMin_eq_none.mp h) hne
    | some r =>
      obtain ⟨pre, post, h1, h2, h3⟩ := firstMin_isFirstMin h
      exact ⟨r, pre, post, rfl, h1, h2, h3⟩

/-- **select_spec** (repaired code, all configurations, no side condition). With
`W = candidates cs = [c ∈ cs | alive c ∧ ∀ d ∈ cs, seqno d ≤ seqno c + 1 (in ℕ)]` in configuration order:
* best-ping: `W ≠ []` → the result is the member of `W` of least rtt, first among ties; `W = []` → previous kept;
* first-working: `W ≠ []` → the first member of `W`; `W = []` → previous kept;
* the maximum is taken over all members, dead ones included (that is what "known to the pool" means in the code). -/
theorem select_spec (st : Strategy) (cs : List Conn) (prev : Option Conn) :
    updateBest false st cs prev = specSelect st cs prev ∧
    (st = .bestPing → candidates cs ≠ [] → ∃ r pre post, updateBest false st cs prev = some r ∧
        candidates cs = pre ++ r :: post ∧ (∀ d ∈ pre, r.rtt < d.rtt) ∧ (∀ d ∈ post, r.rtt ≤ d.rtt)) ∧
    (st = .firstWorking → ∀ r post, candidates cs = r :: post → updateBest false st cs prev = some r) ∧
    (candidates cs = [] → updateBest false st cs prev = prev) := by
  have hmain : updateBest false st cs prev = specSelect st cs prev := by
    unfold updateBest specSelect
    by_cases he : cs.isEmpty
    · have : cs = [] := List.isEmpty_iff.mp he
      subst this
      cases st <;> simp [candidates, firstMin]
    · simp only [he, Bool.false_eq_true, if_false, findBestPing_eq, findFirstWorking_eq, filter_working_false]
  refine ⟨hmain, ?_, ?_, ?_⟩
  · rintro rfl hne
    obtain ⟨r, pre, post, h1, h2, h3, h4⟩ := (firstMin_spec (candidates cs)).2 hne
    exact ⟨r, pre, post, by rw [hmain]; simp [specSelect, h1], h2, h3, h4⟩
  · rintro rfl r post h
    rw [hmain]; simp [specSelect, h]
  · intro h
    rw [hmain]; cases st <;> simp [specSelect, h, firstMin]

/-- **select_spec for the code as originally written** (`seqno+1` in uint32): the same rule, but only under the side
condition that no head is 2³²−1. -/
theorem select_spec_orig_partial (st : Strategy) (cs : List Conn) (prev : Option Conn)
    (h : ∀ c ∈ cs, c.seqno.toNat < 2 ^ 32 - 1) :
    updateBest true st cs prev = specSelect st cs prev := by
  rw [← (select_spec st cs prev).1]
  unfold updateBest
  by_cases he : cs.isEmpty
  · simp [he]
  · simp only [he, Bool.false_eq_true, if_false, findBestPing_eq, findFirstWorking_eq, filter_working_true cs h,
      filter_working_false]

/-- The full-strength statement for the code as written is FALSE (see `select_wrap_witness`). -/
def SelectSpecOrig : Prop :=
  ∀ (st : Strategy) (cs : List Conn) (prev : Option Conn), updateBest true st cs prev = specSelect st cs prev

/-- **select_wrap_witness**: behaviour of the code as written at seqno = 2³²−1. A single alive member whose head is
2³²−1 IS a candidate (it is the newest head), yet `seqno+1` wraps to 0, the member fails `0 >= maxSeqno` and the
previous choice (here: none) is kept, under both strategies — the negation of `SelectSpecOrig` on a concrete
witness. The repaired code selects it. Replayed on the Go code by the oracle `go.select.rule`. -/
theorem select_wrap_witness :
    let c : Conn := ⟨0, true, 0xFFFFFFFF#32, 1⟩
    candidates [c] = [c] ∧
    updateBest true .bestPing [c] none = none ∧ updateBest true .firstWorking [c] none = none ∧
    updateBest false .bestPing [c] none = some c ∧ updateBest false .firstWorking [c] none = some c ∧
    ¬ SelectSpecOrig := by
  refine ⟨by decide, by decide, by decide, by decide, by decide, ?_⟩
  intro h
  exact absurd (h .bestPing [⟨0, true, 0xFFFFFFFF#32, 1⟩] none) (by decide)

/-- The behaviour of the code as written at 2³²−1 in general: a member whose head is 2³²−1 is never chosen by a
refresh (whatever the other members are) — the result is the previous choice or a member with another head. -/
theorem select_wrap_never_newest (st : Strategy) (cs : List Conn) (prev : Option Conn) (r : Conn)
    (h : updateBest true st cs prev = some r) : prev = some r ∨ (r ∈ cs ∧ r.seqno ≠ 0xFFFFFFFF#32) := by
  unfold updateBest at h
  by_cases he : cs.isEmpty
  · simp [he] at h; exact Or.inl h
  · simp only [he, Bool.false_eq_true, if_false, findBestPing_eq, findFirstWorking_eq] at h
    have key : ∀ x, x ∈ cs.filter (fun c => c.alive && working true (maxSeqno cs) c) →
        x ∈ cs ∧ x.seqno ≠ 0xFFFFFFFF#32 := by
      intro x hx
      simp only [List.mem_filter, Bool.and_eq_true] at hx
      refine ⟨hx.1, fun hs => ?_⟩
      have := working_true_max (maxSeqno cs) x hs (le_maxSeqno hx.1)
      rw [this] at hx; exact absurd hx.2.2 (by simp)
    cases st with
    | other => exact Or.inl h
    | bestPing =>
      cases hf : firstMin (cs.filter (fun c => c.alive && working true (maxSeqno cs) c)) with
      | none => rw [hf] at h; exact Or.inl h
      | some x =>
        rw [hf] at h; simp only [Option.some.injEq] at h; subst h
        obtain ⟨pre, post, hl, _, _⟩ := firstMin_isFirstMin hf
        exact Or.inr (key x (by rw [hl]; simp))
    | firstWorking =>
      cases hf : (cs.filter (fun c => c.alive && working true (maxSeqno cs) c)).head? with
      | none => rw [hf] at h; exact Or.inl h
      | some x =>
        rw [hf] at h; simp only [Option.some.injEq] at h; subst h
        exact Or.inr (key x (List.mem_of_head? hf))

/-- non-vacuity of `select_spec_orig_partial` / a non-trivial configuration (test, not proof): three members, the
fastest is dead, the next fastest is two blocks behind, ties on rtt between the remaining two. -/
example :
    let cs : List Conn := [⟨0, true, 98#32, 5⟩, ⟨1, false, 100#32, 1⟩, ⟨2, true, 99#32, 7⟩, ⟨3, true, 100#32, 7⟩]
    (∀ c ∈ cs, c.seqno.toNat < 2 ^ 32 - 1) ∧ updateBest true .bestPing cs none = some ⟨2, true, 99#32, 7⟩ ∧
    updateBest false .firstWorking cs none = some ⟨2, true, 99#32, 7⟩ := by decide

end Tongo.C13
