import TongoModel.PoolSelect
import TongoModel.PoolSM
import TongoProofs.Lemmas.PoolSelect
import TongoProofs.Lemmas.PoolSMDeadlock
import TongoProofs.Lemmas.PoolSMSelect
import TongoProofs.Lemmas.PoolSMLive
import TongoProofs.Lemmas.PoolSMTimer
import TongoProofs.Lemmas.PoolSMFairExample
import TongoProofs.Lemmas.PoolSMWake
/-! Property C13 — the connection pool picks a healthy, current server and its waits never hang.
Property theorems only (helper lemmas live in TongoProofs/Lemmas/PoolSelect.lean, PoolSM*.lean).

Part 1: the selection rule (`liteapi/pool/conn_pool.go`: updateBest, findBestPingConnection,
findFirstWorkingConnection). `wrap = false` is the code as repaired (`uint64(seqno)+1 >= uint64(maxSeqno)`),
`wrap = true` the code as originally written (`seqno+1 >= maxSeqno` in uint32). -/
namespace Tongo.C13
open Tongo.PoolSelect

/-- What the specification's `firstMin` returns, declaratively: the element of least round-trip time, the earliest
among ties (strictly smaller than everything before it, not larger than anything after it). -/
theorem firstMin_spec (l : List Conn) :
    (l = [] → firstMin l = none) ∧
    (l ≠ [] → ∃ r pre post, firstMin l = some r ∧ l = pre ++ r :: post ∧
        (∀ d ∈ pre, r.rtt < d.rtt) ∧ (∀ d ∈ post, r.rtt ≤ d.rtt)) := by
  constructor
  · rintro rfl; rfl
  · intro hne
    cases h : firstMin l with
    | none => exact absurd (firstMin_eq_none.mp h) hne
    | some r =>
      obtain ⟨pre, post, h1, h2, h3⟩ := firstMin_isFirstMin h
      exact ⟨r, pre, post, rfl, h1, h2, h3⟩

/-- **select_spec** (repaired code, all configurations, no side condition). With
`W = candidates cs = [c ∈ cs | alive c ∧ ∀ d ∈ cs, seqno d ≤ seqno c + 1 (in ℕ)]` in configuration order:
* best-ping: `W ≠ []` → the result is the member of `W` of least rtt, first among ties; `W = []` → previous kept;
* first-working: `W ≠ []` → the first member of `W`; `W = []` → previous kept;
* the maximum is taken over all members, dead ones included (that is what "known to the pool" means in the code). -/
theorem select_spec (st : Strategy) (cs : List Conn) (prev : Option Conn) :
    updateBest false st cs prev = specSelect st cs prev ∧
    (st = .bestPing → candidates cs ≠ [] → ∃ r pre post, updateBest false st cs prev = some r ∧
        candidates cs = pre ++ r :: post ∧ (∀ d ∈ pre, r.rtt < d.rtt) ∧ (∀ d ∈ post, r.rtt ≤ d.rtt)) ∧
    (st = .firstWorking → ∀ r post, candidates cs = r :: post → updateBest false st cs prev = some r) ∧
    (candidates cs = [] → updateBest false st cs prev = prev) := by
  have hmain : updateBest false st cs prev = specSelect st cs prev := by
    unfold updateBest specSelect
    by_cases he : cs.isEmpty
    · have : cs = [] := List.isEmpty_iff.mp he
      subst this
      cases st <;> simp [candidates, firstMin]
    · simp only [he, Bool.false_eq_true, if_false, findBestPing_eq, findFirstWorking_eq, filter_working_false]
  refine ⟨hmain, ?_, ?_, ?_⟩
  · rintro rfl hne
    obtain ⟨r, pre, post, h1, h2, h3, h4⟩ := (firstMin_spec (candidates cs)).2 hne
    exact ⟨r, pre, post, by rw [hmain]; simp [specSelect, h1], h2, h3, h4⟩
  · rintro rfl r post h
    rw [hmain]; simp [specSelect, h]
  · intro h
    rw [hmain]; cases st <;> simp [specSelect, h, firstMin]

/-- **select_spec for the code as originally written** (`seqno+1` in uint32): the same rule, but only under the side
condition that no head is 2³²−1. -/
theorem select_spec_orig_partial (st : Strategy) (cs : List Conn) (prev : Option Conn)
    (h : ∀ c ∈ cs, c.seqno.toNat < 2 ^ 32 - 1) :
    updateBest true st cs prev = specSelect st cs prev := by
  rw [← (select_spec st cs prev).1]
  unfold updateBest
  by_cases he : cs.isEmpty
  · simp [he]
  · simp only [he, Bool.false_eq_true, if_false, findBestPing_eq, findFirstWorking_eq, filter_working_true cs h,
      filter_working_false]

/-- The full-strength statement for the code as written is FALSE (see `select_wrap_witness`). -/
def SelectSpecOrig : Prop :=
  ∀ (st : Strategy) (cs : List Conn) (prev : Option Conn), updateBest true st cs prev = specSelect st cs prev

/-- **select_wrap_witness**: behaviour of the code as written at seqno = 2³²−1. A single alive member whose head is
2³²−1 IS a candidate (it is the newest head), yet `seqno+1` wraps to 0, the member fails `0 >= maxSeqno` and the
previous choice (here: none) is kept, under both strategies — the negation of `SelectSpecOrig` on a concrete
witness. The repaired code selects it. Replayed on the Go code by the oracle `go.select.rule`. -/
theorem select_wrap_witness :
    let c : Conn := ⟨0, true, 0xFFFFFFFF#32, 1⟩
    candidates [c] = [c] ∧
    updateBest true .bestPing [c] none = none ∧ updateBest true .firstWorking [c] none = none ∧
    updateBest false .bestPing [c] none = some c ∧ updateBest false .firstWorking [c] none = some c ∧
    ¬ SelectSpecOrig := by
  refine ⟨by decide, by decide, by decide, by decide, by decide, ?_⟩
  intro h
  exact absurd (h .bestPing [⟨0, true, 0xFFFFFFFF#32, 1⟩] none) (by decide)

/-- The behaviour of the code as written at 2³²−1 in general: a member whose head is 2³²−1 is never chosen by a
refresh (whatever the other members are) — the result is the previous choice or a member with another head. -/
theorem select_wrap_never_newest (st : Strategy) (cs : List Conn) (prev : Option Conn) (r : Conn)
    (h : updateBest true st cs prev = some r) : prev = some r ∨ (r ∈ cs ∧ r.seqno ≠ 0xFFFFFFFF#32) := by
  unfold updateBest at h
  by_cases he : cs.isEmpty
  · simp [he] at h; exact Or.inl h
  · simp only [he, Bool.false_eq_true, if_false, findBestPing_eq, findFirstWorking_eq] at h
    have key : ∀ x, x ∈ cs.filter (fun c => c.alive && working true (maxSeqno cs) c) →
        x ∈ cs ∧ x.seqno ≠ 0xFFFFFFFF#32 := by
      intro x hx
      simp only [List.mem_filter, Bool.and_eq_true] at hx
      refine ⟨hx.1, fun hs => ?_⟩
      have := working_true_max (maxSeqno cs) x hs (le_maxSeqno hx.1)
      rw [this] at hx; exact absurd hx.2.2 (by simp)
    cases st with
    | other => exact Or.inl h
    | bestPing =>
      cases hf : firstMin (cs.filter (fun c => c.alive && working true (maxSeqno cs) c)) with
      | none => rw [hf] at h; exact Or.inl h
      | some x =>
        rw [hf] at h; simp only [Option.some.injEq] at h; subst h
        obtain ⟨pre, post, hl, _, _⟩ := firstMin_isFirstMin hf
        exact Or.inr (key x (by rw [hl]; simp))
    | firstWorking =>
      cases hf : (cs.filter (fun c => c.alive && working true (maxSeqno cs) c)).head? with
      | none => rw [hf] at h; exact Or.inl h
      | some x =>
        rw [hf] at h; simp only [Option.some.injEq] at h; subst h
        exact Or.inr (key x (List.mem_of_head? hf))

/-- non-vacuity of `select_spec_orig_partial` / a non-trivial configuration (test, not proof): three members, the
fastest is dead, the next fastest is two blocks behind, ties on rtt between the remaining two. -/
example :
    let cs : List Conn := [⟨0, true, 98#32, 5⟩, ⟨1, false, 100#32, 1⟩, ⟨2, true, 99#32, 7⟩, ⟨3, true, 100#32, 7⟩]
    (∀ c ∈ cs, c.seqno.toNat < 2 ^ 32 - 1) ∧ updateBest true .bestPing cs none = some ⟨2, true, 99#32, 7⟩ ∧
    updateBest false .firstWorking cs none = some ⟨2, true, 99#32, 7⟩ := by decide

/-! ## Part 2: the wait protocol (`TongoModel/PoolSM.lean`)

`PoolSM.orig` is the code as originally written, `PoolSM.fixed` the repaired code (non-blocking notifySubscribers
that keeps the newest head; SetMasterHead publishing after it released the connection mutex). `Reachable v s`: `s` is
reachable from an initial state with ANY number of connections, waiters and SetMasterHead callers by ANY sequence of
enabled actions (all interleavings). -/
open Tongo.PoolSM

/-! ### The selection clause against MOVING heads (round 2: `updateBest` is modelled read by read inside PoolSM) -/

/-- **select_spec_concurrent** (repaired code: one snapshot per refresh). Whatever SetMasterHead callers and the
environment do while the refresh runs, the store step of `updateBest` writes exactly the property's rule applied to
the snapshot `acc` the refresh has read — one entry per member, in configuration order, whose head is the one read in
the (single) reading loop and is a head that member really had (heads only grow, so it is `≤` the member's head now):
* `s'.best` = the id of `specSelect strategy acc none`, the previous choice when that is `none`;
* hence a NEWLY chosen member is alive (as read), at most one block behind EVERY head the pool read in this refresh,
  and is the least-rtt / first such member by `select_spec`.
There is no instant at which all heads are read together, so "the newest head known to the pool" can only mean the
newest head the refresh read; that is the strongest true statement. -/
theorem select_spec_concurrent (v : Variant) (hv : v.oneSnapshot = true) (s s' : State) (hr : Reachable v s)
    (hs : PoolSM.step v s .ubSet = some s') :
    ∃ i seqs rts acc, s.run = .ubSel i seqs rts acc ∧ acc.length = s.heads.length ∧ acc.map (·.seqno) = seqs ∧
      (∀ (k : Nat) (c : Conn), acc[k]? = some c → c.id = k ∧ c.seqno.toNat ≤ s.heads.getD k 0) ∧
      s'.best = (match specSelect s.strategy acc none with | some c => some c.id | none => s.best) ∧
      (∀ c, specSelect s.strategy acc none = some c →
        c ∈ acc ∧ c.alive = true ∧ (∀ d ∈ acc, d.seqno.toNat ≤ c.seqno.toNat + 1)) := by
  have hL := reachable_invL hr
  have hS := reachable_invS hv hr
  simp only [PoolSM.step] at hs
  split at hs
  · rename_i i seqs rts acc hrun
    obtain ⟨hlen, hok⟩ := hL.selOk i seqs rts acc hrun
    obtain ⟨hi, hsl, hsame⟩ := hS.selLen i seqs rts acc hrun
    split at hs
    · rename_i hge
      have hin : i = s.heads.length := by omega
      have hmap : acc.map (·.seqno) = seqs := by
        apply List.ext_getElem?
        intro k
        simp only [List.getElem?_map]
        cases hk : acc[k]? with
        | some c => simp [hsame k c hk]
        | none =>
          have : acc.length ≤ k := List.getElem?_eq_none_iff.mp hk
          simp [List.getElem?_eq_none (by omega : seqs.length ≤ k)]
      have hsel : selectWith false s.strategy (maxOfSeqs seqs) acc = specSelect s.strategy acc none := by
        rw [← hmap, maxOfSeqs_map, selectWith_eq_spec]
      have hcand : ∀ c, specSelect s.strategy acc none = some c →
          c ∈ acc ∧ c.alive = true ∧ (∀ d ∈ acc, d.seqno.toNat ≤ c.seqno.toNat + 1) := by
        intro c hc
        have hmem : c ∈ candidates acc := by
          unfold specSelect at hc
          cases hst : s.strategy with
          | other => rw [hst] at hc; cases hc
          | bestPing =>
            rw [hst] at hc
            cases hf : firstMin (candidates acc) with
            | none => rw [hf] at hc; cases hc
            | some x =>
              rw [hf] at hc; simp only [Option.some.injEq] at hc; subst hc
              obtain ⟨pre, post, hl, _, _⟩ := firstMin_isFirstMin hf
              rw [hl]; simp
          | firstWorking =>
            rw [hst] at hc
            cases hf : (candidates acc).head? with
            | none => rw [hf] at hc; cases hc
            | some x =>
              rw [hf] at hc; simp only [Option.some.injEq] at hc; subst hc
              exact List.mem_of_head? hf
        simp only [candidates, List.mem_filter, Bool.and_eq_true, current, List.all_eq_true,
          decide_eq_true_eq] at hmem
        exact ⟨hmem.1, hmem.2.1, hmem.2.2⟩
      refine ⟨i, seqs, rts, acc, hrun, by omega, hmap, hok.2, ?_, hcand⟩
      rw [hsel] at hs
      cases hsp : specSelect s.strategy acc none with
      | none => rw [hsp] at hs; cases hs; rfl
      | some c =>
        rw [hsp] at hs
        simp only at hs
        split at hs <;> (cases hs; rfl)
    · cases hs
  · cases hs

/-- the members of the two-pass witness: member 0 (rtt 1) at head 5, member 1 (rtt 2) at head 10 -/
def twoPassTrace : List Action :=
  [.tick, .ubLock, .ubRead, .ubRead, .ubRead, .sLock 0, .sSend 0, .sLock 1, .sSend 1, .ubSel, .ubSel, .ubSet]

/-- **select_two_pass_witness**: the ORIGINAL updateBest reads every head twice. Heads `[5, 10]`, best-ping, member 0
faster. The max loop reads 5 and 10 (max 10); then member 1 moves to 12 and member 0 to 9; the selection loop reads
9 (`9+1 ≥ 10`: accepted) and 12 and switches to member 0 — three blocks behind a head it has just read, at no instant
of the refresh within one block of the newest head. The repaired code (one snapshot) chooses member 1 on the same
schedule. Replayed on the Go code by `go.selectmv best-ping -1 1:5:1 1:10:2 m2:1:12 m2:0:9`. -/
theorem select_two_pass_witness :
    (runTrace ⟨true, true, false, true, true⟩ (mkInit [5, 10] none [] [(1, 12), (0, 9)] .bestPing [1, 2]) twoPassTrace).map
      (fun s => (s.best, s.heads)) = some (some 0, [9, 12]) ∧
    (runTrace fixed (mkInit [5, 10] none [] [(1, 12), (0, 9)] .bestPing [1, 2]) twoPassTrace).map
      (fun s => (s.best, s.heads)) = some (some 1, [9, 12]) := by
  constructor <;> decide


/-- deadlock freedom: in every reachable state some thread can take a step of its own, or every thread is finished or
parked in its select on an empty channel (then only a tick, a timer, a cancellation or a new head can happen) -/
def NoDeadlock (v : Variant) : Prop := ∀ s, Reachable v s → quiescent s = true ∨ CanStep v s

/-- the 15-step counterexample for the original notifySubscribers: one waiter (target 10), two heads (5, 6) -/
def deadlockTraceNotify : List Action :=
  [.wLock 0, .wSub 0, .sLock 0, .sSend 0, .recv, .nRLock, .nCheck, .nSend 0, .nDone, .sLock 1, .sSend 1, .recv, .nRLock,
   .nCheck, .wCancel 0]

/-- **no_deadlock is FALSE for the code as written** (defect #11). One waiter subscribes for seqno 10; head 5 is
published and delivered into its cap-1 channel (unread); head 6 is published, `Run` takes it and holds `RLock` in
notifySubscribers, blocked on the full channel; the waiter's context is cancelled and its deferred unsubscribe needs `Lock`.
In the reached state NO action of any thread is enabled — not even a tick or a timer (only a member's liveness
attributes can still change, which unblocks nothing) — and the waiter has not returned. The witness is evaluated by `decide`; replayed on the Go code by `go.wait.adv.cancel`. -/
theorem deadlock_orig_notify :
    ∃ s, Reachable orig s ∧ (∀ a, a.isAttr = false → PoolSM.step orig s a = none) ∧ quiescent s = false ∧
      ¬ CanStep orig s := by
  have h : (runTrace orig (mkInit [0] (some 0) [10] [(0, 5), (0, 6)]) deadlockTraceNotify).map (deadlocked orig)
      = some true := by decide
  cases hs : runTrace orig (mkInit [0] (some 0) [10] [(0, 5), (0, 6)]) deadlockTraceNotify with
  | none => rw [hs] at h; cases h
  | some s =>
    rw [hs] at h
    simp only [Option.map_some, Option.some.injEq] at h
    have hr : Reachable orig s :=
      reachable_of_runTrace _ (Reachable.init [0] (some 0) [10] [(0, 5), (0, 6)] .bestPing [] (by decide) (by decide) (by decide)) hs
    obtain ⟨h1, h2⟩ := deadlocked_spec h
    exact ⟨s, hr, h1, h2, fun ⟨a, hae, ha⟩ => by
      rw [h1 a (by cases a <;> simp_all [Action.isAttr, Action.isEnv])] at ha; cases ha⟩

theorem no_deadlock_orig_false : ¬ NoDeadlock orig := by
  intro h
  obtain ⟨s, hr, _, hq, hc⟩ := deadlock_orig_notify
  rcases h s hr with h | h
  · rw [hq] at h; cases h
  · exact hc h

/-- the counterexample for SetMasterHead publishing under the connection mutex: `Run` is inside updateBest (write
lock held) about to read the head of connection 0; ten heads fill `masterHeadUpdatedCh`; the eleventh caller holds
the connection mutex and blocks on the full channel; `Run` — the only receiver — blocks on that mutex. -/
def deadlockTracePublish : List Action :=
  [.tick, .ubLock] ++ (List.range 10).flatMap (fun j => [.sLock j, .sSend j]) ++ [.sLock 10]

/-- **the second deadlock**: it exists in the code as written and also when only notifySubscribers is repaired
(`⟨true, false, true, true, true⟩`), so both repairs are needed. No waiter is involved. Replayed on Go by `go.wait.adv.publish`. -/
theorem deadlock_orig_publish :
    (∃ s, Reachable orig s ∧ (∀ a, a.isAttr = false → PoolSM.step orig s a = none) ∧ quiescent s = false) ∧
    ¬ NoDeadlock ⟨true, false, true, true, true⟩ := by
  have key : ∀ v : Variant, v.pubUnlocked = false →
      ((runTrace v (mkInit [0] (some 0) [] ((List.range 11).map (fun k => (0, k + 1)))) deadlockTracePublish).map
        (deadlocked v) = some true) →
      ∃ s, Reachable v s ∧ (∀ a, a.isAttr = false → PoolSM.step v s a = none) ∧ quiescent s = false := by
    intro v _ h
    cases hs : runTrace v (mkInit [0] (some 0) [] ((List.range 11).map (fun k => (0, k + 1)))) deadlockTracePublish with
    | none => rw [hs] at h; cases h
    | some s =>
      rw [hs] at h
      simp only [Option.map_some, Option.some.injEq] at h
      obtain ⟨h1, h2⟩ := deadlocked_spec h
      exact ⟨s, reachable_of_runTrace _ (Reachable.init [0] (some 0) [] _ .bestPing [] (by decide) (by decide) (by decide)) hs, h1, h2⟩
  refine ⟨key orig rfl (by decide), ?_⟩
  intro h
  obtain ⟨s, hr, h1, hq⟩ := key ⟨true, false, true, true, true⟩ rfl (by decide)
  rcases h s hr with h | ⟨a, hae, ha⟩
  · rw [hq] at h; cases h
  · rw [h1 a (by cases a <;> simp_all [Action.isAttr, Action.isEnv])] at ha; cases ha

/-- **no_deadlock** (repaired code; any number of connections, waiters, head updates; every interleaving): an
inductive invariant (lock ownership ↔ program counters, no connection mutex held across a step, Run's iteration
ranges over existing waiters), not a bounded exploration. -/
theorem no_deadlock : NoDeadlock fixed :=
  fun _ hr => no_deadlock_reachable rfl rfl hr

/-- **wait_outcomes** (both code variants, every reachable state, every waiter `i`):
* it returns / is about to return `ok` only after it received a head `h ≥ target`, and that head was offered to it
  (by subscribe's short circuit or by notifySubscribers) on behalf of a connection `c` that was the best one at that
  moment (`offer_is_from_best`) and had stored a head `≥ h`;
* it returns `err` only after its timer or its context fired;
* while it is still in its select everything it received so far is below its target;
* it never leaves with a panic once subscribed. -/
theorem wait_outcomes (v : Variant) (s : State) (hr : Reachable v s) (i : Nat) (w : Waiter)
    (hw : s.waiters[i]? = some w) :
    ((w.pc = .leave .ok ∨ w.pc = .done .ok) →
        ∃ h ∈ w.received, w.target ≤ h ∧ ∃ c, (i, c, h) ∈ s.log ∧ h ≤ s.heads.getD c 0) ∧
    ((w.pc = .leave .err ∨ w.pc = .done .err) → w.fired = true) ∧
    (w.pc = .sel → ∀ h ∈ w.received, h < w.target) ∧
    w.pc ≠ .leave .panic := by
  have hO := reachable_invO hr
  have hL := reachable_invL hr
  refine ⟨fun hp => ?_, hO.errFired i w hw, hO.selLow i w hw, hO.noLeavePanic i w hw⟩
  obtain ⟨h, hmem, hge⟩ := hO.okGot i w hw hp
  obtain ⟨c, hc⟩ := hO.prov i w hw h (Or.inr hmem)
  exact ⟨h, hmem, hge, c, hc, hL.logLe _ hc⟩

/-- every entry of the ghost log is appended at a step at which the named connection is the best one -/
theorem offer_is_from_best (v : Variant) (s s' : State) (a : Action) (hr : Reachable v s)
    (hs : PoolSM.step v s a = some s') :
    s'.log = s.log ∨ ∃ i c h, s'.log = s.log ++ [(i, c, h)] ∧ s.best = some c :=
  log_step (reachable_invL hr) hs

/-- `subscribe` short-circuits when the head is already there: the waiter is not registered, finds the head in its
own channel and its next receive decides `ok`. -/
theorem subscribe_short_circuit (v : Variant) (s : State) (i c : Nat) (x : Waiter)
    (hx : s.waiters[i]? = some x) (hpc : x.pc = .subRead) (hb : s.best = some c) (hf : connFree s c = true)
    (hge : x.target ≤ s.heads.getD c 0) :
    ∃ s' x', PoolSM.step v s (.wSub i) = some s' ∧ s'.waitList = s.waitList ∧ s'.rw = .free ∧
      s'.waiters[i]? = some x' ∧ x'.pc = .sel ∧ x'.buf = [s.heads.getD c 0] ∧ x'.wid = 0 ∧
      ∃ s'' x'', PoolSM.step v s' (.wRecv i) = some s'' ∧ s''.waiters[i]? = some x'' ∧ x''.pc = .leave .ok := by
  have hlt : i < s.waiters.length := (List.getElem?_eq_some_iff.mp hx).1
  let x' : Waiter := { x with pc := .sel, buf := [s.heads.getD c 0], wid := 0, timer := .armed }
  let s' : State := { (s.setW i x') with rw := .free, log := s.log ++ [(i, c, s.heads.getD c 0)] }
  have h1 : PoolSM.step v s (.wSub i) = some s' := by
    simp only [PoolSM.step, hx, hpc, hb, hf, hge, if_true]
    rfl
  have hx' : s'.waiters[i]? = some x' := by
    show (s.waiters.set i x')[i]? = some x'
    simp [hlt]
  let tm : Timer := Timer.armed
  let x'' : Waiter := { x' with buf := [], pc := WPc.leave WRes.ok, timer := tm, received := s.heads.getD c 0 :: x'.received }
  have h2 : PoolSM.step v s' (.wRecv i) = some (s'.setW i x'') := by
    have hge' : x.target ≤ s.heads[c]?.getD 0 := by simpa [List.getD_eq_getElem?_getD] using hge
    simp only [PoolSM.step, hx']
    simp [x', x'', tm, hge']
  refine ⟨s', x', h1, rfl, rfl, hx', rfl, rfl, rfl, s'.setW i x'', x'', h2, ?_, rfl⟩
  show (s'.waiters.set i x'')[i]? = some x''
  have : i < s'.waiters.length := (List.getElem?_eq_some_iff.mp hx').1
  simp [this]

/-- **subscribe_atomic**: `subscribe` checks the head and registers the channel in ONE critical section. While a
waiter is between `p.mu.Lock()` and the end of subscribe (`subRead`) it owns the write lock, `Run` is not inside
notifySubscribers and cannot enter it (no notify action is enabled), and the single step that follows both decides and
registers: afterwards the waiter either holds a head `≥ target` in its own channel (short circuit) or its channel is in
the wait list — so no head processed by `Run` can fall between the check and the registration (no lost wake-up;
replayed on Go by `go.wait.adv.subscribe`). -/
theorem subscribe_atomic (v : Variant) (s : State) (hr : Reachable v s) (i : Nat) (w : Waiter)
    (hw : s.waiters[i]? = some w) (hpc : w.pc = .subRead) :
    s.rw = .wrW i ∧
    PoolSM.step v s .nRLock = none ∧ PoolSM.step v s .nCheck = none ∧ PoolSM.step v s .nPut = none ∧
    PoolSM.step v s .nDone = none ∧
    (∀ k, PoolSM.step v s (.nSend k) = none ∧ PoolSM.step v s (.nDrain k) = none) ∧
    (∀ s', PoolSM.step v s (.wSub i) = some s' → s'.rw = .free ∧ ∃ x', s'.waiters[i]? = some x' ∧
      (x'.pc = .done .panic ∨
       (x'.pc = .sel ∧ ((x'.wid = 0 ∧ ∃ h ∈ x'.buf, w.target ≤ h) ∨ (x'.wid, i) ∈ s'.waitList)))) := by
  have hA := reachable_invA hr
  have hrw : s.rw = .wrW i := (hA.l1 i w hw).mp hpc
  have hl4 := hA.l4
  have hl3 := hA.l3
  have hlt : i < s.waiters.length := (List.getElem?_eq_some_iff.mp hw).1
  refine ⟨hrw, ?_, ?_, ?_, ?_, ?_, ?_⟩
  · simp only [PoolSM.step]; grind [RunPc.lockW, RunPc.lockR]
  · simp only [PoolSM.step]; grind [RunPc.lockW, RunPc.lockR]
  · simp only [PoolSM.step]; grind [RunPc.lockW, RunPc.lockR]
  · simp only [PoolSM.step]; grind [RunPc.lockW, RunPc.lockR]
  · intro k; constructor <;> (simp only [PoolSM.step]; grind [RunPc.lockW, RunPc.lockR])
  · intro s' hs
    simp only [PoolSM.step, hw, hpc, if_true] at hs
    split at hs
    · cases hs
      exact ⟨rfl, { w with pc := .done .panic }, by simp [State.setW, hlt], Or.inl rfl⟩
    · rename_i c _
      split at hs
      · split at hs
        · rename_i hge
          cases hs
          exact ⟨rfl, { w with pc := .sel, buf := [s.heads.getD c 0], wid := 0, timer := .armed }, by simp [State.setW, hlt],
            Or.inr ⟨rfl, Or.inl ⟨rfl, s.heads.getD c 0, by simp, hge⟩⟩⟩
        · cases hs
          exact ⟨rfl, { w with pc := .sel, wid := s.nextId + 1, timer := .armed }, by simp [State.setW, hlt],
            Or.inr ⟨rfl, Or.inr (by simp [State.setW])⟩⟩
      · cases hs

/-- **publish_not_dropped** (repaired SetMasterHead): once a caller has stored its head (`sendUnlocked`) the only way
it ever leaves that point is the channel send, which appends exactly its update `(conn, head)` to
`masterHeadUpdatedCh`; no other action moves or discards it, and the send is enabled exactly when the channel has room
(it waits, holding no lock, otherwise — and `no_deadlock` shows Run then drains). A `select … default` send that
drops the update when the channel is full is NOT this model (replayed on Go by `go.wait.adv.queue`). -/
theorem publish_not_dropped (v : Variant) (s s' : State) (a : Action) (j : Nat) (x : Setter)
    (hs : PoolSM.step v s a = some s') (hx : s.setters[j]? = some x) (hpc : x.pc = .sendUnlocked) :
    (s'.setters[j]? = some x ∨
      (a = .sSend j ∧ s'.upd = s.upd ++ [(x.conn, x.head)] ∧ s'.setters[j]? = some { x with pc := .done })) ∧
    ((PoolSM.step v s (.sSend j)).isSome = true ↔ s.upd.length < updCap) := by
  constructor
  · cases a <;> step_cases hs <;> grind [State.setW, State.setS]
  · simp only [PoolSM.step, hx, hpc]
    split <;> simp_all

/-- **offered_head_not_lost** (called `eventually_notified` in the design; renamed because it is conditional on a head
having been OFFERED — that the head of the best connection is offered at all is `no_lost_wakeup`).
Nothing notifySubscribers offers is lost. If a head `m ≥ target` has
been offered to a waiter that is still in its select, then a head `≥ target` is in its channel, or `Run` is between
its two selects about to put one there into the (empty) channel — so the waiter's receive case is, or is about to
be, ready, and that receive decides `ok` (`wait_outcomes`). The drop-on-full variant
`select { case ch <- v: default: }` does NOT have this property (it keeps the oldest head). -/
theorem offered_head_not_lost (v : Variant) (s : State) (hr : Reachable v s) (i : Nat) (w : Waiter)
    (hw : s.waiters[i]? = some w) (hsel : w.pc = .sel) (m : Nat) (hoff : w.offered = some m) (hm : w.target ≤ m) :
    (∃ h ∈ w.buf, w.target ≤ h) ∨
    (∃ sw h h' todo, s.run = .nPut sw h h' i todo ∧ w.target ≤ h' ∧ w.buf = []) := by
  have hE := reachable_invE hr
  have hO := reachable_invO hr
  rcases hE.kept i w hw hsel m hoff with ⟨h, hmem, hle⟩ | hc | ⟨h, hmem, hle⟩
  · exact Or.inl ⟨h, hmem, Nat.le_trans hm hle⟩
  · right
    unfold carriedGe at hc
    split at hc
    · rename_i sw h0 h' w0 todo hrun
      simp only [Bool.and_eq_true, beq_iff_eq, decide_eq_true_eq] at hc
      obtain ⟨rfl, hle⟩ := hc
      exact ⟨sw, h0, h', todo, hrun, Nat.le_trans hm hle, hE.putEmpty _ _ _ _ _ hrun w hw⟩
    · cases hc
  · have := hO.selLow i w hw hsel h hmem
    omega

/-- **no_lost_wakeup** (repaired code, every reachable state, every interleaving): if a waiter is registered and in
its select and the best connection is at or beyond its target, then a head `≥ target`
* is in its channel, or is carried by `Run` for that channel, or is being handed out (by notifySubscribers or by the
  refresh that switched the choice) with this waiter not served yet, or
* is still on its way for the best connection: stored by a SetMasterHead caller that has not published yet, in
  `masterHeadUpdatedCh`, or just received by `Run`.
This is the missing link before `wait_success_spec`: "the best connection reports a head ≥ target while the waiter
is subscribed" implies the premise of `wait_success_spec` now or after finitely many steps of the pipeline
(`publish_not_dropped`, `no_deadlock`). Needs all of: subscribe in one critical section (`subscribe_atomic`),
publication never dropped, ids starting at 1 and unique (`InvR`), one snapshot per refresh and the notification on a
switch; without the latter it is false (`lost_wakeup_switch_witness`). -/
theorem no_lost_wakeup (s : State) (hr : Reachable fixed s) (i : Nat) (w : Waiter) (c : Nat)
    (hw : s.waiters[i]? = some w) (hsel : w.pc = .sel) (hreg : w.wid ≠ 0) (hb : s.best = some c)
    (hle : w.target ≤ s.heads.getD c 0) :
    (∃ h ∈ w.buf, w.target ≤ h) ∨
    (∃ sw h h' todo, s.run = .nPut sw h h' i todo ∧ w.target ≤ h') ∨
    (∃ sw h todo, s.run = .nLoop sw h todo ∧ i ∈ todo ∧ w.target ≤ h) ∨
    (∃ sw h h' x todo, s.run = .nPut sw h h' x todo ∧ i ∈ todo ∧ w.target ≤ h) ∨
    (∃ (j : Nat) (x : Setter), s.setters[j]? = some x ∧ x.pc = .sendUnlocked ∧ x.conn = c ∧ w.target ≤ x.head) ∨
    (∃ e ∈ s.upd, e.1 = c ∧ w.target ≤ e.2) ∨
    (∃ h, (s.run = .nWant c h ∨ s.run = .nCheck c h) ∧ w.target ≤ h) := by
  have hW := (reachable_woken (v := fixed) rfl rfl rfl hr).1
  have hNS := noSendLocked_of (v := fixed) rfl hr
  rcases hW i w c hw hsel hreg hb hle with h1 | ⟨j, x, hx, hp, hc, ht⟩ | ⟨e, he, hc, ht⟩ | h4
  · simp only [Bool.or_eq_true] at h1
    rcases h1 with (h1 | h1) | h1
    · left
      unfold bufGe at h1
      split at h1
      · rename_i u rest hbuf; exact ⟨u, by rw [hbuf]; simp, by simpa using h1⟩
      · cases h1
    · obtain ⟨sw, h0, h', todo, hrun, hle'⟩ := carriedGe_spec h1
      exact Or.inr (Or.inl ⟨sw, h0, h', todo, hrun, hle'⟩)
    · unfold preGe at h1
      split at h1
      · rename_i sw h0 todo hrun
        simp only [Bool.and_eq_true, decide_eq_true_eq] at h1
        exact Or.inr (Or.inr (Or.inl ⟨sw, h0, todo, hrun, h1.1, h1.2⟩))
      · rename_i sw h0 h' x todo hrun
        simp only [Bool.and_eq_true, decide_eq_true_eq] at h1
        exact Or.inr (Or.inr (Or.inr (Or.inl ⟨sw, h0, h', x, todo, hrun, h1.1, h1.2⟩)))
      · cases h1
  · rcases hp with hp | hp
    · exact Or.inr (Or.inr (Or.inr (Or.inr (Or.inl ⟨j, x, hx, hp, hc, ht⟩))))
    · exact absurd hp (hNS j x hx)
  · exact Or.inr (Or.inr (Or.inr (Or.inr (Or.inr (Or.inl ⟨e, he, hc, ht⟩)))))
  · unfold pendRun at h4
    split at h4
    · rename_i c' h0 hrun
      simp only [Bool.and_eq_true, beq_iff_eq, decide_eq_true_eq] at h4
      exact Or.inr (Or.inr (Or.inr (Or.inr (Or.inr (Or.inr ⟨h0, Or.inl (by rw [hrun, h4.1]), h4.2⟩)))))
    · rename_i c' h0 hrun
      simp only [Bool.and_eq_true, beq_iff_eq, decide_eq_true_eq] at h4
      exact Or.inr (Or.inr (Or.inr (Or.inr (Or.inr (Or.inr ⟨h0, Or.inr (by rw [hrun, h4.1]), h4.2⟩)))))
    · cases h4

/-- **lost_wakeup_switch_witness**: the code before the notify-on-switch repair. A waiter for seqno 8 registers while
the best connection 0 is at 5; connection 1 is at 9; connection 0 dies and a refresh switches to connection 1.
Afterwards the waiter is registered and in its select, the best connection is beyond its target, and NOTHING is in
its channel or on its way: the invariant of `no_lost_wakeup` fails (the waiter is woken only by connection 1's next
head). Replayed on Go by `go.wait.script best-ping 5/9 0 w:0:8:L t:2:1.1`. -/
def lostWakeupTrace : List Action :=
  [.wLock 0, .wSub 0, .setAlive 0 false, .tick, .ubLock, .ubRead, .ubRead, .ubRead, .ubSel, .ubSel, .ubSet]

theorem lost_wakeup_switch_witness :
    let r := runTrace ⟨true, true, true, false, true⟩ (mkInit [5, 9] (some 0) [8] []) lostWakeupTrace
    r.map (fun s => (s.best, s.heads)) = some (some 1, [5, 9]) ∧
    r.map (fun s => (s.run == .idle, s.upd.length, s.setters.length)) = some (true, 0, 0) ∧
    r.map (fun s => s.waiters.map (fun w => (w.pc == .sel, w.wid, w.buf.length, w.target))) = some [(true, 1, 0, 8)] := by
  refine ⟨by decide, by decide, by decide⟩

/-- **wait_success_spec** (liveness of the repaired protocol under explicit fairness). Take any infinite execution
of the repaired model (any interleaving of any number of waiters, SetMasterHead callers, ticks, liveness changes) in
which `Run` is weakly fair (it is not ignored forever while it can move) and the waiter's receive is strongly fair
(Go hands a sent value directly to a receiver blocked in its select; over the model's buffered channel that is strong
fairness of the receive — weak fairness is not enough because `Run` may take the head back and put a newer one
again and again). If at some moment waiter `i` is in its select and a head `h ≥ target` of the best connection
* is in its channel (this covers "reported before": subscribe's short circuit puts it there), or
* is being handed out by notifySubscribers / by updateBest after a switch and `i` has not been served yet, or
* is carried by `Run` between its two selects for `i`'s channel,
and neither its timer nor its context fires afterwards, then the waiter's result becomes `ok`. Together with
`wait_outcomes` (ok only for a head ≥ target, err only after timer/ctx), `no_deadlock` and `wait_returns` (the
deferred unsubscribe after the decision gets the pool lock). -/
theorem wait_success_spec (e : Exec fixed) (i n0 : Nat) (w : Waiter)
    (hfR : WeakFair e RunAct) (hfW : StrongFair e (RecvAct i))
    (hnofire : ∀ m, n0 ≤ m → e.act m ≠ .wFire i ∧ e.act m ≠ .wCancel i)
    (hw : (e.st n0).waiters[i]? = some w) (hsel : w.pc = .sel)
    (hoff : (∃ h ∈ w.buf, w.target ≤ h) ∨
      (∃ sw h todo, (e.st n0).run = .nLoop sw h todo ∧ i ∈ todo ∧ w.target ≤ h) ∨
      (∃ sw h h' x todo, (e.st n0).run = .nPut sw h h' x todo ∧ i ∈ todo ∧ w.target ≤ h) ∨
      (∃ sw h h' todo, (e.st n0).run = .nPut sw h h' i todo ∧ w.target ≤ h')) :
    ∃ m, n0 ≤ m ∧ ∃ w', (e.st m).waiters[i]? = some w' ∧ (w'.pc = .leave .ok ∨ w'.pc = .done .ok) := by
  have hA := reachable_invA (e.reachable n0)
  have hg : Good (e.st n0) i := by
    intro w0 hw0
    rw [hw] at hw0; cases hw0
    refine Or.inl ⟨hsel, ?_⟩
    simp only [Bool.or_eq_true]
    rcases hoff with ⟨h, hmem, hle⟩ | ⟨sw, h, todo, hr, hi, hle⟩ | ⟨sw, h, h', x, todo, hr, hi, hle⟩ |
        ⟨sw, h, h', todo, hr, hle⟩
    · right
      have hc := hA.cap1 i w hw
      unfold bufGe
      cases hb : w.buf with
      | nil => rw [hb] at hmem; cases hmem
      | cons u rest =>
        rw [hb] at hmem hc
        have : rest = [] := by cases rest <;> simp_all
        subst this
        simp at hmem; subst hmem
        simpa using hle
    · left; left; simp [preGe, hr, hi, hle]
    · left; left; simp [preGe, hr, hi, hle]
    · left; right; simp [carriedGe, hr, hle]
  obtain ⟨m, hm, hd⟩ := decided_eventually (v := fixed) rfl e i n0 hnofire hfR hfW ⟨w, hw⟩ hg
  obtain ⟨w', hw'⟩ := exec_waiter_some e i n0 ⟨w, hw⟩ m hm
  exact ⟨m, hm, w', hw', hd w' hw'⟩

/-! ### the timeout clause: the timer is state (round 4) -/

/-- a waiter for seqno 10 whose timeout elapses and who then receives head 6 (below its target) -/
def rearmTrace : List Action :=
  [.wLock 0, .wSub 0, .wDeadline 0, .sLock 0, .sSend 0, .recv, .nRLock, .nCheck, .nDrain 0, .nPut, .wRecv 0]

/-- **timer_rearm_witness**: the ORIGINAL `WaitMasterchainSeqno` evaluates `time.After(timeout)` inside its loop. On
`rearmTrace` the timeout has elapsed, then a head below the target is received: in the original code the timer is
running again and the select cannot take the timer case (`wFire` disabled) — and so on with every further head: the
call does not return "once its timeout has elapsed". In the repaired code (one timer) the timeout stays elapsed and
`wFire` is enabled. Reproduced on Go by `go.wait.deadline 200 100 1`. -/
theorem timer_rearm_witness :
    (runTrace ⟨true, true, true, true, false⟩ (mkInit [5] (some 0) [10] [(0, 6)]) rearmTrace).map
      (fun s => (s.waiters.map (·.timer), (PoolSM.step ⟨true, true, true, true, false⟩ s (.wFire 0)).isSome))
      = some ([.armed], false) ∧
    (runTrace fixed (mkInit [5] (some 0) [10] [(0, 6)]) rearmTrace).map
      (fun s => (s.waiters.map (·.timer), (PoolSM.step fixed s (.wFire 0)).isSome)) = some ([.due], true) := by
  constructor <;> decide

/-- **timeout_bounded** (repaired code). Once the timeout of waiter `i` has elapsed while it is in its select
(`wDeadline` has happened):
* no step of anybody re-arms it: in every later state the waiter is still in its select with the timeout elapsed, or
  it has left the select (`leave`/`done`);
* as long as it is in the select the timer case is enabled (`wFire`), so its own steps are: receive a head below the
  target (stays, timeout still elapsed), receive a head ≥ target (`leave ok`), take the timer (`leave err`);
* in every execution in which that select is weakly fair the waiter leaves the select; with `wait_returns` it returns.
The elapsed real time between the deadline and the return is the scheduler's (outside the model; measured by the
oracle `go.wait.deadline`). -/
theorem timeout_bounded (e : Exec fixed) (i n0 : Nat)
    (hw : ∃ w, (e.st n0).waiters[i]? = some w ∧ w.pc = .sel ∧ w.timer = .due) :
    (∀ m, n0 ≤ m → ∀ w, (e.st m).waiters[i]? = some w →
      (w.pc = .sel ∧ w.timer = .due ∧ (PoolSM.step fixed (e.st m) (.wFire i)).isSome = true) ∨
      (∃ r, w.pc = .leave r) ∨ (∃ r, w.pc = .done r)) ∧
    (WeakFair e (FireAct i) →
      ∃ m, n0 ≤ m ∧ ∃ w, (e.st m).waiters[i]? = some w ∧ ((∃ r, w.pc = .leave r) ∨ ∃ r, w.pc = .done r)) := by
  obtain ⟨w0, hw0, hp0, ht0⟩ := hw
  refine ⟨?_, fun hf => timeout_leaves (v := fixed) rfl e i n0 hf ⟨w0, hw0, hp0, ht0⟩⟩
  intro m hm
  obtain ⟨d, rfl⟩ := Nat.exists_eq_add_of_le hm
  have hd : DueOrLeft (e.st (n0 + d)) i := by
    induction d with
    | zero => intro w hw; rw [Nat.add_zero, hw0] at hw; cases hw; exact Or.inl ⟨hp0, ht0⟩
    | succ d ih => exact due_step (v := fixed) rfl i (ih (Nat.le_add_right _ _)) (e.ok (n0 + d))
  intro w hw
  rcases hd w hw with ⟨hp, ht⟩ | h
  · exact Or.inl ⟨hp, ht, fire_enabled hw hp ht⟩
  · exact Or.inr h

/-- **wait_returns**: the decided waiter returns. After the decision (`leave r`) the deferred unsubscribe needs the
pool's write lock. If `Run` and every subscribing waiter are weakly fair they release the lock again and again
(`Run`'s critical sections terminate: measure over the remaining reads / channels; a subscriber finishes its one
step), and with strong fairness of the waiter's own lock acquisition (Go's mutex does not starve a waiting locker)
the unsubscribe happens: the call returns `r`. With `wait_success_spec`: a fair execution returns success. -/
theorem wait_returns (e : Exec fixed) (i n0 : Nat) (r : WRes)
    (hfR : WeakFair e RunAct) (hfS : ∀ k, WeakFair e (SubAct k)) (hfU : StrongFair e (UnsubAct i))
    (hw : ∃ w, (e.st n0).waiters[i]? = some w ∧ w.pc = .leave r) :
    ∃ m, n0 ≤ m ∧ ∃ w, (e.st m).waiters[i]? = some w ∧ w.pc = .done r :=
  returns_eventually (v := fixed) rfl rfl e hfR hfS i n0 r hfU hw

/-! ### non-vacuity of the liveness theorems: explicit fair infinite executions (`Lemmas/PoolSMFairExample.lean`) -/

/-- `wait_success_spec` and `wait_returns` instantiated on an explicit execution: a waiter for seqno 6 registers on a
pool at head 5, head 6 is published, `Run` notifies, the waiter receives and unsubscribes, then only the environment
acts forever. All fairness hypotheses are PROVED for this execution; the conclusions hold non-vacuously (from step 7,
where notifySubscribers iterates with head 6 and has not served the waiter yet). -/
theorem liveness_nonvacuous :
    (∃ m, 7 ≤ m ∧ ∃ w', (FairExample.exec.st m).waiters[0]? = some w' ∧ (w'.pc = .leave .ok ∨ w'.pc = .done .ok)) ∧
    (∃ m, 11 ≤ m ∧ ∃ w', (FairExample.exec.st m).waiters[0]? = some w' ∧ w'.pc = .done .ok) := by
  constructor
  · exact wait_success_spec FairExample.exec 0 7
      { target := 6, pc := .sel, wid := 1, timer := .armed } FairExample.fairRun FairExample.fairRecv
      FairExample.nofire (by decide) rfl (Or.inr (Or.inl ⟨false, 6, [0], by decide, by decide, by decide⟩))
  · exact wait_returns FairExample.exec 0 11 .ok FairExample.fairRun FairExample.fairSub FairExample.fairUnsub
      ⟨{ target := 6, pc := .leave .ok, wid := 1, timer := .armed, received := [6], offered := some 6 },
        by decide, rfl⟩

/-- `timeout_bounded` instantiated on an explicit fair execution in which the timeout elapses at step 3 -/
theorem timeout_nonvacuous :
    ∃ m, 3 ≤ m ∧ ∃ w, (FairExample2.exec.st m).waiters[0]? = some w ∧ ((∃ r, w.pc = .leave r) ∨ ∃ r, w.pc = .done r) :=
  (timeout_bounded FairExample2.exec 0 3
    ⟨{ target := 6, pc := .sel, wid := 1, timer := .due }, by decide, rfl, rfl⟩).2 FairExample2.fairFire

/-- **indices_in_range**: in every reachable state every index the model dereferences with a default (`getD`,
`[i]?`, `List.set`) is in range: the best connection and every SetMasterHead caller name an existing member, every
wait-list entry and every channel `Run` still has to serve belongs to an existing waiter — the defaults are dead
code, no out-of-range access is hidden by totalisation. (Go cannot index out of range here either: these are pointers
and map entries.) -/
theorem indices_in_range (v : Variant) (s : State) (hr : Reachable v s) :
    (∀ c, s.best = some c → c < s.heads.length) ∧
    (∀ (j : Nat) (x : Setter), s.setters[j]? = some x → x.conn < s.heads.length) ∧
    (∀ e ∈ s.waitList, e.2 < s.waiters.length) ∧
    (∀ sw h todo, s.run = .nLoop sw h todo → ∀ w ∈ todo, w < s.waiters.length) ∧
    (∀ sw h h' w todo, s.run = .nPut sw h h' w todo → w < s.waiters.length) := by
  have hL := reachable_invL hr
  have hA := reachable_invA hr
  refine ⟨hL.bestOk, hL.connOk, ?_, ?_, ?_⟩
  · intro e he
    obtain ⟨x, hx, _⟩ := hA.vWl e he
    exact (List.getElem?_eq_some_iff.mp hx).1
  · intro sw h todo hrun w hw
    obtain ⟨x, hx, _⟩ := hA.vLoop sw h todo hrun w hw
    exact (List.getElem?_eq_some_iff.mp hx).1
  · intro sw h h' w todo hrun
    obtain ⟨⟨x, hx, _⟩, _⟩ := hA.vPut sw h h' w todo hrun
    exact (List.getElem?_eq_some_iff.mp hx).1

/-! ### pool start-up (`addConnection`) -/

theorem insertId_mem (id x : Nat) (l : List Nat) : x ∈ insertId id l ↔ x = id ∨ x ∈ l := by
  induction l with
  | nil => simp [insertId]
  | cons y ys ih =>
    unfold insertId
    split
    · simp
    · simp only [List.mem_cons, ih]
      constructor
      · rintro (h | h | h)
        · exact Or.inr (Or.inl h)
        · exact Or.inl h
        · exact Or.inr (Or.inr h)
      · rintro (h | h | h)
        · exact Or.inr (Or.inl h)
        · exact Or.inl h
        · exact Or.inr (Or.inr h)

theorem insertId_sorted (id : Nat) (l : List Nat) (h : l.Pairwise (· ≤ ·)) : (insertId id l).Pairwise (· ≤ ·) := by
  induction l with
  | nil => simp [insertId]
  | cons y ys ih =>
    unfold insertId
    split
    · rename_i hlt
      refine List.Pairwise.cons ?_ h
      intro z hz
      rcases List.mem_cons.mp hz with rfl | hz
      · omega
      · have := (List.pairwise_cons.mp h).1 z hz; omega
    · rename_i hge
      refine List.Pairwise.cons ?_ (ih (List.pairwise_cons.mp h).2)
      intro z hz
      rcases (insertId_mem id z ys).mp hz with rfl | hz
      · omega
      · exact (List.pairwise_cons.mp h).1 z hz

/-- **start_order_and_best**: whatever the order in which the connections arrive, `addConnection` leaves the members
ordered by id — the configuration order the property's first-working clause speaks about — containing exactly the
connections that arrived, and the initial best connection is the FIRST one that arrived: a pool with at least one
member has a best connection before its first refresh (hypothesis `best = some c` of `no_nil_deref`,
`Reachable.init`). Tied to the source by `PoolConsts.addConnection_ok`; the real `addConnection` is executed by every
pool the harness builds (`pool.start`, `go.pool.order`). -/
theorem start_order_and_best (arrival : List Nat) :
    (startPool arrival).1.Pairwise (· ≤ ·) ∧ (∀ x, x ∈ (startPool arrival).1 ↔ x ∈ arrival) ∧
    (startPool arrival).2 = arrival.head? := by
  have gen : ∀ (st : List Nat × Option Nat), st.1.Pairwise (· ≤ ·) → (st.1 = [] → st.2 = none) →
      (st.1 ≠ [] → st.2 ≠ none) →
      (arrival.foldl addConn st).1.Pairwise (· ≤ ·) ∧
      (∀ x, x ∈ (arrival.foldl addConn st).1 ↔ x ∈ st.1 ∨ x ∈ arrival) ∧
      (arrival.foldl addConn st).2 = (if st.1 = [] then arrival.head? else st.2) := by
    induction arrival with
    | nil =>
      intro st hs h0 _
      refine ⟨hs, by simp, ?_⟩
      by_cases hl : st.1 = []
      · simp [hl, h0 hl]
      · simp [hl]
    | cons a as ih =>
      intro st hs h0 h1
      have hne : insertId a st.1 ≠ [] := by
        intro hh
        have := (insertId_mem a a st.1).mpr (Or.inl rfl)
        rw [hh] at this; cases this
      have hlen : (insertId a st.1).length = 1 ↔ st.1 = [] := by
        cases hl : st.1 with
        | nil => simp [insertId]
        | cons y ys =>
          simp only [insertId]
          split <;> simp
          · have := (insertId_mem a a ys).mpr (Or.inl rfl)
            intro hh; rw [hh] at this; cases this
      obtain ⟨r1, r2, r3⟩ := ih (addConn st a) (insertId_sorted a st.1 hs) (fun hh => absurd hh hne)
        (fun _ => by
          simp only [addConn]
          split
          · simp
          · rename_i hnl; exact h1 (fun hh => hnl (hlen.mpr hh)))
      refine ⟨by simpa [List.foldl_cons] using r1, ?_, ?_⟩
      · intro x
        rw [List.foldl_cons, r2]
        simp only [addConn, insertId_mem, List.mem_cons]
        constructor
        · rintro ((h | h) | h)
          · exact Or.inr (Or.inl h)
          · exact Or.inl h
          · exact Or.inr (Or.inr h)
        · rintro (h | h | h)
          · exact Or.inl (Or.inr h)
          · exact Or.inl (Or.inl h)
          · exact Or.inr h
      · rw [List.foldl_cons, r3]
        simp only [addConn, hne, if_false]
        by_cases hl : st.1 = []
        · have h1' := hlen.mpr hl
          simp only [hl, if_true, List.head?_cons]
          rw [hl] at h1'
          simp [h1']
        · simp [hl, mt hlen.mp hl]
  obtain ⟨g1, g2, g3⟩ := gen ([], none) List.Pairwise.nil (fun _ => rfl) (fun h => absurd rfl h)
  exact ⟨g1, by intro x; rw [show startPool arrival = arrival.foldl addConn ([], none) from rfl, g2]; simp,
    by rw [show startPool arrival = arrival.foldl addConn ([], none) from rfl, g3]; simp⟩

/-- with a best connection chosen initially (which `addConnection` guarantees for a non-empty pool:
`start_order_and_best`, tied to the source by the regenerated obligation `PoolConsts.addConnection_ok`) no waiter ever
dereferences a nil `bestConn`: `subscribe` does not panic. (On an EMPTY pool `WaitMasterchainSeqno` does panic —
`p.bestConn.MasterHead()` on a nil interface; outside the property's quantifier, noted in the report.) -/
theorem no_nil_deref (v : Variant) (heads : List Nat) (c : Nat) (targets : List Nat) (pubs : List (Nat × Nat))
    (st : Strategy) (rtts : List Int)
    (hp : ∀ p ∈ pubs, p.1 < heads.length ∧ p.2 < 2 ^ 32) (hh : ∀ h ∈ heads, h < 2 ^ 32) (hc : c < heads.length)
    (as : List Action) (s : State)
    (h : runTrace v (mkInit heads (some c) targets pubs st rtts) as = some s) :
    s.best ≠ none ∧ ∀ (i : Nat) (w : Waiter), s.waiters[i]? = some w → w.pc ≠ .done .panic := by
  refine noPanic_trace as (Reachable.init heads (some c) targets pubs st rtts hp hh (by intro c' h'; cases h'; exact hc)) ⟨by simp [mkInit], ?_⟩ h
  intro i w hw
  have := mkInit_waiter hw
  simp [this.1]

/-- non-vacuity (test): a reachable state of the repaired code in which a waiter with target 6 has been offered
head 6 and holds it unread in its channel. -/
example :
    (runTrace fixed (mkInit [5] (some 0) [6] [(0, 6)]) [.wLock 0, .wSub 0, .sLock 0, .sSend 0, .recv, .nRLock,
      .nCheck, .nDrain 0, .nPut]).map (fun s => s.waiters.map (fun w => (w.pc, w.buf, w.offered))) =
    some [(.sel, [6], some 6)] := by decide

end Tongo.C13
