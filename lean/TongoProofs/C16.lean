import TongoModel.Message
import TongoProofs.Lemmas.Message
import TongoProofs.Lemmas.MessageHash
import TongoProofs.Lemmas.MessageTlb
import TongoProofs.Lemmas.MessageHeap
import TongoProofs.Lemmas.SourceBocPinned
import TongoProofs.C01
import TongoProofs.C02
import TongoProofs.C04
/-! Property C16 — message and transaction identity hashes match their source cells.
Property theorems only. `H` is the hash function (a parameter; SHA-256 in the driver); `Cell.reprHash H` is the
representation hash of TongoModel/Cell.lean (the model of Cell.Hash, property C02). -/
namespace Tongo.C16
open Tongo Tongo.Message Tongo.Json

variable (H : List UInt8 → List UInt8)

/-! ## mutable cells: read cursors, the hasher's memo table, enclosing records

The model of TongoModel/MessageHeap.lean: pointers to cells WITH read cursors (`bitCur`, `refCur`), `Cell.NextRef`
rewinding the child in place, `Cell.ResetCounters`, and a decoder that carries either no hasher (`c.Hash()`, fresh memo
table) or a `boc.Hasher` whose memo table persists (`Memo.hashMemo`, C02). `Dec.Valid` = the hasher's table satisfies
C02's `CacheInv` (every entry is the value for the tree its pointer denotes): true of a new hasher and preserved by
every call (`Memo.memo_agrees`). -/

/-- **Message.UnmarshalTLB on a mutable cell.** For a cell in ANY cursor state (partly read by an enclosing decoder,
left over from an earlier decode, its descendants likewise) and a decoder with ANY valid hasher table or none: the
outcome — reported hash and fields, or the error — is `Cell.Hash` of the tree the pointer denotes, followed by the
field decode from the FIRST bit and FIRST reference of the cell. The right-hand side mentions neither a cursor nor
the hasher: the hash is that of the whole source cell, taken before the fields are read, and the counters are reset
in between. -/
theorem msg_hash_is_cell_hash (fuel : Nat) (d : Dec) (p : Nat) (c : Cell) (mc : MsgCell)
    (hv : d.Valid H) (ht : Memo.tree d.heap.rows fuel p = some c) (hp : d.heap p = some mc) :
    outFst (unmarshalMessageH H fuel d p) =
      (c.reprHash H).bind fun h =>
        (decodeMsg (rowStore d.heap.rows) ⟨mc.row.bits, mc.row.refs⟩).bind fun m => .ok ⟨h, m⟩ :=
  unmarshalMessageH_eq H fuel d p c mc hv ht hp

/-- …composed with C02 `reprHash_eq_spec` ON THE HEAP LEVEL (AUDIT2 B14: C02's `msg_tx_hash_is_spec` goes through the
tree-level lemmas): for a well-formed source tree within the depth limit the hash reported by Message.UnmarshalTLB on a
mutable cell, in any cursor state and with any valid hasher, is the representation hash of the TON DEFINITION
(`Spec.reprHash`), and hashing cannot fail. -/
theorem msg_hash_is_spec_hash (fuel : Nat) (d : Dec) (p : Nat) (c : Cell) (mc : MsgCell)
    (hv : d.Valid H) (ht : Memo.tree d.heap.rows fuel p = some c) (hp : d.heap p = some mc)
    (hwf : Spec.WFExotic c) (hd : Spec.tooDeep c = false) :
    outFst (unmarshalMessageH H fuel d p) =
      (decodeMsg (rowStore d.heap.rows) ⟨mc.row.bits, mc.row.refs⟩).bind fun m => .ok ⟨Spec.reprHash H c, m⟩ := by
  rw [msg_hash_is_cell_hash H fuel d p c mc hv ht hp, C02.reprHash_eq_spec H c hwf hd]
  rfl

/-- **Independent of the cursors and of the hasher.** Two decoders over the same cells (same rows) — one with the cell
and all its descendants in any cursor state and a hasher carrying any valid memo table, the other rewound and
without hasher — report the same hash and fields (or the same error). A consequence of cache soundness (C02), not an
assumption. -/
theorem msg_hash_hasher_and_cursor_independent (fuel : Nat) (d1 d2 : Dec) (p : Nat) (c : Cell) (mc1 mc2 : MsgCell)
    (hrows : d1.heap.rows = d2.heap.rows) (hv1 : d1.Valid H) (hv2 : d2.Valid H)
    (ht : Memo.tree d1.heap.rows fuel p = some c) (hp1 : d1.heap p = some mc1) (hp2 : d2.heap p = some mc2) :
    outFst (unmarshalMessageH H fuel d1 p) = outFst (unmarshalMessageH H fuel d2 p) := by
  have hrow : mc1.row = mc2.row := by
    have h1 : d1.heap.rows p = some mc1.row := by simp [MHeap.rows, hp1]
    have h2 : d2.heap.rows p = some mc2.row := by simp [MHeap.rows, hp2]
    rw [hrows, h2] at h1
    injection h1 with h1
    exact h1.symm
  rw [unmarshalMessageH_eq H fuel d1 p c mc1 hv1 ht hp1,
    unmarshalMessageH_eq H fuel d2 p c mc2 hv2 (by rw [← hrows]; exact ht) hp2, hrows, hrow]

/-- a new hasher (`tlb.NewDecoder()`) and no hasher (`tlb.Unmarshal`) are valid decoder states for any heap -/
theorem new_decoders_valid (heap : MHeap) : (⟨heap, none⟩ : Dec).Valid H ∧ (⟨heap, some []⟩ : Dec).Valid H := by
  constructor
  · intro cache h; cases h
  · intro cache h
    injection h with h
    subst h
    intro p i hl
    simp at hl

/-- the hypotheses are satisfiable on a non-trivial state (a test on one literal, identity as "hash"): a two-cell
heap whose message cell has BOTH cursors moved and whose child is partly read; the decode succeeds -/
example :
    let child : MsgCell := ⟨⟨0, 0, [true, false, true], []⟩, 2, 0⟩
    let msg : MsgCell := ⟨⟨0, 0, [true, false, false, false, false, false, false, false, false, false, false, true], [1]⟩, 7, 1⟩
    let heap : MHeap := fun q => if q = 0 then some msg else if q = 1 then some child else none
    (outFst (unmarshalMessageH (fun x => x) 5 ⟨heap, some []⟩ 0)).isOk = true ∧
    (Memo.tree heap.rows 5 0).isSome = true := by
  decide +kernel

/-- **An enclosing record.** A record whose next `k` fields are `^Message` / `Ref[Message]`, decoded from its cell in
any cursor state with any valid hasher table: the i-th reported message carries the representation hash of the tree
denoted by ITS reference (the `refCur + i`-th reference slot of the record's cell) and the fields decoded from the
start of that cell — whatever the record is, wherever it sits, whatever was decoded before (the memo table may
already hold any of the cells), also when two slots hold the same cell. -/
theorem enclosing_record_message_hashes (fuel : Nat) (k : Nat) (d : Dec) (parent : Nat) (c : Cell) (mc : MsgCell)
    (hv : d.Valid H) (ht : Memo.tree d.heap.rows (fuel + 1) parent = some c) (hp : d.heap parent = some mc)
    (ms : List MessageH) (d' : Dec) (e : decodeRefMessages H fuel k d parent = .ok (ms, d')) :
    ms.length = k ∧ d'.Valid H ∧
    ∀ i, i < k → ∃ r m, mc.row.refs[mc.refCur + i]? = some r ∧ ms[i]? = some m ∧ ChildOK H d.heap.rows fuel r m := by
  obtain ⟨h1, _, h3, h4⟩ := decodeRefMessages_spec H fuel d.heap.rows parent c ht k d mc ms d' rfl hv hp e
  exact ⟨h1, h3, h4⟩

/-- **Transaction.UnmarshalTLB on a mutable cell**: for any cursor state and any valid hasher table the captured hash is
`Cell.Hash` of the tree the pointer denotes, and the pointer kept for the lazy source BOC is that cell -/
theorem tx_hash_is_cell_hash (fuel : Nat) (d : Dec) (p : Nat) (c : Cell)
    (hv : d.Valid H) (ht : Memo.tree d.heap.rows fuel p = some c) :
    outFst (captureTxH H fuel d p) = (c.reprHash H).bind fun h => .ok ⟨h, p⟩ :=
  captureTxH_eq H fuel d p c hv ht

/-- the same inside an enclosing record with `^Transaction` fields -/
theorem enclosing_record_tx_hashes (fuel : Nat) (k : Nat) (d : Dec) (parent : Nat) (c : Cell) (mc : MsgCell)
    (hv : d.Valid H) (ht : Memo.tree d.heap.rows (fuel + 1) parent = some c) (hp : d.heap parent = some mc)
    (ts : List TxCaptureH) (d' : Dec) (e : decodeRefTxs H fuel k d parent = .ok (ts, d')) :
    ts.length = k ∧ d'.Valid H ∧
    ∀ i, i < k → ∃ r t, mc.row.refs[mc.refCur + i]? = some r ∧ ts[i]? = some t ∧ TxChildOK H d.heap.rows fuel r t := by
  obtain ⟨h1, _, h3, h4⟩ := decodeRefTxs_spec H fuel d.heap.rows parent c ht k d mc ts d' rfl hv hp e
  exact ⟨h1, h3, h4⟩

/-- the lazy source BOC is the serialisation of the tree the kept pointer denotes, whatever happened to the cursors of
any cell since the capture (`later` has the same rows) -/
theorem source_boc_of_mutable_cell {β} (serialize : Cell → Outcome β) (fuel : Nat) (d : Dec) (p : Nat) (c : Cell)
    (hv : d.Valid H) (ht : Memo.tree d.heap.rows fuel p = some c)
    (t : TxCaptureH) (d' : Dec) (e : captureTxH H fuel d p = .ok (t, d'))
    (later : Dec) (hlater : later.heap.rows = d.heap.rows) :
    outFst (t.sourceBoc serialize fuel later) = serialize c ∧ c.reprHash H = .ok t.hash := by
  have heq := captureTxH_eq H fuel d p c hv ht
  rw [outFst_ok _ t d' e] at heq
  cases hh : c.reprHash H with
  | ok x =>
    rw [hh] at heq
    simp only [Outcome.bind] at heq
    injection heq with heq
    subst heq
    refine ⟨?_, rfl⟩
    simp only [TxCaptureH.sourceBoc, hlater, ht]
    cases serialize c <;> rfl
  | err x => rw [hh] at heq; cases heq
  | panic x => rw [hh] at heq; cases heq

/-! ## tree level

`unmarshalMessage` / `captureTx` are the same functions on IMMUTABLE trees (no cursors, no hasher): the three statements
below only unfold them (true by construction). They are the link between the statements on mutable cells above and
the layout theorems below, which speak about trees. -/

/-- (by construction) at tree level the reported hash is `Cell.reprHash` of the decoded cell -/
theorem msg_hash_tree_level (c : Cell) (m : Message) (h : unmarshalMessage H c = .ok m) :
    c.reprHash H = .ok m.hash := by
  unfold unmarshalMessage at h
  cases hh : c.reprHash H with
  | ok x =>
    rw [hh] at h
    simp only [Outcome.bind] at h
    cases hd : decodeMsg treeStore (sliceOfCell c) with
    | ok d => rw [hd] at h; simp only at h; injection h with h; subst h; rfl
    | err e => rw [hd] at h; cases h
    | panic e => rw [hd] at h; cases h
  | err e => rw [hh] at h; cases h
  | panic e => rw [hh] at h; cases h

/-- (by construction) at tree level the fields are decoded from the first bit and first reference -/
theorem msg_fields_tree_level (c : Cell) (m : Message) (h : unmarshalMessage H c = .ok m) :
    decodeMsg treeStore ⟨c.bits, c.refs⟩ = .ok m.msg := by
  unfold unmarshalMessage at h
  cases hh : c.reprHash H with
  | ok x =>
    rw [hh] at h
    simp only [Outcome.bind] at h
    cases hd : decodeMsg treeStore (sliceOfCell c) with
    | ok d => rw [hd] at h; simp only at h; injection h with h; subst h; exact hd
    | err e => rw [hd] at h; cases h
    | panic e => rw [hd] at h; cases h
  | err e => rw [hh] at h; cases h
  | panic e => rw [hh] at h; cases h

/-- (by construction) at tree level the captured hash is `Cell.reprHash` of the source cell, which is the cell kept -/
theorem tx_capture_tree_level (c : Cell) (t : TxCapture) (h : captureTx H c = .ok t) :
    c.reprHash H = .ok t.hash ∧ t.source = c := by
  unfold captureTx at h
  cases hh : c.reprHash H with
  | ok x => rw [hh] at h; simp only [Outcome.bind] at h; injection h with h; subst h; exact ⟨rfl, rfl⟩
  | err e => rw [hh] at h; cases h
  | panic e => rw [hh] at h; cases h

/-- (by construction) internal and external-out messages: the normalised hash is the plain hash -/
theorem non_extin_unchanged (m : Message) (h : m.msg.info.isExtIn = false) :
    m.hashOf H true = m.hashOf H false := by
  unfold Message.hashOf
  cases hi : m.msg.info with
  | int => rfl
  | extOut => rfl
  | extIn s d f => rw [hi] at h; cases h

/-- (by construction) what the normalised hash of an external-in message is: the representation hash of the canonical cell built from
the destination (a standard destination without its anycast) and the body -/
theorem norm_hash_def (m : Message) (src dest : MsgAddr) (fee : Nat) (hi : m.msg.info = .extIn src dest fee) :
    m.hashOf H true = (normCell dest (bodyCell m.msg)).reprHash H := by
  unfold Message.hashOf
  rw [hi]

/-- Two decoded external-in messages with the same destination (up to the anycast of a standard address) and the
same body (bits and references) have the same normalised hash — whatever their source address, import fee,
state-init, and whatever the hash captured from their source cells. -/
theorem norm_depends_only_on_dest_body (m1 m2 : Message) (s1 s2 d1 d2 : MsgAddr) (f1 f2 : Nat)
    (h1 : m1.msg.info = .extIn s1 d1 f1) (h2 : m2.msg.info = .extIn s2 d2 f2)
    (hd : normDest d1 = normDest d2) (hb : bodyCell m1.msg = bodyCell m2.msg) :
    m1.hashOf H true = m2.hashOf H true := by
  rw [norm_hash_def H m1 s1 d1 f1 h1, norm_hash_def H m2 s2 d2 f2 h2]
  unfold normCell normBits
  rw [hd, hb]

/-- Decoding an encoded external-in message returns its parts, and the body VALUE is the same whether the body was
stored inline or in a reference (`Any` = CopyRemaining of the message cell, resp. of the referenced cell). -/
theorem body_inline_eq_ref (p : ExtInParts) (h : PartsWF p) :
    ∃ m1 m2, decodeMsg treeStore ⟨(encodeExtInRaw { p with bodyForm := .inline }).1, (encodeExtInRaw { p with bodyForm := .inline }).2⟩ = .ok m1 ∧
      decodeMsg treeStore ⟨(encodeExtInRaw { p with bodyForm := .ref }).1, (encodeExtInRaw { p with bodyForm := .ref }).2⟩ = .ok m2 ∧
      bodyCell m1 = p.bodyValue ∧ bodyCell m2 = p.bodyValue ∧ m1.info = m2.info := by
  refine ⟨_, _, decodeMsg_encodeExtInRaw _ h, decodeMsg_encodeExtInRaw _ h, rfl, rfl, rfl⟩

/-- The normalised hash ignores everything but destination and body, END TO END: take any two well-formed sets of
parts with the same destination (up to a standard address's anycast) and the same body — different source
addresses, import fees, state-inits (absent / inline / in a reference), body placements — encode both into cells
(when they fit), decode them as the library does: the normalised hashes are equal. -/
theorem norm_ignores_src_fee_init_placement (p1 p2 : ExtInParts) (c1 c2 : Cell) (m1 m2 : Message)
    (w1 : PartsWF p1) (w2 : PartsWF p2) (e1 : encodeExtIn p1 = .ok c1) (e2 : encodeExtIn p2 = .ok c2)
    (u1 : unmarshalMessage H c1 = .ok m1) (u2 : unmarshalMessage H c2 = .ok m2)
    (hd : normDest p1.dest = normDest p2.dest) (hb : p1.bodyValue = p2.bodyValue) :
    m1.hashOf H true = m2.hashOf H true := by
  have f1 := msg_fields_tree_level H c1 m1 u1
  have f2 := msg_fields_tree_level H c2 m2 u2
  have hc1 := encodeExtIn_cell p1 c1 e1
  have hc2 := encodeExtIn_cell p2 c2 e2
  rw [hc1] at f1
  rw [hc2] at f2
  simp only [Cell.ordinary, Cell.bits, Cell.refs] at f1 f2
  rw [decodeMsg_encodeExtInRaw p1 w1] at f1
  rw [decodeMsg_encodeExtInRaw p2 w2] at f2
  injection f1 with f1
  injection f2 with f2
  apply norm_depends_only_on_dest_body H m1 m2 p1.src p2.src p1.dest p2.dest p1.importFee p2.importFee
  · rw [← f1]
  · rw [← f2]
  · exact hd
  · rw [← f1, ← f2]; exact hb

/-- **All three kinds.** For a message of ANY kind (internal, external-in, external-out) built from well-formed parts —
any addresses, amounts below 2^64 (2^120 for the import fee), absent / inline / referenced state-init, inline /
referenced body — and encoded into a cell (when it fits), decoding as the library does reports the representation
hash of that cell and recovers exactly the info, the init and the body value (the same body whether it was inline
or in a reference). -/
theorem msg_roundtrip_all_kinds (p : MsgParts) (w : MsgPartsWF p) (c : Cell) (e : encodeMsg p = .ok c)
    (m : Message) (u : unmarshalMessage H c = .ok m) :
    c.reprHash H = .ok m.hash ∧ m.msg.info = p.info ∧ bodyCell m.msg = p.bodyValue ∧
      m.msg.bodyIsRef = (p.bodyForm == .ref) := by
  have f := msg_fields_tree_level H c m u
  rw [encodeMsg_cell p c e] at f
  simp only [Cell.ordinary, Cell.bits, Cell.refs] at f
  rw [decodeMsg_encodeMsgRaw p w] at f
  injection f with f
  refine ⟨msg_hash_tree_level H c m u, ?_, ?_, ?_⟩ <;> rw [← f] <;> rfl

/-- **The hand-written layout is the block.tlb layout.** For every message of any kind whose parts lie in the domain
of the transcribed schema (C04's SPEC `Tlb.Spec.Message`: anycast depth ≤ 30, no extra currencies, empty state-init
library, ordinary body cell) the bits and references that `message$_ info:CommonMsgInfo init:(Maybe (Either StateInit
^StateInit)) body:(Either X ^X)` prescribes are exactly those of this file's encoder. -/
theorem layout_is_block_tlb (g : Nat) (hg : 40 ≤ g) (info : Info) (init : InitTlb) (form : BodyForm) (body : Cell)
    (hi : InfoWF info) (ht : InfoTlb info) (hinit : init.wf) (hb : body = Cell.mk 0 0 body.bits body.refs) :
    Tlb.Spec.specChunk Tlb.Spec.senv g Tlb.Spec.Message (msgVal info init form body) =
      some (encodeMsgRaw ⟨info, init.toForm, form, body⟩) :=
  spec_message g hg info init form body hi ht hinit hb

/-- **…and the layout of the Go struct definitions.** `desc_tlb_Message` is the descriptor REGENERATED on every run from
tlb/messages.go (field order, tlb tags, constructor tags); C04's `impl_eq_spec_Message` decides that it matches the
schema. Hence whenever the model of tlb.Marshal encodes such a message value with that descriptor, the cell it
produces is the cell of this file's encoder — a changed struct tag, field order or constructor tag in
tlb/messages.go breaks `impl_eq_spec_Message` and with it this theorem. -/
theorem layout_matches_go_descriptor (info : Info) (init : InitTlb) (form : BodyForm) (body : Cell)
    (hi : InfoWF info) (ht : InfoTlb info) (hinit : init.wf) (hb : body = Cell.mk 0 0 body.bits body.refs)
    (fuel : Nat)
    (hd : Tlb.inDom TongoGen.TlbTypes.env fuel TongoGen.TlbTypes.desc_tlb_Message (msgVal info init form body) = true)
    (b' : Tlb.Builder)
    (he : Tlb.encode TongoGen.TlbTypes.env fuel TongoGen.TlbTypes.desc_tlb_Message (msgVal info init form body)
      Tlb.Builder.empty = .ok b') :
    b'.toCell = Cell.mk 0 0 (encodeMsgRaw ⟨info, init.toForm, form, body⟩).1 (encodeMsgRaw ⟨info, init.toForm, form, body⟩).2 := by
  obtain ⟨g, c, hc, hcell⟩ := Tlb.C04.impl_cell_eq_spec _ _ _ Tlb.C04.impl_eq_spec_Message fuel _ hd b' he
  have h1 := Tlb.Spec.specChunk_mono (Nat.le_max_left g 40) hc
  have h2 := spec_message (max g 40) (Nat.le_max_right g 40) info init form body hi ht hinit hb
  rw [h2] at h1
  injection h1 with h1
  rw [hcell, ← h1]

/-- the hypotheses of `layout_matches_go_descriptor` are satisfiable (a test on one literal, decided by the kernel): an
external-in message to a standard address with a 3-bit body in a reference is in the domain of the regenerated
descriptor and the encoder model succeeds on it -/
example :
    Tlb.inDom TongoGen.TlbTypes.env 60 TongoGen.TlbTypes.desc_tlb_Message
      (msgVal (.extIn .none (.std none 0 (List.replicate 32 7)) 5) .absent .ref (Cell.mk 0 0 [true, false, true] [])) = true ∧
    (Tlb.encode TongoGen.TlbTypes.env 60 TongoGen.TlbTypes.desc_tlb_Message
      (msgVal (.extIn .none (.std none 0 (List.replicate 32 7)) 5) .absent .ref (Cell.mk 0 0 [true, false, true] []))
      Tlb.Builder.empty).isOk = true := by
  decide +kernel

/-- The normalised hash is the hash of the canonical re-encoding: the schema-level encoder applied to the canonical
parts (no source, destination without a standard address's anycast, zero import fee, no init, body in a
reference) produces exactly the cell that `Hash(true)` builds by hand. -/
theorem norm_is_canonical_reencoding (m : Message) (src dest : MsgAddr) (fee : Nat)
    (hi : m.msg.info = .extIn src dest fee) (hw : AddrWF dest) :
    ∃ c, encodeExtIn (canonicalParts dest (bodyCell m.msg)) = .ok c ∧ m.hashOf H true = c.reprHash H := by
  refine ⟨normCell dest (bodyCell m.msg), ?_, norm_hash_def H m src dest fee hi⟩
  have hl := encodeAddr_length_le (normDest dest) (normDest_wf dest hw)
  unfold encodeExtIn canonicalParts
  have hraw : encodeExtInRaw ⟨.none, normDest dest, 0, .absent, .ref, bodyCell m.msg⟩ =
      (normBits dest, [bodyCell m.msg]) := by
    simp [encodeExtInRaw, encodeInit, normBits, normDest_idem, encodeAddr, encodeVarUInt16, natBytes, Bits.natToBits]
  rw [hraw]
  have hlen : ¬ (normBits dest).length > 1023 := by
    simp [normBits]; omega
  simp [hlen, normCell]

/-- …and the canonical message is a fixed point: decoded again, its destination and body are the canonical ones -/
theorem canonical_is_fixed_point (dest : MsgAddr) (body : Cell) (hw : AddrWF dest) (hb : body = Cell.ordinary body.bits body.refs) :
    ∃ mm, decodeMsg treeStore ⟨(normCell dest body).bits, (normCell dest body).refs⟩ = .ok mm ∧
      mm.info = .extIn .none (normDest dest) 0 ∧ bodyCell mm = body := by
  have hwf : PartsWF (canonicalParts dest body) :=
    ⟨trivial, normDest_wf dest hw, by show 0 < 2 ^ 120; omega, by intro si h; cases h⟩
  have := decodeMsg_encodeExtInRaw (canonicalParts dest body) hwf
  have hraw : encodeExtInRaw (canonicalParts dest body) = (normBits dest, [body]) := by
    simp [canonicalParts, encodeExtInRaw, encodeInit, normBits, normDest_idem, encodeAddr, encodeVarUInt16, natBytes,
      Bits.natToBits]
  rw [hraw] at this
  refine ⟨_, this, rfl, ?_⟩
  simp only [bodyCell, canonicalParts]
  exact hb.symm

/-- **The normalised hash distinguishes.** The only idealisation is collision-freedom of `H` on the TWO byte strings
`canonRepr` (descriptor bytes, tagged data, depth and hash of the body reference) of the two canonical cells.
For well-formed cells within the depth limit, `Cell.Hash` is the representation hash of the TON definition
(C02 `reprHash_eq_spec`), which for the canonical cell is `H (canonRepr …)`; `canonRepr` is injective in (data bits,
body hash) (`canonRepr_injective`) and the data bits in the destination (`encodeAddr_injective`). Hence two
external-in messages whose destinations differ (beyond a standard address's anycast) or whose bodies have different
representation hashes have different normalised hashes. -/
theorem norm_distinguishes (m1 m2 : Message) (s1 s2 d1 d2 : MsgAddr) (f1 f2 : Nat)
    (h1 : m1.msg.info = .extIn s1 d1 f1) (h2 : m2.msg.info = .extIn s2 d2 f2)
    (w1 : AddrWF d1) (w2 : AddrWF d2)
    (wf1 : Spec.WFExotic (normCell d1 (bodyCell m1.msg))) (wf2 : Spec.WFExotic (normCell d2 (bodyCell m2.msg)))
    (nd1 : Spec.tooDeep (normCell d1 (bodyCell m1.msg)) = false) (nd2 : Spec.tooDeep (normCell d2 (bodyCell m2.msg)) = false)
    (cf : CollisionFree H [canonRepr H d1 (bodyCell m1.msg), canonRepr H d2 (bodyCell m2.msg)])
    (hne : normDest d1 ≠ normDest d2 ∨
      Spec.reprHash H (bodyCell m1.msg) ≠ Spec.reprHash H (bodyCell m2.msg)) :
    m1.hashOf H true ≠ m2.hashOf H true := by
  rw [norm_hash_def H m1 s1 d1 f1 h1, norm_hash_def H m2 s2 d2 f2 h2,
    C02.reprHash_eq_spec H _ wf1 nd1, C02.reprHash_eq_spec H _ wf2 nd2,
    spec_reprHash_normCell, spec_reprHash_normCell]
  intro heq
  injection heq with heq
  have hr := cf _ (by simp) _ (by simp) heq
  obtain ⟨hbits, hbody⟩ := canonRepr_injective H d1 d2 _ _ (normBits_length_le d1 w1) (normBits_length_le d2 w2) hr
  rcases hne with hne | hne
  · exact hne (normBits_inj d1 d2 w1 w2 hbits)
  · apply hne
    unfold bodyCell at hbody ⊢
    rw [← spec_body_hash, ← spec_body_hash]
    exact hbody

/-- the hypotheses of `norm_distinguishes` are satisfiable (a test on literals): an empty body, two standard
destinations in different workchains; the canonical cells are well formed and shallow -/
example :
    Spec.WFExotic (normCell (.std none 0 (List.replicate 32 0)) (Cell.ordinary [] [])) ∧
    Spec.tooDeep (normCell (.std none 1 (List.replicate 32 0)) (Cell.ordinary [] [])) = false ∧
    normDest (.std none 0 (List.replicate 32 0)) ≠ normDest (.std none 1 (List.replicate 32 0)) := by
  refine ⟨by decide +kernel, by decide +kernel, by decide⟩

/-- The Go writer succeeds on the source cell: for every valid presentation `(t, root)` of it and every key that
identifies its sub-cells, the ordering of importCell/reorderCells/revisit returns some `o` and `serializeBocModel`
some bytes (C01 `order_valid`). These are the `o` and `bs` that `source_boc_roundtrip` speaks about. -/
theorem source_boc_writer_succeeds {K : Type} [BEq K] [Hashable K] [LawfulBEq K]
    (t : Table) (root : Nat) (key : Nat → Option K) (hv : Boc.ValidLayout t [root]) (hk : Boc.Order.KeyInjOn t key) :
    ∃ (o : Boc.Order.Ordered) (bs : Boc.Bytes), Boc.Order.orderWith t key Boc.Order.goSpecial [root] = .ok o ∧
      Boc.Order.serializeBocModel t key [root] false false false = .ok bs :=
  SourceBoc.writer_total t root key false false false hv hk

/-- **The source BOC parses back to the source cell with the reported hash.** Stated for THE order `o` that the model
of importCell/reorderCells/revisit returns (`hord`) and THE bytes `bs` that the writer model returns (`hser`) — no
existential witness, no guard inside the conclusion: the model of the Go reader applied to `bs` returns exactly
`(o.table, o.roots)`; its one root unfolds to the decoded cell `c`; the representation hash of `c` is the reported
hash. The source is given as any table `(t, root)` in a valid layout that unfolds to the captured cell. Premises: `hk` —
the de-duplication key of the writer (the hex representation hash) identifies the sub-cells, i.e. no hash collision
among the cells of this one source; `hsize` — the size limit of the format as a condition on the INPUT: the source cell
has fewer than 2²⁴ structurally distinct sub-cells (`SourceBoc.SubCellsBelow`; implied by `t.size < 2²⁴`,
`SourceBoc.subCellsBelow_of_size`). That the output fits a Go slice is derived, not assumed. Built from C01's pieces
(`orderWith_valid`, `OrderValid.once/sub`, `C01.roundtrip`) in `Lemmas/SourceBocPinned.lean`. -/
theorem source_boc_roundtrip {K : Type} [BEq K] [Hashable K] [LawfulBEq K]
    (c : Cell) (tx : TxCapture) (h : captureTx H c = .ok tx)
    (t : Table) (root : Nat) (key : Nat → Option K) (hv : Boc.ValidLayout t [root]) (hk : Boc.Order.KeyInjOn t key)
    (hsrc : Table.unfold t (t.size + 1) root = some tx.source)
    (hsize : SourceBoc.SubCellsBelow tx.source 16777216)
    (o : Boc.Order.Ordered) (bs : Boc.Bytes)
    (hord : Boc.Order.orderWith t key Boc.Order.goSpecial [root] = .ok o)
    (hser : Boc.Order.serializeBocModel t key [root] false false false = .ok bs) :
    Boc.parseBoc bs = .ok (o.table, o.roots) ∧
      o.roots.map (Table.unfold o.table (o.table.size + 1)) = [some c] ∧ c.reprHash H = .ok tx.hash := by
  obtain ⟨hh, hs⟩ := tx_capture_tree_level H c tx h
  obtain ⟨hparse, _, _, r, hr, _, hru⟩ :=
    SourceBoc.writer_pinned t root key false false false hv hk tx.source hsrc hsize o bs hord hser
  refine ⟨hparse, ?_, hh⟩
  rw [hr]; simp [hru, hs]

/-- Regression for AUDIT2 B2. The auditor proved the previous statement from "the writer returned some bytes" alone by
CHOOSING a witness table padded to 2²⁴ rows, which made the guarded parse clause vacuous. In the statement above there
is nothing to choose and no guard, and that proof does not apply: under the same hypotheses (1) the writer's table has
fewer than 2²⁴ rows, (2) every table and roots the reader's result could be claimed for ARE the writer's, (3) in
particular the claim is false for every padded table. -/
example {K : Type} [BEq K] [Hashable K] [LawfulBEq K]
    (c : Cell) (tx : TxCapture) (h : captureTx H c = .ok tx)
    (t : Table) (root : Nat) (key : Nat → Option K) (hv : Boc.ValidLayout t [root]) (hk : Boc.Order.KeyInjOn t key)
    (hsrc : Table.unfold t (t.size + 1) root = some tx.source)
    (hsize : SourceBoc.SubCellsBelow tx.source 16777216)
    (o : Boc.Order.Ordered) (bs : Boc.Bytes)
    (hord : Boc.Order.orderWith t key Boc.Order.goSpecial [root] = .ok o)
    (hser : Boc.Order.serializeBocModel t key [root] false false false = .ok bs) :
    o.table.size < 16777216 ∧
    (∀ (t' : Table) (roots' : List Nat), Boc.parseBoc bs = .ok (t', roots') → t' = o.table ∧ roots' = o.roots) ∧
    (∀ (F : Table) (roots' : List Nat), 16777216 ≤ F.size → Boc.parseBoc bs ≠ .ok (F, roots')) := by
  have hp := (source_boc_roundtrip H c tx h t root key hv hk hsrc hsize o bs hord hser).1
  have hn := (SourceBoc.writer_pinned t root key false false false hv hk tx.source hsrc hsize o bs hord hser).2.2.1
  refine ⟨hn, ?_, ?_⟩
  · intro t' roots' h'
    rw [hp] at h'
    injection h' with e
    injection e with e1 e2
    exact ⟨e1.symm, e2.symm⟩
  · intro F roots' hF h'
    rw [hp] at h'
    injection h' with e
    injection e with e1 _
    rw [← e1] at hF
    omega

/-- the hypotheses of `source_boc_roundtrip` are satisfiable together (non-vacuity): C01's two-row table `exT` whose
root refers twice to the same child, keyed by the row number, a constant 32-byte `H`; the `o` and `bs` are the ones the
writer returns (`source_boc_writer_succeeds`) -/
example : ∃ (c : Cell) (tx : TxCapture) (o : Boc.Order.Ordered) (bs : Boc.Bytes),
    captureTx (fun _ => List.replicate 32 0) c = .ok tx ∧
    Boc.ValidLayout Boc.Order.exT [0] ∧ Boc.Order.KeyInjOn Boc.Order.exT (fun i => some i) ∧
    Table.unfold Boc.Order.exT (Boc.Order.exT.size + 1) 0 = some tx.source ∧
    SourceBoc.SubCellsBelow tx.source 16777216 ∧
    Boc.Order.orderWith Boc.Order.exT (fun i => some i) Boc.Order.goSpecial [0] = .ok o ∧
    Boc.Order.serializeBocModel Boc.Order.exT (fun i => some i) [0] false false false = .ok bs := by
  obtain ⟨o, bs, ho, hs⟩ :=
    source_boc_writer_succeeds Boc.Order.exT 0 (fun i => some i) Boc.Order.exT_valid Boc.Order.exT_key
  have hu : Table.unfold Boc.Order.exT (Boc.Order.exT.size + 1) 0
      = some (Cell.mk 0 0 [true] [Cell.mk 0 0 [] [], Cell.mk 0 0 [] []]) := by rfl
  have hcap : ∃ tx, captureTx (fun _ => List.replicate 32 0)
      (Cell.mk 0 0 [true] [Cell.mk 0 0 [] [], Cell.mk 0 0 [] []]) = .ok tx ∧
      tx.source = Cell.mk 0 0 [true] [Cell.mk 0 0 [] [], Cell.mk 0 0 [] []] := by
    unfold captureTx
    cases hh : (Cell.mk 0 0 [true] [Cell.mk 0 0 [] [], Cell.mk 0 0 [] []]).reprHash (fun _ => List.replicate 32 0) with
    | ok x => exact ⟨_, rfl, rfl⟩
    | err e =>
      have : ((Cell.mk 0 0 [true] [Cell.mk 0 0 [] [], Cell.mk 0 0 [] []]).reprHash
        (fun _ => List.replicate 32 0)).isOk = true := by decide +kernel
      rw [hh] at this; cases this
    | panic e =>
      have : ((Cell.mk 0 0 [true] [Cell.mk 0 0 [] [], Cell.mk 0 0 [] []]).reprHash
        (fun _ => List.replicate 32 0)).isOk = true := by decide +kernel
      rw [hh] at this; cases this
  obtain ⟨tx, htx, hsrc⟩ := hcap
  refine ⟨_, tx, o, bs, htx, Boc.Order.exT_valid, Boc.Order.exT_key, by rw [hsrc]; exact hu, ?_, ho, hs⟩
  exact SourceBoc.subCellsBelow_of_size Boc.Order.exT 0 Boc.Order.exT_valid tx.source (by rw [hsrc]; exact hu) _
    (by decide)

/-- **SourceBoc and Hash track the last decode.** One Transaction variable, reused for any sequence of decodes with
`SourceBoc()` and `Hash()` calls interleaved in any order, starting from any state: afterwards `Hash()` is the
representation hash of the LAST successfully decoded source cell and `SourceBoc()` is the serialisation of exactly
that cell — never of an earlier one (so it parses back to a cell with the reported hash, `source_boc_roundtrip`). -/
theorem source_boc_tracks_last_decode {β} (serialize : Cell → Outcome β) (ops : List TxOp) (v : TxVar) (c : Cell)
    (hlast : lastDecoded H ops = some c) :
    ∃ t, TxVar.run H v ops = some t ∧ c.reprHash H = .ok t.hash ∧
      TxVar.sourceBoc serialize (TxVar.run H v ops) = serialize c := by
  have h := run_lastDecoded H ops v
  rw [hlast] at h
  obtain ⟨t, hr, hs, hh⟩ := h
  refine ⟨t, hr, hh, ?_⟩
  rw [hr]
  simp only [TxVar.sourceBoc, TxCapture.sourceBoc, hs]

/-- reading does not change the variable: `SourceBoc()` and `Hash()` are idempotent and commute -/
theorem source_boc_and_hash_do_not_change_state (v : TxVar) (ops : List TxOp)
    (hro : ∀ op ∈ ops, op = TxOp.sourceBoc ∨ op = TxOp.hash) : TxVar.run H v ops = v := by
  induction ops generalizing v with
  | nil => rfl
  | cons op rest ih =>
    have h1 : TxVar.step H v op = v := by
      rcases hro op (by simp) with h | h <;> subst h <;> rfl
    show TxVar.run H (TxVar.step H v op) rest = v
    rw [h1]
    exact ih v (fun o ho => hro o (by simp [ho]))

/-- **SourceBoc() end to end, with the concrete Go writer.** `serialize` of the two theorems above instantiated with
`SourceBoc.goSourceBoc H` (C01's whole writer model on the cell tree, de-duplicated by the representation hash like
Go). One Transaction variable after ANY sequence of decodes / `SourceBoc()` / `Hash()` calls whose last successful
decode was of `c`: if `SourceBoc()` returns `bs` and the writer's ordering of `c` is `o`, the reader model applied to
`bs` returns exactly `(o.table, o.roots)`, the root unfolds to `c`, and `Hash()` is the representation hash of `c`.
Premises, all about the INPUT cell: within the limits of the format (`CellOK`, depth ≤ 1024), level 0 (no pruned
branch — for cells with pruned branches use `source_boc_roundtrip` with a key known to identify the sub-cells), no hash
collision among its own sub-cells, fewer than 2²⁴ distinct sub-cells; `H` returns 32 bytes. -/
theorem source_boc_end_to_end (hlen32 : ∀ x, (H x).length = 32) (ops : List TxOp) (v : TxVar) (c : Cell)
    (hlast : lastDecoded H ops = some c)
    (hok : Boc.Order.CellOK c) (hd : Boc.Order.cellDepth c ≤ maxDepth) (h0 : Boc.Order.Lvl0 (Boc.Order.cellTable c))
    (cf : CollisionFree H (Boc.Order.reprsOf H (Boc.Order.cellTable c)))
    (hsize : SourceBoc.SubCellsBelow c 16777216)
    (o : Boc.Order.Ordered) (bs : Boc.Bytes)
    (hord : Boc.Order.orderWith (Boc.Order.cellTable c) (Boc.Order.goKey H (Boc.Order.cellTable c))
      Boc.Order.goSpecial [0] = .ok o)
    (hser : TxVar.sourceBoc (SourceBoc.goSourceBoc H) (TxVar.run H v ops) = .ok bs) :
    Boc.parseBoc bs = .ok (o.table, o.roots) ∧
      o.roots.map (Table.unfold o.table (o.table.size + 1)) = [some c] ∧
      ∃ t, TxVar.run H v ops = some t ∧ c.reprHash H = .ok t.hash := by
  obtain ⟨t, hrun, hh, hsb⟩ := source_boc_tracks_last_decode H (SourceBoc.goSourceBoc H) ops v c hlast
  rw [hsb] at hser
  obtain ⟨hparse, hroots, _⟩ := SourceBoc.goSourceBoc_pinned H hlen32 c hok hd h0 cf hsize o bs hord hser
  exact ⟨hparse, hroots, t, hrun, hh⟩

/-- …and on the heap level (mutable cells with cursors, a decoder with or without hasher): the lazy `SourceBoc()` of a
captured transaction, called in ANY later decoder state with the same rows, with the concrete Go writer. -/
theorem source_boc_of_mutable_cell_parses_back (hlen32 : ∀ x, (H x).length = 32) (fuel : Nat) (d : Dec) (p : Nat)
    (c : Cell) (hv : d.Valid H) (ht : Memo.tree d.heap.rows fuel p = some c)
    (t : TxCaptureH) (d' : Dec) (e : captureTxH H fuel d p = .ok (t, d'))
    (later : Dec) (hlater : later.heap.rows = d.heap.rows)
    (hok : Boc.Order.CellOK c) (hd : Boc.Order.cellDepth c ≤ maxDepth) (h0 : Boc.Order.Lvl0 (Boc.Order.cellTable c))
    (cf : CollisionFree H (Boc.Order.reprsOf H (Boc.Order.cellTable c)))
    (hsize : SourceBoc.SubCellsBelow c 16777216)
    (o : Boc.Order.Ordered) (bs : Boc.Bytes)
    (hord : Boc.Order.orderWith (Boc.Order.cellTable c) (Boc.Order.goKey H (Boc.Order.cellTable c))
      Boc.Order.goSpecial [0] = .ok o)
    (hser : outFst (t.sourceBoc (SourceBoc.goSourceBoc H) fuel later) = .ok bs) :
    Boc.parseBoc bs = .ok (o.table, o.roots) ∧
      o.roots.map (Table.unfold o.table (o.table.size + 1)) = [some c] ∧ c.reprHash H = .ok t.hash := by
  obtain ⟨hsb, hh⟩ := source_boc_of_mutable_cell H (SourceBoc.goSourceBoc H) fuel d p c hv ht t d' e later hlater
  rw [hsb] at hser
  obtain ⟨hparse, hroots, _⟩ := SourceBoc.goSourceBoc_pinned H hlen32 c hok hd h0 cf hsize o bs hord hser
  exact ⟨hparse, hroots, hh⟩

end Tongo.C16
