import TongoModel.Shard
import TongoGen.Shards
import TongoProofs.Lemmas.GoInt
import TongoProofs.Lemmas.ShardAlg
import TongoGen.Crc16Table
import TongoModel.Address
import TongoProofs.Lemmas.Crc16Lin
import TongoProofs.Lemmas.Base64Bits
import TongoProofs.Lemmas.AddrRoundtrip
import TongoProofs.Lemmas.AddrRoot
import TongoProofs.Lemmas.AddrTlbSpec
import TongoProofs.Lemmas.AddrShard
/-! Property C17 — account addresses and shard ids keep their meaning across all forms.
Property theorems only (helper lemmas live in TongoProofs/Lemmas).

Section 1 ties the hand model (TongoModel/Shard.lean, the one the compiled driver runs against the Go code on every
check) to the definitions REGENERATED from the Go source by translator X4 (TongoGen/Shards.lean): a change of the Go
integer code changes the regenerated file and breaks one of the `gen_*` equations. -/
namespace Tongo.C17
open Tongo.Shard Tongo.GoInt

/-! ## 1. regenerated definitions = hand model -/

/-- tie: the regenerated ton.ParseShardID equals the hand model (error ↔ `none`) -/
theorem gen_ParseShardID (m : BitVec 64) :
    Gen.Shards.ParseShardID m = (parseShardID m).map (fun s => (s.pfx, s.mask)) := by
  simp only [Gen.Shards.ParseShardID, parseShardID, trailingZeros64_toNat, trailingZeros64_add_one_toNat]
  by_cases h : m = 0
  · simp [h]
  · have h' : (m == 0#64) = false := by simpa using h
    simp only [h', h, if_false, Bool.false_eq_true, Option.map, ctz64]
    rfl

/-- tie: the regenerated ShardID.Encode equals the hand model (`none` = panic on a negative shift count, mask with bit 0 set) -/
theorem gen_Encode (p m : BitVec 64) : Gen.Shards.Encode p m = encode ⟨p, m⟩ := by
  unfold Gen.Shards.Encode encode
  have hle : ctz m ≤ 64 := ctz_le m
  by_cases h : ctz m = 0
  · simp [ctz64, h, trailingZeros64, BitVec.slt]
  · have : ¬ (BitVec.slt (trailingZeros64 m - 1#64) 0#64) := by
      simp [trailingZeros64, BitVec.slt, BitVec.toInt, BitVec.toNat_sub]; omega
    have h2 : (trailingZeros64 m - 1#64).toNat = ctz m - 1 := by
      simp [trailingZeros64, BitVec.toNat_sub]; omega
    simp [ctz64, h, this, h2]

/-- tie: the regenerated ShardID.MatchAccountID (on the big-endian first 8 address bytes) equals the hand model -/
theorem gen_MatchAccountID (p m a : BitVec 64) : Gen.Shards.MatchAccountID p m a = matchPrefix ⟨p, m⟩ a := rfl

/-- tie: the regenerated ShardID.MatchBlockID equals the hand model -/
theorem gen_MatchBlockID (p m b : BitVec 64) : Gen.Shards.MatchBlockID p m b = matchBlock ⟨p, m⟩ b := by
  unfold Gen.Shards.MatchBlockID matchBlock
  rw [gen_ParseShardID]
  cases parseShardID b with
  | none => rfl
  | some sub =>
    have h1 := ctz_le m; have h2 := ctz_le sub.mask
    have : BitVec.slt (trailingZeros64 m) (trailingZeros64 sub.mask) = decide (ctz m < ctz sub.mask) := by
      simp [trailingZeros64, BitVec.slt, BitVec.toInt]; omega
    simp only [Option.map, this, ctz64, decide_eq_true_eq]
    split <;> simp [*]

/-- tie: the regenerated ton.shardChild equals the hand model -/
theorem gen_shardChild (s : BitVec 64) (l : Bool) : Gen.Shards.shardChild s l = shardChild s l := by
  cases l <;> rfl
/-- tie: the regenerated ton.shardParent equals the hand model -/
theorem gen_shardParent (s : BitVec 64) : Gen.Shards.shardParent s = shardParent s := rfl
/-- tie: the regenerated ton.convertShardIdent equals the hand model (8-bit unsigned shift count) -/
theorem gen_convertShardIdent (b : BitVec 8) (wc : BitVec 32) (p : BitVec 64) :
    Gen.Shards.convertShardIdent b wc p = (wc, convertShardIdent p b) := rfl
/-- tie: the regenerated anycast rewrite arithmetic of ton.AccountIDFromTlb equals the hand model -/
theorem gen_anycastRewrite (a d r : BitVec 32) : Gen.Shards.anycastRewrite a d r = anycastRewrite a d r := rfl

/-- tie: the table-driven byte step REGENERATED from utils.Crc16 (with the regenerated 256-entry `TABLE`) is eight bit steps
of the CRC-16/XMODEM shift register (polynomial 0x1021) -/
theorem gen_crc16Step (c : BitVec 16) (b : BitVec 8) : Gen.Crc16Table.crc16Step c b = Crc16.byteStep c b :=
  Crc16.gen_crc16Step_eq c b

/-- tie: same for utils.Crc16String -/
theorem gen_crc16StringStep (c : BitVec 16) (b : BitVec 8) : Gen.Crc16Table.crc16StringStep c b = Crc16.byteStep c b :=
  Crc16.gen_crc16StringStep_eq c b

/-- tie: hence utils.Crc16 (register 0, the regenerated step folded over the bytes) is the CRC-16/XMODEM of the model -/
theorem gen_crc16 (bs : List (BitVec 8)) : bs.foldl Gen.Crc16Table.crc16Step 0#16 = Crc16.crc16 bs := by
  have : Gen.Crc16Table.crc16Step = Crc16.byteStep := by funext c b; exact Crc16.gen_crc16Step_eq c b
  rw [this]; rfl

/-- tie: the driver executes `anycastRewriteExec` (guarded shifts); it is the modelled arithmetic -/
theorem exec_anycastRewrite (a d r : BitVec 32) : anycastRewriteExec a d r = anycastRewrite a d r :=
  Shard.anycastRewriteExec_eq a d r

/-! ## 2. shard algebra (hand model = regenerated definitions by section 1)

`shardLen m = 63 - ctz m` is the prefix length of the shard id `m` (0 for the full shard `0x8000…`, up to 63), bit `i`
"MSB first" is `getMsbD i`; `isLeft s` = the bit just above the lowest set bit is 0. -/

/-- `Encode (ParseShardID m) = m` for every non-zero `m` (and `Encode` does not panic on a parsed shard) -/
theorem shard_roundtrip (m : BitVec 64) (h : m ≠ 0) : (parseShardID m).bind encode = some m :=
  Shard.shard_roundtrip m h

/-- an account matches a shard exactly when the shard's `shardLen` prefix bits are the first bits of the address —
for every prefix length 0 (the full shard `0x8000…`, matching everything) … 63 -/
theorem match_is_prefix (m a : BitVec 64) (h : m ≠ 0) :
    ∃ s, parseShardID m = some s ∧ (matchPrefix s a = true ↔ ∀ i, i < shardLen m → a.getMsbD i = m.getMsbD i) :=
  Shard.match_is_prefix m a h

/-- MatchBlockID is symmetric containment: it holds exactly when the shorter of the two prefixes is a prefix of the
other shard id; a zero block shard never matches -/
theorem match_block (m b : BitVec 64) (hm : m ≠ 0) (hb : b ≠ 0) :
    ∃ s, parseShardID m = some s ∧
      (matchBlock s b = true ↔ ∀ i, i < min (shardLen m) (shardLen b) → m.getMsbD i = b.getMsbD i) :=
  Shard.match_block m b hm hb

/-- a zero block shard id matches no shard -/
theorem match_block_zero (s : ShardID) : matchBlock s 0 = false := Shard.match_block_zero s

/-- `shardParent (shardChild s side) = s` whenever the lowest set bit of `s` is above bit 0 (prefix length ≤ 62) -/
theorem parent_child_inverse (s : BitVec 64) (l : Bool) (h : s.getLsbD 0 = false) :
    shardParent (shardChild s l) = s := Shard.parent_child s l h

/-- `shardChild (shardParent s) (side of s) = s` for every shard except the full shard `0x8000…` and 0 -/
theorem child_parent_inverse (s : BitVec 64) (h0 : s ≠ 0) (h1 : s ≠ 0x8000000000000000#64) :
    shardChild (shardParent s) (isLeft s) = s := Shard.child_parent s h0 h1

/-- a child's prefix is the parent's prefix extended by one bit: 0 for the left child, 1 for the right child -/
theorem child_extends_prefix (s : BitVec 64) (l : Bool) (h0 : s ≠ 0) (h : s.getLsbD 0 = false) :
    shardLen (shardChild s l) = shardLen s + 1 ∧
    (∀ i, i < shardLen s → (shardChild s l).getMsbD i = s.getMsbD i) ∧
    (shardChild s l).getMsbD (shardLen s) = !l :=
  ⟨Shard.child_len s l h0 h, Shard.child_prefix s l h0 h⟩

/-- convertShardIdent for every prefix length 0..63 (the property asks for 0..60): a prefix confined to its top `n` bits
becomes the shard id that parses back to exactly that prefix and mask, with prefix length `n` -/
theorem convert_shard_ident (pfx : BitVec 64) (n : Nat) (hn : n ≤ 63) (hp : pfx &&& (BitVec.allOnes 64 >>> n) = 0) :
    parseShardID (convertShardIdent pfx (BitVec.ofNat 8 n)) = some ⟨pfx, BitVec.allOnes 64 <<< (64 - n)⟩ ∧
    shardLen (convertShardIdent pfx (BitVec.ofNat 8 n)) = n := Shard.convert_shard_ident_63 pfx n hn hp

/-- the anycast rewrite for depths 1..30: the top `d` bits of the address prefix become `rewrite_pfx`, the other
`32 - d` bits are kept -/
theorem anycast_rewrite (a r : BitVec 32) (d : Nat) (h1 : 1 ≤ d) (h30 : d ≤ 30) (hr : r.toNat < 2 ^ d) :
    (anycastRewrite a (BitVec.ofNat 32 d) r) >>> (32 - d) = r ∧
    (anycastRewrite a (BitVec.ofNat 32 d) r) &&& (BitVec.allOnes 32 >>> d) = a &&& (BitVec.allOnes 32 >>> d) :=
  Shard.anycast_rewrite a r d h1 h30 hr

/-- hypotheses are satisfiable: shard `0x4800…` (prefix 0100, length 4) -/
example : shardParent (shardChild 0x4800000000000000#64 true) = 0x4800000000000000#64 :=
  parent_child_inverse _ _ (by decide)
example : shardChild (shardParent 0x4c00000000000000#64) (isLeft 0x4c00000000000000#64) = 0x4c00000000000000#64 :=
  child_parent_inverse _ (by decide) (by decide)

/-- the two children of a shard are placed symmetrically around it (64-bit wrap-around arithmetic) -/
theorem children_symmetric (s : BitVec 64) : shardChild s true + shardChild s false = s + s := by
  unfold shardChild
  simp only [if_true, Bool.false_eq_true, if_false]
  generalize lowerBit s >>> 1 = x
  bv_omega

/-! ## 3. account ids across their forms (model: TongoModel/Address.lean; strings are byte lists)

`a.WF` = the address has 32 bytes. "int8 workchain" is `a.wc = (a.wc.setWidth 8).signExtend 32`. -/
section
open Tongo.Address

/-- raw form `wc:hex`: every int32 workchain (negative ones included, −2^31 too) × every 256-bit address parses back -/
theorem raw_roundtrip (a : AccountID) (h : a.WF) : fromRaw (toRaw a) = .ok a := Address.raw_roundtrip a h

/-- zero-fill: a raw string whose hex part is short (an even number of digits ≤ 64) denotes the address left-padded with
zero bytes -/
theorem raw_short_hex (w : BitVec 32) (bs : List Byte) (h : bs.length ≤ 32) :
    fromRaw (int32ToDec w ++ 58#8 :: hexEncode bs) = .ok ⟨w, List.replicate (32 - bs.length) 0#8 ++ bs⟩ :=
  Address.raw_short_hex w bs h

/-- user-friendly form: int8 workchains × all four flag combinations × both base64 alphabets parse back to the same id -/
theorem human_roundtrip (url : Bool) (a : AccountID) (bounce testnet : Bool) (h : a.WF)
    (hw : a.wc = (a.wc.setWidth 8).signExtend 32) : fromBase64Url (toHumanAlpha url a bounce testnet) = .ok a :=
  Address.human_roundtrip url a bounce testnet h hw

/-- separate fact: outside int8 the friendly form keeps only the low byte of the workchain (sign-extended on parse) -/
theorem human_workchain_truncated (url : Bool) (a : AccountID) (b t : Bool) (h : a.WF) :
    fromBase64Url (toHumanAlpha url a b t) = .ok ⟨(a.wc.setWidth 8).signExtend 32, a.addr⟩ :=
  Address.human_alpha_workchain_truncated url a b t h

/-- ParseAccountID: the raw form goes through the raw parser; a friendly string is never a valid raw string (no `:`) and
is then accepted by the friendly parser -/
theorem parse_dispatch :
    (∀ a : AccountID, a.WF → parseAccountID (toRaw a) = .ok a) ∧
    (∀ (url : Bool) (a : AccountID) (b t : Bool), a.WF → a.wc = (a.wc.setWidth 8).signExtend 32 →
      (∃ e, fromRaw (toHumanAlpha url a b t) = .err e) ∧ (∀ x, fromRaw (toHumanAlpha url a b t) ≠ .ok x) ∧
      parseAccountID (toHumanAlpha url a b t) = .ok a) := Address.parse_dispatch

/-- root package `tongo.ParseAddress` / `MustParseAddress`: the flags are part of what the friendly form means — for int8
workchains, all four flag combinations and both alphabets the SAME account id and the SAME bounce flag come back (the
testnet flag has no field in `ton.Address`); the raw form parses as bounceable. (The unfixed code computed
`b[0]&0x11 == 0x11`, true for both tags; fixed in the repository, see known_findings.) -/
theorem parse_address_flags (url : Bool) (a : AccountID) (b t : Bool) (h : a.WF)
    (hw : a.wc = (a.wc.setWidth 8).signExtend 32) :
    parseAddress (toHumanAlpha url a b t) = .ok (a, b) ∧ parseAddress (toRaw a) = .ok (a, true) :=
  ⟨Address.parseAddress_human url a b t h hw, Address.parseAddress_raw a h⟩

/-- JSON: the quoted raw form parses back -/
theorem json_roundtrip (a : AccountID) (h : a.WF) : fromJSON (toJSON a) = .ok a := Address.json_roundtrip a h

/-- TL: `le32 workchain ++ address` parses back, whatever follows in the stream -/
theorem tl_roundtrip (a : AccountID) (h : a.WF) (rest : List Byte) : fromTL (toTL a ++ rest) = .ok a :=
  Address.tl_roundtrip a h rest

/-- TL-B `addr_std`: int8 workchains round-trip through MsgAddress -/
theorem tlb_roundtrip (a : AccountID) (h : a.WF) (hw : a.wc = (a.wc.setWidth 8).signExtend 32) :
    fromTlb (toMsgAddress a) = .ok (some a) := Address.tlb_roundtrip a h hw

/-- separate fact: `int8(Workchain)` truncates — outside int8 the TL-B address carries the sign-extended low byte -/
theorem tlb_workchain_truncated (a : AccountID) :
    fromTlb (toMsgAddress a) = .ok (some ⟨(a.wc.setWidth 8).signExtend 32, a.addr⟩) := Address.tlb_workchain_truncated a

/-- TL-B at the bit level: the 267 bits `10 0 wc:int8 addr:bits256` parse back to the same MsgAddress -/
theorem tlb_bits_roundtrip (a : AccountID) (h : a.WF) (rest : List Bool) :
    ∃ bs, tlbBits (toMsgAddress a) = some bs ∧ bs.length = 267 ∧ parseTlbBits (bs ++ rest) = .ok (toMsgAddress a) :=
  Address.tlb_bits_roundtrip a h rest

/-- TL-B, all four constructors (addr_none, addr_extern, addr_std with anycast, addr_var): the bit layout of this model IS
the schema-level specification of the TL-B slice (`Tongo.Tlb.Spec.specMsgAddress`, the one C03/C04 are stated about), so
the two models cannot drift. `WF`: anycast depth 1..30 with a prefix below 2^depth, 32 address bytes, at most 511
extern/var bits, `addr_len` = number of address bits. -/
theorem tlb_bits_eq_tlb_spec (m : MsgAddress) (h : m.WF) :
    Tlb.Spec.specMsgAddress (toVal m) = (tlbBits m).map (fun bs => (bs, [])) := Address.tlbBits_eq_spec m h

/-- TL-B, all four constructors: serialise then parse gives the same MsgAddress back, whatever follows in the cell
(`WF'` = `WF` with anycast depth up to 31, which the Go reader accepts) -/
theorem tlb_bits_roundtrip_all (m : MsgAddress) (h : m.WF') (rest : List Bool) :
    ∃ bs, tlbBits m = some bs ∧ parseTlbBits (bs ++ rest) = .ok m := Address.tlb_bits_roundtrip_all m h rest

/-- MatchAccountID on the AccountID BYTES (not on a pre-read 64-bit word): `binary.BigEndian.Uint64(a.Address[:8])` is
modelled by `be64`, and the account matches exactly when the shard's `shardLen` prefix bits are the first bits of the
address, byte 0 most significant bit first — prefix lengths 0..63 -/
theorem match_account_is_prefix (m : BitVec 64) (a : AccountID) (hm : m ≠ 0) :
    ∃ s, parseShardID m = some s ∧
      (matchAccountID s a = true ↔ ∀ i, i < shardLen m → addrBit a.addr i = m.getMsbD i) :=
  Address.match_account_is_prefix m a hm

/-- Parse∘Encode: every well-formed ShardID (mask `1…10…0` with `k+1 ≤ 64` low zeros, prefix inside the mask) encodes
without panic to a non-zero id that parses back to it; `parse_shard_id_wf` shows these are exactly the parser's results -/
theorem shard_roundtrip_parse_encode (s : ShardID) (k : Nat) (hk : k ≤ 63)
    (hmask : s.mask = BitVec.allOnes 64 <<< (k + 1)) (hp : s.pfx &&& ~~~s.mask = 0#64) :
    ∃ m, encode s = some m ∧ m ≠ 0 ∧ parseShardID m = some s := Address.shard_roundtrip_parse_encode s k hk hmask hp

/-- every parsed shard id satisfies the hypotheses of `shard_roundtrip_parse_encode` -/
theorem parse_shard_id_wf (m : BitVec 64) (h : m ≠ 0) :
    ∃ s k, parseShardID m = some s ∧ k ≤ 63 ∧ s.mask = BitVec.allOnes 64 <<< (k + 1) ∧ s.pfx &&& ~~~s.mask = 0 :=
  Address.parseShardID_wf m h

/-- the anycast rewrite at the level of the 32 address BYTES (ton.AccountIDFromTlb): for depths 1..30 the first `d`
address bits become rewrite_pfx (most significant first), every other bit is unchanged, the length stays 32 -/
theorem anycast_rewrite_bytes (addr : List Byte) (h : addr.length = 32) (d : Nat) (p : BitVec 32)
    (h1 : 1 ≤ d) (h30 : d ≤ 30) (hp : p.toNat < 2 ^ d) :
    (rewriteAddr addr (BitVec.ofNat 32 d) p).length = 32 ∧
    ∀ i, i < 256 → addrBit (rewriteAddr addr (BitVec.ofNat 32 d) p) i =
      if i < d then p.getLsbD (d - 1 - i) else addrBit addr i := Address.rewriteAddr_bits addr h d p h1 h30 hp

/-- ADNL: the 55-character lower-case base32 form of every 32-byte address parses back (with or without `.adnl`) -/
theorem adnl_base32_roundtrip (addr : List Byte) (h : addr.length = 32) :
    parseADNL (adnlToBase32 addr) = .ok addr ∧ parseADNL (adnlToBase32 addr ++ adnlSuffix) = .ok addr :=
  ⟨Address.adnl_base32_roundtrip addr h, Address.adnl_base32_suffix_roundtrip addr h⟩

/-- CENTREPIECE. For every valid 48-character friendly string `s` (either alphabet), every position `i` and every base64
digit `d` whose 6-bit value differs from that of `s[i]` (`+`/`-` and `/`/`_` share a value), decoding the modified string
is an error. Kernel-only: CRC-16 with zero initial register is linear over XOR; the regenerated table step is eight bit
steps (`gen_crc16Step`); a zero-fed bit step is injective (the polynomial 0x1021 has constant term 1); a substitution is
a non-zero 6-bit error burst, the last character of the 36-byte payload carrying exactly 6 bits. -/
theorem single_char_rejected (s : Str) (i : Nat) (d : Byte)
    (hlen : s.length = 48) (hvalid : (fromBase64Url s).isOk = true) (hi : i < 48)
    (hd : ∃ v, digitVal d = some v ∧ digitVal (s.getD i 0) ≠ some v) :
    (fromBase64Url (s.set i d)).isErr = true := Address.single_char_rejected s i d hlen hvalid hi hd

/-- the same through ParseAccountID: the corrupted string is not accepted by the raw parser either when it contains no `:`
— which is always the case, the friendly alphabet has no colon; stated for the friendly parser above. Non-vacuity: the
friendly form of the zero address in the basechain is a valid 48-character string. -/
example : (toHuman ⟨0#32, List.replicate 32 0#8⟩ true false).length = 48 ∧
    (fromBase64Url (toHuman ⟨0#32, List.replicate 32 0#8⟩ true false)).isOk = true := by
  constructor
  · decide +kernel
  · rw [show toHuman ⟨0#32, List.replicate 32 0#8⟩ true false = toHumanAlpha true ⟨0#32, List.replicate 32 0#8⟩ true false from rfl,
      Address.human_roundtrip true _ true false (by simp [AccountID.WF]) (by decide)]
    rfl

end

end Tongo.C17
