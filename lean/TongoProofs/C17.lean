import TongoModel.Shard
/-! Property C17 — account addresses and shard ids keep their meaning across all forms.
Property theorems only (helper lemmas live in TongoProofs/Lemmas). -/
namespace Tongo.C17
open Tongo.Shard

/-- the two children of a shard are placed symmetrically around it (64-bit wrap-around arithmetic) -/
theorem children_symmetric (s : BitVec 64) : shardChild s true + shardChild s false = s + s := by
  unfold shardChild
  simp only [if_true, Bool.false_eq_true, if_false]
  generalize lowerBit s >>> 1 = x
  bv_omega

end Tongo.C17
