import TongoModel.Shard
import TongoGen.Shards
import TongoProofs.Lemmas.GoInt
/-! Property C17 — account addresses and shard ids keep their meaning across all forms.
Property theorems only (helper lemmas live in TongoProofs/Lemmas).

Section 1 ties the hand model (TongoModel/Shard.lean, the one the compiled driver runs against the Go code on every
check) to the definitions REGENERATED from the Go source by translator X4 (TongoGen/Shards.lean): a change of the Go
integer code changes the regenerated file and breaks one of the `gen_*` equations. -/
namespace Tongo.C17
open Tongo.Shard Tongo.GoInt

/-! ## 1. regenerated definitions = hand model -/

/-- tie: the regenerated ton.ParseShardID equals the hand model (error ↔ `none`) -/
theorem gen_ParseShardID (m : BitVec 64) :
    Gen.Shards.ParseShardID m = (parseShardID m).map (fun s => (s.pfx, s.mask)) := by
  simp only [Gen.Shards.ParseShardID, parseShardID, trailingZeros64_toNat, trailingZeros64_add_one_toNat]
  by_cases h : m = 0
  · simp [h]
  · have h' : (m == 0#64) = false := by simpa using h
    simp only [h', h, if_false, Bool.false_eq_true, Option.map, ctz64]
    rfl

/-- tie: the regenerated ShardID.Encode equals the hand model (`none` = panic on a negative shift count, mask with bit 0 set) -/
theorem gen_Encode (p m : BitVec 64) : Gen.Shards.Encode p m = encode ⟨p, m⟩ := by
  unfold Gen.Shards.Encode encode
  have hle : ctz m ≤ 64 := ctz_le m
  by_cases h : ctz m = 0
  · simp [ctz64, h, trailingZeros64, BitVec.slt]
  · have : ¬ (BitVec.slt (trailingZeros64 m - 1#64) 0#64) := by
      simp [trailingZeros64, BitVec.slt, BitVec.toInt, BitVec.toNat_sub]; omega
    have h2 : (trailingZeros64 m - 1#64).toNat = ctz m - 1 := by
      simp [trailingZeros64, BitVec.toNat_sub]; omega
    simp [ctz64, h, this, h2]

/-- tie: the regenerated ShardID.MatchAccountID (on the big-endian first 8 address bytes) equals the hand model -/
theorem gen_MatchAccountID (p m a : BitVec 64) : Gen.Shards.MatchAccountID p m a = matchPrefix ⟨p, m⟩ a := rfl

/-- tie: the regenerated ShardID.MatchBlockID equals the hand model -/
theorem gen_MatchBlockID (p m b : BitVec 64) : Gen.Shards.MatchBlockID p m b = matchBlock ⟨p, m⟩ b := by
  unfold Gen.Shards.MatchBlockID matchBlock
  rw [gen_ParseShardID]
  cases parseShardID b with
  | none => rfl
  | some sub =>
    have h1 := ctz_le m; have h2 := ctz_le sub.mask
    have : BitVec.slt (trailingZeros64 m) (trailingZeros64 sub.mask) = decide (ctz m < ctz sub.mask) := by
      simp [trailingZeros64, BitVec.slt, BitVec.toInt]; omega
    simp only [Option.map, this, ctz64, decide_eq_true_eq]
    split <;> simp [*]

/-- tie: the regenerated ton.shardChild equals the hand model -/
theorem gen_shardChild (s : BitVec 64) (l : Bool) : Gen.Shards.shardChild s l = shardChild s l := by
  cases l <;> rfl
/-- tie: the regenerated ton.shardParent equals the hand model -/
theorem gen_shardParent (s : BitVec 64) : Gen.Shards.shardParent s = shardParent s := rfl
/-- tie: the regenerated ton.convertShardIdent equals the hand model (8-bit unsigned shift count) -/
theorem gen_convertShardIdent (b : BitVec 8) (wc : BitVec 32) (p : BitVec 64) :
    Gen.Shards.convertShardIdent b wc p = (wc, convertShardIdent p b) := rfl
/-- tie: the regenerated anycast rewrite arithmetic of ton.AccountIDFromTlb equals the hand model -/
theorem gen_anycastRewrite (a d r : BitVec 32) : Gen.Shards.anycastRewrite a d r = anycastRewrite a d r := rfl

/-! ## 2. shard algebra -/

/-- the two children of a shard are placed symmetrically around it (64-bit wrap-around arithmetic) -/
theorem children_symmetric (s : BitVec 64) : shardChild s true + shardChild s false = s + s := by
  unfold shardChild
  simp only [if_true, Bool.false_eq_true, if_false]
  generalize lowerBit s >>> 1 = x
  bv_omega

end Tongo.C17
