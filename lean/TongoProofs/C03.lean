import TongoProofs.Lemmas.TlbPrims
import TongoProofs.Lemmas.TlbStack
import TongoProofs.Lemmas.TlbCanon
import TongoProofs.Lemmas.TlbChain
import TongoProofs.Lemmas.TlbOpBody
import TongoProofs.Lemmas.TlbBitsRefine
import TongoProofs.Lemmas.TlbNoPanic
import TongoProofs.Lemmas.TlbDictOrder
import TongoProofs.Lemmas.TlbCanonCell
import TongoGen.TlbTypes
import TongoGen.AbiOpcodes
import TongoGen.IntTypes
/-! # C03 — TL-B values survive encode/decode for every type the library ships

Property theorems about the model of the reflection codec (`TongoModel/Tlb/*`): `Enc.encode` / `Dec.decode` over
regenerated type descriptors. The tie to the Go code is translator X1/X2 + the correspondence check (props/C03.py).

Scope of the theorems: every descriptor `T` with `wfTop env T` (decided per regenerated type: `wf_<T>` in
TongoGen/TlbTypes.lean), every value in `inDom`. Dictionaries (`dictE` = HashmapE, `dict` = Hashmap written inline)
are part of the descriptors: their tree is C05's model (`Tongo.Hashmap.marshal` / `unmarshal`) over the value codec
of the element descriptor, and their case of the induction is C05's `decode_encode_sorted` (`CodecOK_hashmapE`).
NOT covered (listed in the evidence): types containing a custom codec without a model (`opaque`; among them
dictionaries whose values are written position-dependently, i.e. inline SnakeData) and the types pinned in
harness/tlbx/nonwf.go. -/
namespace Tongo.Tlb.C03
open Tongo Tongo.Tlb Tongo.Bits

/-- an environment given by a list whose every entry passes the well-formedness check -/
theorem envWF_of_envOk (l : List Ty) (h : envOk (envOfList l) l = true) : EnvWF (envOfList l) := by
  intro id T hid
  simp only [envOk, List.all_eq_true] at h
  exact h T (List.mem_of_getElem? hid)

/-- **decode_encode** (generic, by induction on the descriptor; fuel bounds the unfolding of `named` types).
`tlb.Marshal` of an in-domain value of a well-formed type into a new cell either fails or yields a cell from which
`tlb.Unmarshal` returns the same value. -/
theorem decode_encode (env : Env) (hEnv : EnvWF env) (T : Ty) (hw : wfTop env T = true)
    (fuel : Nat) (v : Val) (hd : inDom env fuel T v = true) (b' : Builder)
    (he : encode env fuel T v Builder.empty = .ok b') :
    ∃ rest, decode env fuel T (Slice.ofCell b'.toCell) = .ok (v, rest) :=
  (ref_content (Inv.all env hEnv primOK_of_proved fuel) T v b' hw hd he).2.1

/-- **decode_encode**, inline form: whatever has been written before (`b`), the encoder appends a chunk `(xs, rs)`
of bits and references; decoding the slice of `b'` that starts after `|b|` returns the value, and for a type that is
not greedy the decoder leaves exactly what follows the chunk, whatever it is. -/
theorem decode_encode_inline (env : Env) (hEnv : EnvWF env) (T : Ty) (hw : wfb env T = true)
    (fuel : Nat) (v : Val) (hd : inDom env fuel T v = true) (b b' : Builder)
    (he : encode env fuel T v b = .ok b') :
    ∃ xs rs, b' = b.app xs rs ∧
      (∃ rest, decode env fuel T ({ bits := xs, refs := rs } : Slice) = .ok (v, rest)) ∧
      (NG env T → ∀ s : Slice, s.isLibrary = false → decode env fuel T (s.prepend xs rs) = .ok (v, s)) := by
  obtain ⟨xs, rs, hb, hrt⟩ := (Inv.all env hEnv primOK_of_proved fuel).enc T v b b' hw hd he
  refine ⟨xs, rs, hb, ?_, ?_⟩
  · obtain ⟨s', hs', _⟩ := hrt {} rfl (Or.inr ⟨rfl, rfl, rfl⟩)
    refine ⟨s', ?_⟩
    simpa [Slice.prepend] using hs'
  · intro hng s hs
    obtain ⟨s', hs', heq⟩ := hrt s hs (Or.inl hng)
    rw [heq hng] at hs'
    exact hs'

/-- **same_constructor**: the constructor name of a decoded sum-type value equals the encoded one (first-match
dispatch over pairwise prefix-free tags never picks another constructor). -/
theorem same_constructor (env : Env) (hEnv : EnvWF env) (cs : Ctors) (hw : wfb env (.sum cs) = true)
    (fuel : Nat) (name : String) (x : Val) (hd : inDom env fuel (.sum cs) (Val.ctor name x) = true)
    (b' : Builder) (he : encode env fuel (.sum cs) (Val.ctor name x) Builder.empty = .ok b')
    (name' : String) (x' : Val) (rest : Slice)
    (hdec : decode env fuel (.sum cs) (Slice.ofCell b'.toCell) = .ok (Val.ctor name' x', rest)) :
    name' = name := by
  have hw' : wfTop env (.sum cs) = true := by simpa [wfTop, wfRefOf] using hw
  obtain ⟨r, hr⟩ := decode_encode env hEnv (.sum cs) hw' fuel _ hd b' he
  rw [hr] at hdec
  simp only [Outcome.ok.injEq, Prod.mk.injEq, Val.ctor, Val.cons.injEq, Val.sym.injEq] at hdec
  exact hdec.1.1.symm

/-- **reencode_hash**, the unrestricted statement: decoding ANY cell and encoding the result reproduces the hash. It is
FALSE for most shipped types (witnesses below: `reencode_varuint_witness`, `reencode_ref_witness`,
`reencode_trailing_witness`; for dictionaries C05's label witnesses) — it holds exactly for
the canonical types on cells the decoder consumed entirely (`reencode_hash_canonical`) and, for EVERY type the
checker `canonAt` walks — the types the property names among them —, exactly on the cells that satisfy the decidable
predicate `canonicalCell` (`reencode_canonical_cell`, `noncanonical_cell_witnesses`). `reencode_own_output` is only
about the encoder's own output. On real chain data the predicate is evaluated by the harness (op `tlb.canon`). -/
def ReencodeHash (H : List UInt8 → List UInt8) (env : Env) (T : Ty) : Prop :=
  ∀ fuel (c : Cell) v rest b', decode env fuel T (Slice.ofCell c) = .ok (v, rest) →
    encode env fuel T v Builder.empty = .ok b' → Cell.reprHash H b'.toCell = Cell.reprHash H c

/-- **reencode_exact** (`Canonical T`, TongoModel/Tlb/Canon.lean: fixed-width integers, booleans, byte arrays, tagged
constructors with distinct names, Maybe, Either, pointers, optional pointer fields, Magic fields, named types built
from these): WHATEVER slice the decoder is given, if it answers `v` it has consumed exactly the bits
`xs` (and no reference) that the encoder writes for `v` — into any builder. By the converse induction on descriptors
(`Lemmas/TlbCanon.CInv`). -/
theorem reencode_exact (env : Env) (T : Ty) (hc : Canonical env T) (fuel : Nat) (s s' : Slice) (v : Val)
    (hd : decode env fuel T s = .ok (v, s')) :
    ∃ xs, s = s'.prepend xs [] ∧ ∀ b b', encode env fuel T v b = .ok b' → b' = b.app xs [] :=
  (CInv.all env fuel).dec canonFuel T hc s v s' hd

/-- **reencode_hash_canonical**: for a canonical type, decoding ANY ordinary cell that the decoder consumes entirely
and encoding the result yields THE SAME CELL — hence the same representation hash, for any hash function. (Both side
conditions are necessary: `reencode_trailing_witness`; an exotic cell is re-encoded as an ordinary one.) -/
theorem reencode_hash_canonical (H : List UInt8 → List UInt8) (env : Env) (T : Ty) (hc : Canonical env T)
    (fuel : Nat) (c : Cell) (hord : c.ty = 0 ∧ c.mask = 0) (v : Val) (rest : Slice) (b' : Builder)
    (hd : decode env fuel T (Slice.ofCell c) = .ok (v, rest)) (hall : rest.bits = [] ∧ rest.refs = [])
    (he : encode env fuel T v Builder.empty = .ok b') :
    b'.toCell = c ∧ Cell.reprHash H b'.toCell = Cell.reprHash H c := by
  obtain ⟨xs, hs, henc⟩ := reencode_exact env T hc fuel _ rest v hd
  have hb := henc _ _ he
  have hcell : b'.toCell = c := by
    obtain ⟨ty, mask, bits, refs⟩ := c
    obtain ⟨rty, rmask, rbits, rrefs⟩ := rest
    simp only [Cell.ty, Cell.mask] at hord
    obtain ⟨rfl, rfl⟩ := hord
    simp only at hall
    obtain ⟨rfl, rfl⟩ := hall
    simp only [Slice.ofCell, Slice.prepend, List.append_nil, List.nil_append, Slice.mk.injEq] at hs
    obtain ⟨_, _, rfl, rfl⟩ := hs
    rw [hb]
    simp [Builder.empty, Builder.app, Builder.toCell]
  exact ⟨hcell, by rw [hcell]⟩

/-- the canonical regenerated descriptors (190 of the named types of the environment, 330 of the 721 `wf_` descriptors on the current source, e.g. ExtBlkRef, BlockIdExt's
parts, HashUpdate, TickTock, SplitMergeInfo, the fixed-layout config parameters, the wallet data records): for every
entry of the regenerated environment that passes the check, `reencode_hash_canonical` applies -/
theorem reencode_hash_generated (H : List UInt8 → List UInt8) (T : Ty)
    (hc : canonb TongoGen.TlbTypes.env canonFuel T = true)
    (fuel : Nat) (c : Cell) (hord : c.ty = 0 ∧ c.mask = 0) (v : Val) (rest : Slice) (b' : Builder)
    (hd : decode TongoGen.TlbTypes.env fuel T (Slice.ofCell c) = .ok (v, rest))
    (hall : rest.bits = [] ∧ rest.refs = [])
    (he : encode TongoGen.TlbTypes.env fuel T v Builder.empty = .ok b') :
    Cell.reprHash H b'.toCell = Cell.reprHash H c :=
  (reencode_hash_canonical H _ T hc fuel c hord v rest b' hd hall he).2

open TongoGen.TlbTypes in
theorem canonical_tlb_ExtBlkRef : Canonical env desc_tlb_ExtBlkRef := by unfold Canonical; decide +kernel
open TongoGen.TlbTypes in
theorem canonical_tlb_HashUpdate : Canonical env desc_tlb_HashUpdate := by unfold Canonical; decide +kernel
open TongoGen.TlbTypes in
theorem canonical_tlb_TickTock : Canonical env desc_tlb_TickTock := by unfold Canonical; decide +kernel
open TongoGen.TlbTypes in
theorem canonical_tlb_StorageExtraInfo : Canonical env desc_tlb_StorageExtraInfo := by unfold Canonical; decide +kernel
open TongoGen.TlbTypes in
theorem canonical_tlb_ValidatorDescr : Canonical env desc_tlb_ValidatorDescr := by unfold Canonical; decide +kernel
open TongoGen.TlbTypes in
/-- not canonical: anything that contains Grams (VarUInteger 16), a reference or a dictionary -/
theorem noncanonical_examples :
    canonb env canonFuel desc_tlb_CurrencyCollection = false ∧ canonb env canonFuel desc_tlb_Message = false ∧
    canonb env canonFuel desc_tlb_Transaction = false ∧ canonb env canonFuel desc_tlb_StateInit = false := by
  decide +kernel

/-! Witnesses: why each excluded construct is excluded (decided on literals). -/

set_option maxRecDepth 20000 in
/-- **reencode_varuint_witness**: `VarUInteger 16` / Grams — the cell `len=2, 00 05` decodes to 5, which is written
back as `len=1, 05`: a different cell. -/
theorem reencode_varuint_witness :
    (match Prim.dec .grams ({ bits := natToBits 4 2 ++ natToBits 16 5 } : Slice) with
      | .ok (.int v, rest) =>
        (match Prim.enc .grams (.int v) Builder.empty with
          | .ok b => decide (v = 5) && rest.bits.isEmpty && decide (b.bits = natToBits 4 1 ++ natToBits 8 5)
          | _ => false)
      | _ => false) = true := by
  decide

set_option maxRecDepth 20000 in
/-- **reencode_ref_witness**: `^uint8` — the decoder reads 8 bits of the child and ignores the rest; the re-encoded
child has 8 bits. -/
theorem reencode_ref_witness :
    (let T : Ty := .struct (.cons "X" .ref (.uint 8) .nil)
     let child := Cell.mk 0 0 (natToBits 8 7 ++ [true, true]) []
     match decode (fun _ => none) 4 T ({ refs := [child] } : Slice) with
      | .ok (v, _) =>
        (match encode (fun _ => none) 4 T v Builder.empty with
          | .ok b => (match b.refs with
            | [Cell.mk _ _ bits _] => decide (bits = natToBits 8 7)
            | _ => false)
          | _ => false)
      | _ => false) = true := by
  decide

set_option maxRecDepth 20000 in
/-- **reencode_trailing_witness**: even for a canonical type the cell must be consumed entirely — `uint8` on a
10-bit cell: the two trailing bits are not part of the value. -/
theorem reencode_trailing_witness :
    (match decode (fun _ => none) 2 (.uint 8) ({ bits := natToBits 8 7 ++ [true, true] } : Slice) with
      | .ok (v, rest) =>
        (match encode (fun _ => none) 2 (.uint 8) v Builder.empty with
          | .ok b => decide (b.bits = natToBits 8 7) && decide (rest.bits = [true, true])
          | _ => false)
      | _ => false) = true := by
  decide

/-- **magic_orig_defect** (decided witness, found while proving `reencode_exact`): `Magic.ValidateTag` as shipped dropped
the error of `ReadUint`, so for a tag whose value is 0 (`shardident$00`, `msg_metadata#0`, `out_msg_queue_extra#0`,
`#00` …) a cell that ENDS before the tag passed the tag check with nothing consumed; the repaired decoder rejects it
(`fix:` commit "Magic.ValidateTag returns the error of the read"). -/
theorem magic_orig_defect :
    (match decodeMagicOrig (some ⟨8, 0⟩) ({} : Slice), decodeMagic (some ⟨8, 0⟩) ({} : Slice) with
      | .ok (_, rest), .err _ => rest.bits.isEmpty
      | _, _ => false) = true := by
  decide

/-- **reencode_own_output** (formerly `reencode_hash_partial`; it quantifies over the ENCODER'S OWN OUTPUT, i.e. it is
the round trip plus determinism and says nothing about cells that come from elsewhere): a cell produced by the encoder
decodes to a value whose encoding is the same cell. For foreign cells: `reencode_canonical_cell`. -/
theorem reencode_own_output (H : List UInt8 → List UInt8) (env : Env) (hEnv : EnvWF env) (T : Ty)
    (hw : wfTop env T = true) (fuel : Nat) (v : Val) (hd : inDom env fuel T v = true) (b1 : Builder)
    (he : encode env fuel T v Builder.empty = .ok b1) (v2 : Val) (rest : Slice)
    (hdec : decode env fuel T (Slice.ofCell b1.toCell) = .ok (v2, rest)) (b2 : Builder)
    (he2 : encode env fuel T v2 Builder.empty = .ok b2) :
    b2 = b1 ∧ Cell.reprHash H b2.toCell = Cell.reprHash H b1.toCell := by
  obtain ⟨r, hr⟩ := decode_encode env hEnv T hw fuel v hd b1 he
  rw [hr] at hdec
  simp only [Outcome.ok.injEq, Prod.mk.injEq] at hdec
  obtain ⟨rfl, _⟩ := hdec
  rw [he] at he2
  cases he2
  exact ⟨rfl, rfl⟩

/-! ## Re-encoding FOREIGN cells: the cell-level canonicity check

`canonicalCell env fuel T c` (TongoModel/Tlb/CanonCell.lean) is decidable and is about the CELL, not about the
encoder: `c` is an ordinary level-0 cell; walking `T` over it like the decoder, every `VarUInteger` / `Grams` has a
minimal length prefix, every child behind a reference is itself an ordinary, canonical, entirely consumed cell
(`^Cell`: any child that is not pruned), every dictionary is a tree of ordinary cells whose labels are in the form
`Hashmap.encLabelBits` picks (TON's shortest form), whose forks hold two references and nothing else and whose leaf
values are canonical and fill the leaf; `Any` is what is left; the whole cell is consumed. -/

/-- **reencode_canonical_cell** — for EVERY descriptor and every cell that passes the check: if the decoder answers
`v` and the encoder accepts `v`, the encoder rebuilds THE SAME CELL, hence the same representation hash (any hash
function). No hypothesis on the type: what a type must satisfy is part of the check (`canonAt` answers `none` on
constructs it does not know). By the converse induction over descriptors for cells (`Lemmas/TlbCanonCell.CInvC`), with
`Lemmas/TlbCanonDict.dict_canon_encode` for the dictionaries (the cell tree IS what C05's `encodeMap` builds from the
decoded entries) and `Lemmas/TlbCanonPrim` for `Grams` / `VarUInteger` / `MsgAddress` / `Any`. -/
theorem reencode_canonical_cell (H : List UInt8 → List UInt8) (env : Env) (T : Ty) (fuel : Nat) (c : Cell)
    (hc : canonicalCell env fuel T c = true) (v : Val) (rest : Slice) (b' : Builder)
    (hd : decode env fuel T (Slice.ofCell c) = .ok (v, rest))
    (he : encode env fuel T v Builder.empty = .ok b') :
    b'.toCell = c ∧ Cell.reprHash H b'.toCell = Cell.reprHash H c := by
  have hcell : b'.toCell = c := child_rebuilt ((CInvC.all env fuel).dec T) c v rest hd hc b' he
  exact ⟨hcell, by rw [hcell]⟩

/-- inside a cell (the inline form): whatever slice passes `canonAt`, the value the decoder returns is re-encoded —
into any builder — to exactly the bits AND references the check walked over; for a type that is not greedy the check
stops where the decoder stops -/
theorem reencode_canonical_inline (env : Env) (T : Ty) (fuel : Nat) (s s' rest : Slice) (v : Val)
    (hd : decode env fuel T s = .ok (v, s')) (hc : canonAt env fuel T s = some rest) :
    ∃ xs rs, s = rest.prepend xs rs ∧ (∀ b b', encode env fuel T v b = .ok b' → b' = b.app xs rs) ∧
      (NG env T → rest = s') :=
  (CInvC.all env fuel).dec T s v s' hd rest hc

/-- the types the property names, over the REGENERATED descriptors and environment (instances; nothing else to
discharge): a Message / StateInit / Transaction / CurrencyCollection / Account cell from the chain that satisfies
`canonicalCell` is reproduced bit for bit and reference for reference -/
theorem reencode_tlb_Message (H : List UInt8 → List UInt8) (fuel : Nat) (c : Cell)
    (hc : canonicalCell TongoGen.TlbTypes.env fuel TongoGen.TlbTypes.desc_tlb_Message c = true)
    (v : Val) (rest : Slice) (b' : Builder)
    (hd : decode TongoGen.TlbTypes.env fuel TongoGen.TlbTypes.desc_tlb_Message (Slice.ofCell c) = .ok (v, rest))
    (he : encode TongoGen.TlbTypes.env fuel TongoGen.TlbTypes.desc_tlb_Message v Builder.empty = .ok b') :
    b'.toCell = c ∧ Cell.reprHash H b'.toCell = Cell.reprHash H c :=
  reencode_canonical_cell H _ _ fuel c hc v rest b' hd he

theorem reencode_tlb_StateInit (H : List UInt8 → List UInt8) (fuel : Nat) (c : Cell)
    (hc : canonicalCell TongoGen.TlbTypes.env fuel TongoGen.TlbTypes.desc_tlb_StateInit c = true)
    (v : Val) (rest : Slice) (b' : Builder)
    (hd : decode TongoGen.TlbTypes.env fuel TongoGen.TlbTypes.desc_tlb_StateInit (Slice.ofCell c) = .ok (v, rest))
    (he : encode TongoGen.TlbTypes.env fuel TongoGen.TlbTypes.desc_tlb_StateInit v Builder.empty = .ok b') :
    b'.toCell = c ∧ Cell.reprHash H b'.toCell = Cell.reprHash H c :=
  reencode_canonical_cell H _ _ fuel c hc v rest b' hd he

theorem reencode_tlb_Transaction (H : List UInt8 → List UInt8) (fuel : Nat) (c : Cell)
    (hc : canonicalCell TongoGen.TlbTypes.env fuel TongoGen.TlbTypes.desc_tlb_Transaction c = true)
    (v : Val) (rest : Slice) (b' : Builder)
    (hd : decode TongoGen.TlbTypes.env fuel TongoGen.TlbTypes.desc_tlb_Transaction (Slice.ofCell c) = .ok (v, rest))
    (he : encode TongoGen.TlbTypes.env fuel TongoGen.TlbTypes.desc_tlb_Transaction v Builder.empty = .ok b') :
    b'.toCell = c ∧ Cell.reprHash H b'.toCell = Cell.reprHash H c :=
  reencode_canonical_cell H _ _ fuel c hc v rest b' hd he

theorem reencode_tlb_CurrencyCollection (H : List UInt8 → List UInt8) (fuel : Nat) (c : Cell)
    (hc : canonicalCell TongoGen.TlbTypes.env fuel TongoGen.TlbTypes.desc_tlb_CurrencyCollection c = true)
    (v : Val) (rest : Slice) (b' : Builder)
    (hd : decode TongoGen.TlbTypes.env fuel TongoGen.TlbTypes.desc_tlb_CurrencyCollection (Slice.ofCell c)
      = .ok (v, rest))
    (he : encode TongoGen.TlbTypes.env fuel TongoGen.TlbTypes.desc_tlb_CurrencyCollection v Builder.empty = .ok b') :
    b'.toCell = c ∧ Cell.reprHash H b'.toCell = Cell.reprHash H c :=
  reencode_canonical_cell H _ _ fuel c hc v rest b' hd he

theorem reencode_tlb_Account (H : List UInt8 → List UInt8) (fuel : Nat) (c : Cell)
    (hc : canonicalCell TongoGen.TlbTypes.env fuel TongoGen.TlbTypes.desc_tlb_Account c = true)
    (v : Val) (rest : Slice) (b' : Builder)
    (hd : decode TongoGen.TlbTypes.env fuel TongoGen.TlbTypes.desc_tlb_Account (Slice.ofCell c) = .ok (v, rest))
    (he : encode TongoGen.TlbTypes.env fuel TongoGen.TlbTypes.desc_tlb_Account v Builder.empty = .ok b') :
    b'.toCell = c ∧ Cell.reprHash H b'.toCell = Cell.reprHash H c :=
  reencode_canonical_cell H _ _ fuel c hc v rest b' hd he

/-! ### the check on literal cells (TESTS): inhabited, and every condition is needed -/
namespace CanonTest
open TongoGen.TlbTypes

/-- `Hashmap 32 (VarUInteger 32)` with the single entry 7 ↦ 9, label in the encoder's form (hml_long) -/
def dictLong : Cell := .mk 0 0 ([true, false] ++ natToBits 6 32 ++ natToBits 32 7 ++ (natToBits 5 1 ++ natToBits 8 9)) []
/-- the same dictionary, label in the form hml_short (valid TL-B, longer: not what the encoder picks) -/
def dictShort : Cell :=
  .mk 0 0 ([false] ++ Hashmap.unary 32 ++ natToBits 32 7 ++ (natToBits 5 1 ++ natToBits 8 9)) []
/-- the same entry with a non-minimal VarUInteger 32 value: len = 2, bytes 00 09 -/
def dictFat : Cell := .mk 0 0 ([true, false] ++ natToBits 6 32 ++ natToBits 32 7 ++ (natToBits 5 2 ++ natToBits 16 9)) []
/-- two entries 2 ↦ 1, 3 ↦ 1: a fork under the 31-bit label 0…01, leaves with empty labels -/
def leaf1 : Cell := .mk 0 0 ([false, false] ++ (natToBits 5 1 ++ natToBits 8 1)) []
def fork : Cell := .mk 0 0 ([true, false] ++ natToBits 6 31 ++ natToBits 31 1) [leaf1, leaf1]
/-- `currencies$_ grams:Grams other:ExtraCurrencyCollection`: 5 nanoton and the dictionary behind `root` -/
def cc (root : Cell) : Cell := .mk 0 0 (natToBits 4 1 ++ natToBits 8 5 ++ [true]) [root]
/-- a StateInit with code and data (`^Cell`: any cells), no library -/
def stateInit (code data : Cell) : Cell := .mk 0 0 [false, false, true, true, false] [code, data]
def someCell : Cell := .mk 0 0 (natToBits 10 700) [.mk 0 0 [true] []]
/-- an external-in message: ext_in_msg_info$10 src:addr_none dest:addr_std(wc 0, 256 bits) import_fee:0, no init,
body inline (`Any`: the 12 bits that follow) -/
def extIn : Cell :=
  .mk 0 0 ([true, false] ++ [false, false] ++ ([true, false] ++ [false] ++ natToBits 8 0 ++ natToBits 256 12345)
    ++ natToBits 4 0 ++ [false] ++ [false] ++ natToBits 12 2748) []
/-- the same message with its state-init behind a reference and its body behind a reference -/
def extInRefs : Cell :=
  .mk 0 0 ([true, false] ++ [false, false] ++ ([true, false] ++ [false] ++ natToBits 8 0 ++ natToBits 256 12345)
    ++ natToBits 4 0 ++ [true, true] ++ [true]) [stateInit someCell someCell, someCell]

set_option maxRecDepth 100000 in
/-- canonical cells of the types the property names: minimal Grams, empty / one-leaf / forked dictionary, references,
`Any` inline and behind a reference — so `reencode_tlb_*` are not vacuous -/
theorem canonical_cell_examples :
    canonicalCell env 12 desc_tlb_CurrencyCollection (.mk 0 0 (natToBits 4 1 ++ natToBits 8 5 ++ [false]) []) = true ∧
    canonicalCell env 12 desc_tlb_CurrencyCollection (cc dictLong) = true ∧
    canonicalCell env 12 desc_tlb_CurrencyCollection (cc fork) = true ∧
    canonicalCell env 12 desc_tlb_StateInit (stateInit someCell someCell) = true ∧
    canonicalCell env 16 desc_tlb_Message extIn = true ∧
    canonicalCell env 16 desc_tlb_Message extInRefs = true ∧
    (decode env 16 desc_tlb_Message (Slice.ofCell extInRefs)).isOk = true := by
  decide +kernel

set_option maxRecDepth 100000 in
/-- **noncanonical_cell_witnesses** — each condition of the check is needed: the cell is rejected by `canonicalCell`,
is ACCEPTED by the decoder, and the encoder writes a DIFFERENT cell for the decoded value:
(1) Grams with a non-minimal length prefix (len = 2, bytes 00 05 → re-encoded with len = 1);
(2) a dictionary label in the form hml_short where the encoder picks hml_long (root re-encoded as `dictLong`);
(3) a dictionary value with a non-minimal VarUInteger (root re-encoded as `dictLong`);
(4) a child cell with two unread bits after the value (`^[Public:bool]`-like: the child is re-encoded without them);
(5) trailing bits after a StateInit -/
theorem noncanonical_cell_witnesses :
    -- (1)
    (canonicalCell env 12 desc_tlb_CurrencyCollection (.mk 0 0 (natToBits 4 2 ++ natToBits 16 5 ++ [false]) []) = false ∧
      (match decode env 12 desc_tlb_CurrencyCollection
          (Slice.ofCell (.mk 0 0 (natToBits 4 2 ++ natToBits 16 5 ++ [false]) [])) with
        | .ok (v, _) => (match encode env 12 desc_tlb_CurrencyCollection v Builder.empty with
          | .ok b => decide (b.bits = natToBits 4 1 ++ natToBits 8 5 ++ [false])
          | _ => false)
        | _ => false) = true) ∧
    -- (2) and (3)
    (canonicalCell env 12 desc_tlb_CurrencyCollection (cc dictShort) = false ∧
      canonicalCell env 12 desc_tlb_CurrencyCollection (cc dictFat) = false ∧
      [cc dictShort, cc dictFat].all (fun c =>
        match decode env 12 desc_tlb_CurrencyCollection (Slice.ofCell c) with
        | .ok (v, _) => (match encode env 12 desc_tlb_CurrencyCollection v Builder.empty with
          | .ok b => (match b.refs, dictLong with
            | [Cell.mk _ _ bits _], Cell.mk _ _ want _ => decide (bits = want)
            | _, _ => false)
          | _ => false)
        | _ => false) = true) ∧
    -- (4): SimpleLib = public:Bool root:^Cell inside a struct field behind a reference
    (let T : Ty := .struct (.cons "X" .ref (.struct (.cons "Public" .plain .bool .nil)) .nil)
     let c : Cell := .mk 0 0 [] [.mk 0 0 [true, false, true] []]
     canonicalCell env 12 T c = false ∧
      (match decode env 12 T (Slice.ofCell c) with
        | .ok (v, _) => (match encode env 12 T v Builder.empty with
          | .ok b => (match b.refs with
            | [Cell.mk _ _ bits _] => decide (bits = [true])
            | _ => false)
          | _ => false)
        | _ => false) = true) ∧
    -- (5)
    (canonicalCell env 12 desc_tlb_StateInit (.mk 0 0 [false, false, false, false, false, true] []) = false ∧
      (decode env 12 desc_tlb_StateInit (Slice.ofCell (.mk 0 0 [false, false, false, false, false, true] []))).isOk
        = true) := by
  decide +kernel

/-- a storage-phase transaction without messages (`trans_storage$0001`), 100 → 99 in logical time -/
def txVal : Val :=
  let h : List UInt8 := List.replicate 32 7
  Val.list [.magic, .bytes h, .int 100, .bytes h, .int 99, .int 1700000000, .int 0, .bytes Prim.s_active,
    .bytes Prim.s_active,
    Val.list [.none, .nil],
    Val.list [.int 1000, Val.list [.nil]],
    Val.list [.magic, .bytes h, .bytes h],
    Val.ctor "TransStorage" (Val.list [Val.list [.int 5, .none, .bytes Prim.s_acst_unchanged]])]

set_option maxRecDepth 100000 in
/-- `reencode_tlb_Transaction` / `reencode_tlb_Account` are not vacuous either (TEST on literals): the Transaction cell
the encoder writes for `txVal` (three references: messages, state update, description) passes the check and decodes;
`account_none$0` is a canonical Account -/
theorem canonical_transaction_example :
    inDom env 30 desc_tlb_Transaction txVal = true ∧
    (match encode env 30 desc_tlb_Transaction txVal Builder.empty with
      | .ok b => canonicalCell env 30 desc_tlb_Transaction b.toCell &&
          (decode env 30 desc_tlb_Transaction (Slice.ofCell b.toCell)).isOk && b.refs.length == 3
      | _ => false) = true ∧
    canonicalCell env 30 desc_tlb_Account (Cell.mk 0 0 [false] []) = true := by
  decide +kernel

end CanonTest

/-! ## Regenerated instances -/

/-- the regenerated type environment is well formed (assembled from the per-type `wf_<T>` obligations) -/
theorem generated_env_wf : EnvWF TongoGen.TlbTypes.env :=
  envWF_of_envOk TongoGen.TlbTypes.envList TongoGen.TlbTypes.env_wf

/-- **roundtrip_generated**: the round trip holds for EVERY regenerated descriptor whose `wf_<T>` obligation is
discharged (`roundtrip_<T>` for each of them is this theorem at `T := desc_<T>`). A change of a struct tag, field
order or constructor tag in the Go source changes `desc_<T>`; if it makes the dispatch ambiguous `wf_<T>` fails. -/
theorem roundtrip_generated (T : Ty) (hT : T ∈ TongoGen.TlbTypes.allWf) (fuel : Nat) (v : Val)
    (hd : inDom TongoGen.TlbTypes.env fuel T v = true) (b' : Builder)
    (he : encode TongoGen.TlbTypes.env fuel T v Builder.empty = .ok b') :
    ∃ rest, decode TongoGen.TlbTypes.env fuel T (Slice.ofCell b'.toCell) = .ok (v, rest) :=
  decode_encode _ generated_env_wf T ((List.all_eq_true.mp TongoGen.TlbTypes.allWf_ok) T hT) fuel v hd b' he

/-- `roundtrip_<T>` spelled out for the message envelope -/
theorem roundtrip_tlb_Message (fuel : Nat) (v : Val)
    (hd : inDom TongoGen.TlbTypes.env fuel TongoGen.TlbTypes.desc_tlb_Message v = true) (b' : Builder)
    (he : encode TongoGen.TlbTypes.env fuel TongoGen.TlbTypes.desc_tlb_Message v Builder.empty = .ok b') :
    ∃ rest, decode TongoGen.TlbTypes.env fuel TongoGen.TlbTypes.desc_tlb_Message (Slice.ofCell b'.toCell)
      = .ok (v, rest) :=
  decode_encode _ generated_env_wf _ TongoGen.TlbTypes.wf_tlb_Message fuel v hd b' he

set_option maxRecDepth 100000 in
/-- the hypotheses of `decode_encode` / `roundtrip_generated` are inhabited by values that hold a DICTIONARY and
REFERENCES (TEST on literals over the regenerated descriptors): a CurrencyCollection with two extra currencies
(`HashmapE 32 (VarUInteger 32)`: a fork and two leaves), a StateInit with code and data cells — and what the encoder
writes for the latter passes the cell-level check -/
example :
    let v := Val.list [.int 5, Val.list [Val.list [Val.list [.int 7, .int 8], Val.list [.int 9, .int 1000]]]]
    let c := Cell.mk 0 0 (natToBits 10 700) []
    let si := Val.list [.none, .none, Val.some (.cell c), Val.some (.cell c), .nil]
    inDom TongoGen.TlbTypes.env 12 TongoGen.TlbTypes.desc_tlb_CurrencyCollection v = true ∧
    (encode TongoGen.TlbTypes.env 12 TongoGen.TlbTypes.desc_tlb_CurrencyCollection v Builder.empty).isOk = true ∧
    inDom TongoGen.TlbTypes.env 12 TongoGen.TlbTypes.desc_tlb_StateInit si = true ∧
    (match encode TongoGen.TlbTypes.env 12 TongoGen.TlbTypes.desc_tlb_StateInit si Builder.empty with
      | .ok b => b.refs.length == 2 && canonicalCell TongoGen.TlbTypes.env 12 TongoGen.TlbTypes.desc_tlb_StateInit b.toCell
      | _ => false) = true := by
  decide +kernel

/-- `roundtrip_<T>` for the transaction and account records and the wallet bodies (instances of
`roundtrip_generated`; their `wf_<T>` obligations are regenerated on every run) -/
theorem roundtrip_records :
    let E := TongoGen.TlbTypes.env
    ∀ T ∈ [TongoGen.TlbTypes.desc_tlb_Transaction, TongoGen.TlbTypes.desc_tlb_TransactionDescr,
        TongoGen.TlbTypes.desc_tlb_HashUpdate, TongoGen.TlbTypes.desc_tlb_Account,
        TongoGen.TlbTypes.desc_tlb_AccountStorage, TongoGen.TlbTypes.desc_tlb_StorageInfo,
        TongoGen.TlbTypes.desc_tlb_ShardAccount, TongoGen.TlbTypes.desc_wallet_MessageV5Beta,
        TongoGen.TlbTypes.desc_wallet_HighloadV2Message, TongoGen.TlbTypes.desc_wallet_MessageV3,
        TongoGen.TlbTypes.desc_wallet_MessageV4],
      ∀ (fuel : Nat) (v : Val), inDom E fuel T v = true → ∀ b' : Builder,
        encode E fuel T v Builder.empty = .ok b' →
        ∃ rest, decode E fuel T (Slice.ofCell b'.toCell) = .ok (v, rest) := by
  intro E T hT fuel v hd b' he
  have hw : wfTop E T = true := by
    simp only [List.mem_cons, List.mem_nil_iff, or_false] at hT
    rcases hT with rfl | rfl | rfl | rfl | rfl | rfl | rfl | rfl | rfl | rfl | rfl
    · exact TongoGen.TlbTypes.wf_tlb_Transaction
    · exact TongoGen.TlbTypes.wf_tlb_TransactionDescr
    · exact TongoGen.TlbTypes.wf_tlb_HashUpdate
    · exact TongoGen.TlbTypes.wf_tlb_Account
    · exact TongoGen.TlbTypes.wf_tlb_AccountStorage
    · exact TongoGen.TlbTypes.wf_tlb_StorageInfo
    · exact TongoGen.TlbTypes.wf_tlb_ShardAccount
    · exact TongoGen.TlbTypes.wf_wallet_MessageV5Beta
    · exact TongoGen.TlbTypes.wf_wallet_HighloadV2Message
    · exact TongoGen.TlbTypes.wf_wallet_MessageV3
    · exact TongoGen.TlbTypes.wf_wallet_MessageV4
  exact decode_encode _ generated_env_wf T hw fuel v hd b' he

/-! ## CodecOK lemmas of the hand-written codecs, in readable form -/

/-- **varuint_roundtrip**: `VarUInteger n` (n = 1..32) round-trips every value of every byte length 0..n-1. -/
theorem varuint_roundtrip (n : Nat) (hn : 1 ≤ n ∧ n ≤ 32) (x : Nat) (hx : natBytesLen x ≤ n - 1)
    (b b' : Builder) (he : Prim.encVarUint n x b = .ok b') :
    ∃ xs, b' = b.app xs [] ∧ ∀ (s : Slice) (ys : List Bool) (rs : List Cell),
      Prim.decVarUint n (s.prepend (xs ++ ys) rs) = .ok ((x : Int), s.prepend ys rs) :=
  varUint_chunk n x b b' (Nat.lt_of_lt_of_le (by omega : n - 1 < 32) (by decide)) (by omega) (by simpa using hx) he

/-- **bigint_roundtrip**: signed integers of EVERY width 1..257 (indeed up to 1023) round-trip every representable
value, on the REPAIRED `ReadBigUint` (defect #1: `fix:` commit in /repo; see `bigint_orig_defect`). -/
theorem bigint_roundtrip (w : Nat) (hw : 1 ≤ w) (x : Int)
    (hx : -(2 ^ (w - 1) : Int) ≤ x ∧ x < 2 ^ (w - 1)) (b b' : Builder) (he : b.writeBigInt x w = .ok b') :
    ∃ xs, b' = b.app xs [] ∧ ∀ s : Slice, (s.prepend xs []).readBigInt w = .ok (x, s) := by
  obtain ⟨m, rfl⟩ : ∃ m, w = m + 1 := ⟨w - 1, by omega⟩
  simp only [Nat.add_sub_cancel] at hx
  obtain ⟨sgn, rest, hb, hlen, hval⟩ := bigInt_chunk m x b b' hx he
  refine ⟨sgn :: rest, hb, ?_⟩
  intro s
  have h1 := Slice.readBits_prepend s (sgn :: rest) [] []
  simp only [List.length_cons, hlen, List.append_nil] at h1
  simp only [Slice.readBigInt, h1, bind, Outcome.bind, pure, hval, Slice.prepend_nil]

/-- **biguint_roundtrip**: unsigned integers of every width round-trip every value below 2^w. -/
theorem biguint_roundtrip (w : Nat) (x : Int) (hx : 0 ≤ x ∧ x < 2 ^ w) (b b' : Builder)
    (he : b.writeBigUint x w = .ok b') :
    ∃ xs, b' = b.app xs [] ∧ ∀ s : Slice, (s.prepend xs []).readBigUint w = .ok (x, s) := by
  simp only [Builder.writeBigUint] at he
  split at he
  · cases he
  · refine ⟨intToBits w x, Builder.writeBits_ok he, ?_⟩
    intro s
    have h1 := Slice.readBits_prepend s (intToBits w x) [] []
    rw [intToBits_length, List.append_nil] at h1
    simp only [Slice.readBigUint, h1, bind, Outcome.bind, pure, bitsToNat_intToBits_nonneg w x hx.1 hx.2,
      Slice.prepend_nil]

set_option maxRecDepth 20000 in
/-- **bigint_orig_defect** (defect #1, decided witness): with `ReadBigUint` as shipped, `tlb.Int128(-1)` — 128 one
bits — reads back as −168811955464684315858783496655603761153. Replayed on the Go code by op `go.bigint`; repaired
by the `fix:` commit "ReadBigUint keeps the leading partial byte". -/
theorem bigint_orig_defect :
    (match ({ bits := List.replicate 128 true } : Slice).readBigIntOrig 128 with
      | .ok (v, _) => decide (v = -168811955464684315858783496655603761153)
      | _ => false) = true := by
  decide

/-- **grams_roundtrip**: `Grams` round-trips ALL uint64 amounts (on the repaired encoder; see `grams_orig_defect`). -/
theorem grams_roundtrip (g : Nat) (hg : g < 2 ^ 64) (b b' : Builder) (he : Prim.encGrams g b = .ok b') :
    ∃ xs, b' = b.app xs [] ∧ ∀ s : Slice, s.isLibrary = false →
      Prim.dec .grams (s.prepend xs []) = .ok (.int g, s) := by
  have hdom : Prim.grams.inDom (.int g) = true := by
    simp only [Prim.inDom, Bool.and_eq_true, decide_eq_true_eq]
    exact ⟨by omega, by exact_mod_cast hg⟩
  simp only [Prim.encGrams] at he
  have hm : ((g : Int) % 2 ^ 64) = g := Int.emod_eq_of_lt (by omega) (by exact_mod_cast hg)
  rw [hm] at he
  obtain ⟨xs, hb, hdec⟩ := grams_chunk g b b' hg he
  refine ⟨xs, hb, ?_⟩
  intro s _
  obtain ⟨L, hL, h1, h2⟩ := hdec s [] []
  simp only [List.append_nil] at h1 h2
  simp only [Prim.dec, Prim.decGrams, h1, bind, Outcome.bind, if_neg (by omega : ¬ L > 8), h2, pure,
    Slice.prepend_nil]

set_option maxRecDepth 20000 in
/-- **grams_orig_defect** (decided witness, found by this check): `Grams.MarshalTLB` as shipped converts through
`int64`, so `Grams(2^64-1)` is written as the amount 1. Replayed by op `go.rt tlb.Grams`; repaired by the `fix:`
commit "Grams.MarshalTLB encodes amounts above MaxInt64 by value". -/
theorem grams_orig_defect :
    (match Prim.encGramsOrig (2 ^ 64 - 1) Builder.empty, Prim.encGrams 1 Builder.empty with
      | .ok b1, .ok b2 => decide (b1.bits = b2.bits) && b1.refs.isEmpty && b2.refs.isEmpty
      | _, _ => false) = true := by
  decide

/-- **signedcoins_roundtrip**, **msgaddress_roundtrip** (four constructors, anycast depth 1..30, extern length
0..511), **snake_roundtrip** (any length, chaining over references) and the other hand-written codecs: the uniform
statement `PrimOK p` for every inline codec (19); wallet.W5Actions, which occupies whole cells, is `w5_refOK`. -/
theorem codec_ok (p : Prim) (hp : p.proved = true) : PrimOK p := primOK_of_proved p hp

theorem signedcoins_roundtrip : PrimOK .signedCoins := primOK_signedCoins
theorem msgaddress_roundtrip : PrimOK .msgAddress := primOK_msgAddress
theorem snake_roundtrip : PrimOK .snake := primOK_snake
theorem wallet_payload_roundtrip : PrimOK .payloadV1toV4 := primOK_payloadV1toV4

/-- **CodecOK_hashmapE**: `tlb.HashmapE[K, V]` over ANY key descriptor with a fixed width (generated UintN / IntN /
BitsN, wide integers, AddressWithWorkchain) and ANY well-formed value descriptor round-trips every in-domain map:
keys listed in ascending order of their encoded bits (the order the decoder returns), values that fit a leaf. The
proof instantiates C05's `decode_encode_sorted` / `encode_sorted_tree` with the value codec of `t`
(`Lemmas/TlbGeneric.enc_dictE`, `Lemmas/TlbDictCore.dict_roundtrip`); it is not greedy: the decoder leaves what
follows the `Maybe ^` untouched. -/
theorem CodecOK_hashmapE (env : Env) (hEnv : EnvWF env) (k t : Ty) (hw : wfb env (.dictE k t) = true)
    (fuel : Nat) (v : Val) (hd : inDom env fuel (.dictE k t) v = true) (b b' : Builder)
    (he : encode env fuel (.dictE k t) v b = .ok b') :
    ∃ xs rs, b' = b.app xs rs ∧
      ∀ s : Slice, s.isLibrary = false → decode env fuel (.dictE k t) (s.prepend xs rs) = .ok (v, s) := by
  obtain ⟨xs, rs, hb, _, hng⟩ := decode_encode_inline env hEnv (.dictE k t) hw fuel v hd b b' he
  exact ⟨xs, rs, hb, hng ⟨1, rfl⟩⟩

/-- **CodecOK_hashmapE_anyorder** — the listing order of the entries does not matter to the encoder, and the decoder
returns them sorted: for a `HashmapE[K, V]` value whose keys are pairwise distinct but listed in ANY order
(`inDomDictU`: a map filled by `Put` with a signed key type lists them in numeric order, a map built from slices in
any order), `decode (encode v) = sortDictVal v` — the same entries in ascending order of the encoded key bits (C05's
`sortKV`; `Hashmap.marshal` sorts first). `inDom` (hence `decode_encode`) covers only the values that are already
listed in that order, for which `sortDictVal v = v`. -/
theorem CodecOK_hashmapE_anyorder (env : Env) (hEnv : EnvWF env) (k t : Ty) (hw : wfb env (.dictE k t) = true)
    (fuel : Nat) (v : Val) (hd : inDomDictU env fuel k t v = true) (b b' : Builder)
    (he : encode env (fuel + 1) (.dictE k t) v b = .ok b') :
    ∃ v', sortDictVal (fun x => encode env fuel k x Builder.empty) v = some v' ∧
      ∃ xs rs, b' = b.app xs rs ∧
        ∀ s : Slice, s.isLibrary = false → decode env (fuel + 1) (.dictE k t) (s.prepend xs rs) = .ok (v', s) := by
  obtain ⟨v', hs, hdom, henc⟩ := dictE_anyorder (env := env) (f := fuel) k t v hd
  rw [← henc b] at he
  exact ⟨v', hs, CodecOK_hashmapE env hEnv k t hw (fuel + 1) v' hdom b b' he⟩

/-- the any-order domain is inhabited and the sorted value differs (TEST on literals): int8 keys 1, -1 listed in
numeric order -1, 1 — the bit order is 1 (0x01), -1 (0xff) -/
example :
    let v := Val.list [Val.list [.int (-1), .int 1], Val.list [.int 10, .int 20]]
    inDomDictU (fun _ => none) 3 (.int 8) (.uint 8) v = true ∧
    inDom (fun _ => none) 4 (.dictE (.int 8) (.uint 8)) v = false ∧
    sortDictVal (fun x => encode (fun _ => none) 3 (.int 8) x Builder.empty) v
      = some (Val.list [Val.list [.int 1, .int (-1)], Val.list [.int 20, .int 10]]) := by
  intro v
  exact ⟨by decide, by decide, by rfl⟩

/-- **CodecOK_hashmap**: `tlb.Hashmap[K, V]` (the root edge written into the current cell, never empty) as the
content of a cell: the round trip of C05 again, the decoder ignoring the type of the cell it reads from as long as
it is neither pruned nor a library cell (`Hashmap.unmarshal_root_irrel`). -/
theorem CodecOK_hashmap (env : Env) (hEnv : EnvWF env) (k t : Ty) (hw : wfb env (.dict k t) = true)
    (fuel : Nat) (v : Val) (hd : inDom env fuel (.dict k t) v = true) (b' : Builder)
    (he : encode env fuel (.dict k t) v Builder.empty = .ok b') :
    ∃ rest, decode env fuel (.dict k t) (Slice.ofCell b'.toCell) = .ok (v, rest) :=
  decode_encode env hEnv (.dict k t) (by simpa [wfTop, wfRefOf] using hw) fuel v hd b' he

/-- **CodecOK_payloadHighload**: `wallet.PayloadHighload` (0..254 messages) is HashmapE 16 over the cells
`mode:uint8 message:^…` with the keys 0..n-1; its round trip is `CodecOK_hashmapE` composed with the conversion of
the message list (`hlItems_values`). The domain asks the converted dictionary to be in the domain of the
dictionary type (keys ascending: they are 0..n-1). -/
theorem CodecOK_payloadHighload (env : Env) (hEnv : EnvWF env) (fuel : Nat) (v : Val)
    (hd : inDom env fuel .highload v = true) (b b' : Builder) (he : encode env fuel .highload v b = .ok b') :
    ∃ xs rs, b' = b.app xs rs ∧
      ∀ s : Slice, s.isLibrary = false → decode env fuel .highload (s.prepend xs rs) = .ok (v, s) := by
  obtain ⟨xs, rs, hb, _, hng⟩ := decode_encode_inline env hEnv .highload rfl fuel v hd b b' he
  exact ⟨xs, rs, hb, hng ⟨1, rfl⟩⟩

set_option maxRecDepth 100000 in
/-- the domain of `CodecOK_payloadHighload` is inhabited by real payloads (TEST on a literal): three messages -/
example :
    let m (k : Nat) : Val := Val.list [Val.some (.cell (.mk 0 0 (natToBits 9 k) [])), .int (k : Int)]
    inDom (fun _ => none) 8 .highload (Val.list [m 3, m 130, m 255]) = true := by
  decide

/-- **CodecOK_w5ExtendedActions** — the third mode next to greedy / non-greedy: `wallet.W5ExtendedActions` (`chain e`)
writes an element and, unless it was the last, one reference to the cell with the remaining elements; the decoder reads
an element and FOLLOWS THE NEXT REFERENCE WHENEVER THERE IS ONE. For a well-formed non-greedy element type and every
in-domain list: whatever has been written before, decoding the appended chunk returns the list and leaves exactly what
follows — provided NO REFERENCE follows (bits may: the signature of wallet v5). -/
theorem CodecOK_w5ExtendedActions (env : Env) (hEnv : EnvWF env) (e : Ty) (hw : wfb env e = true)
    (hng : greedyb env greedyFuel e = false) (fuel : Nat) (v : Val) (hd : inDom env fuel (.chain e) v = true)
    (b b' : Builder) (he : encode env fuel (.chain e) v b = .ok b') :
    ∃ xs rs, b' = b.app xs rs ∧
      ∀ s : Slice, s.isLibrary = false → s.refs = [] → decode env fuel (.chain e) (s.prepend xs rs) = .ok (v, s) :=
  chain_rt hEnv e hw ⟨greedyFuel, hng⟩ fuel v b b' hd he

/-- **roundtrip_wallet_MessageV5** (wallet v5r1 signed / extension bodies): the struct with the reference chain
followed by bits-only fields (the signature), as payload of the top-level sum — `chainTopb` decides the shape on the
REGENERATED descriptor (`wfc_wallet_MessageV5`); the theorem is `Lemmas/TlbChain.chainTop_roundtrip`. -/
theorem roundtrip_wallet_MessageV5 (fuel : Nat) (v : Val)
    (hd : inDom TongoGen.TlbTypes.env fuel TongoGen.TlbTypes.desc_wallet_MessageV5 v = true) (b' : Builder)
    (he : encode TongoGen.TlbTypes.env fuel TongoGen.TlbTypes.desc_wallet_MessageV5 v Builder.empty = .ok b') :
    ∃ rest, decode TongoGen.TlbTypes.env fuel TongoGen.TlbTypes.desc_wallet_MessageV5 (Slice.ofCell b'.toCell)
      = .ok (v, rest) :=
  chainTop_roundtrip generated_env_wf _ TongoGen.TlbTypes.wfc_wallet_MessageV5 fuel v hd b' he

theorem roundtrip_wallet_W5ExtendedActions (fuel : Nat) (v : Val)
    (hd : inDom TongoGen.TlbTypes.env fuel TongoGen.TlbTypes.desc_wallet_W5ExtendedActions v = true) (b' : Builder)
    (he : encode TongoGen.TlbTypes.env fuel TongoGen.TlbTypes.desc_wallet_W5ExtendedActions v Builder.empty = .ok b') :
    ∃ rest, decode TongoGen.TlbTypes.env fuel TongoGen.TlbTypes.desc_wallet_W5ExtendedActions
      (Slice.ofCell b'.toCell) = .ok (v, rest) :=
  chain_roundtrip generated_env_wf _ TongoGen.TlbTypes.wfc_wallet_W5ExtendedActions fuel v hd b' he

set_option maxRecDepth 100000 in
/-- the domain is inhabited (TEST on a literal): a signed external v5r1 body with two extended actions -/
example :
    let act (a : Bool) : Val := Val.ctor "SetSignatureAllowed" (Val.some (Val.list [.bool a]))
    let v := Val.ctor "SignedExternal" (Val.some (Val.list [.int 1, .int 2, .int 3, .none,
      Val.some (Val.list [act true, act false]), .bytes (List.replicate 64 7)]))
    inDom TongoGen.TlbTypes.env 24 TongoGen.TlbTypes.desc_wallet_MessageV5 v = true ∧
    (encode TongoGen.TlbTypes.env 24 TongoGen.TlbTypes.desc_wallet_MessageV5 v Builder.empty).isOk = true := by
  decide

/-! ## ABI message bodies: opcode dispatch (abi.InMsgBody / ExtInMessageDecoder / abi.ExtOutMsgBody; the payload unions
abi.JettonPayload / abi.NFTPayload). Model: `TongoModel/Tlb/OpBody.lean`; the tables are regenerated from the Go source
(translator AbiOpcodes → `TongoGen/AbiOpcodes.lean`). -/

/-- **CodecOK_inMsgBody** — for ANY dispatch table and every opcode that has exactly one registered layout, a
well-formed one (`opEntryOk`, decidable): `InMsgBody.MarshalTLB` of (op name, opcode, in-domain value) into a new cell
either fails or yields a cell from which `InMsgBody.UnmarshalTLB` (`extOut = false`; `true`: ExtOutMsgBody) selects the
SAME layout — the same op name, the same opcode — and returns the same value. -/
theorem CodecOK_inMsgBody (env : Env) (hEnv : EnvWF env) (cs : Ctors) (op : Nat) (hok : opEntryOk env cs op = true)
    (n : String) (t : Ty) (hby : cs.byOp op = [(n, t)]) (fuel : Nat) (x : Val) (hd : inDom env fuel t x = true)
    (extOut : Bool) (b' : Builder)
    (he : encodeOpBody env fuel cs (opVal (strBytes n) (some op) x) Builder.empty = .ok b') :
    ∃ rest, decodeOpBody env fuel extOut cs (Slice.ofCell b'.toCell) = .ok (opVal (strBytes n) (some op) x, rest) :=
  opBody_roundtrip (Inv.all env hEnv primOK_of_proved fuel) cs op hok n t hby x hd extOut b' he

/-- the same for the payload unions (JettonPayload / NFTPayload): the first layout registered for the opcode; a
fixed-length layout must in addition not be greedy (`payloadEntryOk`) -/
theorem CodecOK_payload (env : Env) (hEnv : EnvWF env) (cs : Ctors) (op : Nat) (hok : payloadEntryOk env cs op = true)
    (n : String) (t : Ty) (c : Bool) (hby : cs.firstOp op = some (n, t, c)) (fuel : Nat) (x : Val)
    (hd : inDom env fuel t x = true) (b' : Builder)
    (he : encodePayload env fuel cs (opVal (strBytes n) (some op) x) Builder.empty = .ok b') :
    ∃ rest, decodePayload env fuel cs (Slice.ofCell b'.toCell) = .ok (opVal (strBytes n) (some op) x, rest) :=
  payload_roundtrip (Inv.all env hEnv primOK_of_proved fuel) cs op hok n t c hby x hd b' he

open TongoGen.AbiOpcodes in
/-- **roundtrip_abi_InMsgBody**: `CodecOK_inMsgBody` instantiated over the REGENERATED table of internal message
bodies, for every opcode of `inGood` (one layout, `wf_` discharged: `inGood_ok` is decided on the regenerated table;
a second layout registered under an opcode, or a layout change that breaks well-formedness, fails it) -/
theorem roundtrip_abi_InMsgBody (op : Nat) (hop : op ∈ inGood) (n : String) (t : Ty)
    (hby : inTable.byOp op = [(n, t)]) (fuel : Nat) (x : Val) (hd : inDom TongoGen.TlbTypes.env fuel t x = true)
    (b' : Builder)
    (he : encodeOpBody TongoGen.TlbTypes.env fuel inTable (opVal (strBytes n) (some op) x) Builder.empty = .ok b') :
    ∃ rest, decodeOpBody TongoGen.TlbTypes.env fuel false inTable (Slice.ofCell b'.toCell)
      = .ok (opVal (strBytes n) (some op) x, rest) :=
  CodecOK_inMsgBody _ generated_env_wf inTable op (List.all_eq_true.mp inGood_ok op hop) n t hby fuel x hd false b' he

open TongoGen.AbiOpcodes in
/-- external-in bodies (abi.ExtInMessageDecoder; Go has no encoder of its own: the body is written as an InMsgBody) -/
theorem roundtrip_abi_ExtInMsgBody (op : Nat) (hop : op ∈ extInGood) (n : String) (t : Ty)
    (hby : extInTable.byOp op = [(n, t)]) (fuel : Nat) (x : Val) (hd : inDom TongoGen.TlbTypes.env fuel t x = true)
    (b' : Builder)
    (he : encodeOpBody TongoGen.TlbTypes.env fuel extInTable (opVal (strBytes n) (some op) x) Builder.empty = .ok b') :
    ∃ rest, decodeOpBody TongoGen.TlbTypes.env fuel false extInTable (Slice.ofCell b'.toCell)
      = .ok (opVal (strBytes n) (some op) x, rest) :=
  CodecOK_inMsgBody _ generated_env_wf extInTable op (List.all_eq_true.mp extInGood_ok op hop) n t hby fuel x hd false
    b' he

open TongoGen.AbiOpcodes in
/-- external-out bodies (abi.ExtOutMsgBody.UnmarshalTLB) -/
theorem roundtrip_abi_ExtOutMsgBody (op : Nat) (hop : op ∈ extOutGood) (n : String) (t : Ty)
    (hby : extOutTable.byOp op = [(n, t)]) (fuel : Nat) (x : Val) (hd : inDom TongoGen.TlbTypes.env fuel t x = true)
    (b' : Builder)
    (he : encodeOpBody TongoGen.TlbTypes.env fuel extOutTable (opVal (strBytes n) (some op) x) Builder.empty = .ok b') :
    ∃ rest, decodeOpBody TongoGen.TlbTypes.env fuel true extOutTable (Slice.ofCell b'.toCell)
      = .ok (opVal (strBytes n) (some op) x, rest) :=
  CodecOK_inMsgBody _ generated_env_wf extOutTable op (List.all_eq_true.mp extOutGood_ok op hop) n t hby fuel x hd true
    b' he

open TongoGen.AbiOpcodes in
/-- abi.JettonPayload over the regenerated table -/
theorem roundtrip_abi_JettonPayload (op : Nat) (hop : op ∈ jettonGood) (n : String) (t : Ty) (c : Bool)
    (hby : jettonTable.firstOp op = some (n, t, c)) (fuel : Nat) (x : Val)
    (hd : inDom TongoGen.TlbTypes.env fuel t x = true) (b' : Builder)
    (he : encodePayload TongoGen.TlbTypes.env fuel jettonTable (opVal (strBytes n) (some op) x) Builder.empty = .ok b') :
    ∃ rest, decodePayload TongoGen.TlbTypes.env fuel jettonTable (Slice.ofCell b'.toCell)
      = .ok (opVal (strBytes n) (some op) x, rest) :=
  CodecOK_payload _ generated_env_wf jettonTable op (List.all_eq_true.mp jettonGood_ok op hop) n t c hby fuel x hd b' he

open TongoGen.AbiOpcodes in
/-- abi.NFTPayload over the regenerated table -/
theorem roundtrip_abi_NFTPayload (op : Nat) (hop : op ∈ nftGood) (n : String) (t : Ty) (c : Bool)
    (hby : nftTable.firstOp op = some (n, t, c)) (fuel : Nat) (x : Val)
    (hd : inDom TongoGen.TlbTypes.env fuel t x = true) (b' : Builder)
    (he : encodePayload TongoGen.TlbTypes.env fuel nftTable (opVal (strBytes n) (some op) x) Builder.empty = .ok b') :
    ∃ rest, decodePayload TongoGen.TlbTypes.env fuel nftTable (Slice.ofCell b'.toCell)
      = .ok (opVal (strBytes n) (some op) x, rest) :=
  CodecOK_payload _ generated_env_wf nftTable op (List.all_eq_true.mp nftGood_ok op hop) n t c hby fuel x hd b' he

set_option maxRecDepth 100000 in
/-- what the regenerated lists say (TESTS on literals): the jetton notification opcode is registered once; the jetton
transfer body (it holds a JettonPayload: custom codec, no `wf_`) is outside `inGood`; opcode 0xf06c7567 has two layouts
(both empty structs: the recorded collision) and is outside `inGood`; `Excess` is inside -/
example :
    (TongoGen.AbiOpcodes.inTable.byOp 0x7362d09c).length = 1 ∧ 0x0f8a7ea5 ∉ TongoGen.AbiOpcodes.inGood ∧
    (TongoGen.AbiOpcodes.inTable.byOp 0xf06c7567).map (·.1) = ["PaymentRequestResponse", "SubscriptionV2PaymentConfirmed"] ∧
    0xf06c7567 ∉ TongoGen.AbiOpcodes.inGood ∧ 0xd53276db ∈ TongoGen.AbiOpcodes.inGood := by
  decide +kernel

/-! ## The encoder never panics (values outside `inDom` included) -/

/-- **marshal_no_panic_by_construction** (formerly `marshal_no_panic`) — TRUE BY CONSTRUCTION of the model: after the
three `fix:` commits that turned the nil dereferences of the Go encoder into errors, no definition on the encoder
path of the model (`Tlb/Enc.lean`, `Tlb/Prims.lean`, `Tlb/Basic.lean`, C05's `Hashmap.marshal`) contains a `.panic`
constructor, so this theorem only records that fact (it keeps failing to elaborate if a panic point is ever modelled
again without a guard). It is NOT evidence that the Go encoder cannot panic: that rests on the three repairs, on the
correspondence lines (the Go side runs under `recover`; a panic is the answer `panic`, which the model never gives)
and on the Go-side oracle `go.rt` over all registered types, nil pointers in non-optional positions included. -/
theorem marshal_no_panic_by_construction (env : Env) (fuel : Nat) (T : Ty) (v : Val) (b : Builder) (p : String) :
    encode env fuel T v b ≠ .panic p :=
  ((NPInv.all env fuel).enc T v b).ne p

/-- the case the audit named (TEST on literals): a struct with a NIL pointer to a marshaler type in a plain field, a
MsgAddress with SumType AddrExtern and no payload: errors -/
example :
    (encode (fun _ => none) 6 (.struct (.cons "A" .plain (.uint 32) (.cons "P" .plain (.ptr true (.prim .msgAddress)) .nil)))
      (Val.list [.int 1, .none]) Builder.empty).isErr = true ∧
    (encode (fun _ => none) 6 (.prim .msgAddress) (Val.ctor "AddrExtern" .none) Builder.empty).isErr = true := by
  decide

/-! ## The layering: the ideal level of this model refines C06's specification of `boc.BitString`

`Builder` / `Slice` are bit lists. C06 proves that the byte-level model of `boc.BitString` (shift loops, byte buffer,
cursors) refines `Op.spec` on an ideal bit list. The theorems below close the gap: every bit-level writer / reader the
TL-B model uses IS the corresponding `Op.spec` (`WriteRefines` / `ReadRefines`: same success or failure with the same
error text, same bits, same value, same remaining bits), and composed with `C06.op_refines` the writer / reader acts
on the byte-level model exactly as on the list (`builder_on_bitstring`, `slice_on_bitstring`). -/

/-- **builder_refines_bitstring**: all writers, over the whole domain of `C06.Op.WF` (uint64 / int64 values, widths
0..64 for WriteInt incl. the error cases of the repaired code, every width for the big-integer writers) -/
theorem builder_refines_bitstring :
    (∀ xs, WriteRefines (fun b => b.writeBits xs) (.writeBitArray xs)) ∧
    (∀ x, WriteRefines (fun b => b.writeBit x) (.writeBit x)) ∧
    (∀ v n, v < 2 ^ 64 → WriteRefines (fun b => b.writeUint v n) (.writeUint v n)) ∧
    (∀ v n, n ≤ 64 → WriteRefines (fun b => b.writeInt v n) (.writeInt v n)) ∧
    (∀ bs, WriteRefines (fun b => b.writeBytes bs) (.writeBytes bs)) ∧
    (∀ v n, 0 ≤ v → WriteRefines (fun b => b.writeBigUint v n) (.writeBigUint v n)) ∧
    (∀ v n, 1 ≤ n → -(2 : Int) ^ (n - 1) ≤ v → v < (2 : Int) ^ (n - 1) →
      WriteRefines (fun b => b.writeBigInt v n) (.writeBigInt v n)) ∧
    (∀ v n, v < 2 ^ 64 → WriteRefines (fun b => b.writeLimUint v n) (.writeLimUint v n)) ∧
    (∀ n, WriteRefines (fun b => b.writeUnary n) (.writeUnary n)) :=
  ⟨writeBits_refines, writeBit_refines, writeUint_refines, writeInt_refines, writeBytes_refines,
   writeBigUint_refines, writeBigInt_refines, writeLimUint_refines, writeUnary_refines⟩

/-- **slice_refines_bitstring**: all readers, every width (the width errors included) -/
theorem slice_refines_bitstring :
    (∀ n, ReadRefines (fun s => s.readBits n) (.readBits n) Out.bits) ∧
    ReadRefines (fun s => s.readBit) .readBit Out.bool ∧
    (∀ n, ReadRefines (fun s => s.readUint n) (.readUint n) Out.nat) ∧
    (∀ n, ReadRefines (fun s => s.readInt n) (.readInt n) Out.int) ∧
    (∀ n, ReadRefines (fun s => s.readBytes n) (.readBytes n) Out.bytes) ∧
    (∀ n, ReadRefines (fun s => s.readBigUint n) (.readBigUint n) (fun v => Out.nat v.toNat)) ∧
    (∀ n, ReadRefines (fun s => s.readBigInt n) (.readBigInt n) Out.int) ∧
    (∀ n, n < 2 ^ 64 → ReadRefines (fun s => s.readLimUint n) (.readLimUint n) Out.nat) ∧
    ReadRefines (fun s => s.readUnary) .readUnary Out.nat :=
  ⟨readBits_refines, readBit_refines, readUint_refines, readInt_refines, readBytes_refines, readBigUint_refines,
   readBigInt_refines, readLimUint_refines, readUnary_refines⟩

/-- the stale cases the audit named: `writeInt 5 1` and `writeInt _ 0` are errors, as in the repaired Go (TESTS) -/
example : (Builder.empty.writeInt 5 1).isOk = false ∧ (Builder.empty.writeInt 5 0).isOk = false ∧
    (Builder.empty.writeInt (-1) 1).isOk = true ∧ (Builder.empty.writeInt 0 1).isOk = true := by decide

/-- the key descriptors a dictionary admits: exactly those with a fixed width -/
theorem hashmap_key_widths :
    keyWidth (.uint 32) = some 32 ∧ keyWidth (.int 32) = some 32 ∧ keyWidth (.bytes 32) = some 256 ∧
    keyWidth (.prim (.bigUint 256)) = some 256 ∧ keyWidth (.prim (.bigInt 257)) = some 257 ∧
    keyWidth (.prim .addrWc) = some 288 := by decide

theorem addrWc_roundtrip : PrimOK .addrWc := primOK_addrWc

/-- **vmstack_convention**: `decode (encode s) = ok s.reverse` — a VM stack given top-first (the way arguments are
listed for `RunSmcMethod`) reads back bottom-first (the way results are returned), for every element type that is
well formed and every stack of in-domain values with fewer than 2^24 entries. -/
theorem vmstack_convention (env : Env) (hEnv : EnvWF env) (e : Ty) (hw : wfb env e = true) (fuel : Nat) (v : Val)
    (hd : inDomStack env fuel e v = true) (hlen : Prim.valLen v < 2 ^ 24) (b' : Builder)
    (he : encode env (fuel + 1) (.vmStack e) v Builder.empty = .ok b') :
    ∃ rest, decode env (fuel + 1) (.vmStack e) (Slice.ofCell b'.toCell) =
      .ok (Val.list (Val.toList v).reverse, rest) :=
  vmstack_roundtrip hEnv e hw fuel v hd hlen b' he

/-- `VmStack.Put(val)`: the value becomes the new TOP of the stack (`*s = append(VmStack{val}, *s...)`) -/
def stackPut (s v : Val) : Val := .cons v s

/-- the stack built by pushing `args` in order with `Put`, starting from the empty stack -/
def stackOfPuts (args : List Val) : Val := args.foldl stackPut .nil

theorem toList_foldl_put (args : List Val) : ∀ (acc : Val),
    Val.toList (args.foldl stackPut acc) = args.reverse ++ Val.toList acc := by
  induction args with
  | nil => intro acc; simp
  | cons a rest ih =>
    intro acc
    simp only [List.foldl_cons, ih, stackPut, Val.toList, List.reverse_cons, List.append_assoc, List.singleton_append]

/-- **vmstack_put_convention** — the argument side of the API: pushing `a₁ … aₙ` with `Put` (31 call sites of the
generated get-method wrappers) makes `aₙ` the top of the stack, `[aₙ, …, a₁]`; marshalled and unmarshalled it reads back
as `[a₁, …, aₙ]` — the results of a method come bottom-first, i.e. in the order in which they were pushed. (Composition
of `Put` = prepend with `vmstack_convention`; the Go `Put` is compared with `stackPut` on every run: op `tlb.stackput`;
`VmStack.Unmarshal(dest)` filling field i from entry i, the tuple helpers and the cell / slice helpers have Go-side
oracles: `go.vmstack.dest`, `go.vmtuple`, `go.vmcell.rt`.) -/
theorem vmstack_put_convention (env : Env) (hEnv : EnvWF env) (e : Ty) (hw : wfb env e = true) (fuel : Nat)
    (args : List Val) (hd : inDomStack env fuel e (stackOfPuts args) = true)
    (hlen : Prim.valLen (stackOfPuts args) < 2 ^ 24) (b' : Builder)
    (he : encode env (fuel + 1) (.vmStack e) (stackOfPuts args) Builder.empty = .ok b') :
    Val.toList (stackOfPuts args) = args.reverse ∧
    ∃ rest, decode env (fuel + 1) (.vmStack e) (Slice.ofCell b'.toCell) = .ok (Val.list args, rest) := by
  have ht : Val.toList (stackOfPuts args) = args.reverse := by
    simpa [stackOfPuts, Val.toList] using toList_foldl_put args .nil
  obtain ⟨rest, hr⟩ := vmstack_convention env hEnv e hw fuel _ hd hlen b' he
  rw [ht, List.reverse_reverse] at hr
  exact ⟨ht, rest, hr⟩

/-! ## Integer families (translator X2) -/

/-- every generated `UintN` / `IntN` / `VarUIntegerN` / `BitsN` writes, reads, reports and parses the width in its
name — which is the width X1 puts into the descriptor -/
theorem generated_integer_widths_agree : TongoGen.IntTypes.intTypes.all IntTypeFacts.ok = true :=
  TongoGen.IntTypes.intTypes_ok

/-! ## Non-vacuity: the hypotheses are satisfiable by non-trivial values -/

set_option maxRecDepth 20000 in
/-- a value of a regenerated sum type is in the domain and encodes (TEST on a literal, not a proof of the
property): `tlb.AccountState` constructor `AccountFrozen` -/
example :
    let T := TongoGen.TlbTypes.desc_tlb_AccountState
    let v := Val.ctor "AccountFrozen" (Val.list [.bytes (List.replicate 32 7)])
    inDom TongoGen.TlbTypes.env 8 T v = true ∧
    (encode TongoGen.TlbTypes.env 8 T v Builder.empty).isOk = true := by
  decide

end Tongo.Tlb.C03
