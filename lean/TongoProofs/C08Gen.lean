import TongoGen.TlbTypes
import TongoProofs.Lemmas.TlbDecTotal
/-! Property C08, instantiated on the REGENERATED type environment (translator X1, `TongoGen/TlbTypes.lean`): the
productivity obligation is re-decided on every run; if a shipped type becomes self-recursive without consuming input
this module stops building. -/
namespace Tongo.C08
open Tongo Tongo.Tlb Tongo.Tlb.Total TongoGen.TlbTypes

/-- ranks of the regenerated environment (four rounds of `stepRanks` from all-zero) -/
def genRanks : List Nat := computeRanks envList 4

set_option maxRecDepth 100000 in
/-- OBLIGATION (re-decided on every run): the regenerated environment is productive -/
theorem generated_env_productive : prodb envList genRanks = true := by decide +kernel

/-- The reflection-driven decoder is total on every regenerated descriptor — in fact on every descriptor over the
regenerated environment — and every cell tree: no panic, no unbounded recursion, fuel linear in the input. -/
theorem tlb_decode_total_generated (T : Ty) (s : Slice) (fuel : Nat)
    (hf : need (constsOf envList genRanks) (rkOf genRanks) T s ≤ fuel) :
    (decode env fuel T s).isPanic = false ∧ fuelOut (decode env fuel T s) = false ∧
    ∀ v s', decode env fuel T s = .ok (v, s') → weight s' ≤ weight s :=
  decode_total_of_prod envList genRanks generated_env_productive T s fuel hf

set_option maxRecDepth 100000 in
/-- the constants of the bound for the shipped types: the deepest body, the number of ranks -/
theorem generated_consts : (constsOf envList genRanks).D ≤ 40 ∧ (constsOf envList genRanks).R ≤ 8 := by decide +kernel

/-- non-vacuity: tlb.Message on an empty cell needs a concrete, small amount of fuel and then fails with a genuine error -/
example : fuelOut (decode env 2000 desc_tlb_Message (Slice.ofCell (.mk 0 0 [] []))) = false := by decide +kernel

end Tongo.C08
