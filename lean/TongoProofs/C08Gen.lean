import TongoGen.TlbTypes
import TongoGen.TldTypes
import TongoProofs.C08
import TongoProofs.Lemmas.TlbDecTotal
/-! Property C08, instantiated on the REGENERATED type environment (translator X1, `TongoGen/TlbTypes.lean`): the
productivity obligation is re-decided on every run; if a shipped type becomes self-recursive without consuming input
this module stops building. -/
namespace Tongo.C08
open Tongo Tongo.Tlb Tongo.Tlb.Total TongoGen.TlbTypes

/-- ranks of the regenerated environment (four rounds of `stepRanks` from all-zero) -/
def genRanks : List Nat := computeRanks envList 4

set_option maxRecDepth 100000 in
/-- OBLIGATION (re-decided on every run): the regenerated environment is productive -/
theorem generated_env_productive : prodb envList genRanks = true := by decide +kernel

/-- The reflection-driven decoder is total on every regenerated descriptor — in fact on every descriptor over the
regenerated environment — and every cell tree: no panic, no unbounded recursion, fuel linear in the input. -/
theorem tlb_decode_total_generated (T : Ty) (s : Slice) (fuel : Nat)
    (hf : need (constsOf envList genRanks) (rkOf genRanks) T s ≤ fuel) :
    (decode env fuel T s).isPanic = false ∧ fuelOut (decode env fuel T s) = false ∧
    ∀ v s', decode env fuel T s = .ok (v, s') → weight s' ≤ weight s :=
  decode_total_of_prod envList genRanks generated_env_productive T s fuel hf

set_option maxRecDepth 100000 in
/-- the constants of the bound for the shipped types: the deepest body, the number of ranks -/
theorem generated_consts : (constsOf envList genRanks).D ≤ 40 ∧ (constsOf envList genRanks).R ≤ 8 := by decide +kernel

/-- non-vacuity: tlb.Message on an empty cell needs a concrete, small amount of fuel and then fails with a genuine error -/
example : fuelOut (decode env 2000 desc_tlb_Message (Slice.ofCell (.mk 0 0 [] []))) = false := by decide +kernel

/-! ### TL: the bounds instantiated on every regenerated liteclient descriptor (translator TldTypes) -/

/-- every descriptor the decoder can be asked for: the table of types and the request dispatch table -/
def liteapiTys : List TlD.Ty := TongoGen.TldTypes.all.map (·.2) ++ TongoGen.TldTypes.requests.map (·.2)

/-- the uniform constants of the shipped TL descriptors: the worst `allocA`, `allocB`, `stepK`, `stepS` over the
regenerated table (recomputed on every run; their present values are `liteapi_consts_values`) -/
def liteapiA : Nat := liteapiTys.foldl (fun m t => max m t.allocA) 0
def liteapiB : Nat := liteapiTys.foldl (fun m t => max m t.allocB) 0
def liteapiK : Nat := liteapiTys.foldl (fun m t => max m t.stepK) 0
def liteapiS : Nat := liteapiTys.foldl (fun m t => max m t.stepS) 0

set_option maxRecDepth 100000 in
/-- OBLIGATION (re-decided on every run): the constants of every shipped descriptor are below the uniform ones -/
theorem liteapi_consts : liteapiTys.all (fun t =>
    t.wf && decide (t.allocA ≤ liteapiA) && decide (t.allocB ≤ liteapiB) &&
    decide (t.stepK ≤ liteapiK) && decide (t.stepS ≤ liteapiS)) = true := by decide +kernel

set_option maxRecDepth 100000 in
/-- the present values of the constants and non-vacuity of the table (this one is about the CURRENT schema: it changes
when liteclient/generated.go gains a larger type) -/
theorem liteapi_consts_values : liteapiA = 1186 ∧ liteapiB = 160336 ∧ liteapiK = 115 ∧ liteapiS = 123 ∧
    TongoGen.TldTypes.all.length = 73 ∧ TongoGen.TldTypes.requests.length = 29 := by decide +kernel

/-- `tl_decode_total`, `tl_decode_alloc` and `tl_decode_steps` INSTANTIATED: for every liteclient type with a generated
`UnmarshalTL` (descriptor regenerated from liteclient/generated.go on every run) and every byte string, the repaired
decoder does not panic, allocates at most `liteapiA·|bs| + liteapiB` bytes (now `1186·|bs| + 160336`) and takes at most
`liteapiK·|bs| + liteapiS` steps (now `115·|bs| + 123`). The
well-formedness hypothesis of the general theorems is discharged here by `decide` on the regenerated table (and once
more per descriptor in `TongoGen.TldTypes.wf_<Name>`). -/
theorem liteapi_decode_bounded (ty : TlD.Ty) (hm : ty ∈ liteapiTys) (bs : List UInt8) :
    (TlD.run TlD.Cfg.fixed ty bs).1.isPanic = false ∧
    (TlD.run TlD.Cfg.fixed ty bs).2.alloc ≤ liteapiA * bs.length + liteapiB ∧
    (TlD.run TlD.Cfg.fixed ty bs).2.steps ≤ liteapiK * bs.length + liteapiS := by
  have h := List.all_eq_true.mp liteapi_consts ty hm
  simp only [Bool.and_eq_true, decide_eq_true_eq] at h
  obtain ⟨⟨⟨⟨hwf, hA⟩, hB⟩, hK⟩, hS⟩ := h
  refine ⟨tl_decode_total ty bs, ?_, ?_⟩
  · have := tl_decode_alloc ty hwf bs
    have := Nat.mul_le_mul_right bs.length hA
    omega
  · have := tl_decode_steps ty hwf bs
    have := Nat.mul_le_mul_right bs.length hK
    omega

/-- by name: every liteclient type with a generated `UnmarshalTL` -/
theorem liteapi_type_decode_bounded (name : String) (ty : TlD.Ty) (hm : (name, ty) ∈ TongoGen.TldTypes.all)
    (bs : List UInt8) :
    (TlD.run TlD.Cfg.fixed ty bs).1.isPanic = false ∧
    (TlD.run TlD.Cfg.fixed ty bs).2.alloc ≤ liteapiA * bs.length + liteapiB ∧
    (TlD.run TlD.Cfg.fixed ty bs).2.steps ≤ liteapiK * bs.length + liteapiS :=
  liteapi_decode_bounded ty (List.mem_append_left _ (List.mem_map.mpr ⟨_, hm, rfl⟩)) bs

/-- the server side: whatever request tag `liteapiRequestDecoder` dispatches on -/
theorem liteapi_request_decode_bounded (tag : Nat) (ty : TlD.Ty) (hm : (tag, ty) ∈ TongoGen.TldTypes.requests)
    (bs : List UInt8) :
    (TlD.run TlD.Cfg.fixed ty bs).1.isPanic = false ∧
    (TlD.run TlD.Cfg.fixed ty bs).2.alloc ≤ liteapiA * bs.length + liteapiB ∧
    (TlD.run TlD.Cfg.fixed ty bs).2.steps ≤ liteapiK * bs.length + liteapiS :=
  liteapi_decode_bounded ty (List.mem_append_right _ (List.mem_map.mpr ⟨_, hm, rfl⟩)) bs

end Tongo.C08
