import TongoProofs.Lemmas.TlRoundtrip
import TongoProofs.Lemmas.TlBindings
/-! Property C09 — schema compilers emit Go code that implements the schema.

The theorems below are about the *schema-level semantics* `Tl.encode` / `Tl.decode` (lean/TongoModel/Tl/Codec.lean,
written for this verification: the SPECIFICATION) for EVERY schema of the subset. They show that the specification is
sane (decoder inverts encoder with arbitrary trailing bytes, encodings are self-delimiting, `encode` is defined exactly on
the typed values) and spell its layout out. NONE of them mentions `tl/parser/generator.go` or its output: for arbitrary
schemas the generator is related to this semantics only by translation validation over sampled schemas (harness
`c09.go`: generate, compile, run, compare with the driver). For the ONE schema shipped with the repository the
generator's output (liteclient/generated.go, equal to the regenerated text by the oracle `go.regen.liteclient`) IS the
subject of a theorem: `C10.liteapi_steps_eq_schema` over the bindings extracted by translator X7. -/
namespace Tongo.C09
open Tongo Tongo.Tl

/-- **Round trip, every well-formed schema.** A value that has type `t` (its encoding exists) is read back from its
encoding followed by arbitrary bytes, and exactly those bytes are left. `fuel` only has to cover the nesting depth. -/
theorem tl_decode_encode (S : Schema) (hwf : WFSchema S) (t : Ty) (v : Val) (bs rest : Bytes) (fuel : Nat)
    (henc : encode S t v = some bs) (hfuel : v.depth ≤ fuel) :
    decode S fuel t (bs ++ rest) = .ok (v, rest) :=
  (roundtrip_all S hwf).1 t v bs rest fuel henc hfuel

/-- the encoder is defined exactly on the well-typed values: `hasType` (ranges, lengths, declared constructors,
conditional fields present iff their flag bit is set) is the typing judgement `v : t`, stated without any byte layout -/
theorem tl_encode_defined_iff_typed (S : Schema) (t : Ty) (v : Val) : (encode S t v).isSome = hasType S t v :=
  (encode_isSome_iff_hasType S).1 t v

/-- **Round trip in the form `WFSchema S → v : t → decode (encode v ++ rest) = ok (v, rest)`.** -/
theorem tl_decode_encode_typed (S : Schema) (hwf : WFSchema S) (t : Ty) (v : Val) (hty : hasType S t v = true) :
    ∃ bs, encode S t v = some bs ∧
      ∀ rest fuel, v.depth ≤ fuel → decode S fuel t (bs ++ rest) = .ok (v, rest) := by
  have h := tl_encode_defined_iff_typed S t v
  rw [hty] at h
  obtain ⟨bs, hbs⟩ := Option.isSome_iff_exists.mp h
  exact ⟨bs, hbs, fun rest fuel hf => tl_decode_encode S hwf t v bs rest fuel hbs hf⟩

/-- round trip of the fields of one constructor under the flags seen so far -/
theorem tl_fields_decode_encode (S : Schema) (hwf : WFSchema S) (fields : List Field) (env : Env) (vs : List Val)
    (bs rest : Bytes) (fuel : Nat) (henc : encodeFields S fields env vs = some bs) (hfuel : depthList vs ≤ fuel) :
    decodeFields S fuel fields env (bs ++ rest) = .ok (vs, rest) :=
  (roundtrip_all S hwf).2.2 fields env vs bs rest fuel henc hfuel

/-- round trip of vector items -/
theorem tl_items_decode_encode (S : Schema) (hwf : WFSchema S) (t : Ty) (vs : List Val)
    (bs rest : Bytes) (fuel : Nat) (henc : encodeItems S t vs = some bs) (hfuel : depthList vs ≤ fuel) :
    decodeItems S fuel t vs.length (bs ++ rest) = .ok (vs, rest) :=
  (roundtrip_all S hwf).2.1 t vs bs rest fuel henc hfuel

/-- **Requests.** The bytes of a call `f(ps)` are recognised by the function id and decode to `f` and `ps`
(function ids pairwise distinct is part of `WFSchema`). -/
theorem tl_request_decode_encode (S : Schema) (hwf : WFSchema S) (f : String) (ps : List Val) (bs rest : Bytes)
    (fuel : Nat) (henc : encodeRequest S f ps = some bs) (hfuel : depthList ps ≤ fuel) :
    decodeRequest S fuel (bs ++ rest) = .ok (f, ps, rest) := by
  unfold encodeRequest at henc
  cases hf : S.func? f with
  | none => simp [hf] at henc
  | some d =>
    simp only [hf] at henc
    obtain ⟨b, hb, rfl⟩ := map_append_eq_some henc
    have hid : d.id < 2 ^ 32 := by
      have hm := List.mem_of_find?_eq_some hf
      unfold WFSchema wfSchemaB at hwf
      simp only [Bool.and_eq_true, List.all_eq_true] at hwf
      have := hwf.1.2 d hm
      simp only [declOkB, Bool.and_eq_true, decide_eq_true_eq] at this
      exact this.1
    have hc : d.ctor = f := by
      have := List.find?_some hf
      simpa using this
    simp only [decodeRequest, List.append_assoc, readLE4 d.id _ hid, funcById_of_func S hwf f d hf,
      tl_fields_decode_encode S hwf d.fields [] ps b rest fuel hb hfuel, hc]

/-- **Self-delimiting / prefix-free.** Two encodings at the same type that agree as prefixes of the same byte stream
are encodings of the same value and leave the same rest. -/
theorem tl_prefix_free (S : Schema) (hwf : WFSchema S) (t : Ty) (v₁ v₂ : Val) (b₁ b₂ r₁ r₂ : Bytes)
    (h₁ : encode S t v₁ = some b₁) (h₂ : encode S t v₂ = some b₂) (h : b₁ ++ r₁ = b₂ ++ r₂) :
    v₁ = v₂ ∧ b₁ = b₂ ∧ r₁ = r₂ := by
  have d₁ := tl_decode_encode S hwf t v₁ b₁ r₁ (max v₁.depth v₂.depth) h₁ (Nat.le_max_left ..)
  have d₂ := tl_decode_encode S hwf t v₂ b₂ r₂ (max v₁.depth v₂.depth) h₂ (Nat.le_max_right ..)
  rw [h, d₂] at d₁
  injection d₁ with d₁
  injection d₁ with hv hr
  subst hv hr
  rw [h₁] at h₂
  injection h₂ with h₂
  exact ⟨rfl, h₂, rfl⟩

/-- encodings determine the value -/
theorem tl_encode_injective (S : Schema) (hwf : WFSchema S) (t : Ty) (v₁ v₂ : Val) (bs : Bytes)
    (h₁ : encode S t v₁ = some bs) (h₂ : encode S t v₂ = some bs) : v₁ = v₂ :=
  (tl_prefix_free S hwf t v₁ v₂ bs bs [] [] h₁ h₂ rfl).1

/-! ### Layout clauses

Two kinds of statements. `tl_spec_builtin`, `tl_spec_length_escape`, `tl_spec_composite` and the `encode` conjuncts of
`tl_spec_padding` are RESTATEMENTS of the defining equations of `Tl.encode` in byte terms: they make the specification
reviewable against the TL documentation clause by clause and have no content beyond the definition. `tl_layout_le`,
`tl_layout_optional`, `tl_layout_items`, `tl_layout_vector` and the padding characterisation are proved by induction /
arithmetic. That the Go code produces these bytes is NOT stated here: see `C10.liteapi_steps_eq_schema` (generated
bindings, extracted) and `C10.gen_EncodeLength` (length prefix, extracted). -/

/-- little-endian integers: `w` bytes, byte `i` is digit `i` in base 256 -/
theorem tl_layout_le (w n : Nat) :
    (le w n).length = w ∧ ∀ i, i < w → (le w n)[i]? = some (UInt8.ofNat (n / 256 ^ i % 256)) := by
  refine ⟨le_length w n, ?_⟩
  induction w generalizing n with
  | zero => intro i hi; omega
  | succ w ih =>
    intro i hi
    cases i with
    | zero => simp [le]
    | succ i =>
      simp only [le, List.getElem?_cons_succ, ih (n / 256) i (by omega), Nat.div_div_eq_div_mul, Nat.pow_succ,
        Nat.mul_comm]

/-- (restatement of the definition) `# int` are 4 bytes, `long` 8 bytes, `int256` the 32 bytes themselves, `Bool` the two magic ids, `true` nothing -/
theorem tl_spec_builtin (S : Schema) :
    (∀ n, n < 2 ^ 32 → encode S .nat (.num n) = some (le 4 n) ∧ encode S .int (.num n) = some (le 4 n)) ∧
    (∀ n, n < 2 ^ 64 → encode S .long (.num n) = some (le 8 n)) ∧
    (∀ bs : Bytes, bs.length = 32 → encode S .int256 (.raw bs) = some bs) ∧
    encode S .bool (.bool true) = some [0xb5, 0x75, 0x72, 0x99] ∧
    encode S .bool (.bool false) = some [0x37, 0x97, 0x79, 0xbc] ∧
    encode S .tru .unit = some [] := by
  refine ⟨fun n h => by simp [encode, h], fun n h => by simp [encode, h], fun bs h => by simp [encode, h], ?_, ?_, ?_⟩
  · simp [encode, boolTrueId, le]
  · simp [encode, boolFalseId, le]
  · simp [encode]

/-- (restatement of the definition, the three little-endian bytes spelled out) the length prefix: one byte below 254, the escape byte 254 and three little-endian bytes from 254 on -/
theorem tl_spec_length_escape :
    (∀ n, n < 254 → encLen n = [UInt8.ofNat n]) ∧
    (∀ n, 254 ≤ n → encLen n =
      [254, UInt8.ofNat (n % 256), UInt8.ofNat (n / 256 % 256), UInt8.ofNat (n / 65536 % 256)]) := by
  refine ⟨fun n h => encLen_short n h, fun n h => ?_⟩
  rw [encLen_long n (by omega)]
  simp [le, Nat.div_div_eq_div_mul]

/-- byte strings: prefix, data, then zero bytes; the padding is characterised against the bytes: the field is a multiple of
four bytes long, and ANY number `k < 4` of zero bytes that makes prefix + data + padding a multiple of four IS the
padding (so: the least such number, fewer than four). The last two conjuncts restate the definition of `encode` on
`bytes`/`string` (2²⁴ bytes and more have no encoding). -/
theorem tl_spec_padding (bs : Bytes) :
    (encBytes bs).length % 4 = 0 ∧
    (∃ k, k < 4 ∧ encBytes bs = encLen bs.length ++ bs ++ List.replicate k 0) ∧
    (∀ k, k < 4 → (encLen bs.length ++ bs ++ List.replicate k (0 : UInt8)).length % 4 = 0 →
      encBytes bs = encLen bs.length ++ bs ++ List.replicate k 0) ∧
    (∀ S : Schema, bs.length < 2 ^ 24 → encode S .bytes (.raw bs) = some (encBytes bs) ∧
      encode S .string (.raw bs) = some (encBytes bs)) ∧
    (∀ S : Schema, 2 ^ 24 ≤ bs.length → encode S .bytes (.raw bs) = none) := by
  refine ⟨?_, ⟨padLen ((encLen bs.length).length + bs.length), ?_, rfl⟩, ?_, fun S h => by simp [encode, h],
    fun S h => by simp [encode]; omega⟩
  · simp only [encBytes, padLen, List.length_append, List.length_replicate]
    omega
  · simp only [padLen]; omega
  · intro k hk hlen
    simp only [List.length_append, List.length_replicate] at hlen
    have : k = padLen ((encLen bs.length).length + bs.length) := by simp only [padLen]; omega
    rw [this]; rfl

/-- conditional fields: with the flag field `flag` holding `m`, a field `name:flag.N?T` contributes no bytes and must
be absent when bit `N` of `m` is clear, and is encoded like a plain field of type `T` when it is set — for every bit. -/
theorem tl_layout_optional (S : Schema) (f : Field) (fs : List Field) (env : Env) (vs : List Val)
    (flag : String) (bit m : Nat) (hc : f.cond = some (flag, bit)) (hm : envGet? env flag = some m) :
    (m.testBit bit = false →
      encodeFields S (f :: fs) env (.absent :: vs) = encodeFields S fs env vs ∧
      ∀ v, v ≠ .absent → encodeFields S (f :: fs) env (v :: vs) = none) ∧
    (m.testBit bit = true →
      encodeFields S (f :: fs) env (.absent :: vs) = none ∧
      ∀ v b, encode S f.ty v = some b →
        encodeFields S (f :: fs) env (v :: vs) = (encodeFields S fs (pushEnv env f v) vs).map (b ++ ·)) := by
  have hp : present? env f.cond = some (m.testBit bit) := by simp [present?, hc, hm]
  constructor
  · intro hb
    rw [hb] at hp
    refine ⟨by simp [encodeFields, hp], fun v hv => ?_⟩
    cases v <;> first | (simp [encodeFields, hp]; done) | exact absurd rfl hv
  · intro hb
    rw [hb] at hp
    refine ⟨?_, fun v b hv => by simp [encodeFields, hp, hv]⟩
    have : encode S f.ty .absent = none := by cases f.ty <;> simp [encode]
    simp [encodeFields, hp, this]

/-- the flag tested by later fields is the value of the `#` field of that name -/
theorem tl_layout_flag_value (env : Env) (f : Field) (n : Nat) (ht : f.ty = .nat) (hc : f.cond = none) :
    envGet? (pushEnv env f (.num n)) f.name = some n := by
  simp [pushEnv, ht, hc, envGet?]

/-- (restatement of the definition) bare reference = the fields; boxed reference = constructor id, little-endian, then the fields; vector = 32-bit
count then the items; request = function id then the parameters -/
theorem tl_spec_composite (S : Schema) :
    (∀ c fs d, S.ctor? c = some d → encode S (.bare c) (.tuple fs) = encodeFields S d.fields [] fs) ∧
    (∀ t c fs d, S.ctorOf? t c = some d →
      encode S (.boxed t) (.sum c fs) = (encodeFields S d.fields [] fs).map (le 4 d.id ++ ·)) ∧
    (∀ t items, items.length < 2 ^ 32 →
      encode S (.vector t) (.vec items) = (encodeItems S t items).map (le 4 items.length ++ ·)) ∧
    (∀ f ps d, S.func? f = some d → encodeRequest S f ps = (encodeFields S d.fields [] ps).map (le 4 d.id ++ ·)) := by
  refine ⟨fun c fs d h => by simp [encode, h], fun t c fs d h => by simp [encode, h],
    fun t items h => by simp [encode, h], fun f ps d h => by simp [encodeRequest, h]⟩

/-- the items of a vector are written one after the other, each as a value of the item type -/
theorem tl_layout_items (S : Schema) (t : Ty) : ∀ (items : List Val) (b : Bytes), encodeItems S t items = some b →
    ∃ parts : List Bytes, items.map (encode S t) = parts.map some ∧ b = parts.flatten := by
  intro items
  induction items with
  | nil => intro b h; simp [encodeItems] at h; exact ⟨[], rfl, by simp [h]⟩
  | cons v vs ih =>
    intro b h
    simp only [encodeItems] at h
    cases hv : encode S t v with
    | none => simp [hv] at h
    | some p =>
      simp only [hv] at h
      obtain ⟨b2, hb2, rfl⟩ := map_append_eq_some h
      obtain ⟨parts, hf, rfl⟩ := ih b2 hb2
      exact ⟨p :: parts, by simp [hv, hf], by simp⟩

/-- **tl_layout_vector**: `(vector T)` is the item count on 32 bits little-endian, then exactly that many items — for
every count below 2³² (a longer list has no encoding); and a decoder that is told `count` reads back exactly the
`count` items and leaves the rest (whatever the count: 0, 256, 257, 65536, …). -/
theorem tl_layout_vector (S : Schema) (t : Ty) (items : List Val) :
    (items.length < 2 ^ 32 → ∀ bs, encode S (.vector t) (.vec items) = some bs →
      ∃ parts : List Bytes, items.map (encode S t) = parts.map some ∧ parts.length = items.length ∧
        bs = le 4 items.length ++ parts.flatten) ∧
    (2 ^ 32 ≤ items.length → encode S (.vector t) (.vec items) = none) ∧
    (WFSchema S → ∀ bs rest fuel, encodeItems S t items = some bs → depthList items ≤ fuel →
      decodeItems S fuel t items.length (bs ++ rest) = .ok (items, rest)) := by
  refine ⟨fun hl bs h => ?_, fun hl => ?_, fun hwf bs rest fuel h hf => tl_items_decode_encode S hwf t items bs rest fuel h hf⟩
  · simp only [encode, hl, if_true] at h
    obtain ⟨b, hb, rfl⟩ := map_append_eq_some h
    obtain ⟨parts, hf, rfl⟩ := tl_layout_items S t items b hb
    have hlen : parts.length = items.length := by
      have := congrArg List.length hf
      simpa using this.symm
    exact ⟨parts, hf, hlen, rfl⟩
  · have : ¬ items.length < 2 ^ 32 := by omega
    simp [encode, this]

/-- all layout clauses together -/
theorem tl_layout_facts (S : Schema) :
    (∀ w n, (le w n).length = w ∧ ∀ i, i < w → (le w n)[i]? = some (UInt8.ofNat (n / 256 ^ i % 256))) ∧
    ((∀ n, n < 254 → encLen n = [UInt8.ofNat n]) ∧
     (∀ n, 254 ≤ n → encLen n =
        [254, UInt8.ofNat (n % 256), UInt8.ofNat (n / 256 % 256), UInt8.ofNat (n / 65536 % 256)])) ∧
    (∀ bs : Bytes, encBytes bs = encLen bs.length ++ bs ++
        List.replicate ((4 - ((encLen bs.length).length + bs.length) % 4) % 4) 0 ∧ (encBytes bs).length % 4 = 0) ∧
    (∀ (f : Field) (fs : List Field) (env : Env) (vs : List Val) (flag : String) (bit m : Nat),
        f.cond = some (flag, bit) → envGet? env flag = some m →
        (encodeFields S (f :: fs) env (.absent :: vs) ≠ none → m.testBit bit = false) ∧
        (∀ v, v ≠ .absent → encodeFields S (f :: fs) env (v :: vs) ≠ none → m.testBit bit = true)) := by
  refine ⟨tl_layout_le, tl_spec_length_escape, fun bs => ⟨rfl, (tl_spec_padding bs).1⟩, ?_⟩
  intro f fs env vs flag bit m hc hm
  have h := tl_layout_optional S f fs env vs flag bit m hc hm
  constructor
  · intro hne
    cases hb : m.testBit bit with
    | false => rfl
    | true => exact absurd (h.2 hb).1 hne
  · intro v hv hne
    cases hb : m.testBit bit with
    | true => rfl
    | false => exact absurd ((h.1 hb).2 v hv) hne

/-- **malformed input the decoder of the specification refuses / tolerates** (what the ops `tl.dec`, `tl.fdec`, `tl.ans`,
`tl.reqdec` pin for the Go decoders on inputs with one malformed leaf): (1) a byte string whose first byte is 255 is an
error — the TL rules define the one-byte form (< 254) and the escape 254 only; (2) a `Bool` whose id is neither
`boolTrue` nor `boolFalse` is an error; (3) the CONTENT of the padding bytes is not inspected (any `padLen` bytes are
skipped — the reference implementations do the same, a sender must write zeros: `tl_spec_padding`); (4) the escape form
with a length below 254 (non-canonical, never written by `encode`) is accepted and read as that byte string. -/
theorem tl_decode_malformed (S : Schema) :
    (∀ r : Bytes, readBytes (255 :: r) = .err "prefix") ∧
    (∀ (n : Nat) (r : Bytes) (fuel : Nat), n < 2 ^ 32 → n ≠ boolTrueId → n ≠ boolFalseId →
      decode S (fuel + 1) .bool (le 4 n ++ r) = .err "bool") ∧
    (∀ (data pad rest : Bytes), data.length < 254 → pad.length = padLen (1 + data.length) →
      readBytes (UInt8.ofNat data.length :: data ++ pad ++ rest) = .ok (data, rest)) ∧
    (∀ (data pad rest : Bytes), data.length < 2 ^ 24 → pad.length = padLen (4 + data.length) →
      readBytes (254 :: le 3 data.length ++ data ++ pad ++ rest) = .ok (data, rest)) := by
  refine ⟨fun r => ?_, fun n r fuel hn h1 h2 => ?_, fun data pad rest hs hp => ?_, fun data pad rest hl hp => ?_⟩
  · have h255 : (255 : UInt8).toNat = 255 := rfl
    simp [readBytes, h255]
  · simp only [decode, readLE4 n r hn, h1, h2, if_false]
  · have hb : (UInt8.ofNat data.length).toNat = data.length := by
      simp only [UInt8.toNat_ofNat']; omega
    simp only [List.cons_append, List.append_assoc, readBytes, hb, hs, if_true]
    rw [readN_append data]
    dsimp only
    rw [readN_append' (padLen (1 + data.length)) pad rest hp]
  · have h254 : (254 : UInt8).toNat = 254 := rfl
    have hl' : data.length < 256 ^ 3 := by simpa using hl
    simp only [List.cons_append, List.append_assoc, readBytes, h254, show ¬ (254 < 254) by omega, if_false, if_true]
    rw [readLE_le 3 data.length _ hl']
    simp only []
    rw [readN_append data]
    dsimp only
    rw [readN_append' (padLen (4 + data.length)) pad rest hp]

/-! ### Generator output (as extracted by translator X7, harness/tlbind) implements the schema

`B : Bind.Bindings` is what X7 reads from the TEXT the TL schema compiler emits (struct declarations, the statement
sequences of every `MarshalTL` / `UnmarshalTL`, guards, tag literals, client methods, decoder table);
`Bind.agreeAll S B` is the decidable matcher. The theorems hold for EVERY schema and EVERY such `B`; the matcher is
evaluated (a) by the kernel for the shipped lite_api.tl / generated.go (C10: `Gen.bindings_agree`), (b) by the compiled
Lean driver for every sampled schema of this property (op `tlc.bind`). -/

open Tongo.Tl.Bind in
/-- **steps_eq_schema** (proved once, for every schema `S` and every bindings value `B` the matcher accepts): for a type
`ty` whose references resolve (`tyRefsOk`) and every value `v` the schema encodes to `bs`, the Go value `rep S ty v` that
carries `v` in the generated structs is (1) marshalled by the generated `MarshalTL` step sequences to exactly `bs` and
(2) read back by the generated `UnmarshalTL` step sequences from `bs` followed by anything, leaving exactly the rest —
which is also what the schema decoder returns (3). -/
theorem steps_eq_schema (S : Schema) (B : Bindings) (hwf : WFSchema S) (hA : agreeAll S B = true) (ty : Ty) (v : Val)
    (bs : Bytes) (fuel : Nat) (hty : ty ≠ .tru) (hrefs : tyRefsOk S B ty = true) (henc : encode S ty v = some bs)
    (hfuel : 3 * v.depth ≤ fuel) :
    marshalGo B fuel (goTyOf ty) (rep S ty v) = some bs ∧
    (∀ rest, unmarshalGo B fuel (goTyOf ty) (bs ++ rest) = .ok (rep S ty v, rest)) ∧
    (∀ rest, decode S fuel ty (bs ++ rest) = .ok (v, rest)) :=
  ⟨(marshal_all S B (typesAgree_of_agreeAll hA)).1 ty v bs fuel hty hrefs henc hfuel,
   fun rest => (unmarshal_all S B hwf (typesAgree_of_agreeAll hA)).1 ty v bs rest fuel hty hrefs henc hfuel,
   fun rest => tl_decode_encode S hwf ty v bs rest fuel henc (by omega)⟩

open Tongo.Tl.Bind in
/-- the same at the level of ONE generated struct: the `MarshalTL` body of the struct `<Ctor>C` of a single-constructor
type writes `encodeFields` of that constructor, its `UnmarshalTL` body (started on the zero struct) reads it back -/
theorem method_steps_eq_schema (S : Schema) (B : Bindings) (hwf : WFSchema S) (hA : agreeAll S B = true) (d : Decl)
    (hd : d ∈ S.types) (h1 : (S.ctorsOf d.result).length = 1) (vs : List Val) (bs : Bytes) (fuel : Nat)
    (henc : encodeFields S d.fields [] vs = some bs) (hfuel : 3 * depthList vs + 1 ≤ fuel) :
    ∃ m, B.find (camelGo d.ctor ++ "C") = some (.simple m) ∧
      runMarshal B fuel m.fields m.marshal (repFields S d.fields vs) = some bs ∧
      ∀ rest, runUnmarshal B fuel m.fields m.unmarshal (zeroStruct m.fields) (bs ++ rest)
        = .ok (repFields S d.fields vs, rest) := by
  obtain ⟨m, hm, hag⟩ := bare_binding (typesAgree_of_agreeAll hA) hd h1
  exact ⟨m, hm, method_marshal (typesAgree_of_agreeAll hA) hag vs bs fuel henc hfuel,
    fun rest => method_unmarshal hwf (typesAgree_of_agreeAll hA) hag vs bs rest fuel henc hfuel⟩

open Tongo.Tl.Bind in
/-- the request wrappers, answer handling and decoder table of the generated client, for every schema and every
extracted output the matcher accepts: (1) the payload of method `CamelCase f` is `encodeRequest S f ps`; (2) the decoder
table maps these bytes back to `f` and the parameters; (3) answers: the encoding of any value of the result type is
returned as that value, the encoding of a `liteServer.error` as that error -/
theorem client_steps_eq_schema (S : Schema) (B : Bindings) (hwf : WFSchema S) (hA : agreeAll S B = true) (f : String)
    (d e : Decl) (hf : S.func? f = some d) (he : S.ctor? errorCtor = some e)
    (herr : tyRefsOk S B (.bare errorCtor) = true) (fuel : Nat) (rest : Bytes) :
    ∃ m, B.methods.find? (fun m => m.name == camelGo f) = some m ∧
      (∀ ps bs, encodeRequest S f ps = some bs → 3 * depthList ps + 2 ≤ fuel →
        clientRequest B fuel m (.tuple (repFields S d.fields ps)) = some bs ∧
        decoderTable B fuel (bs ++ rest) = .ok (d.id, some (f, .tuple (repFields S d.fields ps)))) ∧
      (∀ c fs bs, encode S (.boxed d.result) (.sum c fs) = some bs → 3 * depthList fs + 5 ≤ fuel →
        (∀ cd, S.ctorOf? d.result c = some cd → cd.id ≠ e.id) →
        clientAnswer B fuel m (bs ++ rest) = .ok (.result (rep S (.boxed d.result) (.sum c fs)))) ∧
      (∀ evs eb, encodeFields S e.fields [] evs = some eb → 3 * depthList evs + 5 ≤ fuel →
        clientAnswer B fuel m (le 4 e.id ++ eb ++ rest) = .ok (.serverError (.tuple (repFields S e.fields evs)))) := by
  obtain ⟨m, hm, h1, h2⟩ := client_answer_eq hwf hA f d e hf he herr fuel rest
  refine ⟨m, hm, fun ps bs henc hfuel => ?_, h1, h2⟩
  obtain ⟨m', hm', hreq⟩ := client_request_eq hA f d hf ps bs fuel henc hfuel
  rw [hm] at hm'
  cases hm'
  exact ⟨hreq, decoder_table_eq hwf hA f d hf ps bs rest fuel henc hfuel⟩

/-! ### The hypotheses are satisfiable (non-vacuity): a schema with a flag field, a conditional field, a vector and a
two-constructor type, and a value of it. These are tests on literals, not proofs about all inputs. -/

def exSchema : Schema :=
  { types := [
      { ctor := "p.item", id := 0x11111111, fields := [{ name := "x", cond := none, ty := .long }], result := "p.Item" },
      { ctor := "p.a", id := 0xaaaaaaaa, result := "p.T",
        fields := [{ name := "mode", cond := none, ty := .nat },
                   { name := "s", cond := some ("mode", 3), ty := .bytes },
                   { name := "v", cond := none, ty := .vector (.bare "p.item") }] },
      { ctor := "p.b", id := 0xbbbbbbbb, fields := [{ name := "t", cond := some ("nope", 0), ty := .tru }], result := "p.T" }],
    funcs := [] }

example : ¬ WFSchema exSchema := by decide   -- p.b tests a flag that is not declared

def exSchema2 : Schema := { exSchema with types := exSchema.types.take 2 ++ [
      { ctor := "p.b", id := 0xbbbbbbbb, fields := [], result := "p.T" }] }

example : WFSchema exSchema2 := by decide

example : encode exSchema2 (.boxed "p.T") (.sum "p.a" [.num 8, .raw [1, 2, 3], .vec [.tuple [.num 5]]])
    = some [0xaa, 0xaa, 0xaa, 0xaa, 8, 0, 0, 0, 3, 1, 2, 3, 1, 0, 0, 0, 5, 0, 0, 0, 0, 0, 0, 0] := by decide

example : encode exSchema2 (.boxed "p.T") (.sum "p.a" [.num 0, .absent, .vec []])
    = some [0xaa, 0xaa, 0xaa, 0xaa, 0, 0, 0, 0, 0, 0, 0, 0] := by decide

/-- what the generator emits for `exSchema2`, as X7 reads it: struct `PItemC`, sum struct `PT` with the variants `PA`
(guard on bit 3 of `Mode` around `S` in both methods) and `PB` -/
def exBindings : Bind.Bindings :=
  { types := [
      ("PItemC", .simple { fields := [("X", .u64)], marshal := [⟨some "X", none⟩], unmarshal := [⟨some "X", none⟩] }),
      ("PT", .sum {
        variants := [("PA", [("Mode", .u32), ("S", .bytes), ("V", .slice (.named "PItemC"))]), ("PB", [])],
        marshal := [
          { sumType := "PA", tag := 0xaaaaaaaa, variant := "PA",
            steps := [⟨some "Mode", none⟩, ⟨some "S", some ("Mode", 3)⟩, ⟨some "V", none⟩] },
          { sumType := "PB", tag := 0xbbbbbbbb, variant := "PB", steps := [] }],
        unmarshal := [
          { tag := 0xaaaaaaaa, sumType := "PA", variant := "PA",
            steps := [⟨some "Mode", none⟩, ⟨some "S", some ("Mode", 3)⟩, ⟨some "V", none⟩] },
          { tag := 0xbbbbbbbb, sumType := "PB", variant := "PB", steps := [] }] })],
    methods := [], decoders := [] }

/-- non-vacuity of `steps_eq_schema`: the matcher accepts these bindings; it rejects them when the guard tests another
bit, when two steps are swapped, and when a tag literal differs (tests on literals) -/
example : Bind.agreeAll exSchema2 exBindings = true := by decide

example : Bind.agreeAll exSchema2 { exBindings with types := exBindings.types.map fun (n, b) =>
    match b with
    | .sum s => (n, .sum { s with marshal := s.marshal.map fun k =>
        { k with steps := k.steps.map fun st => { st with guard := st.guard.map fun (f, _) => (f, 4) } } })
    | b => (n, b) } = false := by decide

example : Bind.agreeAll exSchema2 { exBindings with types := exBindings.types.map fun (n, b) =>
    match b with
    | .sum s => (n, .sum { s with unmarshal := s.unmarshal.map fun k => { k with steps := k.steps.reverse } })
    | b => (n, b) } = false := by decide

example : Bind.agreeAll exSchema2 { exBindings with types := exBindings.types.map fun (n, b) =>
    match b with
    | .sum s => (n, .sum { s with unmarshal := s.unmarshal.map fun k => { k with tag := k.tag + 1 } })
    | b => (n, b) } = false := by decide

/-- … and through the theorem: the Go value carrying `p.a(8, [1,2,3], [p.item(5)])` is marshalled by these steps to the
schema bytes computed above, and read back -/
example : Bind.marshalGo exBindings 15 (.named "PT")
      (Bind.rep exSchema2 (.boxed "p.T") (.sum "p.a" [.num 8, .raw [1, 2, 3], .vec [.tuple [.num 5]]]))
    = some [0xaa, 0xaa, 0xaa, 0xaa, 8, 0, 0, 0, 3, 1, 2, 3, 1, 0, 0, 0, 5, 0, 0, 0, 0, 0, 0, 0] :=
  (steps_eq_schema exSchema2 exBindings (by decide) (by decide) (.boxed "p.T") _ _ 15 (by decide) (by decide)
    (by decide) (by decide)).1

end Tongo.C09
