import TongoProofs.Lemmas.MerkleCompose
import TongoProofs.Lemmas.MerkleKeyInj
import TongoProofs.Lemmas.Sha256Len
import TongoProofs.Lemmas.MerkleHashmap
import TongoProofs.C05
import TongoProofs.Lemmas.BitStringFift
import TongoProofs.C01
/-! Property C18 — generated Merkle proofs commit to the original tree and reveal the value.

Model: `Tongo.Merkle.pruneCells` / `createProof` / `walk` / `proveKey` (TongoModel/Merkle.lean) mirror
`immutableCell.pruneCells`, `MerkleProver.CreateProof`, `tlb.ProveKeyInHashmap`; hashes inside them come from the
model of `newImmutableCell` (`Cell.info`). The statements are about the SPECIFICATION hash of C02
(`Spec.hashAt`/`Spec.depthAt`, the TON definition) — an implementation independent of `newImmutableCell` — for every
prune set `P` (any predicate on positions, the root included) and every hash function `H` with 32-byte digests.
`plain t`: the trees the prover supports (well-formed, level 0 throughout: ordinary and library cells).
Property theorems only; helper lemmas live in TongoProofs/Lemmas/Merkle*.lean. -/
namespace Tongo.C18
open Tongo Tongo.Merkle Tongo.MerkleLemmas Tongo.CellHashLemmas

/-- **Pruning does not change the level-0 hash and depth.** On every supported tree that hashing accepts, `pruneCells`
succeeds for every prune set and position, and the resulting tree has, at level 0, exactly the hash and depth of the
original (induction on the tree: a pruned branch answers level 0 with what it stores; a parent whose mask became 1
still hashes level 0 with `d1(mask mod 2^0)`). -/
theorem pruned_hash0 (H : List UInt8 → List UInt8) (hH : H32 H) (P : List Nat → Bool) (path : List Nat) (t : Cell)
    (hp : plain t = true) (hd : Spec.tooDeep t = false) :
    ∃ t', pruneCells H P path t = .ok t' ∧
      Spec.hashAt H t' 0 = Spec.hashAt H t 0 ∧ Spec.depthAt t' 0 = Spec.depthAt t 0 := by
  refine ⟨specPrune H P path t, pruneCells_eq H P t path hp hd, ?_⟩
  exact specPrune_hash0 H hH P t path hp hd

/-- **Pruned branches store the hash and depth of what they replace.** If `q` is a position of the original tree
holding the subtree `o`, `q` is in the prune set and no position above it is, then the result of `pruneCells` has at
`q` the cell `01 01 hash₀(o) depth₀(o)` (type pruned branch, mask 1, no refs), hash and depth by the definition. -/
theorem pruned_stores_original (H : List UInt8 → List UInt8) (P : List Nat → Bool) (path : List Nat) (t t' : Cell)
    (hp : plain t = true) (hd : Spec.tooDeep t = false) (h : pruneCells H P path t = .ok t')
    (q : List Nat) (o : Cell) (hq : cellAt t q = some o) (hP : P (path ++ q) = true)
    (habove : ∀ q', q' <+: q → q' ≠ q → P (path ++ q') = false) :
    cellAt t' q = some (prunedCell (Spec.hashAt H o 0) (Spec.depthAt o 0)) := by
  rw [pruneCells_eq H P t path hp hd] at h
  cases h
  rw [specPrune_cellAt H P q t path o hq habove]
  cases o with
  | mk ty mask bits refs => simp [specPrune, hP]

/-- **The proof's root.** Whenever `CreateProof` returns, the result is a Merkle-proof cell (type 3, mask 0, one ref)
whose data is `03 ++ hash₀(t) ++ depth₀(t)` — level-0 hash and depth of the ORIGINAL root by the definition — over the
pruned tree; the whole proof satisfies the exotic-cell well-formedness rules (so C02's `impl_eq_spec` applies to it) and
is within the depth limit. -/
theorem proof_root (H : List UInt8 → List UInt8) (hH : H32 H) (P : List Nat → Bool) (t proof : Cell)
    (hp : plain t = true) (h : createProof H P t = .ok proof) :
    proof = .mk tyMerkleProof 0 (Bits.bytesToBits ([3] ++ Spec.hashAt H t 0 ++ be16 (Spec.depthAt t 0)))
              [specPrune H P [] t] ∧
    pruneCells H P [] t = .ok (specPrune H P [] t) ∧
    Spec.WFExotic proof ∧ Spec.tooDeep proof = false := by
  obtain ⟨h1, h2, h3, h4⟩ := createProof_ok H hH P t hp h
  exact ⟨h2, pruneCells_eq H P t [] hp h1, h3, h4⟩

/-- **The proof verifies.** The child of the returned Merkle-proof cell has, at level 0, the committed hash and depth:
by the definition (`Spec.hashAt`), and also when an independent verifier runs the hashing implementation
(`Cell.info`, the model of `newImmutableCell`) on the child. -/
theorem proof_verifies (H : List UInt8 → List UInt8) (hH : H32 H) (P : List Nat → Bool) (t proof : Cell)
    (hp : plain t = true) (h : createProof H P t = .ok proof) :
    ∃ child, proof = proofCell (Spec.hashAt H t 0) (Spec.depthAt t 0) child ∧
      Spec.hashAt H child 0 = Spec.hashAt H t 0 ∧ Spec.depthAt child 0 = Spec.depthAt t 0 ∧
      ∃ ci, Cell.info H child = .ok ci ∧ ci.hashAt 0 = .ok (Spec.hashAt H t 0) ∧
        ci.depthAt 0 = .ok (Spec.depthAt t 0) := by
  obtain ⟨h1, h2, h3, h4⟩ := createProof_ok H hH P t hp h
  obtain ⟨e1, e2⟩ := specPrune_hash0 H hH P t [] hp h1
  refine ⟨specPrune H P [] t, h2, e1, e2, ?_⟩
  have hwc : Spec.wfExotic (specPrune H P [] t) = true := (specPrune_wf H hH P t [] hp).1
  have hdc : Spec.tooDeep (specPrune H P [] t) = false := by
    rw [h2] at h4
    simp only [proofCell, Spec.tooDeep, Spec.tooDeepL, Bool.or_false, Bool.or_eq_false_iff] at h4
    exact h4.1
  obtain ⟨ci, e, _, _, _, hm⟩ := (good_cell H _ (wfExotic_wfSizes _ hwc)).1 hdc
  exact ⟨ci, e, by rw [(hm 0 (by omega)).1, e1], by rw [(hm 0 (by omega)).2, e2]⟩

/-- For ANY given layout `t` of the proof (a valid table whose row 0 unfolds to `proof`) — not necessarily the order
Go's writer chooses; `proof_boc` below is about that order: the bytes `serializeBoc` writes for `CreateProof`'s option set (no index, no
CRC, no cache bits) parse back, with the repaired reader, to exactly that table with root 0; row 0 is a
Merkle-proof cell (type 3, level mask 0, one ref) whose data is `03 ++ hash₀(t) ++ depth₀(t)`; the root unfolds to
`proof`; and hashing the parse result (`Table.infos`, what an independent verifier runs) gives the root the hashes of
the definition. -/
theorem proof_boc_layout (H : List UInt8 → List UInt8) (hH : H32 H) (P : List Nat → Bool) (root proof : Cell)
    (hp : plain root = true) (h : createProof H P root = .ok proof)
    (t : Table) (hlay : Boc.ValidLayout t [0]) (hunf : Table.unfold t (t.size + 1) 0 = some proof)
    (hn : t.size < 16777216) (hsz : 1 ≤ t.size)
    (hlen : (Boc.Writer.serializeOrdered t [0] false false false []).length < Boc.two63) :
    Boc.parseBoc (Boc.Writer.serializeOrdered t [0] false false false []) = .ok (t, [0]) ∧
    (∃ row child, t[0]? = some row ∧ row.ty = tyMerkleProof ∧ row.mask = 0 ∧ row.refs.length = 1 ∧
      row.bits = Bits.bytesToBits ([3] ++ Spec.hashAt H root 0 ++ be16 (Spec.depthAt root 0)) ∧
      proof = proofCell (Spec.hashAt H root 0) (Spec.depthAt root 0) child ∧
      Spec.hashAt H child 0 = Spec.hashAt H root 0 ∧ Spec.depthAt child 0 = Spec.depthAt root 0) ∧
    (∃ info, (Table.infos H t)[0]? = some (.ok info) ∧
      ∀ l, l ≤ 4 → info.hashAt l = .ok (Spec.hashAt H proof l) ∧ info.depthAt l = .ok (Spec.depthAt proof l)) := by
  obtain ⟨_, h2, h3, h4⟩ := createProof_ok H hH P root hp h
  obtain ⟨child, hc, e1, e2, _⟩ := proof_verifies H hH P root proof hp h
  refine ⟨C01.roundtrip t [0] false false false [] hlay hn (by simp) (by simpa using hsz) hlen, ?_, ?_⟩
  · rw [hc] at hunf
    obtain ⟨row, r1, r2, r3, r4, r5⟩ := unfold_root_row t _ 0 _ _ _ _ hunf
    exact ⟨row, child, r1, r2, r3, by simpa using r5, r4, hc, e1, e2⟩
  · obtain ⟨info, e, hm, _⟩ := C02core H proof h3 h4
    exact ⟨info, by rw [infos_refines H t _ 0 proof hunf, e], hm⟩

/-- **The proof is a bag of cells whose root is a Merkle-proof cell** (end to end through the model of the WHOLE Go
writer: `C01.roundtrip_go_writer`, i.e. importCell/reorderCells' order — `C01.order_valid` — then the header
arithmetic of serializeBoc, then the repaired reader of C07). Let `createProof` return `proof`. Let `t` be any
presentation of the proof's cells as the writer receives them (the in-memory DAG: a valid table whose row 0 unfolds to
`proof`; shared or duplicated rows allowed) and `key` the writer's de-duplication key (Go: the hex representation
hash), identifying rows exactly up to structural equality (`KeyInjOn`: collision-freedom of the hash on the rows of
`t`). Then the writer model succeeds with `CreateProof`'s option set (no index, CRC or cache bits), and — under the
size conditions of `roundtrip_go_writer`, always true for a proof that fits a Go slice — its bytes parse back to the
ordered table with ONE root, that root unfolds to `proof`, its row is a Merkle-proof cell (type 3, mask 0, one ref)
with data `03 ++ hash₀(root) ++ depth₀(root)`, and hashing the parse result (`Table.infos`) gives it the hashes of the
definition. Remaining premises: that a presentation `t` exists for the cells in memory (agent boc's `roundtrip_cell`
discharges it with `Cell.toTable`) and `KeyInjOn`. -/
theorem proof_boc {K : Type} [BEq K] [Hashable K] [LawfulBEq K]
    (H : List UInt8 → List UInt8) (hH : H32 H) (P : List Nat → Bool) (root proof : Cell)
    (hp : plain root = true) (h : createProof H P root = .ok proof)
    (t : Table) (key : Nat → Option K) (hlay : Boc.ValidLayout t [0])
    (hunf : Table.unfold t (t.size + 1) 0 = some proof) (hk : Boc.Order.KeyInjOn t key) :
    ∃ o bs, Boc.Order.serializeBocModel t key [0] false false false = .ok bs ∧ Boc.Order.OrderValid t [0] o ∧
      (o.table.size < 16777216 → 1 ≤ o.table.size → bs.length < Boc.two63 →
        ∃ r row child, Boc.parseBoc bs = .ok (o.table, [r]) ∧
          Table.unfold o.table (o.table.size + 1) r = some proof ∧
          o.table[r]? = some row ∧ row.ty = tyMerkleProof ∧ row.mask = 0 ∧ row.refs.length = 1 ∧
          row.bits = Bits.bytesToBits ([3] ++ Spec.hashAt H root 0 ++ be16 (Spec.depthAt root 0)) ∧
          proof = proofCell (Spec.hashAt H root 0) (Spec.depthAt root 0) child ∧
          Spec.hashAt H child 0 = Spec.hashAt H root 0 ∧ Spec.depthAt child 0 = Spec.depthAt root 0 ∧
          ∃ info, (Table.infos H o.table)[r]? = some (.ok info) ∧
            ∀ l, l ≤ 4 → info.hashAt l = .ok (Spec.hashAt H proof l) ∧ info.depthAt l = .ok (Spec.depthAt proof l)) := by
  obtain ⟨_, h2, h3, h4⟩ := createProof_ok H hH P root hp h
  obtain ⟨child, hc, e1, e2, _⟩ := proof_verifies H hH P root proof hp h
  obtain ⟨o, bs, _, hser, hval, hparse⟩ := C01.roundtrip_go_writer t [0] key false false false hlay hk
  refine ⟨o, bs, hser, hval, ?_⟩
  intro hn hsz hlen
  have hroots := hval.roots_eq
  simp only [List.map_cons, List.map_nil, hunf] at hroots
  -- exactly one root position
  obtain ⟨r, hr⟩ : ∃ r, o.roots = [r] := by
    cases hro : o.roots with
    | nil => rw [hro] at hroots; simp at hroots
    | cons r rest =>
      cases rest with
      | nil => exact ⟨r, rfl⟩
      | cons r2 rest2 => rw [hro] at hroots; simp at hroots
  rw [hr] at hroots
  simp only [List.map_cons, List.map_nil, List.cons.injEq, and_true] at hroots
  have hp' := hparse hn (by simp) (by simpa using hsz) hlen
  rw [hr] at hp'
  have hunf' := hroots
  rw [hc] at hunf'
  obtain ⟨row, r1, r2, r3, r4, r5⟩ := unfold_root_row o.table _ r _ _ _ _ hunf'
  obtain ⟨info, e, hm, _⟩ := C02core H proof h3 h4
  exact ⟨r, row, child, hp', hroots, r1, r2, r3, by simpa using r5, r4, hc, e1, e2, info,
    by rw [infos_refines H o.table _ r proof hroots, e], hm⟩

/-- **`proof_boc` with its premises about the writer DISCHARGED.** The only hypotheses left are about the hash
function — 32-byte digests and no collision among the byte strings hashed for the proof (`Spec.allReprs H proof`, a
finite list) — and that the original tree is within the limits of the bag-of-cells format (`CellOK`: ≤ 1023 bits,
≤ 4 refs, exotic cells start with their type byte — true of every cell that was parsed or built by the library).
The presentation of the proof's cells is agent boc's `Order.cellTable proof` (pre-order, no sharing; by
`C01.serialize_canonical` any other presentation of the same tree gives the same bytes), proved here to be a valid
layout (structural depth ≤ 1024 because hashing accepted the proof); Go's de-duplication key `goKey` (the
representation hash) satisfies `KeyInjOn` on it by `C02.reprHash_inj_wfExotic` — Merkle proofs have mask-1 cells and
pruned branches, which the level-0 lemma of C01 does not cover. Conclusion as in `proof_boc`. -/
theorem proof_boc_collisionFree (H : List UInt8 → List UInt8) (hH : H32 H) (P : List Nat → Bool) (root proof : Cell)
    (hp : plain root = true) (hok : Boc.Order.CellOK root) (h : createProof H P root = .ok proof)
    (cf : CollisionFree H (Spec.allReprs H proof)) :
    ∃ (o : Boc.Order.Ordered) (bs : Boc.Bytes),
      Boc.Order.serializeBocModel (Boc.Order.cellTable proof) (Boc.Order.goKey H (Boc.Order.cellTable proof)) [0]
        false false false = .ok bs ∧
      (o.table.size < 16777216 → 1 ≤ o.table.size → bs.length < Boc.two63 →
        ∃ (r : Nat) (row : CellRow) (child : Cell), Boc.parseBoc bs = .ok (o.table, [r]) ∧
          Table.unfold o.table (o.table.size + 1) r = some proof ∧
          o.table[r]? = some row ∧ row.ty = tyMerkleProof ∧ row.mask = 0 ∧ row.refs.length = 1 ∧
          row.bits = Bits.bytesToBits ([3] ++ Spec.hashAt H root 0 ++ be16 (Spec.depthAt root 0)) ∧
          proof = proofCell (Spec.hashAt H root 0) (Spec.depthAt root 0) child ∧
          Spec.hashAt H child 0 = Spec.hashAt H root 0 ∧ Spec.depthAt child 0 = Spec.depthAt root 0 ∧
          ∃ info, (Table.infos H o.table)[r]? = some (.ok info) ∧
            ∀ l, l ≤ 4 → info.hashAt l = .ok (Spec.hashAt H proof l) ∧ info.depthAt l = .ok (Spec.depthAt proof l)) := by
  obtain ⟨hv, hu, hk⟩ := proof_presentation H hH P root proof hp hok h cf
  obtain ⟨o, bs, h1, _, h3⟩ := proof_boc H hH P root proof hp h (Boc.Order.cellTable proof) _ hv hu hk
  exact ⟨o, bs, h1, h3⟩

/-- the hash function of the driver satisfies `H32` -/
theorem h32_sha256 : H32 sha256 := Sha256Lemmas.sha256_length

/-- **No panic, and exactly when a proof is produced.** On supported trees `CreateProof` never panics for any
prune set; it fails only with the depth error (the tree, or the proof cell on top of it, is too deep). -/
theorem prune_total (H : List UInt8 → List UInt8) (hH : H32 H) (P : List Nat → Bool) (t : Cell)
    (hp : plain t = true) :
    (createProof H P t).isPanic = false ∧
    ((createProof H P t).isOk = true ↔
      (Spec.tooDeep t = false ∧
       Spec.tooDeep (proofCell (Spec.hashAt H t 0) (Spec.depthAt t 0) (specPrune H P [] t)) = false)) := by
  have hws := wfExotic_wfSizes _ (plain_wfExotic _ hp)
  have g := good_cell H t hws
  cases hd : Spec.tooDeep t with
  | true => simp [createProof, g.2 hd, Outcome.isPanic, Outcome.isOk]
  | false =>
    obtain ⟨info, e, _, _, _, hmatch⟩ := g.1 hd
    obtain ⟨m1, m2⟩ := hmatch 0 (by omega)
    cases hc : createProof H P t with
    | ok proof =>
      obtain ⟨_, h2, _, h4⟩ := createProof_ok H hH P t hp hc
      rw [h2] at h4
      simp [Outcome.isPanic, Outcome.isOk, h4]
    | err x =>
      refine ⟨rfl, ?_⟩
      simp only [Outcome.isOk, Bool.false_eq_true, true_and, false_iff]
      intro hdp
      -- the proof is well-formed and not too deep, so its hash is computed and createProof returns it
      have hh : (Spec.hashAt H t 0).length = 32 := by
        cases t with
        | mk ty mask bits refs =>
          obtain ⟨hty, _⟩ := plain_node hp
          simp only [Spec.hashAt, (hashLevel_zero H hty mask bits _ _).1]; exact hH _
      simp only [createProof, e, Outcome.bind_ok, pruneCells_eq H P t [] hp hd, m1, m2] at hc
      cases hr : Cell.reprHash H (proofCell (Spec.hashAt H t 0) (Spec.depthAt t 0) (specPrune H P [] t)) with
      | ok y => rw [hr] at hc; cases hc
      | err y =>
        -- contradiction: reprHash of a well-formed, not too deep cell is ok
        obtain ⟨w1, w2⟩ := specPrune_wf H hH P t [] hp
        have hwf : Spec.wfSizes (proofCell (Spec.hashAt H t 0) (Spec.depthAt t 0) (specPrune H P [] t)) = true := by
          simp [proofCell, Spec.wfSizes, Spec.wfSizesL, Spec.sizesNode, wfExotic_wfSizes _ w1, tyMerkleProof, tyPruned]
        obtain ⟨i2, e2, _, _, _, hm2⟩ := (good_cell H _ hwf).1 hdp
        simp only [Cell.reprHash, e2, Outcome.bind_ok, (hm2 3 (by omega)).1] at hr
        cases hr
      | panic y => rw [hr] at hc; cases hc
    | panic x =>
      exfalso
      simp only [createProof, e, Outcome.bind_ok, pruneCells_eq H P t [] hp hd, m1, m2] at hc
      obtain ⟨w1, w2⟩ := specPrune_wf H hH P t [] hp
      have hwf : Spec.wfSizes (proofCell (Spec.hashAt H t 0) (Spec.depthAt t 0) (specPrune H P [] t)) = true := by
        simp [proofCell, Spec.wfSizes, Spec.wfSizesL, Spec.sizesNode, wfExotic_wfSizes _ w1, tyMerkleProof, tyPruned]
      have g2 := good_cell H _ hwf
      cases hdp : Spec.tooDeep (proofCell (Spec.hashAt H t 0) (Spec.depthAt t 0) (specPrune H P [] t)) with
      | true =>
        simp only [Cell.reprHash, g2.2 hdp] at hc
        cases hc
      | false =>
        obtain ⟨i2, e2, _, _, _, hm2⟩ := g2.1 hdp
        simp only [Cell.reprHash, e2, Outcome.bind_ok, (hm2 3 (by omega)).1] at hc
        cases hc

/-- **An absent key yields no proof.** If the TON dictionary lookup of `key` in the tree fails (the key is absent, or
the tree is not a dictionary of that key width), `ProveKeyInHashmap` does not return a proof. -/
theorem absent_key_errors (H : List UInt8 → List UInt8) (valueBits : Nat) (root : Cell) (key : List Bool)
    (habs : dictLookup (key.length + 2) key.length root key = none) :
    ∀ r, proveKey H valueBits root key ≠ .ok r := by
  intro r hr
  simp only [proveKey] at hr
  cases hi : Cell.info H root with
  | err x => rw [hi] at hr; cases hr
  | panic x => rw [hi] at hr; cases hr
  | ok info =>
    rw [hi] at hr
    simp only [Outcome.bind_ok] at hr
    cases hw : walk key.length (key.length + 2) key.length root [] key [] [] with
    | err x => rw [hw] at hr; cases hr
    | panic x => rw [hw] at hr; cases hr
    | ok w =>
      rw [hw] at hr
      simp only [Outcome.bind_ok] at hr
      obtain ⟨sfx, e1, e2, _, e4⟩ := walk_spec H key.length _ _ root [] key [] [] w hw rfl (by simp)
      split at hr
      · cases hr
      · split at hr
        · cases hr
        · split at hr
          · cases hr
          · rename_i h1 h2 h3
            simp only [List.nil_append] at e1
            have : sfx = key := by
              have h3' : w.pfx.take key.length = key := by simpa using h3
              rw [← e1, ← h3']
              exact (List.take_of_length_le e2).symm
            rw [(e4 this).1] at habs
            cases habs

/-- **The value is revealed.** When `ProveKeyInHashmap` returns value bits `v` and a proof, then: the TON dictionary
lookup of the key in the ORIGINAL tree finds a leaf whose data starts with `v`; the proof is the Merkle-proof cell of
`proof_root` for the prune set collected on the way; and the same lookup in the PROOF's child (the pruned tree) finds
a leaf with the same data bits — the value can be decoded from the proof alone. -/
theorem value_revealed (H : List UInt8 → List UInt8) (hH : H32 H) (valueBits : Nat) (root : Cell) (key v : List Bool)
    (proof : Cell) (hp : plain root = true) (h : proveKey H valueBits root key = .ok (v, proof)) :
    ∃ rest refs child refs',
      dictLookup (key.length + 2) key.length root key = some (rest, refs) ∧ v = rest.take valueBits ∧
      valueBits ≤ rest.length ∧
      proof = proofCell (Spec.hashAt H root 0) (Spec.depthAt root 0) child ∧
      Spec.hashAt H child 0 = Spec.hashAt H root 0 ∧
      dictLookup (key.length + 2) key.length child key = some (rest, refs') := by
  simp only [proveKey] at h
  cases hi : Cell.info H root with
  | err x => rw [hi] at h; cases h
  | panic x => rw [hi] at h; cases h
  | ok info =>
    rw [hi] at h
    simp only [Outcome.bind_ok] at h
    cases hw : walk key.length (key.length + 2) key.length root [] key [] [] with
    | err x => rw [hw] at h; cases h
    | panic x => rw [hw] at h; cases h
    | ok w =>
      rw [hw] at h
      simp only [Outcome.bind_ok] at h
      obtain ⟨sfx, e1, e2, _, e4⟩ := walk_spec H key.length _ _ root [] key [] [] w hw rfl (by simp)
      split at h
      · cases h
      · split at h
        · cases h
        · split at h
          · cases h
          · rename_i h1 h2 h3
            simp only [List.nil_append] at e1
            have hs : sfx = key := by
              have h3' : w.pfx.take key.length = key := by simpa using h3
              rw [← e1, ← h3']
              exact (List.take_of_length_le e2).symm
            obtain ⟨f1, f2⟩ := e4 hs
            cases hc : createProof H (fun p => w.pruned.contains p) root with
            | err x => rw [hc] at h; cases h
            | panic x => rw [hc] at h; cases h
            | ok pr =>
              rw [hc] at h
              simp only [Outcome.bind_ok, pure, Outcome.ok.injEq, Prod.mk.injEq] at h
              obtain ⟨hv, hpr⟩ := h
              subst hpr
              obtain ⟨c1, c2, _, _⟩ := createProof_ok H hH _ root hp hc
              obtain ⟨refs', f3⟩ := f2 (fun p => w.pruned.contains p)
                (by intro q hq; simpa using hq) (by simp)
              refine ⟨w.rest, w.leaf.refs, _, refs', f1, hv.symm, by omega, c2, ?_, f3⟩
              exact (specPrune_hash0 H hH _ root [] hp c1).1


/-- **The value is revealed — in terms of the dictionary's meaning** (composition with C05, agent dict's model of the
TON `Hashmap n X` and of the library's decoder). Let the prover's root be the cell tree of ANY valid dictionary `t` of
key width `n` (any mix of label forms), with values the codec decodes. If `ProveKeyInHashmap` returns `(v, proof)` for
a key of `n` bits, then the key is in the dictionary, `get key` of its meaning is some `val` whose payload starts
with `v`, and the library's own `Hashmap` decoder (`Hashmap.unmarshal`, which skips pruned branches) applied to the
proof's child returns exactly the single entry `(key, val)`: the value decoded from the proof equals `get key` of the
dictionary's meaning. Holds for every key width (no byte-multiple assumption). -/
theorem value_revealed_dict {V : Type} (H : List UInt8 → List UInt8) (hH : H32 H) (C : Hashmap.Codec V)
    (pay : V → List Bool × List Cell) (n : Nat) (hn : n < 2 ^ 64) (t : Hashmap.HTree V) (hv : t.Valid n)
    (hdec : ∀ kv ∈ t.meaning, Hashmap.DecodesValue C pay kv.2)
    (valueBits : Nat) (key v : List Bool) (proof : Cell) (hk : key.length = n)
    (hp : plain (t.toCell pay n) = true) (h : proveKey H valueBits (t.toCell pay n) key = .ok (v, proof)) :
    ∃ val child, Hashmap.get t.meaning key = some val ∧ v = (pay val).1.take valueBits ∧
      proof = proofCell (Spec.hashAt H (t.toCell pay n) 0) (Spec.depthAt (t.toCell pay n) 0) child ∧
      Hashmap.unmarshal C n child = .ok [(key, val)] ∧
      Hashmap.get [(key, val)] key = Hashmap.get t.meaning key := by
  subst hk
  simp only [proveKey] at h
  cases hi : Cell.info H (t.toCell pay key.length) with
  | err x => rw [hi] at h; cases h
  | panic x => rw [hi] at h; cases h
  | ok info =>
    rw [hi] at h
    simp only [Outcome.bind_ok] at h
    cases hw : walk key.length (key.length + 2) key.length (t.toCell pay key.length) [] key [] [] with
    | err x => rw [hw] at h; cases h
    | panic x => rw [hw] at h; cases h
    | ok w =>
      rw [hw] at h
      simp only [Outcome.bind_ok] at h
      obtain ⟨sfx, e1, e2, _, _⟩ := walk_spec H key.length _ _ _ [] key [] [] w hw rfl (by simp)
      split at h
      · cases h
      · split at h
        · cases h
        · split at h
          · cases h
          · rename_i h1 h2 h3
            simp only [List.nil_append] at e1
            have hs : w.pfx = [] ++ key := by
              have h3' : w.pfx.take key.length = key := by simpa using h3
              rw [List.nil_append, ← h3']
              exact (List.take_of_length_le e2).symm
            obtain ⟨val, ext, g1, g2, g3, g4, g5⟩ := walk_htree H C pay key.length key.length hn t key.length _ [] key []
              [] w hv rfl (by omega) (by simp) (Nat.le_refl _) hp hdec hw hs
            cases hc : createProof H (fun p => w.pruned.contains p) (t.toCell pay key.length) with
            | err x => rw [hc] at h; cases h
            | panic x => rw [hc] at h; cases h
            | ok pr =>
              rw [hc] at h
              simp only [Outcome.bind_ok, pure, Outcome.ok.injEq, Prod.mk.injEq] at h
              obtain ⟨hval, hpr⟩ := h
              subst hpr
              obtain ⟨_, c2, _, _⟩ := createProof_ok H hH _ _ hp hc
              have hdecode := g5 (fun p => w.pruned.contains p) (by intro q; simp) (by simp) [] (key.length + 1)
                (by simp) (by omega)
              have hget : Hashmap.get t.meaning key = some val := ((C05.get_spec t key.length hv key).1 val).mpr g1
              have hpath : (fun p => w.pruned.contains p) ([] : List Nat) = false := by
                cases hpp : w.pruned.contains ([] : List Nat) with
                | false => simp only [hpp]
                | true =>
                  have : ([] : List Nat) ∈ w.pruned := by simpa using hpp
                  rw [g3] at this
                  simp only [List.nil_append] at this
                  have := (g4 [] this).2
                  simp at this
              refine ⟨val, _, hget, ?_, c2, ?_, ?_⟩
              · rw [← hval, g2]
              · have hty : (specPrune H (fun p => w.pruned.contains p) [] (t.toCell pay key.length)).ty = 0 := by
                  cases htc : t.toCell pay key.length with
                  | mk a b c d =>
                    have : a = 0 := by
                      cases t <;> simp [Hashmap.HTree.toCell, Cell.ordinary] at htc <;> exact htc.1.symm
                    subst this
                    simp only [specPrune, hpath, Bool.false_eq_true, if_false, Cell.ty]
                simp only [Hashmap.unmarshal, hty, show ¬ ((0 : Nat) = tyLibrary) from by decide, if_false]
                simpa using hdecode
              · rw [hget]; simp [Hashmap.get]

/-- **An absent key yields no proof — in terms of the dictionary's meaning**, for every key width: if `get key` of
the meaning of a valid dictionary is `none`, `ProveKeyInHashmap` on its cell tree returns no proof. -/
theorem absent_key_errors_dict {V : Type} (H : List UInt8 → List UInt8) (hH : H32 H) (C : Hashmap.Codec V)
    (pay : V → List Bool × List Cell) (n : Nat) (hn : n < 2 ^ 64) (t : Hashmap.HTree V) (hv : t.Valid n)
    (hdec : ∀ kv ∈ t.meaning, Hashmap.DecodesValue C pay kv.2) (valueBits : Nat) (key : List Bool)
    (hk : key.length = n) (hp : plain (t.toCell pay n) = true) (habs : Hashmap.get t.meaning key = none) :
    ∀ r, proveKey H valueBits (t.toCell pay n) key ≠ .ok r := by
  intro r hr
  obtain ⟨v, proof⟩ := r
  obtain ⟨val, _, hget, _⟩ := value_revealed_dict H hH C pay n hn t hv hdec valueBits key v proof hk hp hr
  rw [habs] at hget
  cases hget

/-- **The key comparison of `ProveKeyInHashmap` is bit equality.** The Go code compares
`constructedKey.ToFiftHex() != key.ToFiftHex()`; the model (`proveKey`) compares the bit lists. For bit strings
satisfying the representation invariant of C06 the two are the same test: the Fift hex texts are equal exactly when
the written bits are (`ToFiftHex` is injective — `fromFiftHex` inverts it; agent bits' lemmas). -/
theorem fifthex_key_compare (a b : BitString) (ha : BitString.Inv a) (hb : BitString.Inv b) :
    BitString.toFiftHex a = BitString.toFiftHex b ↔ BitString.abs a = BitString.abs b := by
  rw [BitString.toFiftHex_eq a ha, BitString.toFiftHex_eq b hb]
  constructor
  · intro h
    injection h with h
    obtain ⟨sa, p1, q1, _⟩ := BitString.fromFiftHex_fiftSpec (BitString.abs a)
    obtain ⟨sb, p2, q2, _⟩ := BitString.fromFiftHex_fiftSpec (BitString.abs b)
    rw [h] at p1
    rw [p1] at p2
    injection p2 with p2
    rw [← q1, ← q2, p2]
  · intro h; rw [h]

/-- **The loop's fuel is sufficient**: `proveKey` gives the walk `key.length + 2` units of fuel and every iteration
consumes at least one key bit, so the artificial `err "fuel"` never occurs — the errors in `absent_key_errors` and the
"no panic" of `prove_no_panic` are genuine outcomes of the modelled Go code, not fuel exhaustion. -/
theorem walk_fuel_sufficient (root : Cell) (key : List Bool) :
    walk key.length (key.length + 2) key.length root [] key [] [] ≠ .err "fuel" :=
  walk_fuel key.length (key.length + 2) key.length root [] key [] [] (by omega)

/-- **`ProveKeyInHashmap` does not panic** on supported trees whose cells have zero or at least two refs (leaves and
forks of a dictionary): for every key, of any width. (On a cell with exactly one ref the walk can index
`cursor.Ref(1)` out of range — `walk` models that panic; it is outside the dictionaries the property quantifies over.) -/
theorem prove_no_panic (H : List UInt8 → List UInt8) (hH : H32 H) (valueBits : Nat) (root : Cell) (key : List Bool)
    (hp : plain root = true) (hns : noSingleRef root = true) :
    (proveKey H valueBits root key).isPanic = false := by
  have hws := wfExotic_wfSizes _ (plain_wfExotic _ hp)
  have g := good_cell H root hws
  simp only [proveKey]
  cases hd : Spec.tooDeep root with
  | true => rw [g.2 hd]; rfl
  | false =>
    obtain ⟨info, e, _⟩ := g.1 hd
    rw [e]
    simp only [Outcome.bind_ok]
    have hw := walk_no_panic key.length (key.length + 2) key.length root [] key [] [] hns
    cases hwk : walk key.length (key.length + 2) key.length root [] key [] [] with
    | err x => rfl
    | panic x => rw [hwk] at hw; cases hw
    | ok w =>
      simp only [Outcome.bind_ok]
      split
      · rfl
      · split
        · rfl
        · split
          · rfl
          · have hc := (prune_total H hH (fun p => w.pruned.contains p) root hp).1
            cases hcp : createProof H (fun p => w.pruned.contains p) root with
            | ok pr => rfl
            | err x => rfl
            | panic x => rw [hcp] at hc; cases hc

/-! ### non-vacuity: the hypotheses are satisfiable by a non-trivial value (tests on literals, not proofs of the
property) -/

/-- a toy "hash" with 32-byte digests -/
def toyH (x : List UInt8) : List UInt8 := (x ++ List.replicate 32 0).take 32
example : H32 toyH := by intro x; simp [toyH]

def leaf (bits : List Bool) : Cell := .mk tyOrdinary 0 bits []
def fork (bits : List Bool) (l r : Cell) : Cell := .mk tyOrdinary 0 bits [l, r]
/-- 8-bit keys, 8-bit values {0x00 ↦ 0x11, 0x01 ↦ 0x22, 0x80 ↦ 0x33}: root label empty, left subtree label 000000
(hml_short), right leaf label 0000000 (hml_same) -/
def exDict : Cell :=
  fork [false, false]
    (fork ([false] ++ [true,true,true,true,true,true,false] ++ List.replicate 6 false)
      (leaf ([false, false] ++ Bits.natToBits 8 0x11))
      (leaf ([false, false] ++ Bits.natToBits 8 0x22)))
    (leaf ([true, true, false, true, true, true] ++ Bits.natToBits 8 0x33))

example : plain exDict = true ∧ Spec.tooDeep exDict = false ∧ noSingleRef exDict = true := by decide +kernel
example : (dictLookup 10 8 exDict (Bits.natToBits 8 0x01)).map (·.1) = some (Bits.natToBits 8 0x22) := by decide +kernel
example : (dictLookup 10 8 exDict (Bits.natToBits 8 0x80)).map (·.1) = some (Bits.natToBits 8 0x33) := by decide +kernel
example : (dictLookup 10 8 exDict (Bits.natToBits 8 0x02)).isNone = true := by decide +kernel
example : (proveKey toyH 8 exDict (Bits.natToBits 8 0x01)).isOk = true := by decide +kernel
example : (proveKey toyH 8 exDict (Bits.natToBits 8 0x02)).isErr = true := by decide +kernel
example : (createProof toyH (fun p => p == [0, 1] || p == [1]) exDict).isOk = true := by decide +kernel
/-- non-vacuity of `proof_boc_collisionFree` with the REAL SHA-256 (kernel-evaluated test on a literal): for a
one-entry dictionary the prover returns a proof and SHA-256 has no collision among the representations hashed for it -/
example :
    plain (leaf ([true, false, false, false, false, false] ++ Bits.natToBits 8 0x33)) = true ∧
    (match createProof sha256 (fun _ => false) (leaf ([true, false, false, false, false, false] ++ Bits.natToBits 8 0x33)) with
     | .ok p => cfCheck sha256 (Spec.allReprs sha256 p)
     | _ => false) = true := by decide +kernel

/-- the format-limit hypothesis of `proof_boc_collisionFree` on the example dictionary (collision-freedom is the named
idealisation of the hash function; for the toy hash it does not hold) -/
example : Boc.Order.CellOK exDict := by
  simp only [exDict, fork, leaf, Boc.Order.CellOK, Boc.Order.CellOKL]
  decide +kernel
/-- hypotheses of `value_revealed_dict` on agent dict's example dictionary (all three label forms, keys 0 and 3) -/
example : plain (C05.exampleTree.toCell C05.u32Pay 8) = true ∧
    (proveKey toyH 32 (C05.exampleTree.toCell C05.u32Pay 8) (Bits.natToBits 8 3)).isOk = true ∧
    (proveKey toyH 32 (C05.exampleTree.toCell C05.u32Pay 8) (Bits.natToBits 8 1)).isErr = true := by decide +kernel

end Tongo.C18
