import TongoProofs.Lemmas.BocTotal
import TongoProofs.Lemmas.BocHash
import TongoProofs.Lemmas.BocToString
import TongoProofs.Lemmas.BocOrderFinal
import TongoGen.BocHeader
import TongoProofs.Lemmas.GenTiesA
/-! Property C07 — parsing untrusted bag-of-cells bytes never crashes and yields sound cells.

The theorems are about `Tongo.Boc.parseBoc`, the line-by-line model of the REPAIRED `boc.DeserializeBoc`
(`fix:` commits in the repository under test; every Go slice, index and `make` is a partial operation of the model,
header integers wrap like Go's `uint`/`int`). The only hypothesis on the input is that it is a Go slice
(`length < 2⁶³`). Property theorems only; the stage-by-stage Hoare triples are in `Lemmas/BocTotal.lean`. -/
namespace Tongo.C07
open Tongo Tongo.Boc Tongo.BocHash

/-- The reader never panics: no slice or index out of range, no `make` beyond the address space, on any input. -/
theorem parse_total (bs : Bytes) (h : bs.length < two63) : ∀ p, parseBoc bs ≠ .panic p :=
  (parseBocM_spec bs h).no_panic

/-- Memory in proportion to the input: the bytes requested through `make`/`New…` while parsing (also on the paths
that end in an error) are at most 317 per input byte plus 8. No allocation is sized by an unchecked header field. -/
theorem parse_alloc (bs : Bytes) (h : bs.length < two63) : parseAlloc bs ≤ 317 * bs.length + 8 := by
  have hs := parseBocM_spec bs h
  unfold parseAlloc M.run
  unfold Spec at hs
  rcases hx : parseBocM bs 0 with ⟨o, s'⟩
  rw [hx] at hs
  cases o with
  | ok a => exact hs.2
  | err e => exact hs
  | panic p => exact hs.elim

/-- Every parse result is sound: each cell has at most 1023 bits and 4 references, every reference points to a
LATER row of the table (so the cells are acyclic and every referenced cell is present), a pruned branch is long
enough for the hashes of its lower levels, every root is a row of the table, and no cell is deeper than the
1024-level limit (a ranking of the rows witnesses it). -/
theorem parse_sound (bs : Bytes) (h : bs.length < two63) (t : Table) (roots : List Nat)
    (hp : parseBoc bs = .ok (t, roots)) : Sound t roots := by
  have hs := parseBocM_spec bs h
  unfold parseBoc M.run at hp
  unfold Spec at hs
  rcases hx : parseBocM bs 0 with ⟨o, s'⟩
  rw [hx] at hs hp
  simp only at hp
  subst hp
  exact hs.1.1

/-- A sound table unfolds: every root denotes a finite cell tree (a cyclic result is impossible), and a fuel of
1026 — the depth limit, not the size of the input — always suffices: any structural recursion over a parsed cell
(hashing, printing, re-serialising, TL-B decoding) nests at most 1025 levels, whatever the input. -/
theorem unfold_defined (t : Table) (roots : List Nat) (hs : Sound t roots) :
    ∀ r ∈ roots, (Table.unfold t (maxDepth + 2) r).isSome := by
  intro r hr
  obtain ⟨hrows, hroots, ds, _, hrank⟩ := hs
  have hri := hroots r hr
  exact unfold_isSome_depth t hrows ds hrank (maxDepth + 2) r hri (by have := (hrank r hri).1; omega)

/-- Hashing a parse result never panics: for every root and every hash function `H`, the model of `Cell.Hash()`
(`newImmutableCell` with its per-level loop, `Hash(level)`, `Depth(level)` incl. the slices into pruned-branch data)
returns a hash or `ErrDepthIsTooBig`. (False before `fix: length checks in deserializeCellData`: a pruned branch
shorter than its level mask demands made the parent's hash slice out of range.) -/
theorem hash_no_panic (bs : Bytes) (h : bs.length < two63) (t : Table) (roots : List Nat)
    (hp : parseBoc bs = .ok (t, roots)) (H : List UInt8 → List UInt8) :
    ∀ r ∈ roots, ∀ fuel c, Table.unfold t fuel r = some c → ∀ p, c.reprHash H ≠ .panic p := by
  intro r _ fuel c hc
  have hs := parse_sound bs h t roots hp
  exact reprHash_no_panic H c (unfold_treeOK t hs.1 fuel r c hc)

/-- A parse result is a valid layout in the sense of C01 (`parse_emit`, `order_valid`): sound, and every exotic cell
carries its type in its first data byte (the reader keeps the data canonically: re-encoding the bits it keeps gives
back the bytes it read, `setTopUpped_inv`). -/
theorem parse_valid (bs : Bytes) (h : bs.length < two63) (t : Table) (roots : List Nat)
    (hp : parseBoc bs = .ok (t, roots)) : ValidLayout t roots := by
  have hs := parseBocM_spec bs h
  unfold parseBoc M.run at hp
  unfold Spec at hs
  rcases hx : parseBocM bs 0 with ⟨o, s'⟩
  rw [hx] at hs hp
  simp only at hp
  subst hp
  exact ⟨hs.1.1, hs.1.2⟩

/-- Re-serialising a parse result never fails and never panics: for every parsed `(t, roots)`, every key identifying
its cells and all 2³ option sets, the model of the Go writer (importCell / reorderCells / revisit, then the header
arithmetic) returns bytes, and its cell order is valid (composition of `parse_valid` with C01 `order_valid`). With one
root and fewer than 2²⁴ cells those bytes parse back to the same cells (`C01.roundtrip_go_writer_single`). -/
theorem reserialize_ok {K : Type} [BEq K] [Hashable K] [LawfulBEq K] (bs : Bytes) (h : bs.length < two63)
    (t : Table) (roots : List Nat) (hp : parseBoc bs = .ok (t, roots)) (key : Nat → Option K)
    (hk : Order.KeyInjOn t key) (idx crc cache : Bool) :
    ∃ o bs', Order.order t key roots = .ok o ∧ Order.serializeBocModel t key roots idx crc cache = .ok bs' ∧
      Order.OrderValid t roots o := by
  obtain ⟨o, ho, hval⟩ := Order.orderWith_valid t roots key Order.goSpecial (parse_valid bs h t roots hp) hk
  have hord : Order.order t key roots = .ok o := ho
  exact ⟨o, Writer.serializeOrdered o.table o.roots idx crc cache o.cacheBits, hord,
    by simp only [Order.serializeBocModel, hord], hval⟩

/-- Printing is bounded by the visit budget: `Cell.ToString()` of any root of a parse result (model `Str.toStringOut`
of `toStringImpl` with its `*iterationsLimit`) emits at most 4 · 65536 + 1 lines — also for a DAG whose unfolding has
millions of nodes. (Every expanded cell costs one unit of the 65536 budget and prints at most 4 children; the bound
65536 + 1 does not hold: children reached with an exhausted budget are still printed, one line each.) -/
theorem toString_bounded (bs : Bytes) (h : bs.length < two63) (t : Table) (roots : List Nat)
    (hp : parseBoc bs = .ok (t, roots)) (fuel r : Nat) :
    (Str.toStringOut t fuel r).lines ≤ 4 * Str.bocSizeLimit + 1 := by
  have hs := parse_sound bs h t roots hp
  apply Str.toString_lines_le
  intro i
  by_cases hi : i < t.size
  · rw [getElem!_pos t i hi]; exact (hs.1 i hi).refs_le
  · rw [getElem!_neg t i hi]; exact Nat.zero_le _

/-- The theorems are not vacuous (a test on one literal, not a proof of anything general): a two-cell bag of cells
whose root refers twice to the same child is accepted, with two rows and root 0. -/
example : (match parseBoc [0xb5, 0xee, 0x9c, 0x72, 0x01, 0x01, 0x02, 0x01, 0x00, 0x06, 0x00,
    0x02, 0x00, 0x01, 0x01, 0x00, 0x00] with
    | .ok (t, roots) => t.size == 2 && roots == [0]
    | _ => false) = true := by decide +kernel

/-- tie (X4, regenerated from boc/boc.go): one iteration of the loop of `readNBytesUIntFromArray`
(`res *= 256; res += uint(arr[i])` on `uint`), as REGENERATED on every run, is the step of the model `readN`. -/
theorem gen_readNBytesStep (res : Nat) (b : UInt8) (h : res < 2^64) :
    (Gen.BocHeader.readNBytesStep (BitVec.ofNat 64 res) b.toBitVec).toNat = (res * 256 + b.toNat) % two64 :=
  GenTies.gen_readNBytesStep res b h

/-- tie (X4, regenerated from boc/boc.go): the model `readN n bs res` of `readNBytesUIntFromArray`, when the `n` bytes
are there, returns the fold of the REGENERATED loop body over `bs[0:n]`. -/
theorem gen_readN (n : Nat) (bs : Bytes) (res : Nat) (h : res < 2^64) (hl : n ≤ bs.length) :
    readN n bs res =
      .ok ((bs.take n).foldl (fun r b => Gen.BocHeader.readNBytesStep r b.toBitVec) (BitVec.ofNat 64 res)).toNat :=
  GenTies.gen_readN n bs res h hl

/-- tie (X4, regenerated from boc/boc.go): the decoding of the flag byte after the generic magic in `parseBocHeader`
(`hasIdx`, `hashCrc32`, `hasCacheBits`, `flags`, `sizeBytes`), as REGENERATED on every run, is the model's
`headerKind magicGeneric`, for all 256 bytes. -/
theorem gen_flagByte (fb : UInt8) : headerKind magicGeneric fb =
    some ⟨(Gen.BocHeader.flagByte fb.toBitVec).1, (Gen.BocHeader.flagByte fb.toBitVec).2.1,
      (Gen.BocHeader.flagByte fb.toBitVec).2.2.1, (Gen.BocHeader.flagByte fb.toBitVec).2.2.2.1.toNat,
      (Gen.BocHeader.flagByte fb.toBitVec).2.2.2.2.toNat, true⟩ :=
  GenTies.gen_flagByte fb

end Tongo.C07
