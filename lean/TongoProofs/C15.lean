import TongoProofs.Lemmas.Wallet
import TongoProofs.Lemmas.CellOrdSpec
import TongoGen.WalletV5Id
import TongoProofs.Lemmas.GenTiesB
import TongoGen.WalletInts
import TongoProofs.Lemmas.GenTiesWallet
import TongoModel.WalletSeed
import TongoProofs.Lemmas.WalletSendMsg
import TongoProofs.Lemmas.CellRead
/-! Property C15 — wallet address and send parameters follow from key, version and chain state.

Model: `TongoModel/Wallet.lean` (data layouts, state-init, address), `TongoModel/WalletSendMsg.lean` (the three address
APIs with their option lists; SendV2/RawSendV2 building the actual external message with the C14 builders),
`TongoModel/WalletSend.lean` (NextMessageParams, the confirmation loop, and the projection of the send path to
destination / init flag / seqno, against a scripted blockchain interface and clock readings), hash of level-0 cells
`Cell.hashO` (`TongoModel/CellOrd.lean`). The hash function `H` is a parameter; collision-freedom is always a local
hypothesis about the two representations being compared. Property theorems only. -/
namespace Tongo.C15
open Tongo Tongo.Wallet Tongo.Bits

variable (H : List UInt8 → List UInt8)

/-! ### the address is the representation hash of the initial state -/

/-- The address is `(int32 workchain, hash)` where the hash is the representation hash of the state-init cell
`00110 ^code ^data` (no split-depth, no special, code and data present as references, empty library), i.e.
`H(02 01 34 ++ depth(code) depth(data) ++ hash(code) hash(data))`, and the data cell is the ref-less cell holding
`dataBits` (seqno 0, the public key and the version's sub-wallet / wallet id, see `Wallet.dataBitsSeq`), whose hash is
`H(d1 d2 ++ tagged data)`. The only failure is Go's depth limit on the code cell. -/
theorem address_is_stateinit_hash (code : Cell) (v : Version) (pk : List UInt8) (o : Opts) :
    address H code v pk o =
        (if (stateInitCell code (dataCell v pk o)).depthO ≤ 1024
         then .ok { workchain := toI32 o.wc, hash := (stateInitCell code (dataCell v pk o)).hashO H }
         else .err "depth is too big")
    ∧ (stateInitCell code (dataCell v pk o)).hashO H =
        H ([2, 1, 0x34] ++ (be16 code.depthO ++ be16 (dataCell v pk o).depthO) ++
            (code.hashO H ++ (dataCell v pk o).hashO H))
    ∧ (dataCell v pk o).hashO H = H (reprNoRefs 0 (dataBitsSeq v 0 pk o) 0 0) := by
  refine ⟨?_, ?_, ?_⟩
  · unfold address walletStateInit Cell.hashO? maxDepth
    split <;> rfl
  · rw [Cell.hashO_eq_H_reprO, stateInit_reprO, stateInit_prefix]
  · rw [Cell.hashO_eq_H_reprO]
    unfold dataCell dataBits
    rw [Cell.reprO_leaf]

/-- The hash used by this model (`Cell.hashO`, the TON definition for level-0 cells) is the hash of the shared
line-by-line model of boc/immutable_cell.go (`Cell.reprHash`, property C02) on every tree of level-0, non-pruned cells
within Go's depth limit — in particular on the wallet state-init whenever the version's code is such a tree (all
published codes are: ordinary cells, and one library cell for v5 beta). -/
theorem hash_model_is_cell_hash (c : Cell) (hl : c.lvl0 = true) (hd : c.depthO ≤ maxDepth) :
    Cell.reprHash H c = c.hashO? H
    ∧ ∀ (code : Cell) (v : Version) (pk : List UInt8) (o : Opts), code.lvl0 = true → (walletStateInit code v pk o).lvl0 = true := by
  refine ⟨?_, ?_⟩
  · rw [Cell.reprHash_lvl0 H c hl hd]
    simp [Cell.hashO?, hd]
  · intro code v pk o hc
    simp [walletStateInit, stateInitCell, dataCell, Cell.ordinary, Cell.lvl0, Cell.lvl0List, hc, tyPruned]

/-- The three ways to obtain a wallet's address agree, as three different computations:
1. `wallet.New(key, ver, _, opts…).GetAddress()` with the CALLER's option list — any order, any repetitions (Go applies
   the options in order, the last setting of each kind wins: `applyOptions_eq`);
2. `wallet.GenerateWalletAddress(key, ver, net, workchain, sub)`, which builds its own list `WithWorkchain(workchain)`
   [, `WithNetworkGlobalID`] [, `WithSubWalletID`];
3. `wallet.GenerateStateInit(key, ver, net, workchain, sub)`, marshalled and hashed by the caller and paired with
   `int32(workchain)`.
(1) = (2) when (2) is given the effective settings of the caller's list — the workchain defaulting to 0 when the list
has no `WithWorkchain`, although (2) then sets the option explicitly and (1) leaves the pointer nil —, and (2) = (3)
for every supported version; for an unsupported one all three fail (`GenerateStateInit` only after the repair: it used
to return the zero state init and NO error, `generate_state_init_swallowed_error_before_fix`). -/
theorem address_same_all_apis (code : Cell) (ver : Nat) (pk : List UInt8) (opts : List OptSetter)
    (net : Option Int) (wc : Int) (sub : Option Nat) :
    apiNewGetAddress H code ver pk opts =
        apiGenerateWalletAddress H code ver pk (lastNet opts) ((lastWorkchain opts).getD 0) (lastSubWallet opts)
    ∧ (∀ v, Version.ofGoIndex? ver = some v →
        apiGenerateWalletAddress H code ver pk net wc sub = apiStateInitAddress H code ver pk net wc sub)
    ∧ (Version.ofGoIndex? ver = none →
        apiNewGetAddress H code ver pk opts = .err "unsupported wallet version" ∧
        apiGenerateWalletAddress H code ver pk net wc sub = .err "unsupported wallet version" ∧
        apiGenerateStateInit code ver pk net wc sub = .err "unsupported wallet version") := by
  refine ⟨?_, ?_, ?_⟩
  · unfold apiNewGetAddress newGetAddress apiGenerateWalletAddress
    cases Version.ofGoIndex? ver with
    | none => rfl
    | some v =>
      simp only []
      rw [applyOptions_eq, applyOptions_generated, address_wc]
      rfl
  · intro v hv
    unfold apiGenerateWalletAddress apiStateInitAddress apiGenerateStateInit
    rw [hv]
    simp only [applyOptions_generated]
    rfl
  · intro hn
    unfold apiNewGetAddress newGetAddress apiGenerateWalletAddress apiGenerateStateInit
    rw [hn]
    exact ⟨rfl, rfl, rfl⟩

/-- Before the repair `GenerateStateInit` swallowed the error of `newWallet`: for an unsupported version (e.g. 7, the
lockup wallet) it returned the empty `StateInit` with a nil error, whose hash a caller would take for an address, while
`New` and `GenerateWalletAddress` refuse the same version. -/
theorem generate_state_init_swallowed_error_before_fix (code : Cell) (pk : List UInt8) :
    apiGenerateStateInitV0 code 7 pk none 0 none = .ok (.ordinary [false, false, false, false, false] [])
    ∧ apiGenerateWalletAddress H code 7 pk none 0 none = .err "unsupported wallet version"
    ∧ apiGenerateStateInit code 7 pk none 0 none = .err "unsupported wallet version" :=
  ⟨rfl, rfl, rfl⟩

/-- The order of the caller's options does not matter and a repeated option is overridden by its last occurrence:
two option lists with the same last settings give the same wallet. -/
theorem options_order_irrelevant (code : Cell) (ver : Nat) (pk : List UInt8) (l l' : List OptSetter)
    (hw : lastWorkchain l = lastWorkchain l') (hs : lastSubWallet l = lastSubWallet l') (hn : lastNet l = lastNet l') :
    apiNewGetAddress H code ver pk l = apiNewGetAddress H code ver pk l' := by
  unfold apiNewGetAddress
  rw [applyOptions_eq, applyOptions_eq, hw, hs, hn]

/-! ### different parameters give different addresses -/

/-- Two wallets with the same address (no collision between their two state-init representations): same workchain,
same code hash, same data-cell hash. Since the twelve published code cells have pairwise distinct hashes (computed by
the check on the real cells), equal addresses force the same version. -/
theorem address_injective (hlen : ∀ x, (H x).length = 32) (code code' : Cell) (v v' : Version) (pk pk' : List UInt8)
    (o o' : Opts) (a : Address)
    (h1 : address H code v pk o = .ok a) (h2 : address H code' v' pk' o' = .ok a)
    (cf : CollisionFree H [(walletStateInit code v pk o).reprO H, (walletStateInit code' v' pk' o').reprO H]) :
    toI32 o.wc = toI32 o'.wc ∧ code.hashO H = code'.hashO H ∧ (dataCell v pk o).hashO H = (dataCell v' pk' o').hashO H := by
  unfold address Cell.hashO? at h1 h2
  split at h1 <;> simp only [bind, Outcome.bind, pure, reduceCtorEq, Outcome.ok.injEq] at h1
  split at h2 <;> simp only [bind, Outcome.bind, pure, reduceCtorEq, Outcome.ok.injEq] at h2
  subst h1
  simp only [Address.mk.injEq] at h2
  obtain ⟨hw, hh⟩ := h2
  have := stateInit_hash_inj H hlen code' (dataCell v' pk' o') code (dataCell v pk o)
    (by intro x hx y hy; exact cf x (by simp at hx ⊢; tauto) y (by simp at hy ⊢; tauto)) hh
  exact ⟨hw.symm, this.1.symm, this.2.symm⟩

/-- Same layout family (implied by the same version), 32-byte keys, uint32 sub-wallet ids: equal data-cell hashes
(no collision between the two data representations) mean the same public key and the same sub-wallet / wallet id
fields. -/
theorem data_injective {v v' : Version} (hf : v.family = v'.family) {pk pk' : List UInt8} (hpk : pk.length = 32)
    (hpk' : pk'.length = 32) {o o' : Opts} (wf : o.WF) (wf' : o'.WF)
    (cf : CollisionFree H [(dataCell v pk o).reprO H, (dataCell v' pk' o').reprO H])
    (h : (dataCell v pk o).hashO H = (dataCell v' pk' o').hashO H) :
    pk = pk' ∧ identFields v o = identFields v' o' := by
  rw [Cell.hashO_eq_H_reprO, Cell.hashO_eq_H_reprO] at h
  have hr := cf.pair h
  have hb : dataBits v pk o = dataBits v' pk' o' :=
    Cell.leaf_repr_inj H (dataBits_length_eq_of_family hf pk pk' o o') hr
  have hsub : ∀ (o : Opts), o.WF → o.subDefault < 2 ^ 32 := by
    intro o wf
    unfold Opts.subDefault
    cases hs : o.subWallet with
    | none => exact toU32_lt _
    | some s => exact wf s hs
  have hsw : ∀ (o : Opts), o.WF → o.subWallet.getD 0 < 2 ^ 32 := by
    intro o wf
    cases hs : o.subWallet with
    | none => simp
    | some s => exact wf s hs
  have hctx : ∀ (o : Opts), walletIdV5R1 o < 2 ^ 32 := by
    intro o
    unfold walletIdV5R1
    apply Nat.xor_lt_two_pow
    · unfold genContextID
      have := bitsToNat_lt ([true] ++ natToBits 8 (toU32 o.wc) ++ natToBits 8 0 ++ natToBits 15 0)
      simpa using this
    · exact toU32_lt _
  unfold dataBits dataBitsSeq at hb
  unfold identFields
  rw [← hf] at hb ⊢
  cases hfam : v.family <;> rw [hfam] at hb <;>
    simp only [List.append_assoc, List.cons_append, List.nil_append, List.cons.injEq, true_and] at hb
  · -- v1v2
    have h1 := List.append_inj hb (by simp)
    exact ⟨pkBits_inj hpk hpk' h1.2, rfl⟩
  · -- v3
    have h1 := List.append_inj hb (by simp)
    have h2 := List.append_inj h1.2 (by simp)
    exact ⟨pkBits_inj hpk hpk' h2.2, by rw [natToBits_inj (hsub o wf) (hsub o' wf') h2.1]⟩
  · -- v4
    have h1 := List.append_inj hb (by simp)
    have h2 := List.append_inj h1.2 (by simp)
    have h3 := List.append_inj h2.2 (by simp)
    exact ⟨pkBits_inj hpk hpk' h3.1, by rw [natToBits_inj (hsub o wf) (hsub o' wf') h2.1]⟩
  · -- v5beta
    have h1 := List.append_inj hb (by simp)
    have h2 := List.append_inj h1.2 (by simp)
    have h3 := List.append_inj h2.2 (by simp)
    have h4 := List.append_inj h3.2 (by simp)
    have h5 := List.append_inj h4.2 (by simp)
    have h6 := List.append_inj h5.2 (by simp)
    refine ⟨pkBits_inj hpk hpk' h6.1, ?_⟩
    rw [natToBits_inj (toU32_lt _) (toU32_lt _) h2.1, natToBits_inj (toU8_lt _) (toU8_lt _) h3.1,
      natToBits_inj (hsw o wf) (hsw o' wf') h5.1]
  · -- v5r1
    have h1 := List.append_inj hb (by simp)
    have h2 := List.append_inj h1.2 (by simp)
    have h3 := List.append_inj h2.2 (by simp)
    exact ⟨pkBits_inj hpk hpk' h3.1, by rw [natToBits_inj (hctx o) (hctx o') h2.1]⟩
  · -- highload
    have h1 := List.append_inj hb (by simp)
    have h2 := List.append_inj h1.2 (by simp)
    have h3 := List.append_inj h2.2 (by simp)
    exact ⟨pkBits_inj hpk hpk' h3.1, by rw [natToBits_inj (hsub o wf) (hsub o' wf') h1.1]⟩

/-- Workchains that fit the `int32` of an `AccountID` are kept: different workchains give different addresses. -/
theorem workchain_injective {w w' : Int} (hw : -2147483648 ≤ w ∧ w < 2147483648) (hw' : -2147483648 ≤ w' ∧ w' < 2147483648)
    (h : toI32 w = toI32 w') : w = w' := by
  unfold toI32 at h; omega

/-- v5r1: the wallet id is `context(workchain) XOR uint32(network id)` where an absent network option counts as the
mainnet id −239; for a fixed workchain it is injective in that effective network id (an `int32`) — so `none` and
`some (−239)` coincide (`address_exceptions` 6) and nothing else does. -/
theorem v5_wallet_id_injective_in_net (o o' : Opts) (hwc : o.wc = o'.wc)
    (hn : -2147483648 ≤ o.netOr ∧ o.netOr < 2147483648) (hn' : -2147483648 ≤ o'.netOr ∧ o'.netOr < 2147483648)
    (h : walletIdV5R1 o = walletIdV5R1 o') :
    walletIdV5R1 o = genContextID o.wc ^^^ toU32 o.netOr ∧ o.netOr = o'.netOr := by
  refine ⟨rfl, ?_⟩
  simp only [walletIdV5R1, hwc] at h
  have hx := congrArg (genContextID o'.wc ^^^ ·) h
  simp only [← Nat.xor_assoc, Nat.xor_self, Nat.zero_xor] at hx
  unfold toU32 at hx
  omega

/-- v3, v4, highload: without an explicit sub-wallet id the id is `uint32(698983191 + workchain)`. -/
theorem default_subwallet (wc : Option Int) (net : Option Int) :
    ({ workchain := wc, subWallet := none, net := net } : Opts).subDefault = toU32 (698983191 + wc.getD 0) := rfl

/-- **Different parameters, different addresses — composed end to end.** Let `codeOf` give each version its code cell, with
pairwise distinct code hashes (true of the twelve published cells: computed on the real cells by the check, oracle
`go.codes.distinct`). Two wallets (32-byte keys, `uint32` sub-wallet ids) with the SAME address — no collision of `H`
between their two state-init representations nor between their two data-cell representations — have the same version,
the same public key, the same `int32` workchain and the same identifying data fields (`identFields`: the sub-wallet id
for v3 / v4 / highload; network id, workchain byte and sub-wallet id for v5 beta; the wallet id for v5r1; nothing for
v1 / v2). Which option changes are NOT reflected in those fields — and therefore do NOT change the address — is listed
exhaustively in `address_exceptions`. -/
theorem address_distinct (hlen : ∀ x, (H x).length = 32) (codeOf : Version → Cell)
    (hcodes : ∀ v v', (codeOf v).hashO H = (codeOf v').hashO H → v = v')
    (v v' : Version) (pk pk' : List UInt8) (hpk : pk.length = 32) (hpk' : pk'.length = 32) (o o' : Opts) (wf : o.WF) (wf' : o'.WF)
    (a : Address) (h1 : address H (codeOf v) v pk o = .ok a) (h2 : address H (codeOf v') v' pk' o' = .ok a)
    (cfS : CollisionFree H [(walletStateInit (codeOf v) v pk o).reprO H, (walletStateInit (codeOf v') v' pk' o').reprO H])
    (cfD : CollisionFree H [(dataCell v pk o).reprO H, (dataCell v' pk' o').reprO H]) :
    v = v' ∧ pk = pk' ∧ toI32 o.wc = toI32 o'.wc ∧ identFields v o = identFields v' o' := by
  obtain ⟨hwc, hcode, hdata⟩ := address_injective H hlen (codeOf v) (codeOf v') v v' pk pk' o o' a h1 h2 cfS
  have hv := hcodes v v' hcode
  subst hv
  obtain ⟨hk, hid⟩ := data_injective H rfl hpk hpk' wf wf' cfD hdata
  exact ⟨rfl, hk, hwc, hid⟩

/-- The hashes of the twelve PUBLISHED code cells (`publishedCodeHash`, the table the library's code constants are compared
with on every run) are pairwise distinct: the hypothesis `hcodes` of `address_distinct` holds of the published codes. -/
theorem code_hashes_pairwise_distinct : ∀ v v' : Version, publishedCodeHash v = publishedCodeHash v' → v = v' := by
  intro v v'
  cases v <;> cases v' <;> first | (intro; rfl) | (intro h; exact absurd h (by decide))

/-- `hcodes` instantiated: any assignment of code cells whose hashes are the published ones (what op `w.codehash` checks
of the library's constants) has pairwise distinct code hashes. -/
theorem code_hash_table_ok (codeOf : Version → Cell) (beNatH : List UInt8 → Nat) (hinj : ∀ a b, beNatH a = beNatH b → a = b)
    (hpub : ∀ v, beNatH ((codeOf v).hashO H) = publishedCodeHash v) :
    ∀ v v', (codeOf v).hashO H = (codeOf v').hashO H → v = v' := by
  intro v v' h
  apply code_hashes_pairwise_distinct
  rw [← hpub v, ← hpub v', h]

/-- The contrapositive, as the property states it: wallets that differ in version, public key, `int32` workchain or in
an identifying data field have different addresses (under the same hypotheses). -/
theorem different_wallets_different_addresses (hlen : ∀ x, (H x).length = 32) (codeOf : Version → Cell)
    (hcodes : ∀ v v', (codeOf v).hashO H = (codeOf v').hashO H → v = v')
    (v v' : Version) (pk pk' : List UInt8) (hpk : pk.length = 32) (hpk' : pk'.length = 32) (o o' : Opts) (wf : o.WF) (wf' : o'.WF)
    (a a' : Address) (h1 : address H (codeOf v) v pk o = .ok a) (h2 : address H (codeOf v') v' pk' o' = .ok a')
    (cfS : CollisionFree H [(walletStateInit (codeOf v) v pk o).reprO H, (walletStateInit (codeOf v') v' pk' o').reprO H])
    (cfD : CollisionFree H [(dataCell v pk o).reprO H, (dataCell v' pk' o').reprO H])
    (hne : v ≠ v' ∨ pk ≠ pk' ∨ toI32 o.wc ≠ toI32 o'.wc ∨ identFields v o ≠ identFields v' o') : a ≠ a' := by
  intro he
  subst he
  obtain ⟨e1, e2, e3, e4⟩ := address_distinct H hlen codeOf hcodes v v' pk pk' hpk hpk' o o' wf wf' a h1 h2 cfS cfD
  rcases hne with h | h | h | h
  · exact h e1
  · exact h e2
  · exact h e3
  · exact h e4

/-- **The exceptions, as explicit witnesses**: option changes that do NOT change the address (they are not reflected in
the state init), for every code cell, key and hash function.
1. v5r1 ignores the sub-wallet id altogether.
2. v1 / v2 ignore the sub-wallet id and the network id.
3. v3 / v4 / highload ignore the network id.
4. v3 / v4 / highload: no sub-wallet id = the explicit default `uint32(698983191 + workchain)`.
5. v5 beta: no sub-wallet id = the explicit 0.
6. v5 (r1 and beta): no network id = the explicit mainnet id −239.
7. every version: no workchain = the explicit workchain 0.
8. every version: workchains that agree modulo 2³² (the `int` → `int32` conversion of `AccountID.Workchain`, and every
   use of the workchain in the data: `uint32`, `uint8`) — e.g. 0 and 2³².
Not an exception, but worth stating: the v5r1 wallet id (and the v5 beta workchain byte) depends on the workchain only
modulo 256, so workchains 0 and 256 give the same DATA cell; their addresses still differ, in the workchain field (9). -/
theorem address_exceptions (code : Cell) (pk : List UInt8) (wc : Option Int) (sub sub' : Option Nat) (net net' : Option Int) :
    address H code .v5r1 pk { workchain := wc, subWallet := sub, net := net } =
      address H code .v5r1 pk { workchain := wc, subWallet := sub', net := net }
    ∧ (∀ v, v.family = .v1v2 → address H code v pk { workchain := wc, subWallet := sub, net := net } =
        address H code v pk { workchain := wc, subWallet := sub', net := net' })
    ∧ (∀ v, v.family = .v3 ∨ v.family = .v4 ∨ v.family = .highload →
        address H code v pk { workchain := wc, subWallet := sub, net := net } =
        address H code v pk { workchain := wc, subWallet := sub, net := net' })
    ∧ (∀ v, v.family = .v3 ∨ v.family = .v4 ∨ v.family = .highload →
        address H code v pk { workchain := wc, subWallet := none, net := net } =
        address H code v pk { workchain := wc, subWallet := some (toU32 (698983191 + wc.getD 0)), net := net })
    ∧ address H code .v5beta pk { workchain := wc, subWallet := none, net := net } =
        address H code .v5beta pk { workchain := wc, subWallet := some 0, net := net }
    ∧ (∀ v, v.family = .v5r1 ∨ v.family = .v5beta →
        address H code v pk { workchain := wc, subWallet := sub, net := none } =
        address H code v pk { workchain := wc, subWallet := sub, net := some (-239) })
    ∧ (∀ v, address H code v pk { workchain := none, subWallet := sub, net := net } =
        address H code v pk { workchain := some 0, subWallet := sub, net := net })
    ∧ (∀ v (w : Int), address H code v pk { workchain := some w, subWallet := sub, net := net } =
        address H code v pk { workchain := some (w + 4294967296), subWallet := sub, net := net })
    ∧ (∀ (w : Int), dataCell .v5r1 pk { workchain := some w, subWallet := sub, net := net } =
          dataCell .v5r1 pk { workchain := some (w + 256), subWallet := sub, net := net } ∧
        (-2147483648 ≤ w ∧ w + 256 < 2147483648 →
          toI32 ({ workchain := some w, subWallet := sub, net := net } : Opts).wc ≠
          toI32 ({ workchain := some (w + 256), subWallet := sub, net := net } : Opts).wc)) := by
  have hu32 : ∀ w : Int, toU32 (w + 4294967296) = toU32 w := by intro w; unfold toU32; congr 1; omega
  have hu32' : ∀ k w : Int, toU32 (k + (w + 4294967296)) = toU32 (k + w) := by intro k w; unfold toU32; congr 1; omega
  have hu8 : ∀ w : Int, toU8 (w + 4294967296) = toU8 w := by intro w; unfold toU8; congr 1; omega
  have hi32 : ∀ w : Int, toI32 (w + 4294967296) = toI32 w := by intro w; unfold toI32; omega
  have hctx : ∀ w : Int, genContextID (w + 4294967296) = genContextID w := by intro w; unfold genContextID; rw [hu32]
  have hb8 : ∀ a b : Nat, a % 256 = b % 256 → natToBits 8 a = natToBits 8 b := by
    intro a b h
    rw [← natToBits_mod 8 a, ← natToBits_mod 8 b]
    simp [h]
  have hctx256 : ∀ w : Int, genContextID (w + 256) = genContextID w := by
    intro w
    unfold genContextID
    rw [hb8 (toU32 (w + 256)) (toU32 w) (by unfold toU32; omega)]
  refine ⟨rfl, ?_, ?_, ?_, rfl, ?_, ?_, ?_, ?_⟩
  · intro v hf
    simp only [address, walletStateInit, dataCell, dataBits, dataBitsSeq, hf, Opts.wc]
  · intro v hf
    rcases hf with hf | hf | hf <;>
      simp only [address, walletStateInit, dataCell, dataBits, dataBitsSeq, hf, Opts.wc, Opts.subDefault]
  · intro v hf
    rcases hf with hf | hf | hf <;>
      simp [address, walletStateInit, dataCell, dataBits, dataBitsSeq, hf, Opts.subDefault, Opts.wc, defaultSubWallet]
  · intro v hf
    rcases hf with hf | hf <;>
      simp [address, walletStateInit, dataCell, dataBits, dataBitsSeq, hf, walletIdV5R1, Opts.netOr, Opts.wc, mainnetGlobalID]
  · intro v
    simp only [address, walletStateInit, dataCell, dataBits, dataBitsSeq, Opts.subDefault, Opts.wc, Opts.netOr,
      walletIdV5R1, Option.getD]
  · intro v w
    simp only [address, walletStateInit, dataCell, dataBits, dataBitsSeq, Opts.subDefault, Opts.wc, Opts.netOr,
      walletIdV5R1, Option.getD, hi32, hu8, hctx, hu32']
  · intro w
    refine ⟨?_, ?_⟩
    · simp only [dataCell, dataBits, dataBitsSeq, Version.family, walletIdV5R1, Opts.wc, Opts.netOr, Option.getD, hctx256]
    · intro hw
      simp only [Opts.wc, Option.getD]
      unfold toI32; omega

/-! ### send parameters -/

/-- Active account whose data cell has the wallet's layout with stored seqno `s`: the seqno used is `s` (v5 beta
stores 33 bits and the code converts with `uint32(…)`) and no state-init is attached. -/
theorem send_params_active (v : Version) (hv : v.family ≠ .v1v2) (hh : v.family ≠ .highload) (s : Nat) (hs : s < 2 ^ 32)
    (pk : List UInt8) (o : Opts) :
    nextMessageParams v (.active (.ordinary (dataBitsSeq v s pk o) [])) = .ok { seqno := s, init := false } := by
  have rd : ∀ (n : Nat) (x : Nat) (rest : List Bool) (refs : List Cell), x < 2 ^ n →
      CellR.readUint { bits := natToBits n x ++ rest, refs := refs } n = .ok (x, { bits := rest, refs := refs }) := by
    intro n x rest refs hx
    simp [CellR.readUint, CellR.readBits, bind, Outcome.bind, pure, bitsToNat_natToBits, Nat.mod_eq_of_lt hx]
  have rb : ∀ (l rest : List Bool) (refs : List Cell) (n : Nat), l.length = n →
      CellR.readBits { bits := l ++ rest, refs := refs } n = .ok (l, { bits := rest, refs := refs }) := by
    intro l rest refs n hl
    subst hl
    simp [CellR.readBits]
  unfold nextMessageParams decodeDataSeqno dataBitsSeq
  cases hfam : v.family <;> simp only [hfam, ne_eq, not_true_eq_false] at hv hh ⊢
  · -- v3
    simp only [Cell.ordinary, Cell.ty, tyLibrary, CellR.ofCell, Cell.bits, Cell.refs, List.append_assoc,
      bind, Outcome.bind, pure]
    rw [if_neg (by decide)]
    rw [rd 32 s _ _ hs]; simp only []
    have := rd 32 (o.subDefault % 2 ^ 32) (pkBits pk) [] (Nat.mod_lt _ (by decide))
    rw [natToBits_mod] at this
    rw [this]; simp only []
    have := rb (pkBits pk) [] [] 256 (by simp)
    rw [List.append_nil] at this
    rw [this]
  · -- v4
    simp only [Cell.ordinary, Cell.ty, tyLibrary, CellR.ofCell, Cell.bits, Cell.refs, List.append_assoc,
      bind, Outcome.bind, pure]
    rw [if_neg (by decide)]
    rw [rd 32 s _ _ hs]; simp only []
    have := rd 32 (o.subDefault % 2 ^ 32) (pkBits pk ++ [false]) [] (Nat.mod_lt _ (by decide))
    rw [natToBits_mod] at this
    rw [this]; simp only []
    rw [rb (pkBits pk) [false] [] 256 (by simp)]
    simp [readHashmapE, CellR.readBit, bind, Outcome.bind, pure]
  · -- v5beta
    simp only [Cell.ordinary, Cell.ty, tyLibrary, CellR.ofCell, Cell.bits, Cell.refs, List.append_assoc,
      bind, Outcome.bind, pure]
    rw [if_neg (by decide)]
    rw [rd 33 s _ _ (by omega)]; simp only []
    have := rb (natToBits 32 (toU32 o.netOr) ++ (natToBits 8 (toU8 o.wc) ++ (natToBits 8 0 ++ natToBits 32 (o.subWallet.getD 0))))
      (pkBits pk ++ [false]) [] 80 (by simp)
    simp only [List.append_assoc] at this
    rw [this]; simp only []
    rw [rb (pkBits pk) [false] [] 256 (by simp)]
    simp [readHashmapE, CellR.readBit, bind, Outcome.bind, pure]
    omega
  · -- v5r1
    simp only [Cell.ordinary, Cell.ty, tyLibrary, CellR.ofCell, Cell.bits, Cell.refs, List.append_assoc,
      bind, Outcome.bind, pure]
    rw [if_neg (by decide)]
    simp only [List.cons_append, List.nil_append, CellR.readBit]
    rw [rd 32 s _ _ hs]; simp only []
    have := rd 32 (walletIdV5R1 o % 2 ^ 32) (pkBits pk ++ [false]) [] (Nat.mod_lt _ (by decide))
    rw [natToBits_mod] at this
    rw [this]; simp only []
    rw [rb (pkBits pk) [false] [] 256 (by simp)]
    simp [readHashmapE, CellR.readBit, bind, Outcome.bind, pure]

/-- The same for ANY contents of the other fields of an active wallet's data: any 32-bit sub-wallet / wallet-id field
(80-bit id for v5 beta), any 256 key bits, either value of v5r1's signature-allowed bit, and ANY plugin / extension
dictionary the version's dictionary decoder accepts (`tail`, `refs`: the bit `0`, or `1` with a reference to a
well-formed dictionary — the hypothesis is exactly that `HashmapE` decoding succeeds on what follows the key); for v3
any trailing bits and references at all (`DataV3` reads three fields and ignores the rest). The seqno read is the stored
one; v5 beta stores 33 bits and the code truncates with `uint32(…)`. When the dictionary does not decode, Go returns
the decoding error and nothing is sent (compared with the model on malformed dictionaries by the correspondence runs). -/
theorem send_params_active_any_fields (s : Nat) (mid key tail : List Bool) (refs : List Cell) (b : Bool)
    (hkey : key.length = 256) :
    (∀ v, v.family = .v3 → s < 2 ^ 32 → mid.length = 32 →
      nextMessageParams v (.active (.ordinary (natToBits 32 s ++ mid ++ key ++ tail) refs)) = .ok { seqno := s, init := false })
    ∧ (∀ v, v.family = .v4 → s < 2 ^ 32 → mid.length = 32 →
      (∃ x, readHashmapE (fun r => Outcome.ok r.remaining) 264 { bits := tail, refs := refs } = .ok x) →
      nextMessageParams v (.active (.ordinary (natToBits 32 s ++ mid ++ key ++ tail) refs)) = .ok { seqno := s, init := false })
    ∧ (∀ v, v.family = .v5r1 → s < 2 ^ 32 → mid.length = 32 →
      (∃ x, readHashmapE (fun r => (r.readUint 1).bind fun x => Outcome.ok x.1) 256 { bits := tail, refs := refs } = .ok x) →
      nextMessageParams v (.active (.ordinary ([b] ++ natToBits 32 s ++ mid ++ key ++ tail) refs)) = .ok { seqno := s, init := false })
    ∧ (∀ v, v.family = .v5beta → s < 2 ^ 33 → mid.length = 80 →
      (∃ x, readHashmapE (fun r => (r.readUint 8).bind fun x => Outcome.ok x.1) 256 { bits := tail, refs := refs } = .ok x) →
      nextMessageParams v (.active (.ordinary (natToBits 33 s ++ mid ++ key ++ tail) refs)) =
        .ok { seqno := s % 4294967296, init := false }) := by
  have rd : ∀ (n : Nat) (x : Nat) (rest : List Bool) (refs : List Cell), x < 2 ^ n →
      CellR.readUint { bits := natToBits n x ++ rest, refs := refs } n = .ok (x, { bits := rest, refs := refs }) := by
    intro n x rest refs hx
    simp [CellR.readUint, CellR.readBits, bind, Outcome.bind, pure, bitsToNat_natToBits, Nat.mod_eq_of_lt hx]
  have rb : ∀ (l rest : List Bool) (refs : List Cell) (n : Nat), l.length = n →
      CellR.readBits { bits := l ++ rest, refs := refs } n = .ok (l, { bits := rest, refs := refs }) := by
    intro l rest refs n hl
    subst hl
    simp [CellR.readBits]
  have ru : ∀ (l rest : List Bool) (refs : List Cell) (n : Nat), l.length = n →
      CellR.readUint { bits := l ++ rest, refs := refs } n = .ok (bitsToNat l, { bits := rest, refs := refs }) := by
    intro l rest refs n hl
    simp [CellR.readUint, rb l rest refs n hl, bind, Outcome.bind, pure]
  refine ⟨?_, ?_, ?_, ?_⟩
  · intro v hf hs hm
    unfold nextMessageParams decodeDataSeqno
    simp only [hf, Cell.ordinary, Cell.ty, tyLibrary, CellR.ofCell, Cell.bits, Cell.refs, List.append_assoc, bind, Outcome.bind, pure]
    rw [if_neg (by decide), rd 32 s _ _ hs]; simp only []
    rw [ru mid _ _ 32 hm]; simp only []
    rw [rb key _ _ 256 hkey]
  · intro v hf hs hm ⟨x, hx⟩
    unfold nextMessageParams decodeDataSeqno
    simp only [hf, Cell.ordinary, Cell.ty, tyLibrary, CellR.ofCell, Cell.bits, Cell.refs, List.append_assoc, bind, Outcome.bind, pure]
    rw [if_neg (by decide), rd 32 s _ _ hs]; simp only []
    rw [ru mid _ _ 32 hm]; simp only []
    rw [rb key _ _ 256 hkey]; simp only []
    rw [hx]
  · intro v hf hs hm ⟨x, hx⟩
    unfold nextMessageParams decodeDataSeqno
    simp only [hf, Cell.ordinary, Cell.ty, tyLibrary, CellR.ofCell, Cell.bits, Cell.refs, List.append_assoc, bind, Outcome.bind, pure]
    rw [if_neg (by decide)]
    simp only [List.cons_append, List.nil_append, CellR.readBit]
    rw [rd 32 s _ _ hs]; simp only []
    rw [ru mid _ _ 32 hm]; simp only []
    rw [rb key _ _ 256 hkey]; simp only []
    simp only [Outcome.bind] at hx
    rw [hx]
  · intro v hf hs hm ⟨x, hx⟩
    unfold nextMessageParams decodeDataSeqno
    simp only [hf, Cell.ordinary, Cell.ty, tyLibrary, CellR.ofCell, Cell.bits, Cell.refs, List.append_assoc, bind, Outcome.bind, pure]
    rw [if_neg (by decide), rd 33 s _ _ hs]; simp only []
    rw [rb mid _ _ 80 hm]; simp only []
    rw [rb key _ _ 256 hkey]; simp only []
    simp only [Outcome.bind] at hx
    rw [hx]

/-- non-vacuity of the dictionary premise of `send_params_active_any_fields`: the empty dictionary (bit 0) decodes -/
example : ∃ x, readHashmapE (fun r => Outcome.ok r.remaining) 264 { bits := [false], refs := [] } = .ok x :=
  ⟨([], { bits := [], refs := [] }), by simp [readHashmapE, CellR.readBit, bind, Outcome.bind, pure]⟩

/-- Non-existent or uninitialised account: seqno 0 and the wallet's own state-init attached (every version that can
send). A frozen account is treated the same way by v3/v4/v5; the highload wallet attaches the state-init exactly for
non-existent and uninitialised accounts and never reads a seqno. -/
theorem send_params_fresh (v : Version) (hv : v.family ≠ .v1v2) :
    nextMessageParams v .none = .ok { seqno := 0, init := true }
    ∧ nextMessageParams v .uninit = .ok { seqno := 0, init := true }
    ∧ (v.family = .highload → ∀ d, nextMessageParams v (.active d) = .ok { seqno := 0, init := false })
    ∧ (v.family = .highload → nextMessageParams v .frozen = .ok { seqno := 0, init := false }) := by
  unfold nextMessageParams
  cases hfam : v.family <;> simp [hfam] at hv ⊢

/-- The PROJECTION of the send path used by the poll / confirmation theorems (`WalletSend.lean`; `send_msg_refines_record`
ties it to the message-level model): its `Sent` record is filled from the wallet's own address and the parameters of
`NextMessageParams` by construction; nothing at all reaches the chain when the account state cannot be fetched, the
parameters cannot be derived, or there are too many messages. (The statement about the actual message is `dest_is_self`.) -/
theorem send_record_by_construction (loop : Nat → Nat → List Poll → Bool) (v : Version) (self : Address) (n : Nat) (sc : Script) (wait : Nat) :
    (∀ s, (sendV2 loop v self n sc wait).sent = some s →
        s.destHash = self.hash ∧ s.destWc = toI8 self.workchain ∧
        ∃ st np, sc.acct = .ok st ∧ nextMessageParams v st = .ok np ∧ s.seqno = np.seqno ∧ s.init = np.init ∧ n ≤ maxMessages v)
    ∧ (n > maxMessages v → (sendV2 loop v self n sc wait).sent = none ∧ ((sendV2 loop v self n sc wait).outcome.isOk = false)) := by
  constructor
  · intro s hs
    unfold sendV2 at hs
    cases ha : sc.acct with
    | err e => simp [ha] at hs
    | panic p => simp [ha] at hs
    | ok st =>
      simp only [ha] at hs
      cases hn : nextMessageParams v st with
      | err e => simp [hn] at hs
      | panic p => simp [hn] at hs
      | ok np =>
        simp only [hn] at hs
        unfold rawSendV2 at hs
        split at hs
        · simp at hs
        · rename_i hle
          have hres : s = { destWc := toI8 self.workchain, destHash := self.hash, init := np.init, seqno := np.seqno } := by
            cases hfam : v.family <;> simp only [hfam] at hs
            · simp at hs
            all_goals (repeat' split at hs) <;> simp_all
          subst hres
          exact ⟨rfl, rfl, st, np, rfl, hn, rfl, rfl, by omega⟩
  · intro hgt
    unfold sendV2
    cases sc.acct with
    | err e => simp [Outcome.isOk]
    | panic p => simp [Outcome.isOk]
    | ok st =>
      simp only
      cases nextMessageParams v st with
      | err e => simp [Outcome.isOk]
      | panic p => simp [Outcome.isOk]
      | ok np => simp [rawSendV2, hgt, Outcome.isOk]

/-- **What `SendMessage` receives**, as a theorem about the DECODED captured message: whenever `SendV2` hands a payload
`m` to `SendMessage`, the account state was fetched, `NextMessageParams` gave `np`, the batch is within the version's
limit, and `m` is the envelope, built by `ton.CreateExternalMessage`, around the body signed for seqno `np.seqno` with
the wallet's own state init attached exactly when `np.init`; decoding `m` with the `tlb.Message` decoder gives as
destination the wallet's OWN address (`int8` of its workchain and the hash of its state init — `address`, the same
function the three address APIs compute), the init flag `np.init` and that body. Nothing is sent when there are too
many messages. -/
theorem dest_is_self (c : SendCfg) (hlen : ∀ x, (c.H x).length = 32) (loop : Nat → Nat → List Poll → Bool) (vu rnd : Nat)
    (msgs : List RawMsg) (sc : Script) (wait : Nat) :
    (∀ m, (sendV2Msg c loop vu rnd msgs sc wait).sent = some m → m.depthO ≤ maxDepth →
      ∃ self st np body x, address c.H c.code c.v c.pk c.o = .ok self ∧ sc.acct = .ok st ∧ nextMessageParams c.v st = .ok np ∧
        msgs.length ≤ maxMessages c.v ∧
        createSignedBody c.H c.sign c.sk c.v (bodyIds c.v c.o) opSignedExternal np.seqno vu rnd msgs = .ok body ∧
        m = envelope self body (if np.init then some (walletStateInit c.code c.v c.pk c.o) else none) ∧
        decodeExtMessage m = .ok x ∧
        x.dest = some (bitsToInt (intToBits 8 (toI8 self.workchain)), bytesToBits self.hash) ∧ x.hasInit = np.init ∧
        x.body = .ordinary body.bits body.refs)
    ∧ (msgs.length > maxMessages c.v → (sendV2Msg c loop vu rnd msgs sc wait).sent = none ∧
        (sendV2Msg c loop vu rnd msgs sc wait).outcome.isOk = false) := by
  constructor
  · intro m hs hdep
    unfold sendV2Msg at hs
    cases ha : sc.acct with
    | err e => simp [ha] at hs
    | panic p => simp [ha] at hs
    | ok st =>
      simp only [ha] at hs
      cases hn : nextMessageParams c.v st with
      | err e => simp [hn] at hs
      | panic p => simp [hn] at hs
      | ok np =>
        simp only [hn] at hs
        obtain ⟨hle, hb⟩ := rawSendV2Msg_sent hs
        obtain ⟨self, body, hself, hbody, hext⟩ := buildExternal_ok hb
        have hh : self.hash.length = 32 := by
          unfold address at hself
          cases hx : (walletStateInit c.code c.v c.pk c.o).hashO? c.H with
          | ok h =>
            simp only [hx, bind, Outcome.bind, pure, Outcome.ok.injEq] at hself
            rw [← hself]
            unfold Cell.hashO? at hx
            split at hx
            · simp only [Outcome.ok.injEq] at hx; rw [← hx, Cell.hashO_eq_H_reprO]; exact hlen _
            · cases hx
          | err e => simp [hx, bind, Outcome.bind] at hself
          | panic e => simp [hx, bind, Outcome.bind] at hself
        rw [extMessage_ok self hh] at hext
        simp only [Outcome.ok.injEq] at hext
        subst hext
        have hdec := decodeExtMessage_envelope self hh body
          (if np.init then some (walletStateInit c.code c.v c.pk c.o) else none)
          (envelope_init_ok c.code (dataCell c.v c.pk c.o) np.init) hdep
        refine ⟨self, st, np, body, _, hself, rfl, hn, hle, hbody, rfl, hdec, rfl, ?_, rfl⟩
        cases np.init <;> rfl
  · intro hgt
    unfold sendV2Msg
    cases sc.acct with
    | err e => simp [Outcome.isOk]
    | panic p => simp [Outcome.isOk]
    | ok st =>
      simp only
      cases nextMessageParams c.v st with
      | err e => simp [Outcome.isOk]
      | panic p => simp [Outcome.isOk]
      | ok np => simp [rawSendV2Msg, hgt, Outcome.isOk]

/-- … and the captured message CARRIES the seqno of `NextMessageParams` (v3, v4, v5r1, v5 beta; field values within
their Go types): decoding it with the wallet's own decoder (`DecodeMessageV3/V4/V5…` + `ExtractRawMessages`) returns the
wallet's id fields, seqno `np.seqno`, the expiry and exactly the requested messages (decode ∘ build on the message that
was actually sent). -/
theorem sent_message_carries_params (c : SendCfg) (hlen : ∀ x, (c.H x).length = 32) (hsl : ∀ sk m, (c.sign sk m).length = 64)
    (hf : c.v.family = .v3 ∨ c.v.family = .v4 ∨ c.v.family = .v5r1 ∨ c.v.family = .v5beta)
    (hids : (bodyIds c.v c.o).WF) (loop : Nat → Nat → List Poll → Bool) (vu rnd : Nat) (hvu : vu < 4294967296)
    (msgs : List RawMsg) (hm : ∀ m ∈ msgs, m.mode < 256)
    (ht : (c.v.family = .v5r1 ∨ c.v.family = .v5beta) → ∀ m ∈ msgs, m.msg.ty ≠ tyLibrary ∧ m.msg.ty ≠ tyPruned)
    (sc : Script) (wait : Nat) (m : Cell) (hs : (sendV2Msg c loop vu rnd msgs sc wait).sent = some m) (hdep : m.depthO ≤ maxDepth)
    (hdepL : ∀ seqno, (signedLayout c.v (bodyIds c.v c.o) opSignedExternal seqno vu msgs).depthO ≤ maxDepth) :
    ∃ st np, sc.acct = .ok st ∧ nextMessageParams c.v st = .ok np ∧
      (np.seqno < 4294967296 →
        decodeMessage c.v m = .ok { ids := (bodyIds c.v c.o).restrict c.v, seqno := np.seqno, validUntil := vu, msgs := msgs }) := by
  obtain ⟨self, st, np, body, x, _, hacct, hnp, hle, hbody, hmeq, hdec, _, _, hxb⟩ :=
    (dest_is_self c hlen loop vu rnd msgs sc wait).1 m hs hdep
  refine ⟨st, np, hacct, hnp, fun hseq => ?_⟩
  have hn : (c.v.family = .v3 ∨ c.v.family = .v4) → msgs.length ≤ 4 := by
    intro h
    unfold maxMessages at hle
    rcases h with h | h <;> simpa [h] using hle
  rw [createSignedBody_ok c.H c.sign hsl c.sk c.v hf _ _ _ _ _ msgs hn (hdepL np.seqno)] at hbody
  simp only [Outcome.ok.injEq] at hbody
  unfold decodeMessage
  rw [hdec]
  simp only [bind, Outcome.bind, hxb, ← hbody, attached_ordinary]
  exact decodeBody_attached c.v hf _ hids _ _ _ (Or.inl rfl) hseq hvu msgs hn hm ht _ (hsl _ _)

/-- **The expiry of what `Send` sends**: `Send` is `SendV2` with valid-until = now + the wallet's message lifetime (180 s
by default, or the `WithMessageLifetime` value); before 2106 that is strictly in the future and exactly `lifetime`
seconds ahead — never already expired, never the default when another lifetime was asked for; and by
`sent_message_carries_params` it is the expiry the captured message decodes to. (Tied to Go by the oracle `go.m.expiry`:
decoded valid-until of the captured payload within ±3 s of now + lifetime, for the default, 1 minute and 1 hour.) -/
theorem send_expiry_is_now_plus_lifetime (c : SendCfg) (loop : Nat → Nat → List Poll → Bool) (nowSec : Nat) (lifetime : Option Nat)
    (rnd : Nat) (msgs : List RawMsg) (sc : Script) (wait : Nat) (h32 : nowSec + lifetime.getD defaultMessageLifetime < 4294967296)
    (hpos : 0 < lifetime.getD defaultMessageLifetime) :
    sendNow c loop nowSec lifetime rnd msgs sc wait = sendV2Msg c loop (nowSec + lifetime.getD defaultMessageLifetime) rnd msgs sc wait
    ∧ nowSec < sendExpiry nowSec lifetime ∧ sendExpiry nowSec none = (nowSec + 180) % 4294967296 := by
  have he : sendExpiry nowSec lifetime = nowSec + lifetime.getD defaultMessageLifetime := by
    unfold sendExpiry; exact Nat.mod_eq_of_lt h32
  refine ⟨?_, by rw [he]; omega, rfl⟩
  unfold sendNow sendV2Msg
  rw [he]

/-- The projection is faithful: when the builders succeed (C14 `fits_in_cell`, `fits_in_cell_highload`), the
message-level `SendV2` and its projection `sendV2` (on which the confirmation theorems are stated) have the same outcome
and send under exactly the same conditions. -/
theorem send_msg_refines_record (c : SendCfg) (hv : c.v.family ≠ .v1v2) (self : Address)
    (loop : Nat → Nat → List Poll → Bool) (vu rnd : Nat) (msgs : List RawMsg) (sc : Script) (wait : Nat)
    (hbuild : ∀ seqno init, ∃ m, buildExternal c seqno vu rnd msgs init = .ok m) :
    (sendV2Msg c loop vu rnd msgs sc wait).outcome = (sendV2 loop c.v self msgs.length sc wait).outcome
    ∧ (sendV2Msg c loop vu rnd msgs sc wait).sent.isSome = (sendV2 loop c.v self msgs.length sc wait).sent.isSome := by
  unfold sendV2Msg sendV2
  cases sc.acct with
  | err e => exact ⟨rfl, rfl⟩
  | panic p => exact ⟨rfl, rfl⟩
  | ok st =>
    simp only
    cases nextMessageParams c.v st with
    | err e => exact ⟨rfl, rfl⟩
    | panic p => exact ⟨rfl, rfl⟩
    | ok np =>
      simp only
      obtain ⟨m, hm⟩ := hbuild np.seqno np.init
      unfold rawSendV2Msg rawSendV2
      by_cases hgt : msgs.length > maxMessages c.v
      · simp [hgt]
      · simp only [hgt, ↓reduceIte, hm]
        cases hfam : c.v.family <;> simp only [hfam, ne_eq, not_true_eq_false] at hv ⊢
        all_goals (repeat' split) <;> simp_all

/-! ### confirmation -/

/-- If some poll made before the deadline returns, without error, a seqno larger than the one used, the loop reports
success. (True of the repaired loop; see `confirm_ok_false_before_fix`.) -/
theorem confirm_ok (wait seqno : Nat) (polls : List Poll)
    (h : ∃ p ∈ polls.takeWhile (fun p => decide (p.elapsed < wait)), p.err = false ∧ p.seqno > seqno) :
    confirmLoop wait seqno polls = true := by
  induction polls with
  | nil => simp at h
  | cons p ps ih =>
    unfold confirmLoop
    by_cases hd : p.elapsed < wait
    · simp only [hd, ↓reduceIte]
      simp only [List.takeWhile_cons, hd, decide_true, ↓reduceIte, List.mem_cons, exists_eq_or_imp] at h
      by_cases he : p.err = true
      · simp only [he, ↓reduceIte]
        apply ih
        rcases h with h | h
        · simp [he] at h
        · exact h
      · simp only [he, Bool.false_eq_true, ↓reduceIte]
        by_cases hs : p.seqno > seqno
        · simp [hs]
        · simp only [hs, ↓reduceIte]
          apply ih
          rcases h with h | h
          · exact absurd h.2 hs
          · exact h
    · simp [hd] at h

/-- Otherwise — no poll before the deadline returns a larger seqno without error — the loop reports the timeout. -/
theorem confirm_timeout (wait seqno : Nat) (polls : List Poll)
    (h : ¬ ∃ p ∈ polls.takeWhile (fun p => decide (p.elapsed < wait)), p.err = false ∧ p.seqno > seqno) :
    confirmLoop wait seqno polls = false := by
  induction polls with
  | nil => rfl
  | cons p ps ih =>
    unfold confirmLoop
    by_cases hd : p.elapsed < wait
    · simp only [hd, ↓reduceIte]
      simp only [List.takeWhile_cons, hd, decide_true, ↓reduceIte, List.mem_cons, exists_eq_or_imp, not_or] at h
      have ih' := ih h.2
      by_cases he : p.err = true
      · simp [he, ih']
      · simp only [he, Bool.false_eq_true, ↓reduceIte]
        by_cases hs : p.seqno > seqno
        · exact absurd ⟨by simpa using he, hs⟩ h.1
        · simp [hs, ih']
    · simp [hd]

/-- The whole send: with a working `SendMessage`, a positive waiting time and a version other than highload, `SendV2`
returns success exactly when the confirmation loop does. -/
theorem send_confirms (v : Version) (self : Address) (n : Nat) (sc : Script) (wait : Nat) (st : AcctState) (np : NextParams)
    (ha : sc.acct = .ok st) (hn : nextMessageParams v st = .ok np) (hle : n ≤ maxMessages v) (hs : sc.sendErr = false)
    (hw : wait ≠ 0) (hv : v ≠ .highloadV2R2) :
    ((sendV2 confirmLoop v self n sc wait).outcome.isOk = confirmLoop wait np.seqno sc.polls) := by
  have hfam : v.family ≠ .v1v2 := by
    intro hf
    unfold nextMessageParams at hn
    simp [hf] at hn
  unfold sendV2
  simp only [ha, hn]
  unfold rawSendV2
  simp only [Nat.not_lt.mpr hle, ↓reduceIte, hs, Bool.false_eq_true, hw, hv]
  cases hf : v.family <;> simp only [hf] at hfam ⊢ <;> first | (exact absurd rfl hfam) | (split <;> simp_all [Outcome.isOk])

/-- The loop as it stood before the repair violated `confirm_ok`: on the history "the first poll, at time 0, answers
seqno + 1 without error" it reports the timeout (replayed on the Go code by `corpus/C15/confirm_inverted.ops`). -/
theorem confirm_ok_false_before_fix :
    ∃ wait seqno polls,
      (∃ p ∈ polls.takeWhile (fun p => decide (p.elapsed < wait)), p.err = false ∧ p.seqno > seqno) ∧
      confirmLoopV0 wait seqno polls = false :=
  ⟨10, 0, [{ elapsed := 0, seqno := 1, err := false }], by decide, by decide⟩

/-! ### the v5r1 wallet id: regenerated Go code against the model -/

/-- tie (X4, regenerated from wallet/wallet_v5.go): the Go function `genContextID(uint32(workchain))`, translated to
`BitVec` arithmetic on every run (`Gen.WalletV5Id.genContextID`), equals the model's `Wallet.genContextID` for every
integer workchain. The translator renders `boc.Cell.WriteUint`/`ReadUint` on a fresh cell as shift-or on an
accumulator: that semantics of `WriteUint/ReadUint` is trusted here and proved for the model in C06. -/
theorem gen_genContextID (wc : Int) :
    (Gen.WalletV5Id.genContextID (BitVec.ofInt 32 wc)).toNat = Wallet.genContextID wc :=
  GenTies.gen_genContextID wc

/-- tie (X4, regenerated from wallet/wallet_v5.go): the block of `NewWalletV5R1`
`contextID := int64(genContextID(uint32(workchain))); walletID := contextID ^ networkGlobalID`, stored as
`uint32(walletID)`, on a Go `int` workchain and the `int64` of an `int32` network id, equals the model's
`genContextID wc ^^^ toU32 net`. (The semantics of `boc.Cell.WriteUint/ReadUint` on a fresh cell used by the
translator inside `genContextID` is trusted here and proved for the model in C06.) -/
theorem gen_walletID (wc net : Int) (hw : -(2 : Int) ^ 63 ≤ wc ∧ wc < 2 ^ 63)
    (hn : -(2 : Int) ^ 31 ≤ net ∧ net < 2 ^ 31) :
    (Gen.WalletV5Id.walletID (BitVec.ofInt 64 wc) (BitVec.ofInt 64 net)).toNat
      = Wallet.genContextID wc ^^^ Wallet.toU32 net :=
  GenTies.gen_walletID wc net hw hn

/-- tie (X4, regenerated from wallet/wallet_v5.go): on the options of a wallet the regenerated block computes the
`walletIdV5R1` that `dataBitsSeq` stores in the v5r1 data cell (and on which `identFields` / the injectivity theorems
rest). Same trust note: `boc.Cell.WriteUint/ReadUint` on a fresh cell as used by the translator is trusted here and
proved for the model in C06. -/
theorem gen_walletIdV5R1 (o : Opts) (hw : -(2 : Int) ^ 63 ≤ o.wc ∧ o.wc < 2 ^ 63)
    (hn : -(2 : Int) ^ 31 ≤ o.netOr ∧ o.netOr < 2 ^ 31) :
    (Gen.WalletV5Id.walletID (BitVec.ofInt 64 o.wc) (BitVec.ofInt 64 o.netOr)).toNat = walletIdV5R1 o :=
  GenTies.gen_walletIdV5R1 o hw hn

/-! ### the default sub-wallet id of v3 / v4 / highload wallets: regenerated Go code against the model -/

/-- tie (X4, regenerated from wallet/wallet_v3.go): the Go expression `uint32(DefaultSubWallet+workchain)` of
`newWalletV3` (workchain a Go `int`, i.e. `BitVec 64`; wrapping add, truncation to 32 bits), translated on every run
(`Gen.WalletInts.subWalletDefaultV3`), equals the model's `toU32 (defaultSubWallet + wc)` for every `int64` workchain. -/
theorem gen_subWalletDefault (wc : Int) (h : -(2 : Int) ^ 63 ≤ wc ∧ wc < 2 ^ 63) :
    (Gen.WalletInts.subWalletDefaultV3 (BitVec.ofInt 64 wc)).toNat = Wallet.toU32 (Wallet.defaultSubWallet + wc) :=
  GenTies.gen_subWalletDefault wc h

/-- tie (X4, regenerated from wallet/wallet_v4.go): the same expression in `newWalletV4`. -/
theorem gen_subWalletDefaultV4 (wc : Int) (h : -(2 : Int) ^ 63 ≤ wc ∧ wc < 2 ^ 63) :
    (Gen.WalletInts.subWalletDefaultV4 (BitVec.ofInt 64 wc)).toNat = Wallet.toU32 (Wallet.defaultSubWallet + wc) :=
  GenTies.gen_subWalletDefaultV4 wc h

/-- tie (X4, regenerated from wallet/wallet_highload_v2.go): the same expression in `newWalletHighloadV2`. -/
theorem gen_subWalletDefaultHighload (wc : Int) (h : -(2 : Int) ^ 63 ≤ wc ∧ wc < 2 ^ 63) :
    (Gen.WalletInts.subWalletDefaultHighload (BitVec.ofInt 64 wc)).toNat
      = Wallet.toU32 (Wallet.defaultSubWallet + wc) :=
  GenTies.gen_subWalletDefaultHighload wc h

/-- tie (X4, regenerated from wallet/wallet_v3.go, wallet_v4.go, wallet_highload_v2.go): without an explicit
`SubWalletID` option, the `Opts.subDefault` that `dataBitsSeq` stores in the v3 / v4 / highload data cell (and that
`identFields` compares) is the regenerated Go expression on the options' workchain. -/
theorem gen_subDefault (o : Opts) (h : o.subWallet = none) (hw : -(2 : Int) ^ 63 ≤ o.wc ∧ o.wc < 2 ^ 63) :
    Opts.subDefault o = (Gen.WalletInts.subWalletDefaultV3 (BitVec.ofInt 64 o.wc)).toNat :=
  GenTies.gen_subDefault o h hw

/-- tie (X4, regenerated from wallet/wallet_v4.go, wallet_highload_v2.go): the three regenerated constructors compute
the same function (the Go expressions have the same text). -/
theorem gen_subWalletDefault_same :
    Gen.WalletInts.subWalletDefaultV4 = Gen.WalletInts.subWalletDefaultV3 ∧
      Gen.WalletInts.subWalletDefaultHighload = Gen.WalletInts.subWalletDefaultV3 :=
  ⟨GenTies.gen_subWalletDefaultV4_eq_V3, GenTies.gen_subWalletDefaultHighload_eq_V3⟩
/-! ### errors of the blockchain interface, cancellation -/

theorem confirmLoop_all_err (wait seqno : Nat) (ps : List Poll) :
    confirmLoop wait seqno (ps.map fun p => { p with err := true }) = false := by
  induction ps with
  | nil => rfl
  | cons p ps ih => simp [confirmLoop, ih]

theorem confirmLoop_cancelFrom (wait seqno : Nat) : ∀ (j : Nat) (ps : List Poll),
    confirmLoop wait seqno (cancelFrom j ps) = confirmLoop wait seqno (ps.take j)
  | 0, ps => by simp [cancelFrom, confirmLoop_all_err, confirmLoop]
  | _ + 1, [] => by simp [cancelFrom]
  | j + 1, p :: ps => by
    simp only [cancelFrom, List.take_succ_cons, confirmLoop, confirmLoop_cancelFrom wait seqno j ps]

/-- Errors of the blockchain interface propagate and nothing is fabricated: a failing `GetAccountState` or a failing
derivation of the parameters (undecodable data of an active account) ends the send with that error before anything is
sent; a failing `SendMessage` is returned after the one attempt; a frozen account is treated like an uninitialised one
by v3/v4/v5 (seqno 0, state-init attached). With a context-honouring blockchain, cancellation before call k shows as
exactly these errors — before `GetAccountState` nothing is sent, before `SendMessage` the send fails — and during the
confirmation phase the loop can only report success on a poll served BEFORE the cancellation (it keeps polling, every
answer an error, until the deadline: the code never looks at the context itself). -/
theorem send_error_propagates (loop : Nat → Nat → List Poll → Bool) (v : Version) (self : Address) (n : Nat) (sc : Script) (wait : Nat) :
    (∀ e, sc.acct = .err e → (sendV2 loop v self n sc wait).outcome = .err e ∧ (sendV2 loop v self n sc wait).sent = none)
    ∧ (∀ st e, sc.acct = .ok st → nextMessageParams v st = .err e →
        (sendV2 loop v self n sc wait).outcome = .err e ∧ (sendV2 loop v self n sc wait).sent = none)
    ∧ (∀ st np, sc.acct = .ok st → nextMessageParams v st = .ok np → n ≤ maxMessages v → sc.sendErr = true →
        (sendV2 loop v self n sc wait).outcome = .err "send" ∧
        (sendV2 loop v self n sc wait).sent = some { destWc := toI8 self.workchain, destHash := self.hash, init := np.init, seqno := np.seqno })
    ∧ (v.family ≠ .v1v2 → v.family ≠ .highload → nextMessageParams v .frozen = .ok { seqno := 0, init := true })
    ∧ ((sendV2Ctx loop v self n sc wait (some 0)).sent = none ∧ ∃ e, (sendV2Ctx loop v self n sc wait (some 0)).outcome = .err e)
    ∧ (∀ k, k ≤ 1 → (sendV2Ctx loop v self n sc wait (some k)).outcome.isOk = false)
    ∧ (∀ k seqno, confirmLoop wait seqno (sc.cancelled (some k)).polls = confirmLoop wait seqno (sc.polls.take (k - 2))) := by
  refine ⟨?_, ?_, ?_, ?_, ?_, ?_, ?_⟩
  · intro e h; simp [sendV2, h]
  · intro st e h1 h2; simp [sendV2, h1, h2]
  · intro st np h1 h2 hn hs
    have hfam : v.family ≠ .v1v2 := by
      intro hf; unfold nextMessageParams at h2; simp [hf] at h2
    simp only [sendV2, h1, h2, rawSendV2, Nat.not_lt.mpr hn, ↓reduceIte, hs]
    cases hf : v.family <;> simp_all
  · intro h1 h2
    unfold nextMessageParams
    cases hf : v.family <;> simp_all
  · simp [sendV2Ctx, Script.cancelled, sendV2]
  · intro k hk
    unfold sendV2Ctx sendV2
    cases ha : (sc.cancelled (some k)).acct with
    | err e => simp [Outcome.isOk]
    | panic p => simp [Outcome.isOk]
    | ok st =>
      simp only []
      cases hn : nextMessageParams v st with
      | err e => simp [Outcome.isOk]
      | panic p => simp [Outcome.isOk]
      | ok np =>
        have hse : (sc.cancelled (some k)).sendErr = true := by simp [Script.cancelled, hk]
        simp only [rawSendV2, hse]
        split
        · simp [Outcome.isOk]
        · cases hf : v.family <;> simp [Outcome.isOk]
  · intro k seqno
    simp only [Script.cancelled]
    exact confirmLoop_cancelFrom wait seqno (k - 2) sc.polls

/-! ### mnemonic → key -/

section seed
open Tongo.Wallet.Seed

/-- `SeedToPrivateKey` accepts a text exactly when it has at least 12 space-separated fields and the first (only) byte
of `PBKDF2(HMAC-SHA-512(key = text, msg = ""), "TON seed version", 390 iterations, 1 byte)` is 0 — the rule
`checkSumSeed` tests — and then returns the Ed25519 key whose seed is
`PBKDF2(same hash, "TON default seed", 100000 iterations, 32 bytes)`. There is no password variant in the code and
the words are not looked up in the word list. (`Kdf` = the two primitives; the driver runs HMAC/PBKDF2-SHA-512.) -/
theorem seed_version_check (K : Kdf) (seed : List UInt8) :
    (∀ k, seedToPrivateKey K seed = .ok k ↔
        (12 ≤ fieldCount seed ∧ checkSumSeed K seed = .ok true ∧
          k = K.pbkdf2 (K.hmac seed []) saltDefault 100000 32 ∧ k.length = 32))
    ∧ (checkSumSeed K seed = .ok true ↔ ∃ rest, K.pbkdf2 (K.hmac seed []) saltVersion 390 1 = 0 :: rest)
    ∧ (fieldCount seed < 12 → ∃ e, seedToPrivateKey K seed = .err e)
    ∧ (checkSumSeed K seed = .ok false → ∃ e, seedToPrivateKey K seed = .err e) := by
  refine ⟨?_, ?_, ?_, ?_⟩
  · intro k
    unfold seedToPrivateKey seedToKeyWith checkSumSeed
    by_cases hc : fieldCount seed < 12
    · simp [hc]
    · simp only [hc, ↓reduceIte]
      cases hv : versionOk K versionIters seed with
      | panic p => simp
      | err e => simp
      | ok b =>
        cases b with
        | false => simp
        | true =>
          simp only [seedHash, keyIters, true_and]
          by_cases hl : (K.pbkdf2 (K.hmac seed []) saltDefault 100000 32).length = 32
          · simp only [hl, ne_eq, not_true_eq_false, ↓reduceIte, Outcome.ok.injEq]
            constructor
            · intro h; subst h; exact ⟨by omega, rfl, hl⟩
            · intro h; exact h.2.1.symm
          · simp only [hl, ne_eq, not_false_eq_true, ↓reduceIte, reduceCtorEq, false_iff, not_and]
            intro _ h; rw [h]; exact hl
  · unfold checkSumSeed versionOk seedHash versionIters
    cases h : K.pbkdf2 (K.hmac seed []) saltVersion 390 1 with
    | nil => simp
    | cons b rest => simp
  · intro h
    unfold seedToPrivateKey seedToKeyWith
    simp [h]
  · intro h
    unfold seedToPrivateKey seedToKeyWith
    unfold checkSumSeed at h
    by_cases hc : fieldCount seed < 12
    · simp [hc]
    · simp [hc, h]

theorem fieldCount_joinWords : ∀ (ws : List (List UInt8)), ws ≠ [] → (∀ w ∈ ws, 32 ∉ w) →
    fieldCount (joinWords ws) = ws.length := by
  intro ws
  induction ws with
  | nil => intro h; exact absurd rfl h
  | cons w rest ih =>
    intro _ hw
    have hw0 : (w.filter (· == 32)).length = 0 := by
      rw [List.length_eq_zero_iff, List.filter_eq_nil_iff]
      intro x hx hx32
      have : x = 32 := by simpa using hx32
      exact hw w (by simp) (this ▸ hx)
    cases rest with
    | nil => simp [joinWords, fieldCount, hw0]
    | cons w2 rest2 =>
      have ih' := ih (by simp) (fun x hx => hw x (by simp [hx]))
      unfold fieldCount at ih' ⊢
      simp only [joinWords, List.filter_append, List.length_append, hw0, List.length_cons]
      simp only [List.filter_cons, beq_self_eq_true, ↓reduceIte, List.filter_nil, List.length_cons, List.length_nil] at ih' ⊢
      omega

theorem wordIndices_length (bits : List Bool) (n : Nat) : (wordIndices bits n).length = n := by
  induction n generalizing bits with
  | zero => rfl
  | succ n ih => simp [wordIndices, ih]

/-- `RandomSeed` only returns seeds the version rule accepts: the result is the text built from one of the random
draws, `checkSumSeed` holds for it, it has 24 fields (the words contain no space), and therefore `SeedToPrivateKey`
accepts it (whenever PBKDF2 returns the 32 bytes asked for). -/
theorem random_seed_accepted (K : Kdf) (words : Nat → List UInt8) (hw : ∀ i, 32 ∉ words i) (draws : List (List UInt8))
    (s : List UInt8) (h : randomSeed K words draws = .ok (some s)) :
    checkSumSeed K s = .ok true ∧ (∃ d ∈ draws, s = randSeed words d) ∧ fieldCount s = 24 ∧
      ((K.pbkdf2 (K.hmac s []) saltDefault 100000 32).length = 32 →
        seedToPrivateKey K s = .ok (K.pbkdf2 (K.hmac s []) saltDefault 100000 32)) := by
  have hfc : ∀ d, fieldCount (randSeed words d) = 24 := by
    intro d
    unfold randSeed
    rw [fieldCount_joinWords]
    · simp [wordIndices_length]
    · intro h
      have := congrArg List.length h
      simp [wordIndices_length] at this
    · intro w hwm
      obtain ⟨i, _, rfl⟩ := List.mem_map.mp hwm
      exact hw i
  have hmain : checkSumSeed K s = .ok true ∧ ∃ d ∈ draws, s = randSeed words d := by
    induction draws with
    | nil => simp [randomSeed] at h
    | cons d ds ih =>
      unfold randomSeed at h
      cases hc : checkSumSeed K (randSeed words d) with
      | panic p => simp [hc] at h
      | err e => simp [hc] at h
      | ok b =>
        cases b with
        | true =>
          simp only [hc, Outcome.ok.injEq, Option.some.injEq] at h
          subst h
          exact ⟨hc, d, by simp, rfl⟩
        | false =>
          simp only [hc] at h
          obtain ⟨h1, d', hd', h2⟩ := ih h
          exact ⟨h1, d', by simp [hd'], h2⟩
  obtain ⟨hck, d, hd, hs⟩ := hmain
  refine ⟨hck, ⟨d, hd, hs⟩, by rw [hs]; exact hfc d, ?_⟩
  intro hl
  exact ((seed_version_check K s).1 _).mpr ⟨by rw [hs, hfc d]; decide, hck, rfl, hl⟩

end seed

/-! ### the hypotheses are satisfiable -/

/-- non-vacuity of `confirm_ok`: errors first, then an advance at the fourth poll, well before the deadline -/
example : confirmLoop 300 7 [⟨0, 7, false⟩, ⟨30, 9, true⟩, ⟨60, 6, false⟩, ⟨90, 8, false⟩] = true := by decide

/-- non-vacuity of `send_params_active`, `data_injective` premises: a v4r2 wallet, 32-byte key, explicit sub-wallet -/
example : (Version.v4r2).family ≠ .v1v2 ∧ (List.replicate 32 (7 : UInt8)).length = 32 ∧
    ({ subWallet := some 5 } : Opts).WF := by
  refine ⟨by decide, by decide, ?_⟩
  intro s hs
  simp at hs
  omega

/-! non-vacuity of the collision-freedom premises of `address_injective` / `data_injective` / `address_distinct` on two
DIFFERENT wallets: a toy 32-byte "hash" (the last 32 bytes, reversed) that is collision-free on the data-cell
representations and on the state-init representations of two v1r1 wallets with different keys (any code cell) -/

/-- the toy hash -/
def nvHash (x : List UInt8) : List UInt8 := (x.reverse ++ List.replicate 32 0).take 32
theorem nvHash_length (x : List UInt8) : (nvHash x).length = 32 := by simp [nvHash]
theorem nvHash_append (x h : List UInt8) (hl : h.length = 32) : nvHash (x ++ h) = h.reverse := by
  simp [nvHash, List.reverse_append, hl]
theorem nv_toppedUp_bytes (bs : List UInt8) : toppedUp (bytesToBits bs) = bs := by
  unfold toppedUp addTag
  rw [if_pos (by simp), Bits.bitsToBytes_bytesToBits_co]
/-- the representation of a v1 data cell: descriptors, seqno 0, the key -/
theorem nv_data_v1_repr (pk : List UInt8) (hl : pk.length = 32) :
    (dataCell .v1r1 pk {}).reprO H = [d1 0 false 0, d2 288] ++ [0, 0, 0, 0] ++ pk := by
  have e : dataBits .v1r1 pk {} = bytesToBits ([0, 0, 0, 0] ++ pk) := by
    simp only [dataBits, dataBitsSeq, Version.family, pkBits, pkBytes_of_length hl, bytesToBits_append_co]
    rfl
  unfold dataCell
  rw [Cell.reprO_leaf, e, reprNoRefs, nv_toppedUp_bytes]
  simp [hl]
theorem nv_cf_of_ne (a b : List UInt8) (h : H a ≠ H b) : CollisionFree H [a, b] := by
  intro x hx y hy he
  simp only [List.mem_cons, List.not_mem_nil, or_false] at hx hy
  rcases hx with rfl | rfl <;> rcases hy with rfl | rfl
  · rfl
  · exact absurd he h
  · exact absurd he.symm h
  · rfl

example (code : Cell) :
    List.replicate 32 (1 : UInt8) ≠ List.replicate 32 2 ∧ (∀ x, (nvHash x).length = 32) ∧
    CollisionFree nvHash [(dataCell .v1r1 (List.replicate 32 1) {}).reprO nvHash, (dataCell .v1r1 (List.replicate 32 2) {}).reprO nvHash] ∧
    CollisionFree nvHash [(walletStateInit code .v1r1 (List.replicate 32 1) {}).reprO nvHash,
      (walletStateInit code .v1r1 (List.replicate 32 2) {}).reprO nvHash] := by
  have hA : nvHash ((dataCell .v1r1 (List.replicate 32 1) {}).reprO nvHash) = (List.replicate 32 (1 : UInt8)).reverse := by
    rw [nv_data_v1_repr nvHash _ rfl, nvHash_append _ _ rfl]
  have hB : nvHash ((dataCell .v1r1 (List.replicate 32 2) {}).reprO nvHash) = (List.replicate 32 (2 : UInt8)).reverse := by
    rw [nv_data_v1_repr nvHash _ rfl, nvHash_append _ _ rfl]
  refine ⟨by decide, nvHash_length, nv_cf_of_ne _ _ _ (by rw [hA, hB]; decide), nv_cf_of_ne _ _ _ ?_⟩
  unfold walletStateInit
  rw [stateInit_reprO, stateInit_reprO, ← List.append_assoc, ← List.append_assoc (reprNoRefs _ _ _ _ ++ _),
    nvHash_append _ _ (by rw [Cell.hashO_eq_H_reprO]; exact nvHash_length _),
    nvHash_append _ _ (by rw [Cell.hashO_eq_H_reprO]; exact nvHash_length _),
    Cell.hashO_eq_H_reprO, Cell.hashO_eq_H_reprO, hA, hB]
  decide

/-- non-vacuity of the option-list premises of `address_same_all_apis` / `options_order_irrelevant`: a caller's list
with a repeated and reordered option has the same effective settings as the straight one -/
example : lastWorkchain [.net 5, .workchain 7, .subWallet 1, .workchain (-1)] = some (-1) ∧
    applyOptions [.net 5, .workchain 7, .subWallet 1, .workchain (-1)] = applyOptions [.workchain (-1), .subWallet 1, .net 5] := by
  decide

end Tongo.C15
