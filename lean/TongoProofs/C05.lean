import TongoModel.Hashmap
/-! Property C05 — placeholder, theorems follow. -/
